#!/bin/bash
# usage: seed_recheck.sh <Cxx> [check ids...] — re-run registered checks against an already confirmed seeded change
# (applies seeded/<id>/patch.diff to /repo, runs the checks, ALWAYS undoes it); appends the result to seeded/<id>/recheck.log
set -u
ID=$1; shift
CHECKS=${@:-$ID}
DST=/verif/seeded/$ID
cd /repo && git status --short | grep -v '^??' | head -3
APPLY="git -C /repo apply"
if ! $APPLY --check $DST/patch.diff 2>/dev/null; then APPLY="git -C /repo apply -C1"; fi
if ! $APPLY --check $DST/patch.diff 2>/dev/null; then APPLY="git -C /repo apply -3"; fi
if ! $APPLY --check $DST/patch.diff 2>/dev/null; then echo "$ID: patch does not apply to /repo HEAD $(git -C /repo rev-parse --short HEAD)"; exit 3; fi
$APPLY $DST/patch.diff
DET=""
for c in $CHECKS; do
  ( cd /verif && timeout 3000 ./check $c > /verif/work/recheck_${ID}_$c.log 2>&1 ); rc=$?
  v=$(grep -c '^VIOLATION' /verif/work/recheck_${ID}_$c.log)
  echo "$ID: check $c rc=$rc violations=$v :: $(grep '^VIOLATION' /verif/work/recheck_${ID}_$c.log | head -1 | cut -c1-160)"
  [ $rc -ne 0 ] && DET="$DET $c"
done
git -C /repo checkout -- . ; git -C /repo status --short | grep -v '^??' | head -3
echo "$(date -u +%FT%TZ) repo=$(git -C /repo rev-parse --short HEAD) checks='$CHECKS' detected_by='$DET'" >> $DST/recheck.log
echo "$ID detected_by:$DET"
