#!/bin/bash
# usage: seed_eval.sh <Cxx> [check ids...]   — confirm a seeded change, then run checks against it in /repo
# (applies the patch to /repo, runs the checks, and ALWAYS undoes it).
set -u
ID=$1; shift
CHECKS=${@:-$ID}
WT=/tmp/seed_$ID; OUT=/tmp/seed_${ID}_out; DST=/verif/seeded/$ID
mkdir -p $DST
cp $OUT/patch.diff $DST/patch.diff
for f in $OUT/*; do case $(basename $f) in patch.diff|meta.json) ;; *) cp $f $DST/ ;; esac; done
cd $WT || exit 2
DEMO_CMD=$(python3 -c "import json;print(json.load(open('$OUT/meta.json'))['demo'])" | sed 's/^cd [^&]*&& *//')
echo "== confirming in $WT (demo: $DEMO_CMD)"
git -C $WT checkout -q -- src 2>/dev/null; git -C $WT apply $OUT/patch.diff || { echo "patch does not apply in worktree"; exit 2; }
[ -f $OUT/patch_ported.diff ] && cp $OUT/patch_ported.diff $DST/patch.diff && cp $OUT/patch_original.diff $DST/patch_original.diff
( eval "$DEMO_CMD" ) > /tmp/seed_${ID}_demo_with.log 2>&1; RC_WITH=$?
FILTER=(); ls $WT/tests/seed_*.rs >/dev/null 2>&1 && FILTER=(-E 'not binary(/^seed_/)')
( cargo nextest run --workspace --no-fail-fast --offline "${FILTER[@]}" ) > /tmp/seed_${ID}_suite.log 2>&1; RC_SUITE=$?
git -C $WT apply -R $OUT/patch.diff
( eval "$DEMO_CMD" ) > /tmp/seed_${ID}_demo_without.log 2>&1; RC_WITHOUT=$?
git -C $WT apply $OUT/patch.diff
echo "demo with patch rc=$RC_WITH (want != 0); suite rc=$RC_SUITE (want 0) [$(grep -E 'tests run' /tmp/seed_${ID}_suite.log | tail -1)]; demo without patch rc=$RC_WITHOUT (want 0)"
CONFIRMED=false
if [ $RC_WITH -ne 0 ] && [ $RC_SUITE -eq 0 ] && [ $RC_WITHOUT -eq 0 ]; then CONFIRMED=true; fi
echo "confirmed=$CONFIRMED"
# run the checks against /repo with the patch applied
cd /repo && git status --short | grep -v '^??' | head -3
APPLY="git -C /repo apply"
if ! $APPLY --check $DST/patch.diff 2>/dev/null; then APPLY="git -C /repo apply -C1"; fi   # hooks added later shifted the context
if ! $APPLY --check $DST/patch.diff 2>/dev/null; then echo "patch does not apply to /repo"; DET="patch-does-not-apply"; else
$APPLY $DST/patch.diff
DET=""
for c in $CHECKS; do
  ( cd /verif && timeout 3000 ./check $c > /tmp/seed_${ID}_check_$c.log 2>&1 ); rc=$?
  v=$(grep -c '^VIOLATION' /tmp/seed_${ID}_check_$c.log)
  echo "check $c rc=$rc violations=$v :: $(grep '^VIOLATION' /tmp/seed_${ID}_check_$c.log | head -2 | tr '\n' ' ')"
  if [ $rc -ne 0 ]; then DET="$DET $c"; rep=$(grep -m1 '^VIOLATION' /tmp/seed_${ID}_check_$c.log | sed 's/.*replay=\([^ ]*\).*/\1/'); [ -f "$rep" ] && cp $rep $DST/detected_by_${c}.json; fi
done
git -C /repo checkout -- . ; fi
git -C /repo status --short | grep -v '^??' | head -3
python3 - <<PY
import json
m=json.load(open('$OUT/meta.json'))
m['confirmed_by_me']=dict(demo_fails_with_patch=$RC_WITH!=0, suite_passes=$RC_SUITE==0, demo_passes_without_patch=$RC_WITHOUT==0)
m['checks_run']='$CHECKS'.split()
m['detected_by']='$DET'.split()
import os
if os.path.exists('$DST/meta.json'):
    old=json.load(open('$DST/meta.json'))
    if 'history' in old: m['history']=old['history']
json.dump(m,open('$DST/meta.json','w'),indent=1)
print('detected_by:', m['detected_by'])
PY
# restore evidence of the unchanged tree for the checks we ran
