#!/usr/bin/env python3
"""Regenerate /verif/MANIFEST.json from checklib/props.py (claimed checks) and the table below."""
import json, os, sys
ROOT = os.path.dirname(os.path.dirname(os.path.abspath(__file__)))
sys.path.insert(0, os.path.join(ROOT, "checklib"))
import props

TEXT = {
 "C01": ("proof", "Lean theorems: the parser's IR refines canonical Brainfuck (both directions, prefix) for every program, input and width; arithmetic lemmas of the optimiser (trip count, closed forms); the optimiser as a whole is tied by exact-model correspondence and end-to-end comparison with the proved semantics", "5/C01"),
 "C02": ("proof", "Lean theorems about the bytecode machine (contract soundness, limited mode; late-pass preservation in Props/C02 when complete) + EXACT tie of bc::CodeGen::translate to the pure Lean BcGen.translate + threaded interpreter = Bc.run on real bytecode in debug and release profiles + end-to-end comparison with the proved canonical semantics; whole-generator preservation is partial", "5/C02"),
 "C03": ("proof", "Lean theorems (Props/C03): per-instruction simulation of every copy/add/sub/mul selector arm against an x86 semantics validated on this CPU, straight-line composition, witnesses for the repaired arms; machine code = encoding of the modelled instruction lists EXACTLY on all selector forms; bytecode executed by the JIT on the CPU vs the bytecode semantics; end-to-end vs the proved canonical semantics. Control flow, calls, probes and the whole-program theorem are partial", "5/C03"),
 "C04": ("proof", "Lean theorem inplace_* (Props/C04): the in-place interpreter model and the canonical semantics reach equal states for every balanced program, environment and width, termination reflected, prefix property, limited mode; model tied to src/exec/inplace.rs by differential correspondence on every run", "5/C04"),
 "C05": ("proof", "Lean theorems (Props/C05): divergence certificates are sound; for the in-place interpreter and the IR interpreter at level 0 canonical divergence/termination and the output before divergence are preserved (corollaries of the C04/C01 refinements); other back ends and levels are held per program to the Lean model's halting/divergence certificate", "5/C05"),
 "C06": ("proof", "Lean theorems (Props/C06): on the layout model of the bounds-checked executors every tape access stays inside the allocation for every checked program and every move, growth preserves contents (with C09); the layout model equals the real (size, offset); all back ends run under a guard-page allocator (left and right)", "5/C06"),
 "C07": ("proof", "Lean theorems (Props/C07 + C04): limited execution of the in-place, IR and bytecode machines is a faithful prefix of the unlimited run, finishes with enough budget, terminates within an explicit bound and never reports finished on a divergent run; budget ladder on all real back ends against the canonical events", "5/C07"),
 "C08": ("proof", "Lean theorems (Props/C08): I/O failure semantics of the shared state operations, stops are final and only at failing I/O on every machine, a refused byte's prefix is the fault-free run's prefix, in-place and IR (level 0) stop exactly like the canonical machine; exhaustive fault-index enumeration on all real back ends", "5/C08"),
 "C09": ("proof", "Lean theorems (Props/C09): Memory refines an unbounded zero-initialised array for every call history under an explicit 2^59 range guard; model tied to src/runtime.rs by call-history correspondence incl. (size, offset) after every call", "5/C09"),
 "C10": ("proof", "Lean theorems (Props/C10): mode-independence of the bytecode semantics, unchecked = checked while no growth happens, static region condition, level-0 offsets bounded by the program length; execute_unsafe on pre-grown contexts under guard pages vs canonical events", "5/C10"),
 "C11": ("proof", "Lean theorems (Props/C11): the executable contract checker BcWf.check is sound w.r.t. the bytecode semantics (no bad branch/form, window, temp indices, definite initialisation on every path, dead-after-instruction for undeclared registers); the verified checker is run on the exact bytecode produced for every sampled program at both generator settings", "5/C11"),
 "C12": ("proof", "Lean theorems (Props/C12): parser accepts iff balanced, error kind/position = declarative spec, comment and UTF-8 insensitivity, totality; model tied to Program::parse by structural IR/error correspondence", "5/C12"),
 "C13": ("proof", "Lean theorems (C11 no unimplemented form at run time, C12 parser totality) + exact ties of the bytecode and machine-code generators to pure Lean functions; panics, hash-seed independence, reuse and blow-up are observed on the real code (catch_unwind, double/two-process compilation, triple execution)", "5/C13"),
 "C14": ("proof", "Lean theorems (Props/C14) for every width w >= 1 and all operands: pow/inv/div contracts and conversion round trips; model tied to src/lib.rs exhaustively at 8 bit and on boundary/random operands at 16/32/64", "5/C14"),
 "C15": ("proof", "Lean theorems (Props/C15): value of add/mul/neg/half/normalize/substitution for all part lists; decompositions recompose under the normal form all constructors preserve; model tied to ir::Expr by operation-tree correspondence", "5/C15"),
 "C16": ("proof", "Lean theorems (Props/C16) about the front-end model with the flag table regenerated from src/bin/hpbf.rs on every run (translator) and proved equal to the model; black-box comparison of the real binary with the model and the canonical semantics", "5/C16"),
 "C17": ("proof", "Lean theorems (Props/C17): with a fallible allocator the tape-growth model aborts on failure and never continues; translator checks the null-check pattern at every alloc_zeroed site; fault injection (k-th allocation fails) on the real back ends observes abort, never a crash or wrong continuation", "5/C17"),
 "C18": ("proof", "Lean theorems (Props/C18): SmallVec refines Vec and drops each element exactly once for every capacity and history incl. abandoned by-value iterators; model tied to src/smallvec.rs by drop-tracking history correspondence", "5/C18"),
}
NOTE = "Trusted base: Lean 4.33 kernel with axioms propext/Classical.choice/Quot.sound only (audited every run); the hand-written model is tied to the code by differential correspondence (tested); rustc/std/CPU/OS modelled. See evidence file for the per-property scope and what is not proved."

def main():
    checks = []
    for pid in sorted(props.PROPS):
        cat, text, ref = TEXT[pid]
        checks.append(dict(
            property_id=pid,
            quick_cmd=f"./check {pid} --tier quick",
            thorough_cmd=f"./check {pid} --tier thorough",
            evidence_file=f"/verif/evidence/{pid}.json",
            replay_cmd_template=f"./check {pid} --replay {{path}}",
            engine="lean4-proof+correspondence",
            level_claimed=dict(category=cat, text=text, design_ref="DESIGN.md §" + ref),
            level_note=NOTE,
            technique="machine-checked Lean 4 proof about a hand-written model + differential correspondence model<->code",
        ))
    allp = [json.loads(l)["id"] for l in open(os.path.join(ROOT, "properties.jsonl"))]
    na = [dict(property_id=p, reason=NA.get(p, "check not yet built in this round; see DESIGN.md §7 (order of work)"))
          for p in allp if p not in props.PROPS]
    man = dict(
        version=1,
        setup_cmd="cd /verif && ./setup.sh",
        hooks=dict(guard="verif", enable="cargo feature `verif` of hpbf (the harness crate depends on hpbf with features=[\"verif\"])",
                   baseline_off_cmd="cd /repo && cargo nextest run --workspace --no-fail-fast --test-threads 8 --offline",
                   source_commits=HOOKS, add_only=True),
        engines=[dict(name="lean4-proof+correspondence", path="/verif/check",
                      serves_properties=sorted(props.PROPS),
                      kind_free_text="Lean 4 models + theorems (lean/), Rust correspondence harness (harness/), Python orchestrator (check, checklib/)")],
        checks=checks,
        not_applicable=na,
        notes="Fix commits in /repo (genuine defects found by this machinery) are listed in known_findings.json; hook commit adds the cargo feature `verif` (add-only accessors).",
    )
    json.dump(man, open(os.path.join(ROOT, "MANIFEST.json"), "w"), indent=1)

NA = {}
import subprocess
HOOKS = [l.split()[0] for l in subprocess.run(["git", "-C", "/repo", "log", "--format=%h %s"], capture_output=True, text=True).stdout.split("\n") if "verif feature" in l or "verif hook" in l]
main()
