#!/usr/bin/env python3
"""Regenerate /verif/MANIFEST.json from checklib/props.py (claimed checks) and the table below."""
import json, os, sys
ROOT = os.path.dirname(os.path.dirname(os.path.abspath(__file__)))
sys.path.insert(0, os.path.join(ROOT, "checklib"))
import props

TEXT = {
 "C01": ("proof", "Lean theorems: the parser's IR refines canonical Brainfuck for every program, input and width; the optimizer has an EXACT Lean model (Opt.lean + the clobbered-set recomputation of OptFix.lean, tied on every run by structural equality of the optimized IR incl. the recorded hash iteration orders) and is proved behaviour preserving at EVERY optimization level for every oracle of iteration orders (optimizeF_preserves_all_levels'), never panicking and total; composed end to end: all_levels_all_backends relates canonical, in-place, IR interpreter, bytecode machine and JIT at every level. The proofs found and led to the repair of four miscompiles (F10 by the thorough tier; F11, F12, F13 by the proof itself)", "5/C01"),
 "C02": ("proof", "Lean theorems on the exact Lean port of bc::CodeGen::translate: all four phases (value-numbering emission, dead-store elimination, temporary allocation, late passes) preserve behaviour; translate is total and its output passes the contract check; composed end to end at level 0: canonical = bytecode machine for every source (both dispatch profiles); for optimizer output the chain starts at the IR under the per-run-tested hypothesis OnceOk; port tied to the Rust by EXACT bytecode equality, threaded interpreter = Bc.run on real bytecode in debug and release builds — at every optimization level (Props/ChainFinal)", "5/C02"),
 "C03": ("proof", "Lean theorems: whole-program simulation between the bytecode machine and a program-level x86 machine running the exact Lean port of the code generator (branches, limit check, checked/unchecked mov, runtime calls with register saving, prologue/epilogue, stack temporaries, 64-bit immediates), exact relocation, selector totality on generator output, composed with the C02 chain to source level at every optimization level under explicit range hypotheses, of which every displacement hypothesis (access window, mov shifts) is discharged from bytes*length(source) < 2^31 (Props/JitRangeLen); machine code = encoding of the modelled instructions EXACTLY; x86 instruction semantics and the program-level machine validated against this CPU on every run — at every optimization level (Props/ChainFinal)", "5/C03"),
 "C04": ("proof", "Lean theorem inplace_* (Props/C04): the in-place interpreter model and the canonical semantics reach equal states for every balanced program, environment and width, termination reflected, prefix property, limited mode; model tied to src/exec/inplace.rs by differential correspondence on every run", "5/C04"),
 "C05": ("proof", "Lean theorems: divergence certificates are sound; canonical divergence/termination and the output before divergence are preserved by the in-place interpreter, the IR interpreter, the bytecode machine and (limited mode) the JIT at level 0 (corollaries of the composed refinement); optimized programs: two-phase check — Lean certifies candidates as halting/divergent, every back end x level is held to the verdict; Props/ChainFinal extends this to optimized code at every level", "5/C05"),
 "C06": ("proof", "Lean theorems (Props/C06): on the layout model of the bounds-checked executors every tape access stays inside the allocation for every checked program and every move, growth preserves contents (with C09); the layout model equals the real (size, offset); all back ends run under a guard-page allocator (left and right)", "5/C06"),
 "C07": ("proof", "Lean theorems: limited execution of the in-place, IR and bytecode machines is a faithful prefix of the unlimited run, finishes with enough budget, terminates within an explicit bound, never reports finished on a divergent program; at level 0 also against the canonical semantics for the bytecode machine and the JIT (Props/ChainTotal); optimized programs and the real executors: budget ladder on all back ends vs models incl. remaining budget; Props/ChainFinal extends this to optimized code at every level", "5/C07"),
 "C08": ("proof", "Lean theorems: I/O failure semantics of the shared state operations, stops are final and only at failing I/O on every machine, a refused byte's prefix is the fault-free run's prefix; in-place, IR and bytecode machine at level 0 stop exactly like canonical, JIT via the whole-program simulation; exhaustive fault-index enumeration on all real back ends x levels; Props/ChainFinal extends this to optimized code at every level", "5/C08"),
 "C09": ("proof", "Lean theorems (Props/C09): Memory refines an unbounded zero-initialised array for every call history under an explicit 2^59 range guard; model tied to src/runtime.rs by call-history correspondence incl. (size, offset) after every call", "5/C09"),
 "C10": ("proof", "Lean theorems (Props/C10): mode-independence of the bytecode semantics, unchecked = checked while no growth happens, static region condition, level-0 offsets bounded by the program length; execute_unsafe on pre-grown contexts under guard pages vs canonical events; the window bound holds for optimized code at every level (Props/C10Opt, C01Fixed)", "5/C10"),
 "C11": ("proof", "Lean theorems: translateE_check — EVERY output of translate (any IR block, register count, fuse mode) passes the executable contract checker BcWf.check (branch targets, operand window containing 0, temp indices, definite initialisation on every path, liveness bitmaps), and the checker is sound w.r.t. the bytecode semantics; translate is total; the verified checker additionally runs on the real bytecode of every sampled program (cross-check of the port, which is tied by exact bytecode equality)", "5/C11"),
 "C12": ("proof", "Lean theorems (Props/C12): parser accepts iff balanced, error kind/position = declarative spec, comment and UTF-8 insensitivity, totality; model tied to Program::parse by structural IR/error correspondence", "5/C12"),
 "C13": ("proof", "Lean theorems: parser total; translate total (no panic site of emission or allocate_temps reachable, any register count) and contract-correct; the JIT's instruction selector total on generator output (only operand-range overflows remain); optimizer DSE fails exactly on a mis-shaped analysis; exact ties of IR optimizer, bytecode and machine-code generators to pure Lean functions (hence deterministic given the recorded iteration orders); panics elsewhere, hash-seed independence, reuse and blow-up are observed on the real code (catch_unwind, repeated and cross-process compilation, doubling families); the optimizer (also the repaired model) never panics for any oracle and is total (Props/C13Opt, C01Fixed)", "5/C13"),
 "C14": ("proof", "Lean theorems (Props/C14) for every width w >= 1 and all operands: pow/inv/div contracts and conversion round trips; model tied to src/lib.rs exhaustively at 8 bit and on boundary/random operands at 16/32/64", "5/C14"),
 "C15": ("proof", "Lean theorems (Props/C15): value of add/mul/neg/half/normalize/substitution for all part lists; decompositions recompose under the normal form all constructors preserve; model tied to ir::Expr by operation-tree correspondence", "5/C15"),
 "C16": ("proof", "Lean theorems (Props/C16) about the front-end model with the flag table regenerated from src/bin/hpbf.rs on every run (translator) and proved equal to the model; black-box comparison of the real binary with the model and the canonical semantics", "5/C16"),
 "C17": ("proof", "Lean theorems (Props/C17): with a fallible allocator the tape-growth model aborts on failure and never continues; translator checks the null-check pattern at every alloc_zeroed site; fault injection (k-th allocation fails) on the real back ends observes abort, never a crash or wrong continuation", "5/C17"),
 "C18": ("proof", "Lean theorems (Props/C18): SmallVec refines Vec and drops each element exactly once for every capacity and history incl. abandoned by-value iterators; model tied to src/smallvec.rs by drop-tracking history correspondence", "5/C18"),
}
NOTE = "Trusted base: Lean 4.33 kernel with axioms propext/Classical.choice/Quot.sound only (audited every run); the hand-written model is tied to the code by differential correspondence (tested); rustc/std/CPU/OS modelled. See evidence file for the per-property scope and what is not proved."

def main():
    checks = []
    for pid in sorted(props.PROPS):
        cat, text, ref = TEXT[pid]
        checks.append(dict(
            property_id=pid,
            quick_cmd=f"./check {pid} --tier quick",
            thorough_cmd=f"./check {pid} --tier thorough",
            evidence_file=f"/verif/evidence/{pid}.json",
            replay_cmd_template=f"./check {pid} --replay {{path}}",
            engine="lean4-proof+correspondence",
            level_claimed=dict(category=cat, text=text, design_ref="DESIGN.md §" + ref),
            level_note=NOTE,
            technique="machine-checked Lean 4 proof about a hand-written model + differential correspondence model<->code",
        ))
    allp = [json.loads(l)["id"] for l in open(os.path.join(ROOT, "properties.jsonl"))]
    na = [dict(property_id=p, reason=NA.get(p, "check not yet built in this round; see DESIGN.md §7 (order of work)"))
          for p in allp if p not in props.PROPS]
    man = dict(
        version=1,
        setup_cmd="cd /verif && ./setup.sh",
        hooks=dict(guard="verif", enable="cargo feature `verif` of hpbf (the harness crate depends on hpbf with features=[\"verif\"])",
                   baseline_off_cmd="cd /repo && cargo nextest run --workspace --no-fail-fast --test-threads 8 --offline",
                   source_commits=HOOKS, add_only=True),
        engines=[dict(name="lean4-proof+correspondence", path="/verif/check",
                      serves_properties=sorted(props.PROPS),
                      kind_free_text="Lean 4 models + theorems (lean/), Rust correspondence harness (harness/), Python orchestrator (check, checklib/)")],
        checks=checks,
        not_applicable=na,
        notes="Fix commits in /repo (genuine defects found by this machinery) are listed in known_findings.json; hook commits add the cargo feature `verif` (add-only accessors and trace points; listed in hooks.source_commits).",
    )
    json.dump(man, open(os.path.join(ROOT, "MANIFEST.json"), "w"), indent=1)

NA = {}
import subprocess
HOOKS = [l.split()[0] for l in subprocess.run(["git", "-C", "/repo", "log", "--format=%h %s"], capture_output=True, text=True).stdout.split("\n") if "verif feature" in l or "verif hook" in l]
main()
