#!/usr/bin/env python3
"""Shrink a Brainfuck program on which a back end at some level differs from the in-place interpreter.
usage: shrink.py <hpbf-binary> <width> <backend-flag> <level> <input-hex> <program>
Oracle: `--inplace` (tied to the Lean model by the C04 check)."""
import subprocess, sys

def run(binary, args, prog, inp, limit=None):
    cmd = [binary] + args + ([ '--limit', str(limit)] if limit else []) + [prog]
    try:
        r = subprocess.run(cmd, input=inp, capture_output=True, timeout=5)
        return r.stdout
    except subprocess.TimeoutExpired:
        return None

def balanced(p):
    d = 0
    for c in p:
        if c == '[': d += 1
        elif c == ']':
            d -= 1
            if d < 0: return False
    return d == 0

def interesting(binary, w, be, lvl, inp, p):
    if not balanced(p): return False
    ref = run(binary, [f'-i{w}', '--inplace'], p, inp, limit=200000)
    ref2 = run(binary, [f'-i{w}', '--inplace'], p, inp, limit=400000)
    if ref is None or ref != ref2: return False     # did not terminate within the limit
    got = run(binary, [f'-i{w}', be, f'-O{lvl}'], p, inp, limit=10**12)
    return got is not None and got != ref

def shrink(binary, w, be, lvl, inp, p):
    assert interesting(binary, w, be, lvl, inp, p), "not failing"
    n = 2
    while len(p) >= 2:
        chunk = max(1, len(p) // n)
        changed = False
        i = 0
        while i < len(p):
            q = p[:i] + p[i+chunk:]
            if q != p and interesting(binary, w, be, lvl, inp, q):
                p = q; changed = True
            else:
                i += chunk
        if not changed:
            if chunk == 1: break
            n = min(len(p), n * 2)
    # try removing matching bracket pairs
    again = True
    while again:
        again = False
        for i, c in enumerate(p):
            if c == '[':
                d = 0
                for j in range(i, len(p)):
                    if p[j] == '[': d += 1
                    elif p[j] == ']':
                        d -= 1
                        if d == 0: break
                q = p[:i] + p[i+1:j] + p[j+1:]
                if interesting(binary, w, be, lvl, inp, q):
                    p = q; again = True; break
    return p

if __name__ == '__main__':
    binary, w, be, lvl, inphex, prog = sys.argv[1:7]
    inp = bytes.fromhex(inphex) if inphex != '-' else b''
    print(shrink(binary, w, be, lvl, inp, prog))
