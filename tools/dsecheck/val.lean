import Hpbf.Driver8
import Hpbf.Proofs.C01DseCheck
open Hpbf Hpbf.OptDse Hpbf.Ir Hpbf.C01Dse

variable {w : Nat}

/-- addresses read before the running iteration at depth `d` ends (at most `n` steps) -/
def iterReads (d : Nat) : Nat → Cfg w → List Int → List Int
  | 0, _, acc => acc
  | n + 1, c, acc =>
    if c.cur.isEmpty && decide (c.conts.length ≤ d) then acc
    else
      let acc := (stepReads c).foldl (fun a x => if a.contains x then a else x :: a) acc
      match step false c with
      | .next c' => iterReads d n c' acc
      | _ => acc

def chkReadsP (anal : DAnal) (N : Nat) (c : Cfg w) : Bool :=
  match c.cur, c.conts with
  | [], .loopEnd cond shift _ _ :: _ =>
    match analOf anal c.conts, step false c with
    | some A0, .next c1 =>
      A0.hasShift || (c.st.mov shift).rd cond == 0#w ||
        (iterReads c.conts.length N c1 []).all (fun a =>
            A0.reads.contains (a - c1.st.ptr) || unexposedN false c.conts.length a N c1)
    | _, _ => true
  | _, _ => true

structure Res where
  nodup : Bool
  shift : Bool
  al : Bool
  am : Bool
  rd : Bool
  same : Bool
  ended : Bool

def loopN (anal : DAnal) (N : Nat) : Nat → Cfg w → (Bool × Bool × Bool) → (Bool × Bool × Bool)
  | 0, _, r => r
  | n + 1, c, (a, m, r) =>
    let r' := (a && chkAtLeast anal c, m && chkAtMost anal c, r && chkReadsP anal N c)
    match step false c with
    | .next c' => loopN anal N n c' r'
    | _ => r'

def sameOut (o o' : Outcome w) : Bool :=
  match o, o' with
  | .done c, .done c' => c.st.trace == c'.st.trace && c.st.ptr == c'.st.ptr
  | .stopped c, .stopped c' => c.st.trace == c'.st.trace
  | .outOfFuel c, .outOfFuel c' => c.st.trace == c'.st.trace
  | _, _ => false

def check1 (b : Block w) (anal : DAnal) (env : Env) (N : Nat) : Option Res :=
  match eliminate b anal with
  | none => none
  | some b' =>
    let (a, m, r) := loopN anal N N (initCfg b 0 env) (true, true, true)
    let o := run b false 0 N env
    some { nodup := noDupL b.insts, shift := shiftOkL anal b.insts, al := a, am := m, rd := r,
           same := sameOut o (run b' false 0 N env),
           ended := match o with | .outOfFuel _ => false | _ => true }

def envs : List Env :=
  [ { input := some [], sink := true, outOk := none },
    { input := some [.byte 3, .byte 1, .byte 0, .byte 2, .byte 255, .byte 7, .eof, .byte 1], sink := true, outOk := none },
    { input := some [.byte 0, .byte 0, .byte 5, .err], sink := true, outOk := some 3 } ]

def main (args : List String) : IO Unit := do
  let N := (args.head? >>= String.toNat?).getD 300
  let stdin ← IO.getStdin
  let mut total := 0
  let mut bad := 0
  let mut ended := 0
  let mut changed := 0
  repeat
    let line ← stdin.getLine
    if line.isEmpty then break
    let line := line.trimAsciiEnd.toString
    match line.splitOn "\t" with
    | req :: after :: _ =>
      match req.splitOn " " with
      | "optdse" :: ws :: an :: rest =>
        match ws.toNat?, Driver8.decodeAnal an with
        | some w, some a =>
          match Driver3.decodeBlock w (" ".intercalate rest) with
          | some b =>
            -- tie to the Rust result as well
            let tie := match eliminate b a with | some b' => Driver.encodeBlock b' == after | none => false
            if !tie then IO.println s!"TIE-MISMATCH {line}"
            for env in envs do
              match check1 b a env N with
              | none => IO.println s!"PANIC {line}"
              | some r =>
                total := total + 1
                if r.ended then ended := ended + 1
                if !(r.nodup && r.shift && r.al && r.am && r.rd && r.same) then
                  bad := bad + 1
                  IO.println s!"VIOLATION nodup={r.nodup} shift={r.shift} atLeast={r.al} atMost={r.am} reads={r.rd} same={r.same} :: {line}"
            if Driver.encodeBlock b != after then changed := changed + 1
          | none => IO.println s!"BADBLOCK {line}"
        | _, _ => IO.println s!"BADREQ {line}"
      | _ => IO.println s!"BADREQ {line}"
    | _ => IO.println s!"BADLINE {line}"
  IO.println s!"checked {total} (program, env) pairs; {changed} triples with deletions; {ended} runs ended within {N} steps; {bad} violations"
