use hpbf::ir;
use verif_harness::{gen, suites, util::Rng};

fn encode_anal(a: &hpbf::verif::DseAnal) -> String {
    let b = |x: bool| if x { '1' } else { '0' };
    format!(
        "A{}{}{}({}){{{}}}",
        b(a.at_most_once),
        b(a.at_least_once),
        b(a.has_shift),
        a.reads.iter().map(|v| v.to_string()).collect::<Vec<_>>().join(","),
        a.subs.iter().map(encode_anal).collect::<Vec<_>>().join("")
    )
}

fn main() {
    let args: Vec<String> = std::env::args().collect();
    let seed: u64 = args[1].parse().unwrap();
    let count: usize = args[2].parse().unwrap();
    let mut r = Rng::new(seed);
    let mut extra: Vec<String> = Vec::new();
    if args.len() > 3 {
        extra = std::fs::read_to_string(&args[3]).unwrap().lines().map(|s| s.to_string()).collect();
    }
    for i in 0..(count + extra.len()) {
        let code = if i < count { gen::structured(&mut r) } else { extra[i - count].clone() };
        if let Ok(p) = ir::Program::<u8>::parse(&code) {
            for &lvl in &[2u32, 3] {
                for (before, anal, after) in p.verif_dse_steps(lvl) {
                    println!("optdse 8 {} {}\t{}\t{}", encode_anal(&anal), suites::encode_block(&before), suites::encode_block(&after), if before != after {"changed"} else {"same"});
                }
            }
        }
    }
}
