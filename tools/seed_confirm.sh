#!/bin/bash
# usage: seed_confirm.sh <id> — confirm a seeded change in its scratch worktree only (suite passes, demo fails with / passes without)
set -u
ID=$1; WT=/tmp/seed_$ID; OUT=/tmp/seed_${ID}_out; DST=/verif/seeded/$ID
mkdir -p $DST; cp $OUT/patch.diff $DST/patch.diff
for f in $OUT/*; do case $(basename $f) in patch.diff|meta.json|prompt.txt|property.txt) ;; *) cp $f $DST/ ;; esac; done
cd $WT || exit 2
DEMO_CMD=$(python3 -c "import json;print(json.load(open('$OUT/meta.json'))['demo'])" | sed 's/^cd [^&]*&& *//')
git -C $WT checkout -q -- src 2>/dev/null; git -C $WT apply $OUT/patch.diff || { echo "patch does not apply"; exit 2; }
( eval "$DEMO_CMD" ) > /tmp/seed_${ID}_demo_with.log 2>&1; RC_WITH=$?
FILTER=(); ls $WT/tests/seed_*.rs >/dev/null 2>&1 && FILTER=(-E 'not binary(/^seed_/)')
( cargo nextest run --workspace --no-fail-fast --offline "${FILTER[@]}" ) > /tmp/seed_${ID}_suite.log 2>&1; RC_SUITE=$?
git -C $WT apply -R $OUT/patch.diff
( eval "$DEMO_CMD" ) > /tmp/seed_${ID}_demo_without.log 2>&1; RC_WITHOUT=$?
git -C $WT apply $OUT/patch.diff
echo "$ID: demo with patch rc=$RC_WITH (want != 0); suite rc=$RC_SUITE [$(grep -E 'tests run' /tmp/seed_${ID}_suite.log | tail -1)]; demo without rc=$RC_WITHOUT (want 0)"
python3 - <<PY
import json
m=json.load(open('$OUT/meta.json'))
m['confirmed_by_me']=dict(demo_fails_with_patch=$RC_WITH!=0, suite_passes=$RC_SUITE==0, demo_passes_without_patch=$RC_WITHOUT==0)
m['batch']=int('${BATCH:-2}')
json.dump(m,open('$DST/meta.json','w'),indent=1)
PY
