//! Program generators. All randomness comes from the `Rng` passed in.

use crate::util::Rng;

/// Token-level programs: runs of +-<>, I/O, and loops of three shapes (counted balanced loop,
/// arbitrary loop, scan). Brackets are always balanced.
pub fn token_program(r: &mut Rng, budget: &mut i32, depth: u32, out: &mut String) {
    let n = 1 + r.below(6);
    for _ in 0..n {
        if *budget <= 0 {
            return;
        }
        *budget -= 1;
        match r.below(16) {
            0..=2 => {
                let k = 1 + r.below(4);
                let c = if r.chance(1, 2) { '+' } else { '-' };
                for _ in 0..k {
                    out.push(c);
                }
            }
            3..=5 => {
                let k = 1 + r.below(3);
                let c = if r.chance(1, 2) { '>' } else { '<' };
                for _ in 0..k {
                    out.push(c);
                }
            }
            6 => out.push('.'),
            7 => out.push(','),
            8..=10 if depth < 3 => {
                // counted loop with balanced body: [- body(balanced moves) ]
                out.push('[');
                let dec_first = r.chance(1, 2);
                let dec = 1 + r.below(3);
                if dec_first {
                    for _ in 0..dec {
                        out.push('-');
                    }
                }
                let mut pos: i64 = 0;
                let m = 1 + r.below(4);
                for _ in 0..m {
                    let to = r.range(-3, 3);
                    while pos < to {
                        out.push('>');
                        pos += 1;
                    }
                    while pos > to {
                        out.push('<');
                        pos -= 1;
                    }
                    if to != 0 || r.chance(1, 4) {
                        match r.below(6) {
                            0..=2 => {
                                let k = 1 + r.below(3);
                                let c = if r.chance(2, 3) { '+' } else { '-' };
                                for _ in 0..k {
                                    out.push(c);
                                }
                            }
                            3 => out.push('.'),
                            4 if depth < 2 => token_balanced_inner(r, budget, depth + 1, out),
                            _ => out.push('+'),
                        }
                    }
                }
                while pos < 0 {
                    out.push('>');
                    pos += 1;
                }
                while pos > 0 {
                    out.push('<');
                    pos -= 1;
                }
                if !dec_first {
                    for _ in 0..dec {
                        out.push('-');
                    }
                }
                out.push(']');
            }
            11 if depth < 3 => {
                out.push('[');
                token_program(r, budget, depth + 1, out);
                out.push(']');
            }
            12 => {
                // scan or clear
                match r.below(4) {
                    0 => out.push_str("[>]"),
                    1 => out.push_str("[<]"),
                    2 => out.push_str("[-]"),
                    _ => out.push_str("[+]"),
                }
            }
            13 => {
                // comment characters
                out.push(comment_char(r));
            }
            _ => out.push(if r.chance(1, 2) { '+' } else { '-' }),
        }
    }
}

fn token_balanced_inner(r: &mut Rng, budget: &mut i32, _depth: u32, out: &mut String) {
    // a nested clear-and-add idiom: [->+<] or [-<+>]
    *budget -= 1;
    if r.chance(1, 2) {
        out.push_str("[->+<]");
    } else {
        out.push_str("[-<++>]");
    }
}

/// A non-command character: the ASCII neighbours of the eight commands (`*` `/` `:` `;` `=` `?` `Z` `\\` `^`
/// …) are as likely as letters, control characters, other ASCII and multi-byte characters.
pub fn comment_char(r: &mut Rng) -> char {
    loop {
        let c = match r.below(6) {
            0 => *r.pick(&['*', '/', ':', ';', '=', '?', 'Z', '\\', '^', '@', '_', '(', ')', '{', '}', '!', '0', '9']),
            1 => *r.pick(&['a', ' ', '\n', '\t', '#', 'x']),
            2 => char::from_u32(r.below(128) as u32).unwrap(),
            3 => *r.pick(&['é', '✓', '\u{1F600}', 'ß', '\u{5B57}', '\u{80}', '\u{7FF}', '\u{800}', '\u{FFFF}', '\u{10000}']),
            4 => char::from_u32(0x80 + r.below(0x700) as u32).unwrap_or('é'),
            _ => '\\',
        };
        if !"+-<>.,[]".contains(c) && c != '\0' {
            return c;
        }
    }
}

pub fn token(r: &mut Rng) -> String {
    let mut s = String::new();
    let mut budget = 4 + r.below(30) as i32;
    // some initial values
    for _ in 0..r.below(3) {
        for _ in 0..(1 + r.below(5)) {
            s.push('+');
        }
        s.push('>');
    }
    token_program(r, &mut budget, 0, &mut s);
    s
}

/// IR-first structured programs: affine assignments `x := Σ k·v + c` over a few data cells,
/// counted loops, I/O; compiled to Brainfuck by correct-by-construction idioms.
pub struct Structured<'a> {
    r: &'a mut Rng,
    out: String,
    pos: i64,
}

const NC: i64 = 5;
const S0: i64 = 6;
const S1: i64 = 7;

impl<'a> Structured<'a> {
    fn go(&mut self, t: i64) {
        while self.pos < t {
            self.out.push('>');
            self.pos += 1;
        }
        while self.pos > t {
            self.out.push('<');
            self.pos -= 1;
        }
    }
    fn add(&mut self, c: i64, k: i64) {
        self.go(c);
        for _ in 0..k.abs() {
            self.out.push(if k > 0 { '+' } else { '-' });
        }
    }
    fn clear(&mut self, c: i64) {
        self.go(c);
        self.out.push_str("[-]");
    }
    fn moveadd(&mut self, src: i64, dsts: &[(i64, i64)]) {
        self.go(src);
        self.out.push_str("[-");
        for &(d, k) in dsts {
            self.add(d, k);
        }
        self.go(src);
        self.out.push(']');
    }
    fn assign(&mut self, x: i64, terms: &[(i64, i64)], c: i64) {
        for &(v, k) in terms {
            self.moveadd(v, &[(S0, k), (S1, 1)]);
            self.moveadd(S1, &[(v, 1)]);
        }
        self.clear(x);
        self.moveadd(S0, &[(x, 1)]);
        if c != 0 {
            self.add(x, c);
        }
    }
    fn stmt(&mut self, depth: u32) {
        let p = self.r.below(100);
        if p < 50 {
            let x = self.r.below(NC as u64) as i64;
            let nt = *self.r.pick(&[0usize, 1, 1, 2]);
            let mut vars: Vec<i64> = Vec::new();
            while vars.len() < nt {
                let v = self.r.below(NC as u64) as i64;
                if !vars.contains(&v) {
                    vars.push(v);
                }
            }
            if self.r.chance(3, 5) && !vars.contains(&x) {
                if nt > 0 {
                    vars.truncate(nt - 1);
                }
                vars.insert(0, x);
            }
            let terms: Vec<(i64, i64)> = vars
                .iter()
                .map(|&v| (v, *self.r.pick(&[1i64, 1, 1, 2, 3, -1])))
                .collect();
            let c = *self.r.pick(&[0i64, 0, 1, 2, -1, 5]);
            self.assign(x, &terms, c);
        } else if p < 56 {
            // x := y * z (also squares), by the nested-loop idiom; y and z are preserved
            let x = self.r.below(NC as u64) as i64;
            let y = self.r.below(NC as u64) as i64;
            let z = if self.r.chance(1, 2) { y } else { self.r.below(NC as u64) as i64 };
            if x != y && x != z {
                self.clear(x);
                self.moveadd(y, &[(S0, 1), (S1, 1)]);
                self.moveadd(S1, &[(y, 1)]);
                self.go(S0);
                self.out.push_str("[-");
                self.moveadd(z, &[(x, 1), (S1, 1)]);
                self.moveadd(S1, &[(z, 1)]);
                self.go(S0);
                self.out.push(']');
                if self.r.chance(1, 3) {
                    // consume an operand afterwards (zero store right after the product)
                    self.clear(y);
                }
            }
        } else if p < 58 {
            // filler: print a cell many times (long live ranges)
            let x = self.r.below(NC as u64) as i64;
            self.go(x);
            for _ in 0..(8 + self.r.below(14)) {
                self.out.push('.');
            }
        } else if p < 60 {
            let x = self.r.below(NC as u64) as i64;
            let k = *self.r.pick(&[1i64, 2, 3, -1, -2, 7]);
            self.add(x, k);
        } else if p < 68 {
            let x = self.r.below(NC as u64) as i64;
            self.go(x);
            self.out.push('.');
        } else if p < 73 {
            let x = self.r.below(NC as u64) as i64;
            self.go(x);
            self.out.push(',');
        } else if depth < 2 {
            let c = self.r.below(NC as u64) as i64;
            if self.r.chance(1, 2) {
                self.clear(c);
                let k = *self.r.pick(&[1i64, 2, 3, 4, 5, 8, 9, 16]);
                self.add(c, k);
            }
            self.go(c);
            self.out.push('[');
            let dec = *self.r.pick(&[1i64, 1, 1, 2, 3]);
            let first = self.r.chance(1, 2);
            if first {
                self.add(c, -dec);
            }
            for _ in 0..(1 + self.r.below(3)) {
                self.stmt(depth + 1);
            }
            if !first {
                self.add(c, -dec);
            }
            self.go(c);
            self.out.push(']');
        } else {
            let x = self.r.below(NC as u64) as i64;
            self.add(x, 1);
        }
    }
}

pub fn structured(r: &mut Rng) -> String {
    let mut g = Structured {
        r,
        out: String::new(),
        pos: 0,
    };
    for c in 0..NC {
        if g.r.chance(1, 2) {
            let k = *g.r.pick(&[1i64, 2, 3, 5, 7]);
            g.add(c, k);
        } else if g.r.chance(1, 2) {
            g.go(c);
            g.out.push(',');
        }
    }
    for _ in 0..(1 + g.r.below(4)) {
        g.stmt(0);
    }
    for c in 0..NC {
        g.go(c);
        g.out.push('.');
    }
    g.out
}

/// Programs that roam far: long walks left/right, scans, revisits.
/// Feeding loops: a few input cells, then several distribution loops `[->a+b++<]` whose targets are the
/// sources of later ones, then every cell is printed. After optimisation these are multiply-add chains with
/// many values live at once and several of them dying at the same instruction (spill-slot reuse in
/// `allocate_temps`, simultaneous assignments in the optimiser).
pub fn feeding(r: &mut Rng) -> String {
    let n = 3 + r.below(4) as i64;
    let mut s = String::new();
    let mut pos: i64 = 0;
    let go = |s: &mut String, pos: &mut i64, t: i64| {
        while *pos < t {
            s.push('>');
            *pos += 1;
        }
        while *pos > t {
            s.push('<');
            *pos -= 1;
        }
    };
    for i in 0..n {
        go(&mut s, &mut pos, i);
        if r.chance(9, 10) {
            s.push(',');
        } else {
            for _ in 0..1 + r.below(5) {
                s.push('+');
            }
        }
    }
    let width = n + 2;
    let mut last_targets: Vec<i64> = Vec::new();
    for _ in 0..2 + r.below(3) {
        // chain: mostly continue from a cell the previous loop added to
        let src = if !last_targets.is_empty() && r.chance(3, 4) {
            *r.pick(&last_targets)
        } else {
            r.below(n as u64) as i64
        };
        last_targets.clear();
        go(&mut s, &mut pos, src);
        s.push_str("[-");
        for _ in 0..2 + r.below(3) {
            let mut t = r.below(width as u64) as i64;
            if t == src {
                t = (t + 1) % width;
            }
            last_targets.push(t);
            go(&mut s, &mut pos, t);
            let c = if r.chance(1, 5) { '-' } else { '+' };
            for _ in 0..1 + r.below(4) {
                s.push(c);
            }
        }
        go(&mut s, &mut pos, src);
        s.push(']');
    }
    for i in 0..width {
        go(&mut s, &mut pos, i);
        s.push('.');
    }
    s
}

/// I/O inside nested blocks that the optimiser turns into `if`s or once-loops (bodies that clear or
/// overwrite their condition), with more I/O after them: an I/O failure inside such a block must end the
/// whole program, at every nesting depth.
pub fn io_nest(r: &mut Rng) -> String {
    fn block(r: &mut Rng, depth: u32, s: &mut String) {
        // make the condition cell non-zero (mostly), open a block that runs at most once
        match r.below(3) {
            0 => s.push(','),
            1 => s.push_str("+"),
            _ => s.push_str(",+"),
        }
        s.push('[');
        for _ in 0..1 + r.below(3) {
            match r.below(5) {
                0 | 1 => s.push('.'),
                2 => s.push_str(">,<"),
                3 => s.push_str(">+.<"),
                _ => {
                    if depth < 3 {
                        s.push('>');
                        block(r, depth + 1, s);
                        s.push('<');
                    } else {
                        s.push('.');
                    }
                }
            }
        }
        // leave with a zero condition: at most one iteration
        s.push_str(if r.chance(1, 2) { "[-]" } else { "[-]>+<" });
        s.push(']');
        if r.chance(1, 2) {
            s.push_str(">+.<");
        }
    }
    let mut s = String::new();
    for _ in 0..1 + r.below(3) {
        block(r, 0, &mut s);
        s.push_str(if r.chance(1, 2) { "+." } else { ">" });
    }
    s.push_str("+.");
    s
}

/// Counting loops whose body adds a growing cell to an accumulator (`y += d; x += y`): the optimiser's
/// triangular closed forms with all three halving alternatives (even/odd increment, even/odd constant
/// trip count, input-dependent trip count), optionally combined with a geometric update `z = m*z + c`.
pub fn triangular(r: &mut Rng) -> String {
    let mut s = String::new();
    // cell 0: counter, 1: y, 2: x, 3: tmp, 4: z, 5: tmp2
    if r.chance(1, 4) {
        s.push(',');
    } else {
        for _ in 0..1 + r.below(9) {
            s.push('+');
        }
    }
    // initial y and x
    s.push('>');
    for _ in 0..r.below(4) {
        s.push('+');
    }
    s.push('>');
    for _ in 0..r.below(3) {
        s.push('+');
    }
    s.push_str("<<[-");
    let d = 1 + r.below(4);
    let first_inc = r.chance(1, 2);
    s.push('>');
    if first_inc {
        for _ in 0..d {
            s.push('+');
        }
    }
    // x += y (y restored through tmp)
    s.push_str("[->+>+<<]>>[-<<+>>]<<");
    if !first_inc {
        for _ in 0..d {
            s.push(if r.chance(1, 6) { '-' } else { '+' });
        }
    }
    if r.chance(1, 3) {
        // geometric: z = m*z + c
        let m = 2 + r.below(3);
        s.push_str(">>>[->");
        for _ in 0..m {
            s.push('+');
        }
        s.push_str("<]>[-<+>]<");
        for _ in 0..r.below(3) {
            s.push('+');
        }
        s.push_str("<<<");
    }
    s.push_str("<]>.>.>>.");
    s
}

/// Loops whose body contains a pointer-moving scan (`[>]`, `[<<]`, …) followed by loops and I/O at offsets
/// that would name known cells had the scan not moved (in particular the enclosing loop's own condition
/// offset): everything the optimiser knows relative to the block entry is void after the scan.
pub fn scan_shift(r: &mut Rng) -> String {
    let mut s = String::new();
    // a few marked cells so that scans stop at different places
    for _ in 0..2 + r.below(3) {
        match r.below(4) {
            0 => s.push_str(">"),
            1 => s.push_str("+>"),
            2 => s.push_str(",>"),
            _ => s.push_str("++>>"),
        }
    }
    let back = 1 + r.below(3) as usize;
    for _ in 0..back {
        s.push('<');
    }
    s.push('+');
    s.push('[');
    let step = 1 + r.below(2) as usize;
    let dir = if r.chance(1, 2) { '>' } else { '<' };
    let inv = if dir == '>' { '<' } else { '>' };
    let dist = 1 + r.below(3) as usize;
    // go to a cell, scan, come back by the nominal distance
    for _ in 0..dist {
        s.push(dir);
    }
    s.push('[');
    for _ in 0..step {
        s.push(dir);
    }
    s.push(']');
    for _ in 0..dist {
        s.push(inv);
    }
    // now "at" the loop condition offset, nominally
    match r.below(5) {
        0 => s.push_str("[.[-]]"),
        1 => s.push_str("[>+<[-]]>[]<"),
        2 => s.push_str("[-]+[.-]"),
        3 => s.push_str(".[-]"),
        _ => s.push_str("[,.[-]]"),
    }
    if r.chance(1, 2) {
        s.push(inv);
        s.push_str("[-]");
        s.push(dir);
    }
    // make the enclosing loop end (mostly)
    if r.chance(5, 6) {
        s.push_str("[-]");
    }
    s.push(']');
    match r.below(3) {
        0 => s.push_str("+."),
        1 => s.push_str("+[]"),
        _ => s.push_str(">."),
    }
    s
}

/// Values computed BEFORE a loop and reused INSIDE it: a few cells `input ± c` (their values live in
/// temporaries of the bytecode generator), then a top-level counting loop whose body copies those cells
/// non-destructively into an accumulator, in a random order, and prints: the generator has to extend the live
/// ranges of all of them to the loop's back edge.
pub fn preloop_reuse(r: &mut Rng) -> String {
    let k = 2 + r.below(3) as i64;
    let mut s = String::new();
    let mut pos: i64 = 0;
    let go = |s: &mut String, pos: &mut i64, t: i64| {
        while *pos < t {
            s.push('>');
            *pos += 1;
        }
        while *pos > t {
            s.push('<');
            *pos -= 1;
        }
    };
    for j in 0..k {
        go(&mut s, &mut pos, j);
        s.push(',');
        let c = if r.chance(1, 2) { '-' } else { '+' };
        for _ in 0..r.below(3) {
            s.push(c);
        }
    }
    let cnt = k;
    let acc = k + 1;
    let tmp = k + 2;
    go(&mut s, &mut pos, cnt);
    s.push(',');
    s.push_str("[-");
    if r.chance(1, 2) {
        s.push('.');
    }
    // a random order of (a subset of) the pre-loop cells
    let mut order: Vec<i64> = (0..k).collect();
    for i in (1..order.len()).rev() {
        let j = r.below(i as u64 + 1) as usize;
        order.swap(i, j);
    }
    let take = 2 + r.below(order.len() as u64 - 1) as usize;
    for &j in order.iter().take(take) {
        // acc += cell j (cell j restored through tmp)
        go(&mut s, &mut pos, j);
        s.push_str("[-");
        go(&mut s, &mut pos, acc);
        s.push('+');
        go(&mut s, &mut pos, tmp);
        s.push('+');
        go(&mut s, &mut pos, j);
        s.push(']');
        go(&mut s, &mut pos, tmp);
        s.push_str("[-");
        go(&mut s, &mut pos, j);
        s.push('+');
        go(&mut s, &mut pos, tmp);
        s.push(']');
        if r.chance(1, 3) {
            go(&mut s, &mut pos, acc);
            s.push('.');
        }
    }
    go(&mut s, &mut pos, acc);
    s.push('.');
    go(&mut s, &mut pos, cnt);
    s.push(']');
    go(&mut s, &mut pos, acc);
    s.push('.');
    s
}

pub fn roaming(r: &mut Rng) -> String {
    let mut s = String::new();
    let segs = 1 + r.below(5);
    for _ in 0..segs {
        match r.below(6) {
            0 => {
                // walk far right leaving marks, then scan back
                let n = 1 + r.below(40);
                s.push_str("+");
                for _ in 0..n {
                    s.push_str(">+");
                }
                s.push_str("[<]");
                s.push_str(">.");
            }
            1 => {
                let n = 1 + r.below(40);
                s.push_str("+");
                for _ in 0..n {
                    s.push_str("<+");
                }
                s.push_str("[>]");
                s.push_str("<.");
            }
            2 => {
                // counted far move: k times move m cells
                let k = 1 + r.below(20);
                let m = 1 + r.below(60);
                let dir = if r.chance(1, 2) { '>' } else { '<' };
                for _ in 0..k {
                    s.push('+');
                }
                s.push_str("[-");
                for _ in 0..m {
                    s.push(dir);
                }
                for _ in 0..k {
                    s.push('+');
                }
                // carry the counter along: move counter from origin is gone; place new counter
                s.push_str("-]");
                s.push_str("+.");
            }
            3 => {
                let n = r.below(300);
                let dir = if r.chance(1, 2) { '>' } else { '<' };
                for _ in 0..n {
                    s.push(dir);
                }
                s.push_str("++.");
            }
            4 => {
                // carry a counter while walking: [->+<]-pattern moving right/left many cells
                let k = 2 + r.below(30);
                for _ in 0..k {
                    s.push('+');
                }
                if r.chance(1, 2) {
                    s.push_str("[[->+<]>-]");
                } else {
                    s.push_str("[[-<+>]<-]");
                }
                s.push_str("+.");
            }
            _ => {
                let mut b = 6;
                token_program(r, &mut b, 1, &mut s);
            }
        }
    }
    s
}

/// Arbitrary text for the parser: commands, comments (incl. multi-byte), unbalanced brackets.
pub fn arbitrary_text(r: &mut Rng) -> String {
    let n = r.below(40);
    let mut s = String::new();
    for _ in 0..n {
        let c = match r.below(14) {
            0 => '+',
            1 => '-',
            2 => '<',
            3 => '>',
            4 => '.',
            5 => ',',
            6 | 7 => '[',
            8 | 9 => ']',
            10 | 11 => comment_char(r),
            12 => '\\',
            _ => comment_char(r),
        };
        s.push(c);
    }
    s
}

/// Insert comment characters at random positions of a program.
pub fn with_comments(r: &mut Rng, prog: &str) -> String {
    let mut s = String::new();
    for c in prog.chars() {
        while r.chance(1, 4) {
            s.push(comment_char(r));
        }
        s.push(c);
    }
    s
}

pub fn input_bytes(r: &mut Rng) -> Vec<u8> {
    let n = r.below(8);
    (0..n)
        .map(|_| match r.below(4) {
            0 => 0,
            1 => r.below(4) as u8,
            2 => 255 - r.below(3) as u8,
            _ => r.below(256) as u8,
        })
        .collect()
}

/// Programs for the divergence property: ordinary programs with, most of the time, one construct
/// injected that runs forever under some inputs (empty/non-empty infinite loops, loops whose step
/// never hits zero, I/O inside infinite loops), placed at top level or inside another loop.
pub fn maybe_divergent(r: &mut Rng) -> String {
    let base = match r.below(3) {
        0 => token(r),
        1 => structured(r),
        _ => {
            let mut s = String::new();
            let mut b = 5;
            token_program(r, &mut b, 1, &mut s);
            s
        }
    };
    if r.chance(1, 4) {
        return base;
    }
    if r.chance(1, 3) {
        // a loop on an input-dependent cell with a constant step (odd: always terminates; even: diverges for
        // some inputs), a body made of loop-invariant stores, ordinary updates and possibly output
        let mut s = String::new();
        if r.chance(1, 2) {
            s.push_str(&base);
        }
        s.push(',');
        if r.chance(1, 3) {
            s.push('.');
        }
        s.push('[');
        for _ in 0..r.below(3) {
            match r.below(5) {
                0 => s.push_str(">[-]+<"),
                1 => s.push_str(">[-]++<"),
                2 => s.push_str(">+<"),
                3 => s.push_str(">>[-]<<"),
                _ => s.push_str(if r.chance(1, 4) { ">.<" } else { ">>+<<" }),
            }
        }
        let step = 1 + r.below(8);
        let c = if r.chance(1, 2) { '-' } else { '+' };
        for _ in 0..step {
            s.push(c);
        }
        s.push(']');
        s.push_str(*r.pick(&[">.", "+.", ">>.", ".>."]));
        return s;
    }
    let inj: &str = *r.pick(&[
        "+[]",
        "+[.]",
        "+[.+]",
        "-[.>+<]",
        "++[--.++]",
        "+[>+<[-]+]",
        "[-]+[[-]+.]",
        "+[,.[-]+]",
        ",[.]",
        "++[-->++<]>[]",
        "+[>]<[.]",
        "[-]++[----]",       // even start, step 4: 2,254,250,... never 0 at 8 bit? 2-4k=0 mod 256 has no solution
        "[-]+[--]",          // odd start, even step: never zero
        "+[[]]",
        "+[>+[]<]",
        ">+<+[>[-]+<]",
    ]);
    // positions where the bracket depth is known; insert at a random top-level or nested position
    let chars: Vec<char> = base.chars().collect();
    let pos = r.below(chars.len() as u64 + 1) as usize;
    let mut s: String = chars[..pos].iter().collect();
    s.push_str(inj);
    s.extend(chars[pos..].iter());
    s
}

/// Deeply nested programs (hundreds of levels), terminating quickly.
pub fn deep(r: &mut Rng) -> String {
    let d = 50 + r.below(350) as usize;
    let mut s = String::from("+");
    match r.below(3) {
        0 => {
            // +[[[[ ... - ]]]] : enters every level once, clears, leaves
            for _ in 0..d {
                s.push('[');
            }
            s.push('-');
            for _ in 0..d {
                s.push(']');
            }
            s.push('.');
        }
        1 => {
            // nested with moves: [>+[>+[ ... ]<]<] style, each level touches the next cell
            for _ in 0..d {
                s.push_str("[>+");
            }
            s.push_str("[-]");
            for _ in 0..d {
                s.push_str("<-]");
            }
            s.push('.');
        }
        _ => {
            // never entered (cell zero): [[[[...]]]]
            s.clear();
            for _ in 0..d {
                s.push('[');
            }
            s.push_str("+.");
            for _ in 0..d {
                s.push(']');
            }
            s.push_str("+.");
        }
    }
    s
}
