//! The correspondence suites.

use hpbf::exec::{
    BaseJitCompiler, BcInterpreter, Executable, Executor, InplaceInterpreter, IrInterpreter,
};
use hpbf::ir;
use hpbf::runtime::{Context, Memory};
use hpbf::{CellType, ErrorKind};

use crate::gen;
use crate::util::{encode_trace, hex, make_io, EnvSpec, InResp, Rng};
use crate::Out;

pub const WIDTHS: [u32; 4] = [8, 16, 32, 64];

macro_rules! with_width {
    ($w:expr, $f:ident, $($arg:expr),*) => {
        match $w {
            8 => $f::<u8>($($arg),*),
            16 => $f::<u16>($($arg),*),
            32 => $f::<u32>($($arg),*),
            64 => $f::<u64>($($arg),*),
            _ => unreachable!(),
        }
    };
}

// ------------------------------------------------------------------------------------------ cell

fn cell_one<C: CellType>(op: &str, a: u64, b: u64) -> String {
    let ca = C::from_u64(a);
    let cb = C::from_u64(b);
    let opt = |o: Option<C>| match o {
        Some(v) => v.into_u64().to_string(),
        None => "none".to_string(),
    };
    match op {
        "pow" => ca.wrapping_pow(cb).into_u64().to_string(),
        "inv" => opt(ca.wrapping_inv()),
        "div" => opt(ca.wrapping_div(cb)),
        "tz" => ca.trailing_zeros().to_string(),
        "shr" => ca.wrapping_shr(b as u32).into_u64().to_string(),
        "shl" => ca.wrapping_shl(b as u32).into_u64().to_string(),
        "odd" => ca.is_odd().to_string(),
        "intou64" => ca.into_u64().to_string(),
        "intoi64" => (ca.into_i64() as u64).to_string(),
        "fromu64" => C::from_u64(a).into_u64().to_string(),
        "fromu8" => C::from_u8(a as u8).into_u64().to_string(),
        "intou8" => ca.into_u8().to_string(),
        "fromi16" => C::from_i16(a as u16 as i16).into_u64().to_string(),
        "tryi16" => match ca.try_into_i16() {
            Some(v) => (v as u16).to_string(),
            None => "none".to_string(),
        },
        _ => unreachable!(),
    }
}

fn interesting(r: &mut Rng, w: u32) -> u64 {
    let mask = if w == 64 { u64::MAX } else { (1u64 << w) - 1 };
    let v = match r.below(8) {
        0 => r.below(4),
        1 => mask - r.below(4),
        2 => 1u64 << r.below(w as u64),
        3 => (1u64 << r.below(w as u64)).wrapping_sub(1),
        4 => (1u64 << (w - 1)).wrapping_add(r.below(3)).wrapping_sub(1),
        5 => (r.next() | 1) << r.below(w as u64),
        _ => r.next(),
    };
    v & mask
}

pub fn cell(r: &mut Rng, count: usize, out: &mut Out) {
    // exhaustive at 8 bit for div, inv, pow on a grid
    for a in 0..256u64 {
        for b in 0..256u64 {
            out.case(&format!("cell 8 div {a} {b}"), &cell_one::<u8>("div", a, b));
        }
        out.case(&format!("cell 8 inv {a}"), &cell_one::<u8>("inv", a, 0));
        out.case(&format!("cell 8 tz {a}"), &cell_one::<u8>("tz", a, 0));
        for b in [0u64, 1, 2, 3, 7, 8, 127, 128, 129, 254, 255] {
            out.case(&format!("cell 8 pow {a} {b}"), &cell_one::<u8>("pow", a, b));
        }
        for op in ["intoi64", "intou8", "tryi16", "odd"] {
            out.case(&format!("cell 8 {op} {a}"), &cell_one::<u8>(op, a, 0));
        }
    }
    out.stats.insert("exhaustive8".into(), 256 * 256);
    for _ in 0..count {
        let w = *r.pick(&WIDTHS);
        let a = interesting(r, w);
        let b = interesting(r, w);
        let op2 = *r.pick(&["pow", "div", "div", "div"]);
        out.case(
            &format!("cell {w} {op2} {a} {b}"),
            &with_width!(w, cell_one, op2, a, b),
        );
        out.stat(op2);
        let op1 = *r.pick(&["inv", "tz", "odd", "intou64", "intoi64", "intou8", "tryi16"]);
        out.case(
            &format!("cell {w} {op1} {a}"),
            &with_width!(w, cell_one, op1, a, 0),
        );
        out.stat(op1);
        let s = r.below(70);
        let ops = *r.pick(&["shr", "shl"]);
        out.case(
            &format!("cell {w} {ops} {a} {s}"),
            &with_width!(w, cell_one, ops, a, s),
        );
        let v64 = r.next();
        out.case(
            &format!("cell {w} fromu64 {v64}"),
            &with_width!(w, cell_one, "fromu64", v64, 0),
        );
        let v16 = r.below(65536);
        out.case(
            &format!("cell {w} fromi16 {v16}"),
            &with_width!(w, cell_one, "fromi16", v16, 0),
        );
        let v8 = r.below(256);
        out.case(
            &format!("cell {w} fromu8 {v8}"),
            &with_width!(w, cell_one, "fromu8", v8, 0),
        );
    }
}

// ------------------------------------------------------------------------------------------- mem

fn mem_history<C: CellType>(w: u32, r: &mut Rng, out: &mut Out) {
    let mut mem = Memory::<C>::new();
    let n = 1 + r.below(25);
    let mut req = format!("mem {w}");
    let mut imp: Vec<String> = Vec::new();
    let sz = (w / 8) as i64;
    let far = |r: &mut Rng| -> i64 {
        match r.below(6) {
            0 => r.range(-3, 3),
            1 => r.range(-40, 40),
            2 => r.range(-3000, 3000),
            3 => *r.pick(&[0i64, 1, -1]),
            4 => r.range(-100000, 100000),
            _ => r.range(-10, 10),
        }
    };
    let mut grown = false;
    for _ in 0..n {
        let lay = |m: &Memory<C>| {
            let (s, o) = m.verif_layout();
            format!("@{}/{}", s, o)
        };
        match r.below(if grown { 16 } else { 12 }) {
            0 | 1 => {
                let d = far(r);
                mem.mov(d as isize);
                req.push_str(&format!(" m{d}"));
                imp.push(format!("m{}", lay(&mem)));
                out.stat("mov");
            }
            2..=4 => {
                let d = far(r);
                let v = mem.read(d as isize);
                req.push_str(&format!(" r{d}"));
                imp.push(format!("r{}{}", v.into_u64(), lay(&mem)));
                out.stat("read");
            }
            5..=7 => {
                let d = far(r);
                let v = 1 + r.below(250);
                mem.write(d as isize, C::from_u64(v));
                req.push_str(&format!(" w{d}:{v}"));
                imp.push(format!("w{}", lay(&mem)));
                grown = true;
                out.stat("write");
            }
            8 | 9 => {
                let a = far(r);
                let len = r.range(0, 50);
                let (s, e) = if r.chance(1, 8) { (a, a - len) } else { (a, a + len) };
                mem.make_accessible(s as isize, e as isize);
                req.push_str(&format!(" a{s}:{e}"));
                imp.push(format!("a{}", lay(&mem)));
                grown = true;
                out.stat("make_accessible");
            }
            10 | 11 => {
                let d = far(r);
                let c = mem.check(d as isize);
                req.push_str(&format!(" c{d}"));
                imp.push(format!("c{}{}", c, lay(&mem)));
                out.stat("check");
            }
            12 | 13 => {
                // set_current_ptr(current_ptr + delta bytes)
                let cells = far(r);
                let delta = cells * sz + if r.chance(1, 6) { r.range(0, sz - 1) } else { 0 };
                let p = (mem.current_ptr() as *mut u8).wrapping_offset(delta as isize) as *mut C;
                mem.set_current_ptr(p);
                req.push_str(&format!(" s{delta}"));
                imp.push(format!("s{}", lay(&mem)));
                out.stat("set_current_ptr");
            }
            _ => {
                let cells = far(r);
                let delta = cells * sz;
                let p = (mem.current_ptr() as *mut u8).wrapping_offset(delta as isize) as *mut C;
                let c = mem.check_ptr(p);
                req.push_str(&format!(" k{delta}"));
                imp.push(format!("k{}{}", c, lay(&mem)));
                out.stat("check_ptr");
            }
        }
    }
    out.case(&req, &imp.join(" "));
}

pub fn mem(r: &mut Rng, count: usize, out: &mut Out) {
    for _ in 0..count {
        let w = *r.pick(&WIDTHS);
        with_width!(w, mem_history, w, r, out);
    }
}

// ------------------------------------------------------------------------------------ executors

pub enum Mode {
    Unlimited,
    Limited(usize),
}

pub struct ExecOut {
    pub tag: String,
    pub trace: String,
    pub window: String,
    pub budget: usize,
}

pub fn run_exec<C: CellType>(exec: &dyn Executable<C>, env: &EnvSpec, mode: &Mode) -> ExecOut {
    let (i, o, log) = make_io(env, false);
    let mut cxt = Context::<C>::new(i, o);
    let ret = match mode {
        Mode::Unlimited => exec.execute(&mut cxt).map(|_| true),
        Mode::Limited(b) => {
            cxt.budget = *b;
            exec.execute_limited(&mut cxt)
        }
    };
    let tag = match ret {
        Ok(true) => "ok".to_string(),
        Ok(false) => "interrupted".to_string(),
        Err(e) => match e.kind {
            ErrorKind::LoopNotOpened => format!("notopened@{}", e.position),
            ErrorKind::LoopNotClosed => format!("notclosed@{}", e.position),
            _ => "error".to_string(),
        },
    };
    let window = (-4..=4)
        .map(|off| cxt.memory.read(off).into_u64().to_string())
        .collect::<Vec<_>>()
        .join(",");
    let budget = cxt.budget;
    drop(cxt);
    ExecOut {
        tag,
        trace: encode_trace(&log),
        window,
        budget,
    }
}

fn random_env(r: &mut Rng) -> EnvSpec {
    let mut input: Vec<InResp> = gen::input_bytes(r).into_iter().map(InResp::Byte).collect();
    if r.chance(1, 6) && !input.is_empty() {
        let i = r.below(input.len() as u64) as usize;
        input[i] = if r.chance(1, 2) { InResp::Err } else { InResp::Eof };
    }
    EnvSpec {
        input: if r.chance(1, 12) { None } else { Some(input) },
        sink: !r.chance(1, 20),
        out_ok: if r.chance(1, 6) { Some(r.below(6) as usize) } else { None },
    }
}

fn random_program(r: &mut Rng, out: &mut Out) -> String {
    match r.below(10) {
        0..=3 => {
            out.stat("gen_token");
            gen::token(r)
        }
        4..=7 => {
            out.stat("gen_structured");
            gen::structured(r)
        }
        _ => {
            out.stat("gen_roaming");
            gen::roaming(r)
        }
    }
}

// --------------------------------------------------------------------------------------- inplace

fn inplace_case<C: CellType>(w: u32, code: &str, env: &EnvSpec, budget: usize, out: &mut Out) {
    let exec = InplaceInterpreter::<C>::create(code, 0).unwrap();
    out.mark(&format!("inplace w={w} limited budget={budget} code={code:?} env={}", env.encode()));
    let lim = run_exec::<C>(&exec, env, &Mode::Limited(budget));
    let fuel = (budget + 2) * (code.len() + 2) + 10;
    out.case(
        &format!("inplace {w} 1 {budget} {fuel} {} {}", env.encode(), hex(code.as_bytes())),
        &format!("{} {} {} b{}", lim.tag, lim.trace, lim.window, lim.budget),
    );
    out.stat(&format!("limited_{}", lim.tag.split('@').next().unwrap()));
    if lim.tag != "interrupted" {
        out.mark(&format!("inplace w={w} unlimited code={code:?} env={}", env.encode()));
        let un = run_exec::<C>(&exec, env, &Mode::Unlimited);
        out.case(
            &format!("inplace {w} 0 0 {fuel} {} {}", env.encode(), hex(code.as_bytes())),
            &format!("{} {} {} b{}", un.tag, un.trace, un.window, un.budget),
        );
        out.stat("unlimited");
    }
}

pub fn inplace(r: &mut Rng, count: usize, out: &mut Out) {
    for i in 0..count {
        let code = match i % 5 {
            4 => {
                out.stat("gen_arbitrary_text");
                gen::arbitrary_text(r)
            }
            _ => random_program(r, out),
        };
        let code = if r.chance(1, 5) { gen::with_comments(r, &code) } else { code };
        let env = random_env(r);
        let budget = *r.pick(&[0usize, 1, 2, 5, 50, 2000, 2000, 2000]);
        let w = *r.pick(&WIDTHS);
        with_width!(w, inplace_case, w, &code, &env, budget, out);
    }
}

// --------------------------------------------------------------------------------------- irparse

pub fn encode_expr<C: CellType>(e: &ir::Expr<C>) -> String {
    let parts = e.verif_parts();
    if parts.is_empty() {
        return "0".to_string();
    }
    parts
        .iter()
        .map(|(c, vs)| {
            let mut s = c.into_u64().to_string();
            for v in vs {
                s.push_str(&format!("*{v}"));
            }
            s
        })
        .collect::<Vec<_>>()
        .join("+")
}

pub fn encode_insts<C: CellType>(insts: &[ir::Instr<C>]) -> String {
    insts
        .iter()
        .map(|i| match i {
            ir::Instr::Output { src } => format!("O{src}"),
            ir::Instr::Input { dst } => format!("I{dst}"),
            ir::Instr::Calc { calcs } => format!(
                "C({})",
                calcs
                    .iter()
                    .map(|(v, e)| format!("{v}={}", encode_expr(e)))
                    .collect::<Vec<_>>()
                    .join(";")
            ),
            ir::Instr::Loop { cond, block, once } => format!(
                "L{cond},{},{}{{{}}}",
                block.shift,
                if *once { 1 } else { 0 },
                encode_insts(&block.insts)
            ),
            ir::Instr::If { cond, block } => {
                format!("F{cond},{}{{{}}}", block.shift, encode_insts(&block.insts))
            }
        })
        .collect::<Vec<_>>()
        .join(" ")
}

pub fn encode_block<C: CellType>(b: &ir::Block<C>) -> String {
    format!("B{}{{{}}}", b.shift, encode_insts(&b.insts))
}

fn irparse_case<C: CellType>(w: u32, code: &str, out: &mut Out) {
    let imp = match ir::Program::<C>::parse(code) {
        Ok(p) => {
            out.stat("parse_ok");
            encode_block(&p)
        }
        Err(e) => match e.kind {
            ErrorKind::LoopNotOpened => {
                out.stat("parse_notopened");
                format!("notopened@{}", e.position)
            }
            ErrorKind::LoopNotClosed => {
                out.stat("parse_notclosed");
                format!("notclosed@{}", e.position)
            }
            _ => "error".to_string(),
        },
    };
    out.case(&format!("irparse {w} {}", hex(code.as_bytes())), &imp);
}

pub fn irparse(r: &mut Rng, count: usize, out: &mut Out) {
    for i in 0..count {
        let code = match i % 3 {
            0 => gen::arbitrary_text(r),
            _ => random_program(r, out),
        };
        let code = if r.chance(1, 4) { gen::with_comments(r, &code) } else { code };
        let w = *r.pick(&WIDTHS);
        with_width!(w, irparse_case, w, &code, out);
    }
}

// ----------------------------------------------------------------------------------------- irrun

fn irrun_case<C: CellType>(w: u32, code: &str, env: &EnvSpec, budget: usize, out: &mut Out) {
    let exec = match IrInterpreter::<C>::create(code, 0) {
        Ok(e) => e,
        Err(_) => return,
    };
    out.mark(&format!("irrun w={w} budget={budget} code={code:?} env={}", env.encode()));
    let lim = run_exec::<C>(&exec, env, &Mode::Limited(budget));
    let fuel = (budget + 2) * (code.len() + 2) * 2 + 10;
    out.case(
        &format!("irrun {w} 1 {budget} {fuel} {} {}", env.encode(), hex(code.as_bytes())),
        &format!("{} {} {} b{}", lim.tag, lim.trace, lim.window, lim.budget),
    );
    out.stat(&format!("limited_{}", lim.tag));
    if lim.tag != "interrupted" {
        let un = run_exec::<C>(&exec, env, &Mode::Unlimited);
        out.case(
            &format!("irrun {w} 0 0 {fuel} {} {}", env.encode(), hex(code.as_bytes())),
            &format!("{} {} {} b{}", un.tag, un.trace, un.window, un.budget),
        );
        out.stat("unlimited");
    }
}

pub fn irrun(r: &mut Rng, count: usize, out: &mut Out) {
    for _ in 0..count {
        let code = random_program(r, out);
        let env = random_env(r);
        let budget = *r.pick(&[0usize, 1, 2, 5, 50, 2000, 2000, 2000]);
        let w = *r.pick(&WIDTHS);
        with_width!(w, irrun_case, w, &code, &env, budget, out);
    }
}

// ------------------------------------------------------------------------------------------- e2e

pub const LEVELS: [u32; 6] = [0, 1, 2, 3, 4, 7];

fn e2e_case<C: CellType>(w: u32, code: &str, env: &EnvSpec, out: &mut Out) {
    // Gate: the in-place interpreter (tied to its model separately) must finish within the budget,
    // otherwise the case is skipped (counted).
    let gate_budget = 3000usize;
    let inplace = InplaceInterpreter::<C>::create(code, 0).unwrap();
    let mut genv = env.clone();
    // bound the output of the gate run
    if genv.out_ok.is_none() {
        genv.out_ok = Some(4000);
    }
    let env = &genv;
    let g = run_exec::<C>(&inplace, env, &Mode::Limited(gate_budget));
    if g.tag != "ok" {
        out.stat("skipped_long");
        return;
    }
    let fuel = (gate_budget + 2) * (code.len() + 2) + 10;
    let mut results: Vec<(String, String)> = Vec::new();
    results.push(("inplace".to_string(), format!("ok {}", g.trace)));
    for &lvl in &LEVELS {
        macro_rules! backend {
            ($name:expr, $ty:ident) => {{
                out.mark(&format!("e2e {} O{lvl} w={w} code={code:?} env={}", $name, env.encode()));
                match $ty::<C>::create(code, lvl) {
                    Ok(exec) => {
                        let un = run_exec::<C>(&exec, env, &Mode::Unlimited);
                        results.push((format!("{}/O{lvl}/unlimited", $name), format!("{} {}", un.tag, un.trace)));
                        let lim = run_exec::<C>(&exec, env, &Mode::Limited(1usize << 40));
                        // With a budget of 2^40 a terminating program is never interrupted by the
                        // budget; the JIT reports an I/O stop as `false` (interpreters: `true`).
                        let tag = if $name == "basejit" && lim.tag == "interrupted" { "ok".to_string() } else { lim.tag.clone() };
                        results.push((format!("{}/O{lvl}/limited", $name), format!("{} {}", tag, lim.trace)));
                    }
                    Err(_) => results.push((format!("{}/O{lvl}", $name), "create-error".to_string())),
                }
            }};
        }
        backend!("irint", IrInterpreter);
        backend!("bcint", BcInterpreter);
        backend!("basejit", BaseJitCompiler);
    }
    let first = results[0].1.clone();
    let imp = if results.iter().all(|(_, r)| *r == first) {
        first
    } else {
        let dis: Vec<String> = results
            .iter()
            .filter(|(_, r)| *r != first)
            .map(|(n, r)| format!("{n}=[{r}]"))
            .collect();
        format!("{first} DISAGREE {}", dis.join(" "))
    };
    out.case(
        &format!("bftrace {w} {fuel} {} {}", env.encode(), hex(code.as_bytes())),
        &imp,
    );
    out.stat("compared");
    if g.trace != "-" {
        out.stat("with_io");
    }
}

pub fn e2e(r: &mut Rng, count: usize, out: &mut Out) {
    for _ in 0..count {
        let code = random_program(r, out);
        let mut env = random_env(r);
        if env.input.is_none() && r.chance(1, 2) {
            env.input = Some(vec![]);
        }
        let w = *r.pick(&WIDTHS);
        with_width!(w, e2e_case, w, &code, &env, out);
    }
}

// -------------------------------------------------------------------------------------- smallvec

mod sv {
    use super::*;
    use hpbf::verif::SmallVec;
    use std::cell::RefCell;

    thread_local! {
        static NEXT_ID: RefCell<u64> = RefCell::new(0);
        static DROPS: RefCell<Vec<u64>> = RefCell::new(Vec::new());
    }

    pub struct Tracked {
        pub id: u64,
        pub val: u64,
    }
    impl Tracked {
        pub fn new(val: u64) -> Self {
            let id = NEXT_ID.with(|n| {
                let mut n = n.borrow_mut();
                *n += 1;
                *n
            });
            Tracked { id, val }
        }
    }
    impl Clone for Tracked {
        fn clone(&self) -> Self {
            Tracked::new(self.val)
        }
    }
    impl Drop for Tracked {
        fn drop(&mut self) {
            DROPS.with(|d| d.borrow_mut().push(self.id));
        }
    }
    impl PartialEq for Tracked {
        fn eq(&self, o: &Self) -> bool {
            self.val == o.val
        }
    }
    impl Eq for Tracked {}
    impl PartialOrd for Tracked {
        fn partial_cmp(&self, o: &Self) -> Option<std::cmp::Ordering> {
            Some(self.cmp(o))
        }
    }
    impl Ord for Tracked {
        fn cmp(&self, o: &Self) -> std::cmp::Ordering {
            self.val.cmp(&o.val)
        }
    }

    fn take_drops() -> String {
        DROPS.with(|d| {
            let mut d = d.borrow_mut();
            let s = if d.is_empty() {
                "-".to_string()
            } else {
                d.iter().map(|x| x.to_string()).collect::<Vec<_>>().join(",")
            };
            d.clear();
            s
        })
    }

    fn view<const N: usize>(v: &SmallVec<Tracked, N>) -> String {
        let s = v.as_slice();
        if s.is_empty() {
            "-".to_string()
        } else {
            s.iter().map(|t| format!("{}:{}", t.id, t.val)).collect::<Vec<_>>().join(",")
        }
    }

    pub fn history<const N: usize>(r: &mut Rng, out: &mut Out) {
        NEXT_ID.with(|n| *n.borrow_mut() = 0);
        DROPS.with(|d| d.borrow_mut().clear());
        let mut created: u64;
        let mut all_drops: Vec<u64> = Vec::new();
        let mut vars: Vec<Option<SmallVec<Tracked, N>>> = vec![None, None, None];
        let mut req = format!("sv {N}");
        let mut imp: Vec<String> = Vec::new();
        let nops = 1 + r.below(14);
        let small = |r: &mut Rng| r.below(4);
        for _ in 0..nops {
            let a = r.below(3) as usize;
            let before_drops = |imp: &mut Vec<String>, all: &mut Vec<u64>, s: String| {
                DROPS.with(|d| all.extend(d.borrow().iter().copied()));
                let dr = take_drops();
                imp.push(format!("{s}/{dr}"));
            };
            if vars[a].is_none() {
                match r.below(4) {
                    0 => {
                        vars[a] = Some(SmallVec::new());
                        req.push_str(&format!(" new:{a}"));
                        out.stat("new");
                    }
                    1 => {
                        let n = r.below(5);
                        vars[a] = Some(SmallVec::with_capacity(n as usize));
                        req.push_str(&format!(" cap:{a}:{n}"));
                        out.stat("with_capacity");
                    }
                    2 => {
                        let k = r.below(4);
                        let vals: Vec<u64> = (0..k).map(|_| small(r)).collect();
                        let v: Vec<Tracked> = vals.iter().map(|&x| Tracked::new(x)).collect();
                        vars[a] = Some(SmallVec::from_vec(v));
                        req.push_str(&format!(
                            " fromvec:{a}:{}",
                            if vals.is_empty() { "-".to_string() } else { vals.iter().map(|x| x.to_string()).collect::<Vec<_>>().join(",") }
                        ));
                        out.stat("from_vec");
                    }
                    _ => {
                        let x = small(r);
                        vars[a] = Some(SmallVec::with(Tracked::new(x)));
                        req.push_str(&format!(" with:{a}:{x}"));
                        out.stat("with");
                    }
                }
                let s = view(vars[a].as_ref().unwrap());
                before_drops(&mut imp, &mut all_drops, s);
                continue;
            }
            match r.below(16) {
                0..=3 => {
                    let x = small(r);
                    vars[a].as_mut().unwrap().push(Tracked::new(x));
                    req.push_str(&format!(" push:{a}:{x}"));
                    out.stat("push");
                }
                4 => {
                    let k = r.below(4);
                    let vals: Vec<u64> = (0..k).map(|_| small(r)).collect();
                    let els: Vec<Tracked> = vals.iter().map(|&x| Tracked::new(x)).collect();
                    vars[a].as_mut().unwrap().extend(els.into_iter());
                    req.push_str(&format!(
                        " ext:{a}:{}",
                        if vals.is_empty() { "-".to_string() } else { vals.iter().map(|x| x.to_string()).collect::<Vec<_>>().join(",") }
                    ));
                    out.stat("extend");
                }
                5 => {
                    vars[a].as_mut().unwrap().clear();
                    req.push_str(&format!(" clear:{a}"));
                    out.stat("clear");
                }
                6 | 7 => {
                    let m = 2 + r.below(2);
                    let rr = r.below(m);
                    vars[a].as_mut().unwrap().retain(|t| t.val % m != rr);
                    req.push_str(&format!(" retain:{a}:{m}:{rr}"));
                    out.stat("retain");
                }
                8 => {
                    let m = 2 + r.below(2);
                    let rr = r.below(m);
                    vars[a].as_mut().unwrap().retain_mut(|t| {
                        t.val += 1;
                        t.val % m != rr
                    });
                    req.push_str(&format!(" retmut:{a}:{m}:{rr}"));
                    out.stat("retain_mut");
                }
                9 | 10 => {
                    vars[a].as_mut().unwrap().dedup();
                    req.push_str(&format!(" dedup:{a}"));
                    out.stat("dedup");
                }
                11 => {
                    vars[a].as_mut().unwrap().sort();
                    req.push_str(&format!(" sort:{a}"));
                    out.stat("sort");
                }
                12 => {
                    let b = (a + 1 + r.below(2) as usize) % 3;
                    let c = vars[a].as_ref().unwrap().clone();
                    vars[b] = Some(c);
                    req.push_str(&format!(" clone:{a}:{b}"));
                    out.stat("clone");
                    let s = view(vars[b].as_ref().unwrap());
                    before_drops(&mut imp, &mut all_drops, s);
                    continue;
                }
                13 => {
                    let b = (a + 1 + r.below(2) as usize) % 3;
                    if let Some(vb) = vars[b].as_ref() {
                        let va = vars[a].as_ref().unwrap();
                        let e = va == vb;
                        let c = match va.cmp(vb) {
                            std::cmp::Ordering::Less => "lt",
                            std::cmp::Ordering::Equal => "eq",
                            std::cmp::Ordering::Greater => "gt",
                        };
                        req.push_str(&format!(" cmp:{a}:{b}"));
                        imp.push(format!("{e},{c}"));
                        out.stat("cmp");
                    }
                    continue;
                }
                14 => {
                    let k = r.below(4);
                    let v = vars[a].take().unwrap();
                    let mut it = v.into_iter();
                    let mut got = Vec::new();
                    for _ in 0..k {
                        if let Some(t) = it.next() {
                            got.push(format!("{}:{}", t.id, t.val));
                        } else {
                            got.push("none".to_string());
                        }
                    }
                    drop(it);
                    req.push_str(&format!(" iter:{a}:{k}"));
                    out.stat("into_iter");
                    let s = if got.is_empty() { "-".to_string() } else { got.join(",") };
                    before_drops(&mut imp, &mut all_drops, s);
                    continue;
                }
                _ => {
                    vars[a] = None;
                    req.push_str(&format!(" drop:{a}"));
                    out.stat("drop");
                    before_drops(&mut imp, &mut all_drops, "-".to_string());
                    continue;
                }
            }
            let s = view(vars[a].as_ref().unwrap());
            before_drops(&mut imp, &mut all_drops, s);
        }
        // end of history: drop everything, then every created element must have been dropped once
        for v in vars.iter_mut() {
            *v = None;
        }
        DROPS.with(|d| all_drops.extend(d.borrow().iter().copied()));
        let dr = take_drops();
        created = NEXT_ID.with(|n| *n.borrow());
        let mut counts = vec![0u32; created as usize + 1];
        for &d in &all_drops {
            counts[d as usize] += 1;
        }
        let leaked: Vec<String> = (1..=created).filter(|&i| counts[i as usize] == 0).map(|i| i.to_string()).collect();
        let twice: Vec<String> = (1..=created).filter(|&i| counts[i as usize] > 1).map(|i| i.to_string()).collect();
        created = created;
        req.push_str(" end");
        imp.push(format!(
            "end/{dr}/leaked={}/twice={}/created={created}",
            if leaked.is_empty() { "-".to_string() } else { leaked.join(",") },
            if twice.is_empty() { "-".to_string() } else { twice.join(",") }
        ));
        out.case(&req, &imp.join(" "));
    }
}

pub fn smallvec(r: &mut Rng, count: usize, out: &mut Out) {
    for _ in 0..count {
        match r.below(4) {
            0 => sv::history::<0>(r, out),
            1 | 2 => sv::history::<1>(r, out),
            _ => sv::history::<2>(r, out),
        }
    }
}

// ------------------------------------------------------------------------------------------ expr

fn expr_queries<C: CellType>(e: &ir::Expr<C>, assign: &[u64; 4]) -> String {
    let optc = |o: Option<C>| o.map_or("none".to_string(), |c| c.into_u64().to_string());
    let opte = |o: Option<ir::Expr<C>>| o.map_or("none".to_string(), |e| encode_expr(&e));
    let mut s = format!(
        "const={} ident={} cpart={} zero={} ops={} adds={} vars={}",
        optc(e.constant()),
        e.identity().map_or("none".to_string(), |v| v.to_string()),
        e.constant_part().into_u64(),
        e.is_zero(),
        e.op_count(),
        e.add_count(),
        {
            let v: Vec<String> = e.variables().map(|v| v.to_string()).collect();
            if v.is_empty() { "-".to_string() } else { v.join(",") }
        }
    );
    for i in [0isize, 1] {
        s.push_str(&format!(
            " inc{i}={} pinc{i}={} cinc{i}={} prod{i}={}",
            opte(e.inc_of(i)),
            e.prod_inc_of(i)
                .map_or("none".to_string(), |(e, m)| format!("{}@{}", encode_expr(&e), m.into_u64())),
            optc(e.const_inc_of(i)),
            opte(e.prod_of(i)),
        ));
    }
    let val = e.evaluate(|v| C::from_u64(assign[(v + 1) as usize]));
    s.push_str(&format!(" eval={}", val.into_u64()));
    s
}

fn expr_case<C: CellType>(w: u32, r: &mut Rng, out: &mut Out) {
    let mut stack: Vec<ir::Expr<C>> = Vec::new();
    let mut req = format!("expr {w}");
    let mut imp: Vec<String> = Vec::new();
    let assign = [interesting(r, w), interesting(r, w), r.below(5), interesting(r, w)];
    req.push_str(&format!(" env:{},{},{},{}", assign[0], assign[1], assign[2], assign[3]));
    let n = 2 + r.below(14);
    let half_mod = 1u64 << (w - 1);
    let mask = if w == 64 { u64::MAX } else { (1u64 << w) - 1 };
    for _ in 0..n {
        let choice = if stack.len() < 2 { r.below(2) } else { 2 + r.below(12) };
        match choice {
            0 => {
                let c = match r.below(8) {
                    0 => 0,
                    1 => 1,
                    2 => mask,
                    3 => half_mod,
                    4 => half_mod + 1,
                    5 => half_mod - 1,
                    6 => 2,
                    _ => r.next() & mask,
                };
                stack.push(ir::Expr::val(C::from_u64(c)));
                req.push_str(&format!(" v:{c}"));
                out.stat("val");
            }
            1 => {
                let v = r.range(-1, 2);
                stack.push(ir::Expr::var(v as isize));
                req.push_str(&format!(" x:{v}"));
                out.stat("var");
            }
            2..=4 => {
                let b = stack.pop().unwrap();
                let a = stack.pop().unwrap();
                stack.push(a.add(&b));
                req.push_str(" add");
                out.stat("add");
            }
            5..=8 => {
                let b = stack.pop().unwrap();
                let a = stack.pop().unwrap();
                stack.push(if r.chance(1, 2) { a.mul(&b) } else { a.mul(b) });
                req.push_str(" mul");
                out.stat("mul");
            }
            9 => {
                let a = stack.pop().unwrap();
                stack.push(a.neg());
                req.push_str(" neg");
                out.stat("neg");
            }
            10 => {
                let a = stack.pop().unwrap();
                match a.half() {
                    Some(h) => {
                        stack.push(h);
                        out.stat("half_some");
                    }
                    None => {
                        stack.push(a);
                        out.stat("half_none");
                    }
                }
                req.push_str(" half");
            }
            11 => {
                let a = stack.pop().unwrap();
                stack.push(a.normalize());
                req.push_str(" norm");
                out.stat("normalize");
            }
            12 => {
                let i = r.range(-1, 2) as isize;
                let b = stack.pop().unwrap();
                let a = stack.pop().unwrap();
                let res = a
                    .symb_evaluate(|v| if v == i { Some(b.clone()) } else { Some(ir::Expr::var(v)) })
                    .unwrap();
                stack.push(res);
                req.push_str(&format!(" sub:{i}"));
                out.stat("symb_evaluate");
            }
            _ => {
                let i = r.range(-1, 2) as isize;
                let a = stack.pop().unwrap();
                match a.symb_evaluate(|v| if v == i { None } else { Some(ir::Expr::var(v)) }) {
                    Some(e) => {
                        stack.push(e);
                        out.stat("symb_partial_some");
                    }
                    None => {
                        stack.push(a);
                        out.stat("symb_partial_none");
                    }
                }
                req.push_str(&format!(" subnone:{i}"));
            }
        }
        imp.push(encode_expr(stack.last().unwrap()));
    }
    imp.push(expr_queries(stack.last().unwrap(), &assign));
    out.case(&req, &imp.join(" "));
}

pub fn expr(r: &mut Rng, count: usize, out: &mut Out) {
    for _ in 0..count {
        let w = *r.pick(&WIDTHS);
        with_width!(w, expr_case, w, r, out);
    }
}
