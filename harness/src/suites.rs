//! The correspondence suites.

use hpbf::exec::{
    BaseJitCompiler, BcInterpreter, Executable, Executor, InplaceInterpreter, IrInterpreter,
};
use hpbf::ir;
use hpbf::runtime::{Context, Memory};
use hpbf::{CellType, ErrorKind};

use crate::gen;
use crate::util::{encode_trace, hex, make_io, EnvSpec, InResp, Rng};
use crate::Out;

pub const WIDTHS: [u32; 4] = [8, 16, 32, 64];

macro_rules! with_width {
    ($w:expr, $f:ident, $($arg:expr),*) => {
        match $w {
            8 => $f::<u8>($($arg),*),
            16 => $f::<u16>($($arg),*),
            32 => $f::<u32>($($arg),*),
            64 => $f::<u64>($($arg),*),
            _ => unreachable!(),
        }
    };
}

// ------------------------------------------------------------------------------------ executors

pub enum Mode {
    Unlimited,
    Limited(usize),
}

pub struct ExecOut {
    pub tag: String,
    pub trace: String,
    pub window: String,
    pub budget: usize,
}

pub fn run_exec<C: CellType>(exec: &dyn Executable<C>, env: &EnvSpec, mode: &Mode) -> ExecOut {
    let (i, o, log) = make_io(env, false);
    let mut cxt = Context::<C>::new(i, o);
    let ret = match mode {
        Mode::Unlimited => exec.execute(&mut cxt).map(|_| true),
        Mode::Limited(b) => {
            cxt.budget = *b;
            exec.execute_limited(&mut cxt)
        }
    };
    let tag = match ret {
        Ok(true) => "ok".to_string(),
        Ok(false) => "interrupted".to_string(),
        Err(e) => match e.kind {
            ErrorKind::LoopNotOpened => format!("notopened@{}", e.position),
            ErrorKind::LoopNotClosed => format!("notclosed@{}", e.position),
            _ => "error".to_string(),
        },
    };
    let window = (-4..=4)
        .map(|off| cxt.memory.read(off).into_u64().to_string())
        .collect::<Vec<_>>()
        .join(",");
    let budget = cxt.budget;
    drop(cxt);
    ExecOut {
        tag,
        trace: encode_trace(&log),
        window,
        budget,
    }
}

fn random_env(r: &mut Rng) -> EnvSpec {
    let mut input: Vec<InResp> = gen::input_bytes(r).into_iter().map(InResp::Byte).collect();
    if r.chance(1, 6) && !input.is_empty() {
        let i = r.below(input.len() as u64) as usize;
        input[i] = if r.chance(1, 2) { InResp::Err } else { InResp::Eof };
    }
    EnvSpec {
        input: if r.chance(1, 12) { None } else { Some(input) },
        sink: !r.chance(1, 20),
        out_ok: if r.chance(1, 6) { Some(r.below(6) as usize) } else { None },
    }
}

fn random_program(r: &mut Rng, out: &mut Out) -> String {
    match r.below(10) {
        0..=3 => {
            out.stat("gen_token");
            gen::token(r)
        }
        4..=7 => {
            out.stat("gen_structured");
            gen::structured(r)
        }
        _ => {
            out.stat("gen_roaming");
            gen::roaming(r)
        }
    }
}

// --------------------------------------------------------------------------------------- inplace

fn inplace_case<C: CellType>(w: u32, code: &str, env: &EnvSpec, budget: usize, out: &mut Out) {
    let exec = InplaceInterpreter::<C>::create(code, 0).unwrap();
    out.mark(&format!("inplace w={w} limited budget={budget} code={code:?} env={}", env.encode()));
    let lim = run_exec::<C>(&exec, env, &Mode::Limited(budget));
    let fuel = (budget + 2) * (code.len() + 2) + 10;
    out.case(
        &format!("inplace {w} 1 {budget} {fuel} {} {}", env.encode(), hex(code.as_bytes())),
        &format!("{} {} {} b{}", lim.tag, lim.trace, lim.window, lim.budget),
    );
    out.stat(&format!("limited_{}", lim.tag.split('@').next().unwrap()));
    if lim.tag != "interrupted" {
        out.mark(&format!("inplace w={w} unlimited code={code:?} env={}", env.encode()));
        let un = run_exec::<C>(&exec, env, &Mode::Unlimited);
        out.case(
            &format!("inplace {w} 0 0 {fuel} {} {}", env.encode(), hex(code.as_bytes())),
            &format!("{} {} {} b{}", un.tag, un.trace, un.window, un.budget),
        );
        out.stat("unlimited");
    }
}

pub fn inplace(r: &mut Rng, count: usize, out: &mut Out) {
    for i in 0..count {
        let code = match i % 5 {
            4 => {
                out.stat("gen_arbitrary_text");
                gen::arbitrary_text(r)
            }
            _ => random_program(r, out),
        };
        let code = if r.chance(1, 5) { gen::with_comments(r, &code) } else { code };
        let env = random_env(r);
        let budget = *r.pick(&[0usize, 1, 2, 5, 50, 2000, 2000, 2000]);
        let w = *r.pick(&WIDTHS);
        with_width!(w, inplace_case, w, &code, &env, budget, out);
    }
}

// --------------------------------------------------------------------------------------- irparse

pub fn encode_expr<C: CellType>(e: &ir::Expr<C>) -> String {
    let parts = e.verif_parts();
    if parts.is_empty() {
        return "0".to_string();
    }
    parts
        .iter()
        .map(|(c, vs)| {
            let mut s = c.into_u64().to_string();
            for v in vs {
                s.push_str(&format!("*{v}"));
            }
            s
        })
        .collect::<Vec<_>>()
        .join("+")
}

pub fn encode_insts<C: CellType>(insts: &[ir::Instr<C>]) -> String {
    insts
        .iter()
        .map(|i| match i {
            ir::Instr::Output { src } => format!("O{src}"),
            ir::Instr::Input { dst } => format!("I{dst}"),
            ir::Instr::Calc { calcs } => format!(
                "C({})",
                calcs
                    .iter()
                    .map(|(v, e)| format!("{v}={}", encode_expr(e)))
                    .collect::<Vec<_>>()
                    .join(";")
            ),
            ir::Instr::Loop { cond, block, once } => format!(
                "L{cond},{},{}{{{}}}",
                block.shift,
                if *once { 1 } else { 0 },
                encode_insts(&block.insts)
            ),
            ir::Instr::If { cond, block } => {
                format!("F{cond},{}{{{}}}", block.shift, encode_insts(&block.insts))
            }
        })
        .collect::<Vec<_>>()
        .join(" ")
}

pub fn encode_block<C: CellType>(b: &ir::Block<C>) -> String {
    format!("B{}{{{}}}", b.shift, encode_insts(&b.insts))
}

fn irparse_case<C: CellType>(w: u32, code: &str, out: &mut Out) {
    let imp = match ir::Program::<C>::parse(code) {
        Ok(p) => {
            out.stat("parse_ok");
            encode_block(&p)
        }
        Err(e) => match e.kind {
            ErrorKind::LoopNotOpened => {
                out.stat("parse_notopened");
                format!("notopened@{}", e.position)
            }
            ErrorKind::LoopNotClosed => {
                out.stat("parse_notclosed");
                format!("notclosed@{}", e.position)
            }
            _ => "error".to_string(),
        },
    };
    out.case(&format!("irparse {w} {}", hex(code.as_bytes())), &imp);
}

pub fn irparse(r: &mut Rng, count: usize, out: &mut Out) {
    for i in 0..count {
        let code = match i % 3 {
            0 => gen::arbitrary_text(r),
            _ => random_program(r, out),
        };
        let code = if r.chance(1, 4) { gen::with_comments(r, &code) } else { code };
        let w = *r.pick(&WIDTHS);
        with_width!(w, irparse_case, w, &code, out);
    }
}

// ----------------------------------------------------------------------------------------- irrun

fn irrun_case<C: CellType>(w: u32, code: &str, env: &EnvSpec, budget: usize, out: &mut Out) {
    let exec = match IrInterpreter::<C>::create(code, 0) {
        Ok(e) => e,
        Err(_) => return,
    };
    out.mark(&format!("irrun w={w} budget={budget} code={code:?} env={}", env.encode()));
    let lim = run_exec::<C>(&exec, env, &Mode::Limited(budget));
    let fuel = (budget + 2) * (code.len() + 2) * 2 + 10;
    out.case(
        &format!("irrun {w} 1 {budget} {fuel} {} {}", env.encode(), hex(code.as_bytes())),
        &format!("{} {} {} b{}", lim.tag, lim.trace, lim.window, lim.budget),
    );
    out.stat(&format!("limited_{}", lim.tag));
    if lim.tag != "interrupted" {
        let un = run_exec::<C>(&exec, env, &Mode::Unlimited);
        out.case(
            &format!("irrun {w} 0 0 {fuel} {} {}", env.encode(), hex(code.as_bytes())),
            &format!("{} {} {} b{}", un.tag, un.trace, un.window, un.budget),
        );
        out.stat("unlimited");
    }
}

pub fn irrun(r: &mut Rng, count: usize, out: &mut Out) {
    for _ in 0..count {
        let code = random_program(r, out);
        let env = random_env(r);
        let budget = *r.pick(&[0usize, 1, 2, 5, 50, 2000, 2000, 2000]);
        let w = *r.pick(&WIDTHS);
        with_width!(w, irrun_case, w, &code, &env, budget, out);
    }
}

// ------------------------------------------------------------------------------------------- e2e

pub const LEVELS: [u32; 6] = [0, 1, 2, 3, 4, 7];

fn e2e_case<C: CellType>(w: u32, code: &str, env: &EnvSpec, out: &mut Out) {
    // Gate: the in-place interpreter (tied to its model separately) must finish within the budget,
    // otherwise the case is skipped (counted).
    let gate_budget = if out.fixed_fuel.is_some() { 300000usize } else { 3000usize };
    let inplace = InplaceInterpreter::<C>::create(code, 0).unwrap();
    let mut genv = env.clone();
    // bound the output of the gate run
    if genv.out_ok.is_none() {
        genv.out_ok = Some(4000);
    }
    let env = &genv;
    let g = run_exec::<C>(&inplace, env, &Mode::Limited(gate_budget));
    if g.tag != "ok" {
        out.stat("skipped_long");
        return;
    }
    let fuel = match &out.fixed_fuel {
        Some(f) => f.clone(),
        None => ((gate_budget + 2) * (code.len() + 2) + 10).to_string(),
    };
    let mut results: Vec<(String, String)> = Vec::new();
    results.push(("inplace".to_string(), format!("ok {}", g.trace)));
    for &lvl in &LEVELS {
        macro_rules! backend {
            ($name:expr, $ty:ident) => {{
                out.mark(&format!("e2e {} O{lvl} w={w} code={code:?} env={}", $name, env.encode()));
                match $ty::<C>::create(code, lvl) {
                    Ok(exec) => {
                        let un = run_exec::<C>(&exec, env, &Mode::Unlimited);
                        results.push((format!("{}/O{lvl}/unlimited", $name), format!("{} {}", un.tag, un.trace)));
                        let lim = run_exec::<C>(&exec, env, &Mode::Limited(1usize << 40));
                        // With a budget of 2^40 a terminating program is never interrupted by the
                        // budget; the JIT reports an I/O stop as `false` (interpreters: `true`).
                        let tag = if $name == "basejit" && lim.tag == "interrupted" { "ok".to_string() } else { lim.tag.clone() };
                        results.push((format!("{}/O{lvl}/limited", $name), format!("{} {}", tag, lim.trace)));
                    }
                    Err(_) => results.push((format!("{}/O{lvl}", $name), "create-error".to_string())),
                }
            }};
        }
        backend!("irint", IrInterpreter);
        backend!("bcint", BcInterpreter);
        backend!("basejit", BaseJitCompiler);
    }
    let first = results[0].1.clone();
    let imp = if results.iter().all(|(_, r)| *r == first) {
        first
    } else {
        let dis: Vec<String> = results
            .iter()
            .filter(|(_, r)| *r != first)
            .map(|(n, r)| format!("{n}=[{r}]"))
            .collect();
        format!("{first} DISAGREE {}", dis.join(" "))
    };
    out.case(
        &format!("bftrace {w} {fuel} {} {}", env.encode(), hex(code.as_bytes())),
        &imp,
    );
    out.stat("compared");
    if g.trace != "-" {
        out.stat("with_io");
    }
}

pub fn e2e(r: &mut Rng, count: usize, out: &mut Out) {
    for _ in 0..count {
        let code = random_program(r, out);
        let mut env = random_env(r);
        if env.input.is_none() && r.chance(1, 2) {
            env.input = Some(vec![]);
        }
        let w = *r.pick(&WIDTHS);
        with_width!(w, e2e_case, w, &code, &env, out);
    }
}

// ---------------------------------------------------------------------------------------- replay

/// Re-run request lines (from the corpus or a replay file) through the real code.
pub fn replay(lines: &[String], out: &mut Out) {
    for line in lines {
        let t: Vec<&str> = line.split_whitespace().collect();
        if t.is_empty() {
            continue;
        }
        let before = out.cases;
        match t[0] {
            "bftrace" if t.len() == 6 => {
                let w: u32 = t[1].parse().unwrap();
                let env = EnvSpec::decode(t[3], t[4]).unwrap();
                let code = String::from_utf8(crate::util::unhex(t[5]).unwrap()).unwrap();
                out.fixed_fuel = Some(t[2].to_string());
                with_width!(w, e2e_case, w, &code, &env, out);
                out.fixed_fuel = None;
            }
            "inplace" if t.len() == 8 => {
                let w: u32 = t[1].parse().unwrap();
                let env = EnvSpec::decode(t[5], t[6]).unwrap();
                let code = String::from_utf8_lossy(&crate::util::unhex(t[7]).unwrap()).to_string();
                let budget: usize = t[3].parse().unwrap();
                with_width!(w, inplace_case, w, &code, &env, budget, out);
            }
            "irparse" if t.len() == 3 => {
                let w: u32 = t[1].parse().unwrap();
                let code = String::from_utf8(crate::util::unhex(t[2]).unwrap()).unwrap();
                with_width!(w, irparse_case, w, &code, out);
            }
            "irrun" if t.len() == 8 => {
                let w: u32 = t[1].parse().unwrap();
                let env = EnvSpec::decode(t[5], t[6]).unwrap();
                let code = String::from_utf8(crate::util::unhex(t[7]).unwrap()).unwrap();
                let budget: usize = t[3].parse().unwrap();
                with_width!(w, irrun_case, w, &code, &env, budget, out);
            }
            "cell" => out.case(line, &crate::dsuites::exec_cell(&t)),
            "mem" => out.case(line, &crate::dsuites::exec_mem(&t)),
            "sv" => out.case(line, &crate::dsuites::exec_sv(&t)),
            "expr" => out.case(line, &crate::dsuites::exec_expr(&t)),
            _ => {
                out.case(line, "unsupported-replay");
            }
        }
        if out.cases == before {
            // the case was skipped by its gate (e.g. does not terminate within the gate budget)
            out.case(line, "skipped");
        }
    }
}
