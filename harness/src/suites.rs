//! The correspondence suites.

use hpbf::exec::{
    BaseJitCompiler, BcInterpreter, Executable, Executor, InplaceInterpreter, IrInterpreter,
};
use hpbf::ir;
use hpbf::runtime::{Context, Memory};
use hpbf::{CellType, ErrorKind};

use crate::gen;
use crate::util::{encode_trace, hex, make_io, EnvSpec, InResp, Rng};
use crate::Out;

pub const WIDTHS: [u32; 4] = [8, 16, 32, 64];

macro_rules! with_width {
    ($w:expr, $f:ident, $($arg:expr),*) => {
        match $w {
            8 => $f::<u8>($($arg),*),
            16 => $f::<u16>($($arg),*),
            32 => $f::<u32>($($arg),*),
            64 => $f::<u64>($($arg),*),
            _ => unreachable!(),
        }
    };
}

// ------------------------------------------------------------------------------------ executors

pub enum Mode {
    Unlimited,
    Limited(usize),
}

pub struct ExecOut {
    pub tag: String,
    pub trace: String,
    pub window: String,
    pub budget: usize,
    pub layout: (usize, usize),
}

pub fn run_exec<C: CellType>(exec: &dyn Executable<C>, env: &EnvSpec, mode: &Mode) -> ExecOut {
    let (i, o, log) = make_io(env, false);
    let mut cxt = Context::<C>::new(i, o);
    let ret = match mode {
        Mode::Unlimited => exec.execute(&mut cxt).map(|_| true),
        Mode::Limited(b) => {
            cxt.budget = *b;
            exec.execute_limited(&mut cxt)
        }
    };
    let tag = match ret {
        Ok(true) => "ok".to_string(),
        Ok(false) => "interrupted".to_string(),
        Err(e) => match e.kind {
            ErrorKind::LoopNotOpened => format!("notopened@{}", e.position),
            ErrorKind::LoopNotClosed => format!("notclosed@{}", e.position),
            _ => "error".to_string(),
        },
    };
    let window = (-4..=4)
        .map(|off| cxt.memory.read(off).into_u64().to_string())
        .collect::<Vec<_>>()
        .join(",");
    let budget = cxt.budget;
    let layout = cxt.memory.verif_layout();
    drop(cxt);
    ExecOut {
        tag,
        trace: encode_trace(&log),
        window,
        budget,
        layout,
    }
}

fn random_env(r: &mut Rng) -> EnvSpec {
    let mut input: Vec<InResp> = gen::input_bytes(r).into_iter().map(InResp::Byte).collect();
    if r.chance(1, 6) && !input.is_empty() {
        let i = r.below(input.len() as u64) as usize;
        input[i] = if r.chance(1, 2) { InResp::Err } else { InResp::Eof };
    }
    EnvSpec {
        input: if r.chance(1, 12) { None } else { Some(input) },
        sink: !r.chance(1, 20),
        out_ok: if r.chance(1, 6) { Some(r.below(6) as usize) } else { None },
    }
}

fn random_program(r: &mut Rng, out: &mut Out) -> String {
    if r.chance(1, 14) {
        out.stat("gen_wide");
        return wide_program(r);
    }
    if r.chance(1, 10) {
        out.stat("gen_feeding");
        return gen::feeding(r);
    }
    if r.chance(1, 12) {
        out.stat("gen_io_nest");
        return gen::io_nest(r);
    }
    if r.chance(1, 12) {
        out.stat("gen_triangular");
        return gen::triangular(r);
    }
    if r.chance(1, 12) {
        out.stat("gen_scan_shift");
        return gen::scan_shift(r);
    }
    if r.chance(1, 12) {
        out.stat("gen_preloop_reuse");
        return gen::preloop_reuse(r);
    }
    match r.below(10) {
        0..=3 => {
            out.stat("gen_token");
            gen::token(r)
        }
        4..=7 => {
            out.stat("gen_structured");
            gen::structured(r)
        }
        _ => {
            out.stat("gen_roaming");
            gen::roaming(r)
        }
    }
}

// --------------------------------------------------------------------------------------- inplace

fn inplace_case<C: CellType>(w: u32, code: &str, env: &EnvSpec, budget: usize, out: &mut Out) {
    let exec = InplaceInterpreter::<C>::create(code, 0).unwrap();
    out.mark(&format!("inplace w={w} limited budget={budget} code={code:?} env={}", env.encode()));
    let lim = run_exec::<C>(&exec, env, &Mode::Limited(budget));
    let fuel = (budget + 2) * (code.len() + 2) + 10;
    out.case(
        &format!("inplace {w} 1 {budget} {fuel} {} {}", env.encode(), hex(code.as_bytes())),
        &format!("{} {} {} b{}", lim.tag, lim.trace, lim.window, lim.budget),
    );
    out.stat(&format!("limited_{}", lim.tag.split('@').next().unwrap()));
    if lim.tag != "interrupted" {
        out.mark(&format!("inplace w={w} unlimited code={code:?} env={}", env.encode()));
        let un = run_exec::<C>(&exec, env, &Mode::Unlimited);
        out.case(
            &format!("inplace {w} 0 0 {fuel} {} {}", env.encode(), hex(code.as_bytes())),
            &format!("{} {} {} b{}", un.tag, un.trace, un.window, un.budget),
        );
        out.stat("unlimited");
    }
}

pub fn inplace(r: &mut Rng, count: usize, out: &mut Out) {
    for i in 0..count {
        let code = match i % 5 {
            4 => {
                out.stat("gen_arbitrary_text");
                gen::arbitrary_text(r)
            }
            _ => random_program(r, out),
        };
        let code = if r.chance(1, 5) { gen::with_comments(r, &code) } else { code };
        let env = random_env(r);
        let budget = *r.pick(&[0usize, 1, 2, 5, 50, 2000, 2000, 2000]);
        let w = *r.pick(&WIDTHS);
        with_width!(w, inplace_case, w, &code, &env, budget, out);
    }
}

// --------------------------------------------------------------------------------------- irparse

pub fn encode_expr<C: CellType>(e: &ir::Expr<C>) -> String {
    let parts = e.verif_parts();
    if parts.is_empty() {
        return "0".to_string();
    }
    parts
        .iter()
        .map(|(c, vs)| {
            let mut s = c.into_u64().to_string();
            for v in vs {
                s.push_str(&format!("*{v}"));
            }
            s
        })
        .collect::<Vec<_>>()
        .join("+")
}

pub fn encode_insts<C: CellType>(insts: &[ir::Instr<C>]) -> String {
    insts
        .iter()
        .map(|i| match i {
            ir::Instr::Output { src } => format!("O{src}"),
            ir::Instr::Input { dst } => format!("I{dst}"),
            ir::Instr::Calc { calcs } => format!(
                "C({})",
                calcs
                    .iter()
                    .map(|(v, e)| format!("{v}={}", encode_expr(e)))
                    .collect::<Vec<_>>()
                    .join(";")
            ),
            ir::Instr::Loop { cond, block, once } => format!(
                "L{cond},{},{}{{{}}}",
                block.shift,
                if *once { 1 } else { 0 },
                encode_insts(&block.insts)
            ),
            ir::Instr::If { cond, block } => {
                format!("F{cond},{}{{{}}}", block.shift, encode_insts(&block.insts))
            }
        })
        .collect::<Vec<_>>()
        .join(" ")
}

pub fn encode_block<C: CellType>(b: &ir::Block<C>) -> String {
    format!("B{}{{{}}}", b.shift, encode_insts(&b.insts))
}

fn irparse_case<C: CellType>(w: u32, code: &str, out: &mut Out) {
    let imp = match ir::Program::<C>::parse(code) {
        Ok(p) => {
            out.stat("parse_ok");
            encode_block(&p)
        }
        Err(e) => match e.kind {
            ErrorKind::LoopNotOpened => {
                out.stat("parse_notopened");
                format!("notopened@{}", e.position)
            }
            ErrorKind::LoopNotClosed => {
                out.stat("parse_notclosed");
                format!("notclosed@{}", e.position)
            }
            _ => "error".to_string(),
        },
    };
    out.case(&format!("irparse {w} {}", hex(code.as_bytes())), &imp);
}

pub fn irparse(r: &mut Rng, count: usize, out: &mut Out) {
    for i in 0..count {
        let code = match i % 3 {
            0 => gen::arbitrary_text(r),
            _ => random_program(r, out),
        };
        let code = if r.chance(1, 4) { gen::with_comments(r, &code) } else { code };
        let w = *r.pick(&WIDTHS);
        with_width!(w, irparse_case, w, &code, out);
    }
}

// ----------------------------------------------------------------------------------------- irrun

fn irrun_case<C: CellType>(w: u32, code: &str, env: &EnvSpec, budget: usize, out: &mut Out) {
    let exec = match IrInterpreter::<C>::create(code, 0) {
        Ok(e) => e,
        Err(_) => return,
    };
    out.mark(&format!("irrun w={w} budget={budget} code={code:?} env={}", env.encode()));
    let lim = run_exec::<C>(&exec, env, &Mode::Limited(budget));
    let fuel = (budget + 2) * (code.len() + 2) * 2 + 10;
    out.case(
        &format!("irrun {w} 1 {budget} {fuel} {} {}", env.encode(), hex(code.as_bytes())),
        &format!("{} {} {} b{}", lim.tag, lim.trace, lim.window, lim.budget),
    );
    out.stat(&format!("limited_{}", lim.tag));
    if lim.tag != "interrupted" {
        let un = run_exec::<C>(&exec, env, &Mode::Unlimited);
        out.case(
            &format!("irrun {w} 0 0 {fuel} {} {}", env.encode(), hex(code.as_bytes())),
            &format!("{} {} {} b{}", un.tag, un.trace, un.window, un.budget),
        );
        out.stat("unlimited");
    }
}

pub fn irrun(r: &mut Rng, count: usize, out: &mut Out) {
    for _ in 0..count {
        let code = random_program(r, out);
        let env = random_env(r);
        let budget = *r.pick(&[0usize, 1, 2, 5, 50, 2000, 2000, 2000]);
        let w = *r.pick(&WIDTHS);
        with_width!(w, irrun_case, w, &code, &env, budget, out);
    }
}

// ------------------------------------------------------------------------------------------- e2e

pub const LEVELS: [u32; 6] = [0, 1, 2, 3, 4, 7];

fn e2e_case<C: CellType>(w: u32, code: &str, env: &EnvSpec, out: &mut Out) {
    // Gate: the in-place interpreter (tied to its model separately) must finish within the budget,
    // otherwise the case is skipped (counted).
    let gate_budget = if out.fixed_fuel.is_some() { 300000usize } else { 3000usize };
    let inplace = InplaceInterpreter::<C>::create(code, 0).unwrap();
    let mut genv = env.clone();
    // bound the output of the gate run
    if genv.out_ok.is_none() {
        genv.out_ok = Some(4000);
    }
    let env = &genv;
    let g = run_exec::<C>(&inplace, env, &Mode::Limited(gate_budget));
    if g.tag != "ok" {
        out.stat("skipped_long");
        return;
    }
    let fuel = match &out.fixed_fuel {
        Some(f) => f.clone(),
        None => ((gate_budget + 2) * (code.len() + 2) + 10).to_string(),
    };
    let mut results: Vec<(String, String)> = Vec::new();
    results.push(("inplace".to_string(), format!("ok {}", g.trace)));
    for &lvl in &LEVELS {
        macro_rules! backend {
            ($name:expr, $ty:ident) => {{
                out.mark(&format!("e2e {} O{lvl} w={w} code={code:?} env={}", $name, env.encode()));
                match $ty::<C>::create(code, lvl) {
                    Ok(exec) => {
                        let un = run_exec::<C>(&exec, env, &Mode::Unlimited);
                        results.push((format!("{}/O{lvl}/unlimited", $name), format!("{} {}", un.tag, un.trace)));
                        let lim = run_exec::<C>(&exec, env, &Mode::Limited(1usize << 40));
                        // With a budget of 2^40 a terminating program is never interrupted by the
                        // budget; the JIT reports an I/O stop as `false` (interpreters: `true`).
                        let tag = if $name == "basejit" && lim.tag == "interrupted" { "ok".to_string() } else { lim.tag.clone() };
                        results.push((format!("{}/O{lvl}/limited", $name), format!("{} {}", tag, lim.trace)));
                    }
                    Err(_) => results.push((format!("{}/O{lvl}", $name), "create-error".to_string())),
                }
            }};
        }
        backend!("irint", IrInterpreter);
        backend!("bcint", BcInterpreter);
        backend!("basejit", BaseJitCompiler);
    }
    let first = results[0].1.clone();
    let imp = if results.iter().all(|(_, r)| *r == first) {
        first
    } else {
        let dis: Vec<String> = results
            .iter()
            .filter(|(_, r)| *r != first)
            .map(|(n, r)| format!("{n}=[{r}]"))
            .collect();
        format!("{first} DISAGREE {}", dis.join(" "))
    };
    out.case(
        &format!("bftrace {w} {fuel} {} {}", env.encode(), hex(code.as_bytes())),
        &imp,
    );
    out.stat("compared");
    if g.trace != "-" {
        out.stat("with_io");
    }
}

pub fn e2e(r: &mut Rng, count: usize, out: &mut Out) {
    for _ in 0..count {
        let code = random_program(r, out);
        let mut env = random_env(r);
        if env.input.is_none() && r.chance(1, 2) {
            env.input = Some(vec![]);
        }
        let w = *r.pick(&WIDTHS);
        with_width!(w, e2e_case, w, &code, &env, out);
    }
}

// ---------------------------------------------------------------------------------------- replay

/// Re-run request lines (from the corpus or a replay file) through the real code.
pub fn replay(lines: &[String], out: &mut Out) {
    for line in lines {
        let t: Vec<&str> = line.split_whitespace().collect();
        if t.is_empty() {
            continue;
        }
        let before = out.cases;
        match t[0] {
            "bftrace" if t.len() == 6 => {
                let w: u32 = t[1].parse().unwrap();
                let env = EnvSpec::decode(t[3], t[4]).unwrap();
                let code = String::from_utf8(crate::util::unhex(t[5]).unwrap()).unwrap();
                out.fixed_fuel = Some(t[2].to_string());
                with_width!(w, e2e_case, w, &code, &env, out);
                out.fixed_fuel = None;
            }
            "inplace" if t.len() == 8 => {
                let w: u32 = t[1].parse().unwrap();
                let env = EnvSpec::decode(t[5], t[6]).unwrap();
                let code = String::from_utf8_lossy(&crate::util::unhex(t[7]).unwrap()).to_string();
                let budget: usize = t[3].parse().unwrap();
                with_width!(w, inplace_case, w, &code, &env, budget, out);
            }
            "irparse" if t.len() == 3 => {
                let w: u32 = t[1].parse().unwrap();
                let code = String::from_utf8(crate::util::unhex(t[2]).unwrap()).unwrap();
                with_width!(w, irparse_case, w, &code, out);
            }
            "irrun" if t.len() == 8 => {
                let w: u32 = t[1].parse().unwrap();
                let env = EnvSpec::decode(t[5], t[6]).unwrap();
                let code = String::from_utf8(crate::util::unhex(t[7]).unwrap()).unwrap();
                let budget: usize = t[3].parse().unwrap();
                with_width!(w, irrun_case, w, &code, &env, budget, out);
            }
            "bcrun" => out.case(line, &exec_bcrun(&t)),
            "jitrun" | "jitsem" | "x86prog" => out.case(line, &exec_jitrun(&t)),
            "optrun" if t.len() >= 4 => {
                let (orders, imp) = exec_optrun(&t);
                out.case(&format!("optrun {} {} {} {}", t[1], t[2], t[3], orders), &imp)
            }
            "limchk" => {
                out.mark(line);
                let r = exec_limchk(&t);
                out.case(line, &r)
            }
            "jitgen" => out.case(line, &exec_jitgen(&t)),
            "divchk" => {
                out.mark(line);
                let r = exec_divchk(&t);
                out.case(line, &r)
            }
            "cell" => out.case(line, &crate::dsuites::exec_cell(&t)),
            "mem" => out.case(line, &crate::dsuites::exec_mem(&t)),
            "sv" => out.case(line, &crate::dsuites::exec_sv(&t)),
            "expr" => out.case(line, &crate::dsuites::exec_expr(&t)),
            _ => {
                out.case(line, "unsupported-replay");
            }
        }
        if out.cases == before {
            // the case was skipped by its gate (e.g. does not terminate within the gate budget)
            out.case(line, "skipped");
        }
    }
}

// ----------------------------------------------------------------------------------------- bcrun

pub fn encode_loc<C: CellType>(l: &hpbf::bc::Loc<C>) -> String {
    use hpbf::bc::Loc;
    match l {
        Loc::Mem(o) => format!("m{o}"),
        Loc::MemZero(o) => format!("z{o}"),
        Loc::Tmp(i) => format!("t{i}"),
        Loc::Imm(c) => format!("i{}", c.into_u64()),
    }
}

pub fn encode_bc<C: CellType>(p: &hpbf::bc::Program<C>) -> String {
    use hpbf::bc::Instr;
    let mut toks = vec![format!("P:{}:{}:{}", p.temps, p.min_accessed, p.max_accessed)];
    for (i, ins) in p.insts.iter().enumerate() {
        let s = match ins {
            Instr::Noop => "noop".to_string(),
            Instr::Scan(c, s) => format!("scan:{c}:{s}"),
            Instr::Mov(s) => format!("mov:{s}"),
            Instr::Inp(d) => format!("inp:{d}"),
            Instr::Out(s) => format!("out:{s}"),
            Instr::BrZ(c, o) => format!("brz:{c}:{o}"),
            Instr::BrNZ(c, o) => format!("brnz:{c}:{o}"),
            Instr::Add(d, a, b) => format!("add:{}:{}:{}", encode_loc(d), encode_loc(a), encode_loc(b)),
            Instr::Sub(d, a, b) => format!("sub:{}:{}:{}", encode_loc(d), encode_loc(a), encode_loc(b)),
            Instr::Mul(d, a, b) => format!("mul:{}:{}:{}", encode_loc(d), encode_loc(a), encode_loc(b)),
            Instr::Copy(d, s) => format!("copy:{}:{}", encode_loc(d), encode_loc(s)),
        };
        toks.push(format!("{s}@{}", p.live.get(i).copied().unwrap_or(0)));
    }
    toks.join(" ")
}

pub fn decode_bc<C: CellType>(toks: &[&str]) -> Option<hpbf::bc::Program<C>> {
    use hpbf::bc::{Instr, Loc, Program};
    let h: Vec<&str> = toks.first()?.split(':').collect();
    if h.len() != 4 || h[0] != "P" {
        return None;
    }
    let loc = |s: &str| -> Option<Loc<C>> {
        let (k, b) = s.split_at(1);
        Some(match k {
            "m" => Loc::Mem(b.parse().ok()?),
            "z" => Loc::MemZero(b.parse().ok()?),
            "t" => Loc::Tmp(b.parse().ok()?),
            "i" => Loc::Imm(C::from_u64(b.parse().ok()?)),
            _ => return None,
        })
    };
    let mut insts = Vec::new();
    let mut live = Vec::new();
    for t in &toks[1..] {
        let (ins, lv) = t.split_once('@')?;
        live.push(lv.parse().ok()?);
        let p: Vec<&str> = ins.split(':').collect();
        insts.push(match (p[0], p.len()) {
            ("noop", 1) => Instr::Noop,
            ("scan", 3) => Instr::Scan(p[1].parse().ok()?, p[2].parse().ok()?),
            ("mov", 2) => Instr::Mov(p[1].parse().ok()?),
            ("inp", 2) => Instr::Inp(p[1].parse().ok()?),
            ("out", 2) => Instr::Out(p[1].parse().ok()?),
            ("brz", 3) => Instr::BrZ(p[1].parse().ok()?, p[2].parse().ok()?),
            ("brnz", 3) => Instr::BrNZ(p[1].parse().ok()?, p[2].parse().ok()?),
            ("add", 4) => Instr::Add(loc(p[1])?, loc(p[2])?, loc(p[3])?),
            ("sub", 4) => Instr::Sub(loc(p[1])?, loc(p[2])?, loc(p[3])?),
            ("mul", 4) => Instr::Mul(loc(p[1])?, loc(p[2])?, loc(p[3])?),
            ("copy", 3) => Instr::Copy(loc(p[1])?, loc(p[2])?),
            _ => return None,
        });
    }
    Some(Program {
        temps: h[1].parse().ok()?,
        min_accessed: h[2].parse().ok()?,
        max_accessed: h[3].parse().ok()?,
        live,
        insts,
    })
}

/// `bcrun <w> <lim> <budget> <fuel> <in> <out> <win> <bytecode...>`: run the given bytecode on the
/// threaded interpreter. The bytecode must come from `translate` (the interpreter trusts it).
fn bcrun_exec<C: CellType>(t: &[&str]) -> String {
    let lim = t[2] == "1";
    let budget: usize = t[3].parse().unwrap();
    let env = EnvSpec::decode(t[5], t[6]).unwrap();
    let win = t[7] == "1";
    let prog = match decode_bc::<C>(&t[8..]) {
        Some(p) => p,
        None => return "bad-request".to_string(),
    };
    let exec = BcInterpreter::<C>::verif_from_bc(prog);
    let r = run_exec::<C>(&exec, &env, &if lim { Mode::Limited(budget) } else { Mode::Unlimited });
    let lay = if win { format!(" @{}/{}", r.layout.0, r.layout.1 as isize) } else { String::new() };
    format!("{} {} {} b{}{}", r.tag, r.trace, if win { r.window } else { "-".to_string() }, r.budget, lay)
}

pub fn exec_bcrun(t: &[&str]) -> String {
    if t.len() < 9 {
        return "bad-request".to_string();
    }
    match t[1] {
        "8" => bcrun_exec::<u8>(t),
        "16" => bcrun_exec::<u16>(t),
        "32" => bcrun_exec::<u32>(t),
        "64" => bcrun_exec::<u64>(t),
        _ => "bad-request".to_string(),
    }
}

fn bcrun_case<C: CellType>(w: u32, code: &str, env: &EnvSpec, out: &mut Out) {
    // gate on the in-place interpreter so that unlimited runs terminate
    let inplace = InplaceInterpreter::<C>::create(code, 0).unwrap();
    let mut genv = env.clone();
    if genv.out_ok.is_none() {
        genv.out_ok = Some(3000);
    }
    let g = run_exec::<C>(&inplace, &genv, &Mode::Limited(2000));
    let terminates = g.tag == "ok";
    let win = if cfg!(debug_assertions) { 1 } else { 0 };
    for &lvl in &[0u32, 1, 2, 3] {
        let ir = match ir::Program::<C>::parse(code) {
            Ok(p) => p.optimize(lvl),
            Err(_) => return,
        };
        for &(nregs, fuse) in &[(2usize, true), (11usize, false)] {
            let bc = hpbf::bc::CodeGen::translate(&ir, nregs, fuse);
            let text = encode_bc(&bc);
            let ninst = bc.insts.len();
            for &budget in &[0usize, 1, 3, 40, 3000] {
                let fuel = (budget + 2) * (ninst + 2) * 4 + 100000;
                let req = format!("bcrun {w} 1 {budget} {fuel} {} {win} {text}", genv.encode());
                out.mark(&req);
                let t: Vec<&str> = req.split_whitespace().collect();
                let imp = exec_bcrun(&t);
                out.case(&req, &imp);
                out.stat("limited");
            }
            if terminates {
                let req = format!("bcrun {w} 0 0 3000000 {} {win} {text}", genv.encode());
                out.mark(&req);
                let t: Vec<&str> = req.split_whitespace().collect();
                let imp = exec_bcrun(&t);
                out.case(&req, &imp);
                out.stat("unlimited");
            }
        }
    }
}

pub fn bcrun(r: &mut Rng, count: usize, out: &mut Out) {
    for _ in 0..count {
        let code = random_program(r, out);
        let env = random_env(r);
        let w = *r.pick(&WIDTHS);
        with_width!(w, bcrun_case, w, &code, &env, out);
    }
}

// ---------------------------------------------------------------------------------------- irecho

fn irecho_case<C: CellType>(w: u32, code: &str, out: &mut Out) {
    for &lvl in &[0u32, 1, 2, 3] {
        if let Ok(p) = ir::Program::<C>::parse(code) {
            let text = encode_block(&p.optimize(lvl));
            out.case(&format!("irecho {w} {text}"), &text);
        }
    }
}

pub fn irecho(r: &mut Rng, count: usize, out: &mut Out) {
    for _ in 0..count {
        let code = random_program(r, out);
        let w = *r.pick(&WIDTHS);
        with_width!(w, irecho_case, w, &code, out);
    }
}

// -------------------------------------------------------------------------------------- levelcap

fn levelcap_case<C: CellType>(w: u32, code: &str, out: &mut Out) {
    if let Ok(p) = ir::Program::<C>::parse(code) {
        let l3 = encode_block(&p.optimize(3));
        let mut verdict = "same".to_string();
        for lvl in [4u32, 5, 7, 100, u32::MAX] {
            if encode_block(&p.optimize(lvl)) != l3 {
                verdict = format!("level-{lvl}-differs-from-3 w={w} code={}", hex(code.as_bytes()));
            }
        }
        out.case("const same", &verdict);
    }
}

/// Levels above 3 behave like level 3: the optimised IR is identical.
pub fn levelcap(r: &mut Rng, count: usize, out: &mut Out) {
    for _ in 0..count {
        let code = random_program(r, out);
        let w = *r.pick(&WIDTHS);
        with_width!(w, levelcap_case, w, &code, out);
    }
}

// ----------------------------------------------------------------------------------------- bcgen

fn bcgen_case<C: CellType>(w: u32, code: &str, out: &mut Out) {
    for &lvl in &[0u32, 1, 2, 3] {
        let ir = match ir::Program::<C>::parse(code) {
            Ok(p) => p.optimize(lvl),
            Err(_) => return,
        };
        let text = encode_block(&ir);
        for &(nregs, fuse) in &[(2usize, true), (11usize, false), (12usize, false), (3usize, true)] {
            let bc = hpbf::bc::CodeGen::translate(&ir, nregs, fuse);
            out.case(
                &format!("bcgen {w} {nregs} {} {text}", if fuse { 1 } else { 0 }),
                &encode_bc(&bc),
            );
            out.stat(&format!("regs{nregs}_fuse{fuse}"));
        }
    }
}

/// Exact tie of `bc::CodeGen::translate` against the Lean `BcGen.translate`.
pub fn bcgen(r: &mut Rng, count: usize, out: &mut Out) {
    for _ in 0..count {
        let code = random_program(r, out);
        let w = *r.pick(&WIDTHS);
        with_width!(w, bcgen_case, w, &code, out);
    }
}

// ------------------------------------------------------------------------------------------ bcwf

fn bcwf_case<C: CellType>(w: u32, code: &str, out: &mut Out) {
    for &lvl in &[0u32, 1, 2, 3] {
        let ir = match ir::Program::<C>::parse(code) {
            Ok(p) => p.optimize(lvl),
            Err(_) => return,
        };
        for &(nregs, fuse) in &[(2usize, true), (11usize, false)] {
            let bc = hpbf::bc::CodeGen::translate(&ir, nregs, fuse);
            out.case(
                &format!("bcwf {w} {nregs} {lvl} {} {}", hex(code.as_bytes()), encode_bc(&bc)),
                "ok",
            );
            if bc.temps > nregs {
                out.stat("with_stack_temps");
            }
            out.stat(&format!("regs{nregs}"));
        }
    }
}

const BCWF_FIXED: &[&str] = &[
    ",->,[-.<[->>+>+<<<]>>>[-<<<+>>>]<<>.<]",
    ",+>,->,[-<<[->>>+>+<<<<]>>>>[-<<<<+>>>>]<<<[->>+>+<<<]>>>[-<<<+>>>]<.<]>.",
];

/// The bytecode handed to the unsafe back ends must pass the (verified) contract checker.
pub fn bcwf(r: &mut Rng, count: usize, out: &mut Out) {
    // fixed programs first: values created before a top-level loop and reused inside it in a different order
    for code in BCWF_FIXED {
        for &w in &[8u32, 32] {
            out.stat("fixed");
            with_width!(w, bcwf_case, w, code, out);
        }
    }
    for i in 0..count {
        let code = if i % 5 == 4 {
            out.stat("gen_preloop_reuse");
            gen::preloop_reuse(r)
        } else {
            random_program(r, out)
        };
        let w = *r.pick(&WIDTHS);
        with_width!(w, bcwf_case, w, &code, out);
    }
}

// ---------------------------------------------------------------------------------------- divgen

/// Phase 1 of the divergence check: candidate programs, to be certified by the Lean model.
pub fn divgen(r: &mut Rng, count: usize, out: &mut Out) {
    for i in 0..count {
        let code = if i % 4 == 3 { gen::scan_shift(r) } else { gen::maybe_divergent(r) };
        let mut env = random_env(r);
        if env.input.is_none() {
            env.input = Some(vec![]);
        }
        let w = *r.pick(&WIDTHS);
        out.case(&format!("bfcert {w} 60000 {} {}", env.encode(), hex(code.as_bytes())), "-");
    }
}

fn trace_prefix(a: &str, b: &str) -> bool {
    // is event list `a` a prefix of `b` (both in the comma-joined encoding, "-" = empty)
    if a == "-" {
        return true;
    }
    if b == "-" {
        return false;
    }
    let av: Vec<&str> = a.split(',').collect();
    let bv: Vec<&str> = b.split(',').collect();
    av.len() <= bv.len() && av[..] == bv[..av.len()]
}

/// `divchk <w> <in> <out> <hex> <halts|diverges> <trace-at-verdict> <long-prefix> <budget>`:
/// every back end at every level must finish with exactly the canonical events (halts), or never
/// report finished and emit only canonical prefixes that reach the certified prefix (diverges).
fn divchk_exec<C: CellType>(t: &[&str]) -> String {
    let env = match EnvSpec::decode(t[2], t[3]) { Some(e) => e, None => return "bad-request".into() };
    let code = match crate::util::unhex(t[4]).and_then(|b| String::from_utf8(b).ok()) { Some(c) => c, None => return "bad-request".into() };
    let halts = t[5] == "halts";
    let at_verdict = t[6];
    let long = t[7];
    let budget: usize = t[8].parse().unwrap_or(100000);
    let mut fails: Vec<String> = Vec::new();
    for &lvl in &LEVELS {
        macro_rules! backend {
            ($name:expr, $ty:ident) => {{
                match $ty::<C>::create(&code, lvl) {
                    Ok(exec) => {
                        if halts {
                            let r = run_exec::<C>(&exec, &env, &Mode::Limited(1usize << 40));
                            let tag = if $name == "basejit" && r.tag == "interrupted" { "ok".to_string() } else { r.tag.clone() };
                            if tag != "ok" || r.trace != at_verdict {
                                fails.push(format!("{}/O{lvl}:halting-program-gives-{}:{}", $name, r.tag, r.trace));
                            }
                            let u = run_exec::<C>(&exec, &env, &Mode::Unlimited);
                            if u.tag != "ok" || u.trace != at_verdict {
                                fails.push(format!("{}/O{lvl}/unlimited:halting-program-gives-{}:{}", $name, u.tag, u.trace));
                            }
                        } else {
                            for b in [1usize, 50, budget] {
                                let r = run_exec::<C>(&exec, &env, &Mode::Limited(b));
                                if r.tag != "interrupted" {
                                    fails.push(format!("{}/O{lvl}/b{b}:divergent-program-reports-{}", $name, r.tag));
                                }
                                if !(trace_prefix(&r.trace, long) || trace_prefix(long, &r.trace)) {
                                    fails.push(format!("{}/O{lvl}/b{b}:events-not-canonical-prefix:{}", $name, r.trace));
                                }
                                if b == budget && !trace_prefix(at_verdict, &r.trace) {
                                    fails.push(format!("{}/O{lvl}/b{b}:output-before-divergence-lost:{}", $name, r.trace));
                                }
                            }
                        }
                    }
                    Err(_) => fails.push(format!("{}/O{lvl}:create-error", $name)),
                }
            }};
        }
        backend!("inplace", InplaceInterpreter);
        backend!("irint", IrInterpreter);
        backend!("bcint", BcInterpreter);
        backend!("basejit", BaseJitCompiler);
    }
    if fails.is_empty() {
        "ok".to_string()
    } else {
        let shown: Vec<String> = fails.iter().take(4).map(|s| s.chars().take(160).collect()).collect();
        format!("FAIL {} {}", fails.len(), shown.join(" "))
    }
}

pub fn exec_divchk(t: &[&str]) -> String {
    if t.len() != 9 {
        return "bad-request".to_string();
    }
    match t[1] {
        "8" => divchk_exec::<u8>(t),
        "16" => divchk_exec::<u16>(t),
        "32" => divchk_exec::<u32>(t),
        "64" => divchk_exec::<u64>(t),
        _ => "bad-request".to_string(),
    }
}

// ------------------------------------------------------------------------------------------ roam

/// e2e comparison restricted to programs that roam far in both directions (for the guard-page runs).
pub fn roam(r: &mut Rng, count: usize, out: &mut Out) {
    for i in 0..count {
        let mut code = gen::roaming(r);
        if i % 3 == 0 {
            // far walks: thousands of cells to the left or right, then come back part of the way
            let n = 1000 + r.below(9000) as usize;
            let back = r.below(n as u64) as usize;
            let (a, b) = if r.chance(1, 2) { ('<', '>') } else { ('>', '<') };
            let mut s = String::from("+");
            for _ in 0..n {
                s.push(a);
            }
            s.push_str("++.");
            for _ in 0..back {
                s.push(b);
            }
            s.push_str("+.[-]");
            code = s + &code;
        }
        out.stat("gen_roaming");
        let mut env = random_env(r);
        if env.input.is_none() {
            env.input = Some(vec![]);
        }
        let w = *r.pick(&WIDTHS);
        with_width!(w, e2e_case, w, &code, &env, out);
    }
}

// ---------------------------------------------------------------------------------------- unsafe

/// Pointer excursion [lo, hi] of the canonical run (reference interpreter used only to size the
/// pre-allocated region; `None` if the program does not finish within the step bound).
fn excursion(code: &[u8], input: &[u8], bits: u32, max_steps: usize) -> Option<(i64, i64)> {
    let mask: u64 = if bits == 64 { u64::MAX } else { (1u64 << bits) - 1 };
    let mut tape: std::collections::HashMap<i64, u64> = Default::default();
    let (mut p, mut lo, mut hi) = (0i64, 0i64, 0i64);
    let mut jmp = vec![0usize; code.len()];
    let mut st = vec![];
    for (i, &c) in code.iter().enumerate() {
        if c == b'[' {
            st.push(i)
        } else if c == b']' {
            let j = st.pop()?;
            jmp[i] = j;
            jmp[j] = i;
        }
    }
    let (mut pc, mut ip, mut steps) = (0usize, 0usize, 0usize);
    while pc < code.len() {
        steps += 1;
        if steps > max_steps {
            return None;
        }
        match code[pc] {
            b'+' => { let v = tape.entry(p).or_insert(0); *v = v.wrapping_add(1) & mask; }
            b'-' => { let v = tape.entry(p).or_insert(0); *v = v.wrapping_sub(1) & mask; }
            b'>' => { p += 1; hi = hi.max(p); }
            b'<' => { p -= 1; lo = lo.min(p); }
            b',' => { let b = if ip < input.len() { ip += 1; input[ip - 1] } else { 0 }; tape.insert(p, b as u64); }
            b'[' => { if *tape.get(&p).unwrap_or(&0) == 0 { pc = jmp[pc]; } }
            b']' => { if *tape.get(&p).unwrap_or(&0) != 0 { pc = jmp[pc]; } }
            _ => {}
        }
        pc += 1;
    }
    Some((lo, hi))
}

fn unsafe_case<C: CellType>(w: u32, code: &str, input: &[u8], out: &mut Out) {
    let (lo, hi) = match excursion(code.as_bytes(), input, w, 400_000) {
        Some(x) => x,
        None => {
            out.stat("skipped_long");
            return;
        }
    };
    let env = EnvSpec::plain(input);
    let margin = code.len() as isize + 1;
    let mut results: Vec<(String, String)> = Vec::new();
    for &lvl in &[0u32, 1, 2, 3] {
        macro_rules! backend {
            ($name:expr, $ty:ident) => {{
                let exec = $ty::<C>::create(code, lvl).unwrap();
                let (i, o, log) = make_io(&env, false);
                let mut cxt = Context::<C>::new(i, o);
                // the pre-allocated region: pointer excursion plus the program's length on each side
                cxt.memory.make_accessible(lo as isize - margin, hi as isize + margin + 1);
                out.mark(&format!("unsafe {} O{lvl} w={w} region=[{},{}] code={code:?}", $name, lo as isize - margin, hi as isize + margin));
                let before = cxt.memory.verif_layout().0;
                let _ = unsafe { exec.execute_unsafe(&mut cxt) };
                let grew = cxt.memory.verif_layout().0 != before;
                drop(cxt);
                results.push((format!("{}/O{lvl}", $name), format!("ok {}{}", encode_trace(&log), if grew { " GREW" } else { "" })));
            }};
        }
        backend!("bcint", BcInterpreter);
        backend!("basejit", BaseJitCompiler);
    }
    let first = results[0].1.clone();
    let imp = if results.iter().all(|(_, r)| *r == first) {
        first
    } else {
        let dis: Vec<String> = results.iter().filter(|(_, r)| *r != first).map(|(n, r)| format!("{n}=[{r}]")).collect();
        format!("{first} DISAGREE {}", dis.join(" "))
    };
    out.case(&format!("bftrace {w} 3000000 {} {}", env.encode(), hex(code.as_bytes())), &imp);
    out.stat("compared");
}

/// Unchecked execution (`execute_unsafe`) inside a pre-allocated region = canonical events. Meant to be
/// run under the guard-page allocator (`guard` binary) so that any access outside the region faults.
pub fn unsafe_mode(r: &mut Rng, count: usize, out: &mut Out) {
    for i in 0..count {
        let code = if i % 3 == 0 { gen::roaming(r) } else { random_program(r, out) };
        let input = gen::input_bytes(r);
        let w = *r.pick(&WIDTHS);
        with_width!(w, unsafe_case, w, &code, &input, out);
    }
}

// ------------------------------------------------------------------------------------------- c13

fn fnv(data: &[u8]) -> u64 {
    let mut h: u64 = 0xcbf29ce484222325;
    for &b in data {
        h ^= b as u64;
        h = h.wrapping_mul(0x100000001b3);
    }
    h
}

/// Machine code with the absolute addresses of the runtime shims masked (`mov rax, imm64; call rax`):
/// they depend on where the process is loaded, not on the program.
fn mask_mc(mut mc: Vec<u8>) -> Vec<u8> {
    let mut i = 0;
    while i + 12 <= mc.len() {
        if mc[i] == 0x48 && mc[i + 1] == 0xb8 && mc[i + 10] == 0xff && mc[i + 11] == 0xd0 {
            for b in &mut mc[i + 2..i + 10] {
                *b = 0;
            }
            i += 12;
        } else {
            i += 1;
        }
    }
    mc
}

fn c13_case<C: CellType>(w: u32, code: &str, env: &EnvSpec, run_it: bool, out: &mut Out) {
    let mut problems: Vec<String> = Vec::new();
    let mut hashes: Vec<String> = Vec::new();
    for &lvl in &[0u32, 1, 2, 3] {
        let code_owned = code.to_string();
        let res = std::panic::catch_unwind(move || {
            let code = code_owned.as_str();
            let mut v: Vec<String> = Vec::new();
            for round in 0..2 {
                let ir = ir::Program::<C>::parse(code).unwrap().optimize(lvl);
                let bc = hpbf::bc::CodeGen::translate(&ir, 2, true);
                let bcj = hpbf::bc::CodeGen::translate(&ir, 11, false);
                let jit = BaseJitCompiler::<C>::create(code, lvl).unwrap();
                let _ = BcInterpreter::<C>::create(code, lvl).unwrap();
                let _ = IrInterpreter::<C>::create(code, lvl).unwrap();
                let _ = InplaceInterpreter::<C>::create(code, lvl).unwrap();
                let mc = mask_mc(jit.print_mc(false, true));
                let mcl = mask_mc(jit.print_mc(true, true));
                let mcu = mask_mc(jit.print_mc(false, false));
                v.push(format!(
                    "{:016x}.{:016x}.{:016x}.{:016x}.{:016x}.{:016x}",
                    fnv(format!("{ir:?}").as_bytes()),
                    fnv(format!("{bc:?}").as_bytes()),
                    fnv(format!("{bcj:?}").as_bytes()),
                    fnv(&mc),
                    fnv(&mcl),
                    fnv(&mcu)
                ));
                let _ = round;
            }
            // the (cheap) bytecode generator a few more times: hash-order dependence shows per compilation
            for _ in 0..4 {
                let ir = ir::Program::<C>::parse(code).unwrap().optimize(lvl);
                let bc = hpbf::bc::CodeGen::translate(&ir, 2, true);
                let bc3 = hpbf::bc::CodeGen::translate(&ir, 3, true);
                v.push(format!("{:016x}.{:016x}", fnv(format!("{bc:?}").as_bytes()), fnv(format!("{bc3:?}").as_bytes())));
            }
            v
        });
        match res {
            Ok(v) => {
                if v[0] != v[1] {
                    problems.push(format!("O{lvl}:second-compilation-differs"));
                }
                if v[2..].iter().any(|x| *x != v[2]) || !v[0].contains(v[2].split('.').next().unwrap()) {
                    problems.push(format!("O{lvl}:bytecode-differs-between-compilations"));
                }
                hashes.push(v[0].clone());
            }
            Err(_) => problems.push(format!("O{lvl}:PANIC-while-compiling")),
        }
        if run_it && problems.is_empty() {
            macro_rules! reuse {
                ($name:expr, $ty:ident) => {{
                    let exec = $ty::<C>::create(code, lvl).unwrap();
                    let a = run_exec::<C>(&exec, env, &Mode::Limited(5000));
                    let b = run_exec::<C>(&exec, env, &Mode::Limited(5000));
                    let c = run_exec::<C>(&exec, env, &Mode::Limited(5000));
                    if (a.tag.clone(), a.trace.clone()) != (b.tag.clone(), b.trace.clone()) || (a.tag, a.trace) != (c.tag, c.trace) {
                        problems.push(format!("{}/O{lvl}:repeated-execution-differs", $name));
                    }
                }};
            }
            reuse!("irint", IrInterpreter);
            reuse!("bcint", BcInterpreter);
            reuse!("basejit", BaseJitCompiler);
        }
    }
    let imp = if problems.is_empty() {
        "ok".to_string()
    } else {
        format!("FAIL w={w} code={} {}", hex(code.as_bytes()), problems.join(" "))
    };
    out.case("const ok", &imp);
    // second channel: the hashes, compared across two processes by the check
    out.side.push(format!("{w} {} {}", hex(code.as_bytes()), hashes.join(" ")));
}

const C13_FIXED: &[&str] = &[
    ",>,>,><<<>>[->>++++<++<<<+>>]<<>[-<+>]<[->>+++>++<<++>+<<].>.>.>.>.>.>",
    ",>,>,>,><<<<>>>[-<<<++>>>>>+++<<<<++>>]<<<>[->>>>>+<<<<+++<]<.>.>.>.>.>.>.>",
    ",>,>,>,>,>,><<<<<<>[->>>>+++<++<<<]<>>>[->+++<]<<<[->>>>+>+++<<<<<].>.>.>.>.>.>.>.>.>",
];

/// Compilation is total (no panic), deterministic within the process, and executors are reusable.
pub fn c13(r: &mut Rng, count: usize, out: &mut Out) {
    let prev = std::panic::take_hook();
    std::panic::set_hook(Box::new(|_| {}));
    // fixed programs first: several spilled temporaries die at one instruction (spill-slot reuse)
    for code in C13_FIXED {
        for &w in &[8u32, 32] {
            let env = random_env(r);
            out.stat("fixed");
            with_width!(w, c13_case, w, code, &env, true, out);
        }
    }
    for i in 0..count {
        let (code, run_it) = match i % 6 {
            5 => {
                out.stat("gen_deep");
                (gen::deep(r), true)
            }
            4 => {
                out.stat("gen_divergent");
                (gen::maybe_divergent(r), true)
            }
            3 => {
                out.stat("gen_feeding");
                (gen::feeding(r), true)
            }
            _ => (random_program(r, out), true),
        };
        let env = random_env(r);
        let w = *r.pick(&WIDTHS);
        out.mark(&format!("c13 w={w} code={code:?}"));
        with_width!(w, c13_case, w, &code, &env, run_it, out);
    }
    std::panic::set_hook(prev);
}

// ---------------------------------------------------------------------------------------- jitgen

/// `jitgen <w> <limited 0/1> <safe 0/1> <bytecode...>`: machine code of the baseline JIT for the given
/// bytecode (addresses of the runtime shims masked), or `panic` if the selector has no arm for a form.
fn jitgen_exec<C: CellType>(t: &[&str]) -> String {
    let prog = match decode_bc::<C>(&t[4..]) {
        Some(p) => p,
        None => return "bad-request".to_string(),
    };
    let lim = t[2] == "1";
    let safe = t[3] == "1";
    let res = std::panic::catch_unwind(std::panic::AssertUnwindSafe(move || {
        let jit = BaseJitCompiler::<C>::verif_from_bc(prog);
        mask_mc(jit.print_mc(lim, safe))
    }));
    match res {
        Ok(mc) => hex(&mc),
        Err(_) => "panic".to_string(),
    }
}

pub fn exec_jitgen(t: &[&str]) -> String {
    if t.len() < 5 {
        return "bad-request".to_string();
    }
    match t[1] {
        "8" => jitgen_exec::<u8>(t),
        "16" => jitgen_exec::<u16>(t),
        "32" => jitgen_exec::<u32>(t),
        "64" => jitgen_exec::<u64>(t),
        _ => "bad-request".to_string(),
    }
}

/// All operand-kind combinations the instruction selector distinguishes, as one-instruction programs.
fn jit_forms(w: u32, out: &mut Out) {
    let big: u64 = if w == 64 { 0x1_2345_6789 } else { (1u64 << (w - 1)) + 3 };
    let neg_small: u64 = if w == 64 { u64::MAX - 4 } else { (1u64 << w) - 5 };
    let dsts = ["m0", "m3", "m-2", "t0", "t4", "t10", "t11", "t13"];
    let srcs = ["m0", "m3", "m-2", "m7", "t0", "t4", "t5", "t10", "t11", "t12", "t13", "i0", "i1", "i7"];
    let mut srcs: Vec<String> = srcs.iter().map(|s| s.to_string()).collect();
    srcs.push(format!("i{big}"));
    srcs.push(format!("i{neg_small}"));
    let lives = [0u32, 0x7ff, 0x011, 0x410, 0x001];
    let emit = |out: &mut Out, body: String, live: u32| {
        for &(lim, safe) in &[(0, 1)] {
            let req = format!("jitgen {w} {lim} {safe} P:16:-4:8 {body}@{live}");
            let t: Vec<&str> = req.split_whitespace().collect();
            let imp = exec_jitgen(&t);
            out.case(&req, &imp);
        }
    };
    for op in ["add", "sub", "mul"] {
        for d in dsts {
            for a in &srcs {
                for b in &srcs {
                    for &live in &lives {
                        emit(out, format!("{op}:{d}:{a}:{b}"), live);
                    }
                }
            }
        }
    }
    for d in dsts {
        for a in &srcs {
            for &live in &lives {
                emit(out, format!("copy:{d}:{a}"), live);
            }
        }
    }
    for body in ["noop", "mov:3", "mov:-2", "mov:0", "mov:100000", "inp:0", "inp:-2", "out:3", "out:0", "brz:0:1", "brnz:2:0", "brz:-1:0"] {
        for &live in &lives {
            for &(lim, safe) in &[(0, 1), (1, 1), (0, 0), (1, 0)] {
                let req = format!("jitgen {w} {lim} {safe} P:16:-4:8 {body}@{live}");
                let t: Vec<&str> = req.split_whitespace().collect();
                let imp = exec_jitgen(&t);
                out.case(&req, &imp);
            }
        }
    }
    out.stat("forms_enumerated");
}

fn jitgen_case<C: CellType>(w: u32, code: &str, out: &mut Out) {
    for &lvl in &[0u32, 1, 2, 3] {
        let ir = match ir::Program::<C>::parse(code) {
            Ok(p) => p.optimize(lvl),
            Err(_) => return,
        };
        let bc = hpbf::bc::CodeGen::translate(&ir, 11, false);
        let text = encode_bc(&bc);
        for &(lim, safe) in &[(0, 1), (1, 1), (0, 0)] {
            let req = format!("jitgen {w} {lim} {safe} {text}");
            let t: Vec<&str> = req.split_whitespace().collect();
            let imp = exec_jitgen(&t);
            out.case(&req, &imp);
        }
    }
}

/// Exact tie of the JIT's code generation: selector forms exhaustively (count = 0 gives only the
/// forms), then the bytecode of generated programs.
pub fn jitgen(r: &mut Rng, count: usize, out: &mut Out) {
    let prev = std::panic::take_hook();
    std::panic::set_hook(Box::new(|_| {}));
    for &w in &WIDTHS {
        jit_forms(w, out);
    }
    for _ in 0..count {
        let code = random_program(r, out);
        let w = *r.pick(&WIDTHS);
        with_width!(w, jitgen_case, w, &code, out);
    }
    std::panic::set_hook(prev);
}

// ---------------------------------------------------------------------------------------- faults

fn faults_case<C: CellType>(w: u32, code: &str, input: &[u8], out: &mut Out) {
    // how many events does the fault-free run have?
    let inplace = InplaceInterpreter::<C>::create(code, 0).unwrap();
    let mut base = EnvSpec::plain(input);
    base.out_ok = Some(200);
    let g = run_exec::<C>(&inplace, &base, &Mode::Limited(3000));
    if g.tag != "ok" {
        out.stat("skipped_long");
        return;
    }
    let events: Vec<&str> = if g.trace == "-" { vec![] } else { g.trace.split(',').collect() };
    let n_out = events.iter().filter(|e| e.starts_with('o')).count();
    let n_in = events.iter().filter(|e| e.starts_with('i')).count();
    // every index of the first refused output byte
    for j in 0..=n_out.min(12) {
        let mut env = EnvSpec::plain(input);
        env.out_ok = Some(j);
        e2e_case::<C>(w, code, &env, out);
        out.stat("refuse_output_at");
    }
    // every index of the first failing input request (error), and end of input there
    for j in 0..n_in.min(8) {
        let mut script: Vec<InResp> = input.iter().map(|&b| InResp::Byte(b)).collect();
        while script.len() <= j {
            script.push(InResp::Eof);
        }
        script[j] = InResp::Err;
        let env = EnvSpec { input: Some(script.clone()), sink: true, out_ok: None };
        e2e_case::<C>(w, code, &env, out);
        out.stat("input_error_at");
        script[j] = InResp::Eof;
        let env = EnvSpec { input: Some(script), sink: true, out_ok: None };
        e2e_case::<C>(w, code, &env, out);
        out.stat("input_eof_at");
    }
    // absent source, absent sink
    e2e_case::<C>(w, code, &EnvSpec { input: None, sink: true, out_ok: None }, out);
    e2e_case::<C>(w, code, &EnvSpec { input: Some(input.iter().map(|&b| InResp::Byte(b)).collect()), sink: false, out_ok: None }, out);
    out.stat("absent_source_or_sink");
}

/// I/O fault enumeration: for each program, every index of the first refused output byte, every index
/// of the first failing input request, early end of input, absent source, absent sink — all back ends,
/// all levels, compared with the canonical run in the same environment.
pub fn faults(r: &mut Rng, count: usize, out: &mut Out) {
    for i in 0..count {
        let code = if i % 4 == 0 {
            out.stat("gen_io_nest");
            gen::io_nest(r)
        } else {
            random_program(r, out)
        };
        let input = gen::input_bytes(r);
        let w = *r.pick(&WIDTHS);
        with_width!(w, faults_case, w, &code, &input, out);
    }
}

// ---------------------------------------------------------------------------------------- limchk

/// `limchk <w> <in> <out> <hex> <ok|fuel> <canonical-trace>`: budget-limited execution on every back end
/// and level, for a ladder of budgets, against the canonical event sequence carried by the request.
fn limchk_exec<C: CellType>(t: &[&str]) -> String {
    let env = match EnvSpec::decode(t[2], t[3]) { Some(e) => e, None => return "bad-request".into() };
    let code = match crate::util::unhex(t[4]).and_then(|b| String::from_utf8(b).ok()) { Some(c) => c, None => return "bad-request".into() };
    // verdict of the canonical semantics: `ok` = halts with exactly `canon`; `div` = certified divergent,
    // `canon` is a long prefix; `fuel` = not known to halt within the model's fuel, `canon` is a prefix
    let halts = t[5] == "ok";
    let diverges = t[5] == "div";
    let canon = t[6];
    let mut fails: Vec<String> = Vec::new();
    let mut finished_at: Vec<String> = Vec::new();
    for &lvl in &LEVELS {
        macro_rules! backend {
            ($name:expr, $ty:ident) => {{
                let exec = $ty::<C>::create(&code, lvl).unwrap();
                let mut prev_len = 0usize;
                let mut first_finished: Option<usize> = None;
                for &b in &[0usize, 1, 2, 3, 5, 10, 30, 100, 1000, 20000, 1usize << 62] {
                    if !halts && b > 20000 {
                        continue; // not known to halt: an unlimited budget may never return
                    }
                    let r = run_exec::<C>(&exec, &env, &Mode::Limited(b));
                    let io_stop = r.trace.rsplit(',').next().map_or(false, |e| e.starts_with('O') || e == "I");
                    let finished = r.tag == "ok" || ($name == "basejit" && r.tag == "interrupted" && io_stop && b > 1000000);
                    if finished {
                        if halts && r.trace != canon {
                            fails.push(format!("{}/O{lvl}/b{b}:finished-but-events-{}", $name, r.trace));
                        }
                        if diverges {
                            fails.push(format!("{}/O{lvl}/b{b}:reports-finished-on-divergent-program", $name));
                        }
                        if !halts && !diverges && !trace_prefix(canon, &r.trace) {
                            fails.push(format!("{}/O{lvl}/b{b}:finished-but-canonical-prefix-missing:{}", $name, r.trace));
                        }
                        if first_finished.is_none() {
                            first_finished = Some(b);
                        }
                    } else {
                        if !(trace_prefix(&r.trace, canon) || (!halts && trace_prefix(canon, &r.trace))) {
                            fails.push(format!("{}/O{lvl}/b{b}:interrupted-events-not-a-prefix:{}", $name, r.trace));
                        }
                        if first_finished.is_some() && $name != "basejit" {
                            fails.push(format!("{}/O{lvl}/b{b}:interrupted-although-a-smaller-budget-finished", $name));
                        }
                        if halts && b == 1usize << 62 && !($name == "basejit" && io_stop) {
                            fails.push(format!("{}/O{lvl}:not-finished-with-unlimited-budget", $name));
                        }
                    }
                    let len = if r.trace == "-" { 0 } else { r.trace.split(',').count() };
                    if len < prev_len {
                        fails.push(format!("{}/O{lvl}/b{b}:fewer-events-with-larger-budget", $name));
                    }
                    prev_len = len;
                }
                finished_at.push(format!("{}", first_finished.map_or("never".to_string(), |b| b.to_string())));
            }};
        }
        backend!("inplace", InplaceInterpreter);
        backend!("irint", IrInterpreter);
        backend!("bcint", BcInterpreter);
        backend!("basejit", BaseJitCompiler);
    }
    if fails.is_empty() {
        "ok".to_string()
    } else {
        let shown: Vec<String> = fails.iter().take(4).map(|s| s.chars().take(160).collect()).collect();
        format!("FAIL {} {}", fails.len(), shown.join(" "))
    }
}

pub fn exec_limchk(t: &[&str]) -> String {
    if t.len() != 7 {
        return "bad-request".to_string();
    }
    match t[1] {
        "8" => limchk_exec::<u8>(t),
        "16" => limchk_exec::<u16>(t),
        "32" => limchk_exec::<u32>(t),
        "64" => limchk_exec::<u64>(t),
        _ => "bad-request".to_string(),
    }
}

// -------------------------------------------------------------------------------------- f6search

/// Does the bytecode contain one of the instruction forms whose JIT arm is wrong (F6)?
pub fn latent_forms<C: CellType>(bc: &hpbf::bc::Program<C>) -> Vec<String> {
    use hpbf::bc::{Instr, Loc};
    let mut hits = Vec::new();
    for ins in &bc.insts {
        match ins {
            Instr::Add(Loc::Tmp(t0), Loc::Tmp(t1), Loc::Imm(imm)) if t0 != t1 => {
                let fits = i32::try_from(imm.into_i64()).is_ok();
                if fits && *t0 >= 11 {
                    hits.push(format!("add-stackdst-tmp-imm:{:?}", ins));
                }
                if !fits {
                    hits.push(format!("add-tmp-tmp-bigimm:{:?}", ins));
                }
            }
            Instr::Mul(Loc::Tmp(t), Loc::Mem(_), Loc::Mem(_)) if *t >= 11 => {
                hits.push(format!("mul-stackdst-mem-mem:{:?}", ins));
            }
            Instr::Mul(Loc::Tmp(t0), Loc::Tmp(t1), Loc::Tmp(_)) if t0 == t1 && *t0 >= 11 => {
                hits.push(format!("mul-stackdst-self:{:?}", ins));
            }
            _ => {}
        }
    }
    hits
}

/// Wide programs: a loop whose body rotates n cells through scaled moves with additive constants,
/// so that the optimiser forms one large simultaneous assignment (many values live at once).
pub fn wide_program(r: &mut Rng) -> String {
    let n = 8 + r.below(10) as usize;
    let mut s = String::new();
    // initial values
    for i in 0..n {
        for _ in 0..(1 + r.below(3)) {
            s.push('+');
        }
        let _ = i;
        s.push('>');
    }
    // counter in cell n
    for _ in 0..(2 + r.below(3)) {
        s.push('+');
    }
    s.push('[');
    s.push('-');
    // go back to cell 0 (we are at n)
    let mut pos = n as i64;
    let go = |s: &mut String, pos: &mut i64, t: i64| {
        while *pos < t {
            s.push('>');
            *pos += 1;
        }
        while *pos > t {
            s.push('<');
            *pos -= 1;
        }
    };
    let tmp = n as i64 + 1;
    // save cell 0 to tmp
    go(&mut s, &mut pos, 0);
    s.push_str("[-");
    go(&mut s, &mut pos, tmp);
    s.push('+');
    go(&mut s, &mut pos, 0);
    s.push(']');
    for i in 0..(n as i64 - 1) {
        // cell i := k * cell (i+1) (+ optional second source) + c
        let k = 1 + r.below(3);
        go(&mut s, &mut pos, i + 1);
        s.push_str("[-");
        go(&mut s, &mut pos, i);
        for _ in 0..k {
            s.push('+');
        }
        if r.chance(1, 3) && i > 0 {
            go(&mut s, &mut pos, i - 1);
            s.push('+');
        }
        go(&mut s, &mut pos, i + 1);
        s.push(']');
        let c = r.below(4);
        go(&mut s, &mut pos, i);
        for _ in 0..c {
            s.push(if r.chance(1, 2) { '+' } else { '-' });
        }
        if r.chance(1, 4) {
            // product of two cells: cell i += cell j * cell j2 (via nested loop with restore)
            // kept simple: square-ish accumulate: [->+>+<<] patterns are left to the optimiser
        }
    }
    go(&mut s, &mut pos, tmp);
    s.push_str("[-");
    go(&mut s, &mut pos, n as i64 - 1);
    s.push('+');
    go(&mut s, &mut pos, tmp);
    s.push(']');
    go(&mut s, &mut pos, n as i64);
    s.push(']');
    for i in 0..n as i64 {
        go(&mut s, &mut pos, i);
        s.push('.');
    }
    s
}

fn f6_case<C: CellType>(w: u32, code: &str, out: &mut Out) {
    for &lvl in &[1u32, 2, 3] {
        if let Ok(p) = ir::Program::<C>::parse(code) {
            let bc = hpbf::bc::CodeGen::translate(&p.optimize(lvl), 11, false);
            if bc.temps > 11 {
                out.stat("with_stack_temps");
            }
            let hits = latent_forms(&bc);
            if !hits.is_empty() {
                out.case("const none", &format!("HIT w={w} O{lvl} code={} {}", hex(code.as_bytes()), hits.join(" ")));
                out.stat("latent_form_reached");
                return;
            }
        }
    }
    out.case("const none", "none");
}

/// Search for a source program whose JIT bytecode contains a form with a wrong selector arm.
pub fn f6search(r: &mut Rng, count: usize, out: &mut Out) {
    for i in 0..count {
        let code = if i % 4 == 3 { random_program(r, out) } else { wide_program(r) };
        let w = *r.pick(&WIDTHS);
        with_width!(w, f6_case, w, &code, out);
    }
}

// ---------------------------------------------------------------------------------------- jitrun

/// `jitrun <w> <lim> <budget> <fuel> <in> <out> <win> <bytecode...>`: execute the given bytecode with
/// the baseline JIT (on this CPU). Same reply format as `bcrun` (no layout).
fn jitrun_exec<C: CellType>(t: &[&str]) -> String {
    let lim = t[2] == "1";
    let budget: usize = t[3].parse().unwrap();
    let env = EnvSpec::decode(t[5], t[6]).unwrap();
    let prog = match decode_bc::<C>(&t[8..]) {
        Some(p) => p,
        None => return "bad-request".to_string(),
    };
    let win = t[7] == "1";
    let exec = BaseJitCompiler::<C>::verif_from_bc(prog);
    let r = run_exec::<C>(&exec, &env, &if lim { Mode::Limited(budget) } else { Mode::Unlimited });
    // the JIT keeps the tape pointer in a register; `Memory::offset` is only current when no `mov` ran
    format!("{} {} {} b{}", r.tag, r.trace, if win { r.window } else { "-".to_string() }, r.budget)
}

pub fn exec_jitrun(t: &[&str]) -> String {
    if t.len() < 9 {
        return "bad-request".to_string();
    }
    match t[1] {
        "8" => jitrun_exec::<u8>(t),
        "16" => jitrun_exec::<u16>(t),
        "32" => jitrun_exec::<u32>(t),
        "64" => jitrun_exec::<u64>(t),
        _ => "bad-request".to_string(),
    }
}

/// One-instruction experiments for every operand-kind combination in the generator's normal form:
/// operands are initialised with distinct values, the instruction runs, and the destination (and, when
/// the sources are declared live, the sources) are stored into the tape window that the reply shows.
fn jitrun_forms(w: u32, out: &mut Out) {
    let mask: u64 = if w == 64 { u64::MAX } else { (1u64 << w) - 1 };
    let big: u64 = if w == 64 { 0x1_2345_6789 } else { ((1u64 << (w - 1)) + 3) & mask };
    let negs: u64 = mask - 4;
    let vals: [u64; 6] = [3, 5 & mask, 0x7f & mask, (0x1234_5678_9abc_def1u64) & mask, mask, 2];
    let dsts = ["m0", "m1", "t0", "t4", "t10", "t11", "t13"];
    let srcs_a = ["m0", "m1", "m2", "t0", "t4", "t5", "t10", "t11", "t12", "t13"];
    let mut srcs_b: Vec<String> = srcs_a.iter().map(|s| s.to_string()).collect();
    for i in [0u64, 1, 7, big, negs, mask] {
        srcs_b.push(format!("i{i}"));
    }
    let mut n = 0usize;
    for op in ["add", "sub", "mul", "copy"] {
        for d in dsts {
            for a in srcs_a.iter().map(|s| s.to_string()).chain(if op == "copy" { srcs_b.clone() } else { vec![] }) {
                let bs: Vec<String> = if op == "copy" { vec![String::new()] } else { srcs_b.clone() };
                for b in &bs {
                    for &live_all in &[true, false] {
                        // operands used
                        let mut used: Vec<String> = vec![d.to_string(), a.clone()];
                        if !b.is_empty() {
                            used.push(b.clone());
                        }
                        let mut setup: Vec<String> = Vec::new();
                        let mut seen: Vec<String> = Vec::new();
                        let mut maxt = 0usize;
                        for (k, u) in used.iter().enumerate() {
                            if u.starts_with('i') || seen.contains(u) {
                                continue;
                            }
                            seen.push(u.clone());
                            if let Some(ti) = u.strip_prefix('t') {
                                maxt = maxt.max(ti.parse::<usize>().unwrap() + 1);
                            }
                            setup.push(format!("copy:{u}:i{}@2047", vals[(k + n) % vals.len()]));
                        }
                        n += 1;
                        let instr = if op == "copy" { format!("copy:{d}:{a}") } else { format!("{op}:{d}:{a}:{b}") };
                        // live across the instruction: everything (sources preserved) or nothing but what is used later
                        let live = if live_all { 2047 } else { 0 };
                        let mut post: Vec<String> = Vec::new();
                        // observe the destination in cell 3, and the sources in cells -1, -2 when they must be preserved
                        post.push(format!("copy:m3:{d}@2047"));
                        if live_all {
                            let mut slot = -1;
                            for u in [a.clone(), b.clone()] {
                                if !u.is_empty() && !u.starts_with('i') && u != d {
                                    post.push(format!("copy:m{slot}:{u}@2047"));
                                    slot -= 1;
                                }
                            }
                        }
                        let temps = maxt.max(1);
                        let body = format!("{} {instr}@{live} {}", setup.join(" "), post.join(" "));
                        let req = format!("jitrun {w} 0 0 100000 in=- out=none 1 P:{temps}:-4:4 {body}");
                        let t: Vec<&str> = req.split_whitespace().collect();
                        // only forms the selector implements (others panic at compile time; they are covered by `jitgen`)
                        let compiles = {
                            let tt: Vec<String> = t.iter().map(|s| s.to_string()).collect();
                            let tt2: Vec<&str> = std::iter::once("jitgen").chain(std::iter::once(tt[1].as_str())).chain(["0", "1"]).chain(tt[8..].iter().map(|s| s.as_str())).collect();
                            exec_jitgen(&tt2) != "panic"
                        };
                        if !compiles {
                            continue;
                        }
                        out.mark(&req);
                        let imp = exec_jitrun(&t);
                        out.case(&req, &imp);
                        // the same CPU result, to be reproduced by the x86 semantics model (`jitsem`)
                        out.case(&req.replacen("jitrun", "jitsem", 1), &imp);
                    }
                }
            }
        }
    }
    out.stat("forms_executed");
}

fn jitrun_case<C: CellType>(w: u32, code: &str, env: &EnvSpec, out: &mut Out) {
    let inplace = InplaceInterpreter::<C>::create(code, 0).unwrap();
    let mut genv = env.clone();
    if genv.out_ok.is_none() {
        genv.out_ok = Some(3000);
    }
    if genv.input.is_none() {
        genv.input = Some(vec![]);
    }
    let g = run_exec::<C>(&inplace, &genv, &Mode::Limited(2000));
    if g.tag != "ok" {
        return;
    }
    for &lvl in &[0u32, 1, 2, 3] {
        let ir = ir::Program::<C>::parse(code).unwrap().optimize(lvl);
        let bc = hpbf::bc::CodeGen::translate(&ir, 11, false);
        let req = format!("jitrun {w} 0 0 3000000 {} 0 {}", genv.encode(), encode_bc(&bc));
        out.mark(&req);
        let t: Vec<&str> = req.split_whitespace().collect();
        let imp = exec_jitrun(&t);
        out.case(&req, &imp);
        if bc.temps > 11 {
            out.stat("with_stack_temps");
        }
    }
}

/// The JIT executing bytecode on this CPU vs. the bytecode semantics: every normal-form operand
/// combination as a one-instruction experiment, then the bytecode of generated programs (wide ones too).
pub fn jitrun(r: &mut Rng, count: usize, out: &mut Out) {
    let prev = std::panic::take_hook();
    std::panic::set_hook(Box::new(|_| {}));
    for &w in &WIDTHS {
        jitrun_forms(w, out);
    }
    std::panic::set_hook(prev);
    for i in 0..count {
        let code = if i % 3 == 0 { wide_program(r) } else { random_program(r, out) };
        let env = random_env(r);
        let w = *r.pick(&WIDTHS);
        with_width!(w, jitrun_case, w, &code, &env, out);
    }
}

// ----------------------------------------------------------------------------------------- irgen

struct IrCfg {
    vlo: i64,
    vhi: i64,
    maxparts: u64,
    maxvars: u64,
    maxcalcs: u64,
    maxlen: u64,
    maxdepth: u32,
    loops: bool,
}

fn gen_ir_expr<C: CellType>(r: &mut Rng, c: &IrCfg) -> ir::Expr<C> {
    let n = r.below(c.maxparts + 1);
    let mut parts: Vec<(C, Vec<isize>)> = Vec::new();
    for _ in 0..n {
        let coef = match r.below(7) {
            0 | 1 => C::ONE,
            2 | 3 => C::NEG_ONE,
            4 => C::from_u64(r.range(2, 5) as u64),
            5 => C::from_u64(1u64 << r.below(C::BITS as u64)),
            _ => {
                let v = C::from_u64(r.next());
                if v == C::ZERO { C::ONE } else { v }
            }
        };
        let nv = r.below(c.maxvars + 1);
        let mut vars = Vec::new();
        for _ in 0..nv {
            // squares and repeated variables on purpose
            if !vars.is_empty() && r.chance(1, 3) {
                let k = vars[r.below(vars.len() as u64) as usize];
                vars.push(k);
            } else {
                vars.push(r.range(c.vlo, c.vhi) as isize);
            }
        }
        vars.sort();
        parts.push((coef, vars));
    }
    parts.sort_by(|a, b| a.1.cmp(&b.1));
    parts.dedup_by(|a, b| a.1 == b.1);
    ir::Expr::verif_from_parts(parts)
}

fn gen_ir_insts<C: CellType>(r: &mut Rng, c: &IrCfg, depth: u32) -> Vec<ir::Instr<C>> {
    use hpbf::verif::SmallVec;
    let n = r.below(c.maxlen + 1);
    let mut res = Vec::new();
    for _ in 0..n {
        let k = r.below(20);
        let v = |r: &mut Rng| r.range(c.vlo, c.vhi) as isize;
        if k < 2 {
            res.push(ir::Instr::Output { src: v(r) });
        } else if k < 4 {
            res.push(ir::Instr::Input { dst: v(r) });
        } else if k < 6 {
            // a plain zero store (feeds the zeroing-move fusion) or constant store
            let mut calcs = SmallVec::new();
            calcs.push((v(r), ir::Expr::val(if r.chance(2, 3) { C::ZERO } else { C::from_u64(r.below(9)) })));
            res.push(ir::Instr::Calc { calcs });
        } else if k < 15 || depth >= c.maxdepth {
            let nc = 1 + r.below(c.maxcalcs);
            let mut calcs = SmallVec::new();
            let mut used: Vec<isize> = Vec::new();
            for _ in 0..nc {
                let d = v(r);
                if used.contains(&d) {
                    continue;
                }
                used.push(d);
                calcs.push((d, gen_ir_expr::<C>(r, c)));
            }
            res.push(ir::Instr::Calc { calcs });
        } else {
            let shift = if r.chance(1, 3) { r.range(-2, 2) as isize } else { 0 };
            let insts = if r.chance(1, 6) { Vec::new() } else { gen_ir_insts::<C>(r, c, depth + 1) };
            let block = ir::Block { shift, insts };
            if c.loops && k < 18 {
                res.push(ir::Instr::Loop { cond: v(r), block, once: false });
            } else {
                res.push(ir::Instr::If { cond: v(r), block });
            }
        }
    }
    res
}

fn irgen_case<C: CellType>(w: u32, r: &mut Rng, out: &mut Out) {
    let mk = |r: &mut Rng, loops: bool| -> IrCfg {
        if r.chance(1, 3) {
            IrCfg { vlo: -(r.below(6) as i64), vhi: 1 + r.below(14) as i64, maxparts: 4 + r.below(10), maxvars: 1 + r.below(3),
                    maxcalcs: 2 + r.below(14), maxlen: 1 + r.below(8), maxdepth: r.below(3) as u32, loops }
        } else {
            IrCfg { vlo: -(r.below(4) as i64), vhi: 1 + r.below(8) as i64, maxparts: 1 + r.below(5), maxvars: r.below(4),
                    maxcalcs: 1 + r.below(4), maxlen: 1 + r.below(14), maxdepth: r.below(4) as u32, loops }
        }
    };
    // (a) generator tie on arbitrary IR, loops included (compile only)
    let c = mk(r, true);
    let prog: ir::Block<C> = ir::Block { shift: 0, insts: gen_ir_insts::<C>(r, &c, 0) };
    let text = encode_block(&prog);
    for &(nregs, fuse) in &[(2usize, true), (11usize, false)] {
        let bc = hpbf::bc::CodeGen::translate(&prog, nregs, fuse);
        out.case(&format!("bcgen {w} {nregs} {} {text}", if fuse { 1 } else { 0 }), &encode_bc(&bc));
    }
    out.stat("bcgen_random_ir");
    // (b) execution of loop-free IR (ifs, shifts, simultaneous assignments, products, zero stores) on the
    // IR interpreter, the bytecode interpreter (2 regs, fusion) and the JIT (11 regs), all cells printed at the end
    let c = mk(r, false);
    let mut insts = gen_ir_insts::<C>(r, &c, 0);
    for v in (c.vlo - 2)..=(c.vhi + 2) {
        insts.push(ir::Instr::Output { src: v as isize });
    }
    let prog: ir::Block<C> = ir::Block { shift: 0, insts };
    let text = encode_block(&prog);
    let input = gen::input_bytes(r);
    let env = EnvSpec::plain(&input);
    let clone_ir = |p: &ir::Block<C>| p.clone();
    let mut results: Vec<(String, String)> = Vec::new();
    {
        let exec = IrInterpreter::<C>::verif_from_ir(clone_ir(&prog));
        let r1 = run_exec::<C>(&exec, &env, &Mode::Unlimited);
        results.push(("irint".into(), format!("{} {}", r1.tag, r1.trace)));
    }
    {
        let bc = hpbf::bc::CodeGen::translate(&prog, 2, true);
        let exec = BcInterpreter::<C>::verif_from_bc(bc);
        let r1 = run_exec::<C>(&exec, &env, &Mode::Unlimited);
        results.push(("bcint".into(), format!("{} {}", r1.tag, r1.trace)));
    }
    {
        let bc = hpbf::bc::CodeGen::translate(&prog, 11, false);
        if bc.temps > 11 {
            out.stat("jit_stack_temps");
        }
        let exec = BaseJitCompiler::<C>::verif_from_bc(bc);
        let r1 = run_exec::<C>(&exec, &env, &Mode::Unlimited);
        results.push(("basejit".into(), format!("{} {}", r1.tag, r1.trace)));
    }
    let first = results[0].1.clone();
    let imp = if results.iter().all(|(_, x)| *x == first) {
        first
    } else {
        let dis: Vec<String> = results.iter().map(|(n, x)| format!("{n}=[{}]", x.chars().take(300).collect::<String>())).collect();
        format!("DISAGREE {}", dis.join(" "))
    };
    out.case(&format!("irexec {w} 2000000 {} {text}", env.encode()), &imp);
    out.stat("irexec");
}

/// Random IR built directly (not through the parser/optimiser): exact generator tie, and execution of
/// loop-free IR on IR interpreter / bytecode interpreter / JIT against the Lean IR semantics.
pub fn irgen(r: &mut Rng, count: usize, out: &mut Out) {
    for _ in 0..count {
        let w = *r.pick(&WIDTHS);
        with_width!(w, irgen_case, w, r, out);
    }
}

// -------------------------------------------------------------------------------------- optarith

fn optarith_case<C: CellType>(code: &str, out: &mut Out) {
    for &lvl in &[1u32, 2, 3] {
        if let Ok(p) = ir::Program::<C>::parse(code) {
            let _ = hpbf::verif::trace_take();
            let _ = p.optimize(lvl);
            for entry in hpbf::verif::trace_take() {
                let t: Vec<&str> = entry.split_whitespace().collect();
                // request = kind, width, arguments; reply = the recorded result fields
                let (nargs, kind) = match t[0] {
                    "trip" => (2, "trip"),
                    "tripinv" => (1, "tripinv"),
                    "powmul" => (2, "powmul"),
                    "geom" => (2, "geom"),
                    "tri" => (4, "tri"),
                    _ => continue,
                };
                // `tri <w> <branch> <expr> <initial> <increment> <before_in> <before_out>`: branch and before_out are results
                let (args, res): (Vec<&str>, Vec<&str>) = if kind == "tri" {
                    (t[3..7].to_vec(), vec![t[2], t[7]])
                } else {
                    (t[2..2 + nargs].to_vec(), t[2 + nargs..].to_vec())
                };
                out.case(&format!("opt {kind} {} {}", t[1], args.join(" ")), &res.join(" "));
                out.stat(kind);
                if kind == "tri" {
                    out.stat(&format!("tri_branch_{}", t[2]));
                }
            }
        }
    }
}

/// Every arithmetic decision the optimiser makes (trip counts, powers, geometric and triangular closed
/// forms) while optimising generated programs, recomputed by the Lean model from the recorded arguments.
pub fn optarith(r: &mut Rng, count: usize, out: &mut Out) {
    for i in 0..count {
        let code = if i % 5 == 4 { gen::triangular(r) } else if i % 2 == 0 { gen::structured(r) } else { random_program(r, out) };
        let w = *r.pick(&WIDTHS);
        match w {
            8 => optarith_case::<u8>(&code, out),
            16 => optarith_case::<u16>(&code, out),
            32 => optarith_case::<u32>(&code, out),
            _ => optarith_case::<u64>(&code, out),
        }
    }
}

// ---------------------------------------------------------------------------------------- optdse

fn encode_anal(a: &hpbf::verif::DseAnal) -> String {
    let b = |x: bool| if x { '1' } else { '0' };
    format!(
        "A{}{}{}({}){{{}}}",
        b(a.at_most_once),
        b(a.at_least_once),
        b(a.has_shift),
        a.reads.iter().map(|v| v.to_string()).collect::<Vec<_>>().join(","),
        a.subs.iter().map(encode_anal).collect::<Vec<_>>().join("")
    )
}

/// A random analysis tree with the shape of the block structure of `insts` (occasionally with a missing
/// node: the pass must panic, and so must the model).
fn gen_anal<C: CellType>(r: &mut Rng, insts: &[ir::Instr<C>], vlo: i64, vhi: i64, break_shape: bool) -> hpbf::verif::DseAnal {
    let mut subs = Vec::new();
    for i in insts {
        match i {
            ir::Instr::Loop { block, .. } | ir::Instr::If { block, .. } => {
                subs.push(gen_anal::<C>(r, &block.insts, vlo, vhi, false));
            }
            _ => {}
        }
    }
    if break_shape && !subs.is_empty() {
        subs.pop();
    }
    let mut reads = Vec::new();
    for _ in 0..r.below(5) {
        reads.push(r.range(vlo - 1, vhi + 1) as isize);
    }
    reads.sort();
    reads.dedup();
    hpbf::verif::DseAnal {
        at_most_once: r.chance(1, 2),
        at_least_once: r.chance(1, 2),
        has_shift: r.chance(1, 4),
        reads,
        subs,
    }
}

fn optdse_reachable<C: CellType>(w: u32, code: &str, env: &EnvSpec, out: &mut Out) {
    if let Ok(p) = ir::Program::<C>::parse(code) {
        for &lvl in &[2u32, 3] {
            for (before, anal, after) in p.verif_dse_steps(lvl) {
                out.case(
                    &format!("optdse {w} {} {}", encode_anal(&anal), encode_block(&before)),
                    &encode_block(&after),
                );
                out.stat("reachable");
                if before != after {
                    out.stat("reachable_changed");
                }
                // the hypotheses of the preservation theorem, tested on the run of `before`
                out.case(
                    &format!("dsefacts {w} 400 {} {} {}", env.encode(), encode_anal(&anal), encode_block(&before)),
                    "facts-ok",
                );
            }
        }
    }
}

fn optdse_random<C: CellType>(w: u32, r: &mut Rng, out: &mut Out) {
    let c = IrCfg {
        vlo: -(r.below(3) as i64),
        vhi: 1 + r.below(5) as i64,
        maxparts: 1 + r.below(3),
        maxvars: r.below(3),
        maxcalcs: 1 + r.below(3),
        maxlen: 1 + r.below(7),
        maxdepth: r.below(4) as u32,
        loops: true,
    };
    let before: ir::Block<C> = ir::Block { shift: 0, insts: gen_ir_insts::<C>(r, &c, 0) };
    let broken = r.chance(1, 25);
    let anal = gen_anal::<C>(r, &before.insts, c.vlo, c.vhi, broken);
    let mut prog = before.clone();
    let a2 = anal.clone();
    let res = std::panic::catch_unwind(std::panic::AssertUnwindSafe(move || {
        prog.verif_dse_with(&a2);
        prog
    }));
    let imp = match res {
        Ok(p) => {
            out.stat(if p != before { "random_changed" } else { "random_same" });
            encode_block(&p)
        }
        Err(_) => {
            out.stat("random_panic");
            "panic".to_string()
        }
    };
    out.case(&format!("optdse {w} {} {}", encode_anal(&anal), encode_block(&before)), &imp);
}

/// The optimiser's IR-level dead store elimination: (a) every (program, analysis) pair it is given
/// while optimising generated programs at levels 2 and 3, (b) random IR with random analyses.
pub fn optdse(r: &mut Rng, count: usize, out: &mut Out) {
    let prev = std::panic::take_hook();
    std::panic::set_hook(Box::new(|_| {}));
    for i in 0..count {
        let w = *r.pick(&WIDTHS);
        if i % 3 == 0 {
            let code = if i % 2 == 0 { gen::structured(r) } else { random_program(r, out) };
            let env = random_env(r);
            with_width!(w, optdse_reachable, w, &code, &env, out);
        } else {
            with_width!(w, optdse_random, w, r, out);
        }
    }
    std::panic::set_hook(prev);
}

// --------------------------------------------------------------------------------------- oncechk

fn count_once<C: CellType>(insts: &[ir::Instr<C>]) -> usize {
    insts
        .iter()
        .map(|i| match i {
            ir::Instr::Loop { block, once, .. } => (*once as usize) + count_once(&block.insts),
            ir::Instr::If { block, .. } => count_once(&block.insts),
            _ => 0,
        })
        .sum()
}

fn oncechk_case<C: CellType>(w: u32, code: &str, env: &EnvSpec, out: &mut Out) {
    if let Ok(p) = ir::Program::<C>::parse(code) {
        for &lvl in &[1u32, 2, 3] {
            let o = p.optimize(lvl);
            let n = count_once(&o.insts);
            if n == 0 {
                out.stat("no_once_loop");
                continue;
            }
            out.stat("has_once_loop");
            out.case(&format!("oncechk {w} 4000 {} {}", env.encode(), encode_block(&o)), "onceok");
        }
    }
}

/// The hypothesis `OnceOk` of the emission theorems (C02) on optimizer output: on the Lean run of the
/// optimized IR, every loop the optimizer marked `once` is entered with a non-zero condition.
pub fn oncechk(r: &mut Rng, count: usize, out: &mut Out) {
    for i in 0..count {
        let code = if i % 2 == 0 { gen::structured(r) } else { random_program(r, out) };
        let env = random_env(r);
        let w = *r.pick(&WIDTHS);
        with_width!(w, oncechk_case, w, &code, &env, out);
    }
}

// --------------------------------------------------------------------------------------- x86prog

fn x86prog_case<C: CellType>(w: u32, code: &str, env: &EnvSpec, r: &mut Rng, out: &mut Out) {
    let inplace = InplaceInterpreter::<C>::create(code, 0).unwrap();
    let mut genv = env.clone();
    if genv.out_ok.is_none() {
        genv.out_ok = Some(3000);
    }
    if genv.input.is_none() {
        genv.input = Some(vec![]);
    }
    let g = run_exec::<C>(&inplace, &genv, &Mode::Limited(600));
    if g.tag != "ok" {
        out.stat("gate_skipped");
        return;
    }
    for &lvl in &[0u32, 1, 2, 3] {
        let ir = ir::Program::<C>::parse(code).unwrap().optimize(lvl);
        let bc = hpbf::bc::CodeGen::translate(&ir, 11, false);
        // unlimited, and limited with a budget that may or may not suffice
        let budgets: [(u32, usize); 3] = [(0, 0), (1, *r.pick(&[1usize, 2, 3, 5, 9, 30])), (1, 100000)];
        for (lim, bud) in budgets {
            let req = format!("x86prog {w} {lim} {bud} 400000 {} 0 {}", genv.encode(), encode_bc(&bc));
            out.mark(&req);
            let t: Vec<&str> = req.split_whitespace().collect();
            let imp = exec_jitrun(&t);
            out.stat(&format!("lim{lim}_{}", imp.split(' ').next().unwrap_or("?")));
            out.case(&req, &imp);
        }
        if bc.temps > 11 {
            out.stat("with_stack_temps");
        }
    }
}

/// The machine code of whole programs on this CPU (events, remaining budget) vs. the program-level x86
/// machine `X86Prog` running `JitGen.compileX86` of the same bytecode: the semantics the whole-program
/// simulation theorem (`C03.prog_run`) is about.
pub fn x86prog(r: &mut Rng, count: usize, out: &mut Out) {
    for i in 0..count {
        let code = if i % 3 == 0 { wide_program(r) } else { random_program(r, out) };
        let env = random_env(r);
        let w = *r.pick(&WIDTHS);
        with_width!(w, x86prog_case, w, &code, &env, r, out);
    }
}

// ---------------------------------------------------------------------------------------- optrun

fn optrun_exec<C: CellType>(t: &[&str]) -> (String, String) {
    let lvl: u32 = t[2].parse().unwrap();
    let code = String::from_utf8(crate::util::unhex(t[3]).unwrap()).unwrap();
    match ir::Program::<C>::parse(&code) {
        Ok(p) => {
            let _ = hpbf::verif::trace_take();
            let res = std::panic::catch_unwind(std::panic::AssertUnwindSafe(move || p.optimize(lvl)));
            // the iteration orders of hash sets that the optimizer used (the model takes them as an oracle)
            let orders: Vec<String> = hpbf::verif::trace_take()
                .into_iter()
                .filter_map(|e| {
                    let t: Vec<&str> = e.split(' ').collect();
                    if t[0] == "order" { Some(format!("{}:{}", t[1], t.get(2).unwrap_or(&""))) } else { None }
                })
                .collect();
            let orders = if orders.is_empty() { "-".to_string() } else { orders.join(";") };
            match res {
                Ok(o) => (orders, encode_block(&o)),
                Err(_) => (orders, "panic".to_string()),
            }
        }
        Err(_) => ("-".to_string(), "parse-error".to_string()),
    }
}

/// `optrun <w> <level> <source hex> [<orders>]`: the IR after `Program::parse(source).optimize(level)`;
/// `<orders>` = `var:n1,n2;var:n1,…` are the hash-set iteration orders the run used, in sequence.
pub fn exec_optrun(t: &[&str]) -> (String, String) {
    match t[1] {
        "8" => optrun_exec::<u8>(t),
        "16" => optrun_exec::<u16>(t),
        "32" => optrun_exec::<u32>(t),
        "64" => optrun_exec::<u64>(t),
        _ => ("-".to_string(), "bad-request".to_string()),
    }
}

/// The optimizer as a function: source -> optimized IR, compared structurally with a Lean port.
pub fn optrun(r: &mut Rng, count: usize, out: &mut Out) {
    let prev = std::panic::take_hook();
    std::panic::set_hook(Box::new(|_| {}));
    for i in 0..count {
        let code = match i % 6 {
            0 => gen::structured(r),
            1 => gen::token(r),
            2 => gen::triangular(r),
            3 => gen::scan_shift(r),
            _ => random_program(r, out),
        };
        let w = *r.pick(&WIDTHS);
        for lvl in [1u32, 2, 3] {
            let req = format!("optrun {w} {lvl} {}", hex(code.as_bytes()));
            out.mark(&req);
            let t: Vec<&str> = req.split_whitespace().collect();
            let (orders, imp) = exec_optrun(&t);
            if orders != "-" {
                out.stat("with_orders");
            }
            out.case(&format!("{req} {orders}"), &imp);
        }
    }
    std::panic::set_hook(prev);
}

// -------------------------------------------------------------------------------------- optcheck

fn optcheck_case<C: CellType>(w: u32, code: &str, env: &EnvSpec, out: &mut Out) {
    // only programs whose canonical run ends quickly: the test replays each round's input with fuel N
    let inplace = InplaceInterpreter::<C>::create(code, 0).unwrap();
    let mut genv = env.clone();
    if genv.input.is_none() {
        genv.input = Some(vec![]);
    }
    let g = run_exec::<C>(&inplace, &genv, &Mode::Limited(300));
    if g.tag != "ok" {
        out.stat("gate_skipped");
        return;
    }
    for lvl in [2u32, 3] {
        let t = ["optrun".to_string(), w.to_string(), lvl.to_string(), hex(code.as_bytes())];
        let tt: Vec<&str> = t.iter().map(|s| s.as_str()).collect();
        let (orders, imp) = exec_optrun(&tt);
        if imp == "panic" || imp == "parse-error" {
            continue;
        }
        out.stat(if orders == "-" { "without_orders" } else { "with_orders" });
        out.case(
            &format!("optcheck {w} {lvl} 20000 {} {} {orders}", genv.encode(), hex(code.as_bytes())),
            "check-ok",
        );
    }
}

/// The hypothesis of the all-level optimizer theorem (`optimize_preserves_of_check'`), tested with the
/// proved-sound boolean `optimizeCheck` on the real iteration orders: the analysis each later round
/// consumes is sound for the program it rebuilds, on the run from the given environment.
pub fn optcheck(r: &mut Rng, count: usize, out: &mut Out) {
    for i in 0..count {
        let code = match i % 3 {
            0 => gen::structured(r),
            _ => random_program(r, out),
        };
        let env = random_env(r);
        let w = *r.pick(&WIDTHS);
        with_width!(w, optcheck_case, w, &code, &env, out);
    }
}
