//! Correspondence harness: calls the real hpbf code in-process and writes, per suite, a request file
//! (`<suite>.req`, fed to the Lean driver) and the implementation's replies (`<suite>.impl`), line
//! by line in the reply format of the driver.
//!
//! usage: corr <suite> <seed> <count> <outdir>

pub mod dsuites;
pub mod gen;
pub mod suites;
pub mod util;

use std::fs::File;
use std::io::{BufWriter, Write};

pub struct Out {
    pub req: BufWriter<File>,
    pub imp: BufWriter<File>,
    pub stats: std::collections::BTreeMap<String, u64>,
    pub progress: std::path::PathBuf,
    pub cases: usize,
    pub fixed_fuel: Option<String>,
    /// Extra per-case lines written to `<suite>.side` (e.g. hashes compared across processes).
    pub side: Vec<String>,
}

impl Out {
    pub fn case(&mut self, req: &str, imp: &str) {
        self.cases += 1;
        writeln!(self.req, "{}", req).unwrap();
        writeln!(self.imp, "{}", imp).unwrap();
    }
    pub fn stat(&mut self, key: &str) {
        *self.stats.entry(key.to_string()).or_insert(0) += 1;
    }
    /// Record the case about to run, so that a hang or crash can be attributed.
    pub fn mark(&mut self, what: &str) {
        let _ = std::fs::write(&self.progress, what);
    }
}

pub fn run_cli(args: Vec<String>) {
    if args.len() != 5 {
        eprintln!("usage: corr <suite> <seed> <count> <outdir>  |  corr replay <name> <reqfile> <outdir>");
        std::process::exit(2);
    }
    let is_replay = args[1] == "replay";
    let suite = if is_replay { &args[2] } else { &args[1] };
    let seed: u64 = if is_replay { 0 } else { args[2].parse().expect("seed") };
    let count: usize = if is_replay { 0 } else { args[3].parse().expect("count") };
    let outdir = std::path::PathBuf::from(&args[4]);
    std::fs::create_dir_all(&outdir).unwrap();
    let mut out = Out {
        req: BufWriter::new(File::create(outdir.join(format!("{suite}.req"))).unwrap()),
        imp: BufWriter::new(File::create(outdir.join(format!("{suite}.impl"))).unwrap()),
        stats: Default::default(),
        progress: outdir.join(format!("{suite}.progress")),
        cases: 0,
        fixed_fuel: None,
        side: Vec::new(),
    };
    let mut rng = util::Rng::new(seed);
    if is_replay {
        let lines: Vec<String> = std::fs::read_to_string(&args[3])
            .expect("reqfile")
            .lines()
            .map(|l| l.to_string())
            .collect();
        suites::replay(&lines, &mut out);
    } else {
    match suite.as_str() {
        "cell" => dsuites::cell(&mut rng, count, &mut out),
        "mem" => dsuites::mem(&mut rng, count, &mut out),
        "inplace" => suites::inplace(&mut rng, count, &mut out),
        "irparse" => suites::irparse(&mut rng, count, &mut out),
        "irrun" => suites::irrun(&mut rng, count, &mut out),
        "e2e" => suites::e2e(&mut rng, count, &mut out),
        "bcrun" => suites::bcrun(&mut rng, count, &mut out),
        "levelcap" => suites::levelcap(&mut rng, count, &mut out),
        "bcgen" => suites::bcgen(&mut rng, count, &mut out),
        "bcwf" => suites::bcwf(&mut rng, count, &mut out),
        "divgen" => suites::divgen(&mut rng, count, &mut out),
        "roam" => suites::roam(&mut rng, count, &mut out),
        "unsafe" => suites::unsafe_mode(&mut rng, count, &mut out),
        "c13" => suites::c13(&mut rng, count, &mut out),
        "jitgen" => suites::jitgen(&mut rng, count, &mut out),
        "faults" => suites::faults(&mut rng, count, &mut out),
        "f6search" => suites::f6search(&mut rng, count, &mut out),
        "jitrun" => suites::jitrun(&mut rng, count, &mut out),
        "irgen" => suites::irgen(&mut rng, count, &mut out),
        "optarith" => suites::optarith(&mut rng, count, &mut out),
        "optdse" => suites::optdse(&mut rng, count, &mut out),
        "oncechk" => suites::oncechk(&mut rng, count, &mut out),
        "x86prog" => suites::x86prog(&mut rng, count, &mut out),
        "optrun" => suites::optrun(&mut rng, count, &mut out),
        "optcheck" => suites::optcheck(&mut rng, count, &mut out),
        "irecho" => suites::irecho(&mut rng, count, &mut out),
        "sv" => dsuites::smallvec(&mut rng, count, &mut out),
        "expr" => dsuites::expr(&mut rng, count, &mut out),
        _ => {
            eprintln!("unknown suite {suite}");
            std::process::exit(2);
        }
    }
    }
    out.req.flush().unwrap();
    out.imp.flush().unwrap();
    if !out.side.is_empty() {
        std::fs::write(outdir.join(format!("{suite}.side")), out.side.join("\n") + "\n").unwrap();
    }
    let stats: Vec<String> = out
        .stats
        .iter()
        .map(|(k, v)| format!("\"{}\": {}", k, v))
        .collect();
    std::fs::write(
        outdir.join(format!("{suite}.stats.json")),
        format!("{{{}}}", stats.join(", ")),
    )
    .unwrap();
    let _ = std::fs::remove_file(&out.progress);
}
