//! PRNG, logging I/O with fault injection, and the text encodings shared with the Lean driver.

use std::cell::RefCell;
use std::io::{Read, Write};
use std::rc::Rc;

/// splitmix64; every random choice of a run derives from one seed.
#[derive(Clone)]
pub struct Rng(pub u64);

impl Rng {
    pub fn new(seed: u64) -> Self {
        Rng(seed.wrapping_mul(0x9E3779B97F4A7C15) ^ 0xD1B54A32D192ED03)
    }
    pub fn next(&mut self) -> u64 {
        self.0 = self.0.wrapping_add(0x9E3779B97F4A7C15);
        let mut z = self.0;
        z = (z ^ (z >> 30)).wrapping_mul(0xBF58476D1CE4E5B9);
        z = (z ^ (z >> 27)).wrapping_mul(0x94D049BB133111EB);
        z ^ (z >> 31)
    }
    pub fn below(&mut self, n: u64) -> u64 {
        if n == 0 {
            0
        } else {
            self.next() % n
        }
    }
    pub fn range(&mut self, lo: i64, hi: i64) -> i64 {
        lo + self.below((hi - lo + 1) as u64) as i64
    }
    pub fn chance(&mut self, num: u64, den: u64) -> bool {
        self.below(den) < num
    }
    pub fn pick<'a, T>(&mut self, xs: &'a [T]) -> &'a T {
        &xs[self.below(xs.len() as u64) as usize]
    }
}

#[derive(Clone, Copy, Debug, PartialEq)]
pub enum InResp {
    Byte(u8),
    Eof,
    Err,
}

/// Environment description, same information as the Lean `Env`.
#[derive(Clone, Debug)]
pub struct EnvSpec {
    pub input: Option<Vec<InResp>>,
    pub sink: bool,
    pub out_ok: Option<usize>,
}

impl EnvSpec {
    pub fn plain(input: &[u8]) -> Self {
        EnvSpec {
            input: Some(input.iter().map(|&b| InResp::Byte(b)).collect()),
            sink: true,
            out_ok: None,
        }
    }
    pub fn encode(&self) -> String {
        let i = match &self.input {
            None => "in=none".to_string(),
            Some(v) if v.is_empty() => "in=-".to_string(),
            Some(v) => format!(
                "in={}",
                v.iter()
                    .map(|r| match r {
                        InResp::Byte(b) => format!("b{:02x}", b),
                        InResp::Eof => "e".to_string(),
                        InResp::Err => "x".to_string(),
                    })
                    .collect::<Vec<_>>()
                    .join(",")
            ),
        };
        let o = if !self.sink {
            "out=absent".to_string()
        } else {
            match self.out_ok {
                None => "out=none".to_string(),
                Some(k) => format!("out={}", k),
            }
        };
        format!("{} {}", i, o)
    }
}

pub type Log = Rc<RefCell<Vec<String>>>;

pub struct LogRead {
    script: Vec<InResp>,
    pos: usize,
    log: Log,
}

impl Read for LogRead {
    fn read(&mut self, buf: &mut [u8]) -> std::io::Result<usize> {
        let r = if self.pos < self.script.len() {
            let r = self.script[self.pos];
            self.pos += 1;
            r
        } else {
            InResp::Eof
        };
        match r {
            InResp::Byte(b) => {
                buf[0] = b;
                self.log.borrow_mut().push(format!("i{:02x}", b));
                Ok(1)
            }
            InResp::Eof => {
                self.log.borrow_mut().push("i00".to_string());
                Ok(0)
            }
            InResp::Err => {
                self.log.borrow_mut().push("I".to_string());
                Err(std::io::Error::new(std::io::ErrorKind::Other, "injected"))
            }
        }
    }
}

pub struct LogWrite {
    ok_left: Option<usize>,
    refusals: usize,
    log: Log,
}

impl Write for LogWrite {
    fn write(&mut self, buf: &[u8]) -> std::io::Result<usize> {
        if let Some(k) = self.ok_left {
            if k == 0 {
                self.log.borrow_mut().push(format!("O{:02x}", buf[0]));
                self.refusals += 1;
                // alternate the two refusal shapes `Context::output` distinguishes
                return if self.refusals % 2 == 1 {
                    Ok(0)
                } else {
                    Err(std::io::Error::new(std::io::ErrorKind::Other, "injected"))
                };
            }
            self.ok_left = Some(k - 1);
        }
        self.log.borrow_mut().push(format!("o{:02x}", buf[0]));
        Ok(1)
    }
    fn flush(&mut self) -> std::io::Result<()> {
        Ok(())
    }
}

/// Build the `Read`/`Write` pair for an environment; both log into the same event list.
pub fn make_io(
    env: &EnvSpec,
    refuse_with_err: bool,
) -> (Option<Box<dyn Read>>, Option<Box<dyn Write>>, Log) {
    let log: Log = Rc::new(RefCell::new(Vec::new()));
    let input: Option<Box<dyn Read>> = env.input.as_ref().map(|s| {
        Box::new(LogRead {
            script: s.clone(),
            pos: 0,
            log: log.clone(),
        }) as Box<dyn Read>
    });
    let output: Option<Box<dyn Write>> = if env.sink {
        Some(Box::new(LogWrite {
            ok_left: env.out_ok,
            refusals: if refuse_with_err { 1 } else { 0 },
            log: log.clone(),
        }))
    } else {
        None
    };
    (input, output, log)
}

pub fn encode_trace(log: &Log) -> String {
    let l = log.borrow();
    if l.is_empty() {
        "-".to_string()
    } else {
        l.join(",")
    }
}

pub fn hex(bytes: &[u8]) -> String {
    if bytes.is_empty() {
        "-".to_string()
    } else {
        bytes.iter().map(|b| format!("{:02x}", b)).collect()
    }
}

pub fn unhex(s: &str) -> Option<Vec<u8>> {
    if s == "-" {
        return Some(vec![]);
    }
    if s.len() % 2 != 0 {
        return None;
    }
    (0..s.len() / 2)
        .map(|i| u8::from_str_radix(&s[2 * i..2 * i + 2], 16).ok())
        .collect()
}

impl EnvSpec {
    /// Inverse of `encode` (two tokens `in=...` and `out=...`).
    pub fn decode(sin: &str, sout: &str) -> Option<EnvSpec> {
        let input = if sin == "in=none" {
            None
        } else if sin == "in=-" {
            Some(vec![])
        } else {
            let mut v = Vec::new();
            for it in sin.strip_prefix("in=")?.split(',') {
                v.push(if it == "e" {
                    InResp::Eof
                } else if it == "x" {
                    InResp::Err
                } else {
                    InResp::Byte(u8::from_str_radix(it.strip_prefix('b')?, 16).ok()?)
                });
            }
            Some(v)
        };
        let (sink, out_ok) = if sout == "out=none" {
            (true, None)
        } else if sout == "out=absent" {
            (false, None)
        } else {
            (true, Some(sout.strip_prefix("out=")?.parse().ok()?))
        };
        Some(EnvSpec { input, sink, out_ok })
    }
}
