//! Data-structure / arithmetic suites: cell arithmetic, tape API histories, SmallVec histories,
//! Expr operation trees. Each suite is a request generator plus an executor that interprets a
//! request line against the real code, so any request (corpus, replay file) can be re-run.
//! The executors also evaluate the property-level oracle where there is one that does not need the
//! Lean model (shadow map for the tape, drop accounting for SmallVec) and append `ORACLE-FAIL:...`.

use hpbf::ir;
use hpbf::runtime::Memory;
use hpbf::CellType;

use crate::suites::{encode_expr, WIDTHS};
use crate::util::Rng;
use crate::Out;

macro_rules! with_width {
    ($w:expr, $f:ident, $($arg:expr),*) => {
        match $w {
            8 => $f::<u8>($($arg),*),
            16 => $f::<u16>($($arg),*),
            32 => $f::<u32>($($arg),*),
            64 => $f::<u64>($($arg),*),
            _ => "bad-width".to_string(),
        }
    };
}

// ------------------------------------------------------------------------------------------ cell

fn cell_one<C: CellType>(op: &str, a: u64, b: u64) -> String {
    let ca = C::from_u64(a);
    let cb = C::from_u64(b);
    let opt = |o: Option<C>| match o {
        Some(v) => v.into_u64().to_string(),
        None => "none".to_string(),
    };
    match op {
        "pow" => ca.wrapping_pow(cb).into_u64().to_string(),
        "inv" => opt(ca.wrapping_inv()),
        "div" => opt(ca.wrapping_div(cb)),
        "tz" => ca.trailing_zeros().to_string(),
        "shr" => ca.wrapping_shr(b as u32).into_u64().to_string(),
        "shl" => ca.wrapping_shl(b as u32).into_u64().to_string(),
        "odd" => ca.is_odd().to_string(),
        "intou64" => ca.into_u64().to_string(),
        "intoi64" => (ca.into_i64() as u64).to_string(),
        "fromu64" => C::from_u64(a).into_u64().to_string(),
        "fromu8" => C::from_u8(a as u8).into_u64().to_string(),
        "intou8" => ca.into_u8().to_string(),
        "fromi16" => C::from_i16(a as u16 as i16).into_u64().to_string(),
        "tryi16" => match ca.try_into_i16() {
            Some(v) => (v as u16).to_string(),
            None => "none".to_string(),
        },
        _ => "bad-op".to_string(),
    }
}

/// `cell <w> <op> <a> [<b>]`
pub fn exec_cell(t: &[&str]) -> String {
    if t.len() < 4 {
        return "bad-request".to_string();
    }
    let w: u32 = t[1].parse().unwrap_or(0);
    let a: u64 = t[3].parse().unwrap_or(0);
    let b: u64 = if t.len() > 4 { t[4].parse().unwrap_or(0) } else { 0 };
    with_width!(w, cell_one, t[2], a, b)
}

pub fn interesting(r: &mut Rng, w: u32) -> u64 {
    let mask = if w == 64 { u64::MAX } else { (1u64 << w) - 1 };
    let v = match r.below(8) {
        0 => r.below(4),
        1 => mask - r.below(4),
        2 => 1u64 << r.below(w as u64),
        3 => (1u64 << r.below(w as u64)).wrapping_sub(1),
        4 => (1u64 << (w - 1)).wrapping_add(r.below(3)).wrapping_sub(1),
        5 => (r.next() | 1) << r.below(w as u64),
        _ => r.next(),
    };
    v & mask
}

fn emit(out: &mut Out, req: String, exec: fn(&[&str]) -> String) {
    let t: Vec<&str> = req.split_whitespace().collect();
    let imp = exec(&t);
    out.case(&req, &imp);
}

pub fn cell(r: &mut Rng, count: usize, out: &mut Out) {
    // exhaustive at 8 bit for div, inv, tz, conversions; pow on a grid of exponents
    for a in 0..256u64 {
        for b in 0..256u64 {
            emit(out, format!("cell 8 div {a} {b}"), exec_cell);
        }
        emit(out, format!("cell 8 inv {a}"), exec_cell);
        emit(out, format!("cell 8 tz {a}"), exec_cell);
        for b in [0u64, 1, 2, 3, 7, 8, 127, 128, 129, 254, 255] {
            emit(out, format!("cell 8 pow {a} {b}"), exec_cell);
        }
        for op in ["intoi64", "intou8", "tryi16", "odd"] {
            emit(out, format!("cell 8 {op} {a}"), exec_cell);
        }
    }
    out.stats.insert("exhaustive8_div_pairs".into(), 256 * 256);
    for _ in 0..count {
        let w = *r.pick(&WIDTHS);
        let a = interesting(r, w);
        let b = interesting(r, w);
        let op2 = *r.pick(&["pow", "div", "div", "div"]);
        emit(out, format!("cell {w} {op2} {a} {b}"), exec_cell);
        out.stat(op2);
        let op1 = *r.pick(&["inv", "tz", "odd", "intou64", "intoi64", "intou8", "tryi16"]);
        emit(out, format!("cell {w} {op1} {a}"), exec_cell);
        out.stat(op1);
        let s = r.below(70);
        let ops = *r.pick(&["shr", "shl"]);
        emit(out, format!("cell {w} {ops} {a} {s}"), exec_cell);
        emit(out, format!("cell {w} fromu64 {}", r.next()), exec_cell);
        emit(out, format!("cell {w} fromi16 {}", r.below(65536)), exec_cell);
        emit(out, format!("cell {w} fromu8 {}", r.below(256)), exec_cell);
    }
}

// ------------------------------------------------------------------------------------------- mem

fn mem_exec<C: CellType>(w: u32, toks: &[&str]) -> String {
    let mut mem = Memory::<C>::new();
    let sz = (w / 8) as i64;
    let _ = sz;
    let mut imp: Vec<String> = Vec::new();
    // oracle: shadow map from absolute logical position to value, and the logical pointer
    let mut shadow: std::collections::HashMap<i64, u64> = Default::default();
    let mut lp: i64 = 0;
    let mut oracle_fail: Option<String> = None;
    for (k, tok) in toks.iter().enumerate() {
        let lay = |m: &Memory<C>| {
            let (s, o) = m.verif_layout();
            format!("@{}/{}", s, o)
        };
        let (kind, body) = tok.split_at(1);
        let two = |b: &str| -> Option<(i64, i64)> {
            let (x, y) = b.split_once(':')?;
            Some((x.parse().ok()?, y.parse().ok()?))
        };
        match kind {
            "m" => {
                let d: i64 = match body.parse() { Ok(d) => d, Err(_) => return "bad-request".into() };
                mem.mov(d as isize);
                lp += d;
                imp.push(format!("m{}", lay(&mem)));
            }
            "r" => {
                let d: i64 = match body.parse() { Ok(d) => d, Err(_) => return "bad-request".into() };
                let before = mem.verif_layout();
                let v = mem.read(d as isize).into_u64();
                if mem.verif_layout() != before && oracle_fail.is_none() {
                    oracle_fail = Some(format!("op{k}:read-allocated"));
                }
                let want = *shadow.get(&(lp + d)).unwrap_or(&0);
                if v != want && oracle_fail.is_none() {
                    oracle_fail = Some(format!("op{k}:read({d})={v},last-written={want}"));
                }
                imp.push(format!("r{}{}", v, lay(&mem)));
            }
            "w" => {
                let (d, v) = match two(body) { Some(x) => x, None => return "bad-request".into() };
                mem.write(d as isize, C::from_u64(v as u64));
                shadow.insert(lp + d, C::from_u64(v as u64).into_u64());
                imp.push(format!("w{}", lay(&mem)));
            }
            "a" => {
                let (s, e) = match two(body) { Some(x) => x, None => return "bad-request".into() };
                mem.make_accessible(s as isize, e as isize);
                let mut i = s;
                while i < e && i < s + 64 {
                    if !mem.check(i as isize) && oracle_fail.is_none() {
                        oracle_fail = Some(format!("op{k}:make_accessible({s},{e})-then-check({i})=false"));
                    }
                    i += 1;
                }
                if e > s && !mem.check((e - 1) as isize) && oracle_fail.is_none() {
                    oracle_fail = Some(format!("op{k}:make_accessible({s},{e})-then-check({})=false", e - 1));
                }
                imp.push(format!("a{}", lay(&mem)));
            }
            "c" => {
                let d: i64 = match body.parse() { Ok(d) => d, Err(_) => return "bad-request".into() };
                let c = mem.check(d as isize);
                imp.push(format!("c{}{}", c, lay(&mem)));
            }
            "s" => {
                let delta: i64 = match body.parse() { Ok(d) => d, Err(_) => return "bad-request".into() };
                let p = (mem.current_ptr() as *mut u8).wrapping_offset(delta as isize) as *mut C;
                let before = mem.verif_layout().1 as i64;
                mem.set_current_ptr(p);
                let after = mem.verif_layout().1 as i64;
                lp += after.wrapping_sub(before);
                imp.push(format!("s{}", lay(&mem)));
            }
            "k" => {
                let delta: i64 = match body.parse() { Ok(d) => d, Err(_) => return "bad-request".into() };
                let p = (mem.current_ptr() as *mut u8).wrapping_offset(delta as isize) as *mut C;
                let c = mem.check_ptr(p);
                imp.push(format!("k{}{}", c, lay(&mem)));
            }
            _ => return "bad-request".into(),
        }
    }
    let mut s = imp.join(" ");
    if let Some(f) = oracle_fail {
        s.push_str(&format!(" ORACLE-FAIL:{f}"));
    }
    s
}

/// `mem <w> <op>...`
pub fn exec_mem(t: &[&str]) -> String {
    if t.len() < 2 {
        return "bad-request".into();
    }
    let w: u32 = t[1].parse().unwrap_or(0);
    with_width!(w, mem_exec, w, &t[2..])
}

pub fn mem(r: &mut Rng, count: usize, out: &mut Out) {
    for _ in 0..count {
        let w = *r.pick(&WIDTHS);
        let sz = (w / 8) as i64;
        let n = 1 + r.below(25);
        let mut req = format!("mem {w}");
        let far = |r: &mut Rng| -> i64 {
            match r.below(6) {
                0 => r.range(-3, 3),
                1 => r.range(-40, 40),
                2 => r.range(-3000, 3000),
                3 => *r.pick(&[0i64, 1, -1]),
                4 => r.range(-100000, 100000),
                _ => r.range(-10, 10),
            }
        };
        let mut grown = false;
        for _ in 0..n {
            match r.below(if grown { 16 } else { 12 }) {
                0 | 1 => {
                    req.push_str(&format!(" m{}", far(r)));
                    out.stat("mov");
                }
                2..=4 => {
                    req.push_str(&format!(" r{}", far(r)));
                    out.stat("read");
                }
                5..=7 => {
                    req.push_str(&format!(" w{}:{}", far(r), 1 + r.below(250)));
                    grown = true;
                    out.stat("write");
                }
                8 | 9 => {
                    let a = far(r);
                    let len = r.range(0, 50);
                    let (s, e) = if r.chance(1, 8) { (a, a - len) } else { (a, a + len) };
                    req.push_str(&format!(" a{s}:{e}"));
                    grown = true;
                    out.stat("make_accessible");
                }
                10 | 11 => {
                    req.push_str(&format!(" c{}", far(r)));
                    out.stat("check");
                }
                12 | 13 => {
                    let cells = far(r);
                    let delta = cells * sz + if r.chance(1, 6) { r.range(0, sz - 1) } else { 0 };
                    req.push_str(&format!(" s{delta}"));
                    out.stat("set_current_ptr");
                }
                _ => {
                    req.push_str(&format!(" k{}", far(r) * sz));
                    out.stat("check_ptr");
                }
            }
        }
        emit(out, req, exec_mem);
    }
}

// -------------------------------------------------------------------------------------- smallvec

mod sv {
    use hpbf::verif::SmallVec;
    use std::cell::RefCell;

    thread_local! {
        static NEXT_ID: RefCell<u64> = RefCell::new(0);
        static DROPS: RefCell<Vec<u64>> = RefCell::new(Vec::new());
    }

    pub struct Tracked {
        pub id: u64,
        pub val: u64,
    }
    impl Tracked {
        pub fn new(val: u64) -> Self {
            let id = NEXT_ID.with(|n| {
                let mut n = n.borrow_mut();
                *n += 1;
                *n
            });
            Tracked { id, val }
        }
    }
    impl Clone for Tracked {
        fn clone(&self) -> Self {
            Tracked::new(self.val)
        }
    }
    impl Drop for Tracked {
        fn drop(&mut self) {
            DROPS.with(|d| d.borrow_mut().push(self.id));
        }
    }
    impl PartialEq for Tracked {
        fn eq(&self, o: &Self) -> bool {
            self.val == o.val
        }
    }
    impl Eq for Tracked {}
    impl PartialOrd for Tracked {
        fn partial_cmp(&self, o: &Self) -> Option<std::cmp::Ordering> {
            Some(self.cmp(o))
        }
    }
    impl Ord for Tracked {
        fn cmp(&self, o: &Self) -> std::cmp::Ordering {
            self.val.cmp(&o.val)
        }
    }

    fn take_drops(all: &mut Vec<u64>) -> String {
        DROPS.with(|d| {
            let mut d = d.borrow_mut();
            all.extend(d.iter().copied());
            let s = if d.is_empty() {
                "-".to_string()
            } else {
                d.iter().map(|x| x.to_string()).collect::<Vec<_>>().join(",")
            };
            d.clear();
            s
        })
    }

    fn view<const N: usize>(v: &SmallVec<Tracked, N>) -> String {
        let s = v.as_slice();
        if s.is_empty() {
            "-".to_string()
        } else {
            s.iter().map(|t| format!("{}:{}", t.id, t.val)).collect::<Vec<_>>().join(",")
        }
    }

    fn nat_list(s: &str) -> Option<Vec<u64>> {
        if s == "-" {
            Some(vec![])
        } else {
            s.split(',').map(|x| x.parse().ok()).collect()
        }
    }

    /// Interpret the operation tokens; a shadow `Vec<(id,val)>` per variable is the `Vec` oracle.
    pub fn exec<const N: usize>(toks: &[&str]) -> String {
        NEXT_ID.with(|n| *n.borrow_mut() = 0);
        DROPS.with(|d| d.borrow_mut().clear());
        let mut all_drops: Vec<u64> = Vec::new();
        let mut vars: Vec<Option<SmallVec<Tracked, N>>> = vec![None, None, None];
        let mut shadow: Vec<Option<Vec<u64>>> = vec![None, None, None]; // values only
        let mut imp: Vec<String> = Vec::new();
        let mut oracle_fail: Option<String> = None;
        for (k, tok) in toks.iter().enumerate() {
            let p: Vec<&str> = tok.split(':').collect();
            let idx = |s: &str| -> Option<usize> { s.parse::<usize>().ok().filter(|&a| a < 3) };
            macro_rules! bad {
                () => {
                    return "bad-request".to_string()
                };
            }
            let mut touched: Option<usize> = None;
            match p[0] {
                "new" if p.len() == 2 => {
                    let a = match idx(p[1]) { Some(a) => a, None => bad!() };
                    vars[a] = Some(SmallVec::new());
                    shadow[a] = Some(vec![]);
                    touched = Some(a);
                }
                "cap" if p.len() == 3 => {
                    let a = match idx(p[1]) { Some(a) => a, None => bad!() };
                    let n: usize = match p[2].parse() { Ok(n) => n, Err(_) => bad!() };
                    vars[a] = Some(SmallVec::with_capacity(n));
                    shadow[a] = Some(vec![]);
                    touched = Some(a);
                }
                "fromvec" if p.len() == 3 => {
                    let a = match idx(p[1]) { Some(a) => a, None => bad!() };
                    let vals = match nat_list(p[2]) { Some(v) => v, None => bad!() };
                    let v: Vec<Tracked> = vals.iter().map(|&x| Tracked::new(x)).collect();
                    vars[a] = Some(SmallVec::from_vec(v));
                    shadow[a] = Some(vals);
                    touched = Some(a);
                }
                "with" if p.len() == 3 => {
                    let a = match idx(p[1]) { Some(a) => a, None => bad!() };
                    let x: u64 = match p[2].parse() { Ok(n) => n, Err(_) => bad!() };
                    vars[a] = Some(SmallVec::with(Tracked::new(x)));
                    shadow[a] = Some(vec![x]);
                    touched = Some(a);
                }
                "push" if p.len() == 3 => {
                    let a = match idx(p[1]) { Some(a) => a, None => bad!() };
                    let x: u64 = match p[2].parse() { Ok(n) => n, Err(_) => bad!() };
                    match vars[a].as_mut() { Some(v) => v.push(Tracked::new(x)), None => bad!() }
                    shadow[a].as_mut().unwrap().push(x);
                    touched = Some(a);
                }
                "ext" if p.len() == 3 => {
                    let a = match idx(p[1]) { Some(a) => a, None => bad!() };
                    let vals = match nat_list(p[2]) { Some(v) => v, None => bad!() };
                    let els: Vec<Tracked> = vals.iter().map(|&x| Tracked::new(x)).collect();
                    match vars[a].as_mut() { Some(v) => v.extend(els.into_iter()), None => bad!() }
                    shadow[a].as_mut().unwrap().extend(vals);
                    touched = Some(a);
                }
                "clear" if p.len() == 2 => {
                    let a = match idx(p[1]) { Some(a) => a, None => bad!() };
                    match vars[a].as_mut() { Some(v) => v.clear(), None => bad!() }
                    shadow[a].as_mut().unwrap().clear();
                    touched = Some(a);
                }
                "retain" | "retmut" if p.len() == 4 => {
                    let a = match idx(p[1]) { Some(a) => a, None => bad!() };
                    let m: u64 = match p[2].parse() { Ok(n) if n > 0 => n, _ => bad!() };
                    let rr: u64 = match p[3].parse() { Ok(n) => n, Err(_) => bad!() };
                    let v = match vars[a].as_mut() { Some(v) => v, None => bad!() };
                    if p[0] == "retain" {
                        v.retain(|t| t.val % m != rr);
                        shadow[a].as_mut().unwrap().retain(|x| x % m != rr);
                    } else {
                        v.retain_mut(|t| {
                            t.val += 1;
                            t.val % m != rr
                        });
                        shadow[a].as_mut().unwrap().retain_mut(|x| {
                            *x += 1;
                            *x % m != rr
                        });
                    }
                    touched = Some(a);
                }
                "dedup" if p.len() == 2 => {
                    let a = match idx(p[1]) { Some(a) => a, None => bad!() };
                    match vars[a].as_mut() { Some(v) => v.dedup(), None => bad!() }
                    shadow[a].as_mut().unwrap().dedup();
                    touched = Some(a);
                }
                "sort" if p.len() == 2 => {
                    let a = match idx(p[1]) { Some(a) => a, None => bad!() };
                    match vars[a].as_mut() { Some(v) => v.sort(), None => bad!() }
                    shadow[a].as_mut().unwrap().sort();
                    touched = Some(a);
                }
                "clone" if p.len() == 3 => {
                    let a = match idx(p[1]) { Some(a) => a, None => bad!() };
                    let b = match idx(p[2]) { Some(b) if b != a => b, _ => bad!() };
                    let c = match vars[a].as_ref() { Some(v) => v.clone(), None => bad!() };
                    vars[b] = Some(c);
                    shadow[b] = shadow[a].clone();
                    touched = Some(b);
                }
                "cmp" if p.len() == 3 => {
                    let a = match idx(p[1]) { Some(a) => a, None => bad!() };
                    let b = match idx(p[2]) { Some(b) => b, None => bad!() };
                    let (va, vb) = match (vars[a].as_ref(), vars[b].as_ref()) {
                        (Some(x), Some(y)) => (x, y),
                        _ => bad!(),
                    };
                    let e = va == vb;
                    let c = va.cmp(vb);
                    let (sa, sb) = (shadow[a].as_ref().unwrap(), shadow[b].as_ref().unwrap());
                    if (e != (sa == sb) || c != sa.cmp(sb)) && oracle_fail.is_none() {
                        oracle_fail = Some(format!("op{k}:cmp-differs-from-Vec"));
                    }
                    imp.push(format!(
                        "{e},{}",
                        match c {
                            std::cmp::Ordering::Less => "lt",
                            std::cmp::Ordering::Equal => "eq",
                            std::cmp::Ordering::Greater => "gt",
                        }
                    ));
                    continue;
                }
                "iter" if p.len() == 3 => {
                    let a = match idx(p[1]) { Some(a) => a, None => bad!() };
                    let kk: usize = match p[2].parse() { Ok(n) => n, Err(_) => bad!() };
                    let v = match vars[a].take() { Some(v) => v, None => bad!() };
                    let sh = shadow[a].take().unwrap();
                    let mut it = v.into_iter();
                    let mut got = Vec::new();
                    for j in 0..kk {
                        if let Some(t) = it.next() {
                            if sh.get(j) != Some(&t.val) && oracle_fail.is_none() {
                                oracle_fail = Some(format!("op{k}:into_iter-yields-wrong-element"));
                            }
                            got.push(format!("{}:{}", t.id, t.val));
                        } else {
                            if j < sh.len() && oracle_fail.is_none() {
                                oracle_fail = Some(format!("op{k}:into_iter-ends-early"));
                            }
                            got.push("none".to_string());
                        }
                    }
                    drop(it);
                    let dr = take_drops(&mut all_drops);
                    imp.push(format!("{}/{dr}", if got.is_empty() { "-".to_string() } else { got.join(",") }));
                    continue;
                }
                "drop" if p.len() == 2 => {
                    let a = match idx(p[1]) { Some(a) => a, None => bad!() };
                    if vars[a].is_none() {
                        bad!()
                    }
                    vars[a] = None;
                    shadow[a] = None;
                    let dr = take_drops(&mut all_drops);
                    imp.push(format!("-/{dr}"));
                    continue;
                }
                "end" if p.len() == 1 => {
                    for v in vars.iter_mut() {
                        *v = None;
                    }
                    let dr = take_drops(&mut all_drops);
                    let created = NEXT_ID.with(|n| *n.borrow());
                    let mut counts = vec![0u32; created as usize + 1];
                    for &d in &all_drops {
                        if (d as usize) < counts.len() {
                            counts[d as usize] += 1;
                        }
                    }
                    let leaked: Vec<String> = (1..=created).filter(|&i| counts[i as usize] == 0).map(|i| i.to_string()).collect();
                    let twice: Vec<String> = (1..=created).filter(|&i| counts[i as usize] > 1).map(|i| i.to_string()).collect();
                    if (!leaked.is_empty() || !twice.is_empty()) && oracle_fail.is_none() {
                        oracle_fail = Some(format!("end:not-dropped-exactly-once(leaked={},twice={})", leaked.join(","), twice.join(",")));
                    }
                    imp.push(format!(
                        "end/{dr}/leaked={}/twice={}/created={created}",
                        if leaked.is_empty() { "-".to_string() } else { leaked.join(",") },
                        if twice.is_empty() { "-".to_string() } else { twice.join(",") }
                    ));
                    continue;
                }
                _ => bad!(),
            }
            let a = touched.unwrap();
            let vals: Vec<u64> = vars[a].as_ref().unwrap().as_slice().iter().map(|t| t.val).collect();
            if Some(&vals) != shadow[a].as_ref() && oracle_fail.is_none() {
                oracle_fail = Some(format!("op{k}:{}-contents-differ-from-Vec", p[0]));
            }
            let s = view(vars[a].as_ref().unwrap());
            let dr = take_drops(&mut all_drops);
            imp.push(format!("{s}/{dr}"));
        }
        let mut s = imp.join(" ");
        if let Some(f) = oracle_fail {
            s.push_str(&format!(" ORACLE-FAIL:{f}"));
        }
        s
    }
}

/// `sv <N> <op>...` with N in 0..=2
pub fn exec_sv(t: &[&str]) -> String {
    if t.len() < 2 {
        return "bad-request".into();
    }
    match t[1] {
        "0" => sv::exec::<0>(&t[2..]),
        "1" => sv::exec::<1>(&t[2..]),
        "2" => sv::exec::<2>(&t[2..]),
        "3" => sv::exec::<3>(&t[2..]),
        _ => "bad-request".into(),
    }
}

pub fn smallvec(r: &mut Rng, count: usize, out: &mut Out) {
    for _ in 0..count {
        let n = *r.pick(&[0u32, 1, 1, 2, 2, 3]);
        let mut req = format!("sv {n}");
        let mut alive = [false; 3];
        let nops = 1 + r.below(14);
        let small = |r: &mut Rng| r.below(4);
        let list = |r: &mut Rng| -> String {
            let k = r.below(4);
            if k == 0 {
                "-".to_string()
            } else {
                (0..k).map(|_| r.below(4).to_string()).collect::<Vec<_>>().join(",")
            }
        };
        for _ in 0..nops {
            let a = r.below(3) as usize;
            if !alive[a] {
                match r.below(4) {
                    0 => {
                        req.push_str(&format!(" new:{a}"));
                        out.stat("new");
                    }
                    1 => {
                        req.push_str(&format!(" cap:{a}:{}", r.below(5)));
                        out.stat("with_capacity");
                    }
                    2 => {
                        req.push_str(&format!(" fromvec:{a}:{}", list(r)));
                        out.stat("from_vec");
                    }
                    _ => {
                        req.push_str(&format!(" with:{a}:{}", small(r)));
                        out.stat("with");
                    }
                }
                alive[a] = true;
                continue;
            }
            match r.below(16) {
                0..=3 => {
                    req.push_str(&format!(" push:{a}:{}", small(r)));
                    out.stat("push");
                }
                4 => {
                    req.push_str(&format!(" ext:{a}:{}", list(r)));
                    out.stat("extend");
                }
                5 => {
                    req.push_str(&format!(" clear:{a}"));
                    out.stat("clear");
                }
                6 | 7 => {
                    let m = 2 + r.below(2);
                    req.push_str(&format!(" retain:{a}:{m}:{}", r.below(m)));
                    out.stat("retain");
                }
                8 => {
                    let m = 2 + r.below(2);
                    req.push_str(&format!(" retmut:{a}:{m}:{}", r.below(m)));
                    out.stat("retain_mut");
                }
                9 | 10 => {
                    req.push_str(&format!(" dedup:{a}"));
                    out.stat("dedup");
                }
                11 => {
                    req.push_str(&format!(" sort:{a}"));
                    out.stat("sort");
                }
                12 => {
                    let b = (a + 1 + r.below(2) as usize) % 3;
                    req.push_str(&format!(" clone:{a}:{b}"));
                    alive[b] = true;
                    out.stat("clone");
                }
                13 => {
                    let b = (a + 1 + r.below(2) as usize) % 3;
                    if alive[b] {
                        req.push_str(&format!(" cmp:{a}:{b}"));
                        out.stat("cmp");
                    }
                }
                14 => {
                    req.push_str(&format!(" iter:{a}:{}", r.below(4)));
                    alive[a] = false;
                    out.stat("into_iter");
                }
                _ => {
                    req.push_str(&format!(" drop:{a}"));
                    alive[a] = false;
                    out.stat("drop");
                }
            }
        }
        req.push_str(" end");
        emit(out, req, exec_sv);
    }
}

// ------------------------------------------------------------------------------------------ expr

fn expr_queries<C: CellType>(e: &ir::Expr<C>, assign: &[u64]) -> String {
    let optc = |o: Option<C>| o.map_or("none".to_string(), |c| c.into_u64().to_string());
    let opte = |o: Option<ir::Expr<C>>| o.map_or("none".to_string(), |e| encode_expr(&e));
    let mut s = format!(
        "const={} ident={} cpart={} zero={} ops={} adds={} vars={}",
        optc(e.constant()),
        e.identity().map_or("none".to_string(), |v| v.to_string()),
        e.constant_part().into_u64(),
        e.is_zero(),
        e.op_count(),
        e.add_count(),
        {
            let v: Vec<String> = e.variables().map(|v| v.to_string()).collect();
            if v.is_empty() { "-".to_string() } else { v.join(",") }
        }
    );
    for i in [0isize, 1] {
        s.push_str(&format!(
            " inc{i}={} pinc{i}={} cinc{i}={} prod{i}={}",
            opte(e.inc_of(i)),
            e.prod_inc_of(i)
                .map_or("none".to_string(), |(e, m)| format!("{}@{}", encode_expr(&e), m.into_u64())),
            optc(e.const_inc_of(i)),
            opte(e.prod_of(i)),
        ));
    }
    let get = |v: isize| C::from_u64(*assign.get((v + 1) as usize).unwrap_or(&0));
    let val = e.evaluate(get);
    s.push_str(&format!(" eval={}", val.into_u64()));
    s
}

fn expr_exec<C: CellType>(toks: &[&str]) -> String {
    if toks.is_empty() || !toks[0].starts_with("env:") {
        return "bad-request".into();
    }
    let assign: Vec<u64> = match toks[0][4..].split(',').map(|x| x.parse().ok()).collect::<Option<Vec<u64>>>() {
        Some(a) => a,
        None => return "bad-request".into(),
    };
    let get = |v: isize| C::from_u64(*assign.get((v + 1) as usize).unwrap_or(&0));
    let mut stack: Vec<ir::Expr<C>> = Vec::new();
    let mut imp: Vec<String> = Vec::new();
    let mut oracle_fail: Option<String> = None;
    for (k, tok) in toks[1..].iter().enumerate() {
        let p: Vec<&str> = tok.split(':').collect();
        macro_rules! pop {
            () => {
                match stack.pop() {
                    Some(e) => e,
                    None => return "bad-request".to_string(),
                }
            };
        }
        // oracle: the value of the result under the assignment equals the arithmetic on the operand values
        let mut expect: Option<C> = None;
        match p[0] {
            "v" if p.len() == 2 => {
                let c: u64 = match p[1].parse() { Ok(c) => c, Err(_) => return "bad-request".into() };
                stack.push(ir::Expr::val(C::from_u64(c)));
                expect = Some(C::from_u64(c));
            }
            "x" if p.len() == 2 => {
                let v: isize = match p[1].parse() { Ok(c) => c, Err(_) => return "bad-request".into() };
                stack.push(ir::Expr::var(v));
                expect = Some(get(v));
            }
            "add" => {
                let b = pop!();
                let a = pop!();
                expect = Some(a.evaluate(get).wrapping_add(b.evaluate(get)));
                stack.push(a.add(&b));
            }
            "mul" | "mulv" => {
                let b = pop!();
                let a = pop!();
                expect = Some(a.evaluate(get).wrapping_mul(b.evaluate(get)));
                stack.push(if p[0] == "mul" { a.mul(&b) } else { a.mul(b) });
            }
            "neg" => {
                let a = pop!();
                expect = Some(a.evaluate(get).wrapping_neg());
                stack.push(a.neg());
            }
            "half" => {
                let a = pop!();
                match a.half() {
                    Some(h) => {
                        let hv = h.evaluate(get);
                        if hv.wrapping_add(hv) != a.evaluate(get) && oracle_fail.is_none() {
                            oracle_fail = Some(format!("op{k}:2*half!=value"));
                        }
                        stack.push(h);
                    }
                    None => stack.push(a),
                }
            }
            "norm" => {
                let a = pop!();
                expect = Some(a.evaluate(get));
                stack.push(a.normalize());
            }
            "sub" if p.len() == 2 => {
                let i: isize = match p[1].parse() { Ok(c) => c, Err(_) => return "bad-request".into() };
                let b = pop!();
                let a = pop!();
                let bv = b.evaluate(get);
                expect = Some(a.evaluate(|v| if v == i { bv } else { get(v) }));
                let res = a.symb_evaluate(|v| if v == i { Some(b.clone()) } else { Some(ir::Expr::var(v)) });
                match res {
                    Some(e) => stack.push(e),
                    None => return "symb-evaluate-none".into(),
                }
            }
            "subnone" if p.len() == 2 => {
                let i: isize = match p[1].parse() { Ok(c) => c, Err(_) => return "bad-request".into() };
                let a = pop!();
                expect = Some(a.evaluate(get));
                match a.symb_evaluate(|v| if v == i { None } else { Some(ir::Expr::var(v)) }) {
                    Some(e) => stack.push(e),
                    None => stack.push(a),
                }
            }
            "prodof" if p.len() == 2 => {
                let i: isize = match p[1].parse() { Ok(c) => c, Err(_) => return "bad-request".into() };
                let a = pop!();
                match a.prod_of(i) {
                    Some(e) => {
                        if get(i).wrapping_mul(e.evaluate(get)) != a.evaluate(get) && oracle_fail.is_none() {
                            oracle_fail = Some(format!("op{k}:prod_of-does-not-recompose"));
                        }
                        stack.push(e)
                    }
                    None => stack.push(a),
                }
            }
            _ => return "bad-request".into(),
        }
        let top = stack.last().unwrap();
        if let Some(x) = expect {
            if top.evaluate(get) != x && oracle_fail.is_none() {
                oracle_fail = Some(format!("op{k}:{}-value-wrong", p[0]));
            }
        }
        // decompositions must recompose
        let tv = top.evaluate(get);
        for i in [0isize, 1] {
            if let Some(r) = top.inc_of(i) {
                if get(i).wrapping_add(r.evaluate(get)) != tv && oracle_fail.is_none() {
                    oracle_fail = Some(format!("op{k}:inc_of({i})-does-not-recompose"));
                }
            }
            if let Some((r, m)) = top.prod_inc_of(i) {
                if m.wrapping_mul(get(i)).wrapping_add(r.evaluate(get)) != tv && oracle_fail.is_none() {
                    oracle_fail = Some(format!("op{k}:prod_inc_of({i})-does-not-recompose"));
                }
            }
            if let Some(c) = top.const_inc_of(i) {
                if c.wrapping_add(get(i)) != tv && oracle_fail.is_none() {
                    oracle_fail = Some(format!("op{k}:const_inc_of({i})-does-not-recompose"));
                }
            }
        }
        if top.constant_part() != top.evaluate(|_| C::ZERO) && oracle_fail.is_none() {
            oracle_fail = Some(format!("op{k}:constant_part-wrong"));
        }
        if let Some(c) = top.constant() {
            if c != tv && oracle_fail.is_none() {
                oracle_fail = Some(format!("op{k}:constant-wrong"));
            }
        }
        imp.push(encode_expr(top));
    }
    match stack.last() {
        Some(top) => imp.push(expr_queries(top, &assign)),
        None => return "bad-request".into(),
    }
    let mut s = imp.join(" ");
    if let Some(f) = oracle_fail {
        s.push_str(&format!(" ORACLE-FAIL:{f}"));
    }
    s
}

/// `expr <w> env:a,b,c,d <op>...`
pub fn exec_expr(t: &[&str]) -> String {
    if t.len() < 3 {
        return "bad-request".into();
    }
    let w: u32 = t[1].parse().unwrap_or(0);
    with_width!(w, expr_exec, &t[2..])
}

pub fn expr(r: &mut Rng, count: usize, out: &mut Out) {
    for _ in 0..count {
        let w = *r.pick(&WIDTHS);
        let mut req = format!(
            "expr {w} env:{},{},{},{}",
            interesting(r, w),
            interesting(r, w),
            r.below(5),
            interesting(r, w)
        );
        let n = 2 + r.below(14);
        let half_mod = 1u64 << (w - 1);
        let mask = if w == 64 { u64::MAX } else { (1u64 << w) - 1 };
        let mut depth = 0usize;
        if r.chance(1, 4) {
            // cluster: a sum of 3..6 monomials over the same (deduplicated) variable set with differing
            // powers, coefficients around 0, 1, -1 and the half modulus, then `norm`
            let vars: Vec<i64> = if r.chance(1, 2) { vec![r.range(-1, 2)] } else { vec![0, 1] };
            let k = 3 + r.below(4);
            for m in 0..k {
                let c = match r.below(9) {
                    0 | 1 => 1,
                    2 => mask,
                    3 => half_mod,
                    4 => half_mod + 1,
                    5 => half_mod - 1,
                    6 => 2,
                    7 => mask - 1,
                    _ => r.next() & mask,
                };
                req.push_str(&format!(" v:{c}"));
                for v in &vars {
                    for _ in 0..1 + r.below(3) {
                        req.push_str(&format!(" x:{v} {}", if r.chance(1, 2) { "mul" } else { "mulv" }));
                    }
                }
                if m > 0 {
                    req.push_str(" add");
                }
            }
            req.push_str(" norm");
            if r.chance(1, 3) {
                req.push_str(" half norm");
            }
            out.stat("cluster");
            emit(out, req, exec_expr);
            continue;
        }
        for _ in 0..n {
            let choice = if depth < 2 { r.below(2) } else { 2 + r.below(13) };
            match choice {
                0 => {
                    let c = match r.below(8) {
                        0 => 0,
                        1 => 1,
                        2 => mask,
                        3 => half_mod,
                        4 => half_mod + 1,
                        5 => half_mod - 1,
                        6 => 2,
                        _ => r.next() & mask,
                    };
                    req.push_str(&format!(" v:{c}"));
                    depth += 1;
                    out.stat("val");
                }
                1 => {
                    req.push_str(&format!(" x:{}", r.range(-1, 2)));
                    depth += 1;
                    out.stat("var");
                }
                2..=4 => {
                    req.push_str(" add");
                    depth -= 1;
                    out.stat("add");
                }
                5..=8 => {
                    req.push_str(if r.chance(1, 2) { " mul" } else { " mulv" });
                    depth -= 1;
                    out.stat("mul");
                }
                9 => {
                    req.push_str(" neg");
                    out.stat("neg");
                }
                10 => {
                    req.push_str(" half");
                    out.stat("half");
                }
                11 => {
                    req.push_str(" norm");
                    out.stat("normalize");
                }
                12 => {
                    req.push_str(&format!(" sub:{}", r.range(-1, 2)));
                    depth -= 1;
                    out.stat("symb_evaluate");
                }
                13 => {
                    req.push_str(&format!(" prodof:{}", r.range(-1, 2)));
                    out.stat("prod_of");
                }
                _ => {
                    req.push_str(&format!(" subnone:{}", r.range(-1, 2)));
                    out.stat("symb_evaluate_partial");
                }
            }
        }
        emit(out, req, exec_expr);
    }
}
