//! `guard`: runs correspondence suites under a global allocator that (a) places every zero-initialised
//! allocation (the tape, the interpreter context with its temporaries) flush against a PROT_NONE guard
//! page, on the side chosen by `GUARD=left|right`, so that any access outside the allocation faults, and
//! (b) can make the k-th zero-initialised allocation made while `ARMED` fail (`ALLOC_FAIL=k`), to
//! observe how tape growth failure is handled.
//!
//! usage: guard <suite|replay> ...   (same arguments as `verif-harness`)
//!        guard failrun <width> <backend> <level> <hexprogram>   (single run for ALLOC_FAIL)

use std::alloc::{GlobalAlloc, Layout, System};
use std::sync::atomic::{AtomicBool, AtomicIsize, AtomicUsize, Ordering};

static MODE: AtomicUsize = AtomicUsize::new(0); // 0 = off, 1 = right flush, 2 = left flush
static FAIL_AT: AtomicIsize = AtomicIsize::new(-1);
static ARMED: AtomicBool = AtomicBool::new(false);
static ZEROED_SEEN: AtomicUsize = AtomicUsize::new(0);
pub static GUARDED: AtomicUsize = AtomicUsize::new(0);

const PAGE: usize = 4096;

struct Guard;

unsafe impl GlobalAlloc for Guard {
    unsafe fn alloc(&self, layout: Layout) -> *mut u8 {
        System.alloc(layout)
    }
    unsafe fn dealloc(&self, ptr: *mut u8, layout: Layout) {
        let mode = MODE.load(Ordering::Relaxed);
        if mode != 0 && is_guarded(ptr, layout) {
            let data = (layout.size() + PAGE - 1) / PAGE * PAGE;
            let base = if mode == 1 {
                let guard_start = (ptr as usize + layout.size() + PAGE - 1) / PAGE * PAGE;
                (guard_start - data) as *mut u8
            } else {
                ptr.sub(PAGE)
            };
            libc::munmap(base as *mut _, data + PAGE);
        } else {
            System.dealloc(ptr, layout)
        }
    }
    unsafe fn alloc_zeroed(&self, layout: Layout) -> *mut u8 {
        if ARMED.load(Ordering::Relaxed) {
            let n = ZEROED_SEEN.fetch_add(1, Ordering::Relaxed) as isize + 1;
            if n == FAIL_AT.load(Ordering::Relaxed) {
                return std::ptr::null_mut();
            }
        }
        let mode = MODE.load(Ordering::Relaxed);
        if mode == 0 || !ARMED.load(Ordering::Relaxed) || layout.size() == 0 || layout.align() > 16 {
            return System.alloc_zeroed(layout);
        }
        let data = (layout.size() + PAGE - 1) / PAGE * PAGE;
        let base = libc::mmap(
            std::ptr::null_mut(),
            data + PAGE,
            libc::PROT_READ | libc::PROT_WRITE,
            libc::MAP_PRIVATE | libc::MAP_ANONYMOUS,
            -1,
            0,
        ) as *mut u8;
        if base as isize == -1 {
            return std::ptr::null_mut();
        }
        GUARDED.fetch_add(1, Ordering::Relaxed);
        if mode == 1 {
            // [ data pages ][ guard ]: the allocation ends exactly at the guard page
            libc::mprotect(base.add(data) as *mut _, PAGE, libc::PROT_NONE);
            // (rounded down to the alignment, which may leave a gap smaller than the alignment)
            let start = (base as usize + data - layout.size()) / layout.align() * layout.align();
            mark(start as *mut u8)
        } else {
            // [ guard ][ data pages ]: the allocation starts right after the guard page
            libc::mprotect(base as *mut _, PAGE, libc::PROT_NONE);
            mark(base.add(PAGE))
        }
    }
}

// Guarded pointers are recognised at dealloc time through a small table (no header: the bytes around
// the allocation must stay inaccessible / untouched).
const SLOTS: usize = 4096;
static TABLE: [AtomicUsize; SLOTS] = [const { AtomicUsize::new(0) }; SLOTS];

unsafe fn mark(p: *mut u8) -> *mut u8 {
    for s in TABLE.iter() {
        if s.compare_exchange(0, p as usize, Ordering::Relaxed, Ordering::Relaxed).is_ok() {
            return p;
        }
    }
    p // table full: the mapping is leaked at dealloc (harmless)
}

unsafe fn is_guarded(p: *mut u8, _layout: Layout) -> bool {
    for s in TABLE.iter() {
        if s.compare_exchange(p as usize, 0, Ordering::Relaxed, Ordering::Relaxed).is_ok() {
            return true;
        }
    }
    false
}

#[global_allocator]
static A: Guard = Guard;

fn failrun(args: &[String]) {
    use hpbf::exec::*;
    use hpbf::runtime::Context;
    let w: u32 = args[0].parse().unwrap();
    let be = args[1].as_str();
    let lvl: u32 = args[2].parse().unwrap();
    let code = String::from_utf8(verif_harness::util::unhex(&args[3]).unwrap()).unwrap();
    // fixed-size output buffer: no allocation while armed except those made by hpbf itself
    struct Sink {
        buf: [u8; 4096],
        n: usize,
    }
    impl std::io::Write for &mut Sink {
        fn write(&mut self, b: &[u8]) -> std::io::Result<usize> {
            if self.n < self.buf.len() {
                self.buf[self.n] = b[0];
                self.n += 1;
            }
            Ok(1)
        }
        fn flush(&mut self) -> std::io::Result<()> {
            Ok(())
        }
    }
    let mut sink = Sink { buf: [0; 4096], n: 0 };
    macro_rules! go {
        ($c:ty) => {{
            let exec: Box<dyn Executable<$c>> = match be {
                "inplace" => Box::new(InplaceInterpreter::<$c>::create(&code, lvl).unwrap()),
                "irint" => Box::new(IrInterpreter::<$c>::create(&code, lvl).unwrap()),
                "bcint" => Box::new(BcInterpreter::<$c>::create(&code, lvl).unwrap()),
                _ => Box::new(BaseJitCompiler::<$c>::create(&code, lvl).unwrap()),
            };
            let out: Box<dyn std::io::Write> = Box::new(&mut sink);
            let mut cxt = Context::<$c>::new(None, Some(out));
            ARMED.store(true, Ordering::SeqCst);
            let _ = exec.execute(&mut cxt);
            ARMED.store(false, Ordering::SeqCst);
            drop(cxt);
        }};
    }
    match w {
        8 => go!(u8),
        16 => go!(u16),
        32 => go!(u32),
        _ => go!(u64),
    }
    let seen = ZEROED_SEEN.load(Ordering::SeqCst);
    let hex: String = sink.buf[..sink.n].iter().map(|b| format!("{:02x}", b)).collect();
    println!("completed zeroed_allocs={seen} out={}", if hex.is_empty() { "-".to_string() } else { hex });
}

fn main() {
    let args: Vec<String> = std::env::args().collect();
    match std::env::var("GUARD").as_deref() {
        Ok("right") => MODE.store(1, Ordering::SeqCst),
        Ok("left") => MODE.store(2, Ordering::SeqCst),
        _ => {}
    }
    if let Ok(k) = std::env::var("ALLOC_FAIL") {
        FAIL_AT.store(k.parse().unwrap_or(-1), Ordering::SeqCst);
    }
    if args.len() >= 2 && args[1] == "failrun" {
        failrun(&args[2..]);
        return;
    }
    ARMED.store(MODE.load(Ordering::SeqCst) != 0, Ordering::SeqCst);
    verif_harness::run_cli(args);
    eprintln!("guarded_allocations={}", GUARDED.load(Ordering::SeqCst));
}
