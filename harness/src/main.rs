//! `corr`: the correspondence harness entry point (see lib.rs).
fn main() {
    verif_harness::run_cli(std::env::args().collect());
}
