"""One run of one property's check."""
import json, os, sys, time, shutil, subprocess, re

from common import (ROOT, LEAN, HARNESS, WORK, REPO, ALLOWED_AXIOMS, Lean, Driver, Harness, sh,
                    read_lines, diff_streams, unhex, hexs, balanced, shrink_bytes)
import props
import judges


class Run:
    def __init__(self, pid, tier, seed):
        self.pid, self.tier, self.seed = pid, tier, seed
        self.cfg = props.PROPS[pid]
        self.t0 = time.time()
        self.work = os.path.join(WORK, f"{pid}_{tier}")
        shutil.rmtree(self.work, ignore_errors=True)
        os.makedirs(self.work, exist_ok=True)
        os.makedirs(os.path.join(ROOT, "evidence"), exist_ok=True)
        os.makedirs(os.path.join(ROOT, "replays"), exist_ok=True)
        self.violations = []       # dicts: what, replay, found (bool), key
        self.known = []
        self.obligations = []      # (name, discharged?, detail)
        self.stream_stats = {}
        self.samples = []
        self.evaluations = 0
        self.nontrivial = set()
        self.notes = []
        self.lean = Lean()
        self.driver = Driver()
        kf = json.load(open(os.path.join(ROOT, "known_findings.json")))
        self.findings = [f for f in kf["findings"] if pid in f["properties"]]

    # ------------------------------------------------------------------ obligations
    def oblige(self, name, ok, detail=""):
        self.obligations.append((name, bool(ok), detail))
        if not ok:
            print(f"[{self.pid}] obligation FAILED: {name} {detail[:300]}")

    def proof_side(self):
        cfg = self.cfg
        ok, out = self.lean.build(cfg["modules"] + ["driver"])
        self.oblige("lake build " + " ".join(cfg["modules"]) + " driver", ok, out[-1500:] if not ok else "")
        if not ok:
            # the driver may still be buildable from the model files alone
            ok2, _ = self.lean.build(["driver"])
            if not ok2:
                return False
        res, out = self.lean.audit(cfg["modules"], cfg["theorems"])
        for t in cfg["theorems"]:
            ax = res.get(t)
            if ax is None:
                self.oblige(f"theorem {t}", False, "missing or does not elaborate")
            else:
                bad = [a for a in ax if a not in ALLOWED_AXIOMS]
                self.oblige(f"theorem {t} [axioms: {', '.join(ax) if ax else 'none'}]", not bad, "forbidden axioms " + str(bad) if bad else "")
        hits = self.lean.grep_forbidden()
        self.oblige("no sorry/admit/axiom/native_decide/bv_decide/implemented_by/unsafe/maxHeartbeats 0 in lean sources", not hits, "; ".join(hits[:10]))
        if self.tier == "thorough" and cfg.get("leanchecker", True):
            for m in cfg["modules"]:
                rc, o = sh(["lake", "env", "leanchecker", m], cwd=LEAN, timeout=3000)
                self.oblige(f"leanchecker {m}", rc == 0, o[-500:])
        return True

    # ------------------------------------------------------------------ correspondence
    def run_stream(self, harness, name, reqfile=None, suite=None, count=0, seed=None, timeout=3000):
        """Run one correspondence stream; returns (reqs, impls, models)."""
        outdir = os.path.join(self.work, name)
        os.makedirs(outdir, exist_ok=True)
        if self.tier == "quick":
            timeout = min(timeout, 400)     # a quick stream takes seconds; a hang is reported, not waited for
        if reqfile is not None:
            rc, out = harness.replay(name, reqfile, outdir, timeout=timeout)
            base = name
        else:
            rc, out = harness.run(suite, seed if seed is not None else self.seed, count, outdir, timeout=timeout)
            base = suite
        prog = os.path.join(outdir, base + ".progress")
        if rc != 0:
            last = open(prog).read() if os.path.exists(prog) else "?"
            kind = "timed out (hang?)" if rc == 124 else f"crashed rc={rc}"
            self.violations.append(dict(what=f"harness stream {name} {kind} while running: {last[:600]}",
                                        stream=name, request=last, found=True, detail=out[-800:]))
            # keep whatever was written
        reqs = read_lines(os.path.join(outdir, base + ".req"))
        impls = read_lines(os.path.join(outdir, base + ".impl"))
        reqp = os.path.join(outdir, base + ".req")
        modp = os.path.join(outdir, base + ".model")
        okd = self.driver.run_file(reqp, modp)
        models = read_lines(modp)
        if not okd:
            self.oblige(f"driver ran on stream {name}", False, "driver failed or timed out")
        statp = os.path.join(outdir, base + ".stats.json")
        if os.path.exists(statp):
            try:
                self.stream_stats[name] = json.load(open(statp))
            except Exception:
                pass
        return reqs, impls, models

    def account(self, name, reqs, impls, nontrivial):
        self.evaluations += len(reqs)
        for r, i in zip(reqs, impls):
            if nontrivial(r, i):
                self.nontrivial.add(r)
        for r, i in list(zip(reqs, impls))[:2]:
            self.samples.append({"stream": name, "request": r[:400], "reply": i[:400]})

    # ------------------------------------------------------------------ main
    def main(self):
        cfg = self.cfg
        print(f"[{self.pid}] tier={self.tier} seed={self.seed}")
        # translators first: they regenerate model facts from /repo's source, which the Lean build re-checks
        for tr in cfg.get("translators", []):
            rc, out = sh(["python3", os.path.join(ROOT, "extract", tr)], timeout=300)
            self.oblige(f"translator extract/{tr} (regenerates facts from /repo source)", rc == 0, out[-600:])
            self.notes.append(f"extract/{tr}: {out.strip()[:300]}")
        if not self.proof_side():
            return self.finish()
        # harness build(s)
        harnesses = {}
        for profile in cfg.get("profiles", ["debug"]):
            h = Harness(profile)
            ok, out = h.build()
            self.oblige(f"cargo build harness ({profile}) against /repo working tree", ok, out[-1500:] if not ok else "")
            if ok:
                harnesses[profile] = h
        if not harnesses:
            return self.finish()
        for profile, h in harnesses.items():
            # corpus first
            for cname in cfg.get("corpus", []):
                path = os.path.join(ROOT, "corpus", cname + ".req")
                if os.path.exists(path):
                    name = f"corpus_{cname}_{profile}"
                    reqs, impls, models = self.run_stream(h, name, reqfile=path)
                    self.judge_stream(h, name, cfg["corpus_judge"], reqs, impls, models)
            for st in cfg["streams"]:
                count = st["quick"] if self.tier == "quick" else st["thorough"]
                nseeds = 1 if self.tier == "quick" else st.get("thorough_seeds", 1)
                for k in range(nseeds):
                    name = f"{st['suite']}_{profile}" + (f"_{k}" if nseeds > 1 else "")
                    reqs, impls, models = self.run_stream(h, name, suite=st["suite"], count=count,
                                                          seed=self.seed + 7919 * k, timeout=st.get("timeout", 3000))
                    self.judge_stream(h, name, st["judge"], reqs, impls, models)
        for extra in cfg.get("extra", []):
            extra(self, harnesses)
        return self.finish()

    def judge_stream(self, harness, name, judge_name, reqs, impls, models):
        judge = judges.JUDGES[judge_name]
        self.account(name, reqs, impls, judge.nontrivial)
        bad = diff_streams(reqs, impls, models)
        ok = not bad
        self.oblige(f"correspondence stream {name}: {len(reqs)} cases, implementation = model", ok,
                    f"{len(bad)} disagreements" if bad else "")
        if ok:
            # property-level oracle on agreeing cases (cheap, e.g. leaked=- for smallvec)
            for i, (r, im) in enumerate(zip(reqs, impls)):
                v = judge.oracle(self, r, im)
                if v:
                    self.add_violation(name, r, im, im, v, True, harness, judge)
            return
        shown = 0
        found_any = False
        for i in bad[:25]:
            if i < 0:
                self.violations.append(dict(what=f"stream {name}: reply streams have different lengths "
                                                 f"(req {len(reqs)}, impl {len(impls)}, model {len(models)})",
                                            stream=name, request="", found=False))
                continue
            r, im, mo = reqs[i], impls[i], models[i]
            verdict = judge.decide(self, harness, r, im, mo)   # None | description of the property failure
            if verdict:
                found_any = True
                self.add_violation(name, r, im, mo, verdict, True, harness, judge)
            shown += 1
        if not found_any and all(b < 0 for b in bad) and any(v.get("stream") == name for v in self.violations):
            return      # the stream was cut short by a crash/hang that is already reported with its last request
        if not found_any:
            # tie broken but no disagreeing case violates the property itself: search further
            w = judge.search(self, harness, name)
            if w:
                self.add_violation(name, w["request"], w["impl"], w["model"], w["verdict"], True, harness, judge)
            else:
                i = [b for b in bad if b >= 0][:1]
                r = reqs[i[0]] if i else ""
                self.add_violation(name, r, impls[i[0]] if i else "", models[i[0]] if i else "",
                                   f"correspondence '{name}' (implementation vs Lean model) no longer checks; "
                                   f"no input violating the property itself was found", False, harness, judge)

    def add_violation(self, stream, req, imp, mod, verdict, found, harness, judge):
        if found and judge.shrink:
            try:
                req2, imp2, mod2 = judge.shrink(self, harness, req, imp, mod)
                if req2:
                    req, imp, mod = req2, imp2, mod2
            except Exception as e:   # shrinking is best effort
                self.notes.append(f"shrink failed: {e}")
        self.violations.append(dict(what=verdict, stream=stream, request=req, impl=imp, model=mod, found=found,
                                    key=judge.key(req)))

    # ------------------------------------------------------------------ finish
    def finish(self):
        cfg = self.cfg
        failed_obl = [o for o in self.obligations if not o[1]]
        # a failed proof obligation without a concrete violation is still a violation
        if failed_obl and not self.violations:
            self.violations.append(dict(what="proof obligation(s) no longer check: " +
                                        "; ".join(o[0] for o in failed_obl[:5]), stream="lean", request="",
                                        found=False))
        reported = []
        for v in self.violations:
            k = self.match_known(v)
            if k:
                self.known.append((k, v))
            else:
                reported.append(v)
        for k, v in self.known:
            print(f"KNOWN-FINDING: property={self.pid} {k['what']}")
        rc = 0
        # one VIOLATION line per distinct replay, at most 5
        seen = set()
        for n, v in enumerate(reported[:5]):
            path = os.path.join(ROOT, "replays", f"{self.pid}_{self.tier}_{n}.json")
            json.dump(dict(property=self.pid, what=v["what"], stream=v.get("stream"), request=v.get("request"),
                           implementation_reply=v.get("impl"), model_reply=v.get("model"),
                           failing_input_found=v["found"],
                           broken=[o[0] + (": " + o[2] if o[2] else "") for o in failed_obl],
                           how_to_replay=f"cd /verif && ./check {self.pid} --replay {path}"),
                      open(path, "w"), indent=1)
            tail = "" if v["found"] else " no-failing-input-found"
            print(f"VIOLATION property={self.pid} replay={path}{tail}")
            rc = 1
        self.write_evidence(len(reported))
        dt = time.time() - self.t0
        print(f"[{self.pid}] obligations {sum(1 for o in self.obligations if o[1])}/{len(self.obligations)} "
              f"evaluations {self.evaluations} violations {len(reported)} known {len(self.known)} wall {dt:.1f}s")
        return rc

    def match_known(self, v):
        for f in self.findings:
            if f.get("status") != "open":
                continue
            key = f.get("key", "")
            if key and (key in (v.get("request") or "") or key in (v.get("what") or "") or key == v.get("key")):
                return f
        return None

    def write_evidence(self, nviol):
        cfg = self.cfg
        ev = {
            "property_id": self.pid,
            "tier": self.tier,
            "seed": self.seed,
            "level": "proof",
            "wall_s": round(time.time() - self.t0, 2),
            "violations": nviol,
            "coverage": {
                "obligations": len(self.obligations),
                "discharged": sum(1 for o in self.obligations if o[1]),
                "obligation_list": [{"name": o[0], "discharged": o[1]} for o in self.obligations],
                "checker_cmd": f"cd /verif/lean && lake build {' '.join(cfg['modules'])} driver && lake env lean <audit: #print axioms on every property theorem>; "
                               f"cd /verif/harness && cargo build --offline; corr <suite> <seed> <n> | driver | diff",
                "trusted_base": cfg["trusted_base"] + props.COMMON_TRUST,
                "theorems": cfg["theorems"],
                "proved_scope": cfg["scope"],
                "not_proved": cfg.get("not_proved", ""),
                "evaluations": self.evaluations,
                "distinct_nontrivial": len(self.nontrivial),
                "rule": cfg["rule"],
                "samples": self.samples[:6] or [{"note": "no correspondence case was run"}],
                "generator_distribution": self.stream_stats,
                "known_findings_matched": [k["id"] for k, _ in self.known],
                "notes": self.notes,
            },
            "assumptions": cfg["trusted_base"] + props.COMMON_TRUST,
        }
        json.dump(ev, open(os.path.join(ROOT, "evidence", f"{self.pid}.json"), "w"), indent=1)

    # ------------------------------------------------------------------ replay
    def replay(self, path):
        rep = json.load(open(path))
        req = rep.get("request") or ""
        if not req:
            print("replay names a broken obligation, not an input:", rep.get("what"))
            print("\n".join(rep.get("broken", [])))
            return 1
        if req.startswith("cli-args "):
            # black-box replay of a command line against the real binary, the Cli model and the canonical semantics
            import cli_tie
            d = json.loads(req[len("cli-args "):])
            self.lean.build(["driver"])
            okb, binary, out = cli_tie.build_cli("release" if "release" in (rep.get("stream") or "") else "debug")
            if not okb:
                print(out[-2000:]); return 2
            files = {k: tuple(v) for k, v in d.get("files", {}).items()}
            for name, (kind, content) in files.items():      # recreate the files the case referred to
                if kind == "ok" and not os.path.exists(name):
                    os.makedirs(os.path.dirname(name) or ".", exist_ok=True)
                    open(name, "w").write(content)
                elif kind == "utf8" and not os.path.exists(name):
                    os.makedirs(os.path.dirname(name) or ".", exist_ok=True)
                    open(name, "wb").write(b"+\xff\xfe.")
            cli_tie.add_existing(d["args"], files)
            v, _ = cli_tie.expected_and_compare(self.driver, binary, d["args"], files, bytes.fromhex(d.get("stdin", "")))
            print("command line:", d["args"])
            print("AGREE" if not v else "DIFFER: " + v)
            return 0 if not v else 1
        h = Harness("debug")
        ok, out = h.build()
        if not ok:
            print(out[-2000:]); return 2
        self.lean.build(["driver"])
        rq = os.path.join(self.work, "replay.req")
        open(rq, "w").write(req + "\n")
        reqs, impls, models = self.run_stream(h, "replay", reqfile=rq)
        for r, i, m in zip(reqs, impls, models):
            print("request:", r[:2000]); print("impl   :", i[:2000]); print("model  :", m[:2000])
            print("AGREE" if i == m else "DIFFER")
        return 0 if impls == models and impls else 1
