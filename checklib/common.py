"""Machinery shared by all property checks (see /verif/check)."""
import json, os, subprocess, sys, time, re, shutil

ROOT = os.path.dirname(os.path.dirname(os.path.abspath(__file__)))
LEAN = os.path.join(ROOT, "lean")
HARNESS = os.path.join(ROOT, "harness")
WORK = os.path.join(ROOT, "work")
REPO = "/repo"
ALLOWED_AXIOMS = {"propext", "Classical.choice", "Quot.sound"}
FORBIDDEN = re.compile(r"\b(sorry|admit|native_decide|bv_decide|implemented_by)\b|^\s*axiom\s|\bunsafe\s|maxHeartbeats\s+0\b", re.M)

ENV = dict(os.environ)
ENV["CARGO_NET_OFFLINE"] = "true"


def sh(cmd, cwd=None, timeout=None, inp=None, env=None):
    """Run a command, return (rc, stdout+stderr). rc = 124 on timeout."""
    e = dict(ENV)
    if env:
        e.update(env)
    try:
        r = subprocess.run(cmd, cwd=cwd, input=inp, capture_output=True, timeout=timeout, env=e)
        return r.returncode, (r.stdout + r.stderr).decode("utf-8", "replace")
    except subprocess.TimeoutExpired as e:
        out = (e.stdout or b"") + (e.stderr or b"")
        return 124, out.decode("utf-8", "replace")


def strip_lean_comments(text):
    """Remove `--` line comments and (nested) `/- -/` block comments."""
    out = []
    i, depth, n = 0, 0, len(text)
    while i < n:
        if text.startswith("/-", i):
            depth += 1; i += 2
        elif depth and text.startswith("-/", i):
            depth -= 1; i += 2
        elif depth:
            i += 1
        elif text.startswith("--", i):
            while i < n and text[i] != "\n":
                i += 1
        else:
            out.append(text[i]); i += 1
    return "".join(out)


class Lean:
    """Proof side: build the property's modules, audit axioms, grep for forbidden constructs."""

    def __init__(self):
        self.log = []

    def build(self, targets):
        rc, out = sh(["lake", "build"] + targets, cwd=LEAN, timeout=3000)
        self.log.append(out[-4000:])
        return rc == 0, out

    def audit(self, modules, theorems):
        """`#print axioms` on every theorem; returns {theorem: [axioms] | None if missing}."""
        src = "".join(f"import {m}\n" for m in modules)
        src += "".join(f"#print axioms {t}\n" for t in theorems)
        os.makedirs(WORK, exist_ok=True)
        path = os.path.join(WORK, f"audit_{os.getpid()}.lean")
        open(path, "w").write(src)
        rc, out = sh(["lake", "env", "lean", path], cwd=LEAN, timeout=1200)
        os.remove(path)
        res = {t: None for t in theorems}
        for m in re.finditer(r"^'(.+)' depends on axioms: \[([^\]]*)\]", out, re.M):
            res[m.group(1)] = [a.strip() for a in m.group(2).replace("\n", " ").split(",") if a.strip()]
        for m in re.finditer(r"^'(.+)' does not depend on any axioms", out, re.M):
            res[m.group(1)] = []
        return res, out

    def grep_forbidden(self):
        hits = []
        for dp, _, fs in os.walk(os.path.join(LEAN, "Hpbf")):
            for f in fs:
                if f.endswith(".lean"):
                    p = os.path.join(dp, f)
                    text = strip_lean_comments(open(p).read())
                    for m in FORBIDDEN.finditer(text):
                        hits.append(f"{os.path.relpath(p, LEAN)}: {m.group(0).strip()}")
        for f in ["Main.lean"]:
            text = strip_lean_comments(open(os.path.join(LEAN, f)).read())
            for m in FORBIDDEN.finditer(text):
                hits.append(f"{f}: {m.group(0).strip()}")
        return hits


class Driver:
    """The Lean model behind the line protocol."""

    def __init__(self):
        self.bin = os.path.join(LEAN, ".lake", "build", "bin", "driver")

    def run_file(self, req_path, out_path, timeout=3000):
        with open(req_path, "rb") as fi, open(out_path, "wb") as fo:
            try:
                r = subprocess.run([self.bin], stdin=fi, stdout=fo, stderr=subprocess.PIPE, timeout=timeout)
                return r.returncode == 0
            except subprocess.TimeoutExpired:
                return False

    def ask(self, lines, timeout=600):
        for _ in range(60):          # the executable is replaced (briefly absent) while a concurrent `lake build` links it
            if os.path.exists(self.bin):
                break
            time.sleep(2)
        r = subprocess.run([self.bin], input=("\n".join(lines) + "\n").encode(), capture_output=True, timeout=timeout)
        return r.stdout.decode().split("\n")[: len(lines)]


class Harness:
    """Implementation side: the Rust crate calling /repo in-process (feature `verif`)."""

    def __init__(self, profile="debug", binary="verif-harness", env=None):
        self.profile = profile
        self.bin = os.path.join(HARNESS, "target", profile, binary)
        self.env = env

    def build(self):
        cmd = ["cargo", "build", "--offline"] + (["--release"] if self.profile == "release" else [])
        rc, out = sh(cmd, cwd=HARNESS, timeout=3000)
        return rc == 0, out

    def run(self, suite, seed, count, outdir, timeout=3000):
        rc, out = sh([self.bin, suite, str(seed), str(count), outdir], timeout=timeout, env=self.env)
        return rc, out

    def replay(self, name, reqfile, outdir, timeout=600):
        rc, out = sh([self.bin, "replay", name, reqfile, outdir], timeout=timeout, env=self.env)
        return rc, out


def read_lines(path):
    if not os.path.exists(path):
        return []
    with open(path, "r", errors="replace") as f:
        return f.read().split("\n")[:-1]


def diff_streams(reqs, impls, models):
    """Indices where implementation and model replies differ."""
    n = min(len(reqs), len(impls), len(models))
    bad = [i for i in range(n) if impls[i] != models[i] and impls[i] != "skipped"]
    if not (len(reqs) == len(impls) == len(models)):
        bad.append(-1)   # length mismatch: a side crashed or was cut short
    return bad


def unhex(s):
    return b"" if s == "-" else bytes.fromhex(s)


def hexs(b):
    return "-" if len(b) == 0 else b.hex()


def balanced(code):
    d = 0
    for c in code:
        if c == ord("["):
            d += 1
        elif c == ord("]"):
            d -= 1
            if d < 0:
                return False
    return d == 0


def shrink_bytes(code, interesting, max_tests=400):
    """Delta-debugging on a byte string; `interesting(candidate) -> bool`."""
    tests = [0]

    def ok(c):
        if tests[0] >= max_tests:
            return False
        tests[0] += 1
        return interesting(c)

    n = 2
    while len(code) >= 2 and tests[0] < max_tests:
        chunk = max(1, len(code) // n)
        changed = False
        i = 0
        while i < len(code):
            cand = code[:i] + code[i + chunk:]
            if cand != code and ok(cand):
                code = cand; changed = True
            else:
                i += chunk
        if not changed:
            if chunk == 1:
                break
            n = min(len(code), n * 2)
    # remove matching bracket pairs
    again = True
    while again and tests[0] < max_tests:
        again = False
        for i, c in enumerate(code):
            if c == ord("["):
                d = 0
                for j in range(i, len(code)):
                    if code[j] == ord("["):
                        d += 1
                    elif code[j] == ord("]"):
                        d -= 1
                        if d == 0:
                            break
                cand = code[:i] + code[i + 1:j] + code[j + 1:]
                if ok(cand):
                    code = cand; again = True
                    break
    return code


from run import Run  # noqa: E402,F401  (kept last: run.py imports the names above)
