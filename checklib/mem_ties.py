"""Ties that need a special process environment: guard-page allocator (C06, C10) and failing allocator (C17)."""
import os

from common import Harness, sh, HARNESS, hexs, read_lines

GROW_PROGRAMS = [
    # (name, program): programs that grow the tape to the right, to the left, and both
    ("right", "++++[>++++++++<-]>[>+<-]>." + ">" * 300 + "+."),
    ("left", "+++" + "<" * 300 + "+.[-]" + "<" * 3000 + "++."),
    ("both", "+" + ">" * 200 + "+" + "<" * 600 + "+.>[>]<[<]>."),
    ("scan", "+[>+]" if False else "++++++++[>++++++++<-]>[>+>+<<-]>>[<]<."),
    ("walk", "++++++++++[[->+<]>-]" + "+."),
]


def c17_allocfail(run, harnesses):
    """Every tape growth request (and the interpreter context allocation) is made to fail in turn; the
    process must end by the allocation-failure abort or a panic, or (request index beyond the last
    allocation) complete with the canonical output. A segmentation fault or a wrong output is a violation."""
    binary = os.path.join(HARNESS, "target", "debug", "guard")
    ks = range(1, 7) if run.tier == "quick" else range(1, 15)
    widths = ["8", "64"] if run.tier == "quick" else ["8", "16", "32", "64"]
    levels = ["0", "2"] if run.tier == "quick" else ["0", "1", "2", "3"]
    stats = dict(aborted=0, panicked=0, completed=0)
    fails = []
    for name, prog in GROW_PROGRAMS:
        hx = hexs(prog.encode())
        for w in widths:
            can = run.driver.ask([f"bftrace {w} 3000000 in=none out=none {hx}"])[0].split()
            want = "".join(e[1:] for e in (can[1].split(",") if len(can) > 1 and can[1] != "-" else [])) or "-"
            for be in ["inplace", "irint", "bcint", "basejit"]:
                for lvl in levels:
                    for k in ks:
                        rc, out = sh([binary, "failrun", w, be, lvl, hx], timeout=120, env={"ALLOC_FAIL": str(k)})
                        run.evaluations += 1
                        tag = f"{name}/{be}/O{lvl}/w{w}/fail#{k}"
                        if rc in (134, -6):
                            stats["aborted"] += 1
                            run.nontrivial.add(tag)
                        elif rc == 101:
                            stats["panicked"] += 1
                            run.nontrivial.add(tag)
                        elif rc == 0 and "completed" in out:
                            stats["completed"] += 1
                            got = out.split("out=")[-1].strip()
                            if got != want:
                                fails.append(f"{tag}: completed with output {got[:60]} but canonical {want[:60]} (continued after a failed allocation?)")
                        else:
                            fails.append(f"{tag}: process ended with rc={rc} (signal/crash) instead of an allocation-failure abort: {out[-200:]!r}")
    run.stream_stats["alloc_failure_runs"] = stats
    run.samples.append({"stream": "allocfail", "request": "guard failrun 8 bcint 0 <right-growing program> with ALLOC_FAIL=2", "reply": "SIGABRT (memory allocation of N bytes failed)"})
    run.oblige(f"fault-injection stream allocfail: {sum(stats.values())} runs end by abort/panic or complete correctly", not fails,
               f"{len(fails)} bad endings" if fails else "")
    for f in fails[:3]:
        run.violations.append(dict(what=f, stream="allocfail", request=f, found=True, key="alloc-null"))


def c06_guard(run, harnesses):
    """The behavioural suites again, with every tape buffer (and interpreter context) flush against an
    inaccessible page on the left or on the right: any access outside the owned allocation faults."""
    n = 400 if run.tier == "quick" else 5000      # the guard allocator maps a fresh region per allocation: ~10 programs/s
    for side in ["left", "right"]:
        h = Harness("debug", binary="guard", env={"GUARD": side})
        for suite, judge, cnt in [("e2e", "program", n), ("roam", "program", n // 2)]:
            name = f"{suite}_guard_{side}"
            reqs, impls, models = run.run_stream(h, name, suite=suite, count=cnt, timeout=9000)
            run.judge_stream(h, name, judge, reqs, impls, models)


BIGSTEP = [
    # single steps of more than 2^29 cells (8-bit cells: address space only, the pages are never touched)
    "mem 8 w0:1 a0:536871912 c536871911 c536871000 r0 w536871900:7 r536871900 r0 c536871912",
    "mem 8 w5:9 m600000000 w0:3 r0 r-599999995 c0 a-5:5 c-5 c4 m-600000000 r5",
    "mem 8 w0:1 a-536872000:1 c-536871999 c-536872000 r0 w-536871990:4 r-536871990 r0",
    "mem 8 w0:2 a0:1073741900 c1073741899 w1073741890:5 r1073741890 r0",
]


def c09_bigstep(run, harnesses):
    """Call histories with a single step beyond 2^29 cells, run on the real `Memory` only: the Lean model keeps the
    buffer as an `Array` and cannot execute them, so these are judged by the harness's own property-level oracle
    (a range made accessible checks true at both ends and on its first 64 cells; reads return the last value
    written to that logical cell or 0; reads never change the layout) — an oracle failure is a violation with the
    history as its replay."""
    h = harnesses.get("debug") or list(harnesses.values())[0]
    d = os.path.join(run.work, "c09_bigstep")
    os.makedirs(d, exist_ok=True)
    rq = os.path.join(d, "bigstep_input.txt")
    open(rq, "w").write("\n".join(BIGSTEP) + "\n")
    rc, out = h.replay("big", rq, d, timeout=300)
    impls = read_lines(os.path.join(d, "big.impl")) if rc == 0 else []
    fails = []
    if rc != 0 or len(impls) != len(BIGSTEP):
        fails.append((BIGSTEP[0], f"harness replay of the big-step histories ended with rc={rc}, {len(impls)} replies: {out[-200:]!r}"))
    for r, i in zip(BIGSTEP, impls):
        run.evaluations += 1
        run.nontrivial.add(r)
        if "ORACLE-FAIL" in i:
            fails.append((r, f"{r}: " + i[i.index("ORACLE-FAIL"):][:300]))
    run.samples.append({"stream": "c09_bigstep", "request": BIGSTEP[0], "reply": (impls[0][:200] if impls else "")})
    run.oblige(f"oracle stream c09_bigstep: {len(BIGSTEP)} histories with single steps beyond 2^29 cells satisfy the shadow-map oracle",
               not fails, fails[0][1][:300] if fails else "")
    for r, f in fails[:3]:
        run.violations.append(dict(what=f, stream="c09_bigstep", request=r, impl="", model="", found=True, key="bigstep"))
