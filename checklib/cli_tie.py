"""C16 black-box tie: run the real `hpbf` binary on generated command lines and compare with the Lean
model `Cli.parseArgs`/`Cli.action` (through the driver) and the canonical semantics."""
import os, random, subprocess, tempfile, shutil, json

from common import sh, REPO, WORK, hexs
from judges import parse_spec

PROGRAMS = [
    "+++.", ",.", ",[.,]", "++[>+++<-]>.", "+[-]", "-.", ">+<.>.", "++++++++[>++++++++<-]>+.",
    "[-]", ",>,<.>.", "+[>+<-]>.", "++[>++[>++<-]<-]>>.", ",----------[++++++++++.,----------]",
]
FRAGS = ["+", "-", ".", ",", ">", "<", "[-]", "+.", "hello", "-O9", "-x", " ", "é", "[", "]", "[.]"]


def build_cli(profile):
    tdir = os.path.join(WORK, "cli_target")
    cmd = ["cargo", "build", "--offline", "--manifest-path", os.path.join(REPO, "Cargo.toml"),
           "--target-dir", tdir, "--bin", "hpbf"] + (["--release"] if profile == "release" else [])
    rc, out = sh(cmd, timeout=3000)
    return rc == 0, os.path.join(tdir, profile, "hpbf"), out


def hx(s):
    return hexs(s.encode("utf-8"))


def add_existing(args, files):
    """An argument that happens to name something that exists in the working directory (e.g. the fragment "." is
    the current directory: `File::open` succeeds, `read_to_string` fails) is described to the model as it is."""
    for a in args:
        if a in files or not a:
            continue
        if os.path.isdir(a):
            files[a] = ("utf8", "")
        elif os.path.isfile(a):
            try:
                files[a] = ("ok", open(a, encoding="utf-8").read())
            except Exception:
                files[a] = ("utf8", "")


LOOPY = ["+[.+]", "-[.-]", "++++++++[>++++++++<-]>[.-]", ",[.-]", "+[.+]+[.+]", "++++[>++++[>++++<-]<-]>>[.-]"]


def gen_case(rnd, tmpdir, idx):
    """Random command line: flags in random order with repeats, files, bare code arguments."""
    files = {}
    args = []
    if rnd.random() < 0.2:
        # budget-focused command line: a small --limit, possibly together with --static (the limit wins), on a
        # program that writes far more than the budget allows
        parts = [["--limit", rnd.choice(["1", "2", "5", "20"])], [rnd.choice(LOOPY)]]
        if rnd.random() < 0.6:
            parts.append(["--static"])
        if rnd.random() < 0.7:
            parts.append([rnd.choice(["--inplace", "--ir-int", "--bc-int", "--base-jit"])])
        if rnd.random() < 0.5:
            parts.append([rnd.choice(["-O0", "-O1", "-O2", "-O3"])])
        if rnd.random() < 0.3:
            parts.append([rnd.choice(["-i8", "-i16", "-i32", "-i64"])])
        rnd.shuffle(parts)
        args = [a for p in parts for a in p]
        stdin = bytes(rnd.randint(1, 255) for _ in range(rnd.randint(0, 2)))
        return args, files, stdin
    n = rnd.randint(1, 7)
    code_parts = 0
    for _ in range(n):
        r = rnd.random()
        if r < 0.14:
            args.append(rnd.choice(["-i8", "-i16", "-i32", "-i64"]))
        elif r < 0.30:
            args.append(rnd.choice(["--inplace", "--ir-int", "--bc-int", "--base-jit", "--base-jit", "--bc-int",
                                    "--print-ir", "--print-bc", "--print-jit-bc", "--print-jit-mc"]))
        elif r < 0.42:
            args.append(rnd.choice(["-O0", "-O1", "-O2", "-O3", "-O4", "-O5"]))
        elif r < 0.50:
            args += ["--limit", rnd.choice(["0", "1", "5", "1000", "100000", "x", "-3", "+7", "99999999999999999999", ""])]
        elif r < 0.53:
            args.append("--limit" if rnd.random() < 0.5 else "--static")
        elif r < 0.56:
            args.append(rnd.choice(["-h", "--help", "-help"]))
        elif r < 0.70:
            kind = rnd.random()
            name = os.path.join(tmpdir, f"f{idx}_{len(files)}.b")
            if kind < 0.7:
                content = rnd.choice(PROGRAMS) if rnd.random() < 0.7 else rnd.choice(FRAGS)
                open(name, "w").write(content)
                files[name] = ("ok", content)
            elif kind < 0.85:
                files[name] = ("open", "")          # missing file
            else:
                open(name, "wb").write(b"+\xff\xfe.")  # invalid UTF-8
                files[name] = ("utf8", "")
            args += [rnd.choice(["-f", "--file", "-file"]), name]
            code_parts += 1
        elif r < 0.72:
            args.append("-f")
        else:
            args.append(rnd.choice(PROGRAMS) if rnd.random() < 0.6 else rnd.choice(FRAGS))
            code_parts += 1
    add_existing(args, files)
    stdin = bytes(rnd.randint(0, 255) for _ in range(rnd.randint(0, 4)))
    return args, files, stdin


def model_query(driver, args, files):
    toks = ["cli"]
    for name, (k, content) in files.items():
        toks.append(f"f:{hx(name)}:{k}:{hx(content)}")
    for a in args:
        toks.append("a:" + hx(a))
    rep = driver.ask([" ".join(toks)])[0]
    if rep.startswith("bad"):
        return None
    d = dict(p.split("=", 1) for p in rep.split(" "))
    d["code"] = bytes.fromhex(d["code"]) if d["code"] != "-" else b""
    d["stderr"] = [] if d["stderr"] == "-" else [bytes.fromhex(x).decode("utf-8", "replace") if x != "-" else "" for x in d["stderr"].split("|")]
    return d


def canonical_out(driver, bits, stdin, code, fuel=400000):
    ins = "in=-" if not stdin else "in=" + ",".join(f"b{b:02x}" for b in stdin)
    rep = driver.ask([f"bftrace {bits} {fuel} {ins} out=none {hexs(code)}"])[0].split()
    if not rep:
        return ("error", b"")
    out = bytes(int(e[1:], 16) for e in (rep[1].split(",") if len(rep) > 1 and rep[1] != "-" else []) if e.startswith("o"))
    return (rep[0], out)


def inplace_limited_out(driver, bits, stdin, code, limit, fuel=400000):
    """Output of the Lean model of the in-place interpreter under `--limit` (None when the model gives no verdict)."""
    ins = "in=-" if not stdin else "in=" + ",".join(f"b{b:02x}" for b in stdin)
    rep = driver.ask([f"inplace {bits} 1 {limit} {fuel} {ins} out=none {hexs(code)}"])[0].split()
    if not rep or rep[0] not in ("ok", "interrupted"):
        return None
    return bytes(int(e[1:], 16) for e in (rep[1].split(",") if len(rep) > 1 and rep[1] != "-" else []) if e.startswith("o"))


def expected_and_compare(driver, binary, args, files, stdin, timeout=10):
    """Returns (None | failure description, nontrivial?)."""
    m = model_query(driver, args, files)
    if m is None:
        return "model rejected the request", False
    try:
        r = subprocess.run([binary] + args, input=stdin, capture_output=True, timeout=timeout)
    except subprocess.TimeoutExpired:
        a = m["action"].split(":")
        if a[0] == "exec" and a[4] != "none" and int(a[4]) <= 100000:
            # the flags select a budget-limited run: it has to return in time bounded by the budget
            return (f"args={args!r} stdin={stdin.hex()}: the command line selects --limit {a[4]} "
                    f"but the process did not return within {timeout} s (limit not applied?)"), True
        return None, False    # long-running program without a limit: not judged here
    out, err, rc = r.stdout, r.stderr.decode("utf-8", "replace").split("\n")[:-1], r.returncode
    act = m["action"].split(":")
    desc = f"args={args!r} stdin={stdin.hex()}"
    # diagnostics of the argument loop come first on stderr, in order
    if err[: len(m["stderr"])] != m["stderr"]:
        return f"{desc}: stderr {err!r} does not start with the expected diagnostics {m['stderr']!r}", True
    rest_err = err[len(m["stderr"]):]
    if m["time"] == "true":
        # `time: ...` is appended to stdout; strip the last line
        idx = out.rfind(b"time: ")
        if idx < 0:
            return f"{desc}: --time given but no time line", True
        out = out[:idx]
    if act[0] == "help":
        if rc != int(act[1]) or not out.startswith(b"Usage:"):
            return f"{desc}: help expected (exit {act[1]}), got exit {rc} stdout {out[:40]!r}", True
        return None, True
    if act[0] == "nothing":
        if rc != 1 or out != b"":
            return f"{desc}: file error must exit 1 without output, got exit {rc} stdout {out[:40]!r}", True
        return None, True
    try:
        text = m["code"].decode("utf-8")
    except UnicodeDecodeError:
        return None, False
    spec = parse_spec(list(text))
    diag = {"notopened": "error: unbalanced brackets, loop not opened", "notclosed": "error: unbalances brackets, loop not closed"}
    if act[0] == "print":
        if spec[0] != "ok":
            if rc != 1 or rest_err[-1:] != [diag[spec[0]]] or out != b"":
                return f"{desc}: print kind with unbalanced code must exit 1 with diagnostic, got exit {rc} stderr {rest_err!r}", True
            return None, True
        if rc != 0 or rest_err:
            return f"{desc}: print kind must exit 0 silently, got exit {rc} stderr {rest_err!r}", True
        can = canonical_out(driver, 8, stdin, m["code"])
        # printing must not execute: the output is a listing, not the program's output
        if can[0] == "ok" and can[1] and out == can[1] and act[1] != "print-jit-mc":
            return f"{desc}: print kind produced exactly the program's output (executed?)", True
        return None, True
    # exec
    kind, bits, opt, limit, mode = act[1], int(act[2]), int(act[3]), act[4], act[5]
    if spec[0] != "ok":
        if kind == "inplace":
            return None, False      # the in-place interpreter only fails when it reaches the bracket (C04/C12)
        if rc != 1 or rest_err[-1:] != [diag[spec[0]]] or out != b"":
            return f"{desc}: unbalanced code on a parsing back end must exit 1 with '{diag[spec[0]]}' and no output, got exit {rc} stderr {rest_err!r} stdout {out[:30]!r}", True
        return None, True
    can = canonical_out(driver, bits, stdin, m["code"])
    if rc != 0 or rest_err:
        return f"{desc}: expected exit 0 without diagnostics, got exit {rc} stderr {rest_err!r}", True
    if can[0] == "ok":
        if limit == "none":
            if out != can[1]:
                return f"{desc}: stdout {out[:60]!r} but the canonical run of the concatenated code {text!r} at {bits} bit writes {can[1][:60]!r}", True
        else:
            if kind == "inplace":
                exp = inplace_limited_out(driver, bits, stdin, m["code"], int(limit))
                if exp is not None and out != exp:
                    return f"{desc}: in-place run with --limit {limit} wrote {out[:60]!r}, the model of the limited in-place run writes {exp[:60]!r}", True
            dots = text.count(".")
            if int(limit) >= 1 and len(out) > (int(limit) + 2) * max(dots, 1) + 2:
                # every back end charges at least one unit per executed branch / loop iteration, and between two
                # charges straight-line code runs, which executes each `.` of the text at most once
                return (f"{desc}: run with --limit {limit} wrote {len(out)} bytes; at most ({limit}+2)*{max(dots,1)}+2 are possible "
                        f"when every branch is charged (limit not applied?)"), True
            if not can[1].startswith(out):
                return f"{desc}: limited run wrote {out[:60]!r}, not a prefix of canonical {can[1][:60]!r}", True
            if int(limit) >= 400000 and out != can[1]:
                return f"{desc}: budget {limit} is ample but output {out[:60]!r} != canonical {can[1][:60]!r}", True
    elif can[0] == "fuel":
        if not (can[1].startswith(out) or out.startswith(can[1])):
            return f"{desc}: output {out[:60]!r} inconsistent with canonical prefix {can[1][:60]!r}", True
    return None, len(can[1]) > 0


def c16_cli(run, harnesses):
    profiles = ["debug"] if run.tier == "quick" else ["debug", "release"]
    count = 250 if run.tier == "quick" else 6000
    for profile in profiles:
        ok, binary, out = build_cli(profile)
        run.oblige(f"cargo build hpbf binary ({profile}) from /repo working tree", ok, out[-1000:] if not ok else "")
        if not ok:
            continue
        tmpdir = tempfile.mkdtemp(prefix="cli_", dir=run.work)
        rnd = random.Random(run.seed * 1000003 + (1 if profile == "release" else 0))
        fails = []
        kinds = {}
        for i in range(count):
            args, files, stdin = gen_case(rnd, tmpdir, i)
            if "--static" in args and any(a in ("-i16", "-i32", "-i64") for a in args):
                continue        # --static pre-allocates 2^29 cells: judged at 8 bit only (512 MiB of address space)
            v, nontriv = expected_and_compare(run.driver, binary, args, files, stdin)
            run.evaluations += 1
            if nontriv:
                run.nontrivial.add(json.dumps([args, stdin.hex()]))
            for a in args:
                if a.startswith("--") or a.startswith("-O") or a.startswith("-i"):
                    kinds[a] = kinds.get(a, 0) + 1
            if i < 2:
                run.samples.append({"stream": f"cli_{profile}", "request": " ".join(args)[:300], "reply": "checked"})
            if v:
                fails.append((v, args, files, stdin))
        # a few --static runs (8 bit only: 512 MiB of address space)
        for prog in ["+++.", ",[.,]"]:
            for be in ["--bc-int", "--base-jit"]:
                args = ["--static", be, prog]
                v, _ = expected_and_compare(run.driver, binary, args, {}, b"ab")
                run.evaluations += 1
                if v:
                    fails.append((v, args, {}, b"ab"))
        run.stream_stats[f"cli_{profile}"] = kinds
        run.oblige(f"black-box stream cli_{profile}: {count} command lines, binary behaves as Cli model + canonical semantics",
                   not fails, f"{len(fails)} mismatches" if fails else "")
        for v, args, files, stdin in fails[:3]:
            run.violations.append(dict(what=v, stream=f"cli_{profile}",
                                       request="cli-args " + json.dumps(dict(args=args, stdin=stdin.hex(),
                                                                             files={k: list(vv) for k, vv in files.items()})),
                                       found=True, key=" ".join(args)))
        shutil.rmtree(tmpdir, ignore_errors=True)
