"""Judges: decide whether a disagreement (or any case) violates the PROPERTY itself, search for a
witness when only the tie broke, and shrink witnesses. The oracle is always the Lean canonical
semantics (`bftrace` of the driver) or an abstract spec evaluated here — never another back end."""
import os, re

from common import unhex, hexs, balanced, shrink_bytes, read_lines, Harness


def one_case(run, harness, req, tag="judge"):
    """Run one request through the implementation and the model; returns (impl, model)."""
    d = os.path.join(run.work, tag)
    os.makedirs(d, exist_ok=True)
    rq = os.path.join(d, "one.req")
    open(rq, "w").write(req + "\n")
    rc, out = harness.replay("one", rq, d, timeout=60)
    impls = read_lines(os.path.join(d, "one.impl"))
    reqs = read_lines(os.path.join(d, "one.req"))
    if rc != 0 or not impls:
        return ("crash-or-hang rc=%d" % rc, "")
    models = run.driver.ask(reqs[:1], timeout=120)
    return impls[0], (models[0] if models else "")


class Judge:
    shrink = None

    def nontrivial(self, req, impl):
        return True

    def oracle(self, run, req, impl):
        return None

    def decide(self, run, harness, req, impl, model):
        return None

    def search(self, run, harness, name):
        return None

    def key(self, req):
        return req


# ------------------------------------------------------------------------------------ data suites

def cell_spec(req, impl):
    """Algebraic spec of the cell helpers, evaluated independently of the model."""
    t = req.split()
    if len(t) < 4 or t[0] != "cell":
        return None
    w = int(t[1]); op = t[2]; a = int(t[3]); b = int(t[4]) if len(t) > 4 else 0
    M = 1 << w
    a %= M
    sgn = lambda x: x - M if x >= M // 2 else x

    def want():
        if op == "pow":
            return str(pow(a, b % M, M))
        if op == "inv":
            return str(pow(a, -1, M)) if a % 2 == 1 else "none"
        if op == "div":
            n, d = a, b % M
            if n == 0:
                return "0"
            if d == 0:
                return "none"
            s = (d & -d).bit_length() - 1
            if n % (1 << s) != 0:
                return "none"
            x = (n >> s) * pow(d >> s, -1, M >> s) % (M >> s)
            return str(x)    # least solution: solutions are x + k * 2^(w-s)
        if op == "tz":
            return str(w if a == 0 else (a & -a).bit_length() - 1)
        if op == "shr":
            return str(a >> b if b < w else 0)
        if op == "shl":
            return str((a << b) % M if b < w else 0)
        if op == "odd":
            return "true" if a & 1 else "false"
        if op == "intou64":
            return str(a)
        if op == "intoi64":
            return str(sgn(a) % (1 << 64))
        if op == "fromu64":
            return str(int(t[3]) % M)
        if op == "fromu8":
            return str((int(t[3]) % 256) % M)
        if op == "intou8":
            return str(a % 256)
        if op == "fromi16":
            v = int(t[3]) % 65536
            v = v - 65536 if v >= 32768 else v
            return str(v % M)
        if op == "tryi16":
            v = sgn(a)
            return str(v % 65536) if -32768 <= v <= 32767 else "none"
        return None
    wnt = want()
    if wnt is not None and wnt != impl:
        return f"{req}: implementation returns {impl}, the algebraic contract gives {wnt}"
    return None


def token_shrink(run, harness, req, header, interesting):
    toks = req.split()
    head, body = toks[:header], toks[header:]
    tail = []
    if body and body[-1] == "end":
        tail = ["end"]; body = body[:-1]
    changed = True
    tests = 0
    while changed and tests < 300:
        changed = False
        for i in range(len(body)):
            cand = body[:i] + body[i + 1:]
            r2 = " ".join(head + cand + tail)
            tests += 1
            imp, mod = one_case(run, harness, r2, "shrink")
            if "bad-request" in imp or imp.startswith("crash"):
                continue
            if interesting(r2, imp, mod):
                body = cand; changed = True
                break
    r2 = " ".join(head + body + tail)
    imp, mod = one_case(run, harness, r2, "shrink")
    return r2, imp, mod


class DataJudge(Judge):
    def __init__(self, header, suite, spec=None):
        self.header = header
        self.suite = suite
        self.spec = spec

    def nontrivial(self, req, impl):
        return len(req.split()) > self.header

    def oracle(self, run, req, impl):
        if "ORACLE-FAIL" in impl:
            return f"{req[:300]}: " + impl[impl.index("ORACLE-FAIL"):][:300]
        if self.spec:
            return self.spec(req, impl)
        return None

    def decide(self, run, harness, req, impl, model):
        return self.oracle(run, req, impl)

    def search(self, run, harness, name):
        # look at more cases for one that violates the property-level oracle
        d = os.path.join(run.work, name + "_search")
        rc, out = harness.run(self.suite, run.seed + 104729, 20000 if self.suite != "cell" else 5000, d, timeout=600)
        reqs = read_lines(os.path.join(d, self.suite + ".req"))
        impls = read_lines(os.path.join(d, self.suite + ".impl"))
        for r, i in zip(reqs, impls):
            v = self.oracle(run, r, i)
            if v:
                return dict(request=r, impl=i, model="", verdict=v)
        return None

    def shrink(self, run, harness, req, impl, model):
        if self.suite == "cell":
            return req, impl, model
        return token_shrink(run, harness, req, self.header,
                            lambda r, i, m: self.oracle(run, r, i) is not None)


# --------------------------------------------------------------------------------- program suites

def parse_prog_req(req):
    """Fields of a program request: kind, width, env tokens, program bytes, plus mode info."""
    t = req.split()
    if not t:
        return None
    k = t[0]
    if k == "bftrace":
        return dict(kind=k, w=t[1], fuel=t[2], sin=t[3], sout=t[4], code=unhex(t[5]))
    if k in ("inplace", "irrun"):
        return dict(kind=k, w=t[1], lim=t[2], budget=t[3], fuel=t[4], sin=t[5], sout=t[6], code=unhex(t[7]))
    if k == "irparse":
        return dict(kind=k, w=t[1], code=unhex(t[2]))
    return None


def build_prog_req(f, code):
    if f["kind"] == "bftrace":
        fuel = max(int(f["fuel"]), 100000)
        return f"bftrace {f['w']} {fuel} {f['sin']} {f['sout']} {hexs(code)}"
    if f["kind"] in ("inplace", "irrun"):
        return f"{f['kind']} {f['w']} {f['lim']} {f['budget']} {f['fuel']} {f['sin']} {f['sout']} {hexs(code)}"
    if f["kind"] == "irparse":
        return f"irparse {f['w']} {hexs(code)}"


def canonical(run, f, code, fuel=3000000):
    """Canonical events of the program from the Lean semantics: ('ok', trace) | ('fuel', trace) | ('unbalanced', '')."""
    rep = run.driver.ask([f"bftrace {f['w']} {fuel} {f['sin']} {f['sout']} {hexs(code)}"], timeout=300)[0]
    p = rep.split()
    if not p:
        return ("error", "")
    return (p[0], p[1] if len(p) > 1 else "")


def is_prefix(tr, full):
    if tr == "-":
        return True
    if full == "-":
        return False
    a, b = tr.split(","), full.split(",")
    return a == b[: len(a)]


class ProgramJudge(Judge):
    """Executors compared with the canonical Lean semantics."""

    def nontrivial(self, req, impl):
        p = impl.split()
        return len(p) > 1 and p[1] != "-"      # at least one I/O event

    def verdict(self, run, f, code, impl):
        kind = f["kind"]
        if kind == "irparse":
            return None
        can = canonical(run, f, code)
        p = impl.split()
        tag, trace = (p[0], p[1]) if len(p) > 1 else (p[0] if p else "", "")
        prog = code.decode("utf-8", "replace")
        if can[0] == "unbalanced":
            return None
        if kind == "bftrace":
            if can[0] != "ok":
                return None
            if "DISAGREE" in impl or (tag, trace) != ("ok", can[1]):
                dis = impl[impl.index("DISAGREE"):][:400] if "DISAGREE" in impl else f"all back ends: {tag} {trace[:200]}"
                return (f"program {prog!r} width {f['w']} env {f['sin']} {f['sout']}: canonical events {can[1][:200]} "
                        f"but {dis}")
            return None
        # inplace / irrun
        if tag.startswith("notopened") or tag.startswith("crash"):
            return f"program {prog!r}: balanced program gives {tag}"
        limited = f["lim"] == "1"
        if can[0] == "ok":
            if tag == "ok" and trace != can[1]:
                return (f"{kind} program {prog!r} width {f['w']} env {f['sin']} {f['sout']} "
                        f"limited={limited}: events {trace[:200]} but canonical {can[1][:200]}")
            if tag == "interrupted" and not is_prefix(trace, can[1]):
                return f"{kind} program {prog!r}: interrupted with events {trace[:200]} not a prefix of canonical {can[1][:200]}"
            if tag == "interrupted" and not limited:
                return f"{kind} program {prog!r}: unlimited run reports interrupted"
        elif can[0] == "fuel":
            if not is_prefix(trace, can[1]) and not is_prefix(can[1], trace):
                return f"{kind} program {prog!r}: events {trace[:200]} inconsistent with canonical prefix {can[1][:200]}"
        return None

    def decide(self, run, harness, req, impl, model):
        f = parse_prog_req(req)
        if not f:
            return None
        return self.verdict(run, f, f["code"], impl)

    def shrink(self, run, harness, req, impl, model):
        f = parse_prog_req(req)
        if not f or f["kind"] == "irparse":
            return req, impl, model

        def interesting(code):
            if not balanced(code):
                return False
            r2 = build_prog_req(f, code)
            imp, mod = one_case(run, harness, r2, "shrink")
            if imp in ("skipped",) or imp.startswith("crash"):
                return False
            return self.verdict(run, f, code, imp) is not None

        code = shrink_bytes(f["code"], interesting, max_tests=250)
        r2 = build_prog_req(f, code)
        imp, mod = one_case(run, harness, r2, "shrink")
        return r2, imp, mod

    def key(self, req):
        f = parse_prog_req(req)
        return f["code"].decode("utf-8", "replace") if f else req

    def search(self, run, harness, name):
        # tie broken without a property failure among the disagreeing cases: look at more programs
        d = os.path.join(run.work, name + "_search")
        rc, out = harness.run("e2e", run.seed + 15485863, 6000, d, timeout=1200)
        reqs = read_lines(os.path.join(d, "e2e.req"))
        impls = read_lines(os.path.join(d, "e2e.impl"))
        models = run.driver.ask(reqs, timeout=1200) if reqs else []
        for r, i, m in zip(reqs, impls, models):
            if i != m:
                v = self.decide(run, harness, r, i, m)
                if v:
                    return dict(request=r, impl=i, model=m, verdict=v)
        return None


def parse_spec(code_chars):
    """Declarative bracket spec on a list of characters: ('ok',) | ('notopened', i) | ('notclosed', j)."""
    stack = []
    for i, c in enumerate(code_chars):
        if c == "[":
            stack.append(i)
        elif c == "]":
            if not stack:
                return ("notopened", i)
            stack.pop()
    if stack:
        return ("notclosed", stack[-1])
    return ("ok",)


class ParseJudge(ProgramJudge):
    """C12: acceptance and error positions against the declarative bracket spec."""

    def nontrivial(self, req, impl):
        return True

    def spec_verdict(self, req, impl):
        f = parse_prog_req(req)
        if not f or f["kind"] != "irparse":
            return None
        try:
            text = f["code"].decode("utf-8")
        except UnicodeDecodeError:
            return None
        s = parse_spec(list(text))
        if s[0] == "ok":
            if not impl.startswith("B"):
                return f"balanced source {text!r} rejected: {impl[:100]}"
        else:
            want = f"{s[0]}@{s[1]}"
            if impl != want:
                return f"source {text!r}: parser reports {impl[:100]}, spec says {want}"
        return None

    def oracle(self, run, req, impl):
        return self.spec_verdict(req, impl)

    def decide(self, run, harness, req, impl, model):
        return self.spec_verdict(req, impl)

    def search(self, run, harness, name):
        d = os.path.join(run.work, name + "_search")
        rc, out = harness.run("irparse", run.seed + 32452843, 20000, d, timeout=600)
        reqs = read_lines(os.path.join(d, "irparse.req"))
        impls = read_lines(os.path.join(d, "irparse.impl"))
        for r, i in zip(reqs, impls):
            v = self.spec_verdict(r, i)
            if v:
                return dict(request=r, impl=i, model="", verdict=v)
        return None

    def shrink(self, run, harness, req, impl, model):
        f = parse_prog_req(req)

        def interesting(code):
            try:
                code.decode("utf-8")
            except UnicodeDecodeError:
                return False
            r2 = build_prog_req(f, code)
            imp, mod = one_case(run, harness, r2, "shrink")
            return self.spec_verdict(r2, imp) is not None

        code = shrink_bytes(f["code"], interesting, max_tests=200)
        r2 = build_prog_req(f, code)
        imp, mod = one_case(run, harness, r2, "shrink")
        return r2, imp, mod


class ConstJudge(Judge):
    """Streams whose model reply is fixed (the implementation must report the expected token)."""

    def decide(self, run, harness, req, impl, model):
        return f"{req[:200]}: implementation reports {impl[:400]}"

    shrink = None


class DivJudge(Judge):
    """`divchk` requests carry the Lean model's verdict; the implementation must reply `ok`."""

    def nontrivial(self, req, impl):
        return True

    def decide(self, run, harness, req, impl, model):
        t = req.split()
        if len(t) < 9 or model != "ok":
            return None       # the certificate itself did not re-check: not a verdict on the code
        code = unhex(t[4]).decode("utf-8", "replace")
        return (f"program {code!r} width {t[1]} env {t[2]} {t[3]} is certified '{t[5]}' by the canonical "
                f"semantics but: {impl[:500]}")

    def key(self, req):
        t = req.split()
        return unhex(t[4]).decode("utf-8", "replace") if len(t) > 4 else req

    def shrink(self, run, harness, req, impl, model):
        t = req.split()
        code = unhex(t[4])

        def build(c):
            # re-certify the candidate with the model
            cert = run.driver.ask([f"bfcert {t[1]} 60000 {t[2]} {t[3]} {hexs(c)}"])[0].split()
            if not cert or cert[0] not in ("halts", "diverges"):
                return None
            if cert[0] == "halts":
                return f"divchk {t[1]} {t[2]} {t[3]} {hexs(c)} halts {cert[2]} - 0"
            lp = run.driver.ask([f"bftrace {t[1]} 150000 {t[2]} {t[3]} {hexs(c)}"])[0].split()
            return f"divchk {t[1]} {t[2]} {t[3]} {hexs(c)} diverges {cert[2]} {lp[1] if len(lp) > 1 else '-'} 150000"

        def interesting(c):
            if not balanced(c):
                return False
            r2 = build(c)
            if not r2:
                return False
            imp, mod = one_case(run, harness, r2, "shrink")
            return mod == "ok" and imp.startswith("FAIL")

        c2 = shrink_bytes(code, interesting, max_tests=150)
        r2 = build(c2) or req
        imp, mod = one_case(run, harness, r2, "shrink")
        return r2, imp, mod


class WfJudge(Judge):
    """`bcwf` requests: the model's verdict on real bytecode must be `ok`; anything else is a C11 violation."""

    def decide(self, run, harness, req, impl, model):
        t = req.split()
        src = unhex(t[4]).decode("utf-8", "replace") if len(t) > 4 else "?"
        return (f"bytecode of program {src!r} (width {t[1]}, {t[2]} registers, level {t[3]}) is rejected by the verified "
                f"contract checker: {model} condition fails; bytecode: {' '.join(t[5:])[:600]}")

    def key(self, req):
        t = req.split()
        return unhex(t[4]).decode("utf-8", "replace") if len(t) > 4 else req


class BcRunJudge(ProgramJudge):
    """`bcrun`: threaded interpreter vs. `Bc.run` on the same bytecode. A disagreement breaks the tie of the
    bytecode semantics; whether the property fails is decided by the search (end-to-end vs canonical)."""

    def nontrivial(self, req, impl):
        p = impl.split()
        return len(p) > 1 and p[1] != "-"

    def decide(self, run, harness, req, impl, model):
        return None

    shrink = None

    def key(self, req):
        return req[:200]


class TieJudge(BcRunJudge):
    """Exact artefact ties (bytecode text, machine code bytes, IR echo, random-IR execution): a difference
    breaks the tie; whether the PROPERTY fails is decided by searching source programs end to end."""

    def nontrivial(self, req, impl):
        return True


JUDGES = {
    "tie": TieJudge(),
    "wf": WfJudge(),
    "bcrun": BcRunJudge(),
    "div": DivJudge(),
    "const": ConstJudge(),
    "cell": DataJudge(2, "cell", spec=cell_spec),
    "mem": DataJudge(2, "mem"),
    "sv": DataJudge(2, "sv"),
    "expr": DataJudge(3, "expr"),
    "program": ProgramJudge(),
    "parse": ParseJudge(),
}
