"""Per-property configuration: Lean modules and theorem names (the proof obligations), correspondence
streams, judges, trusted base, and the honest scope statement that goes into the evidence."""

COMMON_TRUST = [
    "Lean 4.33 kernel; axioms limited to propext, Classical.choice, Quot.sound (audited by #print axioms on every run)",
    "hand-written Lean models are tied to /repo by differential correspondence (tested, not proved); "
    "generator distribution is reported in the evidence",
    "rustc, the Rust standard library, the CPU and the OS are modelled by their documented behaviour",
]


def t(ns, names):
    return [f"{ns}.{n}" for n in names.split()]


PROPS = {}

PROPS["C14"] = dict(
    modules=["Hpbf.Props.C14"],
    theorems=t("Hpbf.C14", "pow_spec isOdd_iff inv_isSome_iff inv_mul inv_none_iff inv_eq_pow odd_pow_totient "
               "trailingZeros_zero trailingZeros_le trailingZeros_lt two_pow_dvd_iff_le_trailingZeros trailingZeros_spec "
               "div_some_iff div_none_iff div_isSome_iff fromU64_intoU64 toNat_intoU64 toInt_intoI64 toNat_fromU8 "
               "intoU8_fromU8 toInt_fromI16 fromI16_eq_setWidth fromI16_u8 tryIntoI16_some_iff tryIntoI16_none_iff "
               "fromI16_of_tryIntoI16 tryIntoI16_fromI16"),
    streams=[dict(suite="cell", quick=3000, thorough=200000, judge="cell")],
    corpus=["C14"], corpus_judge="cell",
    scope="Full: for every width w >= 1 and all operands, wrapping_pow = repeated multiplication, wrapping_inv is "
          "defined exactly on odd values and multiplies back to 1, wrapping_div returns the least solution and none "
          "iff no solution exists, conversions round-trip (w <= 64). Model Hpbf/Cell.lean mirrors src/lib.rs.",
    rule="cell requests: exhaustive at 8 bit for div (65536 pairs), inv, tz, conversions, pow on an exponent grid; "
         "boundary-biased random operands at 16/32/64 bit. A case is non-trivial if it has operands; distinct = distinct request lines.",
    trusted_base=["the four `impl CellType` blocks are instances of the generic model at w = 8/16/32/64 "
                  "(checked by the correspondence stream, exhaustively at 8 bit)"],
)

PROPS["C09"] = dict(
    modules=["Hpbf.Props.C09"],
    theorems=t("Hpbf.C09", "read_eq_cell read_no_alloc check_iff mov_cell mov_wf write_cell write_wf "
               "makeAccessible_growth makeAccessible_cell makeAccessible_offset makeAccessible_wf makeAccessible_check "
               "makeAccessible_size makeAccessible_size_ge makeAccessible_addedBelow setCurrentPtr_currentPtr "
               "checkPtr_currentPtr history_refines history_reads"),
    streams=[dict(suite="mem", quick=3000, thorough=150000, judge="mem")],
    corpus=["C09"], corpus_judge="mem",
    scope="Full under an explicit range guard (sizes, offsets and arguments below 2^59 cells, which exceeds any "
          "x86-64 user address space): Memory refines an unbounded zero-initialised array for every call history "
          "(history_refines, history_reads); growth preserves contents and the logical pointer; requested ranges are accessible afterwards.",
    not_proved="outside the range guard (where the Rust arithmetic wraps or panics) no claim is made; "
               "raw-pointer dereferences and the allocator are modelled (Array), not verified",
    rule="random call histories (mov/read/write/make_accessible/check/set_current_ptr/check_ptr) with offsets of both "
         "signs up to 1e5, both-sided growth; compared step by step incl. (size, offset) after every call; the harness "
         "also checks a shadow-map oracle (reads return last written value; reads never change the layout; "
         "make_accessible range checks true). Four fixed histories with single steps beyond 2^29 cells run on the real code only and are judged by that oracle alone (c09_bigstep; the Array-based model cannot execute them). Non-trivial = at least one operation; distinct = distinct histories.",
    trusted_base=["the buffer is modelled as an Array (copy_to_nonoverlapping, alloc_zeroed, dealloc are not verified)"],
)

PROPS["C18"] = dict(
    modules=["Hpbf.Props.C18"],
    theorems=t("Hpbf.SmallVec", "sv_constructors sv_view_eq sv_step_refines sv_refines_vec specStep_conserves "
               "specRun_conserves sv_drop_once_exact sv_drop_once sv_into_iter sv_history_then_iter sv_clone "
               "sv_viewWith sv_viewWith₂ retain_original_leaks dedup_original_leaks"),
    streams=[dict(suite="sv", quick=3000, thorough=150000, judge="sv")],
    corpus=["C18"], corpus_judge="sv",
    scope="Full: for every capacity N and every operation history, the slice view equals the Vec model, no slot is "
          "read uninitialised, nothing leaks, and the drop log equals Vec's drop log (each element exactly once), "
          "including partially consumed by-value iterators. The original retain/retain_mut/dedup leak is proved on a witness.",
    rule="random histories over three SmallVec<Tracked,N> variables, N in {0,1,2,3}: constructors, push, extend, clear, "
         "retain, retain_mut, dedup, sort, clone, ==/cmp, into_iter with k next() then drop, drop; reply = contents "
         "with element ids and the ids dropped by every operation; at the end every created id must be dropped exactly "
         "once (oracle) and contents must equal a shadow Vec (oracle). Distinct = distinct histories.",
    trusted_base=["MaybeUninit/ManuallyDrop/union semantics are modelled by explicit slot ownership"],
)

PROPS["C04"] = dict(
    modules=["Hpbf.Props.C04", "Hpbf.Props.ChainTotal"],
    theorems=t("Hpbf.Chain", "same_inplace level0_all_backends") +
             t("Hpbf.C04", "inplace_forward inplace_forward_stopped inplace_events_eq inplace_backward "
               "inplace_backward_stopped inplace_never_notOpened inplace_never_interrupted_unlimited inplace_prefix "
               "inplace_prefix_conv inplace_output_is_canonical_prefix inplace_limited inplace_limited_terminates "
               "inplace_limited_enough inplace_limited_enough_stopped bf_fuel_mono bf_deterministic bf_trace_mono "
               "inplace_fuel_mono inplace_deterministic") + ["Hpbf.tree_sound", "Hpbf.tree_complete", "Hpbf.scan_finds_match"],
    streams=[dict(suite="inplace", quick=2500, thorough=100000, judge="program")],
    corpus=["programs"], corpus_judge="program",
    scope="Full: for every bracket-balanced byte string, every environment (inputs, failing reads/writes) and every "
          "width, the in-place interpreter model and the canonical semantics reach EQUAL final states (hence equal "
          "events), in both directions (termination reflected), every intermediate output is a canonical prefix, and "
          "limited mode yields a prefix / the full run with an explicit sufficient budget.",
    rule="programs from four generators (token-level, IR-first structured, roaming, arbitrary text incl. unbalanced and "
         "multi-byte), 1 in 5 with comments interleaved; 4 widths; environments with failing reads/writes, absent "
         "source/sink; limited with 8 budgets and unlimited; compared on result kind, event trace, 9-cell tape window "
         "around the final pointer and remaining budget. Non-trivial = at least one I/O event; distinct = distinct requests.",
    trusted_base=["Memory is abstracted by the Tape of Hpbf/Bf.lean (justified by C09)"],
)

PROPS["C12"] = dict(
    modules=["Hpbf.Props.C12", "Hpbf.Props.C04"],
    theorems=t("Hpbf.C12", "spec_balanced_iff spec_firstUnmatchedClose spec_innermostUnclosed parse_ok_iff_balanced "
               "tree_isSome_iff_balanced parse_ok_iff_tree_isSome parse_error_spec parse_error_of_unbalanced "
               "parse_error_iff parse_strip_ok parse_strip_err parse_strip_eq tree_strip parse_ok_congr "
               "parse_err_kind_congr tree_congr utf8_kinds_char' utf8_kinds tree_bytes_eq_tree_chars parse_invariant "
               "parseStep_unreachable_arm parse_unreachable_arm") + ["Hpbf.C04.inplace_never_notOpened"],
    streams=[dict(suite="irparse", quick=4000, thorough=200000, judge="parse"),
             dict(suite="inplace", quick=1500, thorough=50000, judge="program")],
    corpus=["parse"], corpus_judge="parse",
    scope="Full on the parser model: accepts iff balanced; error kind and character position equal the declarative "
          "spec; stripping comment characters leaves the IR unchanged and moves error positions by the number of "
          "removed characters; no byte of a multi-byte UTF-8 sequence is a command (bytes vs chars views agree); the "
          "models are total (no panic outcome).",
    not_proved="'moderate nesting depth' (recursive Drop of nested blocks, native stack use) is runtime behaviour "
               "outside the model; it is exercised by the C13 check",
    rule="arbitrary Unicode text with brackets (1/3), generated programs with comment characters (incl. 2-4 byte "
         "UTF-8) interleaved; structural comparison of the parsed IR or of the error (kind, char index) with the "
         "model, and with the declarative bracket spec (oracle, evaluated in the check). Distinct = distinct sources.",
    trusted_base=["chars() of the Rust &str = String.toList of the decoded UTF-8 in Lean"],
)

PROPS["C15"] = dict(
    modules=["Hpbf.Props.C15"],
    theorems=t("Hpbf.C15", "value_val value_var value_add value_mul value_neg value_half value_normalize "
               "value_symbEvaluate symbEvaluate_defined symbEvaluate_none_iff value_mulParts constant_recompose "
               "identity_recompose constIncOf_recompose prodOf_recompose incOf_recompose prodIncOf_recompose "
               "constantPart_recompose incOf_fresh prodIncOf_fresh canon_implies_weakCanon preserve_val preserve_var "
               "preserve_add preserve_mul preserve_neg preserve_half preserve_normalize preserve_symbEvaluate "
               "preserve_prodOf preserve_incOf preserve_prodIncOf built_canon C15_arithmetic C15_decompositions "
               "mul_original_breaks_normal_form"),
    streams=[dict(suite="expr", quick=4000, thorough=200000, judge="expr")],
    corpus=["C15"], corpus_judge="expr",
    scope="Full: the value of val/var/add/mul/neg/half/normalize/symb_evaluate results equals the arithmetic on the "
          "operand values for ALL part lists and every width; constant/identity/const_inc_of/prod_of recompose "
          "unconditionally; inc_of/prod_inc_of/constant_part recompose under WeakCanon, which follows from the normal "
          "form Canon that every public constructor preserves (built_canon). The defect of the original mul fast path "
          "(F9) is proved on its witness.",
    not_proved="Expr::split_along and Expr::codegen are not in this model (codegen is modelled in BcGen)",
    rule="random operation trees (postfix programs over val/var/add/mul by ref and by value/neg/half/normalize/"
         "symb_evaluate total and partial/prod_of) with boundary coefficients (0, 1, -1, 2^(w-1), 2^(w-1)±1), 4 widths; "
         "the parts are compared structurally after EVERY operation plus all queries and evaluate on an assignment; the "
         "harness additionally checks the value of each result and that every decomposition recomposes (oracle). "
         "Distinct = distinct operation trees.",
    trusted_base=["hash maps are modelled as association lists followed by the sort the Rust performs"],
)

def c01_optcheck(run, harnesses):
    """(NOT REGISTERED ANY MORE: the repaired optimizer is proved at every level without this test, and the test
    function is about the unrepaired model `Opt.optimize`, whose oracle consumption differs from the repaired Rust in
    ~0.5% of the samples.) The hypothesis of the all-level optimizer theorem, tested on real samples with the PROVED-SOUND boolean
    `OptCheck.optimizeCheck` (compiled into the driver; proved equal to the proof-side `OptProof.optimizeCheck` by
    `optimizeCheck_light'`): for generated terminating programs x levels 2,3 x environments, with
    the iteration orders the Rust run really used, the analysis every later round consumes is sound for the
    program it rebuilds. `check-ok` makes `optimize_preserves_of_check'` apply to that program and environment."""
    import os, subprocess
    from common import LEAN, read_lines
    h = harnesses.get("debug") or list(harnesses.values())[0]
    n = 600 if run.tier == "quick" else 30000
    d = os.path.join(run.work, "optcheck")
    rc, out = h.run("optcheck", run.seed + 11, n, d, timeout=3000)
    reqp = os.path.join(d, "optcheck.req")
    reqs = read_lines(reqp)
    modp = os.path.join(d, "optcheck.model")
    okd = run.driver.run_file(reqp, modp)          # compiled `OptCheck.optimizeCheck` (= the proof-side test: optimizeCheck_light')
    models = read_lines(modp) if okd else []
    err = "" if okd else "driver failed or timed out"
    okc = sum(1 for m in models if m == "check-ok")
    falsec = sum(1 for m in models if m == "check-false")
    other = [(q, m) for q, m in zip(reqs, models) if m not in ("check-ok", "check-false")]
    run.evaluations += len(reqs)
    for q in reqs:
        run.nontrivial.add(q)
    run.stream_stats["optcheck"] = dict(requests=len(reqs), check_ok=okc, check_false=falsec, other=len(other))
    if reqs:
        run.samples.append({"stream": "optcheck", "request": reqs[0][:300], "reply": (models[:1] or ["?"])[0]})
    run.oblige(f"optcheck stream: {len(reqs)} (program, level, environment) samples, runner answered every request with the "
               f"real iteration orders accepted by the model ({okc} check-ok, {falsec} check-false = hypothesis not "
               f"established for that sample, theorem silent)",
               rc == 0 and len(models) == len(reqs) and len(reqs) > 0 and not other,
               (err or "") + (f" first unexpected reply: {other[0][1][:200]} for {other[0][0][:200]}" if other else ""))
    if other:
        run.violations.append(dict(what="correspondence 'optcheck' (recorded iteration orders vs optimizer model) no longer checks: "
                                        + other[0][1][:200], stream="optcheck", request=other[0][0], found=False, key="optcheck"))



PROPS["C01"] = dict(
    modules=["Hpbf.Props.C01", "Hpbf.Props.C01Opt", "Hpbf.Props.C01Dse", "Hpbf.Props.ChainTotal", "Hpbf.Props.C01Loop", "Hpbf.Props.C01Rebuild", "Hpbf.Props.C01Rounds", "Hpbf.Props.ChainO1", "Hpbf.Props.C13Opt", "Hpbf.Props.C01Full", "Hpbf.Props.ChainOn", "Hpbf.Props.C01Fixed", "Hpbf.Props.ChainFinal", "Hpbf.Props.ChainFinal2"],
    theorems=t("Hpbf.Chain", "all_levels_all_backends_final2 all_levels_exists_final2") +
             t("Hpbf.Chain", "all_levels_all_backends behEq_final onceOk_final irAgrees_final ir_final optimizeF_zero") +
             t("Hpbf.OptProof", "optimizeF_level_le_one' optimizeF_preserves_all_levels'' optimizeF_onceOk_all_levels'' optimizeF_parse' optimizeOnceF_analIn' optimizeOnceF_analSound' dse_after_roundF' optimizeOnceF_later' optimizeF_no_panic' optimizeF_never_panics' optimizeF_total' optimizeF_canonL' optimizeF_reach' optimizeF_offsets'") +
             t("Hpbf.Chain", "anylevel_all_backends anylevel_exists level_le_one_all_backends optimize_zero optimizeCheck_level_le_one behEq_anylevel onceOk_anylevel irAgrees_anylevel ir_anylevel") +
             t("Hpbf.OptProof", "optimizeOnce_analIn_l1' optimizeOnce_analIn_g' f13_miscompile' f13_miscompile_bf' f13b_miscompile' f13_check_false' fixed_analysis_sound optimizeF_preserves_all_levels' optimizeF_onceOk_all_levels'") +
             t("Hpbf.OptProof", "optimizeOnce_preserves_g' optimizeOnce_onceOk_g' laterRound_ok' prevAnalSound_of_check' optimize_preserves_of_check' optimize_onceOk_of_check' optimize_preserves_of_prevAnalSound' optimizeCheck_light' optimize_preserves_of_check_light' optimize_onceOk_of_check_light'") +
             t("Hpbf.OptTotal", "optimize_no_panic' optimize_never_panics optimize_total' optimize_canonL'") +
             t("Hpbf.OptProof", "optimizeOnce_rdOk' optimizeOnce_analSound' round_dse_behEq' analSound_round1' round1_dse_behEq' optimize_preserves_of_laterRounds'") +
             t("Hpbf.Chain", "level1_all_backends ir_level1 ir_limited_level1 irAgrees_level1 irAgrees_of_behEq onceOk_level1") +
             t("Hpbf.OptProof", "optimizeOnce_shape' optimizeOnce_shapeOk' dse_total_after_round' optimizeOnce_atMost_atLeast analSound_after_round1' round1_dse_preserves' optimize_preserves_of_steps'") +
             t("Hpbf.OptProof", "optimizeOnce_straightline optimize_straightline_level1 optimizeOnce_preserves_level1 optimizeOnce_onceOk_level1 optimize_preserves_level1' optimize_onceOk_level1' optimize_parse_level1 tape_not_preserved") +
             t("Hpbf.C01Loop", "ev_congr symbEvaluate_varsIn shiftVars_value reduceConst_total reduceConst_value reduceConst_varsIn reduceConst_canon splitAlong_recompose linPart_value tripCount_runs tripCount_diverges tripInv_runs tripCount_iter tripCount_iter_none tripInv_iter analyzeLoop_sound analyzeLoop_noReturn tripFacts_of_meaning constantsAmong_good constantsAmong_sound constantsAmong_sound_iter linearAmong_spec linearAmong_sound loopMotion_cases triFold_spec loopMotion_sound loopMotion_all_sound motionFold_spec finishLoop_motion_sound pendReads_possibleReads pendingSet_spec") +
             t("Hpbf.Chain", "level0_all_backends same_inplace same_ir parse_irOf") +
             t("Hpbf.C01", "C01_parse_ok_of_tree parse_forward parse_backward parse_never_interrupted parse_prefix "
               "C01_odd_step_reaches_zero canonical_odd_loop_zeroes canonical_odd_loop_zeroes_src canonical_folded_loop_zeroes") +
             t("Hpbf.C01Dse", "eliminate_lockstep eliminate_preserves analSound_limited eliminate_preserves_limited "
               "eliminate_preserves_straightline never_interrupted tape_may_differ eliminate_total eliminate_none_iff "
               "eliminate_shape analSound_of_check atLeast_necessary atMost_necessary reads_necessary shift_necessary "
               "shift_rec_necessary duplicate_targets_unsound") +
             t("Hpbf.C01Opt", "iter_eq geo_mul_pred tri_closed tri_loop tripCount_some tripCount_none tripCount_complete "
               "tripInv_some tripInv_tripCount tripInv_mul tripInv_some_odd tripInv_none_iff geomSum_spec geomSum_fold "
               "affine_iter affine_loop triStep_cases triStep_branch0 triStep_branch1 triStep_branch1_toNat triStep_branch2 "
               "triStep_branch3 triStep_val_sound triStep_oddpart_no_half triStep_invvar_no_half triStep_invvar_sound "
               "triStep_branch2_needs_exact_half"),
    streams=[dict(suite="irparse", quick=2000, thorough=100000, judge="parse"),
             dict(suite="irrun", quick=1500, thorough=60000, judge="program"),
             dict(suite="e2e", quick=2500, thorough=60000, thorough_seeds=4, judge="program"),
             dict(suite="optarith", quick=1200, thorough=60000, judge="tie"),
             dict(suite="optdse", quick=3000, thorough=120000, judge="tie"),
             dict(suite="optrun", quick=700, thorough=40000, judge="tie"),
             dict(suite="levelcap", quick=400, thorough=20000, judge="const"),
             dict(suite="irecho", quick=300, thorough=5000, judge="tie")],
    corpus=["programs"], corpus_judge="program",
    scope="FINAL HEADLINE (Props/ChainFinal, all_levels_all_backends; ChainFinal2 strengthens the unlimited-mode JIT conjunct to an equivalence and adds all_levels_exists_final2: a fitting oracle exists, no oracle makes the optimizer panic): for every balanced source, width >= 1, EVERY optimization level, every oracle for which the repaired optimizer model succeeds (a fitting one always exists and none makes it panic: Props/C01Fixed), every environment, register count and fuse mode: canonical semantics, in-place interpreter, IR interpreter on the optimized IR and bytecode machine (both dispatch profiles) on translate of it have the same set of results, and the JIT's machine code returns the canonical result under JitRange — no per-run test, no generator hypothesis. ALL OPTIMISATION LEVELS ARE PROVED, WITHOUT ANY PER-RUN HYPOTHESIS, FOR THE REPAIRED OPTIMIZER (Props/C01Full): optimizeF_preserves_all_levels' — for every block in normal form (parser output is), width >= 1, level, oracle and environment, OptFix.optimizeF b level orders = .ok b' implies the same behaviour (forward, backward, prefix on events), and every loop marked `once` is entered with a non-zero condition (optimizeF_onceOk_all_levels'). OptFix.optimizeF = the exact port's optimizeOnce followed by the recomputation of the recorded clobbered sets (the repair of F13, implemented in /repo as the same post-pass; the optrun tie compares the Rust with optimizeF and distinguishes it from the unrepaired model in ~0.5% of the samples). The unrepaired optimizer is PROVED WRONG at level 2 by kernel-checked witnesses (f13_miscompile_bf', f13b_miscompile'), and the per-run test of C01Rounds is shown false there (f13_check_false'), i.e. the earlier conditional theorem was, correctly, silent. HEADLINE AT -O1 (Props/ChainO1, level1_all_backends): for every balanced source, width >= 1, environment and ANY oracle for which the optimizer model succeeds at level 1, canonical semantics, in-place interpreter, IR interpreter on the optimized IR, and the bytecode machine (both dispatch profiles) on translate of the optimized IR have the same set of results, and the JIT's machine code returns the canonical result under JitRange. OPTIMISATION LEVEL 1 IS PROVED (Props/C01Rebuild): for every IR block whose expressions are in normal form (parser output is), every width >= 1, every oracle of hash iteration orders and every environment, the exact optimizer model Opt.optimize b 1 returns a block with the same behaviour — forward, backward and prefix on the event trace (optimize_preserves_level1', optimize_parse_level1) — and every loop it marks `once` is entered with a non-zero condition (optimize_onceOk_level1'), which discharges the hypothesis of the bytecode/JIT chain at -O1. The proof covers the symbolic rebuild state (written/pending/reverse), Tarjan-ordered emission for every iteration order, clobbering, nested blocks with the parent chain, inlining, the wrapping if, loop analysis and loop motion; it FOUND two genuine miscompiles (F11, F12), both repaired. Towards levels 2 and 3 (Props/C01Rounds): the analysis a round records matches its output node by node, so dead store elimination never fails on it and its syntactic hypotheses hold (optimizeOnce_shapeOk', dse_total_after_round'); at_most_once/at_least_once facts hold; round 1 followed by DSE preserves behaviour given the one remaining clause ReadsFact (round1_dse_preserves'); optimize_preserves_of_steps' reduces every level to named per-step obligations. The rounds that USE the previous analysis are proved under the semantic hypothesis PrevAnalSound (laterRound_ok'), which has a PROVED-SOUND executable test: optimize_preserves_of_check' gives behaviour preservation at EVERY level whenever optimizeCheck N b level orders env = true; the test runs on every sampled program with the real iteration orders (optcheck stream). HEADLINE (Props/ChainTotal, level0_all_backends): for every balanced source, width >= 1 and environment the canonical semantics, the in-place interpreter, the IR interpreter, the bytecode machine in both dispatch profiles (p = translate (parse src), total) have the SAME set of results (ending kind + event trace), and the machine code of the JIT returns the canonical result (forward; full converse in limited mode) under explicit range hypotheses. Level 0 is FULL: for every balanced program, environment and width (w >= 1) the IR produced by "
          "Program::parse, run by the IR interpreter model, has exactly the canonical event sequence, terminates iff "
          "the canonical run does, and every intermediate output is a canonical prefix (parse_forward/backward/prefix); "
          "the folding of odd-step loops is justified for every width. Levels >= 1: partial, see not_proved. The "
          "ARITHMETIC the optimizer's loop analysis and loop motion rest on is proved for every width (OptArith, each "
          "function recomputed on the arguments of every real call made while optimising the sampled programs): the "
          "constant trip count m/(-inc) is exactly the number of iterations until the counter is 0 and `none` means "
          "never (tripCount_some/none/complete); with an odd step the count is inv*x (tripInv_some); the square-and-"
          "multiply geometric sum equals 1+m+..+m^(n-1) and x*m^n + c*geomSum is the value after n rounds of x=x*m+c "
          "(geomSum_spec, affine_loop); each of the three halving alternatives of the triangular closed form equals the "
          "sum the loop would accumulate (triStep_branch1..3), unconditionally for the two trip-count shapes the "
          "optimizer produces (triStep_val_sound, triStep_invvar_sound), and a witness shows the halving of the trip "
          "count would be wrong for any other shape (triStep_branch2_needs_exact_half). The optimizer's IR-level DEAD "
          "STORE ELIMINATION (the pass between rebuild rounds at levels 2 and 3; exact model OptDse.eliminate) is proved "
          "behaviour preserving for every IR program and every analysis that is sound in a stated semantic sense "
          "(AnalSound: has_shift syntactic, at_least_once / at_most_once / reads as facts about the reachable "
          "configurations) and free of duplicate targets: lockstep, same fuel and budget, same events/pointer/environment, "
          "limited and unlimited (eliminate_lockstep, eliminate_preserves, eliminate_preserves_limited); the final tape may "
          "differ (witness); every hypothesis is shown necessary by a witness, including that a calc with a repeated "
          "target WOULD be miscompiled (duplicate_targets_unsound; the optimizer never builds one); totality = shape "
          "agreement (eliminate_none_iff). LOOP OPTIMISATIONS of the exact optimizer model (Props/C01Loop, over repeated "
          "simultaneous assignments with an arbitrary per-round body transformer): analyzeLoop's trip counts and flags mean "
          "what they say (analyzeLoop_sound: RunsExactly / Diverges of the condition-value sequence), constantsAmong's "
          "work-list fixpoint yields cells that keep their entry value in every round (constantsAmong_sound), linearAmong's "
          "cells grow by a constant increment (linearAmong_sound), and loopMotion's before/during/after decomposition — "
          "constant part x trip count, triangular sums, geometric forms, leftovers — reproduces the iterated assignment for "
          "every moved variable and all of them at once (loopMotion_sound, loopMotion_all_sound, finishLoop_motion_sound), "
          "under explicit soundness hypotheses on the state queries (compare, getConstant, getBoth) that the rebuild "
          "invariant has to supply.",
    not_proved="optimize (levels 1..3) now HAS a complete exact Lean model (Opt.lean, 986 lines, tied on ~290 000 "
               "programs incl. every example program: 0 differences), and the repaired optimizer (OptFix.optimizeF, what /repo now implements) is proved behaviour preserving at every "
               "level with no per-run hypothesis; "
               "proved are its arithmetic cores and its dead store elimination pass, whose soundness hypotheses (AnalSound, "
               "NoDupTargets) are facts about the unmodelled rebuild round and are TESTED on every run (dsefacts: the "
               "verified boolean checker C01Dse.checkSound on the real analysis of every sampled program). For levels >= 1 "
               "the universal statement is NOT discharged; it is checked per program by comparing IR interpreter, bytecode "
               "interpreter and JIT at levels 0,1,2,3,4,7 (limited and unlimited) with the PROVED canonical semantics, "
               "on structured programs that exercise trip counts and closed forms; 'levels above 3 behave like level 3' "
               "is checked as structural IR equality for levels 4,5,7,100,u32::MAX",
    rule="e2e: generated programs (token-level, IR-first structured with affine assignments in counted loops, roaming) "
         "x 4 widths x environments x IR interpreter/bytecode interpreter/JIT x levels {0,1,2,3,4,7} x {unlimited, "
         "limited 2^40}, each compared with the Lean canonical run (programs whose gate run exceeds 3000 loop "
         "iterations are skipped and counted); irparse/irrun: parser and IR interpreter vs their models at level 0; "
         "optrun: THE WHOLE OPTIMIZER as a function — the IR printed after Program::parse(src).optimize(level), levels 1-3, "
         "vs the exact Lean port Opt.optimize fed with the two observable hash-set iteration orders the Rust run used "
         "(recorded by the trace hook and checked to be permutations of the model's sets), exact IR equality; "
         "optarith: every traced call of the optimizer's arithmetic cores vs OptArith; optdse: every (program, analysis) "
         "pair the optimizer's dead store elimination receives at levels 2,3 plus random IR with random analyses "
         "(incl. malformed analysis shapes that must panic) vs OptDse.eliminate, exact IR equality. "
         "Non-trivial = at least one I/O event; distinct = distinct requests.",
    trusted_base=["Expr::evaluate as modelled in Hpbf/Expr.lean (tied by the C15 check)"],
)


def c05_divergence(run, harnesses):
    """Two-phase divergence check: the Lean model certifies each candidate program as halting or
    divergent (state repetition); every back end at every level is then held to that verdict."""
    import os
    from common import read_lines
    h = harnesses.get("debug") or list(harnesses.values())[0]
    count = 400 if run.tier == "quick" else 20000
    d = os.path.join(run.work, "divgen")
    rc, out = h.run("divgen", run.seed, count, d, timeout=600)
    reqs = read_lines(os.path.join(d, "divgen.req"))
    certs = run.driver.ask(reqs, timeout=3000) if reqs else []
    # long canonical prefixes for the divergent ones
    todo = []
    stats = dict(halts=0, diverges=0, unknown=0, unbalanced=0)
    for r, c in zip(reqs, certs):
        t = r.split(); p = c.split()
        if not p or p[0] not in ("halts", "diverges"):
            stats["unknown" if p and p[0] == "unknown" else "unbalanced"] += 1
            continue
        stats[p[0]] += 1
        todo.append((t, p))
    longq = [f"bftrace {t[1]} 150000 {t[3]} {t[4]} {t[5]}" for t, p in todo if p[0] == "diverges"]
    longs = iter(run.driver.ask(longq, timeout=3000)) if longq else iter([])
    lines = []
    for t, p in todo:
        if p[0] == "halts":
            lines.append(f"divchk {t[1]} {t[3]} {t[4]} {t[5]} halts {p[2]} - 0")
        else:
            lp = next(longs).split()
            lines.append(f"divchk {t[1]} {t[3]} {t[4]} {t[5]} diverges {p[2]} {lp[1] if len(lp) > 1 else '-'} 150000")
    rq = os.path.join(run.work, "divchk.req")
    open(rq, "w").write("".join(l + "\n" for l in lines))
    run.stream_stats["divergence_certificates"] = stats
    for profile, hh in harnesses.items():
        name = f"divchk_{profile}"
        rs, impls, models = run.run_stream(hh, name, reqfile=rq, timeout=3000)
        run.judge_stream(hh, name, "div", rs, impls, models)


import cli_tie, mem_ties
PROPS["C09"]["extra"] = [mem_ties.c09_bigstep]

PROPS["C16"] = dict(
    modules=["Hpbf.Props.C16"],
    translators=["cli_table.py"],
    theorems=t("Hpbf.C16", "table_matches_source defaults_match_source exit_codes_in_source bits_table opt_table "
               "kind_table defaults flag_tables_disjoint roles_file roles_limit roles_plain roles_length code_is_concat "
               "lastOf_is_last last_flag_wins limit_spec safe_spec help_spec time_spec hasError_iff stderr_spec "
               "action_spec print_kinds_do_not_execute help_or_error_does_nothing action_exit_codes dispatch_spec "
               "file_error_spec parses_iff"),
    streams=[],
    extra=[cli_tie.c16_cli],
    scope="Full on the front-end model: the flag table and defaults are REGENERATED from src/bin/hpbf.rs on every "
          "run and proved equal to the model's (table_matches_source, defaults_match_source); the executed code is "
          "the in-order concatenation of -f file contents and bare arguments (code_is_concat) under a declarative "
          "role grammar; last flag of each family wins; limit/static/help; file errors and diagnostics (stderr_spec); "
          "dispatch and exit codes (action_spec, dispatch_spec); print kinds never execute.",
    not_proved="what the selected executor does is covered by C01-C05; process-level behaviour (stdout flushing, exit "
               "status) is observed on the real binary, not proved",
    rule="black box: the hpbf binary built from /repo's working tree (debug; release too in the thorough tier) is run on "
         "random command lines (flags of every family in random order with repeats, -f files that exist / are missing / "
         "are not UTF-8, bare code arguments incl. flag look-alikes, limits valid and invalid, stdin bytes); exit status, "
         "stderr lines and stdout are compared with Cli.parseArgs/Cli.action (Lean driver) and with the canonical output "
         "of the concatenated code at the selected width (prefix when --limit is given). Non-trivial = the command line "
         "reached dispatch with a decidable expectation; distinct = distinct (args, stdin).",
    trusted_base=["extract/cli_table.py reads the `match arg.as_str()` arms and the `let mut` defaults (fails closed)",
                  "Rust's std flushes stdout at process exit"],
)

PROPS["C17"] = dict(
    modules=["Hpbf.Props.C17"],
    translators=["alloc_sites.py"],
    theorems=t("Hpbf.C17", "alloc_fail_aborts write_alloc_fail_aborts no_growth_no_alloc alloc_ok_eq "
               "original_code_ub repaired_code_aborts"),
    streams=[dict(suite="mem", quick=1500, thorough=50000, judge="mem")],
    extra=[mem_ties.c17_allocfail],
    scope="On the model of Memory::make_accessible/write with a fallible allocator: a failed allocation always yields "
          "`aborted` (no memory state is returned, so nothing is read or written afterwards); the allocator is not "
          "consulted when no growth is needed; the original code's null-pointer copy is proved on a witness.",
    not_proved="the model's `fixed` branch stands for `if ptr.is_null() { handle_alloc_error(..) }`; that this pattern is "
               "present at every alloc_zeroed site is checked by the translator extract/alloc_sites.py, and the real "
               "process behaviour (SIGABRT, never SIGSEGV, never a wrong continuation) by fault injection; allocation "
               "failures inside Vec/Box growth are handled by the Rust standard library (abort)",
    rule="fault injection: child processes under a global allocator that fails the k-th zero-initialised allocation made "
         "during execution (k = 1..6, thorough 1..14), for right/left/both-growing programs x 4 back ends x levels x "
         "widths; accepted endings: SIGABRT (allocation-failure abort), panic, or normal completion with the canonical "
         "output when k exceeds the number of requests. Non-trivial = the run ended in the abort/panic path.",
    trusted_base=["handle_alloc_error aborts (Rust std)", "the guard allocator of harness/src/bin/guard.rs"],
)

PROPS["C11"] = dict(
    modules=["Hpbf.Props.C11", "Hpbf.Props.C11Alloc", "Hpbf.Props.C11Full", "Hpbf.Props.Chain", "Hpbf.Props.C02AllocTotal"],
    theorems=t("Hpbf.C02", "allocateTemps_total_of_pre totalPre_of_emit allocateTemps_total_of_emit translateE_total translateE_total_check") + t("Hpbf.C02.Alloc", "drainEnds_total liveMask_total alloc_step_total tinv_step alloc_total_defd_necessary alloc_total_defAt_necessary alloc_total_unread_necessary alloc_total_lastLt_necessary alloc_total_any_numRegs") +
             t("Hpbf.C02", "translateE_check translateE_localOk translateE_localFacts local_localOk_of_facts") +
             t("Hpbf.C02.Local", "analyze_covers emit_allGood allGood_dseLike allGood_allocateTemps allGood_parameterReordering "
               "allGood_zeroingMoveDetection allGood_strip targetsOk_strip latePasses_good") +
             t("Hpbf.C02", "allocateTemps_initOk allocateTemps_liveOk allocateTemps_initOk_of_emit allocateTemps_liveOk_of_emit "
               "allocateTemps_contract_of_emit latePasses_initFacts latePasses_liveFacts translateE_initOk_liveOk "
               "translateE_no_uninit_read translateE_temps_lt alloc_flow_needed_for_liveOk") +
             t("Hpbf.C02.Alloc", "alloc_initOk_of_facts alloc_liveOk_of_facts alloc_initSolve_complete alloc_liveSolve_complete "
               "liveMask_testBit alloc_step_mask held_zero held_uses held_succ held_jump held_mask alloc_initFacts alloc_liveFacts "
               "stripNoops_rel initFacts_strip liveFacts_strip") +
             t("Hpbf.Chain", "emit_targetsOk emit_brnz_target emit_brz_target translate_shape") +
             t("Hpbf.C11", "reach_iff_wr check_facts check_branch_target check_pc_le check_no_bad check_runCfg_not_bad "
               "check_run_not_bad check_window check_window_zero step_frame_any step_frame_next step_frame_exit step_ptr "
               "step_reads_touched step_touched_only check_step_window check_temps_lt check_init check_init_of_initOk "
               "init_inv_of_initOk check_init_independent check_run_independent check_live_step live_step_of_liveOk "
               "check_live_run check_live_dead live_dead_of_liveOk"),
    streams=[dict(suite="bcwf", quick=800, thorough=40000, judge="wf"),
             dict(suite="bcrun", quick=60, thorough=3000, judge="bcrun")],
    scope="C11 IS PROVED IN FULL FOR EVERY OUTPUT OF translate: translateE_check — translateE prog numRegs fuse = .ok p -> "
          "BcWf.check p numRegs = true, for every IR block (parser or optimizer output or any other), every register count, "
          "both fuse modes, no hypothesis on the block: branches of the final program land inside it (targetsOk_strip), "
          "every tape operand lies in the declared window and the window contains 0 (analyze_covers, emit_allGood and its "
          "preservation through dead-store elimination, allocation and the late passes), destinations are cells or "
          "temporaries, one live bitmap per instruction, and (Props/C11Alloc): no temporary is "
          "read before it is written on any path and every register temporary needed after a non-branch instruction is in "
          "its live bitmap — in the checker's own boolean form (translateE_initOk_liveOk: initOk p (initSolve p) = true and "
          "liveOk p n (liveSolve p) = true, so check p n = localOk p), proved through temporary allocation (held-set "
          "invariant, liveMask bit lemma) and through the late passes; every temporary index is below the declared count "
          "(translateE_temps_lt); branches of the emitted code land inside the program (emit_targetsOk). "
          "The contract checker BcWf.check is proved SOUND against the bytecode semantics for every program, "
          "environment, fuel and mode: a checked program never reaches a malformed state (branch outside the program, "
          "unimplemented operand form), touches the tape only inside its declared window, uses only declared "
          "temporaries, never reads a temporary before writing it on ANY path (and its result is independent of the "
          "initial temporaries), and every register temporary not declared live across a non-branch instruction is "
          "dead after it (noninterference). The checker is then run (in Lean) on the exact bytecode the real generator "
          "hands to the interpreter (2 registers, fusion) and to the JIT (11 registers, no fusion).",
    not_proved="nothing of the property's statement on the model; what remains outside the proof is the tie: that the Rust "
               "generator equals the Lean port (exact bytecode equality on every sampled program, C02 bcgen/irgen streams), "
               "(success of translate is a theorem: translateE_total). The verified "
               "checker still runs on the real bytecode of every sampled program as an independent cross-check",
    rule="for generated programs x 4 widths x levels 0-3 x {(2 regs, fuse), (11 regs, no fuse)}: the bytecode produced "
         "by bc::CodeGen::translate is sent to the Lean driver, which runs BcWf.check (reply ok / local / init / live); "
         "the bytecode semantics used in the soundness proof is itself tied to the threaded interpreter (bcrun stream). "
         "Non-trivial = every bytecode program; distinct = distinct (source, width, level, setting).",
    trusted_base=["Bc.step models src/exec/bcint/ops.rs (tied by the bcrun stream)"],
)

def c07_limited(run, harnesses):
    """Budget ladder: the canonical event sequence of each candidate program (Lean model, fuel 200000) is
    attached to a `limchk` request; every back end x level x budget in {0,1,2,3,5,10,30,100,1000,20000,2^62}
    must report finished only with exactly those events, otherwise a prefix, never fewer events with a
    larger budget, and must finish with the unlimited budget iff the canonical run halts."""
    import os
    from common import read_lines
    h = harnesses.get("debug") or list(harnesses.values())[0]
    count = 250 if run.tier == "quick" else 12000
    d = os.path.join(run.work, "limgen")
    h.run("divgen", run.seed + 17, count, d, timeout=600)
    reqs = [r.replace("in=none", "in=-") for r in read_lines(os.path.join(d, "divgen.req"))]
    qs, cs = [], []
    for r in reqs:
        t = r.split()
        qs.append(f"bftrace {t[1]} 200000 {t[3]} {t[4]} {t[5]}")
        cs.append(f"bfcert {t[1]} 60000 {t[3]} {t[4]} {t[5]}")
    reps = run.driver.ask(qs, timeout=3000) if qs else []
    certs = run.driver.ask(cs, timeout=3000) if cs else []
    lines = []
    stats = dict(halting=0, certified_divergent=0, not_halting_within_fuel=0)
    for q, rep, cert in zip(qs, reps, certs):
        t = q.split(); p = rep.split()
        if len(p) < 2 or p[0] not in ("ok", "fuel"):
            continue
        verdict = p[0]
        if verdict == "fuel" and cert.startswith("diverges"):
            verdict = "div"
        stats[{"ok": "halting", "div": "certified_divergent", "fuel": "not_halting_within_fuel"}[verdict]] += 1
        lines.append(f"limchk {t[1]} {t[3]} {t[4]} {t[5]} {verdict} {p[1]}")
    rq = os.path.join(run.work, "limchk.req")
    open(rq, "w").write("".join(l + "\n" for l in lines))
    run.stream_stats["limchk_programs"] = stats
    for profile, hh in harnesses.items():
        name = f"limchk_{profile}"
        rs, impls, models = run.run_stream(hh, name, reqfile=rq, timeout=3000)
        run.judge_stream(hh, name, "div", rs, impls, models)


PROPS["C05"] = dict(
    modules=["Hpbf.Props.C05", "Hpbf.Props.Chain", "Hpbf.Props.ChainTotal", "Hpbf.Props.ChainO1", "Hpbf.Props.ChainOn", "Hpbf.Props.ChainFinal", "Hpbf.Props.C03Conv", "Hpbf.Props.ChainFinal2"],
    theorems=t("Hpbf.Chain", "jit_final_never_returns jit_final_converse") +
             t("Hpbf.C03", "conv_run conv_diverges conv_progress") +
             t("Hpbf.Chain", "bc_never_returns_final bc_runs_forever_final bc_limited_interrupted_final bc_divergent_output_final jit_final_divergent") +
             t("Hpbf.Chain", "bc_never_returns_anylevel bc_runs_forever_anylevel bc_limited_interrupted_anylevel bc_divergent_output_anylevel jit_anylevel_divergent") +
             t("Hpbf.Chain", "bc_never_returns_level1 bc_runs_forever_level1 bc_limited_interrupted_level1 bc_divergent_output_level1 jit_level1_divergent") +
             t("Hpbf.Chain", "bc_never_returns_unconditional bc_runs_forever_unconditional bc_limited_interrupted_unconditional bc_divergent_output_unconditional bc_terminates_unconditional jit_level0_divergent_unconditional") +
             t("Hpbf.Chain", "bc_never_returns bc_runs_forever bc_runs_forever_or_bad bc_limited_interrupted bc_terminates bc_divergent_output jit_level0_divergent") +
             t("Hpbf.C05", "normTape_denotes sameCfg_sound step_congr repeat_diverges cert_diverges_sound "
               "cert_diverges_witness cert_halts_sound cert_consistent inplace_never_returns inplace_runs_forever "
               "inplace_limited_interrupted inplace_terminates inplace_divergent_output inplace_output_agrees "
               "ir_never_returns ir_runs_forever ir_limited_interrupted ir_terminates ir_divergent_output "
               "ir_output_agrees stationary_scan_diverges"),
    streams=[],
    extra=[c05_divergence],
    corpus=["diverge"], corpus_judge="div",
    scope="AT EVERY OPTIMIZATION LEVEL (Props/ChainFinal): divergence and termination are preserved by the IR interpreter, the bytecode machine and (limited mode) the JIT on optimized code (bc_*_final): no infinite loop is removed, bounded or hoisted past an output, no finite loop made infinite. At -O1 TOO (Props/ChainO1): with b' the result of the optimizer model at level 1 for ANY oracle, divergence/termination and the output before divergence are preserved by the IR interpreter and the bytecode machine (bc_*_level1). Bytecode machine at level 0 (Props/Chain, from the composed refinement): a canonically divergent program never returns (unlimited and limited), a canonically terminating one terminates, and what a divergent program prints is a canonical prefix (bc_never_returns, bc_terminates, bc_divergent_output). Divergence certificates are sound (a canonical run that revisits a configuration never terminates; "
          "cert_diverges_sound, cert_halts_sound). For the in-place interpreter (all programs) and the IR "
          "interpreter at level 0 (all programs, w >= 1): canonical divergence implies the back end never returns "
          "(finished/stopped impossible for every fuel and budget), limited mode reports interrupted, everything "
          "canonical prints before diverging is printed and nothing else (inplace_divergent_output, "
          "ir_divergent_output); canonical termination implies termination. A stationary scan on a non-zero cell "
          "diverges in the bytecode machine.",
    not_proved="for optimised IR (levels >= 1), the bytecode interpreter and the JIT the statement is not a theorem "
               "(no verified optimiser / code generator): they are held to the Lean model's certificate per program "
               "(divchk stream). 'Never returns' in unlimited mode is observed through limited mode with budgets up to "
               "150000 in-process; the thorough tier additionally runs the real binary without limit under a wall-clock window",
    rule="two-phase: candidate programs (ordinary generated programs with an injected construct that may run forever: "
         "empty/non-empty infinite loops, steps that never reach zero, I/O inside infinite loops) are certified by the Lean "
         "model as halting or divergent (Brent cycle detection on canonical configurations, fuel 60000; uncertified "
         "candidates are dropped and counted); then every back end (in-place, IR, bytecode, JIT) at levels 0,1,2,3,4,7 must "
         "finish with exactly the canonical events (halting) or report interrupted at budgets 1, 50, 150000 with events that "
         "are canonical prefixes and include everything emitted before the certified repetition (divergent). "
         "Non-trivial = certified programs; distinct = distinct requests.",
    trusted_base=["C04 and C01 theorems (imported)"],
)

PROPS["C07"] = dict(
    modules=["Hpbf.Props.C07", "Hpbf.Props.C04", "Hpbf.Props.Chain", "Hpbf.Props.ChainTotal", "Hpbf.Props.ChainO1", "Hpbf.Props.ChainOn", "Hpbf.Props.ChainFinal"],
    theorems=t("Hpbf.Chain", "bc_limited_finished_final bc_limited_prefix_final bc_limited_enough_final jit_final_limited jit_final_limited_enough") +
             t("Hpbf.Chain", "bc_limited_finished_anylevel bc_limited_prefix_anylevel bc_limited_enough_anylevel jit_anylevel_limited jit_anylevel_limited_enough") +
             t("Hpbf.Chain", "bc_limited_finished_level1 bc_limited_prefix_level1 bc_limited_enough_level1 ir_limited_level1 jit_level1_limited jit_level1_limited_enough") +
             t("Hpbf.Chain", "bc_limited_finished_unconditional bc_limited_is_prefix_unconditional bc_limited_enough_unconditional bc_limited_total_unconditional jit_level0_limited_unconditional jit_level0_limited_enough_unconditional") +
             t("Hpbf.Chain", "bc_limited_finished bc_limited_prefix bc_limited_is_prefix bc_limited_enough jit_level0_limited jit_level0_limited_enough") +
             t("Hpbf.C07", "ir_limited_done ir_limited_stopped ir_limited_prefix ir_limited_is_prefix ir_limited_enough "
               "ir_limited_enough_stopped ir_limited_terminates ir_divergent_never_finished bc_limited_done "
               "bc_limited_stopped bc_limited_bad bc_limited_prefix bc_limited_is_prefix bc_limited_enough "
               "bc_limited_enough_stopped bc_limited_enough_bad bc_limited_terminates_scanfree bc_limited_terminates "
               "bc_divergent_never_finished") + t("Hpbf.C04", "inplace_limited inplace_limited_terminates inplace_limited_enough inplace_limited_enough_stopped"),
    streams=[dict(suite="inplace", quick=1500, thorough=60000, judge="program"),
             dict(suite="irrun", quick=1000, thorough=40000, judge="program"),
             dict(suite="bcrun", quick=80, thorough=4000, judge="bcrun")],
    extra=[c07_limited],
    corpus=["programs"], corpus_judge="program",
    scope="AT EVERY OPTIMIZATION LEVEL (Props/ChainFinal): limited runs of the bytecode machine and the JIT on optimized code are canonical prefixes, complete when they report finished. At -O1 TOO (Props/ChainO1): with b' the result of the optimizer model at level 1 for ANY oracle, limited runs of the IR interpreter, the bytecode machine and the JIT are canonical prefixes / complete when finished. Bytecode machine and JIT at level 0 against the CANONICAL semantics (Props/Chain): a limited run that reports finished has the complete canonical events, any limited run's events are a canonical prefix, enough budget finishes (bc_limited_finished, bc_limited_is_prefix, bc_limited_enough; jit_level0_limited for the machine code). For the in-place interpreter (vs canonical semantics, all programs), the IR machine and the bytecode machine "
          "(limited vs unlimited run of the SAME program, all programs incl. malformed bytecode): a limited run that "
          "reports finished/stopped ends in the same state as the unlimited run; otherwise its events are a prefix; a "
          "budget >= the unlimited step count suffices to finish; limited runs terminate within an explicit fuel bound "
          "((b+1)*(size+1); for bytecode with moving scans existence is proved via the finite support of the tape); a "
          "divergent run never reports finished.",
    not_proved="the JIT's budget handling (cmp budget,2; jb) is not covered by a theorem yet (C03 model in progress); the "
               "link 'unlimited run of optimised IR/bytecode = canonical' is C01/C02's partial part. Wall-clock boundedness "
               "is the proved step bound times an unmodelled constant",
    rule="(1) inplace/irrun/bcrun streams: limited runs with budgets {0,1,2,3,5,40,50,2000,3000} compared with the models on "
         "result kind, events, tape window and REMAINING BUDGET; (2) limchk: for certified-halting and non-halting programs, "
         "all four back ends x levels {0,1,2,3,4,7} x budget ladder {0,1,2,3,5,10,30,100,1000,20000,2^62} against the canonical "
         "events from the Lean model: finished => exactly the canonical events, interrupted => prefix, more budget => not "
         "fewer events, unlimited budget => finished iff canonical halts. Distinct = distinct requests.",
    trusted_base=["C04 theorems (imported)"],
)

PROPS["C08"] = dict(
    modules=["Hpbf.Props.C08", "Hpbf.Props.Chain", "Hpbf.Props.ChainTotal", "Hpbf.Props.ChainO1", "Hpbf.Props.ChainOn", "Hpbf.Props.ChainFinal"],
    theorems=t("Hpbf.Chain", "bc_stops_like_canonical_final bc_stops_only_like_canonical_final") +
             t("Hpbf.Chain", "bc_stops_like_canonical_anylevel bc_stops_only_like_canonical_anylevel") +
             t("Hpbf.Chain", "bc_stops_like_canonical_level1 bc_stops_only_like_canonical_level1") +
             t("Hpbf.Chain", "bc_stops_like_canonical_unconditional bc_stops_only_like_canonical_unconditional") +
             t("Hpbf.Chain", "bc_stops_like_canonical bc_limited_stops_like_canonical bc_stops_only_like_canonical bc_refused_byte") +
             t("Hpbf.C08", "outByte_low8 eof_reads_zero eof_sticky eof_reply_reads_zero input_error_stops "
               "input_absent_stops output_refused_stops output_absent_sink_ok input_fails_iff output_fails_iff "
               "bf_stop_final bf_stops_only_at_io inplace_stop_final inplace_stops_only_at_io ir_stop_final "
               "ir_stops_only_at_io bc_stop_final bc_stops_only_at_io refusal_cases refusal_is_canonical_prefix "
               "refusal_is_canonical_prefix_exact unreached_refusal_harmless input_failure_independent_of_sink "
               "inplace_stops_like_canonical inplace_limited_stops_like_canonical inplace_stops_only_like_canonical "
               "ir_stops_like_canonical ir_limited_stops_like_canonical ir_stops_only_like_canonical refused_byte_all_backends"),
    streams=[dict(suite="faults", quick=150, thorough=6000, judge="program"),
             dict(suite="e2e", quick=800, thorough=20000, judge="program")],
    corpus=["programs"], corpus_judge="program",
    scope="AT EVERY OPTIMIZATION LEVEL (Props/ChainFinal): I/O failures stop the bytecode machine on optimized code exactly like canonical. At -O1 TOO (Props/ChainO1): with b' the result of the optimizer model at level 1 for ANY oracle, I/O failures stop the bytecode machine exactly like canonical. Bytecode machine at level 0 against the CANONICAL semantics (Props/Chain): a failing I/O operation stops the bytecode run with exactly the canonical events, in either mode, and it stops only then (bc_stops_like_canonical, bc_stops_only_like_canonical, bc_refused_byte). Environment semantics (end of input reads 0 and is sticky; read error / absent source / refused byte stop "
          "with the tape untouched; absent sink accepts silently) for the shared State operations; for each machine "
          "(canonical, in-place, IR, bytecode) a stop ends the run (no later event) and happens only at a failing I/O "
          "instruction; the events before a refused byte, and the refused byte itself, are exactly those of the "
          "fault-free run (refusal_is_canonical_prefix); the in-place interpreter and the IR interpreter (level 0) stop "
          "exactly like the canonical machine in the same faulty environment.",
    not_proved="bytecode interpreter and JIT vs canonical under faults is checked per program (faults stream), not proved; "
               "the JIT's balanced stack on the termination path awaits the x86 model (C03)",
    rule="fault enumeration: for each generated program, every index of the first refused output byte (0..min(#outputs,12)), "
         "every index of the first failing input request (as error, and as early end of input), absent source, absent sink; "
         "refusals alternate Ok(0) and Err; all four back ends x levels {0,1,2,3,4,7} x {unlimited, limited 2^40} compared "
         "with the canonical run in the same environment. Distinct = distinct requests; non-trivial = at least one event.",
    trusted_base=["C04 and C01 theorems (imported)"],
)

PENDING = {}



def c06_guard(run, harnesses):
    mem_ties.c06_guard(run, harnesses)


def c10_unsafe(run, harnesses):
    """execute_unsafe on contexts pre-grown to the pointer excursion plus the program's length, under the
    guard-page allocator: canonical events and no fault."""
    from common import Harness
    n = 300 if run.tier == "quick" else 15000
    for side in ["left", "right"]:
        h = Harness("debug", binary="guard", env={"GUARD": side})
        name = f"unsafe_guard_{side}"
        reqs, impls, models = run.run_stream(h, name, suite="unsafe", count=n, timeout=3000)
        run.judge_stream(h, name, "program", reqs, impls, models)


def c13_cross_process(run, harnesses):
    """The same compilations in two separate processes (different hash seeds, different load addresses):
    the hashes of printed IR, bytecode (both settings) and machine code (shim addresses masked) must agree."""
    import os
    from common import read_lines
    h = harnesses.get("debug") or list(harnesses.values())[0]
    n = 120 if run.tier == "quick" else 5000
    d1 = os.path.join(run.work, "c13_p1"); d2 = os.path.join(run.work, "c13_p2")
    h.run("c13", run.seed + 5, n, d1, timeout=3000)
    h.run("c13", run.seed + 5, n, d2, timeout=3000)
    a = read_lines(os.path.join(d1, "c13.side")); b = read_lines(os.path.join(d2, "c13.side"))
    bad = [i for i in range(min(len(a), len(b))) if a[i] != b[i]]
    ok = not bad and len(a) == len(b) and len(a) > 0
    run.evaluations += len(a)
    run.oblige(f"cross-process stream c13: {len(a)} programs x 4 levels compiled in two processes, identical IR/bytecode/machine-code hashes",
               ok, f"{len(bad)} programs differ" if bad else ("no output" if not a else ""))
    for i in bad[:2]:
        t = a[i].split()
        run.violations.append(dict(what=f"compilation output depends on the process: program {bytes.fromhex(t[1]).decode('utf-8','replace')!r} width {t[0]}: hashes {a[i][-200:]} vs {b[i][-200:]}",
                                   stream="c13_cross", request=a[i][:600], found=True, key=t[1]))
    if run.tier == "thorough":
        c13_blowup(run)


def c13_blowup(run):
    """Compile-time growth on doubling program families (thorough tier): time ratio per doubling < 12."""
    import time, subprocess, os
    from cli_tie import build_cli
    ok, binary, out = build_cli("release")
    if not ok:
        run.oblige("cargo build hpbf (release) for the blow-up measurement", False, out[-500:]); return
    fams = {"flat": lambda n: "+>" * n + "[-]", "nested": lambda n: "+" + "[>+" * n + "[-]" + "<-]" * n,
            "moves": lambda n: "+[" + "->+<" * n + "]", "copies": lambda n: "".join("[->+>+<<]>>[-<<+>>]<" for _ in range(n))}
    worst = 0.0
    for name, f in fams.items():
        prev = None
        for n in [50, 100, 200, 400]:
            t0 = time.time()
            subprocess.run([binary, "--print-jit-mc", "-O3", f(n)], capture_output=True, timeout=600)
            dt = max(time.time() - t0, 0.005)
            if prev:
                worst = max(worst, dt / prev)
            prev = dt
    run.notes.append(f"worst compile-time ratio per doubling: {worst:.1f}")
    run.oblige("compile time grows polynomially on doubling families (ratio per doubling < 12)", worst < 12, f"ratio {worst:.1f}")


PROPS["C06"] = dict(
    modules=["Hpbf.Props.C06", "Hpbf.Props.C09"],
    theorems=t("Hpbf.C06", "grow_spec grow_size_le lay_of_makeAccessible growth_preserves_cells move_inWindow enter_inWindow "
               "re_enter_noop safe_run_no_oob safe_run_inWindow safe_run_no_oob_final safe_run_no_oob_of_check size_monotone "
               "size_monotone_from size_monotone_step") + t("Hpbf.C09", "makeAccessible_cell history_refines"),
    streams=[dict(suite="bcrun", quick=80, thorough=4000, judge="bcrun"),
             dict(suite="mem", quick=1000, thorough=30000, judge="mem")],
    extra=[c06_guard],
    scope="On the layout model (allocation size, physical pointer index) of the bounds-checked threaded interpreter and "
          "of the bounds-checked JIT: for every contract-checked bytecode program, every environment, fuel, mode and start "
          "layout, under a 2^59 range guard, EVERY tape access of every executed instruction is inside the allocation "
          "(safe_run_no_oob: the declared window stays inside after every move of any size in either direction, probing "
          "one edge suffices, the JIT's one-cell growth suffices, re-entering is a no-op), the allocation only grows, and "
          "every growth preserves all cell contents and the logical pointer (growth_preserves_cells, via C09).",
    not_proved="the in-place and IR interpreters access the tape only through Memory::read/write (C09 covers them); the "
               "layout model is tied to the real Memory (size, offset) after threaded-interpreter runs, the JIT's probe-"
               "and-grow sequence is covered by the whole-program simulation of C03 (flow_mov_safe: the emitted probe, the call of "
               "the growth routine and the pointer re-derivation implement Window.Lay.move in mode jitSafe on the x86 machine) "
               "and additionally by guard-page runs; raw pointer arithmetic of the Rust interpreters beyond the model is "
               "observed, not proved",
    rule="(1) bcrun: the real (size, offset) of the tape after threaded-interpreter runs equals the layout model's, for "
         "bytecode of generated programs incl. roaming ones (debug profile); (2) guard pages: the e2e comparison and far-"
         "roaming programs (walks of 1000-10000 cells, scans, revisits) on all back ends x levels with every tape buffer and "
         "interpreter context flush against an inaccessible page on the LEFT and on the RIGHT: any out-of-allocation access "
         "faults and is reported with the program. Distinct = distinct requests.",
    trusted_base=["the guard allocator harness/src/bin/guard.rs (mmap/mprotect)", "C09 and C11 theorems (imported)"],
)

PROPS["C10"] = dict(
    modules=["Hpbf.Props.C10", "Hpbf.Props.C10Opt", "Hpbf.Props.C01Fixed"],
    theorems=t("Hpbf.OptProof", "optimizeF_reach' optimizeF_offsets' optimizeF_keeps_bound' optimizedF_window_le_length' optimizedF_window_le_moves' optimizedF_shift_le_length'") +
             t("Hpbf.OptOffs", "reach_le_iff tags_are_offsets irOffsL_eq offsets_le_reach' parse_reach_le_moves' parse_reach_le_length' optimize_reach' optimize_tags optimize_offsets optimize_irOffs optimize_keeps_bound optimizeOnce_reach deadStoreElimination_reach optimized_offsets_le_length optimized_window_le_length optimized_window_le_moves optimized_shift_le_length analyze_window_tight") +
             t("Hpbf.C10", "mode_irrelevant mode_irrelevant_for_outcome move_eq_of_no_growth unchecked_eq_safe "
               "unchecked_region reach_of_ptrRange parse_offsets_le_moves parse_offsets_le_length"),
    streams=[],
    extra=[c10_unsafe],
    scope="FOR OPTIMIZED CODE TOO (Props/C10Opt): at every level and for every oracle, every tape offset of the optimized IR and hence the bytecode access window is bounded by the number of pointer moves in the source, a fortiori by the program length (optimized_window_le_length); the preserved measure is drift + |offset| (the optimizer DOES create offsets larger than any offset of its input by inlining shifted blocks: witness). The bytecode semantics is the same in all modes (only addresses differ); if the bounds-checked run from a "
          "pre-grown layout never grows, the unchecked run makes exactly the same accesses, all inside the region "
          "(unchecked_eq_safe); a static sufficient condition from the pointer excursion and the declared window "
          "(unchecked_region); at level 0 every IR offset is bounded by the number of </> characters of the source "
          "(parse_offsets_le_length: the 'margin of the program's length').",
    not_proved="for optimised IR the bound of the window by the program length is checked per program (the region used in "
               "the runs is excursion + length), not proved; that the events of unchecked runs equal the canonical ones is a theorem at level 0 (mode-independence of the bytecode semantics + Props/ChainTotal) and rests on the per-program comparison for optimized programs (C01's open part)",
    rule="execute_unsafe on the bytecode interpreter and the JIT, levels 0-3, 4 widths, on contexts pre-grown to [lo - len - 1, "
         "hi + len + 1] (pointer excursion of the canonical run from a reference interpreter, len = program length), under the "
         "guard-page allocator (left and right): events must equal the canonical run's, the allocation must not grow, no fault. "
         "Programs whose canonical run exceeds 400000 steps are skipped and counted.",
    trusted_base=["the guard allocator", "C11 theorems (imported)"],
)

PROPS["C13"] = dict(
    modules=["Hpbf.Props.C11", "Hpbf.Props.C12", "Hpbf.Props.C02EmitTotal", "Hpbf.Props.Chain", "Hpbf.Props.C01Dse", "Hpbf.Props.C03Total", "Hpbf.Props.C02AllocTotal", "Hpbf.Props.C01Rounds", "Hpbf.Props.C13Opt", "Hpbf.Props.C01Fixed", "Hpbf.Props.ChainFinal2"],
    theorems=t("Hpbf.Chain", "all_levels_exists_final2") +
             t("Hpbf.OptProof", "optimizeF_no_panic' optimizeF_never_panics' optimizeF_total' optimizeF_canonL' dse_after_roundF'") +
             t("Hpbf.OptProof", "optimizeOnce_rdOk' optimizeOnce_analSound'") +
             t("Hpbf.OptTotal", "oracle_error_not_panic parse_canonL' optimize_canonL' optimizeOnce_safe' optimizeM_safe' optimize_no_panic' optimize_never_panics optimize_no_panic_parse optimize_total' optimize_total_parse compile_pipeline_no_panic") +
             t("Hpbf.OptProof", "optimizeOnce_shape' optimizeOnce_shapeOk' dse_total_after_round' optimizeOnce_atMost_atLeast analSound_after_round1' round1_dse_preserves' optimize_preserves_of_steps'") +
             t("Hpbf.C02", "allocateTemps_total_of_pre totalPre_of_emit allocateTemps_total_of_emit translateE_total translateE_total_check") + t("Hpbf.C02.Alloc", "drainEnds_total liveMask_total alloc_step_total tinv_step alloc_total_defd_necessary alloc_total_defAt_necessary alloc_total_unread_necessary alloc_total_lastLt_necessary alloc_total_any_numRegs") +
             t("Hpbf.C03", "total_selector_iff selector_total selector_total_converse translate_jitForm compile_total_modulo_fits translate_compile translate_compile_of_localOk") +
             t("Hpbf.C02", "emit_total emitOnly_total emit_total_full_holds emit_total_run emit_total_inv") +
             t("Hpbf.Chain", "translateE_phases translateE_ok_of_alloc") + t("Hpbf.C01Dse", "eliminate_total eliminate_none_iff") +
             t("Hpbf.C11", "check_no_bad check_run_not_bad check_temps_lt") + t("Hpbf.C12", "parse_invariant parseStep_unreachable_arm parse_unreachable_arm parse_ok_iff_balanced"),
    streams=[dict(suite="c13", quick=150, thorough=8000, judge="const"),
             dict(suite="bcgen", quick=40, thorough=3000, judge="tie"),
             dict(suite="jitgen", quick=10, thorough=600, judge="tie")],
    extra=[c13_cross_process],
    scope="THE OPTIMIZER NEVER PANICS (Props/C13Opt): for every block in normal form (parser output is), every level and EVERY oracle, the exact optimizer model returns a result or an oracle-mismatch diagnostic — never one of its panic sites (every unwrap, index, counter decrement incl. the F3 site, enumerated in the Props file) and never a fuel error (optimize_no_panic', optimize_never_panics); a fitting oracle always exists (optimize_total'); compile_pipeline_no_panic chains parse, optimize, translate, contract check and (given operand ranges) machine-code generation. Proved: the parser model is total and its two defensive arms are unreachable (C12); the EMISSION phase of "
          "translate never reaches one of its panic sites, for every IR block, width and fuse mode (emit_total: range "
          "table indices, the outer_accessed loop's fuel, sub-analysis indices — each site discharged), and once emission "
          "succeeds the dead-store and late passes succeed (translateE_ok_of_alloc), and allocate_temps never panics on "
          "emitted code for ANY register count (allocateTemps_total_of_emit; five extra invariants of emitted code, each "
          "shown necessary by a panicking witness): translate is TOTAL (translateE_total) and its result always passes "
          "the contract check (translateE_total_check); "
          "the optimizer's dead store elimination fails exactly on an analysis of the wrong shape (eliminate_none_iff); "
          "the JIT's instruction selector has an arm for EVERY instruction translate produces in the JIT's setting "
          "(11 registers, no fusion) and its only other panic site (a live bit >= 11 at a runtime call) is unreachable, so "
          "machine-code generation succeeds whenever operands fit the encodable ranges (total_selector_iff exact, "
          "translate_jitForm, translate_compile); "
          "every bytecode program "
          "accepted by the contract checker only contains operand forms the threaded interpreter implements (no "
          "unimplemented! at run time, C11 check_no_bad). Tied exactly: bytecode generation and JIT code generation are "
          "pure Lean functions of (IR, registers, fusion) resp. (bytecode, mode) whose output equals the Rust's on every "
          "sampled input — including the forms for which the Rust panics with unimplemented!, which the model predicts.",
    not_proved="overflow checks of a debug build on offsets near 2^63 and the JIT's operand-range overflows (explicit "
               "hypotheses), independence of hash seeds and of earlier compilations, and reusability are properties of "
               "the running Rust code: they are observed (catch_unwind in a debug build, double compilation, two processes, "
               "triple execution), not proved; 'no super-polynomial blow-up' is measured on doubling families (thorough tier)",
    rule="c13 stream: generated programs incl. nesting depth 50-400 and divergent ones x 4 widths x levels 0-3: create every "
         "executor under catch_unwind (debug build: overflow checks on), compile twice and compare Debug prints of IR, "
         "bytecode (2 regs+fusion, 11 regs) and machine code in three modes, execute each executor three times on fresh "
         "contexts; the same in two separate processes (hashes compared); bcgen/jitgen: exact equality with the Lean "
         "generators. Distinct = distinct programs.",
    trusted_base=["machine code comparison masks the 8 address bytes of `mov rax, imm64; call rax` (they depend on the load address)"],
)

PROPS["C02"] = dict(
    modules=["Hpbf.Props.C02", "Hpbf.Props.C02Emit", "Hpbf.Props.C02Dse", "Hpbf.Props.C02Alloc", "Hpbf.Props.C02EmitTotal", "Hpbf.Props.C11", "Hpbf.Props.C07", "Hpbf.Props.Chain", "Hpbf.Props.C02AllocTotal", "Hpbf.Props.ChainTotal", "Hpbf.Props.ChainO1", "Hpbf.Props.ChainOn", "Hpbf.Props.ChainFinal"],
    theorems=t("Hpbf.Chain", "bcAgrees_final bytecode_final bytecode_final_debug all_levels_all_backends") +
             t("Hpbf.Chain", "bcAgrees_anylevel bytecode_anylevel bytecode_anylevel_debug bytecode_anylevel_proper anylevel_all_backends") +
             t("Hpbf.Chain", "bytecode_level1 bytecode_level1_debug bytecode_level1_proper bcAgrees_level1 bcAgrees_of_ir level1_all_backends") +
             t("Hpbf.Chain", "translate_ok translate_check translate_refines_unconditional translate_refines_noOnce_unconditional translate_never_bad_unconditional bytecode_level0_unconditional bytecode_level0_debug_unconditional bytecode_level0_source same_bc same_bc_debug level0_all_backends") +
             t("Hpbf.C02", "allocateTemps_total_of_pre totalPre_of_emit allocateTemps_total_of_emit translateE_total translateE_total_check") + t("Hpbf.C02.Alloc", "drainEnds_total liveMask_total alloc_step_total tinv_step alloc_total_defd_necessary alloc_total_defAt_necessary alloc_total_unread_necessary alloc_total_lastLt_necessary alloc_total_any_numRegs") +
             t("Hpbf.C02", "emit_total emitOnly_total emit_forward' emit_backward' emit_prefix'") +
             t("Hpbf.Chain", "emit_targetsOk emit_brnz_target emit_brz_target emit_live0 translateE_phases translateE_ok_of_alloc passes_behEqIO translate_behEqIO translate_shape translate_forward translate_backward translate_prefix translate_refines translate_refines_noOnce translate_never_interrupted translate_not_bad_of_terminates parse_noOnce parse_onceOk bytecode_level0_forward bytecode_level0_backward bytecode_level0_prefix bytecode_level0 bytecode_level0_debug bytecode_level0_proper") +
             t("Hpbf.C02", "allocateTemps_preserves allocateTemps_latePre") +
             t("Hpbf.C02.Alloc", "sim_step trace_of_allocateTemps trace_inv repl_stable allocPreB_sound alloc_flow_necessary "
               "alloc_ptr_necessary alloc_writes_necessary alloc_fuse_first_use_necessary alloc_fuse_nojump_necessary "
               "alloc_firstLt_necessary alloc_shrunk_extension_panics allocPre_of_dseLike deadStoreElim_dseLike") +
             t("Hpbf.C02.AEmit", "linv_of_emit region_of_emit flowBack_of_emit flowFwd_of_emit ptr_of_emit emitRest_of_emit "
               "allocPre_of_emitState allocPre_of_emit allocateTemps_of_emit") +
             t("Hpbf.C02", "dse_run dse_behEqIO dsePre_iff_check deadStoreElim_cert deadStoreElim_preserves dsePre_of_emit "
               "deadStoreElim_preserves_of_emit dse_stopped_tape_differs dse_not_obsEq' dse_stopped_tape_differs_reachable "
               "dse_noMemZero_necessary dse_bookkeeping_necessary") +
             t("Hpbf.C02", "translateE_factors emitOnly_eq noOnce_onceOk emit_forward emit_forward_noOnce emit_backward "
               "emit_prefix emit_never_interrupted once_needs_hypothesis") +
             t("Hpbf.C02", "run_fields_irrelevant stepI_reorderInst reorderInst_step parameterReordering_preserves "
               "parameterReordering_run_eq stripNoops_preserves fuse_run recordBranchTargets_ok recordBranchTargets_spec "
               "zeroingMoveDetection_preserves zeroingMoveDetection_preserves_of_pre translateE_eq_latePasses "
               "late_passes_preserve late_passes_preserve_debug budget_zero_only_initially step_next_budget_ne_zero "
               "run_budget_zero_iff runDebug_eq_run zmd_stopped_tape_differs zmd_target_guard_necessary memZero_order_matters") +
             t("Hpbf.C11", "check_run_not_bad check_init_independent check_live_dead") +
             t("Hpbf.C07", "bc_limited_done bc_limited_prefix bc_limited_enough bc_limited_terminates bc_divergent_never_finished"),
    profiles=["debug", "release"],
    streams=[dict(suite="bcgen", quick=60, thorough=4000, judge="tie"),
             dict(suite="irgen", quick=1500, thorough=80000, judge="tie"),
             dict(suite="oncechk", quick=250, thorough=20000, judge="tie"),
             dict(suite="bcrun", quick=60, thorough=3000, judge="bcrun"),
             dict(suite="e2e", quick=1200, thorough=40000, thorough_seeds=3, judge="program")],
    corpus=["programs"], corpus_judge="program",
    scope="AT EVERY OPTIMIZATION LEVEL (Props/ChainFinal): bytecode_final / _debug — canonical = bytecode machine on translate of the repaired optimizer's output, forward/backward/prefix, no per-run hypothesis. At -O1 TOO (Props/ChainO1): with b' the result of the optimizer model at level 1 for ANY oracle, bytecode_level1 / _debug: canonical = bytecode machine on translate b' (forward, backward, prefix), never bad. UNCONDITIONAL (Props/ChainTotal): with p := translate blk n fuse (proved total, never the sentinel: translate_ok) — bytecode_level0_unconditional / _debug_unconditional need only balancedness and w >= 1; translate_refines_unconditional for every IR block under OnceOk; the bytecode of translate never reaches a bad state in any mode, budget or fuel (translate_never_bad_unconditional). END TO END AT LEVEL 0 (Props/Chain): for EVERY source text, width >= 1 and environment, if translate succeeds on the parsed program then the bytecode machine (both dispatch profiles) has exactly the canonical events: canonical terminates/stops => bytecode does with the same trace, conversely, and unfinished runs are prefixes of each other (bytecode_level0, bytecode_level0_debug); for ANY IR block (i.e. also optimizer output) translate refines the IR semantics under OnceOk (translate_refines) — the four phase theorems composed, TargetsOk of emitted code proved (emit_targetsOk), the .ok chain shown to fail only at the panic sites of emission/allocation (translateE_ok_of_alloc). Proved on the exact Lean port of the generator and the bytecode machine: (1) the FIRST phase of translate "
          "(analysis + value-numbering emission of every IR instruction, loops, ifs, fused scans, both fuse modes) "
          "refines the IR semantics for EVERY IR block at every width: emit_forward / emit_backward (same events, tape, "
          "pointer, environment for finished and I/O-stopped runs) and emit_prefix (unfinished runs are prefixes of each "
          "other), under the hypothesis that a loop marked `once` is only reached with a non-zero condition (OnceOk; "
          "proved necessary by a witness, implied by NoOnce); translateE_factors shows translate = emission ; DSE ; temp "
          "allocation ; late passes. (1b) the local dead-store elimination pass preserves behaviour in lockstep (same fuel, "
          "same budget; events, pointer, environment always equal, tape equal for finished runs — a run stopped by an I/O "
          "failure between a removed store and its overwrite sees a different tape, witness proved) for every state "
          "satisfying the decidable precondition DsePre, and the emission's output satisfies DsePre "
          "(deadStoreElim_preserves, dsePre_of_emit); each part of DsePre is shown necessary by a witness. "
          "(1c) temporary allocation (register/spill assignment, operand forwarding, live bitmaps) preserves behaviour "
          "(BehEq: events, tape, pointer, budget, limited and unlimited) for every state satisfying the nine-clause "
          "precondition AllocPre (allocateTemps_preserves), and AllocPre holds UNCONDITIONALLY for the emission's output "
          "after dead-store elimination, for every IR program (allocPre_of_emit, allocateTemps_of_emit); no two live values "
          "ever share a physical temporary; six clauses are shown necessary by witnesses. "
          "(2) the three LATE passes preserve "
          "behaviour for every bytecode program meeting their precondition — parameter reordering (runs are equal), "
          "noop stripping with branch re-targeting (both directions, limited and unlimited), zeroing-move fusion given "
          "the recorded branch targets (same events/pointer/budget; the tape may differ only after an I/O stop, witness "
          "proved) — and their composition (late_passes_preserve); the debug (trampolined, budget tested before every "
          "instruction) and release (tested at entry) dispatch loops compute the same result (runDebug_eq_run); "
          "contract-checked bytecode never reaches an unimplemented form and is independent of uninitialised/dead "
          "temporaries (C11); limited mode is a faithful prefix (C07).",
    not_proved="panic-freedom of allocate_temps (a hand-built state satisfying AllocPre makes it panic: "
               "alloc_shrunk_extension_panics; never wrong code), totality of allocate_temps (emission is proved total: emit_total), and that the optimizer only marks loops `once` when OnceOk holds, "
               "are not theorems; they are established per program: translate's "
               "output equals the pure Lean function BcGen.translate EXACTLY (also on random IR not reachable from the parser), "
               "random loop-free IR executes identically on IR interpreter, bytecode interpreter and JIT and as the Lean IR "
               "semantics says, the threaded interpreter equals Bc.run on real bytecode in BOTH build profiles, and end-to-end "
               "events equal the proved canonical semantics",
    rule="bcgen: bytecode text of translate vs BcGen.translate for generated programs x 4 widths x levels 0-3 x settings "
         "(2,fuse) (11,no) (12,no) (3,fuse); irgen: random IR built directly (squares, repeated variables, zero stores, "
         "simultaneous assignments up to 16, ifs, shifts): exact generator tie + execution of loop-free IR on three "
         "executors vs Ir.run; oncechk: the hypothesis OnceOk of the emission theorems tested on the Lean run of the optimized IR "
         "of generated programs (every loop the optimizer marks `once` is entered with a non-zero condition); bcrun: threaded interpreter vs Bc.run (events, window, remaining budget, final (size, "
         "offset)); e2e: all back ends x levels vs canonical; harness built in debug AND release profile.",
    trusted_base=["release builds rely on LLVM emitting tail calls in the threaded interpreter (observed, not proved)"],
)


PROPS["C03"] = dict(
    modules=["Hpbf.Props.C03", "Hpbf.Props.C03Flow", "Hpbf.Props.C03Total", "Hpbf.Props.C11", "Hpbf.Props.C11Full", "Hpbf.Props.Chain", "Hpbf.Props.ChainTotal", "Hpbf.Props.ChainO1", "Hpbf.Props.ChainOn", "Hpbf.Props.ChainFinal", "Hpbf.Props.C03Conv", "Hpbf.Props.ChainFinal2", "Hpbf.Props.JitRangeLen"],
    theorems=t("Hpbf.Chain", "jitRange_shift_of_length jitRange_shift_of_length_opt jitRange_shift_of_length_translate translateE_mov_is_block_shift jitRange_shift_of_shiftBound optimizedF_shifts_le_length optimized_shifts_le_length jitRange_fields_of_length jitRange_of_length") +
             t("Hpbf.Chain", "jit_final_converse jit_final_never_returns jit_final_same all_levels_all_backends_final2 all_levels_exists_final2 translate_window_final2 jitRange_window_of_length_final2 noNoop_translate") +
             t("Hpbf.C03", "conv_code_nonempty conv_progress conv_ret_unique conv_run_more conv_steps_lt conv_steps conv_run conv_diverges conv_run_entry conv_diverges_entry") +
             t("Hpbf.Chain", "jit_final_forward jit_final_unique jit_final_prefix jit_final_divergent jit_final_limited jit_final_limited_enough all_levels_all_backends") +
             t("Hpbf.Chain", "jit_anylevel_forward jit_anylevel_unique jit_anylevel_prefix jit_anylevel_divergent jit_anylevel_limited jit_anylevel_limited_enough anylevel_all_backends") +
             t("Hpbf.Chain", "jit_level1_forward jit_level1_unique jit_level1_prefix jit_level1_divergent jit_level1_limited jit_level1_limited_enough translate_window_optimized jitRange_window_of_length level1_all_backends") +
             t("Hpbf.Chain", "jitCode_spec jitHyps_of_range jit_level0_forward_unconditional jit_level0_unique_unconditional jit_level0_prefix_unconditional jit_level0_divergent_unconditional jit_level0_limited_unconditional jit_level0_limited_enough_unconditional jit_forward_fin jit_limited_fin level0_all_backends") +
             t("Hpbf.C03", "total_emitCopy total_emitAdd total_emitSub total_emitMul total_selector_iff selector_total selector_total_converse total_savedRegs total_emit_shape total_alloc_shape total_reorder_jitForm translate_jitForm translate_jitForm_numRegs total_arith_fits total_emitInstr compile_total_modulo_fits total_fits_of_bounds translate_compile translate_compile_of_localOk") + t("Hpbf.C02", "translateE_check") +
             t("Hpbf.Chain", "x86_ret_unique jit_of_bc jit_level0_forward jit_level0_unique jit_level0_prefix jit_level0_divergent jit_level0_limited jit_level0_limited_enough") +
             t("Hpbf.C03", "layout_decompose layout_locs layout_instr_at layout_epilogue_at layout_jcc_target layout_term_target "
               "layout_epilogue layout_skip8 layout_saved_regs layout_item_size layout_items_size prog_fetch_fast prog_fetch "
               "flow_plain_block flow_arith_slots flow_brz_brnz flow_limit_interrupted flow_mov flow_mov_safe flow_arith_instr "
               "flow_input flow_output flow_saved_regs flow_prologue flow_epilogue flow_init_state prog_simulation "
               "prog_run_from prog_run") +
             t("Hpbf.C03", "selector_sound_copy selector_sound_add selector_sound_sub selector_sound_mul selector_sound "
               "selector_sound_on block_sound rel_satisfiable execAll_app encode_ne_nil f6_add_stack_imm_wrong "
               "f6_add_big_imm_reg_wrong f6_add_big_imm_stack_wrong f6_mul_stack_mem_mem_wrong f6_mul_stack_self_wrong") +
             t("Hpbf.C11", "check_live_dead check_init_independent check_window"),
    streams=[dict(suite="jitgen", quick=25, thorough=2000, judge="tie"),
             dict(suite="jitrun", quick=120, thorough=6000, judge="tie"),
             dict(suite="x86prog", quick=150, thorough=8000, judge="tie"),
             dict(suite="irgen", quick=1500, thorough=80000, judge="tie"),
             dict(suite="e2e", quick=1500, thorough=50000, thorough_seeds=3, judge="program")],
    corpus=["programs", "jitforms"], corpus_judge="program",
    scope="CONVERSE (Props/C03Conv): the machine code returns ONLY when the bytecode run has ended, with the matching verdict and the same events (conv_run), and a bytecode run that never ends is executed by machine code that never returns and never faults (conv_diverges) — every bytecode step costs at least one machine step (conv_progress; the self-looping `[]` needs the explicit 2-step argument). AT EVERY OPTIMIZATION LEVEL (Props/ChainFinal): jit_final_* for translate b' 11 false with b' the repaired optimizer's output, under JitRange only. At -O1 TOO (Props/ChainO1): with b' the result of the optimizer model at level 1 for ANY oracle, jit_level1_*: as jit_level0_*_unconditional for translate b' 11 false; the window fields of JitRange follow from bytes*length(source) < 2^31 (jitRange_window_of_length). UNCONDITIONAL UP TO RANGES (Props/ChainTotal): for p := translate (parse src) 11 false the contract check and the success of compileX86 are theorems; jit_level0_*_unconditional take only JitRange (supported width, code < 2^31 bytes, window/shift/temps displacements inside i32, distinct runtime addresses, stack alignment, budget < 2^64, no allocation beyond 2^40 cells). END TO END AT LEVEL 0 (Props/Chain): source text -> parse -> translate -> compileX86 -> program-level x86 machine: under the bundled hypotheses of prog_run (JitHyps), a canonically terminating program makes the machine code return 1 (0 after an I/O stop) with exactly the canonical events, every return is that one (jit_level0_forward, jit_level0_unique), running code only ever has emitted a canonical prefix (jit_level0_prefix), and in limited mode the function always returns, with rax = 1 only for a complete canonical run (jit_level0_limited). WHOLE-PROGRAM simulation, proved on the exact Lean port of the code generator (JitGen.compileX86) and an "
          "executable program-level x86 machine (X86Prog: byte-addressed code, flags, push/pop, rel8/rel32 jumps, the three "
          "runtime calls as atomic transitions that clobber every caller-saved register): prog_run — for every bytecode "
          "program that passes the verified contract checker (BcWf.check p 11) and compiles, from the entry state the "
          "machine code returns 1 / 0 / 0 exactly when Bc.run is done / stopped / interrupted, with the same events, "
          "environment, tape and budget, callee-saved registers restored; unfinished runs have the same events "
          "(prog_simulation, prog_run_from). This covers brz/brnz and the limit check, checked and unchecked mov with its "
          "probe and the call to the growth routine, inp/out with register saving and 16-byte stack alignment, prologue "
          "and epilogue, stack temporaries, and uses the C11 liveness facts to re-synchronise clobbered dead registers. "
          "Relocation is proved exact (layout_jcc_target, layout_term_target: no i32 wrap below 2^31 bytes of code; "
          "layout_skip8: the rel8 skip over the growth call is at most 76 bytes for every live mask). Per instruction, "
          "for every width in {8,16,32,64} and every operand (all indices, offsets, immediates, live bitmaps): "
          "selector_sound for copy/add/sub/mul incl. stack temporaries and 64-bit immediates; the five arms repaired in "
          "F6 are proved wrong in their original form. The machine code is EXACTLY the encoding of the modelled "
          "instruction lists (jitgen tie), X86Sem reproduces this CPU on every operand-kind combination (jitsem), and "
          "X86Prog reproduces this CPU on whole programs in unlimited and limited mode incl. the remaining budget (x86prog).",
    not_proved="hypotheses of prog_run that are not discharged for all programs: code size < 2^31, tape offsets and mov "
               "shifts inside i32, allocation below 2^40 cells (NoOOM). (The contract check BcWf.check IS proved for every "
               "output of translate: translateE_check; and the selector is proved to have an arm for every instruction "
               "translate produces with 11 registers and no fusion — translate_jitForm, selector_total, translate_compile: "
               "compileX86 succeeds given only the operand-range condition.) The encoder (X86 -> bytes) and the ISA semantics "
               "are validated against the CPU, not proved. Known deviations of the JIT in LIMITED mode, outside C03's "
               "statement: no budget test at entry (with budget 0 a branch-free program still runs), the budget cell keeps "
               "0 or 1 after an interrupt, an I/O stop returns 0 like an interrupt",
    rule="jitgen: machine-code bytes of print_mc vs JitGen.compile for ALL 126 400 one-instruction forms (dst x src x src "
         "kinds x 5 live bitmaps x 4 widths, incl. the forms for which the Rust panics with unimplemented!) and for program "
         "bytecode in three modes; jitrun: 22 864 normal-form one-instruction experiments EXECUTED by the JIT on this CPU "
         "(operands initialised, destination and live sources observed through the tape) vs Bc.run, the same CPU results "
         "vs the x86 semantics (jitsem), and whole programs (1/3 wide programs that need > 11 live values); x86prog: the bytecode "
         "of generated programs x levels 0-3 run by the real JIT (unlimited, small budget, ample budget) vs X86Prog on "
         "compileX86 of the same bytecode: events, verdict, remaining budget; irgen: random "
         "IR executed on all three executors; e2e: vs canonical incl. wide programs. Distinct = distinct requests.",
    trusted_base=["X86Sem is my reading of the ISA at the JIT's abstraction (validated against this CPU on every run)",
                  "shim addresses are masked in the machine-code comparison"],
)
