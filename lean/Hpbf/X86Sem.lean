/-
Executable semantics of the straight-line x86-64 instruction subset the baseline JIT emits for the
arithmetic / copy bytecode instructions (`JitGen.emitCopy/emitAdd/emitSub/emitMul`).

This file is the "reading of the ISA". It is tied to the real CPU by the `jitsem` request of `Driver6`:
the Rust harness executes the machine code `encode (emit…)` on the processor, `jitsem` executes the same
abstract instructions with `execAll`, and the `check` script diffs the two.

Abstraction (what the JIT relies on, nothing more):
* sixteen 64-bit registers;
* the tape as cells of `w` bits, indexed RELATIVE TO THE CURRENT `rbp` (cell `i` is the `w/8` bytes at
  `[rbp + (w/8)*i]`). Consequently an instruction that writes `rbp` is outside the subset (`none`); the
  JIT changes `rbp` only in `Mov`, never inside an arithmetic / copy instruction. The finite extent of the
  real tape is not modelled here (that is the window invariant of C06/C10);
* the stack frame as 64-bit slots indexed relative to `rsp` (slot `k` is `[rsp + 8*k]`); an instruction
  that writes `rsp` (push/pop/call, `add rsp, …`) is outside the subset. The extent of the frame
  (`alignedTemps` slots, reserved by the prologue) is not modelled;
* `zf`/`cf`: `some b` = the flag has the value `b`, `none` = undefined / not modelled (nothing in the
  subset reads a flag).

Memory operands: `[rbp + d]` with `d` a multiple of `w/8` is a tape cell and must be accessed with
operand size `w`; `[rsp + d]` with `d ≥ 0` a multiple of 8 is a stack slot and must be accessed with
operand size 64; every other memory operand (in particular the context fields `[rbx + d]`) is `none`.
`base + index*scale + disp` is accepted as the address expression of `lea` only.

Register operands of size < 64: the JIT uses them only
* as the destination of a load (`movRRm`: `movzx r32, m8/m16`, `mov r32, m32`, all of which zero the
  rest of the 64-bit register),
* as the destination of `add/sub r, [mem]` (`addRRm/subRRm`: the 8- and 16-bit forms keep the upper
  bits of the register, the 32-bit form zeroes the upper half),
* as the source of a store / `add/sub [mem], r` (only the low bits are read).
An `r/m` operand that is a register must have size 64 (`none` otherwise).

`exec x m = none` also when an operand of `x` is outside the parameter type of the Rust emitter
(`X86.fits`): such an instruction has no encoding (`encode` would truncate it).
-/
import Hpbf.Asm

namespace Hpbf
namespace X86Sem

open Asm

/-- Machine state at the abstraction of the JIT (see the file header). -/
structure MState (w : Nat) where
  regs : Reg → BitVec 64
  /-- tape cell at index relative to `rbp` -/
  tape : Int → BitVec w
  /-- stack slot `k` = the 8 bytes at `[rsp + 8*k]` -/
  stack : Nat → BitVec 64
  zf : Option Bool
  cf : Option Bool

variable {w : Nat}

/-- All registers, cells and slots zero, flags undefined. -/
def MState.zero : MState w :=
  { regs := fun _ => 0, tape := fun _ => 0, stack := fun _ => 0, zf := none, cf := none }

def MState.setReg (m : MState w) (r : Reg) (v : BitVec 64) : MState w :=
  { m with regs := fun r' => if r' = r then v else m.regs r' }

def MState.setCell (m : MState w) (i : Int) (v : BitVec w) : MState w :=
  { m with tape := fun j => if j = i then v else m.tape j }

def MState.setSlot (m : MState w) (k : Nat) (v : BitVec 64) : MState w :=
  { m with stack := fun j => if j = k then v else m.stack j }

def MState.setFlags (m : MState w) (zf cf : Option Bool) : MState w :=
  { m with zf := zf, cf := cf }

/-- What an operand denotes. -/
inductive Place where
  | reg (r : Reg)
  | cell (idx : Int)
  | slot (k : Nat)
  deriving Repr, DecidableEq

/-- Operand resolution (file header). -/
def resolve (w : Nat) : RegMem → Option Place
  | .reg r => some (.reg r)
  | .mem (some .rbp) none 1 disp =>
    let b : Int := ((w / 8 : Nat) : Int)
    if b ≠ 0 ∧ disp % b = 0 then some (.cell (disp / b)) else none
  | .mem (some .rsp) none 1 disp =>
    if 0 ≤ disp ∧ disp % 8 = 0 then some (.slot (disp / 8).toNat) else none
  | _ => none

/-- The low `n` bits, zero-extended. -/
def trunc (n : Nat) (v : BitVec 64) : BitVec 64 := (v.setWidth n).setWidth 64

/-- Read an `r/m` operand of size `sz`, zero-extended. -/
def readPlace (m : MState w) (sz : Size) : Place → Option (BitVec 64)
  | .reg r => if sz = .b64 then some (m.regs r) else none
  | .cell i => if sz.bits = w then some ((m.tape i).setWidth 64) else none
  | .slot k => if sz = .b64 then some (m.stack k) else none

/-- `2^n - 1` as a 64-bit mask (`lowMask 8 = 0xFF`, `lowMask 16 = 0xFFFF`). -/
def lowMask (n : Nat) : BitVec 64 := (BitVec.allOnes n).setWidth 64

/-- `old` with its low `n` bits replaced by those of `v`. -/
def mergeLow (n : Nat) (old v : BitVec 64) : BitVec 64 := (old &&& ~~~ lowMask n) ||| (v &&& lowMask n)

/-- The new content of a register whose old content is `old` when the low `sz` bits of `v` are written
to it with the x86 rules for the rest of the register: 64 = all, 32 = zero the upper half, 16/8 = keep
the other bits. -/
def sizedWrite (sz : Size) (old v : BitVec 64) : BitVec 64 :=
  match sz with
  | .b64 => v
  | .b32 => trunc 32 v
  | .b16 => mergeLow 16 old v
  | .b8 => mergeLow 8 old v

/-- Write the low `sz` bits of `v` into register `r`. Writing `rsp`/`rbp` is outside the subset. -/
def writeReg (m : MState w) (sz : Size) (r : Reg) (v : BitVec 64) : Option (MState w) :=
  if r = .rsp ∨ r = .rbp then none
  else some (m.setReg r (sizedWrite sz (m.regs r) v))

/-- Write an `r/m` operand of size `sz` (the low `sz` bits of `v`). -/
def writePlace (m : MState w) (sz : Size) (v : BitVec 64) : Place → Option (MState w)
  | .reg r => if sz = .b64 then writeReg m .b64 r v else none
  | .cell i => if sz.bits = w then some (m.setCell i (v.setWidth w)) else none
  | .slot k => if sz = .b64 then some (m.setSlot k v) else none

/-- Immediate operand: the two's complement value (sign-extended to 64 bits where the instruction does
so; the operation truncates to the operand size anyway). -/
def immVal (imm : Int) : BitVec 64 := BitVec.ofInt 64 imm

inductive Alu where
  | add | sub
  deriving DecidableEq

/-- `add`/`sub` at `n` bits on zero-extended operands: result (zero-extended), ZF, CF. -/
def alu (op : Alu) (n : Nat) (a b : BitVec 64) : BitVec 64 × Bool × Bool :=
  let a := trunc n a
  let b := trunc n b
  match op with
  | .add =>
    let r := trunc n (a + b)
    (r, r == 0, decide (2 ^ n ≤ a.toNat + b.toNat))
  | .sub =>
    let r := trunc n (a - b)
    (r, r == 0, decide (a.toNat < b.toNat))

/-- `op r/m, src` (destination is the `r/m` operand). `keepCf`: the instruction is encoded as
`inc`/`dec`, which leaves CF alone. -/
def aluRm (m : MState w) (op : Alu) (sz : Size) (rm : RegMem) (src : BitVec 64) (keepCf : Bool) :
    Option (MState w) := do
  let p ← resolve w rm
  let a ← readPlace m sz p
  let (r, z, c) := alu op sz.bits a src
  let m' ← writePlace m sz r p
  some (m'.setFlags (some z) (if keepCf then m.cf else some c))

/-- `op r, r/m` (destination is the register, at size `sz`). -/
def aluR (m : MState w) (op : Alu) (sz : Size) (r : Reg) (rm : RegMem) : Option (MState w) := do
  let p ← resolve w rm
  let b ← readPlace m sz p
  let (v, z, c) := alu op sz.bits (m.regs r) b
  let m' ← writeReg m sz r v
  some (m'.setFlags (some z) (some c))

/-- Address expression of `lea`. -/
def leaAddr (m : MState w) : RegMem → Option (BitVec 64)
  | .mem (some b) idx scale disp =>
    if scale = 1 ∨ scale = 2 ∨ scale = 4 ∨ scale = 8 then
      match idx with
      | none => some (m.regs b + immVal disp)
      | some i =>
        if i = .rsp then none      -- no such encoding
        else some (m.regs b + m.regs i * BitVec.ofNat 64 scale + immVal disp)
    else none
  | _ => none

/-- One instruction, before the `fits` test. -/
def execCore (x : X86) (m : MState w) : Option (MState w) :=
  match x with
  | .movRRm sz r rm => do
    -- `mov r64, r/m64` / `mov r32, m32` / `movzx r32, m16` / `movzx r32, m8`
    let p ← resolve w rm
    let v ← readPlace m sz p
    writeReg m .b64 r v
  | .movRmR sz rm r => do
    let p ← resolve w rm
    writePlace m sz (m.regs r) p
  | .movRmImm sz rm imm => do
    let p ← resolve w rm
    writePlace m sz (immVal imm) p
  | .movRImm64 r imm => writeReg m .b64 r (immVal imm)
  | .addRmImm sz rm imm => aluRm m .add sz rm (immVal imm) (imm == 1 || imm == -1)
  | .addRmR sz rm r => aluRm m .add sz rm (m.regs r) false
  | .addRRm sz r rm => aluR m .add sz r rm
  | .subRmImm rm imm => aluRm m .sub .b64 rm (immVal imm) (imm == 1 || imm == -1)
  | .subRmR sz rm r => aluRm m .sub sz rm (m.regs r) false
  | .subRRm sz r rm => aluR m .sub sz r rm
  | .incRm sz rm => aluRm m .add sz rm 1 true
  | .decRm sz rm => aluRm m .sub sz rm 1 true
  | .imulRRm r rm => do
    -- `imul r64, r/m64`: ZF undefined, CF = signed overflow (not modelled)
    let p ← resolve w rm
    let b ← readPlace m .b64 p
    let m' ← writeReg m .b64 r (m.regs r * b)
    some (m'.setFlags none none)
  | .imulRRmImm r rm imm => do
    -- `imul r64, r/m64, imm32` (sign-extended)
    let p ← resolve w rm
    let b ← readPlace m .b64 p
    let m' ← writeReg m .b64 r (b * immVal imm)
    some (m'.setFlags none none)
  | .lea r addr => do
    let a ← leaAddr m addr
    writeReg m .b64 r a
  | _ => none

/-- One instruction of the subset; `none` = outside the subset. -/
def exec (x : X86) (m : MState w) : Option (MState w) :=
  if x.fits then execCore x m else none

/-- Straight-line code. -/
def execAll : List X86 → MState w → Option (MState w)
  | [], m => some m
  | x :: xs, m =>
    match exec x m with
    | some m' => execAll xs m'
    | none => none

end X86Sem
end Hpbf
