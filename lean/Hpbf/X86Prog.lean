/-
Program-level x86-64 machine for the OUTPUT of the baseline JIT (`JitGen.compileX86`): an executable
small-step semantics over a `List X86` addressed by byte offset.

It extends the straight-line semantics `X86Sem` (which it REUSES, through `view`/`stepPlain`, for every
instruction that neither transfers control nor touches `rsp`, `rbp` or the context record) with what whole
programs need:

* a program counter (byte offset into the code; `fetchList` decodes it by walking the instruction sizes);
* the flags consumers `jcc rel32`, `jcc rel8` (predicates `below` = CF, `equal` = ZF, `notEqual` = ¬ZF;
  an undefined flag is a fault) and `jmp rel8`, and the flag producers `X86Sem` does not have
  (`cmp r/m, imm8`, `cmp r64, r/m64`, `test r/m8, r8`, `sar r64, imm8`);
* the stack: `stk` lists the 8-byte slots from `[rsp]` upwards; `push`/`pop`/`sub rsp`/`add rsp` move the
  origin (`sub` makes new slots with unspecified content `Cfg.junk .rsp`), a slot access beyond the list
  is a fault, `ret` pops the return address and stops the machine;
* the context record `[rbx]` (`runtime::Context`, `#[repr(C)]`): `[rbx+0]` = `memory.buffer`,
  `[rbx+8]` = `memory.size` (cells), `[rbx+16]` = `memory.offset` (used by the generated code as a scratch
  slot), `[rbx+24]` = `budget`. An operand `[rbx+d]` is accepted only if `rbx` holds the address of the
  record (`Cfg.cxtAddr`) and `d` is one of the four offsets; only `offset` and `budget` may be written;
* the tape pointer `rbp`. The tape is stored by LOGICAL cell address (`tape`); `lptr` is the logical
  address of the cell `rbp` points at, `base` the logical address of `buffer[0]`. `add rbp, imm` and
  `lea rbp, [rbp + r*s + d]` move `lptr` by the displacement divided by the cell size (a displacement that
  is not a multiple of the cell size is a fault), `mov rbp, r/[rbx+0]` sets `lptr` from the distance to
  `buffer`. `tapeOk = false` marks a stale `rbp` (before the prologue loaded it, after the buffer was
  reallocated, after the epilogue popped it); a tape access then, or one outside `[0, size)` of the
  allocation, sets the sticky flag `oob` (the access itself is carried out on the unbounded logical tape,
  so that the machine stays total; a run that ends with `oob = true` says nothing about the processor);
* `call r` to one of the three runtime addresses of `Cfg`, as ONE transition following the runtime
  contract of `basejit/mod.rs`:
    - all three need `rsp ≡ 0 (mod 16)` (System V) and `rdi = ` the context address (faults otherwise);
      they set `rax`-or-result, `rcx, rdx, rsi, rdi, r8–r11` to the unspecified values `Cfg.junk r`,
      make both flags undefined, and keep `rbx, rbp, rsp, r12–r15` and the stack;
    - `hpbf_context_input`: `Env.readByte`; returns the byte (end of input: 0) in `rax`, or `-1` after a
      failed request / without a source; records the event;
    - `hpbf_context_output`: the byte is the low 8 bits of `rsi`; returns a `bool` in `al` (the other 56
      bits of `rax` are junk): 1 iff the sink refused; records the event;
    - `hpbf_context_extend`: `Memory::make_accessible(rsi, rdx)` with the arithmetic of `Mem.growth`
      applied to `memory.size`/`memory.offset`; if it grows, `buffer` becomes `Cfg.newBuf old`, `base`
      moves down by the cells added below and `rbp` is stale.
Anything else (an instruction outside `X86Sem`'s subset, a jump to a byte offset that is no instruction
start, …) is a fault. Address arithmetic that would wrap the 64-bit address space is not modelled.
-/
import Hpbf.X86Sem
import Hpbf.JitGen
import Hpbf.Mem
import Hpbf.Bf

namespace Hpbf
namespace X86Prog

open Asm X86Sem

/-! ### Register file (a record, so that updates do not pile up closures) -/

structure RegFile where
  rax : BitVec 64
  rcx : BitVec 64
  rdx : BitVec 64
  rbx : BitVec 64
  rsp : BitVec 64
  rbp : BitVec 64
  rsi : BitVec 64
  rdi : BitVec 64
  r8 : BitVec 64
  r9 : BitVec 64
  r10 : BitVec 64
  r11 : BitVec 64
  r12 : BitVec 64
  r13 : BitVec 64
  r14 : BitVec 64
  r15 : BitVec 64

def RegFile.get (f : RegFile) : Reg → BitVec 64
  | .rax => f.rax | .rcx => f.rcx | .rdx => f.rdx | .rbx => f.rbx
  | .rsp => f.rsp | .rbp => f.rbp | .rsi => f.rsi | .rdi => f.rdi
  | .r8 => f.r8 | .r9 => f.r9 | .r10 => f.r10 | .r11 => f.r11
  | .r12 => f.r12 | .r13 => f.r13 | .r14 => f.r14 | .r15 => f.r15

def RegFile.ofFn (g : Reg → BitVec 64) : RegFile :=
  { rax := g .rax, rcx := g .rcx, rdx := g .rdx, rbx := g .rbx, rsp := g .rsp, rbp := g .rbp,
    rsi := g .rsi, rdi := g .rdi, r8 := g .r8, r9 := g .r9, r10 := g .r10, r11 := g .r11,
    r12 := g .r12, r13 := g .r13, r14 := g .r14, r15 := g .r15 }

def RegFile.set (f : RegFile) (r : Reg) (v : BitVec 64) : RegFile :=
  RegFile.ofFn (fun r' => if r' = r then v else f.get r')

/-! ### State -/

structure PState (w : Nat) where
  regs : RegFile
  zf : Option Bool
  cf : Option Bool
  /-- the tape by logical cell address -/
  tape : Tape w
  /-- logical address of the cell `rbp` points at -/
  lptr : Int
  /-- `rbp` points into the current buffer -/
  tapeOk : Bool
  /-- the 8-byte slots `[rsp]`, `[rsp+8]`, … that belong to this activation (and its return address) -/
  stk : List (BitVec 64)
  /-- `[rbx+0]`: `memory.buffer` -/
  buf : BitVec 64
  /-- `[rbx+8]`: `memory.size` in cells -/
  size : BitVec 64
  /-- `[rbx+16]`: `memory.offset` -/
  off : BitVec 64
  /-- `[rbx+24]`: `budget` -/
  budget : BitVec 64
  /-- logical address of `buffer[0]` -/
  base : Int
  env : Env
  trace : List Ev
  pc : Nat
  /-- some tape access was outside the allocation (or through a stale `rbp`) -/
  oob : Bool

inductive Fault where
  | noInstr        -- pc is not the start of an instruction
  | unfit          -- an operand outside the emitter's parameter type
  | unsupported    -- outside the modelled subset
  | flag           -- a conditional jump on an undefined flag
  | stack          -- stack slot outside the activation / pop from the empty list
  | misaligned     -- call with rsp not a multiple of 16
  | badCall        -- call to an unknown address, or rdi is not the context
  | badJump        -- negative target
  | cxt            -- [rbx+d] with rbx not the context or d not a field / read-only field written
  | unaligned      -- rbp moved by a non-multiple of the cell size
  deriving Repr, DecidableEq, Inhabited

inductive Step (w : Nat) where
  | next (s : PState w)
  | ret (s : PState w)
  | fault (f : Fault) (s : PState w)

/-- Static parameters of a run. -/
structure Cfg where
  /-- the instruction that starts at a byte offset -/
  fetch : Nat → Option X86
  aE : BitVec 64
  aI : BitVec 64
  aO : BitVec 64
  cxtAddr : BitVec 64
  /-- the unspecified value a register has after a runtime call (`junk .rsp`: content of a fresh stack
  slot) -/
  junk : Reg → BitVec 64
  /-- address of the buffer `make_accessible` allocates when it replaces the buffer at the given one -/
  newBuf : BitVec 64 → BitVec 64

variable {w : Nat}

/-! ### Decoding the program counter -/

/-- The instruction that starts at byte offset `pc` of `code`. -/
def fetchList : List X86 → Nat → Option X86
  | [], _ => none
  | x :: xs, pc =>
    if pc = 0 then some x
    else if pc < x.size then none
    else fetchList xs (pc - x.size)

/-! ### The `X86Sem` view -/

/-- Cell size in bytes. -/
def cellBytes (w : Nat) : Int := ((w / 8 : Nat) : Int)

/-- The state as `X86Sem` sees it: tape relative to `rbp`, stack relative to `rsp`. -/
def view (s : PState w) : MState w :=
  { regs := s.regs.get
    tape := fun o => s.tape.get (s.lptr + o)
    stack := fun k => s.stk.getD k 0
    zf := s.zf
    cf := s.cf }

/-- The `r/m` operand of an instruction (every instruction of the subset has at most one). -/
def rmOf : X86 → Option RegMem
  | .addRmImm _ rm _ | .addRmR _ rm _ | .addRRm _ _ rm | .subRmImm rm _ | .subRmR _ rm _
  | .subRRm _ _ rm | .imulRRmImm _ rm _ | .imulRRm _ rm | .incRm _ rm | .decRm _ rm
  | .movRmImm _ rm _ | .movRRm _ _ rm | .movRmR _ rm _ | .cmpRRm _ rm | .cmpRmImm8 _ rm _
  | .testRm8R8 rm _ | .sarRmImm8 rm _ | .callInd rm => some rm
  | _ => none

/-- Is the cell at offset `i` from `rbp` inside the allocation (and `rbp` current)? -/
def cellOk (s : PState w) (i : Int) : Bool :=
  s.tapeOk && decide (0 ≤ s.lptr - s.base + i) && decide (s.lptr - s.base + i < (s.size.toNat : Int))

/-- What the operand of `x` denotes, if it is a tape cell or a stack slot. -/
def placeOf (w : Nat) (x : X86) : Option Place := (rmOf x).bind (resolve w)

/-- An instruction of `X86Sem`'s subset: run it on the view, then store the result back. The only tape
cell / stack slot it can have changed is the one its operand denotes. -/
def stepPlain (x : X86) (s : PState w) : Step w :=
  match exec x (view s) with
  | none => .fault .unsupported s
  | some m' =>
    let s1 : PState w := { s with regs := RegFile.ofFn m'.regs, zf := m'.zf, cf := m'.cf, pc := s.pc + x.size }
    match placeOf w x with
    | some (.cell i) =>
      -- (a cell that keeps its value is not stored again: loads leave the tape representation alone)
      .next { s1 with tape := if m'.tape i = s.tape.get (s.lptr + i) then s.tape
                              else s.tape.set (s.lptr + i) (m'.tape i),
                      oob := s.oob || !(cellOk s i) }
    | some (.slot k) =>
      if k < s.stk.length then .next { s1 with stk := s.stk.set k (m'.stack k) } else .fault .stack s
    | _ => .next s1

/-! ### Instructions outside `X86Sem` -/

def PState.setReg (s : PState w) (r : Reg) (v : BitVec 64) : PState w := { s with regs := s.regs.set r v }

def PState.adv (s : PState w) (x : X86) : PState w := { s with pc := s.pc + x.size }

/-- Condition of a conditional jump; `none` = the flag is undefined. -/
def cond (s : PState w) : JmpPred → Option Bool
  | .below => s.cf
  | .equal => s.zf
  | .notEqual => s.zf.map (!·)

/-- Jump relative to the end of the instruction `x`. -/
def jumpTo (s : PState w) (x : X86) (d : Int) : Step w :=
  let t : Int := (s.pc : Int) + x.size + d
  if 0 ≤ t then .next { s with pc := t.toNat } else .fault .badJump s

/-- Field of the context record. -/
def cxtField (s : PState w) (d : Int) : Option (BitVec 64) :=
  if d = 0 then some s.buf else if d = 8 then some s.size else if d = 16 then some s.off
  else if d = 24 then some s.budget else none

/-- Value of a 64-bit source operand that may be a register, a stack slot or a context field.
`none` = none of these. -/
def src64 (cfg : Cfg) (s : PState w) : RegMem → Option (BitVec 64)
  | .reg r => some (s.regs.get r)
  | .mem (some .rbx) none 1 d => if s.regs.get .rbx = cfg.cxtAddr then cxtField s d else none
  | rm =>
    match resolve w rm with
    | some (.slot k) => if k < s.stk.length then some (s.stk.getD k 0) else none
    | _ => none

/-- `rbp := v` where `v` is an absolute address: the logical position follows from the distance to
`buffer`. -/
def loadRbp (s : PState w) (v : BitVec 64) : Option (PState w) :=
  let d := (v - s.buf).toInt
  let b := cellBytes w
  if b ≠ 0 ∧ d % b = 0 then
    some { s with regs := s.regs.set .rbp v, lptr := s.base + d / b, tapeOk := true }
  else none

/-- `rbp := rbp + delta` (relative move). -/
def moveRbp (s : PState w) (delta : Int) : Option (PState w) :=
  let b := cellBytes w
  if b ≠ 0 ∧ delta % b = 0 then
    some { s with regs := s.regs.set .rbp (s.regs.get .rbp + BitVec.ofInt 64 delta),
                  lptr := s.lptr + delta / b }
  else none

/-- The caller-saved registers after a call that returns `ret` in `rax`. -/
def clobber (cfg : Cfg) (f : RegFile) (ret : BitVec 64) : RegFile :=
  { f with rax := ret, rcx := cfg.junk .rcx, rdx := cfg.junk .rdx, rsi := cfg.junk .rsi,
           rdi := cfg.junk .rdi, r8 := cfg.junk .r8, r9 := cfg.junk .r9, r10 := cfg.junk .r10,
           r11 := cfg.junk .r11 }

/-- `Memory::make_accessible(a, b)` on the record (`hpbf_context_extend`, `enter_jit_code`). -/
def extend (cfg : Cfg) (s : PState w) (a b : Int) : PState w :=
  let m : Mem 8 := { buf := #[], size := s.size.toNat, offset := s.off.toNat }
  let g := m.growth a b
  if g.1 = 0 ∧ g.2.1 = 0 then s
  else
    { s with buf := cfg.newBuf s.buf
             size := BitVec.ofNat 64 g.2.2.1
             off := BitVec.ofNat 64 (s.off.toNat + g.2.2.2)
             base := s.base - (g.2.2.2 : Int)
             tapeOk := false }

/-- The three runtime functions. -/
def call (cfg : Cfg) (x : X86) (s : PState w) (target : BitVec 64) : Step w :=
  if s.regs.rsp.toNat % 16 ≠ 0 then .fault .misaligned s
  else if s.regs.rdi ≠ cfg.cxtAddr then .fault .badCall s
  else if target = cfg.aI then
    match s.env.readByte with
    | .got b e =>
      .next { s with regs := clobber cfg s.regs (BitVec.ofNat 64 b.toNat), zf := none, cf := none,
                     env := e, trace := Ev.inp b :: s.trace, pc := s.pc + x.size }
    | .failed e =>
      .next { s with regs := clobber cfg s.regs (BitVec.ofInt 64 (-1)), zf := none, cf := none,
                     env := e, trace := Ev.inpFail :: s.trace, pc := s.pc + x.size }
    | .absent =>
      .next { s with regs := clobber cfg s.regs (BitVec.ofInt 64 (-1)), zf := none, cf := none,
                     pc := s.pc + x.size }
  else if target = cfg.aO then
    let b : UInt8 := UInt8.ofNat (s.regs.rsi.setWidth 8).toNat
    let retv (failed : Bool) : BitVec 64 := mergeLow 8 (cfg.junk .rax) (if failed then 1 else 0)
    if s.env.sink then
      match s.env.writeByte with
      | (true, e) =>
        .next { s with regs := clobber cfg s.regs (retv false), zf := none, cf := none,
                       env := e, trace := Ev.out b :: s.trace, pc := s.pc + x.size }
      | (false, e) =>
        .next { s with regs := clobber cfg s.regs (retv true), zf := none, cf := none,
                       env := e, trace := Ev.outFail b :: s.trace, pc := s.pc + x.size }
    else
      .next { s with regs := clobber cfg s.regs (retv false), zf := none, cf := none, pc := s.pc + x.size }
  else if target = cfg.aE then
    let s' := extend cfg s s.regs.rsi.toInt s.regs.rdx.toInt
    .next { s' with regs := clobber cfg s.regs (cfg.junk .rax), zf := none, cf := none, pc := s.pc + x.size }
  else .fault .badCall s

/-- Flags of `cmp a, b` at `n` bits. -/
def cmpFlags (s : PState w) (n : Nat) (a b : BitVec 64) : PState w :=
  let r := alu .sub n a b
  { s with zf := some r.2.1, cf := some r.2.2 }

/-- The displacement `d` of a context operand `[rbx + d]`. -/
def cxtDisp : RegMem → Option Int
  | .mem (some .rbx) none 1 d => some d
  | _ => none

def stepJcc (s : PState w) (x : X86) (p : JmpPred) (d : Int) : Step w :=
  match cond s p with
  | none => .fault .flag s
  | some true => jumpTo s x d
  | some false => .next (s.adv x)

def stepRet (s : PState w) : Step w :=
  match s.stk with
  | [] => .fault .stack s
  | _ :: rest => .ret { s with stk := rest, regs := s.regs.set .rsp (s.regs.rsp + 8) }

def stepPush (x : X86) (r : Reg) (s : PState w) : Step w :=
  .next { s with stk := s.regs.get r :: s.stk, regs := s.regs.set .rsp (s.regs.rsp - 8), pc := s.pc + x.size }

def stepPop (x : X86) (r : Reg) (s : PState w) : Step w :=
  match s.stk with
  | [] => .fault .stack s
  | v :: rest =>
    if r = .rsp then .fault .unsupported s
    else
      .next { s with stk := rest, regs := (s.regs.set .rsp (s.regs.rsp + 8)).set r v, pc := s.pc + x.size,
                     tapeOk := if r = .rbp then false else s.tapeOk }

/-- `sub rsp, imm`: new slots with unspecified content. -/
def stepSubRsp (cfg : Cfg) (x : X86) (imm : Int) (s : PState w) : Step w :=
  if 0 ≤ imm ∧ imm % 8 = 0 then
    let r := alu .sub 64 s.regs.rsp (immVal imm)
    .next { s with stk := List.replicate (imm / 8).toNat (cfg.junk .rsp) ++ s.stk
                   regs := s.regs.set .rsp r.1, zf := some r.2.1, cf := some r.2.2, pc := s.pc + x.size }
  else .fault .unsupported s

/-- `add rsp, imm`: the slots are gone. -/
def stepAddRsp (x : X86) (imm : Int) (s : PState w) : Step w :=
  if 0 ≤ imm ∧ imm % 8 = 0 then
    if (imm / 8).toNat ≤ s.stk.length then
      let r := alu .add 64 s.regs.rsp (immVal imm)
      .next { s with stk := s.stk.drop (imm / 8).toNat
                     regs := s.regs.set .rsp r.1, zf := some r.2.1, cf := some r.2.2, pc := s.pc + x.size }
    else .fault .stack s
  else .fault .unsupported s

/-- `add rbp, imm`. -/
def stepAddRbp (x : X86) (imm : Int) (s : PState w) : Step w :=
  match moveRbp s imm with
  | none => .fault .unaligned s
  | some s' =>
    let r := alu .add 64 s.regs.rbp (immVal imm)
    .next { s' with zf := some r.2.1, cf := if imm == 1 || imm == -1 then s.cf else some r.2.2
                    pc := s.pc + x.size }

/-- `mov rbp, r/m64`. -/
def stepLoadRbp (cfg : Cfg) (x : X86) (rm : RegMem) (s : PState w) : Step w :=
  match src64 cfg s rm with
  | none => .fault .cxt s
  | some v =>
    match loadRbp s v with
    | none => .fault .unaligned s
    | some s' => .next (s'.adv x)

/-- `lea rbp, [rbp + i*scale + disp]`. -/
def stepLeaRbp (x : X86) (a : RegMem) (s : PState w) : Step w :=
  match a with
  | .mem (some .rbp) (some i) scale disp =>
    if (scale = 1 ∨ scale = 2 ∨ scale = 4 ∨ scale = 8) ∧ i ≠ .rsp ∧ i ≠ .rbp then
      match moveRbp s ((s.regs.get i).toInt * scale + disp) with
      | none => .fault .unaligned s
      | some s' => .next (s'.adv x)
    else .fault .unsupported s
  | _ => .fault .unsupported s

/-- `mov r64, [rbx+d]`. -/
def stepLoadCxt (cfg : Cfg) (x : X86) (r : Reg) (rm : RegMem) (s : PState w) : Step w :=
  if r = .rsp then .fault .unsupported s
  else match src64 cfg s rm with
    | none => .fault .cxt s
    | some v => .next ((s.setReg r v).adv x)

/-- `mov [rbx+d], r64`: only `offset` and `budget` are written by generated code. -/
def stepStoreCxt (cfg : Cfg) (x : X86) (d : Int) (r : Reg) (s : PState w) : Step w :=
  if s.regs.get .rbx ≠ cfg.cxtAddr then .fault .cxt s
  else if d = 16 then .next ({ s with off := s.regs.get r }.adv x)
  else if d = 24 then .next ({ s with budget := s.regs.get r }.adv x)
  else .fault .cxt s

/-- `sub r64, [rbx+d]`. -/
def stepSubCxt (cfg : Cfg) (x : X86) (r : Reg) (rm : RegMem) (s : PState w) : Step w :=
  if r = .rsp ∨ r = .rbp then .fault .unsupported s
  else match src64 cfg s rm with
    | none => .fault .cxt s
    | some v =>
      let a := alu .sub 64 (s.regs.get r) v
      .next ({ (s.setReg r a.1) with zf := some a.2.1, cf := some a.2.2 }.adv x)

/-- `cmp r64, r/m64`. -/
def stepCmpRRm (cfg : Cfg) (x : X86) (r : Reg) (rm : RegMem) (s : PState w) : Step w :=
  match src64 cfg s rm with
  | none => .fault .cxt s
  | some v => .next ((cmpFlags s 64 (s.regs.get r) v).adv x)

/-- `cmp r/m, imm8` on a tape cell (at the cell width), a 64-bit register or a stack slot. -/
def stepCmpImm (x : X86) (sz : Size) (rm : RegMem) (imm : Int) (s : PState w) : Step w :=
  match resolve w rm with
  | none => .fault .unsupported s
  | some p =>
    match readPlace (view s) sz p with
    | none => .fault .unsupported s
    | some a =>
      let s1 := (cmpFlags s sz.bits a (immVal imm)).adv x
      match p with
      | .cell i => .next { s1 with oob := s.oob || !(cellOk s i) }
      | .slot k => if k < s.stk.length then .next s1 else .fault .stack s
      | .reg _ => .next s1

/-- `test r8, r8` on low-byte registers that need no REX prefix to be addressed as `r/m`. -/
def stepTest (x : X86) (rm : RegMem) (b : Reg) (s : PState w) : Step w :=
  match rm with
  | .reg a =>
    if needsRexByte a then .fault .unsupported s
    else
      let v := trunc 8 (s.regs.get a &&& s.regs.get b)
      .next ({ s with zf := some (v == 0), cf := some false }.adv x)
  | _ => .fault .unsupported s

/-- `sar r64, imm8` (CF, the last bit shifted out, is not modelled). -/
def stepSar (x : X86) (rm : RegMem) (k : Nat) (s : PState w) : Step w :=
  match rm with
  | .reg r =>
    if r = .rsp ∨ r = .rbp ∨ 64 ≤ k then .fault .unsupported s
    else
      let v := (s.regs.get r).sshiftRight k
      .next ({ (s.setReg r v) with zf := if k = 0 then s.zf else some (v == 0),
                                   cf := if k = 0 then s.cf else none }.adv x)
  | _ => .fault .unsupported s

/-- One instruction. -/
def stepInstr (cfg : Cfg) (x : X86) (s : PState w) : Step w :=
  if !x.fits then .fault .unfit s else
  match x with
  | .jccRel32 p d => stepJcc s x p d
  | .jccRel8 p d => stepJcc s x p d
  | .jmpRel8 d => jumpTo s x d
  | .ret => stepRet s
  | .callInd rm =>
    match rm with
    | .reg r => call cfg x s (s.regs.get r)
    | _ => .fault .unsupported s
  | .push r => stepPush x r s
  | .pop r => stepPop x r s
  | .subRmImm rm imm => if rm = .reg .rsp then stepSubRsp cfg x imm s else stepPlain x s
  | .addRmImm sz rm imm =>
    if sz = .b64 ∧ rm = .reg .rsp then stepAddRsp x imm s
    else if sz = .b64 ∧ rm = .reg .rbp then stepAddRbp x imm s
    else stepPlain x s
  | .movRRm sz r rm =>
    if sz = .b64 ∧ r = .rbp then stepLoadRbp cfg x rm s
    else if sz = .b64 ∧ (cxtDisp rm).isSome then stepLoadCxt cfg x r rm s
    else stepPlain x s
  | .lea r a => if r = .rbp then stepLeaRbp x a s else stepPlain x s
  | .movRmR sz rm r =>
    match cxtDisp rm with
    | some d => if sz = .b64 then stepStoreCxt cfg x d r s else .fault .unsupported s
    | none => stepPlain x s
  | .subRRm sz r rm =>
    if sz = .b64 ∧ (cxtDisp rm).isSome then stepSubCxt cfg x r rm s else stepPlain x s
  | .cmpRRm r rm => stepCmpRRm cfg x r rm s
  | .cmpRmImm8 sz rm imm => stepCmpImm x sz rm imm s
  | .testRm8R8 rm b => stepTest x rm b s
  | .sarRmImm8 rm k => stepSar x rm k s
  | _ => stepPlain x s

/-- One step of the machine. -/
def step (cfg : Cfg) (s : PState w) : Step w :=
  match cfg.fetch s.pc with
  | none => .fault .noInstr s
  | some x => stepInstr cfg x s

inductive Outcome (w : Nat) where
  | ret (s : PState w)
  | fault (f : Fault) (s : PState w)
  | fuel (s : PState w)

def run (cfg : Cfg) : Nat → PState w → Outcome w
  | 0, s => .fuel s
  | n + 1, s =>
    match step cfg s with
    | .next s' => run cfg n s'
    | .ret s' => .ret s'
    | .fault f s' => .fault f s'

/-! ### A fast decoder (same function as `fetchList`, see `Proofs/C03FlowFetch`) -/

/-- Table from byte offset to the instruction starting there. -/
def fetchTable (code : List X86) : Array (Option X86) :=
  (code.foldl (fun (acc : Array (Option X86) × Nat) x => (acc.1.setIfInBounds acc.2 (some x), acc.2 + x.size))
    (Array.replicate (JitGen.sizeAll code) none, 0)).1

def fetchFast (tab : Array (Option X86)) (pc : Nat) : Option X86 := (tab[pc]?).join

/-! ### Entering compiled code (`enter_jit_code`) -/

/-- The state in which `enter_jit_code` calls the compiled function: fresh `Memory` made accessible on
`[minAcc, maxAcc]`, `rdi` = context, `rsi` = `current_ptr()`, the return address on the stack, every other
register unspecified. `rsp0` is the stack pointer at entry (`≡ 8 (mod 16)` under System V). -/
def initState (cfg : Cfg) (buf0 rsp0 retAddr : BitVec 64) (minAcc maxAcc : Int) (budget : Nat) (env : Env) :
    PState w :=
  let s0 : PState w :=
    { regs := RegFile.ofFn cfg.junk, zf := none, cf := none, tape := Tape.empty, lptr := 0, tapeOk := false,
      stk := [retAddr], buf := buf0, size := 0, off := 0, budget := BitVec.ofNat 64 budget, base := 0,
      env := env, trace := [], pc := 0, oob := false }
  let s1 := extend cfg s0 minAcc (maxAcc + 1)
  let ptr := s1.buf + BitVec.ofNat 64 (s1.off.toNat * (w / 8))
  { s1 with regs := ((s1.regs.set .rsp rsp0).set .rdi cfg.cxtAddr).set .rsi ptr }

end X86Prog
end Hpbf
