/-
Model of the command line front end `src/bin/hpbf.rs`: the fold over the arguments (`main`) and what the
process must do afterwards (which executor runs which code with which options, exit status, diagnostics).
The behaviour of the selected executor is expressed through the canonical semantics `Bf.run`.
-/
import Hpbf.Bf

namespace Hpbf
namespace Cli

/-- `ExecutorKind` (the LLVM variants are not compiled in this build). -/
inductive Kind where
  | printIr | printBc | printBc2 | inplace | irInt | bcInt | printMc | baseJit
  deriving Repr, DecidableEq, Inhabited

/-- Result of opening and reading a file named on the command line. -/
inductive FileRes where
  | ok (content : String)
  | openFailed          -- `File::open` failed
  | notUtf8             -- `read_to_string` failed
  deriving Repr, DecidableEq, Inhabited

structure Cfg where
  bits : Nat := 8
  printHelp : Bool := false
  kind : Kind := .baseJit
  opt : Nat := 2
  limit : Option Nat := none
  safe : Bool := true
  hasError : Bool := false
  nextIsFile : Bool := false
  nextIsLimit : Bool := false
  time : Bool := false
  code : String := ""
  stderr : List String := []     -- diagnostics, oldest first
  deriving Repr, DecidableEq, Inhabited

/-- The flags that select an executor kind. -/
def kindFlags : List (String × Kind) :=
  [("--print-ir", .printIr), ("--print-bc", .printBc), ("--print-jit-bc", .printBc2),
   ("--inplace", .inplace), ("--ir-int", .irInt), ("--bc-int", .bcInt),
   ("--print-jit-mc", .printMc), ("--base-jit", .baseJit)]

def optFlags : List (String × Nat) :=
  [("-O0", 0), ("-O1", 1), ("-O2", 2), ("-O3", 3), ("-O4", 4), ("-O5", 5)]

def bitsFlags : List (String × Nat) := [("-i8", 8), ("-i16", 16), ("-i32", 32), ("-i64", 64)]

def helpFlags : List String := ["-h", "-help", "--help"]
def fileFlags : List String := ["-f", "-file", "--file"]

/-- `arg.parse::<usize>()`: decimal digits only (an optional leading `+` is accepted by Rust). -/
def parseUsize (s : String) : Option Nat :=
  let body := if s.startsWith "+" then (s.drop 1).toString else s
  if body.isEmpty || !body.all Char.isDigit then none
  else
    let n := body.toNat!
    if n < 18446744073709551616 then some n else none

/-- One iteration of `for arg in env::args().skip(1)`. -/
def step (fs : String → FileRes) (c : Cfg) (arg : String) : Cfg :=
  if c.nextIsFile then
    let c := { c with nextIsFile := false }
    match fs arg with
    | .ok content => { c with code := c.code ++ content }
    | .notUtf8 => { c with hasError := true, stderr := c.stderr ++ ["error: failed to read file `" ++ arg ++ "`"] }
    | .openFailed => { c with hasError := true, stderr := c.stderr ++ ["error: failed to open file `" ++ arg ++ "`"] }
  else if c.nextIsLimit then
    let c := { c with nextIsLimit := false }
    match parseUsize arg with
    | some l => { c with limit := some l }
    | none => { c with stderr := c.stderr ++ [arg ++ ": ignoring invalid limit"] }
  else
    match kindFlags.lookup arg with
    | some k => { c with kind := k }
    | none =>
      match optFlags.lookup arg with
      | some o => { c with opt := o }
      | none =>
        match bitsFlags.lookup arg with
        | some b => { c with bits := b }
        | none =>
          if helpFlags.contains arg then { c with printHelp := true }
          else if fileFlags.contains arg then { c with nextIsFile := true }
          else if arg = "--limit" then { c with nextIsLimit := true }
          else if arg = "--static" then { c with safe := false }
          else if arg = "--time" then { c with time := true }
          else { c with code := c.code ++ arg }

/-- The whole argument loop plus the two trailing diagnostics. -/
def parseArgs (fs : String → FileRes) (args : List String) : Cfg :=
  let c := args.foldl (step fs) {}
  let c := if c.nextIsFile then { c with stderr := c.stderr ++ ["--file: ignoring missing file"] } else c
  if c.nextIsLimit then { c with stderr := c.stderr ++ ["--limit: ignoring missing limit"] } else c

/-- What the process does after argument parsing. -/
inductive Action where
  | help (exitCode : Nat)                      -- print the help text, run nothing
  | nothing (exitCode : Nat)                   -- a file error: run nothing, exit 1
  | print (k : Kind)                           -- parse (+ optimise + translate) and print, no execution, no input
  | exec (k : Kind) (bits opt : Nat) (limit : Option Nat) (safe : Bool)
  deriving Repr, DecidableEq, Inhabited

def isPrint : Kind → Bool
  | .printIr | .printBc | .printBc2 | .printMc => true
  | _ => false

def action (c : Cfg) : Action :=
  if c.printHelp then .help (if c.hasError then 1 else 0)
  else if c.hasError then .nothing 1
  else if isPrint c.kind then .print c.kind
  else .exec c.kind c.bits c.opt c.limit c.safe

/-- Does this executor kind parse the source up front (and hence reject unbalanced brackets)? -/
def parses : Kind → Bool
  | .inplace => false
  | _ => true

/-- The diagnostic of `print_error` for a bracket error. -/
def bracketDiag (closedMissing : Bool) : String :=
  if closedMissing then "error: unbalances brackets, loop not closed"
  else "error: unbalanced brackets, loop not opened"

end Cli
end Hpbf
