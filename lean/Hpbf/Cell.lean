/-
Model of `src/lib.rs` (`trait CellType` and its four impls), generic in the width `w`.
Cells are `BitVec w`; Rust's u8/u16/u32/u64 are `w = 8/16/32/64`.
Every definition mirrors the Rust function named in its doc comment, including the places
where Rust's `checked_shl/shr(..).unwrap_or(0)` yields zero.
No imports: this file is linked into the `driver` executable.
-/
namespace Hpbf

abbrev Cell (w : Nat) := BitVec w

namespace Cell

variable {w : Nat}

/-- `CellType::is_odd`: `self & ONE == ONE`. -/
def isOdd (x : BitVec w) : Bool := (x &&& 1#w) == 1#w

/-- `CellType::wrapping_shr`: `checked_shr(by).unwrap_or(0)` (zero once `by ≥ BITS`). -/
def wshr (x : BitVec w) (n : Nat) : BitVec w := if n < w then x >>> n else 0#w

/-- `CellType::wrapping_shl`: `checked_shl(by).unwrap_or(0)`. -/
def wshl (x : BitVec w) (n : Nat) : BitVec w := if n < w then x <<< n else 0#w

/-- Index of the lowest set bit at or above `i`, scanning at most `fuel` positions. -/
def tzAux (x : BitVec w) : Nat → Nat → Nat
  | 0, i => i
  | fuel + 1, i => if x.getLsbD i then i else tzAux x fuel (i + 1)

/-- `trailing_zeros` (Rust returns `BITS` for zero). -/
def trailingZeros (x : BitVec w) : Nat := tzAux x w 0

/-- Loop of `CellType::wrapping_pow`; `fuel` bounds the number of iterations (`w` suffices,
proved in `Proofs/C14`). -/
def powLoop : Nat → BitVec w → BitVec w → BitVec w → BitVec w
  | 0, _, _, result => result
  | fuel + 1, base, exp, result =>
    if exp = 0#w then result
    else
      let result := if isOdd exp then result * base else result
      powLoop fuel (base * base) (wshr exp 1) result

/-- `CellType::wrapping_pow`. -/
def wrappingPow (base exp : BitVec w) : BitVec w := powLoop w base exp 1#w

/-- `CellType::wrapping_inv`. -/
def wrappingInv (x : BitVec w) : Option (BitVec w) :=
  if isOdd x then
    let tot := wshl (1#w) (w - 1)
    some (wrappingPow x (tot + (-1#w)))
  else none

/-- `CellType::wrapping_div` (`self = n`, `div = d`). -/
def wrappingDiv (n d : BitVec w) : Option (BitVec w) :=
  let shift := trailingZeros d
  if n = 0#w then some 0#w
  else if shift > trailingZeros n then none
  else
    let d' := wshr d shift
    let tot := wshl (1#w) (w - shift - 1)
    let inv := wrappingPow d' (tot + (-1#w))
    let result := inv * wshr n shift
    some (result &&& (wshl (1#w) (w - shift) + (-1#w)))

/-- `into_u64`: zero extension (truncation never happens since `w ≤ 64`). -/
def intoU64 (x : BitVec w) : BitVec 64 := x.setWidth 64
/-- `into_i64`: sign extension. -/
def intoI64 (x : BitVec w) : BitVec 64 := x.signExtend 64
/-- `from_u64`: truncation. -/
def fromU64 (v : BitVec 64) : BitVec w := v.setWidth w
/-- `from_u8`. -/
def fromU8 (v : BitVec 8) : BitVec w := fromU64 (v.setWidth 64)
/-- `into_u8`. -/
def intoU8 (x : BitVec w) : BitVec 8 := (intoU64 x).setWidth 8
/-- `from_i16`: `val as i64 as u64` then truncate. -/
def fromI16 (v : BitVec 16) : BitVec w := fromU64 (v.signExtend 64)
/-- `try_into_i16`: `into_i64().try_into().ok()`. -/
def tryIntoI16 (x : BitVec w) : Option (BitVec 16) :=
  let v := (intoI64 x).toInt
  if -32768 ≤ v ∧ v ≤ 32767 then some (BitVec.ofInt 16 v) else none

end Cell
end Hpbf
