/-
Line-protocol handlers for the IR text format (decoder), the bytecode text format, and bytecode runs.
-/
import Hpbf.Driver2
import Hpbf.Bc
import Hpbf.BcWf
import Hpbf.Cert
import Hpbf.Cli
import Hpbf.Window
import Hpbf.OptArith

namespace Hpbf
namespace Driver3

/-! ### IR decoder (inverse of `Driver.encodeBlock`) -/

abbrev P := StateT (List Char) Option

def peek : P (Option Char) := do
  let s ← get
  return s.head?

def next : P Char := do
  let s ← get
  match s with
  | [] => failure
  | c :: cs => set cs; return c

def expect (c : Char) : P Unit := do
  let d ← next
  if d = c then return () else failure

partial def takeWhile (p : Char → Bool) : P (List Char) := do
  match (← peek) with
  | some c => if p c then do let _ ← next; let r ← takeWhile p; return c :: r else return []
  | none => return []

def pInt : P Int := do
  let neg ← (do match (← peek) with
                | some '-' => do let _ ← next; pure true
                | _ => pure false)
  let ds ← takeWhile Char.isDigit
  if ds.isEmpty then failure
  let n := (String.ofList ds).toNat!
  return if neg then -(n : Int) else (n : Int)

def pNat : P Nat := do
  let ds ← takeWhile Char.isDigit
  if ds.isEmpty then failure
  return (String.ofList ds).toNat!

partial def pVars : P (List Int) := do
  match (← peek) with
  | some '*' => do let _ ← next; let v ← pInt; let r ← pVars; return v :: r
  | _ => return []

def pPart (w : Nat) : P (Part w) := do
  let c ← pNat
  let vs ← pVars
  return { coef := BitVec.ofNat w c, vars := vs }

partial def pParts (w : Nat) : P (List (Part w)) := do
  let p ← pPart w
  match (← peek) with
  | some '+' => do let _ ← next; let r ← pParts w; return p :: r
  | _ => return [p]

/-- `0` alone is the empty expression; otherwise parts joined by `+` (a part `0` can only be alone). -/
def pExpr (w : Nat) : P (Expr w) := do
  let ps ← pParts w
  match ps with
  | [p] => if p.coef = 0#w && p.vars.isEmpty then return [] else return ps
  | _ => return ps

partial def pCalcs (w : Nat) : P (List (Int × Expr w)) := do
  let v ← pInt
  expect '='
  let e ← pExpr w
  match (← peek) with
  | some ';' => do let _ ← next; let r ← pCalcs w; return (v, e) :: r
  | _ => return [(v, e)]

mutual
partial def pInstr (w : Nat) : P (Ir.Instr w) := do
  let c ← next
  match c with
  | 'O' => return .output (← pInt)
  | 'I' => return .input (← pInt)
  | 'C' => do
    expect '('
    match (← peek) with
    | some ')' => do let _ ← next; return .calc []
    | _ => do
      let cs ← pCalcs w
      expect ')'
      return .calc cs
  | 'L' => do
    let cond ← pInt; expect ','
    let sh ← pInt; expect ','
    let once ← next
    expect '{'
    let body ← pInsts w
    expect '}'
    return .loop cond sh body (once = '1')
  | 'F' => do
    let cond ← pInt; expect ','
    let sh ← pInt
    expect '{'
    let body ← pInsts w
    expect '}'
    return .ifnz cond sh body
  | _ => failure
partial def pInsts (w : Nat) : P (List (Ir.Instr w)) := do
  match (← peek) with
  | some '}' => return []
  | none => return []
  | some ' ' => do let _ ← next; pInsts w
  | _ => do
    let i ← pInstr w
    let r ← pInsts w
    return i :: r
end

def pBlock (w : Nat) : P (Ir.Block w) := do
  expect 'B'
  let sh ← pInt
  expect '{'
  let insts ← pInsts w
  expect '}'
  return { shift := sh, insts := insts }

def decodeBlock (w : Nat) (s : String) : Option (Ir.Block w) :=
  match (pBlock w).run s.toList with
  | some (b, []) => some b
  | _ => none

/-! ### bytecode text -/

def encodeLoc {w : Nat} : Bc.Loc w → String
  | .mem o => "m" ++ toString o
  | .memZero o => "z" ++ toString o
  | .tmp i => "t" ++ toString i
  | .imm c => "i" ++ toString c.toNat

def encodeBcInstr {w : Nat} : Bc.Instr w → String
  | .noop => "noop"
  | .scan c s => "scan:" ++ toString c ++ ":" ++ toString s
  | .mov s => "mov:" ++ toString s
  | .inp d => "inp:" ++ toString d
  | .out s => "out:" ++ toString s
  | .brz c o => "brz:" ++ toString c ++ ":" ++ toString o
  | .brnz c o => "brnz:" ++ toString c ++ ":" ++ toString o
  | .add d a b => "add:" ++ encodeLoc d ++ ":" ++ encodeLoc a ++ ":" ++ encodeLoc b
  | .sub d a b => "sub:" ++ encodeLoc d ++ ":" ++ encodeLoc a ++ ":" ++ encodeLoc b
  | .mul d a b => "mul:" ++ encodeLoc d ++ ":" ++ encodeLoc a ++ ":" ++ encodeLoc b
  | .copy d s => "copy:" ++ encodeLoc d ++ ":" ++ encodeLoc s

def encodeBc {w : Nat} (p : Bc.Program w) : String :=
  let head := "P:" ++ toString p.temps ++ ":" ++ toString p.minAcc ++ ":" ++ toString p.maxAcc
  let body := (p.insts.toList.zip p.live.toList).map (fun il => encodeBcInstr il.1 ++ "@" ++ toString il.2)
  " ".intercalate (head :: body)

def decodeLoc (w : Nat) (s : String) : Option (Bc.Loc w) :=
  let body := (s.drop 1).toString
  match s.front with
  | 'm' => body.toInt?.map .mem
  | 'z' => body.toInt?.map .memZero
  | 't' => body.toNat?.map .tmp
  | 'i' => body.toNat?.map (fun c => .imm (BitVec.ofNat w c))
  | _ => none

def decodeBcInstr (w : Nat) (tok : String) : Option (Bc.Instr w × Nat) := do
  let (ins, live) ← match tok.splitOn "@" with
    | [a, b] => b.toNat?.map (fun l => (a, l))
    | _ => none
  let i ← match ins.splitOn ":" with
    | ["noop"] => some Bc.Instr.noop
    | ["scan", c, s] => do some (.scan (← c.toInt?) (← s.toInt?))
    | ["mov", s] => do some (.mov (← s.toInt?))
    | ["inp", d] => do some (.inp (← d.toInt?))
    | ["out", s] => do some (.out (← s.toInt?))
    | ["brz", c, o] => do some (.brz (← c.toInt?) (← o.toInt?))
    | ["brnz", c, o] => do some (.brnz (← c.toInt?) (← o.toInt?))
    | ["add", d, a, b] => do some (.add (← decodeLoc w d) (← decodeLoc w a) (← decodeLoc w b))
    | ["sub", d, a, b] => do some (.sub (← decodeLoc w d) (← decodeLoc w a) (← decodeLoc w b))
    | ["mul", d, a, b] => do some (.mul (← decodeLoc w d) (← decodeLoc w a) (← decodeLoc w b))
    | ["copy", d, s] => do some (.copy (← decodeLoc w d) (← decodeLoc w s))
    | _ => none
  some (i, live)

def decodeBc (w : Nat) (toks : List String) : Option (Bc.Program w) := do
  match toks with
  | head :: rest =>
    match head.splitOn ":" with
    | ["P", t, mn, mx] =>
      let temps ← t.toNat?; let mn ← mn.toInt?; let mx ← mx.toInt?
      let il ← rest.mapM (decodeBcInstr w)
      some { temps := temps, minAcc := mn, maxAcc := mx,
             insts := (il.map (·.1)).toArray, live := (il.map (·.2)).toArray }
    | _ => none
  | [] => none

def bcRun (w : Nat) (limited : Bool) (budget fuel : Nat) (env : Env) (win : Bool) (p : Bc.Program w) : String :=
  let r := Window.run .threadedSafe p limited budget fuel env { size := 0, cur := 0 }
  let lay := if win then " @" ++ toString r.lay.size ++ "/" ++ toString r.lay.cur ++ (if r.ok then "" else " OOB") else ""
  let show_ (tag : String) (c : Bc.Cfg w) : String :=
    tag ++ " " ++ Driver.encodeTrace c.st.trace ++ " " ++ (if win then Driver.window c.st else "-")
      ++ " b" ++ toString c.budget ++ lay
  match r.out with
  | .done c => show_ "ok" c
  | .stopped c => show_ "ok" c
  | .interrupted c => show_ "interrupted" c
  | .bad c => show_ "bad" c
  | .outOfFuel c => "fuel " ++ Driver.encodeTrace c.st.trace

def hexStr (s : String) : String := Driver.decodeHex s |>.bind (fun bs => String.fromUTF8? (ByteArray.mk bs.toArray)) |>.getD ""
def strHex (s : String) : String :=
  let bs := s.toUTF8.toList
  if bs.isEmpty then "-" else String.join (bs.map Driver.hexByte)

def kindName : Cli.Kind → String
  | .printIr => "print-ir" | .printBc => "print-bc" | .printBc2 => "print-jit-bc" | .inplace => "inplace"
  | .irInt => "ir-int" | .bcInt => "bc-int" | .printMc => "print-jit-mc" | .baseJit => "base-jit"

/-- `cli f:<name>:<ok|open|utf8>:<content> ... a:<arg> ...` (all fields hex): the configuration the
argument loop produces and the action that follows. -/
def cliRun (toks : List String) : Option String := do
  let files ← (toks.filter (·.startsWith "f:")).mapM (fun t =>
    match t.splitOn ":" with
    | [_, n, k, c] =>
      let r := if k = "ok" then some (Cli.FileRes.ok (hexStr c)) else if k = "open" then some .openFailed
               else if k = "utf8" then some .notUtf8 else none
      r.map (fun r => (hexStr n, r))
    | _ => none)
  let args := (toks.filter (·.startsWith "a:")).map (fun t => hexStr (t.drop 2).toString)
  let fs : String → Cli.FileRes := fun n => (files.lookup n).getD .openFailed
  let c := Cli.parseArgs fs args
  let act := match Cli.action c with
    | .help e => "help:" ++ toString e
    | .nothing e => "nothing:" ++ toString e
    | .print k => "print:" ++ kindName k
    | .exec k b o l s => "exec:" ++ kindName k ++ ":" ++ toString b ++ ":" ++ toString o ++ ":"
        ++ (match l with | some l => toString l | none => "none") ++ ":" ++ (if s then "safe" else "static")
  some ("action=" ++ act ++ " code=" ++ strHex c.code ++ " stderr=" ++
    (if c.stderr.isEmpty then "-" else "|".intercalate (c.stderr.map strHex)) ++ " time=" ++ toString c.time)

def handle (line : String) : String :=
  let toks := (line.splitOn " ").filter (· ≠ "")
  match toks with
  | "cli" :: rest => (cliRun rest).getD "bad-request"
  | "opt" :: kind :: ws :: args =>
    -- recompute an arithmetic decision of the optimiser from its recorded arguments
    (do
      let w ← ws.toNat?
      let bv (s : String) : Option (BitVec w) := s.toNat?.map (BitVec.ofNat w)
      let ex (s : String) : Option (Expr w) := (pExpr w).run s.toList |>.bind (fun r => if r.2.isEmpty then some r.1 else none)
      match kind, args with
      | "trip", [m, inc] => do
        let m ← bv m; let inc ← bv inc
        some (match OptArith.tripCount m inc with | some n => toString n.toNat | none => "inf")
      | "tripinv", [inc] => do
        let inc ← bv inc
        some (match OptArith.tripInv inc with | some n => toString n.toNat | none => "none")
      | "powmul", [mul, c] => do
        let mul ← bv mul; let c ← bv c
        some (toString (Cell.wrappingPow mul c).toNat)
      | "geom", [mul, c] => do
        let mul ← bv mul; let c ← bv c
        some (toString (Cell.wrappingPow mul c).toNat ++ " " ++ toString (OptArith.geomSum mul c).toNat)
      | "tri", [e, ini, inc, bef] => do
        let e ← ex e; let ini ← ex ini; let inc ← ex inc; let bef ← ex bef
        let r := OptArith.triStep e ini inc bef
        some (toString r.1 ++ " " ++ Driver.encodeExpr r.2)
      | _, _ => none).getD "bad-request"
  | ["const", x] => x
  | ["limchk", ws, sin, sout, hex, verdict, tr] =>
    -- the request carries the verdict of the canonical semantics computed earlier; re-derive and confirm
    (do
      let w ← ws.toNat?; let env ← Driver.decodeEnv sin sout
      let bs ← Driver.decodeHex hex
      let p ← Bf.tree (Driver.kindsOfBytes bs)
      if verdict = "div" then
        some (match Cert.certify (w := w) 60000 p env with
          | .diverges _ _ => if Driver.bfTrace w 200000 env (Driver.kindsOfBytes bs) = "fuel " ++ tr then "ok" else "canonical-mismatch"
          | _ => "canonical-mismatch")
      else
        let rep := Driver.bfTrace w 200000 env (Driver.kindsOfBytes bs)
        some (if rep = verdict ++ " " ++ tr then "ok" else "canonical-mismatch")).getD "bad-request"
  | ["divchk", ws, sin, sout, hex, verdict, tr, _long, _budget] =>
    -- the request carries the verdict of a previous `bfcert`; re-derive it and confirm
    (do
      let w ← ws.toNat?; let env ← Driver.decodeEnv sin sout
      let bs ← Driver.decodeHex hex
      let p ← Bf.tree (Driver.kindsOfBytes bs)
      some (match Cert.certify (w := w) 60000 p env with
        | .halts _ s => if verdict = "halts" && Driver.encodeTrace s.trace = tr then "ok" else "cert-mismatch"
        | .diverges c _ => if verdict = "diverges" && Driver.encodeTrace c.st.trace = tr then "ok" else "cert-mismatch"
        | .unknown _ => "cert-mismatch")).getD "bad-request"
  | ["bfcert", ws, fs, sin, sout, hex] =>
    (do
      let w ← ws.toNat?; let fuel ← fs.toNat?; let env ← Driver.decodeEnv sin sout
      let bs ← Driver.decodeHex hex
      let p ← Bf.tree (Driver.kindsOfBytes bs)
      some (match Cert.certify (w := w) fuel p env with
        | .halts k s => "halts " ++ k ++ " " ++ Driver.encodeTrace s.trace
        | .diverges c per => "diverges " ++ toString per ++ " " ++ Driver.encodeTrace c.st.trace
        | .unknown c => "unknown " ++ Driver.encodeTrace c.st.trace)).getD "bad-request"
  | "bcwf" :: ws :: nr :: _lvl :: _src :: bc =>
    (do
      let w ← ws.toNat?; let n ← nr.toNat?
      let p ← decodeBc w bc
      some (BcWf.diagnose p n)).getD "bad-request"
  | "irexec" :: ws :: fs :: sin :: sout :: rest =>
    -- run the IR interpreter model on IR given as text
    (do
      let w ← ws.toNat?; let fuel ← fs.toNat?; let env ← Driver.decodeEnv sin sout
      let b ← decodeBlock w (" ".intercalate rest)
      some (match Ir.run b false 0 fuel env with
        | .done c | .stopped c => "ok " ++ Driver.encodeTrace c.st.trace
        | .interrupted c => "interrupted " ++ Driver.encodeTrace c.st.trace
        | .outOfFuel c => "fuel " ++ Driver.encodeTrace c.st.trace)).getD "bad-request"
  | "irecho" :: ws :: rest =>
    -- decode/encode round trip of the IR text (sanity check of the decoder)
    match ws.toNat? with
    | some w => match decodeBlock w (" ".intercalate rest) with
      | some b => Driver.encodeBlock b
      | none => "bad-request"
    | none => "bad-request"
  | "jitrun" :: ws :: lim :: bud :: fs :: sin :: sout :: win :: bc =>
    -- the JIT executes the same bytecode semantics (unlimited mode); no layout in the reply
    (do
      let w ← ws.toNat?; let l ← Driver.boolOf lim; let b ← bud.toNat?; let fuel ← fs.toNat?
      let env ← Driver.decodeEnv sin sout
      let wn ← Driver.boolOf win
      let p ← decodeBc w bc
      let sw (c : Bc.Cfg w) : String := if wn then Driver.window c.st else "-"
      some (match Bc.run p l b fuel env with
        | .done c | .stopped c => "ok " ++ Driver.encodeTrace c.st.trace ++ " " ++ sw c ++ " b" ++ toString c.budget
        | .interrupted c => "interrupted " ++ Driver.encodeTrace c.st.trace ++ " " ++ sw c ++ " b" ++ toString c.budget
        | .bad c => "bad " ++ Driver.encodeTrace c.st.trace
        | .outOfFuel c => "fuel " ++ Driver.encodeTrace c.st.trace)).getD "bad-request"
  | "bcrun" :: ws :: lim :: bud :: fs :: sin :: sout :: win :: bc =>
    (do
      let w ← ws.toNat?; let l ← Driver.boolOf lim; let b ← bud.toNat?; let fuel ← fs.toNat?
      let env ← Driver.decodeEnv sin sout
      let wn ← Driver.boolOf win
      let p ← decodeBc w bc
      some (bcRun w l b fuel env wn p)).getD "bad-request"
  | _ => Driver2.handle line

end Driver3
end Hpbf
