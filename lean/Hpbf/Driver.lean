/-
Request decoding / reply encoding for the line protocol (see `Main.lean`).
Every reply is a deterministic, canonical text; malformed requests yield `bad-request` (never a default).
-/
import Hpbf.Cell
import Hpbf.Bf
import Hpbf.Inplace
import Hpbf.Mem
import Hpbf.SmallVec
import Hpbf.Expr
import Hpbf.Ir

namespace Hpbf
namespace Driver

/-! ### decoding helpers -/

def hexVal (c : Char) : Option Nat :=
  if '0' ≤ c ∧ c ≤ '9' then some (c.toNat - '0'.toNat)
  else if 'a' ≤ c ∧ c ≤ 'f' then some (c.toNat - 'a'.toNat + 10)
  else none

def hexBytes : List Char → Option (List UInt8)
  | [] => some []
  | [_] => none
  | a :: b :: rest =>
    match hexVal a, hexVal b, hexBytes rest with
    | some x, some y, some r => some (UInt8.ofNat (16 * x + y) :: r)
    | _, _, _ => none

/-- `-` encodes the empty byte string. -/
def decodeHex (s : String) : Option (List UInt8) :=
  if s = "-" then some [] else hexBytes s.toList

def hexDigit (n : Nat) : Char :=
  if n < 10 then Char.ofNat ('0'.toNat + n) else Char.ofNat ('a'.toNat + n - 10)

def hexByte (b : UInt8) : String :=
  String.ofList [hexDigit (b.toNat / 16), hexDigit (b.toNat % 16)]

def splitOnChar (s : String) (c : Char) : List String :=
  (s.splitOn (String.singleton c))

/-- `in=none` (absent), `in=-` (empty), `in=b41,e,x,...`; `out=none` (never refuses), `out=absent`, `out=<k>`. -/
def decodeEnv (sin sout : String) : Option Env := do
  let input ←
    if sin = "in=none" then some none
    else if sin = "in=-" then some (some [])
    else if sin.startsWith "in=" then
      let items := splitOnChar (sin.drop 3).toString ','
      let rs ← items.mapM (fun it =>
        if it = "e" then some InResp.eof
        else if it = "x" then some InResp.err
        else if it.startsWith "b" then
          match hexBytes (it.drop 1).toString.toList with
          | some [b] => some (InResp.byte b)
          | _ => none
        else none)
      some (some rs)
    else none
  let (sink, outOk) ←
    if sout = "out=none" then some (true, none)
    else if sout = "out=absent" then some (false, none)
    else if sout.startsWith "out=" then (sout.drop 4).toString.toNat?.map (fun k => (true, some k))
    else none
  some { input := input, sink := sink, outOk := outOk }

def encodeEv : Ev → String
  | .inp b => "i" ++ hexByte b
  | .inpFail => "I"
  | .out b => "o" ++ hexByte b
  | .outFail b => "O" ++ hexByte b

/-- Trace in chronological order. -/
def encodeTrace (t : List Ev) : String :=
  if t.isEmpty then "-" else ",".intercalate (t.reverse.map encodeEv)

def window {w : Nat} (s : State w) : String :=
  ",".intercalate ((List.range 9).map (fun (i : Nat) => toString (s.rd ((i : Int) - 4)).toNat))

/-! ### cell arithmetic -/

def cellOp (w : Nat) (op : String) (args : List Nat) : Option String :=
  let bv (n : Nat) : BitVec w := BitVec.ofNat w n
  let optS (o : Option (BitVec w)) : String := match o with | some v => toString v.toNat | none => "none"
  match op, args with
  | "pow", [a, b] => some (toString (Cell.wrappingPow (bv a) (bv b)).toNat)
  | "inv", [a] => some (optS (Cell.wrappingInv (bv a)))
  | "div", [a, b] => some (optS (Cell.wrappingDiv (bv a) (bv b)))
  | "tz", [a] => some (toString (Cell.trailingZeros (bv a)))
  | "shr", [a, b] => some (toString (Cell.wshr (bv a) b).toNat)
  | "shl", [a, b] => some (toString (Cell.wshl (bv a) b).toNat)
  | "odd", [a] => some (toString (Cell.isOdd (bv a)))
  | "intou64", [a] => some (toString (Cell.intoU64 (bv a)).toNat)
  | "intoi64", [a] => some (toString (Cell.intoI64 (bv a)).toNat)
  | "fromu64", [a] => some (toString (Cell.fromU64 (w := w) (BitVec.ofNat 64 a)).toNat)
  | "fromu8", [a] => some (toString (Cell.fromU8 (w := w) (BitVec.ofNat 8 a)).toNat)
  | "intou8", [a] => some (toString (Cell.intoU8 (bv a)).toNat)
  | "fromi16", [a] => some (toString (Cell.fromI16 (w := w) (BitVec.ofNat 16 a)).toNat)
  | "tryi16", [a] =>
    some (match Cell.tryIntoI16 (bv a) with | some v => toString v.toNat | none => "none")
  | _, _ => none

/-! ### tape API histories -/

/-- One reply item per operation, each followed by the layout `@size/offset`. -/
def memOps (w : Nat) : List String → Mem w → List String → Option (List String)
  | [], _, acc => some acc.reverse
  | tok :: rest, m, acc =>
    let lay (m : Mem w) : String := "@" ++ toString m.size ++ "/" ++ toString m.offset
    let body := (tok.drop 1).toString
    match tok.front with
    | 'm' => match body.toInt? with
      | some d => let m' := m.mov d; memOps w rest m' (("m" ++ lay m') :: acc)
      | none => none
    | 'r' => match body.toInt? with
      | some d => memOps w rest m (("r" ++ toString (m.read d).toNat ++ lay m) :: acc)
      | none => none
    | 'c' => match body.toInt? with
      | some d => memOps w rest m (("c" ++ toString (m.check d) ++ lay m) :: acc)
      | none => none
    | 'w' => match splitOnChar body ':' with
      | [a, b] => match a.toInt?, b.toNat? with
        | some d, some v => let m' := m.write d (BitVec.ofNat w v); memOps w rest m' (("w" ++ lay m') :: acc)
        | _, _ => none
      | _ => none
    | 'a' => match splitOnChar body ':' with
      | [a, b] => match a.toInt?, b.toInt? with
        | some s, some e => let m' := m.makeAccessible s e; memOps w rest m' (("a" ++ lay m') :: acc)
        | _, _ => none
      | _ => none
    | 's' => match body.toInt? with     -- set_current_ptr(current_ptr + delta bytes)
      | some d =>
        let rel := wrapU64 ((m.currentPtr : Int) + d)
        let m' := m.setCurrentPtr rel
        memOps w rest m' (("s" ++ lay m') :: acc)
      | none => none
    | 'k' => match body.toInt? with     -- check_ptr(current_ptr + delta bytes)
      | some d =>
        let rel := wrapU64 ((m.currentPtr : Int) + d)
        memOps w rest m (("k" ++ toString (m.checkPtr rel) ++ lay m) :: acc)
      | none => none
    | _ => none

/-! ### programs -/

def kindsOfBytes (bs : List UInt8) : List Kind := bs.map Kind.ofByte

def kindsOfUtf8 (bs : List UInt8) : Option (List Kind) :=
  match String.fromUTF8? (ByteArray.mk bs.toArray) with
  | some s => some (s.toList.map Kind.ofChar)
  | none => none

def bfRun (w fuel : Nat) (env : Env) (src : List Kind) : String :=
  match Bf.tree src with
  | none => "unbalanced"
  | some p =>
    match Bf.run (w := w) fuel p env with
    | .done s => "done " ++ encodeTrace s.trace ++ " " ++ window s
    | .stopped s => "stopped " ++ encodeTrace s.trace ++ " " ++ window s
    | .outOfFuel c => "fuel " ++ encodeTrace c.st.trace

/-- Canonical run, reply without the tape window (what the back ends can be compared on). -/
def bfTrace (w fuel : Nat) (env : Env) (src : List Kind) : String :=
  match Bf.tree src with
  | none => "unbalanced"
  | some p =>
    match Bf.run (w := w) fuel p env with
    | .done s => "ok " ++ encodeTrace s.trace
    | .stopped s => "ok " ++ encodeTrace s.trace
    | .outOfFuel c => "fuel " ++ encodeTrace c.st.trace

def inplaceRun (w : Nat) (limited : Bool) (budget fuel : Nat) (env : Env) (code : List Kind) : String :=
  let show_ (tag : String) (c : Inplace.Cfg w) : String :=
    tag ++ " " ++ encodeTrace c.st.trace ++ " " ++ window c.st ++ " b" ++ toString c.budget
  match Inplace.run (w := w) code.toArray limited budget fuel env with
  | .finished c => show_ "ok" c
  | .stopped c => show_ "ok" c
  | .interrupted c => show_ "interrupted" c
  | .notOpened p c => show_ ("notopened@" ++ toString p) c
  | .outOfFuel c => "fuel " ++ encodeTrace c.st.trace

/-! ### IR printing -/

def encodePart {w : Nat} (p : Part w) : String :=
  toString p.coef.toNat ++ String.join (p.vars.map (fun v => "*" ++ toString v))

def encodeExpr {w : Nat} (e : Expr w) : String :=
  if e.isEmpty then "0" else "+".intercalate (e.map encodePart)

mutual
partial def encodeInstr {w : Nat} : Ir.Instr w → String
  | .output s => "O" ++ toString s
  | .input d => "I" ++ toString d
  | .calc cs => "C(" ++ ";".intercalate (cs.map (fun ve => toString ve.1 ++ "=" ++ encodeExpr ve.2)) ++ ")"
  | .loop c sh body once =>
    "L" ++ toString c ++ "," ++ toString sh ++ "," ++ (if once then "1" else "0") ++ "{" ++ encodeInsts body ++ "}"
  | .ifnz c sh body => "F" ++ toString c ++ "," ++ toString sh ++ "{" ++ encodeInsts body ++ "}"
partial def encodeInsts {w : Nat} (l : List (Ir.Instr w)) : String :=
  " ".intercalate (l.map encodeInstr)
end

def encodeBlock {w : Nat} (b : Ir.Block w) : String :=
  "B" ++ toString b.shift ++ "{" ++ encodeInsts b.insts ++ "}"

def irParse (w : Nat) (src : List Kind) : String :=
  match Ir.parse (w := w) src with
  | .ok b => encodeBlock b
  | .error e =>
    (match e.kind with | .loopNotClosed => "notclosed@" | .loopNotOpened => "notopened@") ++ toString e.position

def irRun (w : Nat) (limited : Bool) (budget fuel : Nat) (env : Env) (src : List Kind) : String :=
  match Ir.parse (w := w) src with
  | .error _ => "parse-error"
  | .ok b =>
    let show_ (tag : String) (c : Ir.Cfg w) : String :=
      tag ++ " " ++ encodeTrace c.st.trace ++ " " ++ window c.st ++ " b" ++ toString c.budget
    match Ir.run b limited budget fuel env with
    | .done c => show_ "ok" c
    | .stopped c => show_ "ok" c
    | .interrupted c => show_ "interrupted" c
    | .outOfFuel c => "fuel " ++ encodeTrace c.st.trace

/-! ### dispatcher -/

def boolOf (s : String) : Option Bool := if s = "1" then some true else if s = "0" then some false else none

def handle (line : String) : String :=
  let toks := (line.splitOn " ").filter (· ≠ "")
  let r : Option String :=
    match toks with
    | "cell" :: ws :: op :: args => do
      let w ← ws.toNat?
      let as_ ← args.mapM String.toNat?
      cellOp w op as_
    | "mem" :: ws :: ops => do
      let w ← ws.toNat?
      let out ← memOps w ops Mem.new []
      some (" ".intercalate out)
    | ["bf", ws, fs, sin, sout, hex] => do
      let w ← ws.toNat?; let fuel ← fs.toNat?; let env ← decodeEnv sin sout
      let bs ← decodeHex hex
      some (bfRun w fuel env (kindsOfBytes bs))
    | ["bftrace", ws, fs, sin, sout, hex] => do
      let w ← ws.toNat?; let fuel ← fs.toNat?; let env ← decodeEnv sin sout
      let bs ← decodeHex hex
      some (bfTrace w fuel env (kindsOfBytes bs))
    | ["inplace", ws, lim, bud, fs, sin, sout, hex] => do
      let w ← ws.toNat?; let l ← boolOf lim; let b ← bud.toNat?; let fuel ← fs.toNat?
      let env ← decodeEnv sin sout
      let bs ← decodeHex hex
      some (inplaceRun w l b fuel env (kindsOfBytes bs))
    | ["irparse", ws, hex] => do
      let w ← ws.toNat?
      let bs ← decodeHex hex
      let ks ← kindsOfUtf8 bs
      some (irParse w ks)
    | ["irrun", ws, lim, bud, fs, sin, sout, hex] => do
      let w ← ws.toNat?; let l ← boolOf lim; let b ← bud.toNat?; let fuel ← fs.toNat?
      let env ← decodeEnv sin sout
      let bs ← decodeHex hex
      let ks ← kindsOfUtf8 bs
      some (irRun w l b fuel env ks)
    | _ => none
  r.getD "bad-request"

end Driver
end Hpbf
