/-
Line-protocol handlers for the data-structure models: `SmallVec` histories and `Expr` operation trees.
-/
import Hpbf.Driver

namespace Hpbf
namespace Driver2

open SmallVec

/-- Tracked element: identity and value (`PartialEq`/`Ord` look at the value only). -/
structure Elem where
  id : Nat
  val : Nat
  deriving Repr, DecidableEq, Inhabited

structure SvState where
  vars : List (Option (SV Elem))   -- three variables
  nextId : Nat
  allDrops : List Nat
  deriving Inhabited

def showElems (l : List Elem) : String :=
  if l.isEmpty then "-" else ",".intercalate (l.map (fun e => toString e.id ++ ":" ++ toString e.val))

def showIds (l : List Elem) : String :=
  if l.isEmpty then "-" else ",".intercalate (l.map (fun e => toString e.id))

def mkElems (st : SvState) (vals : List Nat) : List Elem × SvState :=
  let els := (List.range vals.length).zip vals |>.map (fun iv => { id := st.nextId + 1 + iv.1, val := iv.2 : Elem })
  (els, { st with nextId := st.nextId + vals.length })

def natList (s : String) : Option (List Nat) :=
  if s = "-" then some [] else (s.splitOn ",").mapM String.toNat?

def setVar (st : SvState) (a : Nat) (v : Option (SV Elem)) : SvState := { st with vars := st.vars.set a v }

def getVar (st : SvState) (a : Nat) : Option (SV Elem) := (st.vars[a]?).join

/-- Reply for an operation leaving variable `a` alive: its view and the ids dropped. -/
def finish (st : SvState) (a : Nat) (r : R Elem) : Option (String × SvState) :=
  match view r.sv with
  | .error _ => some ("UB", st)
  | .ok vs =>
    some (showElems vs ++ "/" ++ showIds r.dropped,
          { (setVar st a (some r.sv)) with allDrops := st.allDrops ++ r.dropped.map (·.id) })

def lexLt : List Nat → List Nat → Bool
  | [], [] => false
  | [], _ :: _ => true
  | _ :: _, [] => false
  | a :: as, b :: bs => if a < b then true else if b < a then false else lexLt as bs

def insertByVal (x : Elem) : List Elem → List Elem
  | [] => [x]
  | y :: ys => if y.val ≤ x.val then y :: insertByVal x ys else x :: y :: ys
def sortByVal (l : List Elem) : List Elem := l.foldl (fun acc x => insertByVal x acc) []

def svOp (cap : Nat) (st : SvState) (tok : String) : Option (String × SvState) :=
  match tok.splitOn ":" with
  | ["new", a] => do
    let a ← a.toNat?
    finish st a { sv := SmallVec.new cap }
  | ["cap", a, n] => do
    let a ← a.toNat?; let n ← n.toNat?
    finish st a { sv := withCapacity cap n }
  | ["fromvec", a, vs] => do
    let a ← a.toNat?; let vals ← natList vs
    let (els, st) := mkElems st vals
    finish st a { sv := fromVec cap els }
  | ["with", a, x] => do
    let a ← a.toNat?; let x ← x.toNat?
    let (els, st) := mkElems st [x]
    match extend (withCapacity cap 1) els with
    | .error _ => some ("UB", st)
    | .ok r => finish st a r
  | ["push", a, x] => do
    let a ← a.toNat?; let x ← x.toNat?; let v ← getVar st a
    let (els, st) := mkElems st [x]
    match extend v els with
    | .error _ => some ("UB", st)
    | .ok r => finish st a r
  | ["ext", a, vs] => do
    let a ← a.toNat?; let vals ← natList vs; let v ← getVar st a
    let (els, st) := mkElems st vals
    match extend v els with
    | .error _ => some ("UB", st)
    | .ok r => finish st a r
  | ["clear", a] => do
    let a ← a.toNat?; let v ← getVar st a
    match clear v with
    | .error _ => some ("UB", st)
    | .ok r => finish st a r
  | ["retain", a, m, rr] => do
    let a ← a.toNat?; let m ← m.toNat?; let rr ← rr.toNat?; let v ← getVar st a
    match retainMut true v (fun e => (e, e.val % m != rr)) with
    | .error _ => some ("UB", st)
    | .ok r => finish st a r
  | ["retmut", a, m, rr] => do
    let a ← a.toNat?; let m ← m.toNat?; let rr ← rr.toNat?; let v ← getVar st a
    match retainMut true v (fun e => ({ e with val := e.val + 1 }, (e.val + 1) % m != rr)) with
    | .error _ => some ("UB", st)
    | .ok r => finish st a r
  | ["dedup", a] => do
    let a ← a.toNat?; let v ← getVar st a
    match dedup true v (fun x y => x.val == y.val) with
    | .error _ => some ("UB", st)
    | .ok r => finish st a r
  | ["sort", a] => do
    let a ← a.toNat?; let v ← getVar st a
    match mapSlice v sortByVal with
    | .error _ => some ("UB", st)
    | .ok sv => finish st a { sv := sv }
  | ["clone", a, b] => do
    let a ← a.toNat?; let b ← b.toNat?; let v ← getVar st a
    match view v with
    | .error _ => some ("UB", st)
    | .ok vs =>
      -- the clones get fresh ids in order
      let (els, st) := mkElems st (vs.map (·.val))
      let idOf (e : Elem) : Elem := (els[(vs.findIdx (· == e))]?).getD e
      match clone v idOf with
      | .error _ => some ("UB", st)
      | .ok r =>
        -- assigning drops the old value of `b` afterwards
        let oldDrops : List Elem :=
          match getVar st b with
          | none => []
          | some old => match dropAll old with | .ok r => r.dropped | .error _ => []
        finish st b { r with dropped := r.dropped ++ oldDrops }
  | ["cmp", a, b] => do
    let a ← a.toNat?; let b ← b.toNat?; let va ← getVar st a; let vb ← getVar st b
    match view va, view vb with
    | .ok xs, .ok ys =>
      let xv := xs.map (·.val); let yv := ys.map (·.val)
      let c := if lexLt xv yv then "lt" else if lexLt yv xv then "gt" else "eq"
      some (toString (xv == yv) ++ "," ++ c, st)
    | _, _ => some ("UB", st)
  | ["iter", a, k] => do
    let a ← a.toNat?; let k ← k.toNat?; let v ← getVar st a
    let rec go (it : Iter Elem) (n : Nat) (got : List String) (dr : List Elem) : Option (Iter Elem × List String × List Elem) :=
      match n with
      | 0 => some (it, got.reverse, dr)
      | n + 1 =>
        match it.next with
        | .error _ => none
        | .ok (some e, it') => go it' n ((toString e.id ++ ":" ++ toString e.val) :: got) (dr ++ [e])
        | .ok (none, it') => go it' n ("none" :: got) dr
    match go (intoIter v) k [] [] with
    | none => some ("UB", st)
    | some (it, got, dr) =>
      match it.dropRest with
      | .error _ => some ("UB", st)
      | .ok (rest, _) =>
        let drops := dr ++ rest
        some ((if got.isEmpty then "-" else ",".intercalate got) ++ "/" ++ showIds drops,
              { (setVar st a none) with allDrops := st.allDrops ++ drops.map (·.id) })
  | ["drop", a] => do
    let a ← a.toNat?; let v ← getVar st a
    match dropAll v with
    | .error _ => some ("UB", st)
    | .ok r => some ("-/" ++ showIds r.dropped, { (setVar st a none) with allDrops := st.allDrops ++ r.dropped.map (·.id) })
  | ["end"] =>
    let (drops, ok) := st.vars.foldl (fun (acc : List Elem × Bool) v =>
      match v with
      | none => acc
      | some sv => match dropAll sv with
        | .ok r => (acc.1 ++ r.dropped, acc.2)
        | .error _ => (acc.1, false)) ([], true)
    if !ok then some ("UB", st) else
    let all := st.allDrops ++ drops.map (·.id)
    let ids := (List.range st.nextId).map (· + 1)
    let leaked := ids.filter (fun i => all.count i == 0)
    let twice := ids.filter (fun i => all.count i > 1)
    let showN (l : List Nat) : String := if l.isEmpty then "-" else ",".intercalate (l.map toString)
    some ("end/" ++ showIds drops ++ "/leaked=" ++ showN leaked ++ "/twice=" ++ showN twice
            ++ "/created=" ++ toString st.nextId, st)
  | _ => none

def svHistory (cap : Nat) (toks : List String) : Option String :=
  let rec go (toks : List String) (st : SvState) (acc : List String) : Option String :=
    match toks with
    | [] => some (" ".intercalate acc.reverse)
    | t :: ts =>
      match svOp cap st t with
      | none => none
      | some (reply, st') => go ts st' (reply :: acc)
  go toks { vars := [none, none, none], nextId := 0, allDrops := [] } []


/-! ### Expr operation trees -/

def optC {w : Nat} (o : Option (BitVec w)) : String := match o with | some c => toString c.toNat | none => "none"
def optE {w : Nat} (o : Option (Expr w)) : String := match o with | some e => Driver.encodeExpr e | none => "none"

def exprQueries {w : Nat} (e : Expr w) (assign : List Nat) : String :=
  let vars := Expr.variables e
  let base := "const=" ++ optC (Expr.constant e)
    ++ " ident=" ++ (match Expr.identity e with | some v => toString v | none => "none")
    ++ " cpart=" ++ toString (Expr.constantPart e).toNat
    ++ " zero=" ++ toString (Expr.isZero e)
    ++ " ops=" ++ toString (Expr.opCount e)
    ++ " adds=" ++ toString (Expr.addCount e)
    ++ " vars=" ++ (if vars.isEmpty then "-" else ",".intercalate (vars.map toString))
  let per (i : Int) : String :=
    " inc" ++ toString i ++ "=" ++ optE (Expr.incOf e i)
    ++ " pinc" ++ toString i ++ "=" ++ (match Expr.prodIncOf e i with
        | some (e', m) => Driver.encodeExpr e' ++ "@" ++ toString m.toNat | none => "none")
    ++ " cinc" ++ toString i ++ "=" ++ optC (Expr.constIncOf e i)
    ++ " prod" ++ toString i ++ "=" ++ optE (Expr.prodOf e i)
  let val := Expr.evaluate e (fun v => BitVec.ofNat w ((assign[(v + 1).toNat]?).getD 0))
  base ++ per 0 ++ per 1 ++ " eval=" ++ toString val.toNat

def exprRun (w : Nat) (toks : List String) : Option String :=
  match toks with
  | envTok :: ops =>
    if !envTok.startsWith "env:" then none else
    match Driver2.natList (envTok.drop 4).toString with
    | none => none
    | some assign =>
      let rec go (ops : List String) (stack : List (Expr w)) (acc : List String) : Option String :=
        match ops with
        | [] =>
          match stack with
          | top :: _ => some (" ".intercalate (acc.reverse ++ [exprQueries top assign]))
          | [] => none
        | t :: ts =>
          let push (e : Expr w) (rest : List (Expr w)) := go ts (e :: rest) (Driver.encodeExpr e :: acc)
          match t.splitOn ":", stack with
          | ["v", c], st => match c.toNat? with | some c => push (Expr.val (BitVec.ofNat w c)) st | none => none
          | ["x", v], st => match v.toInt? with | some v => push (Expr.var v) st | none => none
          | ["add"], b :: a :: st => push (Expr.add a b) st
          | ["mul"], b :: a :: st => push (Expr.mul a b) st
          | ["mulv"], b :: a :: st => push (Expr.mul a b) st
          | ["prodof", i], a :: st =>
            match i.toInt? with
            | some i => push ((Expr.prodOf a i).getD a) st
            | none => none
          | ["neg"], a :: st => push (Expr.neg a) st
          | ["half"], a :: st => push ((Expr.half a).getD a) st
          | ["norm"], a :: st => push (Expr.normalize a) st
          | ["sub", i], b :: a :: st =>
            match i.toInt? with
            | some i =>
              (match Expr.symbEvaluate a (fun v => if v = i then some b else some (Expr.var v)) with
               | some e => push e st
               | none => none)
            | none => none
          | ["subnone", i], a :: st =>
            match i.toInt? with
            | some i =>
              push ((Expr.symbEvaluate a (fun v => if v = i then none else some (Expr.var v))).getD a) st
            | none => none
          | _, _ => none
      go ops [] []
  | [] => none

def handle (line : String) : String :=
  let toks := (line.splitOn " ").filter (· ≠ "")
  match toks with
  | "sv" :: n :: ops =>
    match n.toNat? with
    | some cap => (svHistory cap ops).getD "bad-request"
    | none => "bad-request"
  | "expr" :: ws :: rest =>
    match ws.toNat? with
    | some w => (exprRun w rest).getD "bad-request"
    | none => "bad-request"
  | _ => Driver.handle line

end Driver2
end Hpbf
