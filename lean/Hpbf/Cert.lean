/-
Divergence certificates for the canonical semantics: a run that revisits a configuration (same code,
continuations, pointer, environment and tape contents; the trace may have grown) never terminates
(`Proofs/C05: repeat_diverges`). `findCycle` searches for such a repetition with Brent's algorithm.
-/
import Hpbf.Bf

namespace Hpbf
namespace Cert

variable {w : Nat}

/-- Cells of a tape in canonical form: indices with non-zero value, sorted, no duplicates. -/
def insertCell (i : Int) (v : BitVec w) : List (Int × BitVec w) → List (Int × BitVec w)
  | [] => [(i, v)]
  | (j, u) :: rest => if i < j then (i, v) :: (j, u) :: rest else if i = j then (j, u) :: rest
                      else (j, u) :: insertCell i v rest

/-- Normal form of a tape (first occurrence of a key wins, as in `Tape.lookup`). -/
def normTape (t : Tape w) : List (Int × BitVec w) :=
  (t.cells.foldl (fun (acc : List Int × List (Int × BitVec w)) kv =>
    if acc.1.contains kv.1 then acc
    else (kv.1 :: acc.1, if kv.2 = 0#w then acc.2 else insertCell kv.1 kv.2 acc.2)) ([], [])).2

/-- Same configuration up to the trace and the representation of the tape. -/
def sameCfg (a b : Bf.Config w) : Bool :=
  a.cur == b.cur && a.conts == b.conts && a.st.ptr == b.st.ptr && a.st.env == b.st.env &&
    normTape a.st.tape == normTape b.st.tape

inductive Verdict (w : Nat) where
  | halts (kind : String) (s : State w)
  | diverges (c : Bf.Config w) (period : Nat)   -- `c` is reached again after `period ≥ 1` steps
  | unknown (c : Bf.Config w)

/-- Brent's cycle detection: `tortoise` is a saved configuration, `power`/`lam` as usual. -/
def findCycle : Nat → Bf.Config w → Bf.Config w → Nat → Nat → Verdict w
  | 0, _, hare, _, _ => .unknown hare
  | fuel + 1, tortoise, hare, power, lam =>
    match Bf.step hare with
    | .halt s => .halts "done" s
    | .stop s => .halts "stopped" s
    | .next hare' =>
      if sameCfg tortoise hare' then .diverges tortoise (lam + 1)
      else if lam + 1 = power then findCycle fuel hare' hare' (power * 2) 0
      else findCycle fuel tortoise hare' power (lam + 1)

def certify (fuel : Nat) (p : Prog) (env : Env) : Verdict w :=
  let c : Bf.Config w := { cur := p, conts := [], st := State.init env }
  findCycle fuel c c 1 0

end Cert
end Hpbf
