/-
C07 lemmas: the budget-limited IR interpreter (`Ir.step true`) against the unlimited one
(`Ir.step false`).  `irErase` forgets the budget; every limited step that is not an interruption is the
same unlimited step (`ir_step_erase`), an interruption adds no event (`ir_interrupted_trace`), a budget
of at least the number of steps is never exhausted (`ir_not_interrupted`), and the potential
`irPhi` bounds the number of steps of a limited run (`ir_limited_halts`).
-/
import Hpbf.Ir
import Hpbf.Bc
import Hpbf.Proofs.C04

namespace Hpbf
namespace C07

variable {w : Nat}

/-! ### Generic facts about `Ir.runCfg` -/

theorem ir_run_next {l : Bool} {c c' : Ir.Cfg w} (h : Ir.step l c = .next c') (f : Nat) :
    Ir.runCfg l (f + 1) c = Ir.runCfg l f c' := by simp [Ir.runCfg, h]
theorem ir_run_halt {l : Bool} {c c' : Ir.Cfg w} (h : Ir.step l c = .halt c') (f : Nat) :
    Ir.runCfg l (f + 1) c = .done c' := by simp [Ir.runCfg, h]
theorem ir_run_stop {l : Bool} {c c' : Ir.Cfg w} (h : Ir.step l c = .stop c') (f : Nat) :
    Ir.runCfg l (f + 1) c = .stopped c' := by simp [Ir.runCfg, h]
theorem ir_run_interrupted {l : Bool} {c c' : Ir.Cfg w} (h : Ir.step l c = .interrupted c') (f : Nat) :
    Ir.runCfg l (f + 1) c = .interrupted c' := by simp [Ir.runCfg, h]

/-- Events of any outcome of the IR interpreter (most recent first). -/
def traceOfIr : Ir.Outcome w → List Ev
  | .done c => c.st.trace
  | .stopped c => c.st.trace
  | .interrupted c => c.st.trace
  | .outOfFuel c => c.st.trace

/-- Forget the budget. -/
def irErase (c : Ir.Cfg w) : Ir.Cfg w := { c with budget := 0 }

@[simp] theorem irErase_st (c : Ir.Cfg w) : (irErase c).st = c.st := rfl
@[simp] theorem irErase_cur (c : Ir.Cfg w) : (irErase c).cur = c.cur := rfl
@[simp] theorem irErase_conts (c : Ir.Cfg w) : (irErase c).conts = c.conts := rfl

def irMapRes (f : Ir.Cfg w → Ir.Cfg w) : Ir.StepRes w → Ir.StepRes w
  | .next c => .next (f c)
  | .halt c => .halt (f c)
  | .stop c => .stop (f c)
  | .interrupted c => .interrupted (f c)

theorem unwind_trace (ks : List (Ir.Cont w)) : ∀ st : State w, (Ir.unwind st ks).trace = st.trace := by
  induction ks with
  | nil => intro st; rfl
  | cons k ks ih =>
    intro st
    simp only [Ir.unwind, List.foldl] at ih ⊢
    rw [ih]; rfl

/-- What a limited step does, compared with the unlimited step on the budget-free configuration. -/
theorem ir_step_erase (c : Ir.Cfg w) :
    (∃ c', Ir.step true c = .interrupted c' ∧ c.budget = 0 ∧ c'.st.trace = c.st.trace) ∨
    ((∀ c', Ir.step true c ≠ .interrupted c') ∧
      Ir.step false (irErase c) = irMapRes irErase (Ir.step true c) ∧
      (∀ c', Ir.step true c = .next c' → c.budget ≤ c'.budget + 1 ∧ c'.budget ≤ c.budget)) := by
  obtain ⟨cur, conts, budget, st⟩ := c
  cases cur with
  | nil =>
    cases conts with
    | nil => right; simp [Ir.step, irErase, irMapRes]
    | cons k ks =>
      cases k with
      | loopEnd cond shift body rest =>
        by_cases hb : budget = 0
        · left
          subst hb
          refine ⟨_, by simp [Ir.step]; rfl, rfl, ?_⟩
          simp [unwind_trace, State.mov]
        · right
          simp only [Ir.step, irErase, irMapRes, hb, Bool.true_and, Bool.false_and, beq_iff_eq,
            if_false, if_true, Bool.false_eq_true]
          split <;> simp <;> omega
      | ifEnd shift rest =>
        by_cases hb : budget = 0
        · left
          subst hb
          refine ⟨_, by simp [Ir.step]; rfl, rfl, ?_⟩
          simp [unwind_trace, State.mov]
        · right
          simp [Ir.step, irErase, irMapRes, hb]
          omega
  | cons i rest =>
    right
    cases i with
    | output src =>
      simp only [Ir.step, irErase]
      rcases st.output src with ⟨ok, s⟩
      cases ok <;> simp [irMapRes, irErase]
    | input dst =>
      simp only [Ir.step, irErase]
      rcases st.input dst with ⟨ok, s⟩
      cases ok <;> simp [irMapRes, irErase]
    | «calc» calcs => simp [Ir.step, irErase, irMapRes]
    | loop cond shift body once =>
      by_cases hz : st.rd cond = 0#w <;> simp [Ir.step, hz, irMapRes, irErase]
    | ifnz cond shift body =>
      by_cases hz : st.rd cond = 0#w <;> simp [Ir.step, hz, irMapRes, irErase]

theorem ir_step_false_budget (c : Ir.Cfg w) (c' : Ir.Cfg w) (h : Ir.step false c = .next c') :
    c'.budget = c.budget := by
  obtain ⟨cur, conts, budget, st⟩ := c
  cases cur with
  | nil =>
    cases conts with
    | nil => simp [Ir.step] at h
    | cons k ks =>
      cases k with
      | loopEnd cond shift body rest =>
        simp only [Ir.step, Bool.false_and, Bool.false_eq_true, if_false] at h
        split at h <;> cases h <;> rfl
      | ifEnd shift rest =>
        simp only [Ir.step, Bool.false_and, Bool.false_eq_true, if_false] at h
        cases h; rfl
  | cons i rest =>
    cases i with
    | output src =>
      simp only [Ir.step] at h
      split at h <;> cases h; rfl
    | input dst =>
      simp only [Ir.step] at h
      split at h <;> cases h; rfl
    | «calc» calcs => simp only [Ir.step] at h; cases h; rfl
    | loop cond shift body once =>
      simp only [Ir.step] at h
      split at h <;> cases h <;> rfl
    | ifnz cond shift body =>
      simp only [Ir.step] at h
      split at h <;> cases h <;> rfl

/-! ### Limited runs are unlimited runs -/

/-- Relation of a limited outcome (from `c`, fuel `f`) to the unlimited machine. -/
def IrLimRel (f : Nat) (c : Ir.Cfg w) : Ir.Outcome w → Prop
  | .done c' => Ir.runCfg false f (irErase c) = .done (irErase c')
  | .stopped c' => Ir.runCfg false f (irErase c) = .stopped (irErase c')
  | .outOfFuel c' => Ir.runCfg false f (irErase c) = .outOfFuel (irErase c')
  | .interrupted c' =>
    ∃ g c'', g < f ∧ Ir.runCfg false g (irErase c) = .outOfFuel c'' ∧ c''.st.trace = c'.st.trace

theorem ir_lim_rel (f : Nat) : ∀ c : Ir.Cfg w, IrLimRel f c (Ir.runCfg true f c) := by
  induction f with
  | zero => intro c; simp [Ir.runCfg, IrLimRel]
  | succ f ih =>
    intro c
    rcases ir_step_erase c with ⟨c', hs, _, ht⟩ | ⟨hni, he, _⟩
    · rw [ir_run_interrupted hs]
      exact ⟨0, irErase c, Nat.succ_pos _, rfl, ht.symm⟩
    · cases hs : Ir.step true c with
      | next c1 =>
        rw [hs] at he
        rw [ir_run_next hs]
        have := ih c1
        cases hr : Ir.runCfg true f c1 with
        | done c' => rw [hr] at this; simp only [IrLimRel] at this ⊢; rw [ir_run_next he]; exact this
        | stopped c' => rw [hr] at this; simp only [IrLimRel] at this ⊢; rw [ir_run_next he]; exact this
        | outOfFuel c' =>
          rw [hr] at this; simp only [IrLimRel] at this ⊢; rw [ir_run_next he]; exact this
        | interrupted c' =>
          rw [hr] at this
          obtain ⟨g, c'', hg, hrun, ht⟩ := this
          exact ⟨g + 1, c'', by omega, by rw [ir_run_next he]; exact hrun, ht⟩
      | halt c1 => rw [hs] at he; rw [ir_run_halt hs]; exact ir_run_halt he f
      | stop c1 => rw [hs] at he; rw [ir_run_stop hs]; exact ir_run_stop he f
      | interrupted c1 => exact (hni c1 hs).elim

/-- A budget of at least the number of steps is never exhausted. -/
theorem ir_not_interrupted (f : Nat) :
    ∀ c : Ir.Cfg w, f ≤ c.budget → ∀ c', Ir.runCfg true f c ≠ .interrupted c' := by
  induction f with
  | zero => intro c _ c'; simp [Ir.runCfg]
  | succ f ih =>
    intro c hb c'
    rcases ir_step_erase c with ⟨c1, _, hz, _⟩ | ⟨hni, _, hbud⟩
    · omega
    · cases hs : Ir.step true c with
      | next c1 =>
        rw [ir_run_next hs]
        exact ih c1 (by have := (hbud c1 hs).1; omega) c'
      | halt c1 => rw [ir_run_halt hs]; simp
      | stop c1 => rw [ir_run_stop hs]; simp
      | interrupted c1 => exact (hni c1 hs).elim

/-! ### Limited runs return: the potential -/

mutual
/-- Number of instructions, counted recursively. -/
def irSize : Ir.Instr w → Nat
  | .loop _ _ body _ => 1 + irSizeL body
  | .ifnz _ _ body => 1 + irSizeL body
  | .output _ => 1
  | .input _ => 1
  | .calc _ => 1
def irSizeL : List (Ir.Instr w) → Nat
  | [] => 0
  | i :: is => irSize i + irSizeL is
end

def contRest : Ir.Cont w → List (Ir.Instr w)
  | .loopEnd _ _ _ rest => rest
  | .ifEnd _ rest => rest

def contBody : Ir.Cont w → List (Ir.Instr w)
  | .loopEnd _ _ body _ => body
  | .ifEnd _ _ => []

/-- Instructions waiting in the continuations. -/
def contW : List (Ir.Cont w) → Nat
  | [] => 0
  | k :: ks => irSizeL (contRest k) + contW ks

/-- Re-entering the body of any suspended loop stays within `N` instructions. -/
def contGood (N : Nat) : List (Ir.Cont w) → Prop
  | [] => True
  | k :: ks => irSizeL (contBody k) + contW (k :: ks) ≤ N ∧ contGood N ks

/-- Instructions that can run before the next loop/if end. -/
def irMu (c : Ir.Cfg w) : Nat := irSizeL c.cur + contW c.conts

def IrInv (N : Nat) (c : Ir.Cfg w) : Prop := irMu c ≤ N ∧ contGood N c.conts

def irPhi (N : Nat) (c : Ir.Cfg w) : Nat := irMu c + c.budget * (N + 1)

theorem ir_step_measure {N : Nat} {c c1 : Ir.Cfg w} (hinv : IrInv N c)
    (hs : Ir.step true c = .next c1) : IrInv N c1 ∧ irPhi N c1 < irPhi N c := by
  obtain ⟨cur, conts, budget, st⟩ := c
  obtain ⟨hmu, hgood⟩ := hinv
  cases cur with
  | nil =>
    cases conts with
    | nil => simp [Ir.step] at hs
    | cons k ks =>
      cases k with
      | loopEnd cond shift body rest =>
        simp only [Ir.step, Bool.true_and, beq_iff_eq, if_true] at hs
        split at hs
        · cases hs
        · rename_i hb
          obtain ⟨b', rfl⟩ : ∃ b', budget = b' + 1 := ⟨budget - 1, by omega⟩
          have hm : (b' + 1) * (N + 1) = b' * (N + 1) + (N + 1) := Nat.succ_mul _ _
          obtain ⟨hg1, hg2⟩ := hgood
          simp only [contBody, contW, contRest] at hg1
          split at hs
          · cases hs
            refine ⟨⟨?_, hg1, hg2⟩, ?_⟩
            · simp only [irMu, contW, contRest]; omega
            · simp only [irPhi, irMu, contW, contRest, irSizeL, Nat.add_sub_cancel]; omega
          · cases hs
            refine ⟨⟨?_, hg2⟩, ?_⟩
            · simp only [irMu]; omega
            · simp only [irPhi, irMu, contW, contRest, irSizeL, Nat.add_sub_cancel]; omega
      | ifEnd shift rest =>
        simp only [Ir.step, Bool.true_and, beq_iff_eq, if_true] at hs
        split at hs
        · cases hs
        · rename_i hb
          obtain ⟨b', rfl⟩ : ∃ b', budget = b' + 1 := ⟨budget - 1, by omega⟩
          have hm : (b' + 1) * (N + 1) = b' * (N + 1) + (N + 1) := Nat.succ_mul _ _
          obtain ⟨hg1, hg2⟩ := hgood
          simp only [contBody, contW, contRest] at hg1
          cases hs
          refine ⟨⟨?_, hg2⟩, ?_⟩
          · simp only [irMu]; omega
          · simp only [irPhi, irMu, contW, contRest, irSizeL, Nat.add_sub_cancel]; omega
  | cons i rest =>
    simp only [irMu, irSizeL] at hmu
    cases i with
    | output src =>
      simp only [Ir.step] at hs
      split at hs
      · cases hs
        simp only [irSize] at hmu
        exact ⟨⟨by simp only [irMu]; omega, hgood⟩, by simp only [irPhi, irMu, irSizeL, irSize]; omega⟩
      · cases hs
    | input dst =>
      simp only [Ir.step] at hs
      split at hs
      · cases hs
        simp only [irSize] at hmu
        exact ⟨⟨by simp only [irMu]; omega, hgood⟩, by simp only [irPhi, irMu, irSizeL, irSize]; omega⟩
      · cases hs
    | «calc» calcs =>
      simp only [Ir.step] at hs
      cases hs
      simp only [irSize] at hmu
      exact ⟨⟨by simp only [irMu]; omega, hgood⟩, by simp only [irPhi, irMu, irSizeL, irSize]; omega⟩
    | loop cond shift body once =>
      simp only [Ir.step] at hs
      simp only [irSize] at hmu
      split at hs
      · cases hs
        refine ⟨⟨?_, ?_, hgood⟩, ?_⟩
        · simp only [irMu, contW, contRest]; omega
        · simp only [contBody, contW, contRest]; omega
        · simp only [irPhi, irMu, irSizeL, irSize, contW, contRest]; omega
      · cases hs
        exact ⟨⟨by simp only [irMu]; omega, hgood⟩, by simp only [irPhi, irMu, irSizeL, irSize]; omega⟩
    | ifnz cond shift body =>
      simp only [Ir.step] at hs
      simp only [irSize] at hmu
      split at hs
      · cases hs
        refine ⟨⟨?_, ?_, hgood⟩, ?_⟩
        · simp only [irMu, contW, contRest]; omega
        · simp only [contBody, contW, contRest, irSizeL]; omega
        · simp only [irPhi, irMu, irSizeL, irSize, contW, contRest]; omega
      · cases hs
        exact ⟨⟨by simp only [irMu]; omega, hgood⟩, by simp only [irPhi, irMu, irSizeL, irSize]; omega⟩

/-- With more fuel than the potential, a limited run returns. -/
theorem ir_limited_halts (N : Nat) (f : Nat) :
    ∀ c : Ir.Cfg w, IrInv N c → irPhi N c < f → ∀ c', Ir.runCfg true f c ≠ .outOfFuel c' := by
  induction f with
  | zero => intro c _ h; omega
  | succ f ih =>
    intro c hinv hphi c'
    cases hs : Ir.step true c with
    | next c1 =>
      rw [ir_run_next hs]
      obtain ⟨hinv1, hlt⟩ := ir_step_measure hinv hs
      exact ih c1 hinv1 (by omega) c'
    | halt c1 => rw [ir_run_halt hs]; simp
    | stop c1 => rw [ir_run_stop hs]; simp
    | interrupted c1 => rw [ir_run_interrupted hs]; simp

/-! ## The bytecode machine -/

theorem bc_run_next {p : Bc.Program w} {l : Bool} {c c' : Bc.Cfg w} (h : Bc.step p l c = .next c')
    (f : Nat) : Bc.runCfg p l (f + 1) c = Bc.runCfg p l f c' := by simp [Bc.runCfg, h]
theorem bc_run_halt {p : Bc.Program w} {l : Bool} {c c' : Bc.Cfg w} (h : Bc.step p l c = .halt c')
    (f : Nat) : Bc.runCfg p l (f + 1) c = .done c' := by simp [Bc.runCfg, h]
theorem bc_run_stop {p : Bc.Program w} {l : Bool} {c c' : Bc.Cfg w} (h : Bc.step p l c = .stop c')
    (f : Nat) : Bc.runCfg p l (f + 1) c = .stopped c' := by simp [Bc.runCfg, h]
theorem bc_run_interrupted {p : Bc.Program w} {l : Bool} {c c' : Bc.Cfg w}
    (h : Bc.step p l c = .interrupted c') (f : Nat) :
    Bc.runCfg p l (f + 1) c = .interrupted c' := by simp [Bc.runCfg, h]
theorem bc_run_bad {p : Bc.Program w} {l : Bool} {c c' : Bc.Cfg w} (h : Bc.step p l c = .bad c')
    (f : Nat) : Bc.runCfg p l (f + 1) c = .bad c' := by simp [Bc.runCfg, h]

/-- Events of any outcome of the bytecode machine (most recent first). -/
def traceOfBc : Bc.Outcome w → List Ev
  | .done c => c.st.trace
  | .stopped c => c.st.trace
  | .interrupted c => c.st.trace
  | .bad c => c.st.trace
  | .outOfFuel c => c.st.trace

/-- Forget the budget. -/
def bcErase (c : Bc.Cfg w) : Bc.Cfg w := { c with budget := 0 }

@[simp] theorem bcErase_st (c : Bc.Cfg w) : (bcErase c).st = c.st := rfl
@[simp] theorem bcErase_pc (c : Bc.Cfg w) : (bcErase c).pc = c.pc := rfl
@[simp] theorem bcErase_temps (c : Bc.Cfg w) : (bcErase c).temps = c.temps := rfl

def bcMapRes (f : Bc.Cfg w → Bc.Cfg w) : Bc.StepRes w → Bc.StepRes w
  | .next c => .next (f c)
  | .halt c => .halt (f c)
  | .stop c => .stop (f c)
  | .interrupted c => .interrupted (f c)
  | .bad c => .bad (f c)

theorem readLoc_erase (c : Bc.Cfg w) (l : Bc.Loc w) :
    Bc.readLoc (bcErase c) l = ((Bc.readLoc c l).1, bcErase (Bc.readLoc c l).2) := by
  cases l <;> rfl

theorem readLoc_keeps (c : Bc.Cfg w) (l : Bc.Loc w) :
    (Bc.readLoc c l).2.budget = c.budget ∧ (Bc.readLoc c l).2.pc = c.pc := by
  cases l <;> exact ⟨rfl, rfl⟩

theorem writeLoc_erase (c : Bc.Cfg w) (v : BitVec w) (l : Bc.Loc w) :
    Bc.writeLoc (bcErase c) v l = (Bc.writeLoc c v l).map bcErase := by
  cases l <;> rfl

theorem writeLoc_keeps {c c' : Bc.Cfg w} {v : BitVec w} {l : Bc.Loc w}
    (h : Bc.writeLoc c v l = some c') : c'.budget = c.budget ∧ c'.pc = c.pc := by
  cases l <;> simp [Bc.writeLoc] at h <;> subst h <;> exact ⟨rfl, rfl⟩

theorem binop_erase (f : BitVec w → BitVec w → BitVec w) (c : Bc.Cfg w) (d a b : Bc.Loc w) :
    Bc.binop f (bcErase c) d a b = (Bc.binop f c d a b).map bcErase := by
  unfold Bc.binop
  split <;> simp only [readLoc_erase, writeLoc_erase]

theorem binop_keeps {f : BitVec w → BitVec w → BitVec w} {c c' : Bc.Cfg w} {d a b : Bc.Loc w}
    (h : Bc.binop f c d a b = some c') : c'.budget = c.budget ∧ c'.pc = c.pc := by
  unfold Bc.binop at h
  split at h
  · have := writeLoc_keeps h
    have h1 := readLoc_keeps c b
    have h2 := readLoc_keeps (Bc.readLoc c b).2 d
    exact ⟨this.1.trans (h2.1.trans h1.1), this.2.trans (h2.2.trans h1.2)⟩
  · have := writeLoc_keeps h
    have h1 := readLoc_keeps c a
    have h2 := readLoc_keeps (Bc.readLoc c a).2 b
    exact ⟨this.1.trans (h2.1.trans h1.1), this.2.trans (h2.2.trans h1.2)⟩

theorem branchTarget_le {pc : Nat} {off : Int} {n t : Nat} (h : Bc.branchTarget pc off n = some t) :
    t ≤ n := by
  unfold Bc.branchTarget at h
  simp only at h
  split at h
  · cases h; omega
  · cases h

theorem getElem?_some_lt {α : Type} {a : Array α} {i : Nat} {x : α} (h : a[i]? = some x) :
    i < a.size := by
  rcases Nat.lt_or_ge i a.size with h' | h'
  · exact h'
  · rw [Array.getElem?_eq_none h'] at h; cases h

/-- The shapes a non-interrupting limited step can have. -/
def BcNextShape (p : Bc.Program w) (c c1 : Bc.Cfg w) : Prop :=
  (c1.budget = c.budget ∧ c1.pc = c.pc + 1 ∧ c.pc < p.insts.size) ∨
  (c1.budget + 1 = c.budget ∧ c1.pc ≤ p.insts.size) ∨
  (∃ cond sh, p.insts[c.pc]? = some (.scan cond sh) ∧ sh ≠ 0 ∧ c.st.rd cond ≠ 0#w ∧
    c1 = { c with st := c.st.mov sh })

/-- The ways a limited step is interrupted. -/
def BcIntShape (p : Bc.Program w) (c : Bc.Cfg w) : Prop :=
  (∃ cond, p.insts[c.pc]? = some (.scan cond 0) ∧ c.st.rd cond ≠ 0#w) ∨
  (c.budget ≤ 1 ∧ ((∃ c1, Bc.step p false (bcErase c) = .next c1) ∨
    (∃ c1, Bc.step p false (bcErase c) = .bad c1)))

theorem bc_step_erase (p : Bc.Program w) (c : Bc.Cfg w) :
    (∃ c', Bc.step p true c = .interrupted c' ∧ c'.st = c.st ∧ BcIntShape p c) ∨
    ((∀ c', Bc.step p true c ≠ .interrupted c') ∧
      Bc.step p false (bcErase c) = bcMapRes bcErase (Bc.step p true c) ∧
      (∀ c1, Bc.step p true c = .next c1 → BcNextShape p c c1)) := by
  obtain ⟨pc, temps, budget, st⟩ := c
  cases hi : p.insts[pc]? with
  | none =>
    right
    by_cases hp : pc = p.insts.size <;> simp [Bc.step, hi, hp, bcErase, bcMapRes]
  | some ins =>
    have hlt := getElem?_some_lt hi
    cases ins with
    | noop =>
      right
      simp only [Bc.step, hi, bcErase]
      simp [bcMapRes, bcErase, BcNextShape, hlt]
    | mov sh =>
      right
      simp only [Bc.step, hi, bcErase]
      simp [bcMapRes, bcErase, BcNextShape, hlt]
    | scan cond sh =>
      by_cases hz : st.rd cond = 0#w
      · right
        simp only [Bc.step, hi, bcErase]
        simp [bcMapRes, bcErase, BcNextShape, hlt, hz]
      · by_cases hsh : sh = 0
        · left
          subst hsh
          exact ⟨⟨pc, temps, 0, st⟩, by simp [Bc.step, hi, hz], rfl, Or.inl ⟨cond, hi, hz⟩⟩
        · right
          refine ⟨by simp [Bc.step, hi, hz, hsh], by simp [Bc.step, hi, hz, hsh, bcErase, bcMapRes], ?_⟩
          intro c1 h1
          simp [Bc.step, hi, hz, hsh] at h1
          exact Or.inr (Or.inr ⟨cond, sh, hi, hsh, hz, h1.symm⟩)
    | inp dst =>
      right
      simp only [Bc.step, hi, bcErase]
      rcases st.input dst with ⟨ok, s⟩
      cases ok <;> simp [bcMapRes, bcErase, BcNextShape, hlt]
    | out src =>
      right
      simp only [Bc.step, hi, bcErase]
      rcases st.output src with ⟨ok, s⟩
      cases ok <;> simp [bcMapRes, bcErase, BcNextShape, hlt]
    | brz cond off =>
      by_cases hb : budget ≤ 1
      · left
        refine ⟨⟨pc, temps, 0, st⟩, by simp [Bc.step, hi, Bc.charge, hb], rfl, Or.inr ⟨hb, ?_⟩⟩
        simp only [Bc.step, hi, bcErase]
        by_cases hz : st.rd cond = 0#w
        · cases ht : Bc.branchTarget pc off p.insts.size <;> simp [hz, ht]
        · simp [hz]
      · right
        simp only [Bc.step, hi, bcErase, Bc.charge, hb, if_true, if_false, Bool.false_eq_true]
        by_cases hz : st.rd cond = 0#w
        · cases ht : Bc.branchTarget pc off p.insts.size with
          | none => simp [hz, bcMapRes, bcErase]
          | some t =>
            have := branchTarget_le ht
            simp [hz, bcMapRes, bcErase, BcNextShape]
            omega
        · simp [hz, bcMapRes, bcErase, BcNextShape]
          omega
    | brnz cond off =>
      by_cases hb : budget ≤ 1
      · left
        refine ⟨⟨pc, temps, 0, st⟩, by simp [Bc.step, hi, Bc.charge, hb], rfl, Or.inr ⟨hb, ?_⟩⟩
        simp only [Bc.step, hi, bcErase]
        by_cases hz : st.rd cond = 0#w
        · simp [hz]
        · cases ht : Bc.branchTarget pc off p.insts.size <;> simp [hz, ht]
      · right
        simp only [Bc.step, hi, bcErase, Bc.charge, hb, if_true, if_false, Bool.false_eq_true]
        by_cases hz : st.rd cond = 0#w
        · simp [hz, bcMapRes, bcErase, BcNextShape]
          omega
        · cases ht : Bc.branchTarget pc off p.insts.size with
          | none => simp [hz, bcMapRes, bcErase]
          | some t =>
            have := branchTarget_le ht
            simp [hz, bcMapRes, bcErase, BcNextShape]
            omega
    | add d a b =>
      right
      simp only [Bc.step, hi, bcErase_pc, binop_erase]
      cases hb : Bc.binop (· + ·) ⟨pc, temps, budget, st⟩ d a b with
      | none => simp [bcMapRes, bcErase]
      | some c' =>
        have := binop_keeps hb
        simp only [] at this
        simp [bcMapRes, bcErase, BcNextShape, this, hlt]
    | sub d a b =>
      right
      simp only [Bc.step, hi, bcErase_pc, binop_erase]
      cases hb : Bc.binop (fun x y => x + (-y)) ⟨pc, temps, budget, st⟩ d a b with
      | none => simp [bcMapRes, bcErase]
      | some c' =>
        have := binop_keeps hb
        simp only [] at this
        simp [bcMapRes, bcErase, BcNextShape, this, hlt]
    | mul d a b =>
      right
      simp only [Bc.step, hi, bcErase_pc, binop_erase]
      cases hb : Bc.binop (· * ·) ⟨pc, temps, budget, st⟩ d a b with
      | none => simp [bcMapRes, bcErase]
      | some c' =>
        have := binop_keeps hb
        simp only [] at this
        simp [bcMapRes, bcErase, BcNextShape, this, hlt]
    | copy d s =>
      right
      have hk := readLoc_keeps ⟨pc, temps, budget, st⟩ s
      simp only [Bc.step, hi, bcErase_pc, readLoc_erase, writeLoc_erase]
      cases hb : Bc.writeLoc (Bc.readLoc ⟨pc, temps, budget, st⟩ s).2
          (Bc.readLoc ⟨pc, temps, budget, st⟩ s).1 d with
      | none => simp [bcMapRes, bcErase]
      | some c' =>
        have := writeLoc_keeps hb
        simp only [] at hk
        simp [bcMapRes, bcErase, BcNextShape, this, hk, hlt]

/-! ### A stationary scan on a non-zero cell -/

theorem bc_stationary_scan_step {p : Bc.Program w} {c : Bc.Cfg w} {cond : Int}
    (hi : p.insts[c.pc]? = some (.scan cond 0)) (hz : c.st.rd cond ≠ 0#w) :
    Bc.step p false c = .next c ∧ Bc.step p true c = .interrupted { c with budget := 0 } := by
  simp [Bc.step, hi, hz]

/-- Unlimited mode: the machine stays in the same configuration forever. -/
theorem bc_stationary_scan_spins {p : Bc.Program w} {c : Bc.Cfg w} {cond : Int}
    (hi : p.insts[c.pc]? = some (.scan cond 0)) (hz : c.st.rd cond ≠ 0#w) (f : Nat) :
    Bc.runCfg p false f c = .outOfFuel c := by
  induction f with
  | zero => rfl
  | succ f ih => rw [bc_run_next (bc_stationary_scan_step hi hz).1]; exact ih

/-! ### Limited runs are unlimited runs -/

def BcLimRel (p : Bc.Program w) (f : Nat) (c : Bc.Cfg w) : Bc.Outcome w → Prop
  | .done c' => Bc.runCfg p false f (bcErase c) = .done (bcErase c')
  | .stopped c' => Bc.runCfg p false f (bcErase c) = .stopped (bcErase c')
  | .bad c' => Bc.runCfg p false f (bcErase c) = .bad (bcErase c')
  | .outOfFuel c' => Bc.runCfg p false f (bcErase c) = .outOfFuel (bcErase c')
  | .interrupted c' =>
    ∃ g c'', g < f ∧ Bc.runCfg p false g (bcErase c) = .outOfFuel c'' ∧ c''.st = c'.st

theorem bc_lim_rel (p : Bc.Program w) (f : Nat) :
    ∀ c : Bc.Cfg w, BcLimRel p f c (Bc.runCfg p true f c) := by
  induction f with
  | zero => intro c; simp [Bc.runCfg, BcLimRel]
  | succ f ih =>
    intro c
    rcases bc_step_erase p c with ⟨c', hs, ht, _⟩ | ⟨hni, he, _⟩
    · rw [bc_run_interrupted hs]
      exact ⟨0, bcErase c, Nat.succ_pos _, rfl, ht.symm⟩
    · cases hs : Bc.step p true c with
      | next c1 =>
        rw [hs] at he
        rw [bc_run_next hs]
        have := ih c1
        cases hr : Bc.runCfg p true f c1 with
        | done c' => rw [hr] at this; simp only [BcLimRel] at this ⊢; rw [bc_run_next he]; exact this
        | stopped c' => rw [hr] at this; simp only [BcLimRel] at this ⊢; rw [bc_run_next he]; exact this
        | bad c' => rw [hr] at this; simp only [BcLimRel] at this ⊢; rw [bc_run_next he]; exact this
        | outOfFuel c' =>
          rw [hr] at this; simp only [BcLimRel] at this ⊢; rw [bc_run_next he]; exact this
        | interrupted c' =>
          rw [hr] at this
          obtain ⟨g, c'', hg, hrun, ht⟩ := this
          exact ⟨g + 1, c'', by omega, by rw [bc_run_next he]; exact hrun, ht⟩
      | halt c1 => rw [hs] at he; rw [bc_run_halt hs]; exact bc_run_halt he f
      | stop c1 => rw [hs] at he; rw [bc_run_stop hs]; exact bc_run_stop he f
      | bad c1 => rw [hs] at he; rw [bc_run_bad hs]; exact bc_run_bad he f
      | interrupted c1 => exact (hni c1 hs).elim

theorem BcNextShape.budget {p : Bc.Program w} {c c1 : Bc.Cfg w} (h : BcNextShape p c c1) :
    c.budget ≤ c1.budget + 1 := by
  rcases h with ⟨h, _⟩ | ⟨h, _⟩ | ⟨_, _, _, _, _, rfl⟩
  · omega
  · omega
  · simp

/-- If a limited run with a budget of at least the number of steps is interrupted, the unlimited run
with the same fuel has not returned (or, when budget = steps, has hit malformed code). -/
theorem bc_interrupted_unlimited (p : Bc.Program w) (f : Nat) :
    ∀ (c c' : Bc.Cfg w), f ≤ c.budget → Bc.runCfg p true f c = .interrupted c' →
      (∃ c'', Bc.runCfg p false f (bcErase c) = .outOfFuel c'') ∨
      (¬ f < c.budget ∧ ∃ c'', Bc.runCfg p false f (bcErase c) = .bad c'') := by
  induction f with
  | zero => intro c c' _ h; simp [Bc.runCfg] at h
  | succ f ih =>
    intro c c' hb hr
    rcases bc_step_erase p c with ⟨c1, hs, _, hshape⟩ | ⟨hni, he, hnext⟩
    · rcases hshape with ⟨cond, hi, hz⟩ | ⟨hb1, hu⟩
      · exact Or.inl ⟨_, bc_stationary_scan_spins (c := bcErase c) hi hz (f + 1)⟩
      · have hf : f = 0 := by omega
        subst hf
        rcases hu with ⟨c2, h2⟩ | ⟨c2, h2⟩
        · exact Or.inl ⟨c2, by rw [bc_run_next h2]; rfl⟩
        · exact Or.inr ⟨by omega, c2, bc_run_bad h2 0⟩
    · cases hs : Bc.step p true c with
      | next c1 =>
        rw [hs] at he
        rw [bc_run_next hs] at hr
        have hbud := (hnext c1 hs).budget
        rw [bc_run_next he]
        rcases ih c1 c' (by omega) hr with h | ⟨hlt, h⟩
        · exact Or.inl h
        · exact Or.inr ⟨by omega, h⟩
      | halt c1 => rw [bc_run_halt hs] at hr; cases hr
      | stop c1 => rw [bc_run_stop hs] at hr; cases hr
      | bad c1 => rw [bc_run_bad hs] at hr; cases hr
      | interrupted c1 => exact (hni c1 hs).elim

/-! ### Limited runs return -/

/-- Finitely many cells of a tape are non-zero. -/
theorem tape_bounded (t : Tape w) : ∃ m M : Int, ∀ i, t.get i ≠ 0#w → m ≤ i ∧ i ≤ M := by
  obtain ⟨cells⟩ := t
  induction cells with
  | nil => exact ⟨0, 0, fun i h => (h rfl).elim⟩
  | cons kv rest ih =>
    obtain ⟨k, v⟩ := kv
    obtain ⟨m, M, h⟩ := ih
    refine ⟨min m k, max M k, fun i hi => ?_⟩
    simp only [Tape.get, Tape.lookup] at hi h
    by_cases hk : k = i
    · subst hk; omega
    · simp only [hk, if_false] at hi
      have := h i hi
      omega

/-- A moving scan leaves its instruction after finitely many steps, without touching the budget. -/
theorem bc_scan_terminates (p : Bc.Program w) (l : Bool) (c : Bc.Cfg w) {cond sh : Int}
    (hi : p.insts[c.pc]? = some (.scan cond sh)) (hsh : sh ≠ 0) :
    ∃ k c2, (∀ f, Bc.runCfg p l (k + f) c = Bc.runCfg p l f c2) ∧ c2.pc = c.pc + 1 ∧
      c2.budget = c.budget := by
  obtain ⟨m, M, hbnd⟩ := tape_bounded c.st.tape
  have key : ∀ (d : Nat) (ptr : Int), ((0 < sh → M - (ptr + cond) < d) ∧ (sh < 0 → (ptr + cond) - m < d)) →
      ∃ k c2, (∀ f, Bc.runCfg p l (k + f) { c with st := { c.st with ptr := ptr } } =
        Bc.runCfg p l f c2) ∧ c2.pc = c.pc + 1 ∧ c2.budget = c.budget := by
    intro d
    induction d with
    | zero =>
      intro ptr hd
      have hz : c.st.tape.get (ptr + cond) = 0#w := by
        apply Classical.byContradiction
        intro hne
        have := hbnd _ hne
        rcases Int.lt_or_gt_of_ne hsh with h | h
        · have := hd.2 h; omega
        · have := hd.1 h; omega
      refine ⟨1, { c with pc := c.pc + 1, st := { c.st with ptr := ptr } }, fun f => ?_, rfl, rfl⟩
      rw [Nat.add_comm]
      apply bc_run_next
      simp [Bc.step, hi, State.rd, hz]
    | succ d ih =>
      intro ptr hd
      by_cases hz : c.st.tape.get (ptr + cond) = 0#w
      · refine ⟨1, { c with pc := c.pc + 1, st := { c.st with ptr := ptr } }, fun f => ?_, rfl, rfl⟩
        rw [Nat.add_comm]
        apply bc_run_next
        simp [Bc.step, hi, State.rd, hz]
      · obtain ⟨k, c2, hk, h2⟩ := ih (ptr + sh) ⟨fun h => by have := hd.1 h; omega,
          fun h => by have := hd.2 h; omega⟩
        refine ⟨k + 1, c2, fun f => ?_, h2⟩
        have e : k + 1 + f = (k + f) + 1 := by omega
        rw [e, ← hk f]
        apply bc_run_next
        simp [Bc.step, hi, State.rd, hz, hsh, State.mov]
  have := key ((M - (c.st.ptr + cond)).toNat + ((c.st.ptr + cond) - m).toNat + 1) c.st.ptr
    ⟨fun _ => by omega, fun _ => by omega⟩
  exact this

/-- Potential of a limited bytecode run. -/
def bcPhi (p : Bc.Program w) (c : Bc.Cfg w) : Nat :=
  (p.insts.size + 1 - c.pc) + c.budget * (p.insts.size + 2)

theorem bcPhi_lt_of_shape {p : Bc.Program w} {c c1 : Bc.Cfg w}
    (h : (c1.budget = c.budget ∧ c1.pc = c.pc + 1 ∧ c.pc < p.insts.size) ∨
      (c1.budget + 1 = c.budget ∧ c1.pc ≤ p.insts.size)) : bcPhi p c1 < bcPhi p c := by
  unfold bcPhi
  rcases h with ⟨h1, h2, h3⟩ | ⟨h1, h2⟩
  · rw [h1, h2]; omega
  · rw [← h1, Nat.succ_mul]; omega

/-- No moving scan in the program. -/
def ScanFree (p : Bc.Program w) : Prop :=
  ∀ (i : Nat) (cond sh : Int), p.insts[i]? = some (Bc.Instr.scan cond sh) → sh = 0

theorem bc_limited_halts_scanfree {p : Bc.Program w} (hsf : ScanFree p) (f : Nat) :
    ∀ c : Bc.Cfg w, bcPhi p c < f → ∀ c', Bc.runCfg p true f c ≠ .outOfFuel c' := by
  induction f with
  | zero => intro c h; omega
  | succ f ih =>
    intro c hphi c'
    cases hs : Bc.step p true c with
    | next c1 =>
      rw [bc_run_next hs]
      rcases bc_step_erase p c with ⟨c2, hs2, _⟩ | ⟨_, _, hnext⟩
      · rw [hs] at hs2; cases hs2
      · rcases hnext c1 hs with h | h | ⟨cond, sh, hi, hsh, _⟩
        · exact ih c1 (by have := bcPhi_lt_of_shape (Or.inl h); omega) c'
        · exact ih c1 (by have := bcPhi_lt_of_shape (Or.inr h); omega) c'
        · exact (hsh (hsf _ _ _ hi)).elim
    | halt c1 => rw [bc_run_halt hs]; simp
    | stop c1 => rw [bc_run_stop hs]; simp
    | bad c1 => rw [bc_run_bad hs]; simp
    | interrupted c1 => rw [bc_run_interrupted hs]; simp

theorem bc_limited_halts (p : Bc.Program w) (n : Nat) :
    ∀ c : Bc.Cfg w, bcPhi p c < n → ∃ f, ∀ c', Bc.runCfg p true f c ≠ .outOfFuel c' := by
  induction n with
  | zero => intro c h; omega
  | succ n ih =>
    intro c hphi
    cases hs : Bc.step p true c with
    | next c1 =>
      rcases bc_step_erase p c with ⟨c2, hs2, _⟩ | ⟨_, _, hnext⟩
      · rw [hs] at hs2; cases hs2
      · rcases hnext c1 hs with h | h | ⟨cond, sh, hi, hsh, _⟩
        · obtain ⟨f, hf⟩ := ih c1 (by have := bcPhi_lt_of_shape (Or.inl h); omega)
          exact ⟨f + 1, fun c' => by rw [bc_run_next hs]; exact hf c'⟩
        · obtain ⟨f, hf⟩ := ih c1 (by have := bcPhi_lt_of_shape (Or.inr h); omega)
          exact ⟨f + 1, fun c' => by rw [bc_run_next hs]; exact hf c'⟩
        · obtain ⟨k, c2, hk, hpc, hbud⟩ := bc_scan_terminates p true c hi hsh
          have hlt := getElem?_some_lt hi
          obtain ⟨f, hf⟩ := ih c2 (by
            have := bcPhi_lt_of_shape (p := p) (c := c) (c1 := c2) (Or.inl ⟨hbud, hpc, hlt⟩); omega)
          exact ⟨k + f, fun c' => by rw [hk f]; exact hf c'⟩
    | halt c1 => exact ⟨1, fun c' => by rw [bc_run_halt hs]; simp⟩
    | stop c1 => exact ⟨1, fun c' => by rw [bc_run_stop hs]; simp⟩
    | bad c1 => exact ⟨1, fun c' => by rw [bc_run_bad hs]; simp⟩
    | interrupted c1 => exact ⟨1, fun c' => by rw [bc_run_interrupted hs]; simp⟩

/-! ## Event sequences only grow (both machines, both modes) -/

theorem doCalc_trace (s : State w) (calcs : List (Int × Expr w)) :
    (Ir.doCalc s calcs).trace = s.trace := by
  unfold Ir.doCalc
  simp only
  generalize calcs.map (fun ve => (ve.1, Expr.evaluate ve.2 (fun off => s.rd off))) = vals
  have : ∀ (vals : List (Int × BitVec w)) (t : State w),
      (vals.foldl (fun s vv => s.wr vv.1 vv.2) t).trace = t.trace := by
    intro vals
    induction vals with
    | nil => intro t; rfl
    | cons v vs ih => intro t; simp only [List.foldl]; rw [ih]; rfl
  exact this vals s

def irResCfg : Ir.StepRes w → Ir.Cfg w
  | .next c => c
  | .halt c => c
  | .stop c => c
  | .interrupted c => c

theorem ir_step_trace (l : Bool) (c : Ir.Cfg w) :
    c.st.trace <:+ (irResCfg (Ir.step l c)).st.trace := by
  obtain ⟨cur, conts, budget, st⟩ := c
  cases cur with
  | nil =>
    cases conts with
    | nil => exact List.suffix_refl _
    | cons k ks =>
      cases k with
      | loopEnd cond shift body rest =>
        simp only [Ir.step]
        split
        · simp [irResCfg, unwind_trace, State.mov]
        · split <;> simp [irResCfg, State.mov]
      | ifEnd shift rest =>
        simp only [Ir.step]
        split
        · simp [irResCfg, unwind_trace, State.mov]
        · simp [irResCfg, State.mov]
  | cons i rest =>
    cases i with
    | output src =>
      have := C04.output_trace st src
      simp only [Ir.step]
      rcases hio : st.output src with ⟨ok, s⟩
      rw [hio] at this
      cases ok <;> simpa [irResCfg] using this
    | input dst =>
      have := C04.input_trace st dst
      simp only [Ir.step]
      rcases hio : st.input dst with ⟨ok, s⟩
      rw [hio] at this
      cases ok <;> simpa [irResCfg] using this
    | «calc» calcs => simp [Ir.step, irResCfg, doCalc_trace]
    | loop cond shift body once =>
      simp only [Ir.step]
      split <;> simp [irResCfg]
    | ifnz cond shift body =>
      simp only [Ir.step]
      split <;> simp [irResCfg]

theorem ir_trace_start (l : Bool) (f : Nat) (c : Ir.Cfg w) :
    c.st.trace <:+ traceOfIr (Ir.runCfg l f c) := by
  induction f generalizing c with
  | zero => exact List.suffix_refl _
  | succ f ih =>
    have := ir_step_trace l c
    cases hs : Ir.step l c with
    | next c' => rw [hs] at this; rw [ir_run_next hs]; exact List.IsSuffix.trans this (ih c')
    | halt c' => rw [hs] at this; rw [ir_run_halt hs]; exact this
    | stop c' => rw [hs] at this; rw [ir_run_stop hs]; exact this
    | interrupted c' => rw [hs] at this; rw [ir_run_interrupted hs]; exact this

/-- The event sequence after `f` steps is an initial part of the one after `f + g` steps. -/
theorem ir_trace_add (l : Bool) (f g : Nat) (c : Ir.Cfg w) :
    traceOfIr (Ir.runCfg l f c) <:+ traceOfIr (Ir.runCfg l (f + g) c) := by
  induction f generalizing c with
  | zero => rw [Nat.zero_add]; exact ir_trace_start l g c
  | succ f ih =>
    have e : f + 1 + g = (f + g) + 1 := by omega
    rw [e]
    cases hs : Ir.step l c with
    | next c' => rw [ir_run_next hs, ir_run_next hs]; exact ih c'
    | halt c' => rw [ir_run_halt hs, ir_run_halt hs]; exact List.suffix_refl _
    | stop c' => rw [ir_run_stop hs, ir_run_stop hs]; exact List.suffix_refl _
    | interrupted c' => rw [ir_run_interrupted hs, ir_run_interrupted hs]; exact List.suffix_refl _

theorem readLoc_trace (c : Bc.Cfg w) (l : Bc.Loc w) : (Bc.readLoc c l).2.st.trace = c.st.trace := by
  cases l <;> rfl

theorem writeLoc_trace {c c' : Bc.Cfg w} {v : BitVec w} {l : Bc.Loc w}
    (h : Bc.writeLoc c v l = some c') : c'.st.trace = c.st.trace := by
  cases l <;> simp [Bc.writeLoc] at h <;> subst h <;> rfl

theorem binop_trace {f : BitVec w → BitVec w → BitVec w} {c c' : Bc.Cfg w} {d a b : Bc.Loc w}
    (h : Bc.binop f c d a b = some c') : c'.st.trace = c.st.trace := by
  unfold Bc.binop at h
  split at h
  · have := writeLoc_trace h
    exact this.trans ((readLoc_trace (Bc.readLoc c b).2 d).trans (readLoc_trace c b))
  · have := writeLoc_trace h
    exact this.trans ((readLoc_trace (Bc.readLoc c a).2 b).trans (readLoc_trace c a))

def bcResCfg : Bc.StepRes w → Bc.Cfg w
  | .next c => c
  | .halt c => c
  | .stop c => c
  | .interrupted c => c
  | .bad c => c

theorem bc_step_trace (p : Bc.Program w) (l : Bool) (c : Bc.Cfg w) :
    c.st.trace <:+ (bcResCfg (Bc.step p l c)).st.trace := by
  obtain ⟨pc, temps, budget, st⟩ := c
  cases hi : p.insts[pc]? with
  | none =>
    simp only [Bc.step, hi]
    split <;> exact List.suffix_refl _
  | some ins =>
    cases ins with
    | noop => simp [Bc.step, hi, bcResCfg]
    | mov sh => simp [Bc.step, hi, bcResCfg, State.mov]
    | scan cond sh =>
      simp only [Bc.step, hi]
      split
      · simp [bcResCfg]
      · split
        · split <;> simp [bcResCfg]
        · simp [bcResCfg, State.mov]
    | inp dst =>
      have := C04.input_trace st dst
      simp only [Bc.step, hi]
      rcases hio : st.input dst with ⟨ok, s⟩
      rw [hio] at this
      cases ok <;> simpa [bcResCfg] using this
    | out src =>
      have := C04.output_trace st src
      simp only [Bc.step, hi]
      rcases hio : st.output src with ⟨ok, s⟩
      rw [hio] at this
      cases ok <;> simpa [bcResCfg] using this
    | brz cond off =>
      simp only [Bc.step, hi]
      cases l
      · simp only [Bool.false_eq_true, if_false]
        split
        · split <;> simp [bcResCfg]
        · simp [bcResCfg]
      · simp only [if_true, Bc.charge]
        split
        · rename_i h; split at h <;> cases h
          simp [bcResCfg]
        · rename_i c1 h
          split at h
          · cases h
          · cases h
            simp only
            split
            · split <;> simp [bcResCfg]
            · simp [bcResCfg]
    | brnz cond off =>
      simp only [Bc.step, hi]
      cases l
      · simp only [Bool.false_eq_true, if_false]
        split
        · split <;> simp [bcResCfg]
        · simp [bcResCfg]
      · simp only [if_true, Bc.charge]
        split
        · rename_i h; split at h <;> cases h
          simp [bcResCfg]
        · rename_i c1 h
          split at h
          · cases h
          · cases h
            simp only
            split
            · split <;> simp [bcResCfg]
            · simp [bcResCfg]
    | add d a b =>
      simp only [Bc.step, hi]
      cases hb : Bc.binop (· + ·) ⟨pc, temps, budget, st⟩ d a b with
      | none => simp [bcResCfg]
      | some c' => have := binop_trace hb; simp [bcResCfg, this]
    | sub d a b =>
      simp only [Bc.step, hi]
      cases hb : Bc.binop (fun x y => x + (-y)) ⟨pc, temps, budget, st⟩ d a b with
      | none => simp [bcResCfg]
      | some c' => have := binop_trace hb; simp [bcResCfg, this]
    | mul d a b =>
      simp only [Bc.step, hi]
      cases hb : Bc.binop (· * ·) ⟨pc, temps, budget, st⟩ d a b with
      | none => simp [bcResCfg]
      | some c' => have := binop_trace hb; simp [bcResCfg, this]
    | copy d s =>
      simp only [Bc.step, hi]
      cases hb : Bc.writeLoc (Bc.readLoc ⟨pc, temps, budget, st⟩ s).2
          (Bc.readLoc ⟨pc, temps, budget, st⟩ s).1 d with
      | none => simp [bcResCfg]
      | some c' =>
        have := (writeLoc_trace hb).trans (readLoc_trace ⟨pc, temps, budget, st⟩ s)
        simp only [] at this
        simp [bcResCfg, this]

theorem bc_trace_start (p : Bc.Program w) (l : Bool) (f : Nat) (c : Bc.Cfg w) :
    c.st.trace <:+ traceOfBc (Bc.runCfg p l f c) := by
  induction f generalizing c with
  | zero => exact List.suffix_refl _
  | succ f ih =>
    have := bc_step_trace p l c
    cases hs : Bc.step p l c with
    | next c' => rw [hs] at this; rw [bc_run_next hs]; exact List.IsSuffix.trans this (ih c')
    | halt c' => rw [hs] at this; rw [bc_run_halt hs]; exact this
    | stop c' => rw [hs] at this; rw [bc_run_stop hs]; exact this
    | interrupted c' => rw [hs] at this; rw [bc_run_interrupted hs]; exact this
    | bad c' => rw [hs] at this; rw [bc_run_bad hs]; exact this

/-- The event sequence after `f` steps is an initial part of the one after `f + g` steps. -/
theorem bc_trace_add (p : Bc.Program w) (l : Bool) (f g : Nat) (c : Bc.Cfg w) :
    traceOfBc (Bc.runCfg p l f c) <:+ traceOfBc (Bc.runCfg p l (f + g) c) := by
  induction f generalizing c with
  | zero => rw [Nat.zero_add]; exact bc_trace_start p l g c
  | succ f ih =>
    have e : f + 1 + g = (f + g) + 1 := by omega
    rw [e]
    cases hs : Bc.step p l c with
    | next c' => rw [bc_run_next hs, bc_run_next hs]; exact ih c'
    | halt c' => rw [bc_run_halt hs, bc_run_halt hs]; exact List.suffix_refl _
    | stop c' => rw [bc_run_stop hs, bc_run_stop hs]; exact List.suffix_refl _
    | interrupted c' => rw [bc_run_interrupted hs, bc_run_interrupted hs]; exact List.suffix_refl _
    | bad c' => rw [bc_run_bad hs, bc_run_bad hs]; exact List.suffix_refl _

end C07
end Hpbf
