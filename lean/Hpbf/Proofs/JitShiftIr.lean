/-
JIT range, the `shift` field, part 1 (IR side): the DRIFT `driftL` (sum of `|shift|` over all blocks nested anywhere)
of the IR never grows under the optimizer (`Opt.optimize`, `OptFix.optimizeF`, any level, any oracle), and the
parser's output has `driftL insts + |shift| ≤ moves src`.  Every shift of a nested block is bounded by the drift
(`shiftsL_le_drift`).

The drift bound of one rebuild round is the SLACK conjunct of `rebuildInsts_step` (`Proofs/OptOffsMain.lean`),
dead store elimination keeps the drift (`subL_ok`), and the parser's bound is the `acct` field of `FOk`
(`Proofs/OptOffsParse.lean`).
-/
import Hpbf.Proofs.OptFixOffs

namespace Hpbf.OptOffs
open Hpbf Opt Ir

variable {w : Nat}
set_option linter.unusedSimpArgs false

/-! ### the shifts of all nested blocks -/

mutual
/-- The shifts of the blocks nested anywhere in an instruction. -/
def shiftsI : Instr w → List Int
  | .output _ => []
  | .input _ => []
  | .calc _ => []
  | .loop _ sh body _ => sh :: shiftsL body
  | .ifnz _ sh body => sh :: shiftsL body
def shiftsL : List (Instr w) → List Int
  | [] => []
  | i :: r => shiftsI i ++ shiftsL r
end

/-- The shift of the block and of every nested loop/if body. -/
def shiftsOf (b : Block w) : List Int := b.shift :: shiftsL b.insts

mutual
theorem shiftsI_le_drift : ∀ (i : Instr w), ∀ s ∈ shiftsI i, s.natAbs ≤ driftI i
  | .output _, s, h => by simp [shiftsI] at h
  | .input _, s, h => by simp [shiftsI] at h
  | .calc _, s, h => by simp [shiftsI] at h
  | .loop c sh body once, s, h => by
    simp only [shiftsI, List.mem_cons] at h
    simp only [driftI]
    rcases h with rfl | h
    · omega
    · have := shiftsL_le_drift body s h; omega
  | .ifnz c sh body, s, h => by
    simp only [shiftsI, List.mem_cons] at h
    simp only [driftI]
    rcases h with rfl | h
    · omega
    · have := shiftsL_le_drift body s h; omega
/-- Every nested shift is bounded by the drift. -/
theorem shiftsL_le_drift : ∀ (l : List (Instr w)), ∀ s ∈ shiftsL l, s.natAbs ≤ driftL l
  | [], s, h => by simp [shiftsL] at h
  | i :: r, s, h => by
    simp only [shiftsL, List.mem_append] at h
    simp only [driftL]
    rcases h with h | h
    · have := shiftsI_le_drift i s h; omega
    · have := shiftsL_le_drift r s h; omega
end

/-! ### one rebuild round, dead store elimination -/

theorem optimizeOnce_drift {b b' : Block w} {anal anal' : OptAnalysis w} {os os' : Orders}
    (h : (optimizeOnce b anal).run os = .ok ((b', anal'), os')) : driftL b'.insts ≤ driftL b.insts := by
  have hb := okL_reach b
  unfold optimizeOnce at h
  rw [run_bind_ok] at h
  obtain ⟨state, os1, h1, h2⟩ := h
  simp only [run_pure, Except.ok.injEq, Prod.mk.injEq] at h2
  obtain ⟨⟨rfl, _⟩, _⟩ := h2
  unfold rebuildBlock at h1
  rw [run_bind_ok] at h1
  obtain ⟨⟨s1, completed⟩, os2, h3, h4⟩ := h1
  simp only [run_pure, Except.ok.injEq, Prod.mk.injEq] at h4
  obtain ⟨rfl, _⟩ := h4
  obtain ⟨q1, q2, q3, q4, q5⟩ := reverseSubBlocks_fields
    (Rebuild.new 0 none OptParent.zero (some anal) : Rebuild w)
  have hi0 : Inv (reach b) 0 (reverseSubBlocks (Rebuild.new 0 none OptParent.zero (some anal) : Rebuild w)) :=
    (inv_new (reach b) 0 0 none OptParent.zero (some anal)).of_eq q1 q2 q3 q4
  obtain ⟨_, a⟩ := rebuildInsts_step b.insts [] _ os os2 s1 completed (reach b) 0 0 0 hi0
    (by rw [q5]; rfl) (by rw [q1]; rfl) hb h3
  show driftL (if completed = true then { s1 with shift := s1.shift + b.shift } else s1).insts ≤ _
  split
  · show driftL s1.insts ≤ _; omega
  · omega

theorem dse_drift {b b' : Block w} {anal : OptAnalysis w}
    (h : deadStoreElimination b anal = .ok b') : driftL b'.insts = driftL b.insts := by
  unfold deadStoreElimination at h
  split at h
  · rename_i b1 he
    simp only [pure, Except.pure, Except.ok.injEq] at h
    subst h
    unfold OptDse.eliminate at he
    split at he
    · cases he
    · rename_i insts x y hel
      simp only [Option.some.injEq] at he
      subst he
      exact (subL_ok _ _ 0 0 (C01Dse.subL_of_elimInsts _ _ _ _ _ _ _ hel)).1
  · cases h

/-! ### `Opt.optimize` -/

theorem optimizeRounds_drift {D : Nat} : ∀ (n : Nat) (b b' : Block w) (anal : OptAnalysis w) (os os' : Orders),
    driftL b.insts ≤ D → (optimizeRounds n b anal).run os = .ok (b', os') → driftL b'.insts ≤ D := by
  intro n
  induction n with
  | zero =>
    intro b b' anal os os' hb h
    simp only [optimizeRounds, run_pure, Except.ok.injEq, Prod.mk.injEq] at h
    rw [← h.1]; exact hb
  | succ n ih =>
    intro b b' anal os os' hb h
    rw [optimizeRounds, run_bind_ok] at h
    obtain ⟨b1, os1, h1, h2⟩ := h
    rw [run_liftM_ok] at h1
    rw [run_bind_ok] at h2
    obtain ⟨⟨b2, anal2⟩, os2, h3, h4⟩ := h2
    refine ih _ _ _ _ _ ?_ h4
    have h5 := optimizeOnce_drift h3
    have h6 : driftL b1.insts = driftL b.insts := dse_drift h1.1
    omega

/-- The drift never grows under `Opt.optimize`. -/
theorem optimize_drift {b b' : Block w} {level : Nat} {orders : Orders}
    (h : Opt.optimize b level orders = .ok b') : driftL b'.insts ≤ driftL b.insts := by
  unfold Opt.optimize at h
  split at h
  · cases h
  · rename_i prog hrun
    simp only [Except.ok.injEq] at h
    subst h
    unfold optimizeM at hrun
    split at hrun
    · rw [run_bind_ok] at hrun
      obtain ⟨⟨b1, anal1⟩, os1, h1, h2⟩ := hrun
      exact optimizeRounds_drift _ _ _ _ _ _ (optimizeOnce_drift h1) h2
    · simp only [run_pure, Except.ok.injEq, Prod.mk.injEq] at hrun
      rw [← hrun.1]
  · cases h

/-! ### `OptFix.optimizeF` -/

theorem optimizeOnceF_drift {b b' : Block w} {anal anal' : OptAnalysis w} {os os' : Orders}
    (h : (OptFix.optimizeOnceF b anal).run os = .ok ((b', anal'), os')) : driftL b'.insts ≤ driftL b.insts := by
  obtain ⟨a0, h1, _⟩ := OptProof.optimizeOnceF_ok.1 h
  exact optimizeOnce_drift h1

theorem optimizeRoundsF_drift {D : Nat} : ∀ (n : Nat) (b b' : Block w) (anal : OptAnalysis w) (os os' : Orders),
    driftL b.insts ≤ D → (OptFix.optimizeRoundsF n b anal).run os = .ok (b', os') → driftL b'.insts ≤ D := by
  intro n
  induction n with
  | zero =>
    intro b b' anal os os' hb h
    rw [(OptProof.optimizeRoundsF_zero_ok.1 h).1]; exact hb
  | succ n ih =>
    intro b b' anal os os' hb h
    obtain ⟨b1, b2, anal2, os2, h1, h3, h4⟩ := OptProof.optimizeRoundsF_succ_ok.1 h
    refine ih _ _ _ _ _ ?_ h4
    have := optimizeOnceF_drift h3
    have := dse_drift h1
    omega

/-- The drift never grows under the repaired optimizer. -/
theorem optimizeF_drift {b b' : Block w} {level : Nat} {orders : Orders}
    (h : OptFix.optimizeF b level orders = .ok b') : driftL b'.insts ≤ driftL b.insts := by
  have hrun := OptProof.optimizeF_ok_iff.1 h
  cases level with
  | zero =>
    rw [OptProof.optimizeMF_zero] at hrun
    simp only [run_pure, Except.ok.injEq, Prod.mk.injEq] at hrun
    rw [← hrun.1]
  | succ n =>
    rw [OptProof.optimizeMF_succ, run_bind_ok] at hrun
    obtain ⟨⟨b1, anal1⟩, os1, h1, h2⟩ := hrun
    exact optimizeRoundsF_drift _ _ _ _ _ _ (optimizeOnceF_drift h1) h2

/-! ### the parser -/

/-- The parser's output: drift plus final shift is at most the number of `<`/`>`. -/
theorem parse_drift_le_moves {src : List Kind} {blk : Block w} (h : parse (w := w) src = .ok blk) :
    driftL blk.insts + blk.shift.natAbs ≤ moves src := by
  unfold parse at h
  split at h
  · cases h
  · rename_i ps hps
    have h0 : StateOk 0
        ({ top := { shift := 0, moved := false, rinsts := [], buff := [] }, rest := [], positions := [] } :
          PState w) :=
      ⟨0, 0, 0, 0, .bottom _, ⟨by simp, fun kv hkv => (by cases hkv), okL_nil _ _, by simp, (by simp [driftL])⟩⟩
    have hs := parseLoop_ok src h0 hps
    rw [Nat.zero_add] at hs
    obtain ⟨G, Mb, b, m, hst, ht⟩ := hs
    split at h
    · rename_i hrest
      simp only [Except.ok.injEq] at h
      subst h
      rw [hrest] at hst
      cases hst
      have h1 := (pushAdds_frame ht).2
      have h2 := ht.acct
      have h3 := ht.shift
      show driftL (pushAdds ps.top.rinsts (bsorted ps.top.buff)).reverse + ps.top.shift.natAbs ≤ _
      rw [driftL_reverse, h1]
      omega
    · cases h
    · cases h

/-- Every nested shift of the optimized IR of a source text is at most the number of `<`/`>` (repaired optimizer). -/
theorem optimizedF_drift_le_moves {src : List Kind} {b b' : Block w} {level : Nat} {orders : Orders}
    (hp : parse (w := w) src = .ok b) (h : OptFix.optimizeF b level orders = .ok b') :
    driftL b'.insts ≤ moves src := by
  have := optimizeF_drift h
  have := parse_drift_le_moves hp
  omega

theorem optimized_drift_le_moves {src : List Kind} {b b' : Block w} {level : Nat} {orders : Orders}
    (hp : parse (w := w) src = .ok b) (h : Opt.optimize b level orders = .ok b') :
    driftL b'.insts ≤ moves src := by
  have := optimize_drift h
  have := parse_drift_le_moves hp
  omega

end Hpbf.OptOffs
