/-
Rebuild-round proofs, stage 5: the analysis a round RECORDS is sound for the code it EMITS — part 2: the first
round (no previous analysis; guard `fun _ => True`), parallel to `OptRbMain.lean`.
-/
import Hpbf.Proofs.OptRbAnMain

namespace Hpbf
namespace OptProof
open Opt OptSem Ir

variable {w : Nat}

/-- The statement for an instruction list at level 1 (`cond` is carried along for the `Loop` / `If` arm). -/
def ListStmtAn1 (l : List (Instr w)) : Prop :=
  ∀ (ps : List (Rebuild w)) (s : Rebuild w) (os os' : Orders) (s' : Rebuild w) (done : Bool),
    (rebuildInsts ps s l).run os = .ok ((s', done), os') → Inv1 s → CanonL l → s.noReturn = false →
    s'.cond = s.cond ∧
    ∃ new, s'.insts = s.insts ++ new ∧ AStep (ValidG (fun _ => True) s.shift s ps) s s' new

theorem acore_freshChild (sh cond : Int) : acore (freshChild sh cond : Rebuild w) = none :=
  acore_child sh (some cond) .parent none

/-- The `Loop` / `If` arm. -/
theorem blockArm_an1 (hw : 0 < w) {ps : List (Rebuild w)} {s : Rebuild w} {c shS : Int} {body : List (Instr w)}
    {isLoop : Bool} (IH : ListStmtAn1 body) {os os' : Orders} {s' : Rebuild w}
    (hr : (do
      let cond := c + s.shift
      let (s, subAnal) := popSubAnal s
      let sub : Rebuild w := reverseSubBlocks (Rebuild.new s.shift (some cond) .parent subAnal)
      let (sub, completed) ← rebuildInsts (s :: ps) sub body
      let sub := if completed then { sub with shift := sub.shift + shS } else sub
      finishLoop s ps sub cond isLoop : M (Rebuild w)).run os = .ok (s', os'))
    (hinv : Inv1 s) (hcb : CanonL body) :
    s'.cond = s.cond ∧
    ∃ new, s'.insts = s.insts ++ new ∧ AStep (ValidG (fun _ => True) s.shift s ps) s s' new := by
  rw [popSubAnal_l1 hinv.anal] at hr
  dsimp only at hr
  rw [run_bind_ok] at hr
  obtain ⟨⟨subR, completed⟩, os1, h1, h2⟩ := hr
  dsimp only at h2
  have hfresh : (reverseSubBlocks (Rebuild.new s.shift (some (c + s.shift)) .parent none) : Rebuild w) =
      freshChild s.shift (c + s.shift) := rfl
  rw [hfresh] at h1
  have hinv0 := inv1_fresh (w := w) s.shift (c + s.shift)
  obtain ⟨hanalR, shE, newC, hallR, hoffR⟩ :=
    rebuildInsts_all hw body (s :: ps) _ os os1 subR completed h1 hinv0 hcb rfl
  obtain ⟨hcondR, newA, hiA, hAC⟩ := IH (s :: ps) _ os os1 subR completed h1 hinv0 hcb rfl
  -- the static invariants of the child
  have hcstep := rebuildInsts_cstep_all body h1 hinv0.wf hinv0.canon hcb
  have hkvR : KnownVars subR := (rebuildInsts_wk_all body h1 hinv0.wf hinv0.canon hcb).known hinv0.known
  have hrdR : OptLoop.SAsc subR.reads := rebuildInsts_sasc_all body h1 hinv0.wf hinv0.canon hcb hinv0.reads
  have hsfR : ShiftFree subR := Or.inl (hanalR.trans rfl)
  have hst0 : StableAsk (freshChild s.shift (c + s.shift) : Rebuild w) body :=
    Or.inl (by unfold ShiftIndep; rw [acore_freshChild]; trivial)
  have hpvR : PVClean subR (s :: ps) :=
    rebuildInsts_pvclean_all body h1 hinv0.wf hinv0.canon hcb hst0 (pvClean_child _ _ _ _ _)
  have hindR : ShiftIndep subR := by
    unfold ShiftIndep
    rw [rebuildInsts_acore (ps := s :: ps) body h1 hinv0.wf hinv0.canon hcb, acore_freshChild]
    trivial
  -- the child as `finishLoop` sees it
  have hsubEq : (if completed = true then { subR with shift := subR.shift + shS } else subR) = subR ∨
      ∃ x, (if completed = true then { subR with shift := subR.shift + shS } else subR) =
        { subR with shift := x } := by
    split
    · exact Or.inr ⟨_, rfl⟩
    · exact Or.inl rfl
  have hshC : ∃ shC : Int, shC = (if completed = true then { subR with shift := subR.shift + shS } else subR).shift
      - shS := ⟨_, rfl⟩
  obtain ⟨shC, hshC'⟩ := hshC
  have hall : StepAll (fun _ => True) s.shift shC (s :: ps) (freshChild s.shift (c + s.shift))
      (if completed = true then { subR with shift := subR.shift + shS } else subR) body newC := by
    refine hallR.retarget hsfR hsubEq ?_
    intro hnr
    obtain ⟨e1, e2⟩ := hoffR hnr
    rw [hshC', e2, e1]
    show subR.shift + shS - shS = subR.shift
    omega
  have hinstsC : (if completed = true then { subR with shift := subR.shift + shS } else subR).insts = newC := by
    rw [hall.insts]; rfl
  rw [← hinstsC] at hall
  have hfieldsR : ∀ (P : Rebuild w → Prop), P subR → (∀ x, P { subR with shift := x }) →
      P (if completed = true then { subR with shift := subR.shift + shS } else subR) := by
    intro P h1' h2'
    split
    · exact h2' _
    · exact h1'
  -- `ShapeSt` / `Child` of the rebuilt child
  have hch0 : Child (freshChild s.shift (c + s.shift) : Rebuild w) := (child_new _ _ _ _).reverseSubBlocks
  have hss0 : ShapeSt (freshChild s.shift (c + s.shift) : Rebuild w) := by
    obtain ⟨_, _, _, f4, _, _, _, _, _, f10, f11⟩ := reverseSubBlocks_fields (Rebuild.new s.shift (some (c + s.shift)) .parent none : Rebuild w)
    exact (shapeSt_new _ _ _ _).of_same f10 f11 f4
  have hchR : Child subR := hch0.step hcstep
  have hssR : ShapeSt subR := rebuildInsts_shapeSt body h1 hinv0.wf hinv0.canon hcb hss0
  have hchild := hfieldsR Child hchR (fun _ => hchR.of_fields rfl rfl rfl rfl)
  have hshs := hfieldsR ShapeSt hssR (fun _ => hssR.of_same rfl rfl rfl)
  -- the read footprint of the child
  obtain ⟨newF, hiF, hfF, _⟩ := rebuildInsts_footNB h1 hinv0.wf hinv0.canon hcb
  have hiF' : subR.insts = newF := by rw [hiF]; rfl
  have hfoot : FootStepV (fun σ => ¬ Bad
        (if completed = true then { subR with shift := subR.shift + shS } else subR).insts σ)
      (freshChild s.shift (c + s.shift))
      (if completed = true then { subR with shift := subR.shift + shS } else subR)
      (if completed = true then { subR with shift := subR.shift + shS } else subR).insts := by
    refine hfieldsR (fun r => FootStepV (fun σ => ¬ Bad r.insts σ) (freshChild s.shift (c + s.shift)) r
      r.insts) ?_ ?_
    · rw [hiF']; exact hfF
    · intro x
      show FootStepV (fun σ => ¬ Bad subR.insts σ) _ _ subR.insts
      rw [hiF']
      exact hfF.congr_right rfl rfl rfl
  -- the recorded nodes of the child
  have hiA' : subR.insts = newA := by rw [hiA]; rfl
  have hcA : AStep (ValidG (fun _ => True) s.shift (freshChild s.shift (c + s.shift)) (s :: ps))
      (freshChild s.shift (c + s.shift))
      (if completed = true then { subR with shift := subR.shift + shS } else subR)
      (if completed = true then { subR with shift := subR.shift + shS } else subR).insts := by
    refine hfieldsR (fun r => AStep (ValidG (fun _ => True) s.shift (freshChild s.shift (c + s.shift))
      (s :: ps)) (freshChild s.shift (c + s.shift)) r r.insts) ?_ ?_
    · rw [hiA']; exact hAC
    · intro x
      show AStep _ _ _ subR.insts
      rw [hiA']
      exact AStep.congr_right (s' := subR) rfl rfl rfl hAC
  have hsf : (if completed = true then { subR with shift := subR.shift + shS } else subR).subShift = false →
      AskStable s (if completed = true then { subR with shift := subR.shift + shS } else subR).shift :=
    fun _ => AskStable.of_shiftFree hinv.anal.shiftFree _
  have hpvSub : PVClean (if completed = true then { subR with shift := subR.shift + shS } else subR) (s :: ps) :=
    hfieldsR (fun r => PVClean r (s :: ps)) hpvR (fun x => pvClean_setShift hindR x hpvR)
  have hcf : (if completed = true then { subR with shift := subR.shift + shS } else subR).cond =
      some (c + s.shift) :=
    hfieldsR (fun r => r.cond = some (c + s.shift)) (hcondR.trans rfl) (fun _ => hcondR.trans rfl)
  have hcs := hfieldsR CanonSt hcstep.canon (fun _ => hcstep.canon)
  have hkv := hfieldsR KnownVars hkvR (fun _ => hkvR)
  have hrd := hfieldsR (fun r => OptLoop.SAsc r.reads) hrdR (fun _ => hrdR)
  obtain ⟨_, _, w3, _⟩ :=
    finishLoop_ok_g (G := fun _ => True) (Gc := fun _ => True) (cS := c) (shP := s.shift) (shC := shC)
      (shS := shS) (bodyS := body) (oS := false) hw h2 hinv.wf hinv.canon hsf rfl
      (by rw [hshC']; omega) hall rfl rfl rfl
      (fun σE σS hm hne _ => entry_l1' s ps s.shift c σE σS hm hne)
      (fun _ _ _ _ _ _ _ _ _ _ => trivial) hcs hkv hrd hfoot hpvSub hcf
  refine ⟨w3, ?_⟩
  exact finishLoop_an (G := fun _ => True) (Gc := fun _ => True) (cS := c) (shP := s.shift) (shC := shC)
      (shS := shS) (bodyS := body) hw h2 hinv.wf hinv.canon hsf rfl
      (by rw [hshC']; omega) hall rfl rfl rfl
      (fun σE σS hm hne _ => entry_l1' s ps s.shift c σE σS hm hne)
      (fun _ _ _ _ _ _ _ _ _ _ => trivial) hcs hkv hrd hfoot hpvSub hcf rfl hshs hchild hcA

/-- One instruction, given the statement for the lists inside it. -/
theorem rebuildInstr_an_of_lists1 (hw : 0 < w) (n : Nat)
    (IH : ∀ l : List (Instr w), sizeL l ≤ n → ListStmtAn1 l) (i : Instr w) (hi : sizeI i ≤ n + 1)
    {ps : List (Rebuild w)} {s : Rebuild w} {os os' : Orders} {s' : Rebuild w}
    (hr : (rebuildInstr ps s i).run os = .ok (s', os')) (hinv : Inv1 s) (hci : CanonL [i]) :
    s'.cond = s.cond ∧
    ∃ new, s'.insts = s.insts ++ new ∧ AStep (ValidG (fun _ => True) s.shift s ps) s s' new := by
  cases i with
  | output src =>
    obtain ⟨_, hdr, _⟩ := stepAll_straight (G := fun _ => True) hinv.wf (i := .output src) rfl hr
    exact ⟨hdr.2.2.2.1, astep_straight hinv.wf (i := .output src) rfl hr⟩
  | input dst =>
    obtain ⟨_, hdr, _⟩ := stepAll_straight (G := fun _ => True) hinv.wf (i := .input dst) rfl hr
    exact ⟨hdr.2.2.2.1, astep_straight hinv.wf (i := .input dst) rfl hr⟩
  | «calc» calcs =>
    obtain ⟨_, hdr, _⟩ := stepAll_straight (G := fun _ => True) hinv.wf (i := .calc calcs) rfl hr
    exact ⟨hdr.2.2.2.1, astep_straight hinv.wf (i := .calc calcs) rfl hr⟩
  | loop c sh body o =>
    have hsz : sizeL body ≤ n := by rw [sizeI] at hi; omega
    rw [rebuildInstr] at hr
    exact blockArm_an1 (isLoop := true) hw (IH body hsz) hr hinv (canonL_loop.1 hci)
  | ifnz c sh body =>
    have hsz : sizeL body ≤ n := by rw [sizeI] at hi; omega
    rw [rebuildInstr] at hr
    exact blockArm_an1 (isLoop := false) hw (IH body hsz) hr hinv (canonL_ifnz.1 hci)

theorem rebuildInsts_an_size1 (hw : 0 < w) (n : Nat) : ∀ l : List (Instr w), sizeL l ≤ n → ListStmtAn1 l := by
  induction n with
  | zero =>
    intro l hl
    cases l with
    | nil =>
      intro ps s os os' s' done hr hinv _ _
      rw [rebuildInsts, run_pure] at hr
      cases hr
      exact ⟨rfl, [], by simp, AStep.refl _ _⟩
    | cons i rest =>
      rw [sizeL] at hl
      have := sizeI_pos i
      omega
  | succ n ih =>
    intro l
    induction l with
    | nil =>
      intro _ ps s os os' s' done hr hinv _ _
      rw [rebuildInsts, run_pure] at hr
      cases hr
      exact ⟨rfl, [], by simp, AStep.refl _ _⟩
    | cons i rest ihl =>
      intro hl ps s os os' s' done hr hinv hcl hnr
      rw [sizeL] at hl
      have hpos := sizeI_pos i
      rw [canonL_cons] at hcl
      have hci : CanonL [i] := canonL_single.2 hcl.1
      rw [rebuildInsts, hnr] at hr
      simp only [Bool.false_eq_true, if_false] at hr
      rw [run_bind_ok] at hr
      obtain ⟨s1, os1, h1, h2⟩ := hr
      obtain ⟨ha1, shE1, new1, hstep1, hoff1⟩ :=
        rebuildInstr_of_lists1 hw (sizeI i) (fun l _ => rebuildInsts_all hw l) i (by omega) h1 hinv hci
      obtain ⟨hc1, new1', hi1', hA1⟩ := rebuildInstr_an_of_lists1 hw n ih i (by omega) h1 hinv hci
      have hn1 : new1' = new1 := List.append_cancel_left (hi1'.symm.trans hstep1.insts)
      subst hn1
      have hinv1 : Inv1 s1 := hinv.instr i h1 hci ha1
      cases hnr1 : s1.noReturn with
      | true =>
        have hs' : s' = s1 := by
          cases rest with
          | nil =>
            rw [rebuildInsts, run_pure] at h2
            cases h2; rfl
          | cons j rest' =>
            rw [rebuildInsts, hnr1] at h2
            simp only [if_true] at h2
            rw [run_pure] at h2
            cases h2; rfl
        subst hs'
        exact ⟨hc1, new1', hi1', hA1⟩
      | false =>
        obtain ⟨e1⟩ := hoff1 hnr1
        obtain ⟨hc2, new2, hi2, hA2⟩ := ihl (by omega) ps s1 os1 os' s' done h2 hinv1 hcl.2 hnr1
        obtain ⟨_, _, _, _, hm2, _⟩ := rebuildInsts_footNB h2 hinv1.wf hinv1.canon hcl.2
        refine ⟨hc2.trans hc1, new1' ++ new2, by rw [hi2, hi1', List.append_assoc], ?_⟩
        refine AStep.trans hA1 hA2 hstep1.foot ?_ hm2
        intro σ σ' hv he
        exact hstep1.step.valid (G2 := fun _ => True) (fun _ _ _ _ _ _ _ => trivial) hv he

/-- **The nodes the first round records are sound for the code it emits.** -/
theorem rebuildInsts_an_all1 (hw : 0 < w) (l : List (Instr w)) : ListStmtAn1 l :=
  rebuildInsts_an_size1 hw (sizeL l) l (Nat.le_refl _)

end OptProof
end Hpbf
