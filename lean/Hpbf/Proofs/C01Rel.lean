/-
C01, level 0, part 3: the relation between a state of the canonical machine and a state of the IR
interpreter for a given parser frame, and how single commands / flushed instructions preserve it.
-/
import Hpbf.Proofs.C01Exec

namespace Hpbf
namespace C01
open Ir Sim

variable {w : Nat}

/-! ### State helpers -/

theorem tape_wr (s : State w) (k : Int) (v : BitVec w) (x : Int) :
    (s.wr k v).tape.get x = if x = s.ptr + k then v else s.tape.get x := by
  unfold State.wr; simp only; exact Tape.get_set _ _ _ _

theorem rd_wr (s : State w) (k a : Int) (v : BitVec w) :
    (s.wr k v).rd a = if a = k then v else s.rd a := by
  unfold State.rd
  rw [tape_wr]
  have : (s.wr k v).ptr = s.ptr := rfl
  rw [this]
  by_cases h : a = k
  · subst h; simp
  · have : ¬ s.ptr + a = s.ptr + k := by omega
    simp [h, this]

theorem evaluate_add (v : Int) (c : BitVec w) (f : Int → BitVec w) :
    Expr.evaluate [{ coef := c, vars := [] }, { coef := 1#w, vars := [v] }] f = c + f v := by
  simp [Expr.evaluate, Expr.evalPart]

theorem doCalc_add (s : State w) (k : Int) (v : BitVec w) :
    doCalc s [(k, [{ coef := v, vars := [] }, { coef := 1#w, vars := [k] }])] = s.wr k (v + s.rd k) := by
  simp [doCalc, evaluate_add]

theorem doCalc_load_zero (s : State w) (k : Int) :
    doCalc s [(k, Expr.val 0#w)] = s.wr k 0#w := by
  simp [doCalc, Expr.val, Expr.evaluate]

theorem step_add (k : Int) (v : BitVec w) (rest : List (Instr w)) (ks : List (Cont w)) (bud : Nat)
    (st : State w) :
    (IrM w).step ⟨Instr.add k v :: rest, ks, bud, st⟩ = .next ⟨rest, ks, bud, st.wr k (v + st.rd k)⟩ := by
  simp only [IrM, Instr.add, Ir.step, doCalc_add]

theorem step_load_zero (k : Int) (rest : List (Instr w)) (ks : List (Cont w)) (bud : Nat)
    (st : State w) :
    (IrM w).step ⟨Instr.load k 0#w :: rest, ks, bud, st⟩ = .next ⟨rest, ks, bud, st.wr k 0#w⟩ := by
  simp only [IrM, Instr.load, Ir.step, doCalc_load_zero]

/-! ### The state relation -/

/-- `sb` (canonical) and `si` (IR) agree up to the pending increments of frame `f` (relative to the
IR pointer) and the pending increments `D` of the enclosing frames (absolute cell indices). -/
structure StRel (D : Int → BitVec w) (f : Fr w) (sb si : State w) : Prop where
  env : sb.env = si.env
  trace : sb.trace = si.trace
  ptr : sb.ptr = si.ptr + f.shift
  tape : ∀ x, sb.tape.get x = si.tape.get x + pend f.buff (x - si.ptr) + D x

theorem StRel.rd0 {D : Int → BitVec w} {f : Fr w} {sb si : State w} (h : StRel D f sb si)
    (hp : pend f.buff f.shift = 0#w) (hD : D (si.ptr + f.shift) = 0#w) : sb.rd 0 = si.rd f.shift := by
  unfold State.rd
  rw [Int.add_zero, h.ptr, h.tape, hD]
  have : si.ptr + f.shift - si.ptr = f.shift := by omega
  rw [this, hp]; simp

/-- Changing the buffer without changing any pending amount. -/
theorem StRel.congr_buff {D : Int → BitVec w} {f : Fr w} {sb si : State w} (h : StRel D f sb si)
    (b' : List (Int × BitVec w)) (hb : ∀ a, pend b' a = pend f.buff a) (mv : Bool) :
    StRel D { shift := f.shift, moved := mv, buff := b' } sb si :=
  ⟨h.env, h.trace, h.ptr, fun x => by rw [h.tape x]; simp only [hb]⟩

/-- The silent commands `+ - < >`. -/
theorem StRel.silent {D : Int → BitVec w} {f : Fr w} {sb si : State w} (h : StRel D f sb si)
    (op : Op) (hop : op = .inc ∨ op = .dec ∨ op = .left ∨ op = .right) :
    (Bf.applyOp op sb).1 = true ∧ (Bf.applyOp op sb).2.trace = sb.trace ∧
      (compOp op f).1 = [] ∧ StRel D (compOp op f).2 (Bf.applyOp op sb).2 si := by
  have key : ∀ d : BitVec w,
      StRel D { f with buff := bset f.buff f.shift (pend f.buff f.shift + d) } (sb.wr 0 (sb.rd 0 + d)) si := by
    intro d
    refine ⟨h.env, h.trace, h.ptr, ?_⟩
    intro x
    rw [tape_wr, pend_bset]
    by_cases hx : x = sb.ptr + 0
    · have hx' : x - si.ptr = f.shift := by have := h.ptr; omega
      rw [if_pos hx, if_pos hx']
      unfold State.rd
      rw [← hx, h.tape, hx']
      ac_rfl
    · have hx' : ¬ x - si.ptr = f.shift := by have := h.ptr; omega
      rw [if_neg hx, if_neg hx']
      exact h.tape x
  rcases hop with rfl | rfl | rfl | rfl
  · exact ⟨rfl, rfl, rfl, key 1#w⟩
  · exact ⟨rfl, rfl, rfl, key (-1#w)⟩
  · refine ⟨rfl, rfl, rfl, h.env, h.trace, ?_, h.tape⟩
    show sb.ptr + -1 = si.ptr + (f.shift - 1)
    have := h.ptr; omega
  · refine ⟨rfl, rfl, rfl, h.env, h.trace, ?_, h.tape⟩
    show sb.ptr + 1 = si.ptr + (f.shift + 1)
    have := h.ptr; omega

/-- Executing `add k (pending k)` and clearing the pending amount. -/
theorem StRel.add_step {D : Int → BitVec w} {f : Fr w} {sb si : State w} (h : StRel D f sb si)
    (k : Int) (b' : List (Int × BitVec w))
    (hb : ∀ a, pend b' a = if a = k then 0#w else pend f.buff a) :
    StRel D { f with buff := b' } sb (si.wr k (pend f.buff k + si.rd k)) := by
  refine ⟨h.env, h.trace, h.ptr, ?_⟩
  intro x
  rw [tape_wr, hb]
  have hp : (si.wr k (pend f.buff k + si.rd k)).ptr = si.ptr := rfl
  rw [hp]
  by_cases hx : x = si.ptr + k
  · have hx' : x - si.ptr = k := by omega
    simp only [hx, if_true]
    have : si.ptr + k - si.ptr = k := by omega
    simp only [this, if_true]
    rw [h.tape, this]
    unfold State.rd
    simp only [BitVec.add_zero]
    ac_rfl
  · have hx' : ¬ x - si.ptr = k := by omega
    simp only [hx, if_false, hx']
    exact h.tape x

theorem flushOne_exec {D : Int → BitVec w} {f : Fr w} {sb si : State w} (h : StRel D f sb si)
    (k : Int) (rest : List (Instr w)) (ks : List (Cont w)) (bud : Nat) :
    ∃ n si', Steps (IrM w) n ⟨(flushOneI f.buff k).1 ++ rest, ks, bud, si⟩ ⟨rest, ks, bud, si'⟩ ∧
      StRel D { f with buff := (flushOneI f.buff k).2 } sb si' ∧ si'.ptr = si.ptr := by
  have hpend := pend_flushOneI f.buff k
  unfold flushOneI at hpend ⊢
  cases hg : bget f.buff k with
  | none =>
    rw [hg] at hpend
    simp only at hpend ⊢
    exact ⟨0, si, Steps.refl _, h.congr_buff _ (by
      intro a; rw [hpend]
      by_cases ha : a = k
      · subst ha; simp [pend, hg]
      · simp [ha]) f.moved, rfl⟩
  | some v =>
    rw [hg] at hpend
    simp only at hpend ⊢
    by_cases hv : v = 0#w
    · subst hv
      simp only [bne_self_eq_false, Bool.false_eq_true, if_false, List.nil_append]
      exact ⟨0, si, Steps.refl _, h, rfl⟩
    · have hne : (v != 0#w) = true := by simpa using hv
      simp only [hne, if_true] at hpend ⊢
      have hv' : pend f.buff k = v := by simp [pend, hg]
      refine ⟨1, si.wr k (v + si.rd k), Steps.one (step_add k v rest ks bud si), ?_, rfl⟩
      have := h.add_step k (bset f.buff k 0#w) hpend
      rw [hv'] at this
      exact this

theorem flushMany_exec {D : Int → BitVec w} (l : List Int) : ∀ {f : Fr w} {sb si : State w}, StRel D f sb si →
    ∀ (rest : List (Instr w)) (ks : List (Cont w)) (bud : Nat),
    ∃ n si', Steps (IrM w) n ⟨(flushManyI f.buff l).1 ++ rest, ks, bud, si⟩ ⟨rest, ks, bud, si'⟩ ∧
      StRel D { f with buff := (flushManyI f.buff l).2 } sb si' ∧ si'.ptr = si.ptr := by
  induction l with
  | nil => intro f sb si h rest ks bud; exact ⟨0, si, Steps.refl _, h, rfl⟩
  | cons k l ih =>
    intro f sb si h rest ks bud
    simp only [flushManyI, List.append_assoc]
    obtain ⟨n1, si1, hs1, hr1, hp1⟩ := flushOne_exec h k ((flushManyI (flushOneI f.buff k).2 l).1 ++ rest) ks bud
    obtain ⟨n2, si2, hs2, hr2, hp2⟩ := ih hr1 rest ks bud
    exact ⟨n1 + n2, si2, hs1.trans hs2, hr2, by rw [hp2, hp1]⟩

/-- Executing the `add`s of a buffer with distinct keys adds every pending amount. -/
theorem adds_exec (l : List (Int × BitVec w)) : (keys l).Nodup → ∀ (si : State w)
    (rest : List (Instr w)) (ks : List (Cont w)) (bud : Nat),
    ∃ n si', Steps (IrM w) n ⟨addsOf l ++ rest, ks, bud, si⟩ ⟨rest, ks, bud, si'⟩ ∧
      si'.ptr = si.ptr ∧ si'.env = si.env ∧ si'.trace = si.trace ∧
      ∀ x, si'.tape.get x = si.tape.get x + pend l (x - si.ptr) := by
  induction l with
  | nil =>
    intro _ si rest ks bud
    exact ⟨0, si, Steps.refl _, rfl, rfl, rfl, by intro x; simp⟩
  | cons kv l ih =>
    obtain ⟨k, v⟩ := kv
    intro hn si rest ks bud
    simp only [keys, List.map_cons, List.nodup_cons] at hn
    have hk0 : pend l k = 0#w := pend_of_not_mem hn.1
    have hpc : ∀ a, pend ((k, v) :: l) a = if a = k then v else pend l a := by
      intro a
      unfold pend
      simp only [bget]
      by_cases ha : a = k
      · subst ha; simp
      · have : ¬ k = a := fun e => ha e.symm
        simp [ha, this]
    by_cases hv : v = 0#w
    · subst hv
      have e : addsOf ((k, 0#w) :: l) = addsOf l := by simp [addsOf]
      rw [e]
      obtain ⟨n, si', hs, h1, h2, h3, h4⟩ := ih hn.2 si rest ks bud
      refine ⟨n, si', hs, h1, h2, h3, ?_⟩
      intro x
      rw [h4, hpc]
      by_cases ha : x - si.ptr = k
      · simp [ha, hk0]
      · simp [ha]
    · have e : addsOf ((k, v) :: l) = Instr.add k v :: addsOf l := by simp [addsOf, hv]
      rw [e]
      obtain ⟨n, si', hs, h1, h2, h3, h4⟩ := ih hn.2 (si.wr k (v + si.rd k)) rest ks bud
      refine ⟨n + 1, si', ?_, h1, h2, h3, ?_⟩
      · have := Steps.cons (step_add k v (addsOf l ++ rest) ks bud si) hs
        simpa using this
      · intro x
        rw [h4, hpc, tape_wr]
        have hp : (si.wr k (v + si.rd k)).ptr = si.ptr := rfl
        rw [hp]
        by_cases hx : x = si.ptr + k
        · have hx' : x - si.ptr = k := by omega
          rw [if_pos hx, if_pos hx', hx', hk0]
          unfold State.rd
          rw [← hx]
          simp only [BitVec.add_zero]
          ac_rfl
        · have hx' : ¬ x - si.ptr = k := by omega
          rw [if_neg hx, if_neg hx']

/-- Flushing the whole buffer. -/
theorem flushAll_exec {D : Int → BitVec w} {f : Fr w} {sb si : State w} (hn : (keys f.buff).Nodup)
    (h : StRel D f sb si) (b' : List (Int × BitVec w)) (hb : ∀ a, pend b' a = 0#w) (mv : Bool)
    (rest : List (Instr w)) (ks : List (Cont w)) (bud : Nat) :
    ∃ n si', Steps (IrM w) n ⟨addsOf (bsorted f.buff) ++ rest, ks, bud, si⟩ ⟨rest, ks, bud, si'⟩ ∧
      StRel D { shift := f.shift, moved := mv, buff := b' } sb si' ∧ si'.ptr = si.ptr := by
  obtain ⟨n, si', hs, h1, h2, h3, h4⟩ := adds_exec (bsorted f.buff) (nodup_keys_bsorted hn) si rest ks bud
  refine ⟨n, si', hs, ⟨by rw [h2]; exact h.env, by rw [h3]; exact h.trace, by rw [h1]; exact h.ptr, ?_⟩, h1⟩
  intro x
  rw [h4, h1, hb, h.tape, pend_bsorted hn]
  simp

/-! ### I/O -/

theorem output_rel {D : Int → BitVec w} {f : Fr w} {sb si : State w} (h : StRel D f sb si)
    (hrd : sb.rd 0 = si.rd f.shift) :
    (sb.output 0).1 = (si.output f.shift).1 ∧ StRel D f (sb.output 0).2 (si.output f.shift).2 ∧
      (sb.output 0).2.trace = (si.output f.shift).2.trace := by
  unfold State.output
  simp only [hrd, h.env]
  split
  · split
    · exact ⟨rfl, ⟨rfl, by simp [h.trace], h.ptr, h.tape⟩, by simp [h.trace]⟩
    · exact ⟨rfl, ⟨rfl, by simp [h.trace], h.ptr, h.tape⟩, by simp [h.trace]⟩
  · exact ⟨rfl, ⟨h.env, h.trace, h.ptr, h.tape⟩, h.trace⟩

theorem input_rel {D : Int → BitVec w} {f : Fr w} {sb si : State w} (h : StRel D f sb si)
    (hD : D (si.ptr + f.shift) = 0#w) :
    (sb.input 0).1 = (si.input f.shift).1 ∧
      (sb.input 0).2.trace = (si.input f.shift).2.trace ∧
      ((sb.input 0).1 = true →
        StRel D { f with buff := bset f.buff f.shift 0#w } (sb.input 0).2 (si.input f.shift).2 ∧
        (si.input f.shift).2.ptr = si.ptr) := by
  unfold State.input
  simp only [h.env]
  split
  · rename_i b e he
    refine ⟨rfl, by simp [h.trace], fun _ => ⟨⟨rfl, by simp [h.trace], h.ptr, ?_⟩, rfl⟩⟩
    intro x
    show (sb.wr 0 _).tape.get x = (si.wr f.shift _).tape.get x + _ + D x
    rw [tape_wr, tape_wr, pend_bset]
    have hp : (si.wr f.shift (Cell.fromU8 (BitVec.ofNat 8 b.toNat)) : State w).ptr = si.ptr := rfl
    simp only []
    by_cases hx : x = sb.ptr + 0
    · have hx1 : x = si.ptr + f.shift := by have := h.ptr; omega
      have hx2 : x - si.ptr = f.shift := by omega
      rw [if_pos hx, if_pos hx1]
      show _ = _ + (if x - si.ptr = f.shift then 0#w else _) + D x
      rw [if_pos hx2, hx1, hD]; simp
    · have hx1 : ¬ x = si.ptr + f.shift := by have := h.ptr; omega
      have hx2 : ¬ x - si.ptr = f.shift := by omega
      rw [if_neg hx, if_neg hx1]
      show _ = _ + (if x - si.ptr = f.shift then 0#w else _) + D x
      rw [if_neg hx2]
      exact h.tape x
  · exact ⟨rfl, by simp [h.trace], fun hc => by simp at hc⟩
  · exact ⟨rfl, h.trace, fun hc => by simp at hc⟩

end C01
end Hpbf
