/-
C03 (control flow), stage 2: register saving around runtime calls (`emit_pre_call` / `emit_post_call`):
`push_all`, `pop_all`, `pre_call`, `post_call`, and which registers are saved (`savedRegs_mem`).
-/
import Hpbf.Proofs.C03FlowStraight
namespace Hpbf
namespace C03
open Asm JitGen X86Sem X86Prog
variable {w : Nat}

/-! ### Saving and restoring registers around a call -/

/-- Fields neither `push` nor `pop` (of a register other than `rbp`) touches. -/
structure StackKeep (s s' : PState w) : Prop where
  tape : s'.tape = s.tape
  lptr : s'.lptr = s.lptr
  tapeOk : s'.tapeOk = s.tapeOk
  buf : s'.buf = s.buf
  size : s'.size = s.size
  off : s'.off = s.off
  budget : s'.budget = s.budget
  base : s'.base = s.base
  env : s'.env = s.env
  trace : s'.trace = s.trace

theorem StackKeep.rfl' (s : PState w) : StackKeep s s := ⟨rfl, rfl, rfl, rfl, rfl, rfl, rfl, rfl, rfl, rfl⟩

theorem StackKeep.trans {a b c : PState w} (h1 : StackKeep a b) (h2 : StackKeep b c) : StackKeep a c :=
  ⟨h2.tape.trans h1.tape, h2.lptr.trans h1.lptr, h2.tapeOk.trans h1.tapeOk, h2.buf.trans h1.buf,
   h2.size.trans h1.size, h2.off.trans h1.off, h2.budget.trans h1.budget, h2.base.trans h1.base,
   h2.env.trans h1.env, h2.trace.trans h1.trace⟩

theorem step_push {cfg : Cfg} {code : List X86} {r : Reg} {rest : List X86} {s : PState w}
    (hat : At cfg code s.pc (.push r :: rest)) :
    step cfg s = .next { s with stk := s.regs.get r :: s.stk, regs := s.regs.set .rsp (s.regs.rsp - 8),
                                pc := s.pc + (X86.push r).size } := by
  rw [step_at hat]
  step_open (show (X86.push r).fits = true from rfl)
  rfl

/-- Pushing a list of registers. -/
theorem push_all {cfg : Cfg} {code : List X86} (rs : List Reg) {rest : List X86} {s : PState w}
    (hat : At cfg code s.pc (rs.map .push ++ rest)) (hrs : ∀ r ∈ rs, r ≠ .rsp) :
    ∃ s', steps cfg rs.length s = some s' ∧ s'.stk = (rs.map s.regs.get).reverse ++ s.stk ∧
      (∀ r, r ≠ .rsp → s'.regs.get r = s.regs.get r) ∧
      s'.regs.get .rsp = s.regs.get .rsp - BitVec.ofNat 64 (8 * rs.length) ∧
      s'.pc = s.pc + sizeAll (rs.map .push) ∧ StackKeep s s' := by
  induction rs generalizing s with
  | nil => exact ⟨s, rfl, by simp, fun _ _ => rfl, by simp, by simp, StackKeep.rfl' s⟩
  | cons r rs ih =>
    simp only [List.map_cons, List.cons_append] at hat
    have h1 := step_push hat
    obtain ⟨s1, hs1, e1⟩ : ∃ s1 : PState w, step cfg s = .next s1 ∧ s1 = _ := ⟨_, h1, rfl⟩
    have hat1 : At cfg code s1.pc (rs.map .push ++ rest) := by rw [e1]; exact hat.tail
    obtain ⟨s', hst, hstk, hregs, hrsp, hpc, hk⟩ := ih hat1 (fun r' hr' => hrs r' (List.mem_cons_of_mem _ hr'))
    have hr1 : ∀ r', r' ≠ .rsp → s1.regs.get r' = s.regs.get r' := by
      intro r' hr'; rw [e1]; simp [hr']
    refine ⟨s', ?_, ?_, ?_, ?_, ?_, ?_⟩
    · simp only [List.length_cons, steps, hs1]; exact hst
    · rw [hstk]
      have : rs.map s1.regs.get = rs.map s.regs.get :=
        List.map_congr_left (fun r' hr' => hr1 r' (hrs r' (List.mem_cons_of_mem _ hr')))
      rw [this, e1]; simp
    · intro r' hr'; rw [hregs r' hr', hr1 r' hr']
    · rw [hrsp]
      have : s1.regs.get .rsp = s.regs.get .rsp - 8 := by rw [e1]; simp; rfl
      rw [this, List.length_cons]
      apply BitVec.eq_of_toNat_eq
      have e8 : (8 : BitVec 64).toNat = 8 := rfl
      simp only [BitVec.toNat_sub, BitVec.toNat_ofNat, e8]
      omega
    · rw [hpc, e1]; simp; omega
    · refine StackKeep.trans ?_ hk
      rw [e1]; exact ⟨rfl, rfl, rfl, rfl, rfl, rfl, rfl, rfl, rfl, rfl⟩

/-- Popping the same list in reverse from a stack that holds the values `vals` pushed for it: every
register of the list gets back the FIRST value pushed for it. -/
theorem pop_all {cfg : Cfg} {code : List X86} (rs : List Reg) {rest : List X86} {s : PState w}
    (hat : At cfg code s.pc (rs.reverse.map .pop ++ rest)) (hrs : ∀ r ∈ rs, r ≠ .rsp ∧ r ≠ .rbp)
    (R : Reg → BitVec 64) {stk0 : List (BitVec 64)} (hstk : s.stk = (rs.map R).reverse ++ stk0) :
    ∃ s', steps cfg rs.length s = some s' ∧ s'.stk = stk0 ∧
      (∀ r ∈ rs, s'.regs.get r = R r) ∧
      (∀ r, r ∉ rs → r ≠ .rsp → s'.regs.get r = s.regs.get r) ∧
      s'.regs.get .rsp = s.regs.get .rsp + BitVec.ofNat 64 (8 * rs.length) ∧
      s'.pc = s.pc + sizeAll (rs.reverse.map .pop) ∧ StackKeep s s' := by
  induction rs generalizing s stk0 rest with
  | nil =>
    exact ⟨s, rfl, by simpa using hstk, by simp, fun _ _ _ => rfl, by simp, by simp, StackKeep.rfl' s⟩
  | cons r rs ih =>
    simp only [List.reverse_cons, List.map_append, List.map_cons, List.map_nil, List.append_assoc,
      List.singleton_append] at hat
    have hstk' : s.stk = (rs.map R).reverse ++ (R r :: stk0) := by
      rw [hstk]; simp
    obtain ⟨s1, hst, hstk1, hin, hout, hrsp, hpc, hk⟩ := ih hat
      (fun r' hr' => hrs r' (List.mem_cons_of_mem _ hr')) hstk'
    have hat1 : At cfg code s1.pc (.pop r :: rest) := by rw [hpc]; exact hat.drop
    have hr := hrs r (List.mem_cons_self)
    have h2 := step_pop hat1 hr.1 hstk1
    obtain ⟨s2, hs2, e2⟩ : ∃ s2 : PState w, step cfg s1 = .next s2 ∧ s2 = _ := ⟨_, h2, rfl⟩
    refine ⟨s2, ?_, by rw [e2], ?_, ?_, ?_, ?_, ?_⟩
    · rw [List.length_cons]; exact steps_trans hst (steps_one hs2)
    · intro r' hr'
      by_cases e : r' = r
      · subst e; rw [e2]; simp
      · have : r' ∈ rs := by
          rcases List.mem_cons.1 hr' with h | h
          · exact absurd h e
          · exact h
        rw [e2]
        have hne : r' ≠ .rsp := (hrs r' hr').1
        simp [e, hne]; exact hin r' this
    · intro r' hr' hne
      have h1 : r' ≠ r := fun e => hr' (e ▸ List.mem_cons_self)
      have h2 : r' ∉ rs := fun h => hr' (List.mem_cons_of_mem _ h)
      rw [e2]; simp [h1, hne]; exact hout r' h2 hne
    · rw [e2]
      simp [Ne.symm hr.1]
      have : s1.regs.rsp = s1.regs.get .rsp := rfl
      rw [this, hrsp]
      apply BitVec.eq_of_toNat_eq
      have e8 : (8 : BitVec 64).toNat = 8 := rfl
      simp only [BitVec.toNat_add, BitVec.toNat_ofNat, e8, List.length_cons]
      omega
    · rw [e2]; simp [hpc, sizeAll_append]; omega
    · refine hk.trans ?_
      rw [e2]; exact ⟨rfl, rfl, by simp [hr.2], rfl, rfl, rfl, rfl, rfl, rfl, rfl⟩


/-! ### `emit_pre_call` / `emit_post_call` -/

theorem mapM_opt_mem {α β : Type} (f : α → Option β) : ∀ (l : List α) (r : List β),
    l.mapM f = some r → ∀ b, b ∈ r ↔ ∃ a ∈ l, f a = some b
  | [], r, h, b => by simp at h; subst h; simp
  | a :: l, r, h, b => by
    rw [List.mapM_cons] at h
    cases hfa : f a with
    | none => simp [hfa] at h
    | some b' =>
      cases hl : l.mapM f with
      | none => simp [hfa, hl] at h
      | some bs =>
        simp [hfa, hl] at h; subst h
        have ih := mapM_opt_mem f l bs hl b
        simp only [List.mem_cons, ih]
        constructor
        · rintro (rfl | ⟨a', ha', hf⟩)
          · exact ⟨a, Or.inl rfl, hfa⟩
          · exact ⟨a', Or.inr ha', hf⟩
        · rintro ⟨a', (rfl | ha'), hf⟩
          · left; rw [hfa] at hf; cases hf; rfl
          · right; exact ⟨a', ha', hf⟩

/-- The saved registers are those of the live temporaries 4..10. -/
theorem savedRegs_mem {live : Nat} {rs : List Reg} (h : savedRegs live = some rs) (r : Reg) :
    r ∈ rs ↔ ∃ t, 4 ≤ t ∧ t < 11 ∧ live.testBit t = true ∧ tmpReg t = some r := by
  unfold savedRegs at h
  rw [mapM_opt_mem _ _ _ h]
  constructor
  · rintro ⟨t, ht, hr⟩
    simp only [List.mem_filter, List.mem_range, Bool.and_eq_true, decide_eq_true_eq] at ht
    exact ⟨t, ht.2.1, (tmpReg_eq_some.1 hr).1, ht.2.2, hr⟩
  · rintro ⟨t, h4, h11, hb, hr⟩
    refine ⟨t, ?_, hr⟩
    simp only [List.mem_filter, List.mem_range, Bool.and_eq_true, decide_eq_true_eq]
    exact ⟨by omega, h4, hb⟩

theorem savedRegs_ne {live : Nat} {rs : List Reg} (h : savedRegs live = some rs) :
    ∀ r ∈ rs, r ≠ .rsp ∧ r ≠ .rbp := by
  intro r hr
  obtain ⟨t, _, h11, _, ht⟩ := (savedRegs_mem h r).1 hr
  obtain ⟨_, rfl⟩ := tmpReg_eq_some.1 ht
  have := treg_ne h11
  exact ⟨this.2.2.2.1, this.2.2.2.2⟩

/-- Number of 8-byte slots `emit_pre_call` pushes, including the alignment slot. -/
def padLen (rs : List Reg) : Nat := rs.length + rs.length % 2

theorem step_subRsp8 {cfg : Cfg} {code : List X86} {rest : List X86} {s : PState w}
    (hat : At cfg code s.pc (.subRmImm (.reg .rsp) 8 :: rest)) :
    ∃ z c, step cfg s = .next { s with stk := cfg.junk .rsp :: s.stk, regs := s.regs.set .rsp (s.regs.rsp - 8),
                                       zf := z, cf := c, pc := s.pc + (X86.subRmImm (.reg .rsp) 8).size } := by
  rw [step_at hat]
  step_open (show (X86.subRmImm (.reg .rsp) 8).fits = true by decide)
  simp only [if_true, stepSubRsp]
  rw [if_pos (by decide)]
  have e1 : (alu Alu.sub 64 s.regs.rsp (immVal 8)).1 = s.regs.rsp - 8 := by
    simp only [alu, trunc64]; rfl
  have e2 : List.replicate ((8 : Int) / 8).toNat (cfg.junk Reg.rsp) ++ s.stk = cfg.junk .rsp :: s.stk := rfl
  rw [e1, e2]
  exact ⟨_, _, rfl⟩

theorem pre_call {cfg : Cfg} {code : List X86} {live : Nat} {rs : List Reg} {pre : List X86}
    (hrs : savedRegs live = some rs) (hpre : preCall live = some pre) {rest : List X86} {s : PState w}
    (hat : At cfg code s.pc (pre ++ rest)) :
    ∃ pad s', steps cfg pre.length s = some s' ∧ pad.length = rs.length % 2 ∧
      s'.stk = pad ++ (rs.map s.regs.get).reverse ++ s.stk ∧
      (∀ r, r ≠ .rsp → s'.regs.get r = s.regs.get r) ∧
      s'.regs.get .rsp = s.regs.get .rsp - BitVec.ofNat 64 (8 * padLen rs) ∧
      s'.pc = s.pc + sizeAll pre ∧ StackKeep s s' := by
  unfold preCall at hpre
  simp only [hrs, Option.bind_eq_bind, Option.bind_some, Option.some.injEq] at hpre
  subst hpre
  rw [List.append_assoc] at hat
  obtain ⟨s1, hst, hstk, hregs, hrsp, hpc, hk⟩ := push_all rs hat (fun r hr => (savedRegs_ne hrs r hr).1)
  by_cases hodd : rs.length % 2 = 1
  · have hb : (rs.length % 2 == 1) = true := by simp [hodd]
    simp only [hb, if_true] at hat ⊢
    have hat1 : At cfg code s1.pc (.subRmImm (.reg .rsp) 8 :: rest) := by
      rw [hpc]; simpa using hat.drop
    obtain ⟨z, c, h2⟩ := step_subRsp8 hat1
    obtain ⟨s2, hs2, e2⟩ : ∃ s2 : PState w, step cfg s1 = .next s2 ∧ s2 = _ := ⟨_, h2, rfl⟩
    refine ⟨[cfg.junk .rsp], s2, ?_, by simp [hodd], ?_, ?_, ?_, ?_, ?_⟩
    · rw [List.length_append, List.length_map]; exact steps_trans hst (steps_one hs2)
    · rw [e2]; simp [hstk]
    · intro r hr; rw [e2]; simp [hr]; exact hregs r hr
    · rw [e2]; simp
      have : s1.regs.rsp = s1.regs.get .rsp := rfl
      rw [this, hrsp, padLen, hodd]
      apply BitVec.eq_of_toNat_eq
      have e8 : (8 : BitVec 64).toNat = 8 := rfl
      simp only [BitVec.toNat_sub, BitVec.toNat_ofNat, e8]
      omega
    · rw [e2]; simp [hpc]; omega
    · refine hk.trans ?_; rw [e2]; exact ⟨rfl, rfl, rfl, rfl, rfl, rfl, rfl, rfl, rfl, rfl⟩
  · have hb : (rs.length % 2 == 1) = false := by simp [hodd]
    have h0 : rs.length % 2 = 0 := by omega
    simp only [hb, Bool.false_eq_true, if_false, List.append_nil] at hat ⊢
    refine ⟨[], s1, by rw [List.length_map]; exact hst, by simp [h0], by simpa using hstk, hregs, ?_, hpc, hk⟩
    rw [hrsp, padLen, h0]; rfl

theorem step_addRsp8 {cfg : Cfg} {code : List X86} {rest : List X86} {s : PState w}
    (hat : At cfg code s.pc (addImm64 (.reg .rsp) 8 :: rest)) {v : BitVec 64} {tl : List (BitVec 64)}
    (hs : s.stk = v :: tl) :
    ∃ z c, step cfg s = .next { s with stk := tl, regs := s.regs.set .rsp (s.regs.rsp + 8),
                                       zf := z, cf := c, pc := s.pc + (addImm64 (.reg .rsp) 8).size } := by
  obtain ⟨z, c, h⟩ := step_addRsp hat (by decide) (by decide) (by decide) (by rw [hs]; simp)
  refine ⟨z, c, ?_⟩
  rw [h, hs]
  rfl

theorem post_call {cfg : Cfg} {code : List X86} {live : Nat} {rs : List Reg} {post : List X86}
    (hrs : savedRegs live = some rs) (hpost : postCall live = some post) {rest : List X86} {s : PState w}
    (hat : At cfg code s.pc (post ++ rest)) (R : Reg → BitVec 64) {pad stk0 : List (BitVec 64)}
    (hpad : pad.length = rs.length % 2) (hstk : s.stk = pad ++ (rs.map R).reverse ++ stk0) :
    ∃ s', steps cfg post.length s = some s' ∧ s'.stk = stk0 ∧
      (∀ r ∈ rs, s'.regs.get r = R r) ∧
      (∀ r, r ∉ rs → r ≠ .rsp → s'.regs.get r = s.regs.get r) ∧
      s'.regs.get .rsp = s.regs.get .rsp + BitVec.ofNat 64 (8 * padLen rs) ∧
      s'.pc = s.pc + sizeAll post ∧ StackKeep s s' := by
  unfold postCall at hpost
  simp only [hrs, Option.bind_eq_bind, Option.bind_some, Option.some.injEq] at hpost
  subst hpost
  by_cases hodd : rs.length % 2 = 1
  · have hb : (rs.length % 2 == 1) = true := by simp [hodd]
    simp only [hb, if_true, List.singleton_append, List.cons_append] at hat ⊢
    obtain ⟨v, hv⟩ : ∃ v, pad = [v] := by
      match pad, hpad with
      | [v], _ => exact ⟨v, rfl⟩
      | [], h => simp [hodd] at h
      | _ :: _ :: _, h => simp [hodd] at h
    subst hv
    obtain ⟨z, c, h1⟩ := step_addRsp8 (v := v) (tl := (rs.map R).reverse ++ stk0) hat (by rw [hstk]; simp)
    obtain ⟨s1, hs1, e1⟩ : ∃ s1 : PState w, step cfg s = .next s1 ∧ s1 = _ := ⟨_, h1, rfl⟩
    have hat1 : At cfg code s1.pc (rs.reverse.map .pop ++ rest) := by rw [e1]; exact hat.tail
    obtain ⟨s2, hst, hstk2, hin, hout, hrsp, hpc, hk⟩ := pop_all rs hat1 (savedRegs_ne hrs) R
      (stk0 := stk0) (by rw [e1])
    have hr1 : ∀ r, r ≠ .rsp → s1.regs.get r = s.regs.get r := by intro r hr; rw [e1]; simp [hr]
    refine ⟨s2, ?_, hstk2, hin, ?_, ?_, ?_, ?_⟩
    · have := steps_trans (steps_one hs1) hst
      simpa [Nat.add_comm] using this
    · intro r hr hne; rw [hout r hr hne, hr1 r hne]
    · rw [hrsp]
      have : s1.regs.get .rsp = s.regs.get .rsp + 8 := by rw [e1]; simp; rfl
      rw [this, padLen, hodd]
      apply BitVec.eq_of_toNat_eq
      have e8 : (8 : BitVec 64).toNat = 8 := rfl
      simp only [BitVec.toNat_add, BitVec.toNat_ofNat, e8]
      omega
    · rw [hpc, e1]; simp; omega
    · refine StackKeep.trans ?_ hk; rw [e1]; exact ⟨rfl, rfl, rfl, rfl, rfl, rfl, rfl, rfl, rfl, rfl⟩
  · have hb : (rs.length % 2 == 1) = false := by simp [hodd]
    have h0 : rs.length % 2 = 0 := by omega
    simp only [hb, Bool.false_eq_true, if_false, List.nil_append] at hat ⊢
    have hv : pad = [] := by
      match pad, hpad with
      | [], _ => rfl
      | _ :: _, h => simp [h0] at h
    subst hv
    obtain ⟨s2, hst, hstk2, hin, hout, hrsp, hpc, hk⟩ := pop_all rs hat (savedRegs_ne hrs) R
      (stk0 := stk0) (by simpa using hstk)
    refine ⟨s2, by simpa using hst, hstk2, hin, hout, ?_, hpc, hk⟩
    rw [hrsp, padLen, h0]; rfl

end C03
end Hpbf
