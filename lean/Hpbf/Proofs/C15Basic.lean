/-
C15 — expression arithmetic (`Hpbf.Expr`, model of `impl Expr<C>` in `src/ir.rs`).
Part 1: `evaluate` as a sum of monomials, permutation invariance, the order `cmpVars`, sorting,
`accum`/`finish`, and the value of `val var add neg half mul mulParts`.
Everything here holds for ALL part lists (no invariant) and all widths `w` (including 0).
-/
import Hpbf.Expr

namespace Hpbf
namespace Expr
variable {w : Nat}

/-! ### Monomials and sums -/

/-- Value of a monomial: product of the values of its variables. -/
def mono (f : Int → BitVec w) : List Int → BitVec w
  | [] => 1#w
  | v :: vs => f v * mono f vs

@[simp] theorem mono_nil (f : Int → BitVec w) : mono f [] = 1#w := rfl
@[simp] theorem mono_cons (f : Int → BitVec w) (v vs) : mono f (v :: vs) = f v * mono f vs := rfl

theorem mono_append (f : Int → BitVec w) (a b : List Int) :
    mono f (a ++ b) = mono f a * mono f b := by
  induction a with
  | nil => simp
  | cons v a ih => simp [ih, BitVec.mul_assoc]

theorem mono_perm (f : Int → BitVec w) {a b : List Int} (h : a.Perm b) : mono f a = mono f b := by
  induction h with
  | nil => rfl
  | cons x _ ih => simp [ih]
  | swap x y l => simp only [mono_cons]; grind
  | trans _ _ ih1 ih2 => exact ih1.trans ih2

theorem foldl_mul (f : Int → BitVec w) (vs : List Int) (c : BitVec w) :
    vs.foldl (fun acc v => acc * f v) c = c * mono f vs := by
  induction vs generalizing c with
  | nil => simp
  | cons v vs ih => simp only [List.foldl_cons, ih, mono_cons, BitVec.mul_assoc]

theorem evalPart_eq (f : Int → BitVec w) (p : Part w) :
    evalPart f p = p.coef * mono f p.vars := foldl_mul f p.vars p.coef

theorem foldl_add (f : Int → BitVec w) (e : Expr w) (c : BitVec w) :
    e.foldl (fun acc p => acc + evalPart f p) c = c + evaluate e f := by
  unfold evaluate
  induction e generalizing c with
  | nil => simp
  | cons p e ih =>
    simp only [List.foldl_cons]
    rw [ih (c + evalPart f p), ih (0#w + evalPart f p)]
    grind

@[simp] theorem evaluate_nil (f : Int → BitVec w) : evaluate ([] : Expr w) f = 0#w := rfl

theorem evaluate_cons (f : Int → BitVec w) (p : Part w) (e : Expr w) :
    evaluate (p :: e) f = evalPart f p + evaluate e f := by
  show List.foldl _ _ (p :: e) = _
  rw [List.foldl_cons, foldl_add]; grind

theorem evaluate_cons' (f : Int → BitVec w) (p : Part w) (e : Expr w) :
    evaluate (p :: e) f = p.coef * mono f p.vars + evaluate e f := by
  rw [evaluate_cons, evalPart_eq]

theorem evaluate_singleton (f : Int → BitVec w) (p : Part w) :
    evaluate [p] f = p.coef * mono f p.vars := by
  rw [evaluate_cons', evaluate_nil]; simp

theorem evaluate_append (f : Int → BitVec w) (a b : Expr w) :
    evaluate (a ++ b) f = evaluate a f + evaluate b f := by
  induction a with
  | nil => simp
  | cons p a ih => simp only [List.cons_append, evaluate_cons, ih, BitVec.add_assoc]

theorem evaluate_perm (f : Int → BitVec w) {a b : Expr w} (h : a.Perm b) :
    evaluate a f = evaluate b f := by
  induction h with
  | nil => rfl
  | cons x _ ih => simp only [evaluate_cons, ih]
  | swap x y l => simp only [evaluate_cons]; grind
  | trans _ _ ih1 ih2 => exact ih1.trans ih2

/-- Parts with coefficient zero do not contribute. -/
theorem evaluate_filter_coef (f : Int → BitVec w) (e : Expr w) :
    evaluate (e.filter (fun p => p.coef != 0#w)) f = evaluate e f := by
  induction e with
  | nil => rfl
  | cons p e ih =>
    by_cases hp : p.coef = 0#w
    · simp [hp, evaluate_cons', ih]
    · simp [hp, evaluate_cons', ih]

/-- Changing only coefficients: value of a `map`. -/
theorem evaluate_map (f : Int → BitVec w) (e : Expr w) (g : Part w → Part w) :
    evaluate (e.map g) f = (e.map (fun p => evalPart f (g p))).foldr (· + ·) 0#w := by
  induction e with
  | nil => rfl
  | cons p e ih => simp [evaluate_cons, ih]

/-! ### The slice order `cmpVars` -/

theorem cmpVars_eq_iff {a b : List Int} : cmpVars a b = .eq ↔ a = b := by
  induction a generalizing b with
  | nil => cases b <;> simp [cmpVars]
  | cons x a ih =>
    cases b with
    | nil => simp [cmpVars]
    | cons y b =>
      simp only [cmpVars]
      split
      · simp; omega
      · split
        · simp; omega
        · rw [ih]; simp; omega

theorem cmpVars_self (a : List Int) : cmpVars a a = .eq := cmpVars_eq_iff.2 rfl

theorem cmpVars_swap {a b : List Int} : cmpVars a b = .lt ↔ cmpVars b a = .gt := by
  induction a generalizing b with
  | nil => cases b <;> simp [cmpVars]
  | cons x a ih =>
    cases b with
    | nil => simp [cmpVars]
    | cons y b =>
      simp only [cmpVars]
      by_cases h1 : x < y
      · have : ¬ y < x := by omega
        simp [h1, this]
      · by_cases h2 : y < x
        · simp [h1, h2]
        · simp [h1, h2, ih]

theorem cmpVars_lt_trans {a b c : List Int} (h1 : cmpVars a b = .lt) (h2 : cmpVars b c = .lt) :
    cmpVars a c = .lt := by
  induction a generalizing b c with
  | nil =>
    cases c with
    | nil => cases b <;> simp [cmpVars] at h1 h2
    | cons _ _ => simp [cmpVars]
  | cons x a ih =>
    cases b with
    | nil => simp [cmpVars] at h1
    | cons y b =>
      cases c with
      | nil => simp [cmpVars] at h2
      | cons z c =>
        simp only [cmpVars] at h1 h2 ⊢
        by_cases hxy : x < y
        · by_cases hyz : y < z
          · have : x < z := by omega
            simp [this]
          · by_cases hzy : z < y
            · simp [hyz, hzy] at h2
            · have : x < z := by omega
              simp [this]
        · by_cases hyx : y < x
          · simp [hxy, hyx] at h1
          · simp only [hxy, hyx, if_false] at h1
            by_cases hyz : y < z
            · have : x < z := by omega
              simp [this]
            · by_cases hzy : z < y
              · simp [hyz, hzy] at h2
              · simp only [hyz, hzy, if_false] at h2
                have e1 : ¬ x < z := by omega
                have e2 : ¬ z < x := by omega
                simp only [e1, e2, if_false]
                exact ih h1 h2

theorem cmpVars_lt_irrefl {a : List Int} : cmpVars a a ≠ .lt := by
  rw [cmpVars_self]; decide

theorem cmpVars_lt_ne {a b : List Int} (h : cmpVars a b = .lt) : a ≠ b := by
  intro e; subst e; exact cmpVars_lt_irrefl h

theorem cmpVars_nil_right {a : List Int} : cmpVars a [] ≠ .lt := by
  cases a <;> simp [cmpVars]

theorem leVars_iff {a b : List Int} : leVars a b = true ↔ (cmpVars a b = .lt ∨ a = b) := by
  unfold leVars
  rw [← cmpVars_eq_iff]
  cases cmpVars a b <;> simp

theorem leVars_total (a b : List Int) : leVars a b = false → leVars b a = true := by
  intro h
  have : cmpVars a b = .gt := by
    unfold leVars at h
    cases hc : cmpVars a b <;> simp [hc] at h ⊢
  rw [leVars_iff]; left; exact cmpVars_swap.2 this

theorem leVars_trans {a b c : List Int} (h1 : leVars a b = true) (h2 : leVars b c = true) :
    leVars a c = true := by
  rw [leVars_iff] at *
  rcases h1 with h1 | rfl
  · rcases h2 with h2 | rfl
    · left; exact cmpVars_lt_trans h1 h2
    · left; exact h1
  · exact h2

theorem cmpVars_lt_of_le_of_lt {a b c : List Int} (h1 : leVars a b = true) (h2 : cmpVars b c = .lt) :
    cmpVars a c = .lt := by
  rcases leVars_iff.1 h1 with h | rfl
  · exact cmpVars_lt_trans h h2
  · exact h2

/-! ### Stable insertion sort -/

theorem insertSorted_perm {α : Type} (le : α → α → Bool) (x : α) (l : List α) :
    (insertSorted le x l).Perm (x :: l) := by
  induction l with
  | nil => exact List.Perm.refl _
  | cons y ys ih =>
    simp only [insertSorted]
    split
    · exact (List.Perm.cons y ih).trans (List.Perm.swap x y ys)
    · exact List.Perm.refl _

theorem stableSort_perm {α : Type} (le : α → α → Bool) (l : List α) : (stableSort le l).Perm l := by
  unfold stableSort
  suffices h : ∀ acc : List α, (l.foldl (fun acc x => insertSorted le x acc) acc).Perm (l.reverse ++ acc) by
    simpa using (h []).trans ((List.reverse_perm l).append_right [])
  induction l with
  | nil => intro acc; exact List.Perm.refl _
  | cons x l ih =>
    intro acc
    simp only [List.foldl_cons, List.reverse_cons, List.append_assoc, List.singleton_append]
    exact (ih _).trans (List.Perm.append_left _ (insertSorted_perm le x acc))

theorem insertSorted_sorted {α : Type} (le : α → α → Bool)
    (total : ∀ a b, le a b = false → le b a = true)
    (trans : ∀ a b c, le a b = true → le b c = true → le a c = true)
    (x : α) (l : List α) (h : l.Pairwise (fun a b => le a b = true)) :
    (insertSorted le x l).Pairwise (fun a b => le a b = true) := by
  induction l with
  | nil => simp [insertSorted]
  | cons y ys ih =>
    simp only [insertSorted]
    rw [List.pairwise_cons] at h
    split
    · rename_i hyx
      rw [List.pairwise_cons]
      refine ⟨?_, ih h.2⟩
      intro z hz
      have := (insertSorted_perm le x ys).mem_iff.1 hz
      rcases List.mem_cons.1 this with rfl | hz'
      · exact hyx
      · exact h.1 z hz'
    · rename_i hyx
      have hxy : le x y = true := total y x (by simpa using hyx)
      rw [List.pairwise_cons]
      refine ⟨?_, List.pairwise_cons.2 h⟩
      intro z hz
      rcases List.mem_cons.1 hz with rfl | hz'
      · exact hxy
      · exact trans _ _ _ hxy (h.1 z hz')

theorem stableSort_sorted {α : Type} (le : α → α → Bool)
    (total : ∀ a b, le a b = false → le b a = true)
    (trans : ∀ a b c, le a b = true → le b c = true → le a c = true) (l : List α) :
    (stableSort le l).Pairwise (fun a b => le a b = true) := by
  unfold stableSort
  suffices h : ∀ acc : List α, acc.Pairwise (fun a b => le a b = true) →
      (l.foldl (fun acc x => insertSorted le x acc) acc).Pairwise (fun a b => le a b = true) from
    h [] List.Pairwise.nil
  induction l with
  | nil => intro acc h; exact h
  | cons x l ih =>
    intro acc h
    exact ih _ (insertSorted_sorted le total trans x acc h)

theorem sortVars_perm (vs : List Int) : (sortVars vs).Perm vs := stableSort_perm _ vs

theorem mono_sortVars (f : Int → BitVec w) (vs : List Int) : mono f (sortVars vs) = mono f vs :=
  mono_perm f (sortVars_perm vs)

/-! ### Association lists (`accum`, `finish`) -/

/-- Value of an accumulated key ↦ coefficient table. -/
def evalM (f : Int → BitVec w) : List (List Int × BitVec w) → BitVec w
  | [] => 0#w
  | kc :: m => kc.2 * mono f kc.1 + evalM f m

@[simp] theorem evalM_nil (f : Int → BitVec w) : evalM f [] = 0#w := rfl
@[simp] theorem evalM_cons (f : Int → BitVec w) (kc m) :
    evalM f (kc :: m) = kc.2 * mono f kc.1 + evalM f m := rfl

theorem evalM_accum (f : Int → BitVec w) (m : List (List Int × BitVec w)) (k : List Int) (c : BitVec w) :
    evalM f (accum m k c) = evalM f m + c * mono f k := by
  induction m with
  | nil => simp [accum]
  | cons kc m ih =>
    obtain ⟨k', c'⟩ := kc
    simp only [accum]
    split
    · rename_i h; subst h; simp only [evalM_cons]; grind
    · simp only [evalM_cons, ih]; grind

/-- Generic accumulation loop: each element contributes `C x * mono (K x)`. -/
theorem evalM_foldl_accum {α : Type} (f : Int → BitVec w) (K : α → List Int) (C : α → BitVec w)
    (l : List α) (m : List (List Int × BitVec w)) :
    evalM f (l.foldl (fun m x => accum m (K x) (C x)) m)
      = evalM f m + (l.map (fun x => C x * mono f (K x))).foldr (· + ·) 0#w := by
  induction l generalizing m with
  | nil => simp
  | cons x l ih => simp only [List.foldl_cons, ih, evalM_accum, List.map_cons, List.foldr_cons]; grind

theorem evaluate_ofTable (f : Int → BitVec w) (m : List (List Int × BitVec w)) :
    evaluate ((m.filter (fun kc => kc.2 != 0#w)).map (fun kc => ({ coef := kc.2, vars := kc.1 } : Part w))) f
      = evalM f m := by
  induction m with
  | nil => rfl
  | cons kc m ih =>
    by_cases h : kc.2 = 0#w
    · simp [h, ih]
    · simp [h, ih, evaluate_cons']

theorem evaluate_finish (f : Int → BitVec w) (m : List (List Int × BitVec w)) :
    evaluate (finish m) f = evalM f m := by
  unfold finish
  rw [evaluate_perm f (stableSort_perm _ _), evaluate_ofTable]

/-- Sum form of `evaluate`, convenient next to `evalM_foldl_accum`. -/
theorem evaluate_eq_foldr (f : Int → BitVec w) (e : Expr w) :
    evaluate e f = (e.map (fun p => p.coef * mono f p.vars)).foldr (· + ·) 0#w := by
  induction e with
  | nil => rfl
  | cons p e ih => simp [evaluate_cons', ih]

/-! ### A. Value of the constructors -/

theorem eval_val (c : BitVec w) (f : Int → BitVec w) : evaluate (val c) f = c := by
  unfold val
  split
  · rename_i h; simp [h]
  · simp [evaluate_singleton]

theorem eval_var (v : Int) (f : Int → BitVec w) : evaluate (var v : Expr w) f = f v := by
  simp [var, evaluate_singleton]

theorem eval_add (a b : Expr w) (f : Int → BitVec w) :
    evaluate (add a b) f = evaluate a f + evaluate b f := by
  fun_induction add a b with
  | case1 b => simp
  | case2 a _ => simp
  | case3 p ps q qs h ih => simp only [evaluate_cons, ih]; grind
  | case4 p ps q qs h ih => simp only [evaluate_cons, ih]; grind
  | case5 p ps q qs h c hc ih =>
    have hv : p.vars = q.vars := cmpVars_eq_iff.1 h
    simp only [evaluate_cons', ih, c, hv]; grind
  | case6 p ps q qs h c hc ih =>
    have hv : p.vars = q.vars := cmpVars_eq_iff.1 h
    have hc0 : p.coef + q.coef = 0#w := by simpa [c] using hc
    simp only [evaluate_cons', ih, hv]
    have : p.coef * mono f q.vars + q.coef * mono f q.vars = 0#w := by
      rw [← BitVec.add_mul, hc0]; simp
    grind

theorem eval_neg (a : Expr w) (f : Int → BitVec w) : evaluate (neg a) f = - evaluate a f := by
  unfold neg
  induction a with
  | nil => simp
  | cons p a ih => simp only [List.map_cons, evaluate_cons', ih]; grind

/-- An even value is twice its logical right shift (`wrapping_shr(1)`). -/
theorem even_eq_double (x : BitVec w) (h : Cell.isOdd x = false) :
    x = Cell.wshr x 1 + Cell.wshr x 1 := by
  unfold Cell.isOdd at h
  unfold Cell.wshr
  have h' : ¬ (x &&& 1#w) = 1#w := by simpa using h
  by_cases hw : 1 < w
  · simp only [hw, if_true]
    apply BitVec.eq_of_toNat_eq
    have h1 : (1#w).toNat = 1 := BitVec.toNat_one (by omega)
    have hx : x.toNat % 2 = 0 := by
      have : (x &&& 1#w).toNat ≠ 1 := fun e => h' (BitVec.eq_of_toNat_eq (by rw [e, h1]))
      rw [BitVec.toNat_and, h1, Nat.and_one_is_mod] at this
      omega
    rw [BitVec.toNat_add, BitVec.toNat_ushiftRight, Nat.shiftRight_eq_div_pow]
    have := x.isLt
    rw [Nat.mod_eq_of_lt] <;> omega
  · simp only [hw, if_false]
    have hw' : w = 0 ∨ w = 1 := by omega
    rcases hw' with rfl | rfl
    · exact Subsingleton.elim _ _
    · revert h'; revert x; decide

theorem eval_half (a h : Expr w) (f : Int → BitVec w) (hh : half a = some h) :
    evaluate a f = evaluate h f + evaluate h f := by
  unfold half at hh
  split at hh
  · rename_i hall
    simp only [Option.some.injEq] at hh
    subst hh
    induction a with
    | nil => simp
    | cons p a ih =>
      simp only [List.all_cons, Bool.and_eq_true, Bool.not_eq_true'] at hall
      simp only [List.map_cons, evaluate_cons', ih hall.2]
      have := even_eq_double p.coef hall.1
      generalize Cell.wshr p.coef 1 = c at this
      rw [this]; grind
  · cases hh

theorem eval_scaleAppendOrig (e : Expr w) (p : Part w) (f : Int → BitVec w) :
    evaluate (scaleAppendOrig e p) f = evaluate e f * evalPart f p := by
  unfold scaleAppendOrig
  rw [evaluate_filter_coef]
  induction e with
  | nil => simp
  | cons q e ih =>
    simp only [List.map_cons, evaluate_cons', ih, mono_append, evalPart_eq]; grind

/-- Scale every part by `p` and merge `p`'s variables in (sorted), dropping zero parts. -/
theorem evaluate_scaleMap (e : Expr w) (p : Part w) (f : Int → BitVec w) :
    evaluate ((e.map (fun q => ({ coef := q.coef * p.coef, vars := sortVars (q.vars ++ p.vars) } : Part w))).filter
      (fun q => q.coef != 0#w)) f = evaluate e f * evalPart f p := by
  rw [evaluate_filter_coef]
  induction e with
  | nil => simp
  | cons q e ih =>
    simp only [List.map_cons, evaluate_cons', ih, mono_sortVars, mono_append, evalPart_eq]; grind

theorem eval_scaleAppend (e : Expr w) (p : Part w) (f : Int → BitVec w) :
    evaluate (scaleAppend e p) f = evaluate e f * evalPart f p := by
  unfold scaleAppend
  rw [evaluate_perm f (stableSort_perm _ _), evaluate_scaleMap]

theorem foldr_pairProducts (f : Int → BitVec w) (sp : Part w) (b : Expr w) :
    (b.map (fun op : Part w => sp.coef * op.coef * mono f (sortVars (sp.vars ++ op.vars)))).foldr
        (· + ·) 0#w = sp.coef * mono f sp.vars * evaluate b f := by
  induction b with
  | nil => simp
  | cons op b ihb =>
    simp only [mono_sortVars, mono_append] at ihb ⊢
    simp only [List.map_cons, List.foldr_cons, ihb, evaluate_cons']
    grind

/-- The double loop of the general path of `mul`/`mulParts`. -/
theorem evalM_mulLoop (f : Int → BitVec w) (a b : Expr w) (m : List (List Int × BitVec w)) :
    evalM f (a.foldl (fun m sp =>
        b.foldl (fun m op => accum m (sortVars (sp.vars ++ op.vars)) (sp.coef * op.coef)) m) m)
      = evalM f m + evaluate a f * evaluate b f := by
  induction a generalizing m with
  | nil => simp
  | cons sp a ih =>
    simp only [List.foldl_cons, ih]
    rw [evalM_foldl_accum f (fun op : Part w => sortVars (sp.vars ++ op.vars)) (fun op => sp.coef * op.coef)]
    rw [foldr_pairProducts, evaluate_cons']; grind

theorem eval_mul (a b : Expr w) (f : Int → BitVec w) :
    evaluate (mul a b) f = evaluate a f * evaluate b f := by
  unfold mul
  split
  · simp [eval_val]
  · simp [eval_val]
  · rw [eval_scaleAppend, evaluate_singleton, evalPart_eq]; grind
  · rw [eval_scaleAppend, evaluate_singleton, evalPart_eq]
  · rw [evaluate_finish, evalM_mulLoop]; simp

theorem eval_mulParts (l r : Expr w) (f : Int → BitVec w) :
    evaluate (mulParts l r) f = evaluate l f * evaluate r f := by
  unfold mulParts
  split
  · simp
  · simp
  · rw [evaluate_scaleMap, evaluate_singleton, evalPart_eq]; grind
  · rw [evaluate_scaleMap, evaluate_singleton, evalPart_eq]
  · rw [evaluate_ofTable, evalM_mulLoop]; simp; grind

end Expr
end Hpbf
