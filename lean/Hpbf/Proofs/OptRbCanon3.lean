/-
Rebuild-round proofs: the normal-form invariant, part 3: the results of the loop analysis
(`analyzeLoop`, `linearAmong`, `loopMotion`) are canonical.
-/
import Hpbf.Proofs.OptRbCanon2

namespace Hpbf
namespace OptProof
open Opt OptSem Ir

variable {w : Nat}

/-! ### `analyzeLoop` -/

/-- The trip-count expression of a loop analysis (if any) is canonical. -/
def LoopCanon (L : OptLoop w) : Prop := ∀ e, L.expr = some e → Expr.Canon e

theorem loopCanon_ofExpr {e : Expr w} (h : Expr.Canon e) : LoopCanon (OptLoop.ofExpr e) := by
  intro e' he'
  simp only [OptLoop.ofExpr, Option.some.injEq] at he'
  subst he'; exact h

theorem loopCanon_noReturn (b : Bool) : LoopCanon (OptLoop.noReturn b : OptLoop w) := by
  intro e' he'
  simp only [OptLoop.noReturn] at he'
  split at he'
  · simp only [Option.some.injEq] at he'
    subst he'; exact Expr.canon_val _
  · cases he'

theorem loopCanon_infinite (b : Bool) : LoopCanon (OptLoop.infinite b : OptLoop w) := by
  intro e' he'; simp [OptLoop.infinite] at he'

theorem loopCanon_unknown (b : Bool) : LoopCanon (OptLoop.unknown b : OptLoop w) := by
  intro e' he'; simp [OptLoop.unknown] at he'

theorem loopCanon_atMostOnceOf (b : Bool) : LoopCanon (OptLoop.atMostOnceOf b : OptLoop w) := by
  unfold OptLoop.atMostOnceOf
  split
  · exact loopCanon_ofExpr (Expr.canon_val _)
  · intro e' he'; simp at he'

theorem loopCanon_toAtLeastOnce {L : OptLoop w} (h : LoopCanon L) : LoopCanon L.toAtLeastOnce := h

theorem loopCanon_toAtMostOnce (L : OptLoop w) : LoopCanon L.toAtMostOnce := by
  intro e' he'; simp [OptLoop.toAtMostOnce] at he'

/-- `analyzeLoop`: the trip count is `Expr.val _` or `Expr.mul (Expr.val inv) (Expr.var cond)`. -/
theorem analyzeLoop_canon (s : Rebuild w) (ps : List (Rebuild w)) (sub : Rebuild w) (cond : Int)
    (isLoop : Bool) {e : Expr w} (h : (analyzeLoop s ps sub cond isLoop).expr = some e) :
    Expr.Canon e := by
  have key : LoopCanon (analyzeLoop s ps sub cond isLoop) := by
    unfold analyzeLoop
    simp only []
    repeat' split
    all_goals first
      | exact loopCanon_ofExpr (Expr.canon_val _)
      | exact loopCanon_ofExpr (Expr.canon_mul (Expr.canon_val _) (Expr.canon_var _))
      | exact loopCanon_noReturn _
      | exact loopCanon_atMostOnceOf _
      | exact loopCanon_infinite _
      | exact loopCanon_unknown _
  exact key e h

/-! ### `linearAmong` -/

theorem mem_mSet {ν : Type} (m : List (Int × ν)) (k : Int) (v : ν) (kv : Int × ν)
    (h : kv ∈ mSet m k v) : kv = (k, v) ∨ kv ∈ m := by
  induction m with
  | nil => simp only [mSet, List.mem_singleton] at h; exact Or.inl h
  | cons ab m ih =>
    obtain ⟨a, b⟩ := ab
    simp only [mSet] at h
    split at h
    · rcases List.mem_cons.1 h with h | h
      · exact Or.inl h
      · exact Or.inr (List.mem_cons_of_mem _ h)
    · split at h
      · rcases List.mem_cons.1 h with h | h
        · exact Or.inl h
        · exact Or.inr h
      · rcases List.mem_cons.1 h with h | h
        · exact Or.inr (by rw [h]; exact List.mem_cons_self)
        · rcases ih h with h | h
          · exact Or.inl h
          · exact Or.inr (List.mem_cons_of_mem _ h)

/-- Every entry of `linearAmong` is canonical. -/
theorem linearAmong_canon {s : Rebuild w} {ps : List (Rebuild w)} {sub : Rebuild w} (hc : CanonSt sub)
    (C vars : List Int) :
    ∀ v inc, (v, inc) ∈ linearAmong s ps sub C vars → Expr.Canon inc := by
  unfold linearAmong
  suffices H : ∀ (acc : List (Int × Expr w)), (∀ kv ∈ acc, Expr.Canon kv.2) →
      ∀ kv ∈ vars.foldl (fun linear var =>
        if mHas sub.written var then linear
        else
          match getBoth sub (s :: ps) var with
          | some complete =>
            match Expr.incOf complete var with
            | some inc =>
              if (Expr.variables inc).all (fun x => C.contains x) then mSet linear var inc else linear
            | none => linear
          | none => linear) acc, Expr.Canon kv.2 from
    fun v inc h => H [] (fun kv hkv => by cases hkv) (v, inc) h
  induction vars with
  | nil => intro acc hacc; exact hacc
  | cons var vars ih =>
    intro acc hacc
    simp only [List.foldl_cons]
    apply ih
    split
    · exact hacc
    · split
      · rename_i complete hgb
        split
        · rename_i inc hinc
          split
          · intro kv hkv
            rcases mem_mSet _ _ _ _ hkv with h | h
            · rw [h]; exact Expr.canon_incOf (getBoth_canon hc (s :: ps) hgb) hinc
            · exact hacc kv h
          · exact hacc
        · exact hacc
      · exact hacc

theorem linearAmong_canon_get {s : Rebuild w} {ps : List (Rebuild w)} {sub : Rebuild w} (hc : CanonSt sub)
    (C vars : List Int) {v : Int} {inc : Expr w} (h : mGet (linearAmong s ps sub C vars) v = some inc) :
    Expr.Canon inc :=
  linearAmong_canon hc C vars v inc (mGet_some_mem h)

/-! ### `loopMotion` -/

theorem canon_single {p : Part w} (h : Expr.SortedVars p.vars) : Expr.Canon [p] :=
  Expr.canon_cons.2 ⟨h, by simp, Expr.canon_nil⟩

theorem triStep_canon {expr initial increment before : Expr w} (he : Expr.Canon expr)
    (hi : Expr.Canon initial) (hinc : Expr.Canon increment) (hb : Expr.Canon before) :
    Expr.Canon (OptArith.triStep expr initial increment before).2 := by
  have hneg : Expr.Canon (Expr.add expr (Expr.val (-1#w))) := Expr.canon_add he (Expr.canon_val _)
  unfold OptArith.triStep
  simp only []
  split
  · rename_i inc h1
    exact Expr.canon_add (Expr.canon_mul he hi)
      (Expr.canon_add hb (Expr.canon_mul he (Expr.canon_mul hneg (Expr.canon_half hinc h1))))
  · split
    · rename_i inc h2
      exact Expr.canon_add (Expr.canon_mul he hi)
        (Expr.canon_add hb (Expr.canon_mul hneg (Expr.canon_mul hinc (Expr.canon_half he h2))))
    · split
      · rename_i inc h3
        exact Expr.canon_add (Expr.canon_mul he hi)
          (Expr.canon_add hb (Expr.canon_mul he (Expr.canon_mul hinc (Expr.canon_half hneg h3))))
      · exact hb

theorem triFold_canon {expr : Expr w} (he : Expr.Canon expr) (linears : List (Expr w × Expr w))
    (hl : ∀ il ∈ linears, Expr.Canon il.1 ∧ Expr.Canon il.2) (ba : Expr w × Expr w)
    (h1 : Expr.Canon ba.1) (h2 : Expr.Canon ba.2) :
    Expr.Canon (linears.foldl (OptLoop.triFoldStep expr) ba).1 ∧
    Expr.Canon (linears.foldl (OptLoop.triFoldStep expr) ba).2 := by
  induction linears generalizing ba with
  | nil => exact ⟨h1, h2⟩
  | cons il linears ih =>
    simp only [List.foldl_cons]
    obtain ⟨a1, a2⟩ := hl il (by simp)
    have hstep : Expr.Canon (OptLoop.triFoldStep expr ba il).1 ∧
        Expr.Canon (OptLoop.triFoldStep expr ba il).2 := by
      unfold OptLoop.triFoldStep
      simp only []
      split
      · exact ⟨h1, Expr.canon_add h2 a1⟩
      · exact ⟨triStep_canon he a1 a2 h1, h2⟩
    exact ih (fun il' h' => hl il' (by simp [h'])) _ hstep.1 hstep.2

/-- The constant and the other parts collected by `splitAlong` are sub-lists of the expression. -/
theorem splitFold_sublist (C : List Int) (lin : List (Int × Expr w)) (e : Expr w)
    (acc acc' : Expr w × Expr w × List (Expr w × Expr w))
    (h : e.foldlM (OptLoop.splitStep C lin) acc = .ok acc') :
    ∃ e1 e2, e1.Sublist e ∧ e2.Sublist e ∧ acc'.1 = acc.1 ++ e1 ∧ acc'.2.1 = acc.2.1 ++ e2 := by
  induction e generalizing acc with
  | nil =>
    have : acc = acc' := by
      simp only [List.foldlM_nil] at h
      cases h; rfl
    subst this
    exact ⟨[], [], List.Sublist.refl _, List.Sublist.refl _, by simp, by simp⟩
  | cons part e ih =>
    rw [List.foldlM_cons] at h
    cases hstep : OptLoop.splitStep C lin acc part with
    | error err => rw [hstep] at h; cases h
    | ok acc1 =>
      rw [hstep] at h
      obtain ⟨e1, e2, s1, s2, q1, q2⟩ := ih acc1 h
      unfold OptLoop.splitStep at hstep
      split at hstep
      · have hacc1 : acc1 = (acc.1 ++ [part], acc.2.1, acc.2.2) := by cases hstep; rfl
        subst hacc1
        exact ⟨part :: e1, e2, s1.cons_cons part, s2.cons part, by rw [q1]; simp, q2⟩
      · split at hstep
        · cases hfind : part.vars.find? (fun x => !C.contains x) with
          | none => simp only [hfind] at hstep; cases hstep
          | some lv =>
            simp only [hfind] at hstep
            cases hl : mGet lin lv with
            | none => simp only [hl] at hstep; cases hstep
            | some l =>
              simp only [hl] at hstep
              have hacc1 : acc1 = (acc.1, acc.2.1, acc.2.2 ++
                  [([part], Expr.mul [OptLoop.incPart part lv] l)]) := by
                cases hstep; rfl
              subst hacc1
              exact ⟨e1, e2, s1.cons part, s2.cons part, q1, q2⟩
        · have hacc1 : acc1 = (acc.1, acc.2.1 ++ [part], acc.2.2) := by cases hstep; rfl
          subst hacc1
          exact ⟨e1, part :: e2, s1.cons part, s2.cons_cons part, q1, by rw [q2]; simp⟩

theorem splitAlong_canon {e : Expr w} {C : List Int} {lin : List (Int × Expr w)} {cst other : Expr w}
    {lins : List (Expr w × Expr w)} (h : splitAlong e C lin = .ok (cst, other, lins))
    (he : Expr.Canon e) (hlin : ∀ v l, mGet lin v = some l → Expr.Canon l) :
    Expr.Canon cst ∧ Expr.Canon other ∧ ∀ il ∈ lins, Expr.Canon il.1 ∧ Expr.Canon il.2 := by
  obtain ⟨_, _, _, _, hLin⟩ := OptLoop.splitAlong_recompose e C lin cst other lins h
  rw [OptLoop.splitAlong_eq] at h
  obtain ⟨e1, e2, s1, s2, q1, q2⟩ := splitFold_sublist C lin e _ _ h
  simp only [List.nil_append] at q1 q2
  refine ⟨by rw [q1]; exact he.sublist s1, by rw [q2]; exact he.sublist s2, ?_⟩
  intro il hil
  obtain ⟨part, lv, l, hp, i1, _, _, hl, i2, _, _⟩ := hLin il hil
  have hsv : Expr.SortedVars part.vars := he.inner part hp
  constructor
  · rw [i1]; exact canon_single hsv
  · rw [i2]
    refine Expr.canon_mul (canon_single ?_) (hlin lv l hl)
    exact Expr.sortedVars_sublist List.filter_sublist hsv

/-- `loopMotion` returns canonical expressions. -/
theorem loopMotion_canon {s : Rebuild w} {ps : List (Rebuild w)} {var : Int} {p : Expr w}
    {complete : Bool} {reads C : List Int} {lin : List (Int × Expr w)} {otherPending : List Int}
    {L : OptLoop w} {b d a : Option (Expr w)}
    (h : loopMotion s ps var p complete reads C lin otherPending L = .ok (b, d, a))
    (hp : Expr.Canon p) (hlin : ∀ v l, mGet lin v = some l → Expr.Canon l)
    (hL : ∀ e, L.expr = some e → Expr.Canon e) :
    (∀ e, b = some e → Expr.Canon e) ∧ (∀ e, d = some e → Expr.Canon e) ∧
    (∀ e, a = some e → Expr.Canon e) := by
  have hcase := OptLoop.loopMotion_cases s ps var p complete reads C lin otherPending L (b, d, a) h
  have hnone : ∀ e : Expr w, (none : Option (Expr w)) = some e → Expr.Canon e := fun e h => by cases h
  have hsome : ∀ {x : Expr w}, Expr.Canon x → ∀ e : Expr w, some x = some e → Expr.Canon e :=
    fun hx e h => by cases h; exact hx
  cases hcase with
  | gone _ _ => exact ⟨hnone, hnone, hnone⟩
  | after p' hp' _ _ =>
    exact ⟨hnone, hnone, hsome (OptLoop.reduceConst_canon s ps p p' C hp' hp)⟩
  | tri p' expr inc cst other linears _ _ _ hp' hexpr hpi hsplit =>
    have hpc := OptLoop.reduceConst_canon s ps p p' C hp' hp
    have hinc := Expr.canon_prodIncOf hpc hpi
    have hex := hL expr hexpr
    obtain ⟨c1, c2, c3⟩ := splitAlong_canon hsplit hinc hlin
    obtain ⟨f1, f2⟩ := triFold_canon hex linears c3 (Expr.mul expr cst, other)
      (Expr.canon_mul hex c1) c2
    exact ⟨hsome (Expr.canon_add (Expr.canon_var var) f1),
      hsome (Expr.canon_add (Expr.canon_var var) f2), hnone⟩
  | geo0 p' expr inc mul c _ _ _ hp' hexpr hpi _ _ _ =>
    exact ⟨hsome (Expr.canon_mul (Expr.canon_val _) (Expr.canon_var var)), hnone, hnone⟩
  | geo p' expr inc mul c _ _ _ hp' hexpr hpi _ _ _ =>
    have hpc := OptLoop.reduceConst_canon s ps p p' C hp' hp
    have hinc := Expr.canon_prodIncOf hpc hpi
    exact ⟨hsome (Expr.canon_add (Expr.canon_mul (Expr.canon_val _) (Expr.canon_var var))
      (Expr.canon_mul (Expr.canon_val _) hinc)), hnone, hnone⟩
  | stay p' hp' =>
    exact ⟨hnone, hsome (OptLoop.reduceConst_canon s ps p p' C hp' hp), hnone⟩

#print axioms rebuildInsts_canon
#print axioms loopMotion_canon
#print axioms parse_good

end OptProof
end Hpbf
