/-
C16 — specification vocabulary and lemmas for the command line front end (`Hpbf/Cli.lean`, a model of
`/repo/src/bin/hpbf.rs`).  The property theorems are in `Hpbf/Props/C16.lean`.

Part 1 (specification vocabulary) is declarative: it classifies the arguments by looking one argument
ahead (`roles`) and then describes every field of the resulting configuration as a function of the
classified argument list.  It does not mention `Cli.step` or any pending-operand state.

Part 2 (proof machinery) connects that description to the fold `List.foldl (Cli.step fs) {}`.
-/
import Hpbf.Cli
import Hpbf.Gen.CliTable

namespace Hpbf
namespace C16

open Cli

/-! ## Part 1. Specification vocabulary -/

/-- Classification of the arguments: `fileOperand` / `limitOperand` are the arguments consumed by a
preceding `-f` / `--limit`. -/
inductive Role where
  | flag | fileOperand | limitOperand | code
  deriving DecidableEq, Repr, Inhabited

/-- Every string the front end recognises as an option. -/
def flagNames : List String :=
  kindFlags.map (·.1) ++ optFlags.map (·.1) ++ bitsFlags.map (·.1) ++ helpFlags ++ fileFlags ++
    ["--limit", "--static", "--time"]

def isFlag (a : String) : Bool := flagNames.contains a
def isFileFlag (a : String) : Bool := fileFlags.contains a
def isLimitFlag (a : String) : Bool := a == "--limit"

/-- The role of a single argument that is not an operand. -/
def plainRole (a : String) : Role := if isFlag a then .flag else .code

/-- The role of every argument, by structural recursion, looking one argument ahead: whatever follows
a file flag is a file name, whatever follows `--limit` is the limit operand, everything else is a flag
if it is one of `flagNames` and code otherwise. -/
def roles : List String → List Role
  | [] => []
  | [a] => [plainRole a]
  | a :: b :: rest =>
    if isFileFlag a then .flag :: .fileOperand :: roles rest
    else if isLimitFlag a then .flag :: .limitOperand :: roles rest
    else plainRole a :: roles (b :: rest)

/-- The arguments paired with their roles. -/
def tagged (args : List String) : List (String × Role) := args.zip (roles args)

/-- Projection of a tagged list onto the arguments with role `r`, in order. -/
def sel (r : Role) (l : List (String × Role)) : List String := (l.filter (·.2 = r)).map (·.1)

def flagArgs (args : List String) : List String := sel .flag (tagged args)
def fileOperands (args : List String) : List String := sel .fileOperand (tagged args)
def limitOperands (args : List String) : List String := sel .limitOperand (tagged args)
def codeArgs (args : List String) : List String := sel .code (tagged args)

/-- What one classified argument contributes to the executed code. -/
def contrib1 (fs : String → FileRes) : String × Role → List String
  | (a, .code) => [a]
  | (a, .fileOperand) => match fs a with
    | .ok content => [content]
    | _ => []
  | _ => []

/-- For each argument in order: the file's content if it is a `fileOperand` that reads fine, the
argument itself if its role is `code`, nothing otherwise. -/
def contrib (fs : String → FileRes) (args : List String) : List String :=
  (tagged args).flatMap (contrib1 fs)

/-- The value selected by the last argument of `flagArgs` that is in `table`; `dflt` if none is. -/
def lastOf {α : Type} (table : List (String × α)) (dflt : α) (flagArgs : List String) : α :=
  flagArgs.foldl (fun acc a => (table.lookup a).getD acc) dflt

/-- The last limit operand that parses as a `usize`. -/
def lastLimit (ops : List String) : Option Nat := (ops.filterMap parseUsize).getLast?

/-- Does reading this file fail? -/
def fileFails (fs : String → FileRes) (a : String) : Bool :=
  match fs a with
  | .ok _ => false
  | _ => true

/-- The diagnostic caused by one classified argument. -/
def diag1 (fs : String → FileRes) : String × Role → List String
  | (a, .fileOperand) => match fs a with
    | .ok _ => []
    | .notUtf8 => ["error: failed to read file `" ++ a ++ "`"]
    | .openFailed => ["error: failed to open file `" ++ a ++ "`"]
  | (a, .limitOperand) => match parseUsize a with
    | some _ => []
    | none => [a ++ ": ignoring invalid limit"]
  | _ => []

/-- The diagnostic for a trailing `-f` / `--limit` whose operand is missing. -/
def trailing (args : List String) : List String :=
  match (tagged args).getLast? with
  | some (a, .flag) =>
    if isFileFlag a then ["--file: ignoring missing file"]
    else if isLimitFlag a then ["--limit: ignoring missing limit"]
    else []
  | _ => []

/-- Everything written to stderr by the argument loop, oldest first. -/
def diagnostics (fs : String → FileRes) (args : List String) : List String :=
  (tagged args).flatMap (diag1 fs) ++ trailing args

/-! ## Part 2. Proof machinery -/

/-! ### The option tables are pairwise disjoint -/

theorem flagNames_nodup : flagNames.Nodup := by decide

theorem not_isFlag {a : String} (h : isFlag a = false) :
    kindFlags.lookup a = none ∧ optFlags.lookup a = none ∧ bitsFlags.lookup a = none ∧
    a ∉ helpFlags ∧ a ∉ fileFlags ∧ a ≠ "--limit" ∧ a ≠ "--static" ∧ a ≠ "--time" := by
  simp [isFlag, flagNames, kindFlags, optFlags, bitsFlags, helpFlags, fileFlags] at h
  obtain ⟨h1, h2, h3, h4, h5, h6, h7, h8, h9, h10, h11, h12, h13, h14, h15, h16, h17, h18, h19, h20,
    h21, h22, h23, h24, h25, h26, h27⟩ := h
  simp [kindFlags, optFlags, bitsFlags, helpFlags, fileFlags, *]

theorem isFlag_cases {a : String} (h : isFlag a = true) : a ∈ flagNames := by
  simpa [isFlag] using h

theorem isFileFlag_isFlag {a : String} (h : isFileFlag a = true) : isFlag a = true := by
  simp [isFileFlag, fileFlags] at h
  rcases h with rfl | rfl | rfl <;> decide

theorem isLimitFlag_isFlag {a : String} (h : isLimitFlag a = true) : isFlag a = true := by
  simp [isLimitFlag] at h
  subst h; decide

theorem isFileFlag_not_limit {a : String} (h : isFileFlag a = true) : isLimitFlag a = false := by
  simp [isFileFlag, fileFlags] at h
  rcases h with rfl | rfl | rfl <;> decide

/-! ### The effect of one classified argument, field by field -/

/-- What one classified argument does to the configuration.  Every field is updated independently of
the others. -/
def apply (fs : String → FileRes) (c : Cfg) : String × Role → Cfg
  | (a, .flag) =>
    { c with
      kind := (kindFlags.lookup a).getD c.kind
      opt := (optFlags.lookup a).getD c.opt
      bits := (bitsFlags.lookup a).getD c.bits
      printHelp := c.printHelp || helpFlags.contains a
      safe := c.safe && !(a == "--static")
      time := c.time || a == "--time"
      nextIsFile := isFileFlag a
      nextIsLimit := isLimitFlag a }
  | (a, .code) => { c with code := c.code ++ a, nextIsFile := false, nextIsLimit := false }
  | (a, .fileOperand) =>
    { c with
      code := c.code ++ String.join (contrib1 fs (a, .fileOperand))
      hasError := c.hasError || fileFails fs a
      stderr := c.stderr ++ diag1 fs (a, .fileOperand)
      nextIsFile := false
      nextIsLimit := false }
  | (a, .limitOperand) =>
    { c with
      limit := (parseUsize a).or c.limit
      stderr := c.stderr ++ diag1 fs (a, .limitOperand)
      nextIsFile := false
      nextIsLimit := false }

/-- Pending operand of the state machine. -/
inductive Pend where
  | none | file | limit
  deriving DecidableEq, Repr

def pendOf (c : Cfg) : Pend :=
  if c.nextIsFile then .file else if c.nextIsLimit then .limit else .none

def role1 : Pend → String → Role
  | .file, _ => .fileOperand
  | .limit, _ => .limitOperand
  | .none, a => plainRole a

def next : Pend → String → Pend
  | .none, a => if isFileFlag a then .file else if isLimitFlag a then .limit else .none
  | _, _ => .none

/-- `roles` with an explicit pending operand. -/
def rolesP : Pend → List String → List Role
  | _, [] => []
  | p, a :: rest => role1 p a :: rolesP (next p a) rest

theorem roles_eq_rolesP (args : List String) : roles args = rolesP .none args := by
  induction args using roles.induct with
  | case1 => rfl
  | case2 a => simp [roles, rolesP, role1]
  | case3 a b rest h ih =>
    have hf := isFileFlag_isFlag h
    simp [roles, rolesP, role1, next, h, ih, plainRole, hf]
  | case4 a b rest h h' ih =>
    have hf := isLimitFlag_isFlag h'
    simp [roles, rolesP, role1, next, h, h', ih, plainRole, hf]
  | case5 a b rest h h' ih =>
    simp [roles, h, h', ih]
    simp [rolesP, role1, next, h, h']

theorem rolesP_length (p : Pend) (args : List String) : (rolesP p args).length = args.length := by
  induction args generalizing p with
  | nil => rfl
  | cons a rest ih => simp [rolesP, ih]

theorem roles_length_aux (args : List String) : (roles args).length = args.length := by
  rw [roles_eq_rolesP, rolesP_length]

/-- The invariant of the loop: at most one operand is pending. -/
def Inv (c : Cfg) : Prop := c.nextIsFile = true → c.nextIsLimit = false

theorem step_plain_flag (fs : String → FileRes) (c : Cfg) (a : String)
    (hf : c.nextIsFile = false) (hl : c.nextIsLimit = false) (h : a ∈ flagNames) :
    step fs c a = apply fs c (a, .flag) := by
  obtain ⟨bits, printHelp, kind, opt, limit, safe, hasError, nf, nl, time, code, stderr⟩ := c
  simp only at hf hl
  subst hf hl
  simp [flagNames, kindFlags, optFlags, bitsFlags, helpFlags, fileFlags] at h
  rcases h with h | h | h | h | h | h | h | h | h | h | h | h | h | h | h | h | h | h | h | h | h |
    h | h | h | h | h | h <;> subst h <;>
  simp [step, apply, kindFlags, optFlags, bitsFlags, helpFlags, fileFlags, List.lookup, isFileFlag,
    isLimitFlag]

theorem step_eq_apply (fs : String → FileRes) (c : Cfg) (a : String) (hi : Inv c) :
    step fs c a = apply fs c (a, role1 (pendOf c) a) := by
  by_cases hf : c.nextIsFile = true
  · have hl := hi hf
    obtain ⟨bits, printHelp, kind, opt, limit, safe, hasError, nf, nl, time, code, stderr⟩ := c
    simp only at hf hl
    subst hf hl
    simp only [pendOf, role1, step, apply, contrib1, diag1, fileFails, if_true]
    cases fs a <;> simp [String.join_cons, String.join_nil]
  · have hf : c.nextIsFile = false := by simpa using hf
    by_cases hl : c.nextIsLimit = true
    · obtain ⟨bits, printHelp, kind, opt, limit, safe, hasError, nf, nl, time, code, stderr⟩ := c
      simp only at hf hl
      subst hf hl
      simp only [pendOf, role1, step, apply, diag1]
      cases hp : parseUsize a <;> simp [hp]
    · have hl : c.nextIsLimit = false := by simpa using hl
      have hp : pendOf c = .none := by simp [pendOf, hf, hl]
      rw [hp]
      simp only [role1, plainRole]
      by_cases h : isFlag a = true
      · simp only [h, if_true]
        exact step_plain_flag fs c a hf hl (isFlag_cases h)
      · have h : isFlag a = false := by simpa using h
        obtain ⟨h1, h2, h3, h4, h5, h6, h7, h8⟩ := not_isFlag h
        simp [h, step, apply, hf, hl, h1, h2, h3, h4, h5, h6, h7, h8]

theorem pendOf_apply (fs : String → FileRes) (c : Cfg) (a : String) :
    pendOf (apply fs c (a, role1 (pendOf c) a)) = next (pendOf c) a ∧
    Inv (apply fs c (a, role1 (pendOf c) a)) := by
  cases hp : pendOf c with
  | file => simp [role1, apply, next, pendOf, Inv]
  | limit => simp [role1, apply, next, pendOf, Inv]
  | none =>
    simp only [role1, plainRole]
    by_cases h : isFlag a = true
    · simp only [h, if_true, apply, next, pendOf, Inv]
      refine ⟨?_, fun h' => isFileFlag_not_limit h'⟩
      cases isFileFlag a <;> cases isLimitFlag a <;> simp
    · have h : isFlag a = false := by simpa using h
      have h1 : isFileFlag a = false := by
        cases h1 : isFileFlag a
        · rfl
        · rw [isFileFlag_isFlag h1] at h; cases h
      have h2 : isLimitFlag a = false := by
        cases h2 : isLimitFlag a
        · rfl
        · rw [isLimitFlag_isFlag h2] at h; cases h
      simp [h, apply, next, pendOf, Inv, h1, h2]

/-- The argument loop is the fold of `apply` over the classified arguments. -/
theorem foldl_step_eq (fs : String → FileRes) (args : List String) (c : Cfg) (hi : Inv c) :
    args.foldl (step fs) c = (args.zip (rolesP (pendOf c) args)).foldl (apply fs) c := by
  induction args generalizing c with
  | nil => rfl
  | cons a rest ih =>
    obtain ⟨hp, hi'⟩ := pendOf_apply fs c a
    simp only [List.foldl_cons, rolesP, List.zip_cons_cons]
    rw [step_eq_apply fs c a hi, ih _ hi', hp]

theorem loop_eq (fs : String → FileRes) (args : List String) :
    args.foldl (step fs) {} = (tagged args).foldl (apply fs) {} := by
  have := foldl_step_eq fs args {} (by simp [Inv])
  rw [this, tagged, roles_eq_rolesP]
  rfl

/-! ### Induction from the right -/

theorem rev_ind {α : Type} {P : List α → Prop} (nil : P [])
    (snoc : ∀ l a, P l → P (l ++ [a])) : ∀ l, P l := by
  intro l
  have : ∀ r : List α, P r.reverse := by
    intro r
    induction r with
    | nil => exact nil
    | cons a r ih => rw [List.reverse_cons]; exact snoc _ _ ih
  simpa using this l.reverse

theorem str_beq (a b : String) : (a == b) = decide (a = b) := by
  by_cases h : a = b <;> simp [h]

theorem sel_snoc (r : Role) (l : List (String × Role)) (a : String) (r' : Role) :
    sel r (l ++ [(a, r')]) = sel r l ++ (if r' = r then [a] else []) := by
  by_cases h : r' = r <;> simp [sel, List.filter_append, h]

/-! ### Each field of the fold of `apply`, for an arbitrary classified list -/

section fields
variable (fs : String → FileRes)

local notation "F" => fun (l : List (String × Role)) => List.foldl (apply fs) ({} : Cfg) l

theorem fold_code (l : List (String × Role)) :
    (l.foldl (apply fs) {}).code = String.join (l.flatMap (contrib1 fs)) := by
  induction l using rev_ind with
  | nil => rfl
  | snoc l x ih =>
    obtain ⟨a, r⟩ := x
    rw [List.foldl_append, List.flatMap_append, String.join_append]
    cases r <;> simp [apply, ih, contrib1, String.join_cons, String.join_nil]

theorem fold_kind (l : List (String × Role)) :
    (l.foldl (apply fs) {}).kind = lastOf kindFlags .baseJit (sel .flag l) := by
  induction l using rev_ind with
  | nil => rfl
  | snoc l x ih =>
    obtain ⟨a, r⟩ := x
    rw [List.foldl_append, sel_snoc]
    cases r <;> simp [apply, ih, lastOf, List.foldl_append]

theorem fold_opt (l : List (String × Role)) :
    (l.foldl (apply fs) {}).opt = lastOf optFlags 2 (sel .flag l) := by
  induction l using rev_ind with
  | nil => rfl
  | snoc l x ih =>
    obtain ⟨a, r⟩ := x
    rw [List.foldl_append, sel_snoc]
    cases r <;> simp [apply, ih, lastOf, List.foldl_append]

theorem fold_bits (l : List (String × Role)) :
    (l.foldl (apply fs) {}).bits = lastOf bitsFlags 8 (sel .flag l) := by
  induction l using rev_ind with
  | nil => rfl
  | snoc l x ih =>
    obtain ⟨a, r⟩ := x
    rw [List.foldl_append, sel_snoc]
    cases r <;> simp [apply, ih, lastOf, List.foldl_append]

theorem fold_limit (l : List (String × Role)) :
    (l.foldl (apply fs) {}).limit = lastLimit (sel .limitOperand l) := by
  induction l using rev_ind with
  | nil => rfl
  | snoc l x ih =>
    obtain ⟨a, r⟩ := x
    rw [List.foldl_append, sel_snoc]
    cases r <;> simp [apply, ih, lastLimit, List.filterMap_append]

theorem fold_safe (l : List (String × Role)) :
    (l.foldl (apply fs) {}).safe = !(sel .flag l).contains "--static" := by
  induction l using rev_ind with
  | nil => rfl
  | snoc l x ih =>
    obtain ⟨a, r⟩ := x
    rw [List.foldl_append, sel_snoc]
    cases r <;> simp [apply, ih, Bool.and_comm, @eq_comm _ "--static", str_beq]

theorem fold_time (l : List (String × Role)) :
    (l.foldl (apply fs) {}).time = (sel .flag l).contains "--time" := by
  induction l using rev_ind with
  | nil => rfl
  | snoc l x ih =>
    obtain ⟨a, r⟩ := x
    rw [List.foldl_append, sel_snoc]
    cases r <;> simp [apply, ih, Bool.or_comm, @eq_comm _ "--time", str_beq]

theorem fold_printHelp (l : List (String × Role)) :
    (l.foldl (apply fs) {}).printHelp = (sel .flag l).any (helpFlags.contains ·) := by
  induction l using rev_ind with
  | nil => rfl
  | snoc l x ih =>
    obtain ⟨a, r⟩ := x
    rw [List.foldl_append, sel_snoc]
    cases r <;> simp [apply, ih]

theorem fold_hasError (l : List (String × Role)) :
    (l.foldl (apply fs) {}).hasError = (sel .fileOperand l).any (fileFails fs) := by
  induction l using rev_ind with
  | nil => rfl
  | snoc l x ih =>
    obtain ⟨a, r⟩ := x
    rw [List.foldl_append, sel_snoc]
    cases r <;> simp [apply, ih]

theorem fold_stderr (l : List (String × Role)) :
    (l.foldl (apply fs) {}).stderr = l.flatMap (diag1 fs) := by
  induction l using rev_ind with
  | nil => rfl
  | snoc l x ih =>
    obtain ⟨a, r⟩ := x
    rw [List.foldl_append, List.flatMap_append]
    cases r <;> simp [apply, ih, diag1]

theorem fold_next (l : List (String × Role)) :
    ((l.foldl (apply fs) {}).nextIsFile =
      match l.getLast? with
      | some (a, .flag) => isFileFlag a
      | _ => false) ∧
    ((l.foldl (apply fs) {}).nextIsLimit =
      match l.getLast? with
      | some (a, .flag) => isLimitFlag a
      | _ => false) := by
  induction l using rev_ind with
  | nil => exact ⟨rfl, rfl⟩
  | snoc l x ih =>
    obtain ⟨a, r⟩ := x
    rw [List.foldl_append, List.getLast?_concat]
    cases r <;> simp [apply]

end fields

/-! ### `parseArgs` in terms of the loop -/

theorem parseArgs_fields (fs : String → FileRes) (args : List String) :
    let c := args.foldl (step fs) {}
    let p := parseArgs fs args
    p.bits = c.bits ∧ p.printHelp = c.printHelp ∧ p.kind = c.kind ∧ p.opt = c.opt ∧
    p.limit = c.limit ∧ p.safe = c.safe ∧ p.hasError = c.hasError ∧ p.time = c.time ∧
    p.code = c.code ∧
    p.stderr = c.stderr ++ (if c.nextIsFile then ["--file: ignoring missing file"] else []) ++
      (if c.nextIsLimit then ["--limit: ignoring missing limit"] else []) := by
  intro c p
  simp only [p, parseArgs]
  cases h1 : (List.foldl (step fs) {} args).nextIsFile <;>
  cases h2 : (List.foldl (step fs) {} args).nextIsLimit <;> simp [c, h1, h2]

theorem lastOf_eq_getLast {α : Type} (table : List (String × α)) (dflt : α) (l : List String) :
    lastOf table dflt l = ((l.filterMap (table.lookup ·)).getLast?).getD dflt := by
  induction l using rev_ind with
  | nil => rfl
  | snoc l a ih =>
    simp only [lastOf] at ih
    simp only [lastOf, List.foldl_append, List.filterMap_append, List.getLast?_append, ih]
    cases table.lookup a <;> simp

end C16
end Hpbf
