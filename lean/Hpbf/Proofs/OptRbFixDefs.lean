/-
Rebuild-round proofs, stage 5 (the fix for F13, Hpbf/OptFix.lean): `TgtOkL l subs`: every node of a non-moving
loop in `subs` (paired with the blocks of `l` as in `ShapeL` / `AnalInL`) records as `clobbered` at least every cell
the loop's body may write (`OptFix.targetsL`), the loop and the blocks below it do not move the pointer, and the node
does not say `atMostOnce`.  This is a SYNTACTIC property; it implies `AnalInL G l subs` for every guard `G`, and it
survives dead store elimination.
-/
import Hpbf.OptFix
import Hpbf.Proofs.OptRbAnKit

namespace Hpbf
namespace OptProof
open Opt OptSem Ir

variable {w : Nat}

mutual
def TgtOkI : Instr w → OptAnalysis w → Prop
  | .loop _ sh body _, .mk L hs _ cl subs =>
      L.atMostOnce = false ∧
      (hs = false → sh = 0 ∧ C01Dse.noShiftL body = true ∧ ∀ x ∈ OptFix.targetsL body, cl.contains x = true) ∧
      TgtOkL body subs
  | .ifnz _ _ body, .mk _ _ _ _ subs => TgtOkL body subs
  | _, _ => True
def TgtOkL : List (Instr w) → List (OptAnalysis w) → Prop
  | [], _ => True
  | i :: rest, subs =>
    if C01Dse.isBlock i then
      (match subs with
       | a :: subs' => TgtOkI i a ∧ TgtOkL rest subs'
       | [] => True)
    else TgtOkL rest subs
end

end OptProof
end Hpbf
