/-
C03 (control flow): the whole-program theorem with every hypothesis spelled out (`prog_run_compiled`), for
the machine configuration `Driver7` uses (`fetchFast`, `initState`).
-/
import Hpbf.Proofs.C03FlowProg
import Hpbf.Proofs.C03FlowFetch
namespace Hpbf
namespace C03
open Asm JitGen X86Sem X86Prog
variable {w : Nat}

/-- The whole-program theorem with all hypotheses spelled out on the program and the machine parameters.
`Returns K s0 ret c' P`: for every `k`, the machine started in `s0` returns within `n + k` steps for some `n`
(so: with any larger fuel too), `rax = ret`, the callee-saved registers and `rsp` are what the System V
ABI demands, trace / environment / tape are those of the final bytecode configuration `c'`. -/
theorem prog_run_compiled (p : Bc.Program w) (limited safe : Bool) (cfg : Cfg) {code : List X86}
    (hcomp : compileX86 w p limited safe cfg.aE.toNat cfg.aI.toNat cfg.aO.toNat = some code)
    (hfetch : cfg.fetch = fetchFast (fetchTable code))
    (hsmall : sizeAll code < 2 ^ 31)
    (hIO : cfg.aI ≠ cfg.aO) (hEI : cfg.aE ≠ cfg.aI) (hEO : cfg.aE ≠ cfg.aO)
    (hchk : BcWf.check p 11 = true)
    (hwin : -2147483648 < p.minAcc ∧ p.maxAcc < 2147483648)
    (htemps : alignedTemps p.temps * 8 < 2147483648)
    (hshift : ∀ (i : Nat) (sh : Int), p.insts[i]? = some (Bc.Instr.mov sh) → -2147483648 ≤ sh ∧ sh < 2147483648)
    (buf0 rsp0 ra : BitVec 64) (hrsp : rsp0.toNat % 16 = 8)
    (budget : Nat) (hb : budget < 2 ^ 64) (hlim : (limited && budget == 0) = false) (env : Env)
    (hoom : safe = true → ∀ n s', steps cfg n (initState (w := w) cfg buf0 rsp0 ra p.minAcc p.maxAcc budget env)
      = some s' → Bnd s') (fuel : Nat) :
    ∃ K : Ctx w, K.p = p ∧ K.cfg = cfg ∧ K.limited = limited ∧
      let s0 : PState w := initState cfg buf0 rsp0 ra p.minAcc p.maxAcc budget env
      match Bc.run p limited budget fuel env with
      | .done c' => Returns K s0 1 c' (fun s' => s'.budget.toNat = c'.budget)
      | .stopped c' => Returns K s0 0 c' (fun s' => s'.budget.toNat = c'.budget)
      | .interrupted c' => Returns K s0 0 c' (fun s' => s'.budget.toNat < 2 ∧ c'.budget = 0)
      | .bad _ => False
      | .outOfFuel c' => ∃ n s', steps cfg n s0 = some s' ∧ s'.trace = c'.st.trace ∧ s'.env = c'.st.env := by
  obtain ⟨C⟩ := compileX86_some hcomp
  have hloc : BcWf.localOk p = true := by
    simp only [BcWf.check, Bool.and_eq_true] at hchk; exact hchk.1.1
  have L := C11.localOk_facts hloc
  have hf : cfg.fetch = fetchList code := by rw [hfetch, fetchFast_eq]
  let K : Ctx w := ⟨p, limited, safe, cfg, code, C, hf, hsmall, hIO, hEI, hEO, L.liveSize⟩
  have G : Good K := ⟨hchk, hwin, htemps, hshift⟩
  refine ⟨K, rfl, rfl, rfl, ?_⟩
  intro s0
  obtain ⟨hE, henv, htr, hbud⟩ := initState_entry K ⟨L.min0, L.max0⟩ ⟨Int.le_of_lt hwin.1, hwin.2⟩ buf0 rsp0 ra hrsp budget hb env
  exact prog_run' K G hE henv htr hbud hlim hoom fuel

end C03
end Hpbf
