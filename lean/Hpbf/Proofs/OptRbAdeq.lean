/-
Rebuild-round proofs, part 2: basic facts about the big-step semantics `Exec` of `OptRbSem.lean`
(determinism, sequencing, lists of `calc`s) and composition of `Sim` (append, loop and `ifnz` congruence).
ADEQUACY of `Exec` / `Bad` with respect to the continuation machine `Ir.run` is in `OptRbAdeq2.lean`.
-/
import Hpbf.Proofs.OptRbSem

namespace Hpbf
namespace OptProof
open Ir

variable {w : Nat}

/-! ## A. Basic facts about `Exec` -/

theorem output_trace_suffix (σ : State w) (src : Int) : σ.trace <:+ (σ.output src).2.trace := by
  unfold State.output
  split
  · split <;> exact List.suffix_cons _ _
  · exact List.suffix_refl _

theorem input_trace_suffix (σ : State w) (dst : Int) : σ.trace <:+ (σ.input dst).2.trace := by
  unfold State.input
  split
  · exact List.suffix_cons _ _
  · exact List.suffix_cons _ _
  · exact List.suffix_refl _

theorem doCalc_trace (σ : State w) (calcs : List (Int × Expr w)) : (doCalc σ calcs).trace = σ.trace :=
  (C01Dse.doCalc_meta σ calcs).2.2

theorem exec_trace_suffix {is : List (Instr w)} {σ : State w} {o : Out w} (h : Exec is σ o) :
    σ.trace <:+ o.trace := by
  induction h with
  | cut is σ => exact List.suffix_refl _
  | nil σ => exact List.suffix_refl _
  | @outOk src rest σ σ1 o h1 _ ih =>
    have := output_trace_suffix σ src; rw [h1] at this; exact this.trans ih
  | @outFail src rest σ σ1 h1 =>
    have := output_trace_suffix σ src; rw [h1] at this; exact this
  | @inOk dst rest σ σ1 o h1 _ ih =>
    have := input_trace_suffix σ dst; rw [h1] at this; exact this.trans ih
  | @inFail dst rest σ σ1 h1 =>
    have := input_trace_suffix σ dst; rw [h1] at this; exact this
  | «calc» _ ih => rw [doCalc_trace] at ih; exact ih
  | loopSkip _ _ ih => exact ih
  | loopIter _ _ _ ih1 ih2 => exact ih1.trans ih2
  | loopIn _ _ _ ih => exact ih
  | ifSkip _ _ ih => exact ih
  | ifIter _ _ _ ih1 ih2 => exact ih1.trans ih2
  | ifIn _ _ _ ih => exact ih

/-- `o'` is an observation compatible with the terminal observation `o`. -/
def Out.Le (o' o : Out w) : Prop := o' = o ∨ ∃ t, o' = .part t ∧ t <:+ o.trace

def Out.isPart : Out w → Bool
  | .part _ => true
  | _ => false

theorem Out.Le.not_fin {a : State w} {o : Out w} (h : Out.Le (.fin a) o) : o = .fin a := by
  rcases h with h | ⟨t, h, _⟩
  · exact h.symm
  · cases h

/-- The key determinism lemma: any observation is bounded by a terminal (non-`part`) one. -/
theorem exec_le {is : List (Instr w)} {σ : State w} {o2 : Out w} (h2 : Exec is σ o2) :
    ∀ {o1 : Out w}, Exec is σ o1 → o1.isPart = false → Out.Le o2 o1 := by
  induction h2 with
  | cut is σ => intro o1 h1 _; exact Or.inr ⟨_, rfl, exec_trace_suffix h1⟩
  | nil σ => intro o1 h1 ht; cases h1 with
    | cut => cases ht
    | nil => exact Or.inl rfl
  | @outOk src rest σ σ1 o h _ ih =>
    intro o1 h1 ht
    cases h1 with
    | cut => cases ht
    | outOk h' h1' => rw [h] at h'; cases h'; exact ih h1' ht
    | outFail h' => rw [h] at h'; cases h'
  | @outFail src rest σ σ1 h =>
    intro o1 h1 ht
    cases h1 with
    | cut => cases ht
    | outOk h' h1' => rw [h] at h'; cases h'
    | outFail h' => rw [h] at h'; cases h'; exact Or.inl rfl
  | @inOk dst rest σ σ1 o h _ ih =>
    intro o1 h1 ht
    cases h1 with
    | cut => cases ht
    | inOk h' h1' => rw [h] at h'; cases h'; exact ih h1' ht
    | inFail h' => rw [h] at h'; cases h'
  | @inFail dst rest σ σ1 h =>
    intro o1 h1 ht
    cases h1 with
    | cut => cases ht
    | inOk h' h1' => rw [h] at h'; cases h'
    | inFail h' => rw [h] at h'; cases h'; exact Or.inl rfl
  | «calc» _ ih =>
    intro o1 h1 ht
    cases h1 with
    | cut => cases ht
    | «calc» h1' => exact ih h1' ht
  | loopSkip hz _ ih =>
    intro o1 h1 ht
    cases h1 with
    | cut => cases ht
    | loopSkip _ h1' => exact ih h1' ht
    | loopIter hnz _ _ => exact absurd hz hnz
    | loopIn hnz _ _ => exact absurd hz hnz
  | @loopIter cond shift body once rest σ σ1 o hnz hb hl ihb ihl =>
    intro o1 h1 ht
    cases h1 with
    | cut => cases ht
    | loopSkip hz _ => exact absurd hz hnz
    | loopIter _ hb' hl' =>
      have := (ihb hb' rfl).not_fin
      cases this
      exact ihl hl' ht
    | loopIn _ hb' hnf =>
      have := (ihb hb' (by cases o1 <;> simp_all [Out.isPart, Out.isFin])).not_fin
      subst this; cases hnf
  | @loopIn cond shift body once rest σ o hnz hb hnf ihb =>
    intro o1 h1 ht
    cases h1 with
    | cut => cases ht
    | loopSkip hz _ => exact absurd hz hnz
    | @loopIter _ _ _ _ _ _ σ1 _ _ hb' hl' =>
      have hle := ihb hb' rfl
      have hs : σ1.trace <:+ o1.trace := exec_trace_suffix (σ := σ1.mov _) hl'
      cases o with
      | fin _ => cases hnf
      | stop a => rcases hle with h | ⟨t, h, _⟩ <;> cases h
      | part t =>
        rcases hle with h | ⟨t', h, hl⟩
        · cases h
        · cases h; exact Or.inr ⟨t, rfl, hl.trans hs⟩
    | loopIn _ hb' _ => exact ihb hb' ht
  | ifSkip hz _ ih =>
    intro o1 h1 ht
    cases h1 with
    | cut => cases ht
    | ifSkip _ h1' => exact ih h1' ht
    | ifIter hnz _ _ => exact absurd hz hnz
    | ifIn hnz _ _ => exact absurd hz hnz
  | @ifIter cond shift body rest σ σ1 o hnz hb hl ihb ihl =>
    intro o1 h1 ht
    cases h1 with
    | cut => cases ht
    | ifSkip hz _ => exact absurd hz hnz
    | ifIter _ hb' hl' =>
      have := (ihb hb' rfl).not_fin
      cases this
      exact ihl hl' ht
    | ifIn _ hb' hnf =>
      have := (ihb hb' (by cases o1 <;> simp_all [Out.isPart, Out.isFin])).not_fin
      subst this; cases hnf
  | @ifIn cond shift body rest σ o hnz hb hnf ihb =>
    intro o1 h1 ht
    cases h1 with
    | cut => cases ht
    | ifSkip hz _ => exact absurd hz hnz
    | @ifIter _ _ _ _ _ σ1 _ _ hb' hl' =>
      have hle := ihb hb' rfl
      have hs : σ1.trace <:+ o1.trace := exec_trace_suffix (σ := σ1.mov _) hl'
      cases o with
      | fin _ => cases hnf
      | stop a => rcases hle with h | ⟨t, h, _⟩ <;> cases h
      | part t =>
        rcases hle with h | ⟨t', h, hl⟩
        · cases h
        · cases h; exact Or.inr ⟨t, rfl, hl.trans hs⟩
    | ifIn _ hb' _ => exact ihb hb' ht

theorem exec_fin_det {is : List (Instr w)} {σ a b : State w} (h1 : Exec is σ (.fin a)) (h2 : Exec is σ (.fin b)) :
    a = b := by
  rcases exec_le h1 h2 rfl with h | ⟨t, h, _⟩ <;> cases h; rfl

theorem exec_stop_det {is : List (Instr w)} {σ a b : State w} (h1 : Exec is σ (.stop a))
    (h2 : Exec is σ (.stop b)) : a = b := by
  rcases exec_le h1 h2 rfl with h | ⟨t, h, _⟩ <;> cases h; rfl

theorem exec_fin_stop_excl {is : List (Instr w)} {σ a b : State w} (h1 : Exec is σ (.fin a))
    (h2 : Exec is σ (.stop b)) : False := by
  rcases exec_le h1 h2 rfl with h | ⟨t, h, _⟩ <;> cases h

/-- a partial observation is bounded by the terminal one -/
theorem exec_part_le_fin {is : List (Instr w)} {σ a : State w} {t : List Ev} (h1 : Exec is σ (.fin a))
    (h2 : Exec is σ (.part t)) : t <:+ a.trace := by
  rcases exec_le h2 h1 rfl with h | ⟨t', h, hl⟩ <;> cases h; exact hl

theorem exec_part_le_stop {is : List (Instr w)} {σ a : State w} {t : List Ev} (h1 : Exec is σ (.stop a))
    (h2 : Exec is σ (.part t)) : t <:+ a.trace := by
  rcases exec_le h2 h1 rfl with h | ⟨t', h, hl⟩ <;> cases h; exact hl

theorem exec_fin_part_aux {is : List (Instr w)} {σ : State w} {o : Out w} (h : Exec is σ o) :
    ∀ a, o = .fin a → Exec is σ (.part a.trace) := by
  induction h with
  | cut => intro a e; cases e
  | nil σ => intro a e; cases e; exact .cut _ _
  | outOk h _ ih => intro a e; exact .outOk h (ih a e)
  | outFail => intro a e; cases e
  | inOk h _ ih => intro a e; exact .inOk h (ih a e)
  | inFail => intro a e; cases e
  | «calc» _ ih => intro a e; exact .calc (ih a e)
  | loopSkip hz _ ih => intro a e; exact .loopSkip hz (ih a e)
  | loopIter hnz hb _ _ ihl => intro a e; exact .loopIter hnz hb (ihl a e)
  | loopIn _ _ hnf => intro a e; subst e; cases hnf
  | ifSkip hz _ ih => intro a e; exact .ifSkip hz (ih a e)
  | ifIter hnz hb _ _ ihr => intro a e; exact .ifIter hnz hb (ihr a e)
  | ifIn _ _ hnf => intro a e; subst e; cases hnf

/-- terminal observations can also be seen as partial ones (for `fin`) -/
theorem exec_fin_part {is : List (Instr w)} {σ a : State w} (h : Exec is σ (.fin a)) :
    Exec is σ (.part a.trace) := exec_fin_part_aux h a rfl

/-- `Exec` ignores the `once` flag. -/
theorem exec_once_irrel {c s : Int} {body rest : List (Instr w)} {o o' : Bool} {σ : State w} {out : Out w}
    (h : Exec (.loop c s body o :: rest) σ out) : Exec (.loop c s body o' :: rest) σ out := by
  generalize hl : Instr.loop c s body o :: rest = l at h
  induction h with
  | cut => exact .cut _ _
  | loopSkip hz hr => cases hl; exact .loopSkip hz hr
  | loopIter hnz hb _ _ ih => cases hl; exact .loopIter hnz hb (ih rfl)
  | loopIn hnz hb hnf => cases hl; exact .loopIn hnz hb hnf
  | _ => cases hl

/-! ### sequencing -/

theorem exec_append_left {a : List (Instr w)} {σ : State w} {o : Out w} (h : Exec a σ o) (b : List (Instr w)) :
    o.isFin = false → Exec (a ++ b) σ o := by
  induction h with
  | cut => intro _; exact .cut _ _
  | nil => intro e; cases e
  | outOk h _ ih => intro e; exact .outOk h (ih e)
  | outFail h => intro _; exact .outFail h
  | inOk h _ ih => intro e; exact .inOk h (ih e)
  | inFail h => intro _; exact .inFail h
  | «calc» _ ih => intro e; exact .calc (ih e)
  | loopSkip hz _ ih => intro e; exact .loopSkip hz (ih e)
  | loopIter hnz hb _ _ ihl => intro e; exact .loopIter hnz hb (ihl e)
  | loopIn hnz hb hnf => intro _; exact .loopIn hnz hb hnf
  | ifSkip hz _ ih => intro e; exact .ifSkip hz (ih e)
  | ifIter hnz hb _ _ ihr => intro e; exact .ifIter hnz hb (ihr e)
  | ifIn hnz hb hnf => intro _; exact .ifIn hnz hb hnf

theorem exec_append_right {a b : List (Instr w)} {σ : State w} {o o' : Out w} (h : Exec a σ o) :
    ∀ σ1, o = .fin σ1 → Exec b σ1 o' → Exec (a ++ b) σ o' := by
  induction h with
  | cut => intro _ e; cases e
  | nil => intro _ e h'; cases e; exact h'
  | outOk h _ ih => intro _ e h'; exact .outOk h (ih _ e h')
  | outFail h => intro _ e; cases e
  | inOk h _ ih => intro _ e h'; exact .inOk h (ih _ e h')
  | inFail h => intro _ e; cases e
  | «calc» _ ih => intro _ e h'; exact .calc (ih _ e h')
  | loopSkip hz _ ih => intro _ e h'; exact .loopSkip hz (ih _ e h')
  | loopIter hnz hb _ _ ihl => intro _ e h'; exact .loopIter hnz hb (ihl _ e h')
  | loopIn hnz hb hnf => intro _ e; subst e; cases hnf
  | ifSkip hz _ ih => intro _ e h'; exact .ifSkip hz (ih _ e h')
  | ifIter hnz hb _ _ ihr => intro _ e h'; exact .ifIter hnz hb (ihr _ e h')
  | ifIn hnz hb hnf => intro _ e; subst e; cases hnf

/-- Right-hand side of `exec_append`. -/
def AppR (b a : List (Instr w)) (σ : State w) (o : Out w) : Prop :=
  (o.isFin = false ∧ Exec a σ o) ∨ ∃ σ1, Exec a σ (.fin σ1) ∧ Exec b σ1 o

theorem AppR.map {b a1 a2 : List (Instr w)} {σ1 σ2 : State w} {o : Out w}
    (f : ∀ o', Exec a1 σ1 o' → Exec a2 σ2 o') (h : AppR b a1 σ1 o) : AppR b a2 σ2 o := by
  rcases h with ⟨h1, h2⟩ | ⟨σ', h1, h2⟩
  · exact Or.inl ⟨h1, f _ h2⟩
  · exact Or.inr ⟨σ', f _ h1, h2⟩

theorem AppR.ofNil {b : List (Instr w)} {σ : State w} {o : Out w} (h : Exec b σ o) : AppR b [] σ o :=
  Or.inr ⟨σ, .nil σ, h⟩

theorem exec_append_inv {b l : List (Instr w)} {σ : State w} {o : Out w} (h : Exec l σ o) :
    ∀ a, l = a ++ b → AppR b a σ o := by
  induction h with
  | cut => intro a _; exact Or.inl ⟨rfl, .cut _ _⟩
  | nil σ =>
    intro a e
    obtain ⟨rfl, rfl⟩ := List.append_eq_nil_iff.1 e.symm
    exact .ofNil (.nil σ)
  | outOk h hr ih =>
    intro a e
    cases a with
    | nil => have e' : _ = b := e; subst e'; exact .ofNil (Exec.outOk h hr)
    | cons i a' => cases e; exact (ih a' rfl).map (fun _ hx => .outOk h hx)
  | outFail h =>
    intro a e
    cases a with
    | nil => have e' : _ = b := e; subst e'; exact .ofNil (Exec.outFail h)
    | cons i a' => cases e; exact Or.inl ⟨rfl, .outFail h⟩
  | inOk h hr ih =>
    intro a e
    cases a with
    | nil => have e' : _ = b := e; subst e'; exact .ofNil (Exec.inOk h hr)
    | cons i a' => cases e; exact (ih a' rfl).map (fun _ hx => .inOk h hx)
  | inFail h =>
    intro a e
    cases a with
    | nil => have e' : _ = b := e; subst e'; exact .ofNil (Exec.inFail h)
    | cons i a' => cases e; exact Or.inl ⟨rfl, .inFail h⟩
  | «calc» hr ih =>
    intro a e
    cases a with
    | nil => have e' : _ = b := e; subst e'; exact .ofNil (Exec.calc hr)
    | cons i a' => cases e; exact (ih a' rfl).map (fun _ hx => .calc hx)
  | loopSkip hz hr ih =>
    intro a e
    cases a with
    | nil => have e' : _ = b := e; subst e'; exact .ofNil (Exec.loopSkip hz hr)
    | cons i a' => cases e; exact (ih a' rfl).map (fun _ hx => .loopSkip hz hx)
  | loopIter hnz hb hl _ ihl =>
    intro a e
    cases a with
    | nil => have e' : _ = b := e; subst e'; exact .ofNil (Exec.loopIter hnz hb hl)
    | cons i a' => cases e; exact (ihl (_ :: a') rfl).map (fun _ hx => .loopIter hnz hb hx)
  | loopIn hnz hb hnf =>
    intro a e
    cases a with
    | nil => have e' : _ = b := e; subst e'; exact .ofNil (Exec.loopIn hnz hb hnf)
    | cons i a' => cases e; exact Or.inl ⟨hnf, .loopIn hnz hb hnf⟩
  | ifSkip hz hr ih =>
    intro a e
    cases a with
    | nil => have e' : _ = b := e; subst e'; exact .ofNil (Exec.ifSkip hz hr)
    | cons i a' => cases e; exact (ih a' rfl).map (fun _ hx => .ifSkip hz hx)
  | ifIter hnz hb hr _ ihr =>
    intro a e
    cases a with
    | nil => have e' : _ = b := e; subst e'; exact .ofNil (Exec.ifIter hnz hb hr)
    | cons i a' => cases e; exact (ihr a' rfl).map (fun _ hx => .ifIter hnz hb hx)
  | ifIn hnz hb hnf =>
    intro a e
    cases a with
    | nil => have e' : _ = b := e; subst e'; exact .ofNil (Exec.ifIn hnz hb hnf)
    | cons i a' => cases e; exact Or.inl ⟨hnf, .ifIn hnz hb hnf⟩

/-- sequencing -/
theorem exec_append {a b : List (Instr w)} {σ : State w} {o : Out w} :
    Exec (a ++ b) σ o ↔ (o.isFin = false ∧ Exec a σ o) ∨ ∃ σ1, Exec a σ (.fin σ1) ∧ Exec b σ1 o := by
  constructor
  · intro h; exact exec_append_inv h a rfl
  · rintro (⟨h1, h2⟩ | ⟨σ1, h1, h2⟩)
    · exact exec_append_left h2 b h1
    · exact exec_append_right h1 σ1 rfl h2

/-- Right-hand side of `bad_append`. -/
def BadR (b a : List (Instr w)) (σ : State w) : Prop :=
  Bad a σ ∨ ∃ σ1, Exec a σ (.fin σ1) ∧ Bad b σ1

theorem BadR.map {b a1 a2 : List (Instr w)} {σ1 σ2 : State w}
    (f : ∀ σ', Exec a1 σ1 (.fin σ') → Exec a2 σ2 (.fin σ')) (g : Bad a1 σ1 → Bad a2 σ2)
    (h : BadR b a1 σ1) : BadR b a2 σ2 := by
  rcases h with h | ⟨σ', h1, h2⟩
  · exact Or.inl (g h)
  · exact Or.inr ⟨σ', f _ h1, h2⟩

theorem BadR.ofNil {b : List (Instr w)} {σ : State w} (h : Bad b σ) : BadR b [] σ :=
  Or.inr ⟨σ, .nil σ, h⟩

theorem bad_append_inv {b l : List (Instr w)} {σ : State w} (h : Bad l σ) :
    ∀ a, l = a ++ b → BadR b a σ := by
  induction h with
  | here hz =>
    intro a e
    cases a with
    | nil => have e' : _ = b := e; subst e'; exact .ofNil (Bad.here hz)
    | cons i a' => cases e; exact Or.inl (.here hz)
  | outOk h hr ih =>
    intro a e
    cases a with
    | nil => have e' : _ = b := e; subst e'; exact .ofNil (Bad.outOk h hr)
    | cons i a' => cases e; exact (ih a' rfl).map (fun _ hx => .outOk h hx) (.outOk h)
  | inOk h hr ih =>
    intro a e
    cases a with
    | nil => have e' : _ = b := e; subst e'; exact .ofNil (Bad.inOk h hr)
    | cons i a' => cases e; exact (ih a' rfl).map (fun _ hx => .inOk h hx) (.inOk h)
  | «calc» hr ih =>
    intro a e
    cases a with
    | nil => have e' : _ = b := e; subst e'; exact .ofNil (Bad.calc hr)
    | cons i a' => cases e; exact (ih a' rfl).map (fun _ hx => .calc hx) .calc
  | loopSkip hz hr ih =>
    intro a e
    cases a with
    | nil => have e' : _ = b := e; subst e'; exact .ofNil (Bad.loopSkip hz hr)
    | cons i a' => cases e; exact (ih a' rfl).map (fun _ hx => .loopSkip hz hx) (.loopSkip hz)
  | loopIter hnz hb hl ihl =>
    intro a e
    cases a with
    | nil => have e' : _ = b := e; subst e'; exact .ofNil (Bad.loopIter hnz hb hl)
    | cons i a' =>
      cases e
      exact (ihl (_ :: a') rfl).map (fun _ hx => .loopIter hnz hb (exec_once_irrel hx)) (.loopIter hnz hb)
  | loopIn hnz hb _ =>
    intro a e
    cases a with
    | nil => have e' : _ = b := e; subst e'; exact .ofNil (Bad.loopIn hnz hb)
    | cons i a' => cases e; exact Or.inl (.loopIn hnz hb)
  | ifSkip hz hr ih =>
    intro a e
    cases a with
    | nil => have e' : _ = b := e; subst e'; exact .ofNil (Bad.ifSkip hz hr)
    | cons i a' => cases e; exact (ih a' rfl).map (fun _ hx => .ifSkip hz hx) (.ifSkip hz)
  | ifIter hnz hb hr ihr =>
    intro a e
    cases a with
    | nil => have e' : _ = b := e; subst e'; exact .ofNil (Bad.ifIter hnz hb hr)
    | cons i a' => cases e; exact (ihr a' rfl).map (fun _ hx => .ifIter hnz hb hx) (.ifIter hnz hb)
  | ifIn hnz hb _ =>
    intro a e
    cases a with
    | nil => have e' : _ = b := e; subst e'; exact .ofNil (Bad.ifIn hnz hb)
    | cons i a' => cases e; exact Or.inl (.ifIn hnz hb)

theorem bad_append_left {a : List (Instr w)} {σ : State w} (h : Bad a σ) (b : List (Instr w)) :
    Bad (a ++ b) σ := by
  induction h with
  | here hz => exact .here hz
  | outOk h _ ih => exact .outOk h ih
  | inOk h _ ih => exact .inOk h ih
  | «calc» _ ih => exact .calc ih
  | loopSkip hz _ ih => exact .loopSkip hz ih
  | loopIter hnz hb _ ih => exact .loopIter hnz hb ih
  | loopIn hnz hb _ => exact .loopIn hnz hb
  | ifSkip hz _ ih => exact .ifSkip hz ih
  | ifIter hnz hb _ ih => exact .ifIter hnz hb ih
  | ifIn hnz hb _ => exact .ifIn hnz hb

/-- the statement is strengthened for loops: the conclusion holds whatever the `once` flag of a loop at the head
(`Bad.loopIter` continues with the flag `false`). -/
theorem bad_append_right {a b : List (Instr w)} {σ : State w} {o : Out w} (h : Exec a σ o) :
    ∀ σ1, o = .fin σ1 → Bad b σ1 →
      Bad (a ++ b) σ ∧ ∀ c s body once rest, a = .loop c s body once :: rest →
        Bad (.loop c s body false :: rest ++ b) σ := by
  induction h with
  | cut => intro _ e; cases e
  | nil => intro _ e h'; cases e; exact ⟨h', fun _ _ _ _ _ e => by cases e⟩
  | outOk h _ ih => intro _ e h'; exact ⟨.outOk h (ih _ e h').1, fun _ _ _ _ _ e => by cases e⟩
  | outFail h => intro _ e; cases e
  | inOk h _ ih => intro _ e h'; exact ⟨.inOk h (ih _ e h').1, fun _ _ _ _ _ e => by cases e⟩
  | inFail h => intro _ e; cases e
  | «calc» _ ih => intro _ e h'; exact ⟨.calc (ih _ e h').1, fun _ _ _ _ _ e => by cases e⟩
  | loopSkip hz _ ih =>
    intro _ e h'
    exact ⟨.loopSkip hz (ih _ e h').1, fun _ _ _ _ _ e => by cases e; exact .loopSkip hz (ih _ ‹_› h').1⟩
  | loopIter hnz hb _ _ ihl =>
    intro _ e h'
    have := (ihl _ e h').2 _ _ _ _ _ rfl
    exact ⟨.loopIter hnz hb this, fun _ _ _ _ _ e => by cases e; exact .loopIter hnz hb this⟩
  | loopIn hnz hb hnf => intro _ e; subst e; cases hnf
  | ifSkip hz _ ih => intro _ e h'; exact ⟨.ifSkip hz (ih _ e h').1, fun _ _ _ _ _ e => by cases e⟩
  | ifIter hnz hb _ _ ihr => intro _ e h'; exact ⟨.ifIter hnz hb (ihr _ e h').1, fun _ _ _ _ _ e => by cases e⟩
  | ifIn hnz hb hnf => intro _ e; subst e; cases hnf

theorem bad_append {a b : List (Instr w)} {σ : State w} :
    Bad (a ++ b) σ ↔ Bad a σ ∨ ∃ σ1, Exec a σ (.fin σ1) ∧ Bad b σ1 := by
  constructor
  · intro h; exact bad_append_inv h a rfl
  · rintro (h | ⟨σ1, h1, h2⟩)
    · exact bad_append_left h b
    · exact (bad_append_right h1 σ1 rfl h2).1

/-! ## D. Lists of `calc` instructions -/

/-- a list of `calc` instructions always runs to the end; its effect is the fold of `doCalc` (a cut inside the
list is also a cut at `rest`, because `doCalc` does not change the trace) -/
theorem exec_calcs_iff (gs : List (List (Int × Expr w))) (rest : List (Instr w)) (σ : State w) (o : Out w) :
    Exec (gs.map Instr.calc ++ rest) σ o ↔ Exec rest (gs.foldl doCalc σ) o := by
  induction gs generalizing σ with
  | nil => simp
  | cons g gs ih =>
    simp only [List.map_cons, List.cons_append, List.foldl_cons]
    rw [← ih]
    constructor
    · intro h
      cases h with
      | cut => rw [← doCalc_trace σ g]; exact .cut _ _
      | «calc» h => exact h
    · exact .calc

/-! ## B. Composition of `Sim` -/

theorem Sim.symm {Q : State w → State w → Prop} {a a' : List (Instr w)} {σS σE : State w}
    (h : Sim Q a a' σS σE) : Sim (fun x y => Q y x) a' a σE σS where
  finL := h.finR
  stopL := fun σ' hx => let ⟨σ'', h1, h2, h3⟩ := h.stopR σ' hx; ⟨σ'', h1, h2.symm, h3.symm⟩
  partL := h.partR
  finR := h.finL
  stopR := fun σ' hx => let ⟨σ'', h1, h2, h3⟩ := h.stopL σ' hx; ⟨σ'', h1, h2.symm, h3.symm⟩
  partR := h.partL

/-- runs related by `Sim` that reach the end have the same trace -/
theorem Sim.fin_trace {Q : State w → State w → Prop} {a a' : List (Instr w)} {σS σE x y : State w}
    (h : Sim Q a a' σS σE) (hx : Exec a σS (.fin x)) (hy : Exec a' σE (.fin y)) : y.trace = x.trace := by
  have h1 : x.trace <:+ y.trace := exec_part_le_fin hy (h.partL _ (exec_fin_part hx))
  have h2 : y.trace <:+ x.trace := exec_part_le_fin hx (h.partR _ (exec_fin_part hy))
  exact h2.eq_of_length_le h1.length_le

theorem Sim.refl_of {Q : State w → State w → Prop} (is : List (Instr w)) (σ : State w) (hQ : ∀ σ', Q σ' σ') :
    Sim Q is is σ σ where
  finL := fun σ' h => ⟨σ', h, hQ σ'⟩
  stopL := fun σ' h => ⟨σ', h, rfl, rfl⟩
  partL := fun _ h => h
  finR := fun σ' h => ⟨σ', h, hQ σ'⟩
  stopR := fun σ' h => ⟨σ', h, rfl, rfl⟩
  partR := fun _ h => h

theorem Sim.mono {Q Q' : State w → State w → Prop} {a a' : List (Instr w)} {σS σE : State w}
    (h : Sim Q a a' σS σE) (hQ : ∀ x y, Q x y → Q' x y) : Sim Q' a a' σS σE where
  finL := fun σ' hx => let ⟨σ'', h1, h2⟩ := h.finL σ' hx; ⟨σ'', h1, hQ _ _ h2⟩
  stopL := h.stopL
  partL := h.partL
  finR := fun σ' hx => let ⟨σ'', h1, h2⟩ := h.finR σ' hx; ⟨σ'', h1, hQ _ _ h2⟩
  stopR := h.stopR
  partR := h.partR

/-- how an observation of the target matches the observation `o` of the source -/
def Match (Q : State w → State w → Prop) : Out w → Out w → Prop
  | .fin a, o' => ∃ b, o' = .fin b ∧ Q a b
  | .stop a, o' => ∃ b, o' = .stop b ∧ b.trace = a.trace ∧ b.env = a.env
  | .part t, o' => o' = .part t

/-- one half of `Sim` -/
def Fwd (Q : State w → State w → Prop) (src tgt : List (Instr w)) (σS σE : State w) : Prop :=
  ∀ o, Exec src σS o → ∃ o', Exec tgt σE o' ∧ Match Q o o'

theorem Sim.fwd {Q : State w → State w → Prop} {a a' : List (Instr w)} {σS σE : State w}
    (h : Sim Q a a' σS σE) : Fwd Q a a' σS σE := by
  intro o ho
  cases o with
  | fin x => obtain ⟨y, h1, h2⟩ := h.finL x ho; exact ⟨_, h1, y, rfl, h2⟩
  | stop x => obtain ⟨y, h1, h2⟩ := h.stopL x ho; exact ⟨_, h1, y, rfl, h2⟩
  | part t => exact ⟨_, h.partL t ho, rfl⟩

theorem Sim.of_fwd {Q : State w → State w → Prop} {a a' : List (Instr w)} {σS σE : State w}
    (h1 : Fwd Q a a' σS σE) (h2 : Fwd (fun x y => Q y x) a' a σE σS) : Sim Q a a' σS σE where
  finL := fun σ' hx => by
    obtain ⟨o', ho', b, rfl, hq⟩ := h1 _ hx; exact ⟨b, ho', hq⟩
  stopL := fun σ' hx => by
    obtain ⟨o', ho', b, rfl, hq⟩ := h1 _ hx; exact ⟨b, ho', hq⟩
  partL := fun t hx => by
    obtain ⟨o', ho', rfl⟩ := h1 _ hx; exact ho'
  finR := fun σ' hx => by
    obtain ⟨o', ho', b, rfl, hq⟩ := h2 _ hx; exact ⟨b, ho', hq⟩
  stopR := fun σ' hx => by
    obtain ⟨o', ho', b, rfl, hq1, hq2⟩ := h2 _ hx; exact ⟨b, ho', hq1.symm, hq2.symm⟩
  partR := fun t hx => by
    obtain ⟨o', ho', rfl⟩ := h2 _ hx; exact ho'

theorem fwd_append {Q Q' : State w → State w → Prop} {a a' b b' : List (Instr w)} {σS σE : State w}
    (h1 : Fwd Q a a' σS σE) (h2 : ∀ σS' σE', Q σS' σE' → Fwd Q' b b' σS' σE') :
    Fwd Q' (a ++ b) (a' ++ b') σS σE := by
  intro o ho
  rcases exec_append.1 ho with ⟨hnf, ha⟩ | ⟨σ1, ha, hb⟩
  · obtain ⟨o', ho', hm⟩ := h1 _ ha
    cases o with
    | fin _ => cases hnf
    | stop x =>
      obtain ⟨y, rfl, hm⟩ := hm
      exact ⟨_, exec_append.2 (Or.inl ⟨rfl, ho'⟩), y, rfl, hm⟩
    | part t =>
      cases hm
      exact ⟨_, exec_append.2 (Or.inl ⟨rfl, ho'⟩), rfl⟩
  · obtain ⟨o1, ho1, σE1, rfl, hq⟩ := h1 _ ha
    obtain ⟨o', ho', hm⟩ := h2 _ _ hq _ hb
    exact ⟨o', exec_append.2 (Or.inr ⟨σE1, ho1, ho'⟩), hm⟩

theorem Sim.append {Q Q' : State w → State w → Prop} {a a' b b' : List (Instr w)} {σS σE : State w}
    (h1 : Sim Q a a' σS σE) (h2 : ∀ σS' σE', Q σS' σE' → Sim Q' b b' σS' σE') :
    Sim Q' (a ++ b) (a' ++ b') σS σE :=
  Sim.of_fwd (fwd_append h1.fwd (fun _ _ hq => (h2 _ _ hq).fwd))
    (fwd_append h1.symm.fwd (fun _ _ hq => (h2 _ _ hq).symm.fwd))

theorem fwd_nil {Q : State w → State w → Prop} {σS σE : State w} (hQ : Q σS σE) (ht : σE.trace = σS.trace) :
    Fwd Q [] [] σS σE := by
  intro o ho
  cases ho with
  | cut => exact ⟨_, .cut _ _, by rw [ht]; rfl⟩
  | nil => exact ⟨_, .nil _, σE, rfl, hQ⟩

/-- both lists empty -/
theorem Sim.nil {Q : State w → State w → Prop} {σS σE : State w} (hQ : Q σS σE) (ht : σE.trace = σS.trace) :
    Sim Q [] [] σS σE :=
  Sim.of_fwd (fwd_nil hQ ht) (fwd_nil hQ ht.symm)

theorem fwd_loop {J Q : State w → State w → Prop} {cS shS cE shE : Int} {bodyS bodyE : List (Instr w)}
    {oS oE : Bool}
    (hc : ∀ σS σE, J σS σE → (σS.rd cS = 0#w ↔ σE.rd cE = 0#w))
    (htr : ∀ σS σE, J σS σE → σE.trace = σS.trace)
    (hbody : ∀ σS σE, J σS σE → σS.rd cS ≠ 0#w →
       Fwd (fun σS' σE' => J (σS'.mov shS) (σE'.mov shE)) bodyS bodyE σS σE)
    (hexit : ∀ σS σE, J σS σE → σS.rd cS = 0#w → Q σS σE)
    {l : List (Instr w)} {σS : State w} {o : Out w} (h : Exec l σS o) :
    l = [.loop cS shS bodyS oS] → ∀ σE, J σS σE →
      ∃ o', Exec [.loop cE shE bodyE oE] σE o' ∧ Match Q o o' := by
  induction h with
  | cut => intro _ σE hJ; exact ⟨_, .cut _ _, by rw [htr _ _ hJ]; rfl⟩
  | loopSkip hz hr =>
    intro e σE hJ
    cases e
    have hzE := (hc _ _ hJ).1 hz
    cases hr with
    | cut => exact ⟨_, .cut _ _, by rw [htr _ _ hJ]; rfl⟩
    | nil => exact ⟨_, .loopSkip hzE (.nil _), σE, rfl, hexit _ _ hJ hz⟩
  | loopIter hnz hb _ _ ihl =>
    intro e σE hJ
    cases e
    have hnzE := mt (hc _ _ hJ).2 hnz
    obtain ⟨o1, hbE, σE1, rfl, hJ1⟩ := hbody _ _ hJ hnz _ hb
    obtain ⟨o', ho', hm⟩ := ihl rfl _ hJ1
    exact ⟨o', .loopIter hnzE hbE ho', hm⟩
  | @loopIn _ _ _ _ _ _ o hnz hb hnf =>
    intro e σE hJ
    cases e
    have hnzE := mt (hc _ _ hJ).2 hnz
    obtain ⟨o1, hbE, hm⟩ := hbody _ _ hJ hnz _ hb
    cases o with
    | fin _ => cases hnf
    | stop x =>
      obtain ⟨y, rfl, hm⟩ := hm
      exact ⟨_, .loopIn hnzE hbE rfl, y, rfl, hm⟩
    | part t =>
      cases hm
      exact ⟨_, .loopIn hnzE hbE rfl, rfl⟩
  | _ => intro e; cases e

/-- loop congruence: `J` is a loop invariant relating the two states at every loop head -/
theorem Sim.loop {J Q : State w → State w → Prop} {cS shS cE shE : Int} {bodyS bodyE : List (Instr w)}
    {oS oE : Bool}
    (hc : ∀ σS σE, J σS σE → (σS.rd cS = 0#w ↔ σE.rd cE = 0#w))
    (htr : ∀ σS σE, J σS σE → σE.trace = σS.trace)
    (hbody : ∀ σS σE, J σS σE → σS.rd cS ≠ 0#w →
       Sim (fun σS' σE' => J (σS'.mov shS) (σE'.mov shE)) bodyS bodyE σS σE)
    (hexit : ∀ σS σE, J σS σE → σS.rd cS = 0#w → Q σS σE)
    {σS σE : State w} (h : J σS σE) :
    Sim Q [.loop cS shS bodyS oS] [.loop cE shE bodyE oE] σS σE := by
  apply Sim.of_fwd
  · intro o ho
    exact fwd_loop hc htr (fun _ _ hJ hnz => (hbody _ _ hJ hnz).fwd) hexit ho rfl σE h
  · intro o ho
    exact fwd_loop (J := fun x y => J y x) (Q := fun x y => Q y x)
      (fun _ _ hJ => (hc _ _ hJ).symm) (fun _ _ hJ => (htr _ _ hJ).symm)
      (fun _ _ hJ hnz => (hbody _ _ hJ (mt (hc _ _ hJ).1 hnz)).symm.fwd)
      (fun _ _ hJ hz => hexit _ _ hJ ((hc _ _ hJ).2 hz)) ho rfl σS h

theorem fwd_ifnz {Q : State w → State w → Prop} {cS shS cE shE : Int} {bodyS bodyE : List (Instr w)}
    {σS σE : State w}
    (hc : σS.rd cS = 0#w ↔ σE.rd cE = 0#w) (htr : σE.trace = σS.trace)
    (hbody : σS.rd cS ≠ 0#w → Sim (fun σS' σE' => Q (σS'.mov shS) (σE'.mov shE)) bodyS bodyE σS σE)
    (hskip : σS.rd cS = 0#w → Q σS σE) :
    Fwd Q [.ifnz cS shS bodyS] [.ifnz cE shE bodyE] σS σE := by
  intro o ho
  cases ho with
  | cut => exact ⟨_, .cut _ _, by rw [htr]; rfl⟩
  | ifSkip hz hr =>
    have hzE := hc.1 hz
    cases hr with
    | cut => exact ⟨_, .cut _ _, by rw [htr]; rfl⟩
    | nil => exact ⟨_, .ifSkip hzE (.nil _), σE, rfl, hskip hz⟩
  | @ifIter _ _ _ _ _ σ1 _ hnz hb hr =>
    have hnzE := mt hc.2 hnz
    obtain ⟨σE1, hbE, hq⟩ := (hbody hnz).finL _ hb
    have ht : σE1.trace = σ1.trace := (hbody hnz).fin_trace hb hbE
    cases hr with
    | cut =>
      refine ⟨_, .ifIter hnzE hbE (.cut _ _), ?_⟩
      show Out.part σE1.trace = Out.part σ1.trace
      rw [ht]
    | nil => exact ⟨_, .ifIter hnzE hbE (.nil _), _, rfl, hq⟩
  | @ifIn _ _ _ _ _ o hnz hb hnf =>
    have hnzE := mt hc.2 hnz
    obtain ⟨o1, hbE, hm⟩ := (hbody hnz).fwd _ hb
    cases o with
    | fin _ => cases hnf
    | stop x =>
      obtain ⟨y, rfl, hm⟩ := hm
      exact ⟨_, .ifIn hnzE hbE rfl, y, rfl, hm⟩
    | part t =>
      cases hm
      exact ⟨_, .ifIn hnzE hbE rfl, rfl⟩

/-- the same for `ifnz` -/
theorem Sim.ifnz {Q : State w → State w → Prop} {cS shS cE shE : Int} {bodyS bodyE : List (Instr w)}
    {σS σE : State w}
    (hc : σS.rd cS = 0#w ↔ σE.rd cE = 0#w) (htr : σE.trace = σS.trace)
    (hbody : σS.rd cS ≠ 0#w → Sim (fun σS' σE' => Q (σS'.mov shS) (σE'.mov shE)) bodyS bodyE σS σE)
    (hskip : σS.rd cS = 0#w → Q σS σE) :
    Sim Q [.ifnz cS shS bodyS] [.ifnz cE shE bodyE] σS σE :=
  Sim.of_fwd (fwd_ifnz hc htr hbody hskip)
    (fwd_ifnz (Q := fun x y => Q y x) hc.symm htr.symm (fun hnz => (hbody (mt hc.1 hnz)).symm)
      (fun hz => hskip (hc.2 hz)))

/-! ### axioms -/

#print axioms exec_trace_suffix
#print axioms exec_fin_det
#print axioms exec_stop_det
#print axioms exec_fin_stop_excl
#print axioms exec_part_le_fin
#print axioms exec_part_le_stop
#print axioms exec_fin_part
#print axioms exec_append
#print axioms bad_append
#print axioms Sim.refl_of
#print axioms Sim.mono
#print axioms Sim.append
#print axioms Sim.nil
#print axioms Sim.loop
#print axioms Sim.ifnz
#print axioms exec_calcs_iff

end OptProof
end Hpbf
