/-
Loop optimisations of `Hpbf/Opt.lean`, HORIZON variants (part A): only the rounds `0 … N-1` are real (the run may
be incomplete or infinite), so every per-round hypothesis is required for `k < N` only; facts about the
memories at the start of a round are obtained for `k ≤ N`, facts about the middle of a round for `k < N`.
-/
import Hpbf.Proofs.OptLoopTop

namespace Hpbf.OptLoop
open Hpbf Opt OptSem Expr

variable {w : Nat}

/-- `BodyFacts` for the rounds `k < N`. -/
structure BodyFactsH (sub : Rebuild w) (body : Nat → Mem w → Mem w) (M : Nat → Mem w) (N : Nat) : Prop where
  unwritten : ∀ k, k < N → ∀ v, mGet sub.written v = none → body k (M k) v = M k v
  known : ∀ k, k < N → ∀ v e, mGet sub.written v = some (.known e) → body k (M k) v = ev e (M k)

theorem BodyFacts.toH {sub : Rebuild w} {body : Nat → Mem w → Mem w} {M : Nat → Mem w}
    (h : BodyFacts sub body M) (N : Nat) : BodyFactsH sub body M N :=
  ⟨fun k _ => h.unwritten k, fun k _ => h.known k⟩

theorem BodyFactsH.mono {sub : Rebuild w} {body : Nat → Mem w → Mem w} {M : Nat → Mem w} {N N' : Nat}
    (h : BodyFactsH sub body M N) (hle : N' ≤ N) : BodyFactsH sub body M N' :=
  ⟨fun k hk => h.unwritten k (by omega), fun k hk => h.known k (by omega)⟩

/-- `constants_sound` with a horizon; the soundness of `compare` is needed only for the `known` entries of
`sub.written` and the entries of `sub.pending`. -/
theorem constants_sound_r (s : Rebuild w) (ps : List (Rebuild w)) (sub : Rebuild w) (C : List Int)
    (m0 : Mem w) (body : Nat → Mem w → Mem w) (N : Nat)
    (hgood : ∀ c ∈ C, Good s ps sub C c)
    (hcmp : ∀ v e, (mGet sub.written v = some (.known e) ∨ mGet sub.pending v = some e) →
      compare s ps (Expr.var v) e = .ok true → ev e m0 = m0 v)
    (hb : BodyFactsH sub body (run body sub.pending m0) N) :
    (∀ k, k ≤ N → ∀ c ∈ C, run body sub.pending m0 k c = m0 c) ∧
    (∀ k, k < N → ∀ c ∈ C, mid body sub.pending m0 k c = m0 c) := by
  have hmid : ∀ k, k < N → (∀ c ∈ C, run body sub.pending m0 k c = m0 c) →
      ∀ c ∈ C, mid body sub.pending m0 k c = m0 c := by
    intro k hk hA c hc
    obtain ⟨vs, hcand, hvs⟩ := hgood c hc
    unfold IsCand at hcand
    cases hw : mGet sub.written c with
    | none => rw [mid, hb.unwritten k hk c hw]; exact hA c hc
    | some wv =>
      cases wv with
      | known wr =>
        simp only [hw] at hcand
        have hsub : ∀ x ∈ Expr.variables wr, x ∈ vs := by
          cases hp : mGet sub.pending c with
          | none => simp only [hp] at hcand; rw [hcand.2]; exact fun x hx => hx
          | some p =>
            simp only [hp] at hcand
            rw [hcand.2.2]; exact fun x hx => List.mem_append_left _ hx
        rw [mid, hb.known k hk c wr hw, ← hcmp c wr (Or.inl hw) hcand.1]
        apply ev_congr
        intro x hx
        rcases hvs x (hsub x hx) with rfl | hxC
        · exact hA x hc
        · exact hA x hxC
      | unknown => simp only [hw] at hcand
      | maybe => simp only [hw] at hcand
  have hnext : ∀ k, (∀ c ∈ C, mid body sub.pending m0 k c = m0 c) →
      ∀ c ∈ C, run body sub.pending m0 (k + 1) c = m0 c := by
    intro k hB c hc
    cases hp : mGet sub.pending c with
    | none => rw [run_not_pending hp]; exact hB c hc
    | some p =>
      obtain ⟨vs, hcand, hvs⟩ := hgood c hc
      unfold IsCand at hcand
      have hpc : compare s ps (Expr.var c) p = .ok true ∧ ∀ x ∈ Expr.variables p, x ∈ vs := by
        cases hw : mGet sub.written c with
        | none =>
          simp only [hw, hp] at hcand
          exact ⟨hcand.1, by rw [hcand.2]; exact fun x hx => hx⟩
        | some wv =>
          cases wv with
          | known wr =>
            simp only [hw, hp] at hcand
            exact ⟨hcand.2.1, by rw [hcand.2.2]; exact fun x hx => List.mem_append_right _ hx⟩
          | unknown => simp only [hw] at hcand
          | maybe => simp only [hw] at hcand
      rw [run_pending hp, ← hcmp c p (Or.inr hp) hpc.1]
      apply ev_congr
      intro x hx
      rcases hvs x (hpc.2 x hx) with rfl | hxC
      · exact hB x hc
      · exact hB x hxC
  have hrun : ∀ k, k ≤ N → ∀ c ∈ C, run body sub.pending m0 k c = m0 c := by
    intro k
    induction k with
    | zero => exact fun _ c _ => rfl
    | succ k ih =>
      intro hk
      exact hnext k (hmid k (by omega) (ih (by omega)))
  exact ⟨hrun, fun k hk => hmid k hk (hrun k (by omega))⟩

/-- `constants_sound` with a horizon. -/
theorem constants_sound_h (s : Rebuild w) (ps : List (Rebuild w)) (sub : Rebuild w) (C : List Int)
    (m0 : Mem w) (body : Nat → Mem w → Mem w) (N : Nat)
    (hgood : ∀ c ∈ C, Good s ps sub C c)
    (hcmp : ∀ v e, compare s ps (Expr.var v) e = .ok true → ev e m0 = m0 v)
    (hb : BodyFactsH sub body (run body sub.pending m0) N) :
    (∀ k, k ≤ N → ∀ c ∈ C, run body sub.pending m0 k c = m0 c) ∧
    (∀ k, k < N → ∀ c ∈ C, mid body sub.pending m0 k c = m0 c) :=
  constants_sound_r s ps sub C m0 body N hgood (fun v e _ h => hcmp v e h) hb

/-- … with `compare` sound on expressions in normal form only (`Canon`), the written and pending expressions
being in normal form. -/
theorem constants_sound_c (s : Rebuild w) (ps : List (Rebuild w)) (sub : Rebuild w) (C : List Int)
    (m0 : Mem w) (body : Nat → Mem w → Mem w) (N : Nat)
    (hgood : ∀ c ∈ C, Good s ps sub C c)
    (hcanon : ∀ v p, mGet sub.pending v = some p → Canon p)
    (hcanonW : ∀ v e, mGet sub.written v = some (.known e) → Canon e)
    (hcmp : ∀ v e, Canon e → compare s ps (Expr.var v) e = .ok true → ev e m0 = m0 v)
    (hb : BodyFactsH sub body (run body sub.pending m0) N) :
    (∀ k, k ≤ N → ∀ c ∈ C, run body sub.pending m0 k c = m0 c) ∧
    (∀ k, k < N → ∀ c ∈ C, mid body sub.pending m0 k c = m0 c) :=
  constants_sound_r s ps sub C m0 body N hgood
    (fun v e hve h => hcmp v e (hve.elim (hcanonW v e) (hcanon v e)) h) hb

/-- **`constantsAmong_sound` with a horizon.** -/
theorem constantsAmong_sound_h (s : Rebuild w) (ps : List (Rebuild w)) (sub : Rebuild w) (vars : List Int)
    (C : List Int) (m0 : Mem w) (body : Nat → Mem w → Mem w) (N : Nat)
    (hC : constantsAmong s ps sub vars = .ok C) (hnd : vars.Nodup)
    (hcmp : ∀ v e, compare s ps (Expr.var v) e = .ok true → ev e m0 = m0 v)
    (hb : BodyFactsH sub body (run body sub.pending m0) N) :
    (∀ k, k ≤ N → ∀ c ∈ C, run body sub.pending m0 k c = m0 c) ∧
    (∀ k, k < N → ∀ c ∈ C, mid body sub.pending m0 k c = m0 c) :=
  constants_sound_h s ps sub C m0 body N (constantsAmong_good s ps sub vars C hnd hC) hcmp hb

/-- **`constantsAmong_sound` with a horizon, `compare` sound on normal forms.** -/
theorem constantsAmong_sound_c (s : Rebuild w) (ps : List (Rebuild w)) (sub : Rebuild w) (vars : List Int)
    (C : List Int) (m0 : Mem w) (body : Nat → Mem w → Mem w) (N : Nat)
    (hC : constantsAmong s ps sub vars = .ok C) (hnd : vars.Nodup)
    (hcanon : ∀ v p, mGet sub.pending v = some p → Canon p)
    (hcanonW : ∀ v e, mGet sub.written v = some (.known e) → Canon e)
    (hcmp : ∀ v e, Canon e → compare s ps (Expr.var v) e = .ok true → ev e m0 = m0 v)
    (hb : BodyFactsH sub body (run body sub.pending m0) N) :
    (∀ k, k ≤ N → ∀ c ∈ C, run body sub.pending m0 k c = m0 c) ∧
    (∀ k, k < N → ∀ c ∈ C, mid body sub.pending m0 k c = m0 c) :=
  constants_sound_c s ps sub C m0 body N (constantsAmong_good s ps sub vars C hnd hC) hcanon hcanonW hcmp hb

/-- `GetBothFacts` for the rounds `k < N`. -/
def GetBothFactsH (s : Rebuild w) (ps : List (Rebuild w)) (sub : Rebuild w) (M : Nat → Mem w) (N : Nat) :
    Prop :=
  ∀ v e, getBoth sub (s :: ps) v = some e → WeakCanon e ∧ ∀ k, k < N → M (k + 1) v = ev e (M k)

/-- `LinSound` with a horizon: the step for `k < N`, the closed form for `k ≤ N`. -/
structure LinSoundH (sub : Rebuild w) (C : List Int) (M : Nat → Mem w) (N : Nat) (v : Int) (inc : Expr w) :
    Prop where
  unwritten : mGet sub.written v = none
  overConst : ∀ x ∈ Expr.variables inc, C.contains x = true
  fresh : v ∉ Expr.variables inc
  step : ∀ k, k < N → M (k + 1) v = M k v + ev inc (M k)
  closed : ∀ k, k ≤ N → M k v = M 0 v + BitVec.ofNat w k * ev inc (M 0)

/-- **`linearAmong_sound` with a horizon.** -/
theorem linearAmong_sound_h (s : Rebuild w) (ps : List (Rebuild w)) (sub : Rebuild w) (C : List Int)
    (vars : List Int) (M : Nat → Mem w) (N : Nat)
    (hgb : GetBothFactsH s ps sub M N)
    (hconst : ∀ k, k ≤ N → ∀ c ∈ C, M k c = M 0 c)
    (v : Int) (inc : Expr w) (h : mGet (linearAmong s ps sub C vars) v = some inc) :
    LinSoundH sub C M N v inc := by
  obtain ⟨_, hw, complete, hg, hinc, hvars⟩ := linearAmong_spec s ps sub C vars v inc h
  obtain ⟨hcanon, hstep⟩ := hgb v complete hg
  have hincK : ∀ k, k ≤ N → ev inc (M k) = ev inc (M 0) := by
    intro k hk
    apply ev_congr
    intro x hx
    exact hconst k hk x (by simpa using hvars x hx)
  have hstep' : ∀ k, k < N → M (k + 1) v = M k v + ev inc (M k) := by
    intro k hk
    rw [hstep k hk]
    exact C15.incOf_recompose complete inc v (M k) hcanon hinc
  refine ⟨hw, hvars, C15.incOf_fresh complete inc v hinc, hstep', ?_⟩
  intro k
  induction k with
  | zero => simp
  | succ k ih =>
    intro hk
    rw [hstep' k (by omega), ih (by omega), hincK k (by omega)]
    generalize M 0 v = a
    generalize ev inc (M 0) = b
    bvring

end Hpbf.OptLoop
