/-
Concrete instances for the dead store elimination theorem: the hypotheses are satisfiable (with a loop whose
back edge is looked through), the final tape may differ, and every hypothesis is necessary (for each one a
program + analysis + environment that violates only that hypothesis and for which the pass changes the
output).
-/
import Hpbf.Proofs.C01DseCheck

namespace Hpbf
namespace C01Dse
namespace Ex
open Ir OptDse

def envO : Env := { input := some [], sink := true, outOk := none }
/-- The sink accepts one byte and refuses the next. -/
def envRefuse : Env := { input := some [], sink := true, outOk := some 1 }

/-- Analysis of a block without nested blocks. -/
def leaf (atMostOnce atLeastOnce hasShift : Bool) (reads : List Int) : DAnal :=
  .mk atMostOnce atLeastOnce hasShift reads []
/-- Analysis of the program (its own facts are not used by the pass). -/
def top (subs : List DAnal) : DAnal := .mk false false false [] subs

/-- `x_v := c` -/
def cst (v : Int) (c : BitVec 8) : Instr 8 := .calc [(v, Expr.val c)]
/-- `x_v := x_v + c` -/
def addc (v : Int) (c : BitVec 8) : Instr 8 := Instr.add v c
/-- `x_v := x_u` -/
def cpy (v u : Int) : Instr 8 := .calc [(v, Expr.var u)]
def blk (l : List (Instr 8)) : Block 8 := { shift := 0, insts := l }

/-- Both runs are `done` within `N` steps, with these traces. -/
def doneWith (b b' : Block 8) (env : Env) (N : Nat) (t t' : List Ev) : Prop :=
  ∃ c c', run b false 0 N env = .done c ∧ run b' false 0 N env = .done c' ∧ c.st.trace = t ∧ c'.st.trace = t'

theorem doneWith_of {b b' : Block 8} {env : Env} {N : Nat} {t t' : List Ev}
    (h : (match run b false 0 N env, run b' false 0 N env with
      | .done c, .done c' => decide (c.st.trace = t) && decide (c'.st.trace = t')
      | _, _ => false) = true) : doneWith b b' env N t t' := by
  unfold doneWith
  split at h
  · rename_i c c' h1 h2
    simp only [Bool.and_eq_true, decide_eq_true_eq] at h
    exact ⟨c, c', h1, h2, h.1, h.2⟩
  · exact absurd h (by simp)

/-! ### the hypotheses are satisfiable -/

/-- `x0 := 2; x1 := 9; while x0 { x3 := x2; x2 += 1; x0 -= 1 }; x1 := 3; out x1; out x2` -/
def exMain : Block 8 :=
  blk [cst 0 2, cst 1 9, .loop 0 0 [cpy 3 2, addc 2 1, addc 0 (-1)] false, cst 1 3, .output 1, .output 2]
/-- The loop: not at most once, at least once, no shift, reads `x0`, `x2`. -/
def anMain : DAnal := top [leaf false true false [0, 2]]
/-- `x1 := 9` (overwritten after the loop, which does not read `x1`) and `x3 := x2` (never read: seen through
the back edge of the loop and the end of the program) are deleted. -/
def exMain' : Block 8 :=
  blk [cst 0 2, .calc [], .loop 0 0 [.calc [], addc 2 1, addc 0 (-1)] false, cst 1 3, .output 1, .output 2]

theorem exMain_elim : eliminate exMain anMain = some exMain' := by rfl
theorem exMain_nodup : NoDupTargets exMain := by decide
theorem exMain_sound : AnalSound exMain anMain envO := analSoundAt_of_check 40 (by decide)
theorem exMain_sound_refuse : AnalSound exMain anMain envRefuse := analSoundAt_of_check 40 (by decide)
theorem exMain_runs : doneWith exMain exMain' envO 40 [.out 2, .out 3] [.out 2, .out 3] :=
  doneWith_of (by decide)
/-- With a refusing sink both runs stop at the second output with the same events. -/
theorem exMain_stops : ∃ c c', run exMain false 0 40 envRefuse = .stopped c ∧
    run exMain' false 0 40 envRefuse = .stopped c' ∧ c.st.trace = [.outFail 2, .out 3] ∧
    c'.st.trace = [.outFail 2, .out 3] := by
  have h : (match run exMain false 0 40 envRefuse, run exMain' false 0 40 envRefuse with
      | .stopped c, .stopped c' =>
        decide (c.st.trace = [.outFail 2, .out 3]) && decide (c'.st.trace = [.outFail 2, .out 3])
      | _, _ => false) = true := by decide
  split at h
  · rename_i c c' h1 h2
    simp only [Bool.and_eq_true, decide_eq_true_eq] at h
    exact ⟨c, c', h1, h2, h.1, h.2⟩
  · exact absurd h (by simp)

/-! ### the final tape may differ -/

/-- `x0 := 5` at the end of the program is deleted. -/
def exTape : Block 8 := blk [cst 0 5]
def exTape' : Block 8 := blk [.calc []]

theorem exTape_elim : eliminate exTape (top []) = some exTape' := by rfl
theorem exTape_sound : AnalSound exTape (top []) envO := analSoundAt_of_check 5 (by decide)
theorem exTape_differs : ∃ c c', run exTape false 0 5 envO = .done c ∧ run exTape' false 0 5 envO = .done c' ∧
    c.st.tape.get 0 = 5#8 ∧ c'.st.tape.get 0 = 0#8 := by
  have h : (match run exTape false 0 5 envO, run exTape' false 0 5 envO with
      | .done c, .done c' => decide (c.st.tape.get 0 = 5#8) && decide (c'.st.tape.get 0 = 0#8)
      | _, _ => false) = true := by decide
  split at h
  · rename_i c c' h1 h2
    simp only [Bool.and_eq_true, decide_eq_true_eq] at h
    exact ⟨c, c', h1, h2, h.1, h.2⟩
  · exact absurd h (by simp)

/-! ### necessity of `at_least_once` -/

/-- `x0 := 7; if x1 { x0 := 3 }; out x0` with `x1 = 0`. -/
def exAL : Block 8 := blk [cst 0 7, .ifnz 1 0 [cst 0 3], .output 0]
/-- Claims `at_least_once` for the `if`, which is never entered. -/
def anAL : DAnal := top [leaf true true false [1]]
def exAL' : Block 8 := blk [.calc [], .ifnz 1 0 [cst 0 3], .output 0]

theorem exAL_elim : eliminate exAL anAL = some exAL' := by rfl
theorem exAL_others : NoDupTargets exAL ∧ ShiftFact exAL anAL ∧ AtMostFact false 0 exAL anAL envO ∧
    ReadsFact false 0 exAL anAL envO :=
  ⟨by decide, by decide, atMostFact_of_check 10 (by decide) (by decide),
    readsFact_of_check 10 (by decide) (by decide)⟩
theorem exAL_differs : doneWith exAL exAL' envO 10 [.out 7] [.out 0] := doneWith_of (by decide)

/-! ### necessity of `at_most_once` and of `reads` -/

/-- `x0 := 2; while x0 { out x1; x1 := 5; x0 -= 1 }` (two iterations). -/
def exAM : Block 8 := blk [cst 0 2, .loop 0 0 [.output 1, cst 1 5, addc 0 (-1)] false]
/-- Claims `at_most_once`. -/
def anAM : DAnal := top [leaf true true false [0, 1]]
/-- Omits `x1` from `reads`. -/
def anRD : DAnal := top [leaf false true false [0]]
def exAM' : Block 8 := blk [cst 0 2, .loop 0 0 [.output 1, .calc [], addc 0 (-1)] false]

theorem exAM_elim : eliminate exAM anAM = some exAM' := by rfl
theorem exAM_others : NoDupTargets exAM ∧ ShiftFact exAM anAM ∧ AtLeastFact false 0 exAM anAM envO ∧
    ReadsFact false 0 exAM anAM envO :=
  ⟨by decide, by decide, atLeastFact_of_check 20 (by decide) (by decide),
    readsFact_of_check 20 (by decide) (by decide)⟩
theorem exRD_elim : eliminate exAM anRD = some exAM' := by rfl
theorem exRD_others : NoDupTargets exAM ∧ ShiftFact exAM anRD ∧ AtLeastFact false 0 exAM anRD envO ∧
    AtMostFact false 0 exAM anRD envO :=
  ⟨by decide, by decide, atLeastFact_of_check 20 (by decide) (by decide),
    atMostFact_of_check 20 (by decide) (by decide)⟩
theorem exAM_differs : doneWith exAM exAM' envO 20 [.out 5, .out 0] [.out 0, .out 0] := doneWith_of (by decide)

/-! ### necessity of the two parts of `has_shift = false` -/

/-- `x0 := 1; x1 := 7; if x0 { } then move right; x1 := 9; out x0` (after the move: writes cell 2, prints
cell 1). -/
def exSA : Block 8 := blk [cst 0 1, cst 1 7, .ifnz 0 1 [], cst 1 9, .output 0]
/-- Claims `has_shift = false` for a block with `shift = 1`. -/
def anSA : DAnal := top [leaf true false false []]
def exSA' : Block 8 := blk [cst 0 1, .calc [], .ifnz 0 1 [], .calc [], .output 0]

theorem exSA_elim : eliminate exSA anSA = some exSA' := by rfl
theorem exSA_others : NoDupTargets exSA ∧ AtLeastFact false 0 exSA anSA envO ∧
    AtMostFact false 0 exSA anSA envO ∧ ReadsFact false 0 exSA anSA envO :=
  ⟨by decide, atLeastFact_of_check 10 (by decide) (by decide), atMostFact_of_check 10 (by decide) (by decide),
    readsFact_of_check 10 (by decide) (by decide)⟩
theorem exSA_differs : doneWith exSA exSA' envO 10 [.out 7] [.out 0] := doneWith_of (by decide)

/-- The same with the move inside a nested `if` (`shift = 0` for the outer one). -/
def exSB : Block 8 := blk [cst 0 1, cst 1 7, .ifnz 0 0 [.ifnz 0 1 []], cst 1 9, .output 0]
/-- The inner block is (correctly) marked `has_shift`, the outer one is not. -/
def anSB : DAnal := top [.mk true false false [] [leaf true false true []]]
def exSB' : Block 8 := blk [cst 0 1, .calc [], .ifnz 0 0 [.ifnz 0 1 []], .calc [], .output 0]

theorem exSB_elim : eliminate exSB anSB = some exSB' := by rfl
theorem exSB_others : NoDupTargets exSB ∧ AtLeastFact false 0 exSB anSB envO ∧
    AtMostFact false 0 exSB anSB envO ∧ ReadsFact false 0 exSB anSB envO :=
  ⟨by decide, atLeastFact_of_check 10 (by decide) (by decide), atMostFact_of_check 10 (by decide) (by decide),
    readsFact_of_check 10 (by decide) (by decide)⟩
theorem exSB_differs : doneWith exSB exSB' envO 10 [.out 7] [.out 0] := doneWith_of (by decide)

/-! ### necessity of "no duplicate targets": the pass is WRONG on a `calc` that assigns a cell twice -/

/-- `(x0, x0) := (1, 2); out x0`: the interpreter performs the assignments in order (prints 2); the pass
marks the second occurrence "will be overwritten" because of the first, and `retain` then deletes BOTH. -/
def exDup : Block 8 := blk [.calc [(0, Expr.val 1#8), (0, Expr.val 2#8)], .output 0]
def exDup' : Block 8 := blk [.calc [], .output 0]

theorem exDup_elim : eliminate exDup (top []) = some exDup' := by rfl
theorem exDup_sound : AnalSound exDup (top []) envO := analSoundAt_of_check 5 (by decide)
theorem exDup_differs : doneWith exDup exDup' envO 5 [.out 2] [.out 0] := doneWith_of (by decide)

/-! ### totality -/

/-- A loop without analysis node: the pass fails (the Rust panics). -/
theorem exShape : eliminate exAM (top []) = none ∧ ¬ ShapeOk exAM (top []) := ⟨by rfl, by decide⟩

end Ex
end C01Dse
end Hpbf
