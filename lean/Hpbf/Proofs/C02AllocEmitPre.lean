/-
C02 (`allocate_temps`), part 17: `AllocPre` for the code produced by the first phase.

`allocPre_of_emitRest`: for every IR program, the generator state after `emit_block` and `dead_store_elim`
satisfies `AllocPre`, given the three components collected in `EmitRest` (closure of the ranges under the branches,
no pointer move inside a range, straight-line code between a computation and the store that is its recorded first
use).  All other components are derived from the local invariant `LInv` of the emission.  `EmitRest` itself is
proved for all generator output in parts 18-24 (`emitRest_of_emit` in `C02AllocEmitAll`).
-/
import Hpbf.Proofs.C02AllocEmitL
set_option linter.unusedSimpArgs false

namespace Hpbf
namespace C02
namespace AEmit

open Bc BcWf BcGen C11 C02Emit

variable {w : Nat}

/-- The components of `AllocPre` that are NOT derived from `LInv`. -/
structure EmitRest (s : St w) : Prop where
  flow : ∀ (j : Nat) (ins : Instr w) (off : Int) (k' : Nat), s.insts[j]? = some ins → branchOff? ins = some off →
    (j : Int) + off = (k' : Int) → ∀ t, InRange s t k' → InRange s t j
  ptr : ∀ (t j : Nat) (ins : Instr w), InRange s t j → s.insts[j]? = some ins → ptrStable ins = true
  region : ∀ (i : Nat) (op : BcGen.Op) (t : Nat) (s0 s1 : Loc w) (f : Nat) (m : Int) (src : Loc w),
    Cand s i op t s0 s1 f m src →
    (∀ (j : Nat) (x : Instr w), i < j → j < f → s.insts[j]? = some x → plain x = true) ∧
    (∀ (j : Nat) (x : Instr w) (off : Int), s.insts[j]? = some x → branchOff? x = some off →
      ¬ ((i : Int) < (j : Int) + off ∧ (j : Int) + off ≤ (f : Int)))

theorem allocPre_of_linv {s : St w} (h : LInv s) (hr : EmitRest s) : AllocPre s := by
  refine ⟨by rw [h.live]; rfl, h.noZero, h.defs, ?_, hr.flow, hr.ptr, h.writes, ?_, ?_⟩
  · intro j ins t hj ht
    obtain ⟨r, L, f, g1, g2, g3, g4, _⟩ := h.uses j ins t hj ht
    exact ⟨r, L, g1, g2, g3, g4⟩
  · intro i op t s0 s1 r f hi hr' hf
    obtain ⟨r0, g1, g2⟩ := h.defs i _ t hi (by rw [Alloc.defs_mkArith]; simp [locTmp])
    rw [hr'] at g1; cases g1
    have := ((h.rwf t r hr').2.2 f hf).1
    omega
  · intro i op t s0 s1 f m src hc
    obtain ⟨c1, ⟨r, L, c2, c3, c4⟩, c5⟩ := hc
    obtain ⟨_, x, p2, p3⟩ := (h.rwf t r c2).2.2 f c3
    rw [c5] at p2; cases p2
    have hsrc : src = .tmp t := by
      cases src <;> simp [BcWf.uses, locTmp] at p3
      rw [p3]
    obtain ⟨q1, q2⟩ := hr.region i op t s0 s1 f m src ⟨c1, ⟨r, L, c2, c3, c4⟩, c5⟩
    refine ⟨hsrc, ?_, q2⟩
    intro j y hij hjf hy
    refine ⟨q1 j y hij hjf hy, ?_⟩
    intro hu
    obtain ⟨r', L', f', g1, _, _, _, g5, g6⟩ := h.uses j y t hy hu
    rw [c2] at g1; cases g1
    rw [c3] at g5; cases g5
    omega

/-- **`AllocPre` for generator output**, up to the components in `EmitRest`. -/
theorem allocPre_of_emitRest {prog : Ir.Block w} {fuse : Bool} {s1 s2 : St w} (h1 : emitState prog fuse = .ok s1)
    (h2 : deadStoreElim s1 = .ok s2) (hr : EmitRest s1) : AllocPre s2 :=
  Alloc.allocPre_of_deadStoreElim (allocPre_of_linv (linv_of_emit h1) hr) h2

/-- The pass `allocate_temps` on generator output: behaviour is preserved and the late passes apply. -/
theorem allocateTemps_of_emitRest {prog : Ir.Block w} {fuse : Bool} {numRegs : Nat} {s1 s2 s3 : St w}
    (h1 : emitState prog fuse = .ok s1) (h2 : deadStoreElim s1 = .ok s2)
    (h3 : allocateTemps numRegs s2 = .ok s3) (hr : EmitRest s1) :
    s3.insts.size = s2.insts.size ∧ s3.live.size = s3.insts.size ∧ (∀ ins ∈ s3.insts, NoMemZero ins) ∧
    (TargetsOk s2.insts → TargetsOk s3.insts) ∧
    ∀ (t t' : Nat) (mn mx : Int), BehEq (progOf s2 t mn mx) (progOf s3 t' mn mx) := by
  obtain ⟨a, b, c, d, e⟩ := allocateTemps_preserves s2 s3 numRegs (allocPre_of_emitRest h1 h2 hr) h3
  exact ⟨a, b, d, c, e⟩

end AEmit
end C02
end Hpbf
