/-
C03: per-instruction simulation for the arithmetic / copy forms of the baseline JIT: the selectors
`JitGen.emitCopy/emitAdd/emitSub/emitMul` (all arms, all operand kinds, all widths), assembled from the
per-family lemmas of `C03Copy/C03Add/C03Sub/C03Mul`, and lifted to `JitGen.emitInstr` / `Bc.step`.
-/
import Hpbf.Proofs.C03Copy
import Hpbf.Proofs.C03Add
import Hpbf.Proofs.C03Sub
import Hpbf.Proofs.C03Mul

namespace Hpbf
namespace C03

open Asm JitGen X86Sem

variable {w : Nat}

/-! ### The four selectors -/

theorem sel_copy_on {sz : Size} (hsz : sz.bits = w) (S : Nat → Prop) (live : Nat) (d s : Bc.Loc w)
    {xs : List X86} (h : emitCopy sz d s = some xs) (hfit : xs.all X86.fits = true)
    (hd : LocOk d) (hs : LocOk s) (hss : SrcOk S s)
    {c : Bc.Cfg w} {m : MState w} (hrel : RelOn S c m) {c' : Bc.Cfg w}
    (hc : Bc.writeLoc (Bc.readLoc c s).2 (Bc.readLoc c s).1 d = some c') :
    SimOn S live d c' m xs := by
  cases d <;> cases s <;> first
    | (simp [emitCopy] at h; done)
    | (simp only [Bc.readLoc] at hc
       first
       | exact copy_mi hsz S live _ _ h hfit hd hs hss hrel hc
       | exact copy_mm hsz S live _ _ h hfit hd hs hss hrel hc
       | exact copy_mt hsz S live _ _ h hfit hd hs hss hrel hc
       | exact copy_ti hsz S live _ _ h hfit hd hs hss hrel hc
       | exact copy_tm hsz S live _ _ h hfit hd hs hss hrel hc
       | exact copy_tt hsz S live _ _ h hfit hd hs hss hrel hc)

theorem sel_add_on {sz : Size} (hsz : sz.bits = w) (S : Nat → Prop) (live : Nat) (d a b : Bc.Loc w)
    {xs : List X86} (h : emitAdd sz live d a b = some xs) (hfit : xs.all X86.fits = true)
    (hd : LocOk d) (ha : LocOk a) (hb : LocOk b) (hsa : SrcOk S a) (hsb : SrcOk S b)
    {c : Bc.Cfg w} {m : MState w} (hrel : RelOn S c m) {c' : Bc.Cfg w}
    (hc : Bc.binop (· + ·) c d a b = some c') :
    SimOn S live d c' m xs := by
  cases d <;> cases a <;> cases b <;> first
    | (simp [emitAdd] at h; done)
    | (rw [binop_eq _ _ _ _ _ (by simp) (by simp)] at hc
       first
       | exact add_mmi hsz S live _ _ _ h hfit hd ha hb hsa hsb hrel hc
       | exact add_mmt hsz S live _ _ _ h hfit hd ha hb hsa hsb hrel hc
       | exact add_mmm hsz S live _ _ _ h hfit hd ha hb hsa hsb hrel hc
       | exact add_mti hsz S live _ _ _ h hfit hd ha hb hsa hsb hrel hc
       | exact add_mtt hsz S live _ _ _ h hfit hd ha hb hsa hsb hrel hc
       | exact add_tmi hsz S live _ _ _ h hfit hd ha hb hsa hsb hrel hc
       | exact add_tmt hsz S live _ _ _ h hfit hd ha hb hsa hsb hrel hc
       | exact add_tmm hsz S live _ _ _ h hfit hd ha hb hsa hsb hrel hc
       | exact add_tti hsz S live _ _ _ h hfit hd ha hb hsa hsb hrel hc
       | exact add_ttt hsz S live _ _ _ h hfit hd ha hb hsa hsb hrel hc
       | exact add_ttm hsz S live _ _ _ h hfit hd ha hb hsa hsb hrel hc)

theorem sel_sub_on {sz : Size} (hsz : sz.bits = w) (S : Nat → Prop) (live : Nat) (d a b : Bc.Loc w)
    {xs : List X86} (h : emitSub sz live d a b = some xs) (hfit : xs.all X86.fits = true)
    (hd : LocOk d) (ha : LocOk a) (hb : LocOk b) (hsa : SrcOk S a) (hsb : SrcOk S b)
    {c : Bc.Cfg w} {m : MState w} (hrel : RelOn S c m) {c' : Bc.Cfg w}
    (hc : Bc.binop (fun x y => x + (-y)) c d a b = some c') :
    SimOn S live d c' m xs := by
  cases d <;> cases a <;> cases b <;> first
    | (simp [emitSub] at h; done)
    | (rw [binop_eq _ _ _ _ _ (by simp) (by simp)] at hc
       first
       | exact sub_mmt hsz S live _ _ _ h hfit hd ha hb hsa hsb hrel hc
       | exact sub_mmm hsz S live _ _ _ h hfit hd ha hb hsa hsb hrel hc
       | exact sub_mtt hsz S live _ _ _ h hfit hd ha hb hsa hsb hrel hc
       | exact sub_mtm hsz S live _ _ _ h hfit hd ha hb hsa hsb hrel hc
       | exact sub_tmt hsz S live _ _ _ h hfit hd ha hb hsa hsb hrel hc
       | exact sub_tmm hsz S live _ _ _ h hfit hd ha hb hsa hsb hrel hc
       | exact sub_ttt hsz S live _ _ _ h hfit hd ha hb hsa hsb hrel hc
       | exact sub_ttm hsz S live _ _ _ h hfit hd ha hb hsa hsb hrel hc
       | exact sub_mit hsz S live _ _ _ h hfit hd ha hb hsa hsb hrel hc
       | exact sub_mim hsz S live _ _ _ h hfit hd ha hb hsa hsb hrel hc
       | exact sub_tit hsz S live _ _ _ h hfit hd ha hb hsa hsb hrel hc
       | exact sub_tim hsz S live _ _ _ h hfit hd ha hb hsa hsb hrel hc)

theorem sel_mul_on {sz : Size} (hsz : sz.bits = w) (S : Nat → Prop) (live : Nat) (d a b : Bc.Loc w)
    {xs : List X86} (h : emitMul sz live d a b = some xs) (hfit : xs.all X86.fits = true)
    (hd : LocOk d) (ha : LocOk a) (hb : LocOk b) (hsa : SrcOk S a) (hsb : SrcOk S b)
    {c : Bc.Cfg w} {m : MState w} (hrel : RelOn S c m) {c' : Bc.Cfg w}
    (hc : Bc.binop (· * ·) c d a b = some c') :
    SimOn S live d c' m xs := by
  cases d <;> cases a <;> cases b <;> first
    | (simp [emitMul] at h; done)
    | (rw [binop_eq _ _ _ _ _ (by simp) (by simp)] at hc
       first
       | exact mul_mmi hsz S live _ _ _ h hfit hd ha hb hsa hsb hrel hc
       | exact mul_mmt hsz S live _ _ _ h hfit hd ha hb hsa hsb hrel hc
       | exact mul_mmm hsz S live _ _ _ h hfit hd ha hb hsa hsb hrel hc
       | exact mul_mti hsz S live _ _ _ h hfit hd ha hb hsa hsb hrel hc
       | exact mul_mtt hsz S live _ _ _ h hfit hd ha hb hsa hsb hrel hc
       | exact mul_tmi hsz S live _ _ _ h hfit hd ha hb hsa hsb hrel hc
       | exact mul_tmt hsz S live _ _ _ h hfit hd ha hb hsa hsb hrel hc
       | exact mul_tmm hsz S live _ _ _ h hfit hd ha hb hsa hsb hrel hc
       | exact mul_tti hsz S live _ _ _ h hfit hd ha hb hsa hsb hrel hc
       | exact mul_ttt hsz S live _ _ _ h hfit hd ha hb hsa hsb hrel hc
       | exact mul_ttm hsz S live _ _ _ h hfit hd ha hb hsa hsb hrel hc)

/-! ### The same with the full relation `Rel` (all register temporaries) as precondition -/

theorem srcOk_true (l : Bc.Loc w) : SrcOk (fun _ => True) l := by
  cases l <;> simp [SrcOk]

theorem sel_copy {sz : Size} (hsz : sz.bits = w) (live : Nat) (d s : Bc.Loc w)
    {xs : List X86} (h : emitCopy sz d s = some xs) (hfit : xs.all X86.fits = true)
    (hd : LocOk d) (hs : LocOk s)
    {c : Bc.Cfg w} {m : MState w} (hrel : Rel c m) {c' : Bc.Cfg w}
    (hc : Bc.writeLoc (Bc.readLoc c s).2 (Bc.readLoc c s).1 d = some c') :
    Sim live d c' m xs :=
  sim_of_simOn (sel_copy_on hsz _ live d s h hfit hd hs (srcOk_true _) ((rel_iff_relOn ..).1 hrel) hc)

theorem sel_add {sz : Size} (hsz : sz.bits = w) (live : Nat) (d a b : Bc.Loc w)
    {xs : List X86} (h : emitAdd sz live d a b = some xs) (hfit : xs.all X86.fits = true)
    (hd : LocOk d) (ha : LocOk a) (hb : LocOk b)
    {c : Bc.Cfg w} {m : MState w} (hrel : Rel c m) {c' : Bc.Cfg w}
    (hc : Bc.binop (· + ·) c d a b = some c') :
    Sim live d c' m xs :=
  sim_of_simOn (sel_add_on hsz _ live d a b h hfit hd ha hb (srcOk_true _) (srcOk_true _)
    ((rel_iff_relOn ..).1 hrel) hc)

theorem sel_sub {sz : Size} (hsz : sz.bits = w) (live : Nat) (d a b : Bc.Loc w)
    {xs : List X86} (h : emitSub sz live d a b = some xs) (hfit : xs.all X86.fits = true)
    (hd : LocOk d) (ha : LocOk a) (hb : LocOk b)
    {c : Bc.Cfg w} {m : MState w} (hrel : Rel c m) {c' : Bc.Cfg w}
    (hc : Bc.binop (fun x y => x + (-y)) c d a b = some c') :
    Sim live d c' m xs :=
  sim_of_simOn (sel_sub_on hsz _ live d a b h hfit hd ha hb (srcOk_true _) (srcOk_true _)
    ((rel_iff_relOn ..).1 hrel) hc)

theorem sel_mul {sz : Size} (hsz : sz.bits = w) (live : Nat) (d a b : Bc.Loc w)
    {xs : List X86} (h : emitMul sz live d a b = some xs) (hfit : xs.all X86.fits = true)
    (hd : LocOk d) (ha : LocOk a) (hb : LocOk b)
    {c : Bc.Cfg w} {m : MState w} (hrel : Rel c m) {c' : Bc.Cfg w}
    (hc : Bc.binop (· * ·) c d a b = some c') :
    Sim live d c' m xs :=
  sim_of_simOn (sel_mul_on hsz _ live d a b h hfit hd ha hb (srcOk_true _) (srcOk_true _)
    ((rel_iff_relOn ..).1 hrel) hc)

/-! ### One bytecode instruction: `emitInstr` against `Bc.step` -/

/-- The instruction is one of the four arithmetic / copy forms and its operands are in range. -/
def ArithOk : Bc.Instr w → Prop
  | .copy d s => LocOk d ∧ LocOk s
  | .add d a b | .sub d a b | .mul d a b => LocOk d ∧ LocOk a ∧ LocOk b
  | _ => False

/-- Destination operand of an arithmetic / copy instruction. -/
def dstOf : Bc.Instr w → Bc.Loc w
  | .copy d _ | .add d _ _ | .sub d _ _ | .mul d _ _ => d
  | _ => .imm 0#w

theorem plains_all_fits (xs : List X86) : (plains xs).all Item.fits = xs.all X86.fits := by
  induction xs with
  | nil => rfl
  | cons x xs ih => simp only [plains, List.map_cons, List.all_cons, Item.fits] at ih ⊢; rw [ih]

/-- The source operands that are register temporaries belong to `S`. -/
def SrcsOk (S : Nat → Prop) : Bc.Instr w → Prop
  | .copy _ s => SrcOk S s
  | .add _ a b | .sub _ a b | .mul _ a b => SrcOk S a ∧ SrcOk S b
  | _ => True

theorem srcsOk_true (ins : Bc.Instr w) : SrcsOk (fun _ => True) ins := by
  cases ins <;> simp [SrcsOk, srcOk_true]

theorem simOn_pc {S : Nat → Prop} {live : Nat} {d : Bc.Loc w} {c : Bc.Cfg w} {m : MState w}
    {xs : List X86} (n : Nat) (h : SimOn S live d c m xs) : SimOn S live d { c with pc := n } m xs := h

theorem sel_instr_on {sz : Size} (hsz : sz.bits = w) (S : Nat → Prop) (limited safe : Bool)
    (minAcc maxAcc : Int)
    (addrExtend addrInput addrOutput i live : Nat) (ins : Bc.Instr w) (hok : ArithOk ins)
    (hsrc : SrcsOk S ins) {its : List Item}
    (h : emitInstr sz limited safe minAcc maxAcc addrExtend addrInput addrOutput i live ins = some its)
    (p : Bc.Program w) (lim : Bool) {c : Bc.Cfg w} (hins : p.insts[c.pc]? = some ins)
    {m : MState w} (hrel : RelOn S c m) {c' : Bc.Cfg w} (hstep : Bc.step p lim c = .next c') :
    ∃ xs, its = plains xs ∧ SimOn S live (dstOf ins) c' m xs := by
  unfold emitInstr at h
  split at h
  · rename_i its' hraw
    split at h
    · rename_i hfits
      cases h
      cases ins with
      | copy d s =>
        simp only [emitInstrRaw, Option.map_eq_some_iff] at hraw
        obtain ⟨xs, hxs, rfl⟩ := hraw
        rw [plains_all_fits] at hfits
        refine ⟨xs, rfl, ?_⟩
        simp only [ArithOk] at hok
        simp only [SrcsOk] at hsrc
        simp only [Bc.step, hins] at hstep
        split at hstep
        · rename_i c'' hw
          cases hstep
          exact simOn_pc _ (sel_copy_on hsz S live d s hxs hfits hok.1 hok.2 hsrc hrel hw)
        · cases hstep
      | add d a b =>
        simp only [emitInstrRaw, Option.map_eq_some_iff] at hraw
        obtain ⟨xs, hxs, rfl⟩ := hraw
        rw [plains_all_fits] at hfits
        refine ⟨xs, rfl, ?_⟩
        simp only [ArithOk] at hok
        simp only [SrcsOk] at hsrc
        simp only [Bc.step, hins] at hstep
        split at hstep
        · rename_i c'' hw
          cases hstep
          exact simOn_pc _
            (sel_add_on hsz S live d a b hxs hfits hok.1 hok.2.1 hok.2.2 hsrc.1 hsrc.2 hrel hw)
        · cases hstep
      | sub d a b =>
        simp only [emitInstrRaw, Option.map_eq_some_iff] at hraw
        obtain ⟨xs, hxs, rfl⟩ := hraw
        rw [plains_all_fits] at hfits
        refine ⟨xs, rfl, ?_⟩
        simp only [ArithOk] at hok
        simp only [SrcsOk] at hsrc
        simp only [Bc.step, hins] at hstep
        split at hstep
        · rename_i c'' hw
          cases hstep
          exact simOn_pc _
            (sel_sub_on hsz S live d a b hxs hfits hok.1 hok.2.1 hok.2.2 hsrc.1 hsrc.2 hrel hw)
        · cases hstep
      | mul d a b =>
        simp only [emitInstrRaw, Option.map_eq_some_iff] at hraw
        obtain ⟨xs, hxs, rfl⟩ := hraw
        rw [plains_all_fits] at hfits
        refine ⟨xs, rfl, ?_⟩
        simp only [ArithOk] at hok
        simp only [SrcsOk] at hsrc
        simp only [Bc.step, hins] at hstep
        split at hstep
        · rename_i c'' hw
          cases hstep
          exact simOn_pc _
            (sel_mul_on hsz S live d a b hxs hfits hok.1 hok.2.1 hok.2.2 hsrc.1 hsrc.2 hrel hw)
        · cases hstep
      | _ => exact absurd hok (by simp [ArithOk])
    · cases h
  · cases h

theorem sel_instr {sz : Size} (hsz : sz.bits = w) (limited safe : Bool) (minAcc maxAcc : Int)
    (addrExtend addrInput addrOutput i live : Nat) (ins : Bc.Instr w) (hok : ArithOk ins)
    {its : List Item}
    (h : emitInstr sz limited safe minAcc maxAcc addrExtend addrInput addrOutput i live ins = some its)
    (p : Bc.Program w) (lim : Bool) {c : Bc.Cfg w} (hins : p.insts[c.pc]? = some ins)
    {m : MState w} (hrel : Rel c m) {c' : Bc.Cfg w} (hstep : Bc.step p lim c = .next c') :
    ∃ xs, its = plains xs ∧ Sim live (dstOf ins) c' m xs := by
  obtain ⟨xs, hx, hs⟩ := sel_instr_on hsz (fun _ => True) limited safe minAcc maxAcc addrExtend addrInput
    addrOutput i live ins hok (srcsOk_true _) h p lim hins ((rel_iff_relOn ..).1 hrel) hstep
  exact ⟨xs, hx, sim_of_simOn hs⟩

/-! ### Canonical related state, refutation helpers -/

/-- The machine state that holds the zero-extended temporaries and the tape of `c` (other registers zero). -/
def stateOf (c : Bc.Cfg w) : MState w :=
  { regs := fun r =>
      match r with
      | .r12 => (Bc.tget c.temps 0).setWidth 64 | .r13 => (Bc.tget c.temps 1).setWidth 64
      | .r14 => (Bc.tget c.temps 2).setWidth 64 | .r15 => (Bc.tget c.temps 3).setWidth 64
      | .rsi => (Bc.tget c.temps 4).setWidth 64 | .rdi => (Bc.tget c.temps 5).setWidth 64
      | .rdx => (Bc.tget c.temps 6).setWidth 64 | .r8 => (Bc.tget c.temps 7).setWidth 64
      | .r9 => (Bc.tget c.temps 8).setWidth 64 | .r10 => (Bc.tget c.temps 9).setWidth 64
      | .r11 => (Bc.tget c.temps 10).setWidth 64
      | _ => 0
    tape := fun o => c.st.rd o
    stack := fun k => (Bc.tget c.temps k).setWidth 64
    zf := none
    cf := none }

/-- `Rel` is satisfiable for every configuration. -/
theorem rel_stateOf (hw : w ≤ 64) (c : Bc.Cfg w) : Rel c (stateOf c) := by
  refine ⟨fun t r htr => ?_, fun t _ => lo_ext hw _, fun _ => rfl⟩
  obtain ⟨ht, rfl⟩ := tmpReg_eq_some.1 htr
  have : t = 0 ∨ t = 1 ∨ t = 2 ∨ t = 3 ∨ t = 4 ∨ t = 5 ∨ t = 6 ∨ t = 7 ∨ t = 8 ∨ t = 9 ∨ t = 10 := by
    omega
  rcases this with h | h | h | h | h | h | h | h | h | h | h <;> subst h <;> exact lo_ext hw _

/-- A stack temporary with the wrong final value refutes the simulation. -/
theorem not_sim_of_stack {live : Nat} {d : Bc.Loc w} {c' : Bc.Cfg w} {m : MState w} {xs : List X86}
    (t : Nat) (ht : 11 ≤ t) (v : BitVec w)
    (hx : (execAll xs m).map (fun m' => (lo (m'.stack t) : BitVec w)) = some v)
    (hne : Bc.tget c'.temps t ≠ v) : ¬ Sim live d c' m xs := by
  rintro ⟨m', hex, hrel, -⟩
  rw [hex] at hx
  simp only [Option.map_some, Option.some.injEq] at hx
  exact hne ((hrel.2.1 t ht).symm.trans hx)

/-- A destination register temporary with the wrong final value refutes the simulation. -/
theorem not_sim_of_dst_reg {live : Nat} {c' : Bc.Cfg w} {m : MState w} {xs : List X86}
    (t : Nat) (r : Reg) (htr : tmpReg t = some r) (v : BitVec w)
    (hx : (execAll xs m).map (fun m' => (lo (m'.regs r) : BitVec w)) = some v)
    (hne : Bc.tget c'.temps t ≠ v) : ¬ Sim live (.tmp t) c' m xs := by
  rintro ⟨m', hex, hrel, -⟩
  rw [hex] at hx
  simp only [Option.map_some, Option.some.injEq] at hx
  exact hne ((hrel.1 t r htr (Or.inr rfl)).symm.trans hx)

/-- Configuration with the given temporaries and tape cells (pointer 0). -/
def cfgOf (temps : Bc.Temps w) (cells : List (Int × BitVec w)) : Bc.Cfg w :=
  { pc := 0, temps := temps, budget := 0,
    st := { tape := ⟨cells⟩, ptr := 0, env := { input := none, sink := false, outOk := none }, trace := [] } }

/-! ### Small facts -/

theorem ofBits_eq {sz : Size} : Size.ofBits? w = some sz ↔ sz.bits = w := by
  constructor
  · intro h
    unfold Size.ofBits? at h
    split at h <;> cases h <;> rfl
  · rintro rfl; cases sz <;> rfl

theorem execAll_append (xs ys : List X86) (m : MState w) :
    execAll (xs ++ ys) m = (execAll xs m).bind (execAll ys) := by
  induction xs generalizing m with
  | nil => rfl
  | cons x xs ih =>
    simp only [List.cons_append, execAll]
    cases exec x m with
    | none => rfl
    | some m' => exact ih m'

/-- `Rel'` is `Rel` when nothing may be clobbered, and `Rel` implies every `Rel'`. -/
theorem rel'_of_rel {live : Nat} {d : Bc.Loc w} {c : Bc.Cfg w} {m : MState w} (h : Rel c m) :
    Rel' live d c m :=
  ⟨fun t r htr _ => h.1 t r htr, h.2.1, h.2.2⟩

theorem rel_of_rel'_all {d : Bc.Loc w} {c : Bc.Cfg w} {m : MState w} (h : Rel' 2047 d c m) : Rel c m := by
  refine ⟨fun t r htr => h.1 t r htr (Or.inl ?_), h.2.1, h.2.2⟩
  have ht := (tmpReg_eq_some.1 htr).1
  have : t = 0 ∨ t = 1 ∨ t = 2 ∨ t = 3 ∨ t = 4 ∨ t = 5 ∨ t = 6 ∨ t = 7 ∨ t = 8 ∨ t = 9 ∨ t = 10 := by
    omega
  rcases this with h | h | h | h | h | h | h | h | h | h | h <;> subst h <;> decide

theorem ins_ne_nil (pre : List UInt8) (wide isb : Bool) (reg : Option Reg) (opc : List UInt8) (op : Nat)
    (rm : RegMem) (tail : List UInt8) (h : opc ≠ []) : ins pre wide isb reg opc op rm tail ≠ [] := by
  simp [ins, h]

/-- Every instruction has at least one byte of machine code. -/
theorem encode_ne_nil' (x : X86) : encode x ≠ [] := by
  cases x <;> simp only [encode, encInc, encDec] <;> (repeat' split) <;>
    first
    | (apply ins_ne_nil; simp)
    | simp

/-! ### Straight-line blocks of arithmetic / copy instructions -/

/-- Bytecode semantics of one arithmetic / copy instruction (`Bc.step` without the pc). -/
def arith (c : Bc.Cfg w) : Bc.Instr w → Option (Bc.Cfg w)
  | .copy d s => Bc.writeLoc (Bc.readLoc c s).2 (Bc.readLoc c s).1 d
  | .add d a b => Bc.binop (· + ·) c d a b
  | .sub d a b => Bc.binop (fun x y => x + (-y)) c d a b
  | .mul d a b => Bc.binop (· * ·) c d a b
  | _ => none

/-- A block: instructions with their live bitmaps, executed in order. -/
def arithAll : List (Bc.Instr w × Nat) → Bc.Cfg w → Option (Bc.Cfg w)
  | [], c => some c
  | (ins, _) :: rest, c => (arith c ins).bind (arithAll rest)

/-- The selector on one arithmetic / copy instruction, with `emitInstr`'s operand-range test. -/
def emitArith (sz : Size) (live : Nat) (ins : Bc.Instr w) : Option (List X86) :=
  let r := match ins with
    | .copy d s => emitCopy sz d s
    | .add d a b => emitAdd sz live d a b
    | .sub d a b => emitSub sz live d a b
    | .mul d a b => emitMul sz live d a b
    | _ => none
  r.bind fun xs => if xs.all X86.fits then some xs else none

/-- The code of a block: the concatenation. -/
def blockCode (sz : Size) : List (Bc.Instr w × Nat) → Option (List X86)
  | [] => some []
  | (ins, live) :: rest =>
    (emitArith sz live ins).bind fun xs => (blockCode sz rest).map fun ys => xs ++ ys

/-- The liveness contract along a block, starting from the set `S` of register temporaries known to
agree: operands in range, register sources in the current set; the set after an instruction is `Post`. -/
def Chain (S : Nat → Prop) : List (Bc.Instr w × Nat) → Prop
  | [] => True
  | (ins, live) :: rest => ArithOk ins ∧ SrcsOk S ins ∧ Chain (Post S live (dstOf ins)) rest

/-- The set of register temporaries known to agree after the block. -/
def SetAfter (S : Nat → Prop) : List (Bc.Instr w × Nat) → (Nat → Prop)
  | [] => S
  | (ins, live) :: rest => SetAfter (Post S live (dstOf ins)) rest

theorem arith_sound {sz : Size} (hsz : sz.bits = w) (S : Nat → Prop) (live : Nat) (ins : Bc.Instr w)
    (hok : ArithOk ins) (hsrc : SrcsOk S ins) {xs : List X86} (h : emitArith sz live ins = some xs)
    {c : Bc.Cfg w} {m : MState w} (hrel : RelOn S c m) {c' : Bc.Cfg w} (hc : arith c ins = some c') :
    SimOn S live (dstOf ins) c' m xs := by
  unfold emitArith at h
  simp only [Option.bind_eq_some_iff] at h
  obtain ⟨xs', hx, hf⟩ := h
  split at hf
  · rename_i hfit
    cases hf
    cases ins with
    | copy d s =>
      exact sel_copy_on hsz S live d s hx hfit hok.1 hok.2 hsrc hrel hc
    | add d a b =>
      exact sel_add_on hsz S live d a b hx hfit hok.1 hok.2.1 hok.2.2 hsrc.1 hsrc.2 hrel hc
    | sub d a b =>
      exact sel_sub_on hsz S live d a b hx hfit hok.1 hok.2.1 hok.2.2 hsrc.1 hsrc.2 hrel hc
    | mul d a b =>
      exact sel_mul_on hsz S live d a b hx hfit hok.1 hok.2.1 hok.2.2 hsrc.1 hsrc.2 hrel hc
    | _ => exact absurd hok (by simp [ArithOk])
  · cases hf

theorem block_sound' {sz : Size} (hsz : sz.bits = w) (prog : List (Bc.Instr w × Nat)) :
    ∀ (S : Nat → Prop), Chain S prog → ∀ {code : List X86}, blockCode sz prog = some code →
    ∀ {c : Bc.Cfg w} {m : MState w}, RelOn S c m → ∀ {c' : Bc.Cfg w}, arithAll prog c = some c' →
    ∃ m', execAll code m = some m' ∧ RelOn (SetAfter S prog) c' m' ∧
      m'.regs .rbx = m.regs .rbx ∧ m'.regs .rbp = m.regs .rbp ∧ m'.regs .rsp = m.regs .rsp := by
  induction prog with
  | nil =>
    intro S _ code hcode c m hrel c' hc
    simp only [blockCode, Option.some.injEq] at hcode
    simp only [arithAll, Option.some.injEq] at hc
    subst hcode; subst hc
    exact ⟨m, rfl, hrel, rfl, rfl, rfl⟩
  | cons il rest ih =>
    obtain ⟨ins, live⟩ := il
    intro S hch code hcode c m hrel c' hc
    obtain ⟨hok, hsrc, hrest⟩ := hch
    simp only [blockCode, Option.bind_eq_some_iff, Option.map_eq_some_iff] at hcode
    obtain ⟨xs, hxs, ys, hys, rfl⟩ := hcode
    simp only [arithAll, Option.bind_eq_some_iff] at hc
    obtain ⟨c1, hc1, hc2⟩ := hc
    obtain ⟨m1, hx1, hr1, hb1, hp1, hs1⟩ := arith_sound hsz S live ins hok hsrc hxs hrel hc1
    obtain ⟨m2, hx2, hr2, hb2, hp2, hs2⟩ := ih _ hrest hys hr1 hc2
    refine ⟨m2, ?_, hr2, hb2.trans hb1, hp2.trans hp1, hs2.trans hs1⟩
    rw [execAll_append, hx1]
    exact hx2

/-- `arith` is `Bc.step` on an arithmetic / copy instruction. -/
theorem step_arith (p : Bc.Program w) (lim : Bool) {c : Bc.Cfg w} {ins : Bc.Instr w}
    (hins : p.insts[c.pc]? = some ins) (hok : ArithOk ins) :
    Bc.step p lim c =
      match arith c ins with
      | some c' => .next { c' with pc := c'.pc + 1 }
      | none => .bad c := by
  cases ins with
  | copy d s => simp only [Bc.step, hins, arith]; split <;> simp_all
  | add d a b => simp only [Bc.step, hins, arith]; split <;> simp_all
  | sub d a b => simp only [Bc.step, hins, arith]; split <;> simp_all
  | mul d a b => simp only [Bc.step, hins, arith]; split <;> simp_all
  | _ => exact absurd hok (by simp [ArithOk])

end C03
end Hpbf
