/-
Rebuild-round proofs: READ-BEFORE-WRITE footprint, part 2: the emission primitives (calc-only steps).
`RdC D E s s' comps`: a cell that is not in `reads` afterwards and was not definitely written before (or is in `D`:
no pending operation uses it) is not exposed by the groups; a cell that becomes definitely written is really
touched by the groups (except the cells in `E`: recorded as written before the instruction that writes them).
-/
import Hpbf.Proofs.OptRbRd1

namespace Hpbf
namespace OptProof
open Opt OptSem Ir

variable {w : Nat}

/-- calc-only step of the read-before-write footprint. -/
def RdC (D E : Int → Prop) (s s' : Rebuild w) (comps : List (List (Int × Expr w))) : Prop :=
  s'.subShift = false →
    (∀ v, v ∉ s'.reads → (¬ DefW s v ∨ D v) → ¬ ExposesC v comps) ∧
    (∀ v, DefW s' v → ¬ DefW s v → ¬ E v → ¬ ThruC v comps)

theorem RdC.refl (D E : Int → Prop) (s : Rebuild w) : RdC D E s s [] :=
  fun _ => ⟨fun _ _ _ h => h, fun _ h1 h2 _ _ => h2 h1⟩

theorem RdC.weaken {D E E' : Int → Prop} {s s' : Rebuild w} {comps : List (List (Int × Expr w))}
    (h : RdC D E s s' comps) (hE : ∀ v, E v → E' v) : RdC D E' s s' comps :=
  fun hs => ⟨(h hs).1, fun v h1 h2 h3 => (h hs).2 v h1 h2 (fun he => h3 (hE v he))⟩

theorem RdC.trans {D D' E1 E2 : Int → Prop} {a b c : Rebuild w} {c1 c2 : List (List (Int × Expr w))}
    (h1 : RdC D E1 a b c1) (h2 : RdC D' E2 b c c2) (hm : ReadsMono b c) (hD : ∀ v, D v ∨ E1 v → D' v) :
    RdC D (fun v => E1 v ∨ E2 v) a c (c1 ++ c2) := by
  intro hs
  obtain ⟨r1, w1⟩ := h1 (hm.2 hs)
  obtain ⟨r2, w2⟩ := h2 hs
  refine ⟨?_, ?_⟩
  · intro v hv hd hex
    have hvb : v ∉ b.reads := fun h => hv (hm.1 v h)
    rcases exposesC_append.1 hex with h | ⟨hnw, h⟩
    · exact r1 v hvb hd h
    · have hne1 : ¬ ExposesC v c1 := r1 v hvb hd
      have hthru : ThruC v c1 := thruC_of_not_exposesC hnw hne1
      refine r2 v hv ?_ h
      rcases hd with hd | hd
      · by_cases hdb : DefW b v
        · by_cases he : E1 v
          · exact Or.inr (hD v (Or.inr he))
          · exact absurd hthru (w1 v hdb hd he)
        · exact Or.inl hdb
      · exact Or.inr (hD v (Or.inl hd))
  · intro v hdc hda he hthru
    obtain ⟨t1, t2⟩ := thruC_append.1 hthru
    by_cases hdb : DefW b v
    · exact w1 v hdb hda (fun h => he (Or.inl h)) t1
    · exact w2 v hdc hdb (fun h => he (Or.inr h)) t2

/-- Composition of plain emission steps. -/
theorem RdC.trans0 {D : Int → Prop} {a b c : Rebuild w} {c1 c2 : List (List (Int × Expr w))}
    (h1 : RdC D (fun _ => False) a b c1) (h2 : RdC D (fun _ => False) b c c2) (hm : ReadsMono b c) :
    RdC D (fun _ => False) a c (c1 ++ c2) :=
  (h1.trans h2 hm (fun _ h => h.elim id False.elim)).weaken (fun _ h => h.elim id id)

/-- Only `written` of the start state matters. -/
theorem RdC.congr_left {D E : Int → Prop} {s s0 s' : Rebuild w} {comps : List (List (Int × Expr w))}
    (hw : s0.written = s.written) (h : RdC D E s0 s' comps) : RdC D E s s' comps := by
  intro hs
  obtain ⟨r, wq⟩ := h hs
  refine ⟨fun v hv hd => r v hv (hd.imp (fun h' h'' => h' ((DefW.congr hw v).1 h'')) id),
    fun v h1 h2 => wq v h1 (fun h' => h2 ((DefW.congr hw v).1 h'))⟩

/-- Only `written`, `reads`, `subShift` of the end state matter; `reads` may grow. -/
theorem RdC.congr_right {D E : Int → Prop} {s s1 s' : Rebuild w} {comps : List (List (Int × Expr w))}
    (hw : s'.written = s1.written) (hr : ∀ v, v ∈ s1.reads → v ∈ s'.reads) (hs : s'.subShift = s1.subShift)
    (h : RdC D E s s1 comps) : RdC D E s s' comps := by
  intro hss
  obtain ⟨r, wq⟩ := h (by rw [← hs]; exact hss)
  exact ⟨fun v hv => r v (fun h' => hv (hr v h')), fun v h1 => wq v ((DefW.congr hw v).1 h1)⟩

/-! ### `emitGroup`, `emitStructured`, `gatherForEmit` -/

theorem emitGroup_rdC {s : Rebuild w} (hwf : Wf s) (ps : List (Rebuild w)) (g : List (Int × Expr w))
    (hnd : (g.map (·.1)).Nodup) (D : Int → Prop)
    (hD : ∀ vc ∈ g, ∀ x ∈ Expr.variables vc.2, ¬ D x) :
    RdC D (fun _ => False) s (emitGroup ps s g) [g] := by
  obtain ⟨hrd, _⟩ := readGroup_reads s g
  intro _
  refine ⟨?_, ?_⟩
  · intro v hv hd hex
    rcases hex with ⟨ve, hve, hx⟩ | ⟨_, h⟩
    · rcases hrd ve hve v hx with h | h
      · exact hv (by rw [emitGroup_reads]; exact h)
      · rcases hd with hd | hd
        · exact hd h
        · exact hD ve hve v hx hd
    · exact h
  · intro v hd' hd _ hthru
    rcases (emitGroup_defW hwf ps g hnd v).1 hd' with h | h
    · exact hd h
    · exact (hthru g (by simp)).1 h

theorem emitStructured_rdC {s : Rebuild w} (hwf : Wf s) (ps : List (Rebuild w))
    (toEmit : List (List (Int × Expr w))) (hnd : ∀ g ∈ toEmit, (g.map (·.1)).Nodup) (D : Int → Prop)
    (hD : ∀ g ∈ toEmit, ∀ vc ∈ g, ∀ x ∈ Expr.variables vc.2, ¬ D x) :
    RdC D (fun _ => False) s (emitStructured s ps toEmit) toEmit := by
  rw [emitStructured_eq]
  induction toEmit generalizing s with
  | nil => exact RdC.refl D _ s
  | cons g toEmit ih =>
    have h1 := emitGroup_rdC hwf ps g (hnd g (by simp)) D (hD g (by simp))
    have hwf1 := (emitGroup_struct hwf ps g).1
    have h2 := ih hwf1 (fun g' hg' => hnd g' (by simp [hg'])) (fun g' hg' => hD g' (by simp [hg']))
    have hm : ReadsMono (emitGroup ps s g) (toEmit.foldl (emitGroup ps) (emitGroup ps s g)) := by
      have := (emitStructured_foot hwf1 ps toEmit (fun g' hg' => hnd g' (by simp [hg']))).mono
      rw [emitStructured_eq] at this; exact this
    simp only [List.foldl_cons]
    exact h1.trans0 h2 hm

theorem gatherEmit_rdC {s : Rebuild w} (ps : List (Rebuild w)) (hwf : Wf s) (var : Int) {os os' : Orders}
    {s1 : Rebuild w} {toEmit : List (List (Int × Expr w))}
    (hr : (gatherForEmit s [var]).run os = .ok ((s1, toEmit), os')) (D : Int → Prop)
    (hD : ∀ v, D v → NoUse s v) :
    RdC D (fun _ => False) s (emitStructured s1 ps toEmit) toEmit := by
  obtain ⟨g1, g2, _, _, _, g6, g7, _⟩ := gatherForEmit_spec hwf var hr
  refine (emitStructured_rdC g1 ps toEmit (fun g hg => (g6 g hg).1) D ?_).congr_left g2.2.2.2.2.2.2.2.1
  intro g hg vc hvc x hx hdx
  exact (hD x hdx).2 vc.1 vc.2 (g7 g hg vc hvc) hx

/-! ### `emit` and the loops built from it -/

/-- An emission step with its relational footprint and its read-before-write footprint (THE SAME `comps`). -/
def EmitRd (ps : List (Rebuild w)) (s s' : Rebuild w) (comps : List (List (Int × Expr w))) : Prop :=
  EmitRes ps s s' comps ∧ EmitFoot s s' comps ∧ RdC (fun _ => False) (fun _ => False) s s' comps

theorem EmitRd.refl (ps : List (Rebuild w)) {s : Rebuild w} (h : Wf s) : EmitRd ps s s [] :=
  ⟨EmitRes.refl ps h, EmitFoot.refl s, RdC.refl _ _ s⟩

theorem EmitRd.trans {ps : List (Rebuild w)} {a b c : Rebuild w} {c1 c2 : List (List (Int × Expr w))}
    (h1 : EmitRd ps a b c1) (h2 : EmitRd ps b c c2) : EmitRd ps a c (c1 ++ c2) :=
  ⟨h1.1.trans h2.1, h1.2.1.trans h2.2.1, h1.2.2.trans0 h2.2.2 h2.2.1.mono⟩

theorem emit_rd {s : Rebuild w} (ps : List (Rebuild w)) (hwf : Wf s) (var : Int) {os os' : Orders}
    {s' : Rebuild w} (hr : (emit s ps var).run os = .ok (s', os')) : ∃ comps, EmitRd ps s s' comps := by
  unfold emit at hr
  split at hr
  · rw [run_bind_ok] at hr
    obtain ⟨⟨s1, toEmit⟩, os1, h1, h2⟩ := hr
    rw [run_pure] at h2
    cases h2
    exact ⟨toEmit, (gatherEmit_res ps hwf var h1).1, gatherEmit_foot ps hwf var h1,
      gatherEmit_rdC ps hwf var h1 _ (fun _ h => h.elim)⟩
  · rw [run_pure] at hr
    cases hr
    exact ⟨[], EmitRd.refl ps hwf⟩

theorem foldlM_emitRd {γ : Type} (ps : List (Rebuild w)) (f : Rebuild w → γ → M (Rebuild w)) (l : List γ)
    (hstep : ∀ s x os s' os', x ∈ l → Wf s → (f s x).run os = .ok (s', os') → ∃ comps, EmitRd ps s s' comps)
    {s : Rebuild w} {os : Orders} {s' : Rebuild w} {os' : Orders} (hwf : Wf s)
    (hr : (l.foldlM f s).run os = .ok (s', os')) : ∃ comps, EmitRd ps s s' comps := by
  induction l generalizing s os with
  | nil =>
    rw [List.foldlM_nil, run_pure] at hr
    cases hr; exact ⟨[], EmitRd.refl ps hwf⟩
  | cons x l ih =>
    rw [List.foldlM_cons, run_bind_ok] at hr
    obtain ⟨s1, os1, h1, h2⟩ := hr
    obtain ⟨c1, r1⟩ := hstep s x os s1 os1 (by simp) hwf h1
    obtain ⟨c2, r2⟩ := ih (fun s x os s' os' hx => hstep s x os s' os' (List.mem_cons_of_mem _ hx)) r1.1.wf h2
    exact ⟨c1 ++ c2, r1.trans r2⟩

theorem explosionVars_rd (ps : List (Rebuild w)) (vars : List Int) (last : Option Int) {s : Rebuild w}
    (hwf : Wf s) {os os' : Orders} {s' : Rebuild w}
    (hr : (explosionVars ps vars last s).run os = .ok (s', os')) : ∃ comps, EmitRd ps s s' comps := by
  induction vars generalizing s os last with
  | nil =>
    rw [explosionVars, run_pure] at hr
    cases hr; exact ⟨[], EmitRd.refl ps hwf⟩
  | cons var rest ih =>
    rw [explosionVars] at hr
    have hskip : ∀ {os : Orders}, ((do let s ← pure s; (fun s => explosionVars ps rest (some var) s) s) :
        M (Rebuild w)).run os = .ok (s', os') → ∃ comps, EmitRd ps s s' comps := by
      intro os h
      rw [run_bind_ok] at h
      obtain ⟨s1, os1, h1, h2⟩ := h
      rw [run_pure] at h1; cases h1
      exact ih (some var) hwf h2
    split at hr
    · split at hr
      · rw [run_bind_ok] at hr
        obtain ⟨s1, os1, h1, h2⟩ := hr
        obtain ⟨c1, r1⟩ := emit_rd ps hwf var h1
        obtain ⟨c2, r2⟩ := ih (some var) r1.1.wf h2
        exact ⟨c1 ++ c2, r1.trans r2⟩
      · exact hskip hr
    · exact hskip hr

theorem performCheck_rd (ps : List (Rebuild w)) (calcs : List (Int × Expr w)) {s : Rebuild w}
    (hwf : Wf s) {os os' : Orders} {s' : Rebuild w}
    (hr : (performCheck s ps calcs).run os = .ok (s', os')) : ∃ comps, EmitRd ps s s' comps := by
  unfold performCheck at hr
  refine foldlM_emitRd ps _ calcs ?_ hwf hr
  intro s vc os s' os' _ hwf' h
  refine foldlM_emitRd ps _ (groupedVars vc.2) ?_ hwf' h
  intro s vars os s' os' _ hwf'' h'
  split at h'
  · exact explosionVars_rd ps vars none hwf'' h'
  · rw [run_pure] at h'; cases h'; exact ⟨[], EmitRd.refl ps hwf''⟩

theorem emitAll_rd (ps : List (Rebuild w)) (vars : List Int) {s : Rebuild w}
    (hwf : Wf s) {os os' : Orders} {s' : Rebuild w}
    (hr : (emitAll ps vars s).run os = .ok (s', os')) : ∃ comps, EmitRd ps s s' comps := by
  unfold emitAll at hr
  refine foldlM_emitRd ps _ vars ?_ hwf hr
  intro s var os s' os' _ hwf' h
  exact emit_rd ps hwf' var h

theorem emitReadAll_rd (ps : List (Rebuild w)) (vars : List Int) {s : Rebuild w}
    (hwf : Wf s) {os os' : Orders} {s' : Rebuild w}
    (hr : (emitReadAll ps vars s).run os = .ok (s', os')) : ∃ comps, EmitRd ps s s' comps := by
  unfold emitReadAll at hr
  refine foldlM_emitRd ps _ vars ?_ hwf hr
  intro s var os s' os' _ hwf' h
  rw [run_bind_ok] at h
  obtain ⟨s1, os1, h1, h2⟩ := h
  rw [run_pure] at h2
  cases h2
  obtain ⟨c, r, f, d⟩ := emit_rd ps hwf' var h1
  have hsr := read_same s1 var
  exact ⟨c, r.of_sameButReads hsr, f.of_sameButReads_right hsr (read_readsMono s1 var).1,
    d.congr_right hsr.2.2.2.2.2.2.1 (read_readsMono s1 var).1 hsr.2.2.2.2.1⟩

/-- `performAll`: the explosion check emits, the rest only changes `pending`. -/
theorem performAll_rd {s : Rebuild w} {ps : List (Rebuild w)} {shift : Int} {calcs : List (Int × Expr w)}
    {os os' : Orders} {s' : Rebuild w}
    (hr : (performAll s ps shift calcs).run os = .ok (s', os')) (hwf : Wf s) :
    ∃ comps : List (List (Int × Expr w)), Wf s' ∧ s'.insts = s.insts ++ comps.map Instr.calc ∧
      (∀ g ∈ comps, (g.map (·.1)).Nodup) ∧ EmitFoot s s' comps ∧
      RdC (fun _ => False) (fun _ => False) s s' comps := by
  rw [performAll_eq, run_bind_ok] at hr
  obtain ⟨s1, os1, h1, h2⟩ := hr
  rw [run_bind_ok] at h2
  obtain ⟨exprs, os2, h3, h4⟩ := h2
  rw [run_pure] at h4
  cases h4
  obtain ⟨comps, r, f, d⟩ := performCheck_rd ps calcs hwf h1
  obtain ⟨hw', hsame⟩ := foldl_insertPending_wf r.wf ps exprs
  refine ⟨comps, hw', by rw [hsame.2.2.2.2.2.2.2.2.1, r.insts], r.nodup, f.of_sameButPend_right hsame, ?_⟩
  exact d.congr_right hsame.2.2.2.2.2.2.2.1 (fun v hv => by rw [hsame.2.2.2.2.2.2.1]; exact hv)
    hsame.2.2.2.2.1

/-! ### `clobber`, `clobberAll`, the `clobber` phase -/

theorem clobber_rdD {s : Rebuild w} {ps : List (Rebuild w)} {var : Int} {maybe : Bool} {os os' : Orders}
    {s' : Rebuild w} (hr : (clobber s ps var maybe).run os = .ok (s', os')) (hwf : Wf s) (D : Int → Prop)
    (hD : ∀ v, D v → NoUse s v) :
    ∃ comps : List (List (Int × Expr w)), s'.insts = s.insts ++ comps.map Instr.calc ∧
      RdC D (fun v => v = var) s s' comps := by
  unfold clobber at hr
  rw [run_bind_ok] at hr
  obtain ⟨⟨s2, toEmit⟩, os1, h1, h2⟩ := hr
  rw [run_pure] at h2
  cases h2
  have hs0 : ∃ s0, s0 = (if !maybe then (removePending s var).1 else s) := ⟨_, rfl⟩
  obtain ⟨s0, hs0e⟩ := hs0
  rw [← hs0e] at h1
  have hwf0 : Wf s0 := by
    rw [hs0e]; split
    · exact removePending_wf hwf var
    · exact hwf
  have hsame0 : SameButPend s s0 := by
    rw [hs0e]; split
    · exact removePending_same s var
    · exact SameButPend.refl s
  have hsub0 : ∀ k e, mGet s0.pending k = some e → mGet s.pending k = some e := by
    rw [hs0e]; split
    · intro k e h
      rw [removePending_get hwf] at h
      split at h
      · cases h
      · exact h
    · exact fun _ _ h => h
  obtain ⟨r, _, _⟩ := gatherEmit_res ps hwf0 var h1
  have hd : RdC D (fun _ => False) s (emitStructured s2 ps toEmit) toEmit :=
    (gatherEmit_rdC ps hwf0 var h1 D (fun v hv => (hD v hv).of_sub hsub0)).congr_left
      hsame0.2.2.2.2.2.2.2.1
  have hk : ∀ e, (if maybe then OptWrite.maybe else OptWrite.unknown : OptWrite w) ≠ .known e := by
    intro e; split <;> simp
  obtain ⟨i1, i2, i3, i4, i5, i6, i7, i8, i9, i10, i11⟩ :=
    insertWritten_same (emitStructured s2 ps toEmit) var (if maybe then .maybe else .unknown)
  refine ⟨toEmit, by rw [i10, r.insts, hsame0.2.2.2.2.2.2.2.2.1], ?_⟩
  intro hss
  obtain ⟨rd, wq⟩ := hd (by rw [← i5]; exact hss)
  refine ⟨fun v hv => rd v (by rw [← i7]; exact hv), ?_⟩
  intro v h1' h2' hne
  refine wq v ?_ h2' (fun h => h)
  refine (DefW.of_get_eq ?_).1 h1'
  rw [insertWritten_written', normW_nonknown _ hk, mGet_mSet, if_neg (fun e => hne e.symm)]

theorem clobberAll_rdD (ps : List (Rebuild w)) (cl : List (Int × Bool)) {s : Rebuild w} (hwf : Wf s)
    (hnd : (cl.map (·.1)).Nodup) (D : Int → Prop) (hD : ∀ v, D v → NoUse s v)
    {os os' : Orders} {s' : Rebuild w} (hr : (clobberAll ps cl s).run os = .ok (s', os')) :
    ∃ comps : List (List (Int × Expr w)), s'.insts = s.insts ++ comps.map Instr.calc ∧
      RdC D (fun v => v ∈ cl.map (·.1)) s s' comps := by
  induction cl generalizing s os D with
  | nil =>
    unfold clobberAll at hr
    rw [List.foldlM_nil, run_pure] at hr
    cases hr
    exact ⟨[], by simp, RdC.refl _ _ _⟩
  | cons vb rest ih =>
    unfold clobberAll at hr
    rw [List.foldlM_cons, run_bind_ok] at hr
    obtain ⟨s1, os1, h1, h2⟩ := hr
    simp only [List.map_cons, List.nodup_cons] at hnd
    obtain ⟨c0, a1, _, a3, _, _, _, a7, a8, _⟩ := clobber_footD h1 hwf D hD
    obtain ⟨c1, e1, d1⟩ := clobber_rdD h1 hwf D hD
    have hD1 : ∀ v, (D v ∨ v = vb.1) → NoUse s1 v := by
      rintro v (h | h)
      · exact (hD v h).of_sub a7
      · rw [h]; exact a8
    obtain ⟨c2', _, _, _, _, b5, _⟩ :=
      clobberAll_footD ps rest a3 hnd.2 (fun v => D v ∨ v = vb.1) hD1
        (show (clobberAll ps rest s1).run os1 = _ from h2)
    obtain ⟨c2, e2, d2⟩ := ih a3 hnd.2 (fun v => D v ∨ v = vb.1) hD1
      (show (clobberAll ps rest s1).run os1 = _ from h2)
    refine ⟨c1 ++ c2, by rw [e2, e1]; simp, ?_⟩
    refine (d1.trans d2 b5 (fun v h => h)).weaken ?_
    rintro v (h | h)
    · rw [h]; simp
    · simp only [List.map_cons, List.mem_cons]; exact Or.inr h

theorem clobberPhase_rd {s : Rebuild w} (ps : List (Rebuild w)) (sub : Rebuild w) (L : OptLoop w)
    (C : List Int) (hwf : Wf s) (hsw : Sorted sub.written) {os os' : Orders} {s' : Rebuild w}
    (hr : (clobberPhase s ps sub L C).run os = .ok (s', os')) :
    ∃ comps : List (List (Int × Expr w)), s'.insts = s.insts ++ comps.map Instr.calc ∧
      RdC (fun _ => False) (ClobSet L C sub) s s' comps := by
  rw [clobberPhase_eq] at hr
  cases hne : L.noEffect with
  | true =>
    rw [hne] at hr
    simp only [Bool.not_true, Bool.false_eq_true, if_false] at hr
    rw [run_pure] at hr
    cases hr
    exact ⟨[], by simp, RdC.refl _ _ s⟩
  | false =>
    rw [hne] at hr
    simp only [Bool.not_false, if_true] at hr
    obtain ⟨i1, i2, _⟩ := cfold_spec ps L C sub.written (s, []) hwf
    have hperm := Expr.stableSort_perm (fun (a b : Int × Bool) => decide (a.1 ≤ b.1))
      (sub.written.foldl (cfold L C) (s, [])).2
    have hsnd := cfold_snd L C sub.written (s, [])
    simp only [List.nil_append] at hsnd
    have hnd0 : ((sub.written.foldl (cfold L C) (s, [])).2.map (·.1)).Nodup := by
      rw [hsnd, List.map_map]
      have hsl : ((sub.written.filter (fun vk => !C.contains vk.1)).map
          ((fun x : Int × Bool => x.1) ∘ fun vk : Int × OptWrite w => (vk.1, vk.2.isMaybe || !L.atLeastOnce))).Sublist
          (sub.written.map (·.1)) := by
        have : ((fun x : Int × Bool => x.1) ∘ fun vk : Int × OptWrite w =>
            (vk.1, vk.2.isMaybe || !L.atLeastOnce)) = (fun vk : Int × OptWrite w => vk.1) := rfl
        rw [this]
        exact List.Sublist.map _ List.filter_sublist
      exact List.Nodup.sublist hsl (nodup_keys_of_sorted hsw)
    have hnd : ((Expr.stableSort (fun (a b : Int × Bool) => decide (a.1 ≤ b.1))
        (sub.written.foldl (cfold L C) (s, [])).2).map (·.1)).Nodup :=
      (List.Perm.nodup_iff (hperm.map _)).2 hnd0
    obtain ⟨comps, e, d⟩ := clobberAll_rdD ps _ i1 hnd (fun _ => False) (fun _ h => absurd h id) hr
    refine ⟨comps, by rw [e, i2.2.2.2.2.2.2.2.2.1], ?_⟩
    refine (d.congr_left i2.2.2.2.2.2.2.2.1).weaken ?_
    intro v hm
    obtain ⟨vb, hvb, e'⟩ := List.mem_map.1 hm
    rw [hperm.mem_iff, hsnd] at hvb
    obtain ⟨vk, hvk, e''⟩ := List.mem_map.1 hvb
    obtain ⟨hvk1, hvk2⟩ := List.mem_filter.1 hvk
    refine ⟨hne, vk, hvk1, ?_, ?_⟩
    · rw [← e', ← e'']
    · rw [← e', ← e'']
      simpa using hvk2

end OptProof
end Hpbf
