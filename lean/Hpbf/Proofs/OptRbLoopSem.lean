/-
Rebuild-round proofs: generic facts about `Exec` of ONE loop / `ifnz` instruction.
1. the loop seen through its heads (`Head`);
2. a loop / `ifnz` that is executed exactly once, or skipped;
3. a loop is an `ifnz` around itself;
4. no terminating run ⇔ no exit head.
-/
import Hpbf.Proofs.OptRbLoopDefs

namespace Hpbf
namespace OptProof
open Opt OptSem Ir

variable {w : Nat}

/-! ### transport of `Sim` along equivalences of `Exec` -/

theorem Sim.congr {Q : State w → State w → Prop} {a a' b b' : List (Instr w)} {σS σE : State w}
    (ha : ∀ out, Exec a σS out ↔ Exec a' σS out) (hb : ∀ out, Exec b σE out ↔ Exec b' σE out)
    (h : Sim Q a' b' σS σE) : Sim Q a b σS σE where
  finL := fun x hx => let ⟨y, hy, hq⟩ := h.finL x ((ha _).1 hx); ⟨y, (hb _).2 hy, hq⟩
  stopL := fun x hx => let ⟨y, hy, hq⟩ := h.stopL x ((ha _).1 hx); ⟨y, (hb _).2 hy, hq⟩
  partL := fun t ht => (hb _).2 (h.partL t ((ha _).1 ht))
  finR := fun y hy => let ⟨x, hx, hq⟩ := h.finR y ((hb _).1 hy); ⟨x, (ha _).2 hx, hq⟩
  stopR := fun y hy => let ⟨x, hx, hq⟩ := h.stopR y ((hb _).1 hy); ⟨x, (ha _).2 hx, hq⟩
  partR := fun t ht => (ha _).2 (h.partR t ((hb _).1 ht))

/-! ### 1. the loop seen through its heads -/

theorem head_trans {c sh : Int} {body : List (Instr w)} {σ σk σj : State w} {k j : Nat}
    (h1 : Head c sh body σ k σk) (h2 : Head c sh body σk j σj) : Head c sh body σ (k + j) σj := by
  induction h2 with
  | zero => exact h1
  | succ _ hnz hb ih => exact .succ ih hnz hb

/-- prepend one iteration -/
theorem head_cons {c sh : Int} {body : List (Instr w)} {σ σ1 x : State w} {k : Nat}
    (hnz : σ.rd c ≠ 0#w) (hb : Exec body σ (.fin σ1)) (h : Head c sh body (σ1.mov sh) k x) :
    Head c sh body σ (k + 1) x := by
  have h1 : Head c sh body σ (0 + 1) (σ1.mov sh) := .succ .zero hnz hb
  have := head_trans h1 h
  rwa [Nat.zero_add, Nat.add_comm] at this

theorem head_det {c sh : Int} {body : List (Instr w)} {σ a b : State w} {k : Nat}
    (h1 : Head c sh body σ k a) (h2 : Head c sh body σ k b) : a = b := by
  induction h1 generalizing b with
  | zero => cases h2; rfl
  | succ _ _ hb ih =>
    cases h2 with
    | succ h2' _ hb' =>
      cases ih h2'
      cases exec_fin_det hb hb'
      rfl

/-- whatever the loop does from a head, it does from the start -/
theorem head_exec {c sh : Int} {body : List (Instr w)} {o : Bool} {σ σk : State w} {k : Nat} {out : Out w}
    (h : Head c sh body σ k σk) : Exec [.loop c sh body o] σk out → Exec [.loop c sh body o] σ out := by
  induction h generalizing out with
  | zero => exact id
  | succ _ hnz hb ih => intro hx; exact ih (.loopIter hnz hb hx)

theorem head_exec_fin {c sh : Int} {body : List (Instr w)} {o : Bool} {σ σk : State w} {k : Nat}
    (h : Head c sh body σ k σk) (hz : σk.rd c = 0#w) : Exec [.loop c sh body o] σ (.fin σk) :=
  head_exec h (.loopSkip hz (.nil _))

theorem head_exec_stop {c sh : Int} {body : List (Instr w)} {o : Bool} {σ σk x : State w} {k : Nat}
    (h : Head c sh body σ k σk) (hnz : σk.rd c ≠ 0#w) (hb : Exec body σk (.stop x)) :
    Exec [.loop c sh body o] σ (.stop x) :=
  head_exec h (.loopIn hnz hb rfl)

theorem head_exec_part {c sh : Int} {body : List (Instr w)} {o : Bool} {σ σk : State w} {k : Nat}
    {t : List Ev} (h : Head c sh body σ k σk) (hnz : σk.rd c ≠ 0#w) (hb : Exec body σk (.part t)) :
    Exec [.loop c sh body o] σ (.part t) :=
  head_exec h (.loopIn hnz hb rfl)

/-- the run can be cut at every head -/
theorem head_exec_cut {c sh : Int} {body : List (Instr w)} {o : Bool} {σ σk : State w} {k : Nat}
    (h : Head c sh body σ k σk) : Exec [.loop c sh body o] σ (.part σk.trace) :=
  head_exec h (.cut _ _)

/-- what an observation `out` of the loop means at the last head `σk` it passes -/
def HeadObs (c : Int) (body : List (Instr w)) (σk : State w) : Out w → Prop
  | .fin x => x = σk ∧ σk.rd c = 0#w
  | .stop x => σk.rd c ≠ 0#w ∧ Exec body σk (.stop x)
  | .part t => t = σk.trace ∨ (σk.rd c ≠ 0#w ∧ Exec body σk (.part t))

theorem exec_loop_head {c sh : Int} {body : List (Instr w)} {o : Bool} {l : List (Instr w)} {σ : State w}
    {out : Out w} (h : Exec l σ out) :
    l = [.loop c sh body o] → ∃ k σk, Head c sh body σ k σk ∧ HeadObs c body σk out := by
  induction h with
  | cut => intro _; exact ⟨0, _, .zero, Or.inl rfl⟩
  | loopSkip hz hr =>
    intro e; cases e
    cases hr with
    | cut => exact ⟨0, _, .zero, Or.inl rfl⟩
    | nil => exact ⟨0, _, .zero, rfl, hz⟩
  | loopIter hnz hb _ _ ih =>
    intro e; cases e
    obtain ⟨k, σk, hh, ho⟩ := ih rfl
    exact ⟨k + 1, σk, head_cons hnz hb hh, ho⟩
  | @loopIn _ _ _ _ _ _ out hnz hb hnf =>
    intro e; cases e
    cases out with
    | fin _ => cases hnf
    | stop x => exact ⟨0, _, .zero, hnz, hb⟩
    | part t => exact ⟨0, _, .zero, Or.inr ⟨hnz, hb⟩⟩
  | _ => intro e; cases e

theorem exec_loop_fin_head {c sh : Int} {body : List (Instr w)} {o : Bool} {σ x : State w}
    (h : Exec [.loop c sh body o] σ (.fin x)) : ∃ k, Head c sh body σ k x ∧ x.rd c = 0#w := by
  obtain ⟨k, σk, hh, rfl, hz⟩ := exec_loop_head h rfl
  exact ⟨k, hh, hz⟩

theorem exec_loop_stop_head {c sh : Int} {body : List (Instr w)} {o : Bool} {σ x : State w}
    (h : Exec [.loop c sh body o] σ (.stop x)) :
    ∃ k σk, Head c sh body σ k σk ∧ σk.rd c ≠ 0#w ∧ Exec body σk (.stop x) :=
  exec_loop_head h rfl

theorem exec_loop_part_head {c sh : Int} {body : List (Instr w)} {o : Bool} {σ : State w} {t : List Ev}
    (h : Exec [.loop c sh body o] σ (.part t)) :
    ∃ k σk, Head c sh body σ k σk ∧ (t = σk.trace ∨ (σk.rd c ≠ 0#w ∧ Exec body σk (.part t))) :=
  exec_loop_head h rfl

/-! ### 2. a loop / `ifnz` that is executed exactly once, or skipped -/

/-- observations of "run `body` once, then move by `sh`" -/
def OnceObs (body : List (Instr w)) (sh : Int) (σ : State w) (out : Out w) : Prop :=
  (out.isFin = false ∧ Exec body σ out) ∨
    ∃ σ1, Exec body σ (.fin σ1) ∧ (out = .fin (σ1.mov sh) ∨ out = .part σ1.trace)

theorem sim_of_onceObs {Q : State w → State w → Prop} {sh : Int} {src body tgt : List (Instr w)}
    {σ σE : State w} (hs : ∀ out, Exec src σ out ↔ OnceObs body sh σ out)
    (h : Sim (fun a b => Q (a.mov sh) b) body tgt σ σE) : Sim Q src tgt σ σE where
  finL := fun x hx => by
    rcases (hs _).1 hx with ⟨hnf, _⟩ | ⟨σ1, hb, e | e⟩
    · cases hnf
    · cases e; exact h.finL σ1 hb
    · cases e
  stopL := fun x hx => by
    rcases (hs _).1 hx with ⟨_, hb⟩ | ⟨σ1, hb, e | e⟩
    · exact h.stopL x hb
    · cases e
    · cases e
  partL := fun t ht => by
    rcases (hs _).1 ht with ⟨_, hb⟩ | ⟨σ1, hb, e | e⟩
    · exact h.partL t hb
    · cases e
    · cases e; exact h.partL _ (exec_fin_part hb)
  finR := fun y hy => by
    obtain ⟨σ1, hb, hq⟩ := h.finR y hy
    exact ⟨σ1.mov sh, (hs _).2 (Or.inr ⟨σ1, hb, Or.inl rfl⟩), hq⟩
  stopR := fun y hy => by
    obtain ⟨x, hb, hq⟩ := h.stopR y hy
    exact ⟨x, (hs _).2 (Or.inl ⟨rfl, hb⟩), hq⟩
  partR := fun t ht => (hs _).2 (Or.inl ⟨rfl, h.partR t ht⟩)

theorem exec_loop_once_iff {c sh : Int} {body : List (Instr w)} {o : Bool} {σ : State w}
    (hne : σ.rd c ≠ 0#w) (hz : ∀ σ1, Exec body σ (.fin σ1) → (σ1.mov sh).rd c = 0#w) (out : Out w) :
    Exec [.loop c sh body o] σ out ↔ OnceObs body sh σ out := by
  constructor
  · intro h
    cases h with
    | cut => exact Or.inl ⟨rfl, .cut _ _⟩
    | loopSkip hz' _ => exact absurd hz' hne
    | loopIter _ hb hl =>
      have hz1 := hz _ hb
      cases hl with
      | cut => exact Or.inr ⟨_, hb, Or.inr rfl⟩
      | loopSkip _ hr =>
        cases hr with
        | cut => exact Or.inr ⟨_, hb, Or.inr rfl⟩
        | nil => exact Or.inr ⟨_, hb, Or.inl rfl⟩
      | loopIter hnz' _ _ => exact absurd hz1 hnz'
      | loopIn hnz' _ _ => exact absurd hz1 hnz'
    | loopIn _ hb hnf => exact Or.inl ⟨hnf, hb⟩
  · rintro (⟨hnf, hb⟩ | ⟨σ1, hb, rfl | rfl⟩)
    · exact .loopIn hne hb hnf
    · exact .loopIter hne hb (.loopSkip (hz _ hb) (.nil _))
    · exact .loopIter hne hb (.cut _ (σ1.mov sh))

theorem exec_ifnz_once_iff {c sh : Int} {body : List (Instr w)} {σ : State w}
    (hne : σ.rd c ≠ 0#w) (out : Out w) :
    Exec [.ifnz c sh body] σ out ↔ OnceObs body sh σ out := by
  constructor
  · intro h
    cases h with
    | cut => exact Or.inl ⟨rfl, .cut _ _⟩
    | ifSkip hz' _ => exact absurd hz' hne
    | ifIter _ hb hr =>
      cases hr with
      | cut => exact Or.inr ⟨_, hb, Or.inr rfl⟩
      | nil => exact Or.inr ⟨_, hb, Or.inl rfl⟩
    | ifIn _ hb hnf => exact Or.inl ⟨hnf, hb⟩
  · rintro (⟨hnf, hb⟩ | ⟨σ1, hb, rfl | rfl⟩)
    · exact .ifIn hne hb hnf
    · exact .ifIter hne hb (.nil _)
    · exact .ifIter hne hb (.cut _ (σ1.mov sh))

theorem Sim.of_loop_once {Q : State w → State w → Prop} {c sh : Int} {body tgt : List (Instr w)} {o : Bool}
    {σ σE : State w}
    (hne : σ.rd c ≠ 0#w) (hz : ∀ σ1, Exec body σ (.fin σ1) → (σ1.mov sh).rd c = 0#w)
    (h : Sim (fun a b => Q (a.mov sh) b) body tgt σ σE) : Sim Q [.loop c sh body o] tgt σ σE :=
  sim_of_onceObs (exec_loop_once_iff hne hz) h

theorem Sim.of_ifnz_once {Q : State w → State w → Prop} {c sh : Int} {body tgt : List (Instr w)}
    {σ σE : State w} (hne : σ.rd c ≠ 0#w)
    (h : Sim (fun a b => Q (a.mov sh) b) body tgt σ σE) : Sim Q [.ifnz c sh body] tgt σ σE :=
  sim_of_onceObs (exec_ifnz_once_iff hne) h

theorem exec_loop_skip_iff {c sh : Int} {body : List (Instr w)} {o : Bool} {σ : State w}
    (hz : σ.rd c = 0#w) (out : Out w) : Exec [.loop c sh body o] σ out ↔ Exec [] σ out := by
  constructor
  · intro h
    cases h with
    | cut => exact .cut _ _
    | loopSkip _ hr => exact hr
    | loopIter hnz _ _ => exact absurd hz hnz
    | loopIn hnz _ _ => exact absurd hz hnz
  · intro h
    cases h with
    | cut => exact .cut _ _
    | nil => exact .loopSkip hz (.nil _)

theorem exec_ifnz_skip_iff {c sh : Int} {body : List (Instr w)} {σ : State w}
    (hz : σ.rd c = 0#w) (out : Out w) : Exec [.ifnz c sh body] σ out ↔ Exec [] σ out := by
  constructor
  · intro h
    cases h with
    | cut => exact .cut _ _
    | ifSkip _ hr => exact hr
    | ifIter hnz _ _ => exact absurd hz hnz
    | ifIn hnz _ _ => exact absurd hz hnz
  · intro h
    cases h with
    | cut => exact .cut _ _
    | nil => exact .ifSkip hz (.nil _)

theorem Sim.of_loop_skip {Q : State w → State w → Prop} {c sh : Int} {body : List (Instr w)} {o : Bool}
    {σ σE : State w} (hz : σ.rd c = 0#w) (hQ : Q σ σE) (ht : σE.trace = σ.trace) :
    Sim Q [.loop c sh body o] [] σ σE :=
  Sim.congr (exec_loop_skip_iff hz) (fun _ => Iff.rfl) (Sim.nil hQ ht)

theorem Sim.of_ifnz_skip {Q : State w → State w → Prop} {c sh : Int} {body : List (Instr w)}
    {σ σE : State w} (hz : σ.rd c = 0#w) (hQ : Q σ σE) (ht : σE.trace = σ.trace) :
    Sim Q [.ifnz c sh body] [] σ σE :=
  Sim.congr (exec_ifnz_skip_iff hz) (fun _ => Iff.rfl) (Sim.nil hQ ht)

/-! ### 3. a loop is an `ifnz` around itself -/

theorem mov_zero (σ : State w) : σ.mov 0 = σ := by
  cases σ
  simp [State.mov]

theorem exec_loop_as_if {c sh : Int} {body : List (Instr w)} {o o' : Bool} (σ : State w) (out : Out w) :
    Exec [.ifnz c 0 [.loop c sh body o']] σ out ↔ Exec [.loop c sh body o] σ out := by
  constructor
  · intro h
    cases h with
    | cut => exact .cut _ _
    | ifSkip hz hr => exact (exec_loop_skip_iff hz out).2 hr
    | @ifIter _ _ _ _ _ σ1 _ _ hb hr =>
      cases hr with
      | cut => exact exec_fin_part (a := σ1) (exec_once_irrel hb)
      | nil => rw [mov_zero]; exact exec_once_irrel hb
    | ifIn _ hb _ => exact exec_once_irrel hb
  · intro h
    by_cases hz : σ.rd c = 0#w
    · exact .ifSkip hz ((exec_loop_skip_iff hz out).1 h)
    · cases out with
      | fin x =>
        have : Exec [] (x.mov 0) (.fin x) := by rw [mov_zero]; exact .nil _
        exact .ifIter hz (exec_once_irrel h) this
      | stop x => exact .ifIn hz (exec_once_irrel h) rfl
      | part t => exact .ifIn hz (exec_once_irrel h) rfl

theorem Sim.loop_as_if {c sh : Int} {body : List (Instr w)} {o o' : Bool} (σ : State w) :
    Sim (fun a b => a = b) [.loop c sh body o] [.ifnz c 0 [.loop c sh body o']] σ σ :=
  Sim.congr (fun _ => Iff.rfl) (exec_loop_as_if σ) (Sim.refl_of [.loop c sh body o] σ (fun _ => rfl))

/-! ### 4. no terminating run ⇔ no exit head -/

theorem loop_no_fin_iff {c sh : Int} {body : List (Instr w)} {o : Bool} {σ : State w} :
    (∀ x, ¬ Exec [.loop c sh body o] σ (.fin x)) ↔ ∀ k σk, Head c sh body σ k σk → σk.rd c ≠ 0#w := by
  constructor
  · intro h k σk hh hz
    exact h σk (head_exec_fin hh hz)
  · intro h x hx
    obtain ⟨k, hh, hz⟩ := exec_loop_fin_head hx
    exact h k x hh hz

/-! ### axioms -/

#print axioms head_exec_fin
#print axioms exec_loop_fin_head
#print axioms exec_loop_stop_head
#print axioms exec_loop_part_head
#print axioms head_exec_stop
#print axioms head_exec_part
#print axioms head_exec_cut
#print axioms head_trans
#print axioms head_det
#print axioms Sim.of_loop_once
#print axioms Sim.of_ifnz_once
#print axioms Sim.of_loop_skip
#print axioms Sim.of_ifnz_skip
#print axioms mov_zero
#print axioms Sim.loop_as_if
#print axioms loop_no_fin_iff

end OptProof
end Hpbf
