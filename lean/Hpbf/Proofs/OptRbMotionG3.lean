/-
Rebuild-round proofs: copies of `MJ.reads_agree`, `MJ.cond_agree`, `MJ.round`, `heads_fwd`, `heads_bwd`
(`OptRbMotion3.lean`) with the weaker head-guard hypothesis (`am := L.atMostOnce`).  No changed hypotheses (`MJ`,
`MJ.init` are reused).
-/
import Hpbf.Proofs.OptRbMotionG2

namespace Hpbf
namespace OptProof
open Opt OptSem Ir

variable {w : Nat}

section Corr
variable {Gc : State w → Prop} {shP shC shS cS : Int} {bodyS : List (Instr w)}
  {s : Rebuild w} {ps : List (Rebuild w)} {sub0 sub sub1 : Rebuild w} {σS σE : State w} {M0 : Mem w}
  {L : OptLoop w} {C : List Int} {B D A : List (Int × Expr w)} {os os' : Orders} {τ0 : State w}

/-- At every head (the first one only, for a loop that runs at most once) the two loops see the same values in
the cells that are read in the loop. -/
theorem MJ.reads_agree_g (md : MotionData s ps sub sub1 (cS + shP) L C B D A os os')
    (hc : BalChild Gc shP shC shS cS bodyS s ps sub0 sub)
    (hGcH : ∀ k σk, Head cS shS bodyS σS k σk → (L.atMostOnce = true → k = 0) → σk.rd cS ≠ 0#w → Gc σk)
    (hrel : RelAt shP s ps M0 σE σS) {k : Nat} {σ τ : State w}
    (hJ : MJ cS shS shP bodyS σS sub B D τ0 k σ τ) (hk : L.atMostOnce = true → k = 0)
    {r : Int} (hr : (sIns (possibleReads sub) (cS + shP)).contains r = true) :
    memE τ r = memE (σ.mov (-shP)) r := by
  rw [hJ.mem, (run_real_g D τ0 hc hGcH hJ.hd (fun h => by have := hk h; omega)).1]
  cases hamo : L.atMostOnce with
  | true =>
    have := hk hamo
    subst this
    show Mem.par B (memE (σS.mov (-shP))) r = memE (σS.mov (-shP)) r
    exact par_of_not_mem _ _ _ (md.B_none hr)
  | false =>
    exact (md.prefix_at_g τ0 hc hGcH hrel hJ.hd (fun h => by rw [hamo] at h; cases h)).1 k (Nat.le_refl k) r
      (md.reads_notDiffer hamo hr)

/-- The condition cell is read alike. -/
theorem MJ.cond_agree_g (md : MotionData s ps sub sub1 (cS + shP) L C B D A os os')
    (hc : BalChild Gc shP shC shS cS bodyS s ps sub0 sub)
    (hGcH : ∀ k σk, Head cS shS bodyS σS k σk → (L.atMostOnce = true → k = 0) → σk.rd cS ≠ 0#w → Gc σk)
    (hrel : RelAt shP s ps M0 σE σS) {k : Nat} {σ τ : State w}
    (hJ : MJ cS shS shP bodyS σS sub B D τ0 k σ τ) (hk : L.atMostOnce = true → k = 0) :
    τ.rd (cS + shP) = σ.rd cS := by
  have := hJ.reads_agree_g md hc hGcH hrel hk (OptLoop.cond_possibleReads sub (cS + shP))
  show τ.tape.get (τ.ptr + (cS + shP)) = σ.tape.get (σ.ptr + cS)
  have e : memE τ (cS + shP) = τ.tape.get (τ.ptr + (cS + shP)) := rfl
  rw [← e, this]
  show σ.tape.get (σ.ptr + -shP + (cS + shP)) = _
  congr 1; omega

/-- One round keeps the relation. -/
theorem MJ.round_g (md : MotionData s ps sub sub1 (cS + shP) L C B D A os os')
    (hc : BalChild Gc shP shC shS cS bodyS s ps sub0 sub)
    (hGcH : ∀ k σk, Head cS shS bodyS σS k σk → (L.atMostOnce = true → k = 0) → σk.rd cS ≠ 0#w → Gc σk)
    (hrel : RelAt shP s ps M0 σE σS) {k : Nat} {σ τ : State w}
    (hJ : MJ cS shS shP bodyS σS sub B D τ0 k σ τ) (hk : L.atMostOnce = true → k = 0)
    (hne : σ.rd cS ≠ 0#w) :
    Sim (fun a t => MJ cS shS shP bodyS σS sub B D τ0 (k + 1) (a.mov shS) (t.mov 0))
      bodyS (sub.insts ++ [.calc D]) σ τ := by
  have hg := hGcH k σ hJ.hd hk hne
  have hreads : ∀ r ∈ sub.reads, memE τ r = memE (σ.mov (-shP)) r := fun r hr =>
    hJ.reads_agree_g md hc hGcH hrel hk (OptLoop.reads_possibleReads sub (cS + shP) r hr)
  have hcond := hJ.cond_agree_g md hc hGcH hrel hk
  -- the child's code in the two heads
  have hV : ValidG Gc shP sub0 (s :: ps) (σ.mov (-shP)) := ⟨_, σ, hc.valid hg hne, hg⟩
  have hK : ∀ v, memE τ v ≠ memE (σ.mov (-shP)) v → v ∉ sub.reads := fun v hv hr => hv (hreads v hr)
  have hag : AgreeOff (Rest (fun v => memE τ v ≠ memE (σ.mov (-shP)) v) sub0) (σ.mov (-shP)) τ := by
    refine ⟨hJ.ptr.symm, hJ.env.symm, hJ.tr.symm, fun v hv => ?_⟩
    have : ¬ (memE τ v ≠ memE (σ.mov (-shP)) v) := fun h => hv ⟨h, by
      rintro ⟨kk, hkk, _⟩
      rw [hc.w0] at hkk; simp [mGet] at hkk⟩
    exact (Classical.not_not.1 this).symm
  have hf := hc.all.foot hc.ns _ hK _ _ hV hag
  have hfr := hc.all.frame hc.ns _ hK _ _ hV hag
  obtain ⟨hrep, _⟩ := hc.rep hg hne
  have h12 := Sim.trans hrep.fin_strengthen hf.fin_strengthen
  have : Sim (fun a t => MJ cS shS shP bodyS σS sub B D τ0 (k + 1) (a.mov shS) (t.mov 0))
      (bodyS ++ []) (sub.insts ++ [.calc D]) σ τ := by
    refine Sim.append h12 ?_
    rintro a z ⟨y, ⟨⟨hr', hyp⟩, hexa, hexy⟩, hyz, _, hexz⟩
    obtain ⟨m1, m2, m3⟩ := C01Dse.doCalc_meta z D
    obtain ⟨n1, n2, n3, n4, n5⟩ := hc.next hr' hyp
    obtain ⟨pz, _⟩ := hfr z hexz
    refine Sim.of_atomic (atomic_calcs ([] : List (List (Int × Expr w)))) (atomic_calcs [D])
      (hyz.2.2.1.symm.trans hr'.tr.symm) rfl (m3.trans (hyz.2.2.1.symm.trans hr'.tr.symm))
      (m2.trans (hyz.2.1.symm.trans hr'.env.symm)) ?_
    intro _
    have hR : (MCtx.mk cS shS shP bodyS σS sub D τ0).RoundR k σ y := ⟨hJ.hd, hexy⟩
    -- the value of the abstract body at the memory of `τ`
    have hbody : (MCtx.mk cS shS shP bodyS σS sub D τ0).absBody k (memE τ) = memE z := by
      by_cases hme : memE τ = memE (σ.mov (-shP))
      · rw [hme, MCtx.absBody_real hR]
        funext v
        apply hyz.2.2.2 v
        rintro ⟨h, _⟩
        exact h (congrFun hme v)
      · exact MCtx.absBody_T hR ⟨hJ.hd2, hexz, rfl, hJ.ptr, hJ.env, hJ.tr, hreads⟩ hme
    show MJ cS shS shP bodyS σS sub B D τ0 (k + 1) (a.mov shS) ((doCalc z D).mov 0)
    refine ⟨Head.succ hJ.hd hne hexa, ?_, ?_, ?_, ?_, ?_⟩
    · refine Head.succ hJ.hd2 (by rw [hcond]; exact hne) ?_
      exact exec_append.2 (Or.inr ⟨z, hexz, .calc (.nil _)⟩)
    · show (doCalc z D).ptr + 0 = _
      rw [m1, Int.add_zero, pz, n1]; exact hJ.ptr
    · show (doCalc z D).env = _
      rw [m2, n3]; exact hyz.2.1.symm
    · show (doCalc z D).trace = _
      rw [m3, n2]; exact hyz.2.2.1.symm
    · rw [OptLoop.run_succ]
      show memE ((doCalc z D).mov 0) = Mem.par D ((MCtx.mk cS shS shP bodyS σS sub D τ0).absBody k _)
      rw [← hJ.mem, hbody, memE_mov0, memE_doCalc _ _ md.nodup.2.1]
  rw [List.append_nil] at this
  exact this

/-- Every real head has its head of the transformed loop. -/
theorem heads_fwd_g (md : MotionData s ps sub sub1 (cS + shP) L C B D A os os')
    (hc : BalChild Gc shP shC shS cS bodyS s ps sub0 sub)
    (hGcH : ∀ k σk, Head cS shS bodyS σS k σk → (L.atMostOnce = true → k = 0) → σk.rd cS ≠ 0#w → Gc σk)
    (hrel : RelAt shP s ps M0 σE σS) (hτ0 : τ0 = doCalc (σS.mov (-shP)) B)
    {k : Nat} {σ : State w} (hh : Head cS shS bodyS σS k σ) (hk : L.atMostOnce = true → k ≤ 1) :
    ∃ τ, MJ cS shS shP bodyS σS sub B D τ0 k σ τ := by
  induction hh with
  | zero => exact ⟨τ0, MJ.init md hτ0⟩
  | @succ k' σk' σ' hprev hne hex ih =>
    obtain ⟨τ, hJ⟩ := ih (fun h => by have := hk h; omega)
    have hs := hJ.round_g md hc hGcH hrel (fun h => by have := hk h; omega) hne
    obtain ⟨t, _, hq⟩ := hs.finL σ' hex
    exact ⟨t.mov 0, hq⟩

/-- Every head of the transformed loop has its real head. -/
theorem heads_bwd_g (md : MotionData s ps sub sub1 (cS + shP) L C B D A os os')
    (hc : BalChild Gc shP shC shS cS bodyS s ps sub0 sub)
    (hGcH : ∀ k σk, Head cS shS bodyS σS k σk → (L.atMostOnce = true → k = 0) → σk.rd cS ≠ 0#w → Gc σk)
    (hrel : RelAt shP s ps M0 σE σS) (hτ0 : τ0 = doCalc (σS.mov (-shP)) B)
    {k : Nat} {τ : State w} (hh : Head (cS + shP) 0 (sub.insts ++ [.calc D]) τ0 k τ)
    (hk : L.atMostOnce = true → k ≤ 1) :
    ∃ σ, MJ cS shS shP bodyS σS sub B D τ0 k σ τ := by
  induction hh with
  | zero => exact ⟨σS, MJ.init md hτ0⟩
  | @succ k' τk' τ' hprev hne hex ih =>
    obtain ⟨σ, hJ⟩ := ih (fun h => by have := hk h; omega)
    have hk0 : L.atMostOnce = true → k' = 0 := fun h => by have := hk h; omega
    have hneS : σ.rd cS ≠ 0#w := by rw [← hJ.cond_agree_g md hc hGcH hrel hk0]; exact hne
    have hs := hJ.round_g md hc hGcH hrel hk0 hneS
    obtain ⟨a, _, hq⟩ := hs.finR τ' hex
    exact ⟨a.mov shS, hq⟩

end Corr

end OptProof
end Hpbf
