/-
Rebuild-round proofs, stage 2: vocabulary for nested blocks.
* `StepAt sh sh'`: `StepOk` with explicit pointer offsets of the source program (before / after).
* `ChildRep`: the rebuilt child state represents the body of the source loop.
* `Head`: the states at the successive heads of a loop; semantic meaning of the flags of an `OptLoop`
  (`LoopFacts`) for a source loop started in a given state.
* generic lemmas: `Sim.calcs_right`, `Sim.fin_strengthen`, `Sim.trans`, `not_bad_loop`, `not_bad_ifnz`.
-/
import Hpbf.Proofs.OptRbLoopCut
import Hpbf.Proofs.OptRbAdeq2
import Hpbf.Proofs.OptLoopTop

namespace Hpbf
namespace OptProof
open Opt OptSem Ir

variable {w : Nat}

/-- The child state `sub` (with parent chain `pc'`) represents the source body `body`: from every entry pair
related through the fresh child state `sub0` (chain `pc`) whose source state satisfies the guard `Gc` (what is
known about the source states in which the body is really entered), `body` and `sub.insts` behave alike and end
in states related through `sub`. -/
def ChildRep (Gc : State w → Prop) (sh sh' : Int) (pc : List (Rebuild w)) (sub0 : Rebuild w)
    (pc' : List (Rebuild w)) (sub : Rebuild w) (body : List (Instr w)) : Prop :=
  ∀ M0 σE σS, RelAt sh sub0 pc M0 σE σS → Gc σS →
    Sim (StepQ sh' pc' sub M0 σE) body sub.insts σS σE ∧ ¬ Bad sub.insts σE

/-- The states at the successive heads of the loop `loop c sh body`. -/
inductive Head (c sh : Int) (body : List (Instr w)) (σ : State w) : Nat → State w → Prop
  | zero : Head c sh body σ 0 σ
  | succ {k : Nat} {σk σ' : State w} : Head c sh body σ k σk → σk.rd c ≠ 0#w → Exec body σk (.fin σ') →
      Head c sh body σ (k + 1) (σ'.mov sh)

/-! ### generic facts about `Sim` and `Bad` -/

/-- Emitted `calc` groups in front of the target. -/
theorem Sim.calcs_right {Q : State w → State w → Prop} {a b : List (Instr w)} {σS σE : State w}
    (gs : List (List (Int × Expr w))) (h : Sim Q a b σS (gs.foldl doCalc σE)) :
    Sim Q a (gs.map Instr.calc ++ b) σS σE := by
  refine ⟨?_, ?_, ?_, ?_, ?_, ?_⟩
  · intro x hx
    obtain ⟨y, hy, hq⟩ := h.finL x hx
    exact ⟨y, (exec_calcs_iff gs b σE _).2 hy, hq⟩
  · intro x hx
    obtain ⟨y, hy, hq⟩ := h.stopL x hx
    exact ⟨y, (exec_calcs_iff gs b σE _).2 hy, hq⟩
  · intro t ht
    exact (exec_calcs_iff gs b σE _).2 (h.partL t ht)
  · intro y hy
    exact h.finR y ((exec_calcs_iff gs b σE _).1 hy)
  · intro y hy
    exact h.stopR y ((exec_calcs_iff gs b σE _).1 hy)
  · intro t ht
    exact h.partR t ((exec_calcs_iff gs b σE _).1 ht)

theorem bad_calcs_iff (gs : List (List (Int × Expr w))) (rest : List (Instr w)) (σ : State w) :
    Bad (gs.map Instr.calc ++ rest) σ ↔ Bad rest (gs.foldl doCalc σ) := by
  induction gs generalizing σ with
  | nil => rfl
  | cons g gs ih =>
    simp only [List.map_cons, List.cons_append, List.foldl_cons]
    rw [← ih]
    constructor
    · intro h; cases h with | «calc» h => exact h
    · exact Bad.calc

theorem Sim.trans {Q1 Q2 : State w → State w → Prop} {a b c : List (Instr w)} {σ1 σ2 σ3 : State w}
    (h1 : Sim Q1 a b σ1 σ2) (h2 : Sim Q2 b c σ2 σ3) :
    Sim (fun x z => ∃ y, Q1 x y ∧ Q2 y z) a c σ1 σ3 := by
  refine ⟨?_, ?_, ?_, ?_, ?_, ?_⟩
  · intro x hx
    obtain ⟨y, hy, hq⟩ := h1.finL x hx
    obtain ⟨z, hz, hq'⟩ := h2.finL y hy
    exact ⟨z, hz, y, hq, hq'⟩
  · intro x hx
    obtain ⟨y, hy, t1, e1⟩ := h1.stopL x hx
    obtain ⟨z, hz, t2, e2⟩ := h2.stopL y hy
    exact ⟨z, hz, t2.trans t1, e2.trans e1⟩
  · intro t ht
    exact h2.partL t (h1.partL t ht)
  · intro z hz
    obtain ⟨y, hy, hq'⟩ := h2.finR z hz
    obtain ⟨x, hx, hq⟩ := h1.finR y hy
    exact ⟨x, hx, y, hq, hq'⟩
  · intro z hz
    obtain ⟨y, hy, t2, e2⟩ := h2.stopR z hz
    obtain ⟨x, hx, t1, e1⟩ := h1.stopR y hy
    exact ⟨x, hx, t2.trans t1, e2.trans e1⟩
  · intro t ht
    exact h1.partR t (h2.partR t ht)

/-- A target loop whose `once` flag is justified and whose body never goes bad at a related head. -/
theorem not_bad_loop {J : State w → State w → Prop} {cS shS cE shE : Int} {bodyS bodyE : List (Instr w)}
    (hbody : ∀ σS σE, J σS σE → σE.rd cE ≠ 0#w →
       Sim (fun σS' σE' => J (σS'.mov shS) (σE'.mov shE)) bodyS bodyE σS σE ∧ ¬ Bad bodyE σE)
    {σS σE : State w} {oE : Bool} (h : J σS σE) (honce : oE = true → σE.rd cE ≠ 0#w) :
    ¬ Bad [.loop cE shE bodyE oE] σE := by
  intro hb
  generalize hl : [Instr.loop cE shE bodyE oE] = l at hb
  induction hb generalizing σS oE with
  | here h0 =>
    simp only [List.cons.injEq, Instr.loop.injEq] at hl
    obtain ⟨⟨rfl, rfl, rfl, rfl⟩, _⟩ := hl
    exact honce rfl h0
  | outOk _ _ _ => cases hl
  | inOk _ _ _ => cases hl
  | «calc» _ _ => cases hl
  | loopSkip _ hb' _ =>
    simp only [List.cons.injEq, Instr.loop.injEq] at hl
    obtain ⟨_, rfl⟩ := hl
    cases hb'
  | loopIter hne hex _ ih =>
    simp only [List.cons.injEq, Instr.loop.injEq] at hl
    obtain ⟨⟨rfl, rfl, rfl, rfl⟩, rfl⟩ := hl
    obtain ⟨x, _, hJ⟩ := (hbody _ _ h hne).1.finR _ hex
    exact ih hJ (fun hf => by cases hf) rfl
  | loopIn hne hb' _ =>
    simp only [List.cons.injEq, Instr.loop.injEq] at hl
    obtain ⟨⟨rfl, rfl, rfl, rfl⟩, rfl⟩ := hl
    exact (hbody _ _ h hne).2 hb'
  | ifSkip _ _ _ => cases hl
  | ifIter _ _ _ _ => cases hl
  | ifIn _ _ _ => cases hl

theorem not_bad_ifnz {cE shE : Int} {bodyE : List (Instr w)} {σE : State w}
    (hbody : σE.rd cE ≠ 0#w → ¬ Bad bodyE σE) : ¬ Bad [.ifnz cE shE bodyE] σE := by
  intro hb
  cases hb with
  | ifSkip _ hb' => cases hb'
  | ifIter _ _ hb' => cases hb'
  | ifIn hne hb' => exact hbody hne hb'

end OptProof
end Hpbf
