/-
Rebuild-round proofs, stage 4 (rounds that use the previous analysis): shared definitions.

* `subsOf s`: the nodes of the previous analysis that `s` has not popped yet, in the order they are popped.
* `PartnerG`: the guard of the child of the TRANSFORMED loop in `finishLoop` (after loop motion): the state has a
  real partner (a head of the real loop that satisfies the child's guard and enters the body) with the same
  pointer / environment / trace which agrees with it on the cells in `R` (the cells the loop reads).
* `HeadV`: the guard of the child of a block: the heads of the block, with non-zero condition, from the
  parent-valid guarded states.
* `InvA`: the static invariants of a rebuild state (any level).
-/
import Hpbf.Proofs.OptRbAnalIn
import Hpbf.Proofs.OptRbPV2
import Hpbf.Proofs.OptRbFootG4
import Hpbf.Proofs.OptRbAnalG

namespace Hpbf
namespace OptProof
open Opt OptSem Ir

variable {w : Nat}

/-- The nodes of the previous analysis still to be popped, in pop order. -/
def subsOf (s : Rebuild w) : List (OptAnalysis w) :=
  match s.anal with
  | some a => a.subBlocks.reverse
  | none => []

/-- The guard of the child of the transformed loop. -/
def PartnerG (Gc : State w → Prop) (shP cS : Int) (R : List Int) : State w → Prop :=
  fun τ => ∃ σ, Gc σ ∧ σ.rd cS ≠ 0#w ∧ AgreeOff (fun v => v ∉ R) (σ.mov (-shP)) τ

/-- The fresh state of the child of the transformed loop: no analysis, unknown parent. -/
def freshChildU (sh cond : Int) : Rebuild w := Rebuild.new sh (some cond) .unknown none

/-- The heads of a block, with non-zero condition, from the guarded states that are valid for the parent. -/
def HeadV (G : State w → Prop) (s : Rebuild w) (ps : List (Rebuild w)) (isLoop : Bool) (c sh : Int)
    (body : List (Instr w)) : State w → Prop :=
  fun σk => σk.rd c ≠ 0#w ∧ ∃ M0 σE σS, RelAt s.shift s ps M0 σE σS ∧ G σS ∧
    if isLoop then ∃ k, Head c sh body σS k σk else σk = σS

theorem HeadV.headG {G : State w → Prop} {s : Rebuild w} {ps : List (Rebuild w)} {isLoop : Bool} {c sh : Int}
    {body : List (Instr w)} {σk : State w} (h : HeadV G s ps isLoop c sh body σk) :
    HeadG G isLoop c sh body σk := by
  obtain ⟨hne, M0, σE, σS, _, hG, hk⟩ := h
  exact ⟨hne, σS, hG, hk⟩

/-- The static invariants of a state. -/
structure InvA (s : Rebuild w) : Prop where
  wf : Wf s
  canon : CanonSt s
  known : KnownVars s
  reads : OptLoop.SAsc s.reads

end OptProof
end Hpbf
