/-
Loop optimisations of `Hpbf/Opt.lean`, additions (2): the VARIABLES of the `during` and `after` entries produced by
`loopMotion` are variables of the pending expression they come from (`motionCase_during_vars`,
`motionAllE_D_vars`, `motionAllE_A_vars`).
-/
import Hpbf.Proofs.OptLoopExtra

namespace Hpbf.OptLoop
open Hpbf Opt OptSem Expr

variable {w : Nat}

/-- The parts of the `during` accumulator of the loop over the linear parts come from the initial accumulator
or from the `initial` components of the linear parts (purely syntactic part of `triFold_spec`). -/
theorem triFold_vars (expr : Expr w) (linears : List (Expr w × Expr w)) (ba0 : Expr w × Expr w) :
    ∀ q ∈ (linears.foldl (triFoldStep expr) ba0).2,
      (∃ t ∈ ba0.2, q.vars = t.vars) ∨ ∃ il ∈ linears, ∃ t ∈ il.1, q.vars = t.vars := by
  induction linears generalizing ba0 with
  | nil => exact fun q hq => Or.inl ⟨q, hq, rfl⟩
  | cons il linears ih =>
    rw [List.foldl_cons]
    intro q hq
    rcases ih (triFoldStep expr ba0 il) q hq with ⟨t, ht, e⟩ | ⟨il', hil', t, ht, e⟩
    · unfold triFoldStep at ht
      simp only at ht
      split at ht
      · simp only at ht
        rcases mem_add_vars ht with ⟨t', ht', e'⟩ | ⟨t', ht', e'⟩
        · exact Or.inl ⟨t', ht', e.trans e'⟩
        · exact Or.inr ⟨il, List.mem_cons_self, t', ht', e.trans e'⟩
      · exact Or.inl ⟨t, ht, e⟩
    · exact Or.inr ⟨il', List.mem_cons_of_mem _ hil', t, ht, e⟩

/-- Variables of a sum. -/
theorem variables_add (a b : Expr w) :
    ∀ x ∈ Expr.variables (Expr.add a b), x ∈ Expr.variables a ∨ x ∈ Expr.variables b := by
  intro x hx
  obtain ⟨q, hq, hxq⟩ := mem_variables.1 hx
  rcases mem_add_vars hq with ⟨t, ht, e⟩ | ⟨t, ht, e⟩
  · exact Or.inl (mem_variables.2 ⟨t, ht, e ▸ hxq⟩)
  · exact Or.inr (mem_variables.2 ⟨t, ht, e ▸ hxq⟩)

theorem foldl_lastCoef (e : Expr w) (v : Int) (m0 : BitVec w) :
    e.foldl (fun m p => if p.vars == [v] then p.coef else m) m0 = m0 ∨ ∃ q ∈ e, q.vars = [v] := by
  induction e generalizing m0 with
  | nil => exact Or.inl rfl
  | cons p e ih =>
    rw [List.foldl_cons]
    by_cases hp : p.vars = [v]
    · exact Or.inr ⟨p, List.mem_cons_self, hp⟩
    · have hb : (p.vars == [v]) = false := by simpa using hp
      simp only [hb, Bool.false_eq_true, if_false]
      rcases ih m0 with h | ⟨q, hq, hqv⟩
      · exact Or.inl h
      · exact Or.inr ⟨q, List.mem_cons_of_mem _ hq, hqv⟩

/-- A non-zero multiple returned by `prodIncOf` means that the expression has a part `[v]`; in particular it
mentions `v`. -/
theorem prodIncOf_mem_of_ne_zero {e r : Expr w} {v : Int} {m : BitVec w}
    (h : Expr.prodIncOf e v = some (r, m)) (hm : m ≠ 0#w) : v ∈ Expr.variables e := by
  unfold Expr.prodIncOf at h
  split at h
  · simp only [Option.some.injEq, Prod.mk.injEq] at h
    rcases foldl_lastCoef e v 0#w with h0 | ⟨q, hq, hqv⟩
    · rw [h0] at h; exact absurd h.2.symm hm
    · exact mem_variables.2 ⟨q, hq, by rw [hqv]; exact List.mem_singleton.2 rfl⟩
  · cases h

theorem one_ne_zero_bv (hw : 0 < w) : (1#w : BitVec w) ≠ 0#w := by
  intro h
  have := congrArg BitVec.toNat h
  simp only [BitVec.toNat_ofNat, Nat.zero_mod] at this
  rw [Nat.mod_eq_of_lt (Nat.one_lt_two_pow (by omega))] at this
  exact absurd this (by decide)

/-- **Variables of a `during` entry** of `loopMotion`: they are variables of the pending expression. -/
theorem motionCase_during_vars (hw : 0 < w) {s : Rebuild w} {ps : List (Rebuild w)} {var : Int} {p : Expr w}
    {complete : Bool} {reads C : List Int} {lin : List (Int × Expr w)} {otherPending : List Int}
    {L : OptLoop w} {b a : Option (Expr w)} {d : Expr w}
    (hcase : MotionCase s ps var p complete reads C lin otherPending L (b, some d, a)) :
    ∀ x ∈ Expr.variables d, x ∈ Expr.variables p := by
  generalize hr : (b, some d, a) = r at hcase
  cases hcase with
  | gone _ _ => simp at hr
  | after p' _ _ _ => simp at hr
  | geo0 p' expr inc mul c => simp at hr
  | geo p' expr inc mul c => simp at hr
  | stay p' hp' =>
    simp only [Prod.mk.injEq, Option.some.injEq] at hr
    obtain ⟨_, rfl, _⟩ := hr
    exact reduceConst_varsIn s ps p d C hp'
  | tri p' expr inc cst other linears h1 h2 h3 hp' hexpr hpi hsplit =>
    simp only [Prod.mk.injEq, Option.some.injEq] at hr
    obtain ⟨_, rfl, _⟩ := hr
    obtain ⟨_, _, _, hothsub, hlinp⟩ := splitAlong_recompose inc C lin cst other linears hsplit
    have hsubp : ∀ x ∈ Expr.variables p', x ∈ Expr.variables p := reduceConst_varsIn s ps p p' C hp'
    intro x hx
    rcases variables_add _ _ x hx with hxv | hxb
    · simp only [Expr.variables, Expr.var, List.flatMap_cons, List.flatMap_nil, List.append_nil,
        List.mem_singleton] at hxv
      subst hxv
      exact hsubp x (prodIncOf_mem_of_ne_zero hpi (one_ne_zero_bv hw))
    · obtain ⟨q, hq, hxq⟩ := mem_variables.1 hxb
      have hqinc : ∃ t ∈ inc, q.vars = t.vars := by
        rcases triFold_vars expr linears (Expr.mul expr cst, other) q hq with ⟨t, ht, e⟩ | ⟨il, hil, t, ht, e⟩
        · exact ⟨t, hothsub t ht, e⟩
        · obtain ⟨part, lv, l, hpe, h1', _⟩ := hlinp il hil
          rw [h1'] at ht
          simp only [List.mem_singleton] at ht
          subst ht
          exact ⟨t, hpe, e⟩
      obtain ⟨t, ht, e⟩ := hqinc
      exact hsubp x (mem_variables.2 ⟨t, prodIncOf_sub hpi t ht, e ▸ hxq⟩)

/-- Variables of an `after` entry. -/
theorem motionCase_after_vars {s : Rebuild w} {ps : List (Rebuild w)} {var : Int} {p : Expr w}
    {complete : Bool} {reads C : List Int} {lin : List (Int × Expr w)} {otherPending : List Int}
    {L : OptLoop w} {b d : Option (Expr w)} {a : Expr w}
    (hcase : MotionCase s ps var p complete reads C lin otherPending L (b, d, some a)) :
    ∀ x ∈ Expr.variables a, x ∈ Expr.variables p := by
  generalize hr : (b, d, some a) = r at hcase
  cases hcase with
  | gone _ _ => simp at hr
  | stay p' _ => simp at hr
  | tri p' expr inc cst other linears => simp at hr
  | geo0 p' expr inc mul c => simp at hr
  | geo p' expr inc mul c => simp at hr
  | after p' hp' _ _ =>
    simp only [Prod.mk.injEq, Option.some.injEq] at hr
    obtain ⟨_, _, rfl⟩ := hr
    exact reduceConst_varsIn s ps p a C hp'

section
variable {s : Rebuild w} {ps : List (Rebuild w)} {sub : Rebuild w} {reads C : List Int}
  {lin : List (Int × Expr w)} {otherPending : List Int} {L : OptLoop w}
  {B D A : List (Int × Expr w)}

/-- **Variables of the entries of `D`.** -/
theorem motionAllE_D_vars (hw : 0 < w) (h : MotionAllE s ps sub reads C lin otherPending L B D A)
    {v : Int} {p d : Expr w} (hp : mGet sub.pending v = some p) (hd : mGet D v = some d) :
    ∀ x ∈ Expr.variables d, x ∈ Expr.variables p := by
  obtain ⟨b, d', a, hcase, _, hD, _⟩ := h.pend v p hp
  rw [hd] at hD
  subst hD
  exact motionCase_during_vars hw hcase

/-- The same from `MotionBD`. -/
theorem motionBD_D_vars (hw : 0 < w) (h : MotionBD s ps sub reads C lin otherPending L B D)
    {v : Int} {p d : Expr w} (hp : mGet sub.pending v = some p) (hd : mGet D v = some d) :
    ∀ x ∈ Expr.variables d, x ∈ Expr.variables p := by
  obtain ⟨b, d', a, hcase, _, hD⟩ := h.pend v p hp
  rw [hd] at hD
  subst hD
  exact motionCase_during_vars hw hcase

/-- **Variables of the entries of `A`.** -/
theorem motionAllE_A_vars (h : MotionAllE s ps sub reads C lin otherPending L B D A)
    {v : Int} {p a : Expr w} (hp : mGet sub.pending v = some p) (ha : mGet A v = some a) :
    ∀ x ∈ Expr.variables a, x ∈ Expr.variables p := by
  obtain ⟨p', hp', _, _, hred, _, _⟩ := motionAllE_A_facts h ha
  rw [hp] at hp'
  cases hp'
  exact reduceConst_varsIn s ps p a C hred

end

end Hpbf.OptLoop

#print axioms Hpbf.OptLoop.motionCase_during_vars
#print axioms Hpbf.OptLoop.motionCase_after_vars
#print axioms Hpbf.OptLoop.motionAllE_D_vars
#print axioms Hpbf.OptLoop.motionBD_D_vars
#print axioms Hpbf.OptLoop.motionAllE_A_vars
#print axioms Hpbf.OptLoop.prodIncOf_mem_of_ne_zero
