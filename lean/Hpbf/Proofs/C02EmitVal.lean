/-
C02 (first phase), part 1: the value-numbering invariant on straight-line code.

* `BcM p`        – the bytecode machine (unlimited mode) as a `Sim.Mach`.
* `den c e`      – value of a GVN expression in a bytecode configuration.
* `Sound V c`    – every entry `e ↦ t` of the table `V` is true in `c`: `temps[t] = den c e`.
* `WfV g`        – static well-formedness of the table (duplicate-free keys, numbers below `g.n`).
* `SL g g'`      – straight-line extension: `g'` is reached from `g` by `get_value` calls only; the
                   code appended runs from `g` to `g'` keeping the state and the invariant.
* `getValue_SL`  – `get_value` reuses a sound entry or defines a fresh temporary.
-/
import Hpbf.Proofs.C02EmitBase
import Hpbf.Proofs.C01Sim
import Hpbf.Proofs.C11Step
import Hpbf.Proofs.C15Basic

namespace Hpbf
namespace C02Emit
open BcGen Bc Sim

variable {w : Nat}

/-! ### the bytecode machine -/

def BcM (p : Bc.Program w) : Sim.Mach where
  C := Bc.Cfg w
  step := fun c =>
    match Bc.step p false c with
    | .next c' => .next c'
    | .halt c' => .fin true c'.st.trace
    | .stop c' => .fin false c'.st.trace
    | .interrupted _ => .next c
    | .bad _ => .next c
  tr := fun c => c.st.trace

theorem BcM_step_of {p : Bc.Program w} {c c' : Bc.Cfg w} {ins : Bc.Instr w}
    (hi : p.insts[c.pc]? = some ins) (h : C11.stepI p false c ins = .next c') :
    (BcM p).step c = .next c' := by
  simp only [BcM, C11.step_eq hi, h]

/-! ### denotation of GVN expressions, soundness of the table -/

def den (c : Bc.Cfg w) : GvnExpr w → BitVec w
  | .imm v => v
  | .mem v => c.st.rd v
  | .add a b => tget c.temps a + tget c.temps b
  | .sub a b => tget c.temps a + (- tget c.temps b)
  | .mul a b => tget c.temps a * tget c.temps b

def opsLt (n : Nat) : GvnExpr w → Prop
  | .add a b => a < n ∧ b < n
  | .sub a b => a < n ∧ b < n
  | .mul a b => a < n ∧ b < n
  | _ => True

theorem opsLt_mono {n m : Nat} (h : n ≤ m) {e : GvnExpr w} (he : opsLt n e) : opsLt m e := by
  cases e <;> simp only [opsLt] at he ⊢ <;> omega

def Sound (V : List (GvnExpr w × Nat)) (c : Bc.Cfg w) : Prop :=
  ∀ e t, alGet V e = some t → tget c.temps t = den c e

structure WfV (g : G w) : Prop where
  nodup : (keys g.values).Nodup
  lt : ∀ e t, alGet g.values e = some t → t < g.n ∧ opsLt g.n e

/-- Instruction defining value number `t` as `e`. -/
def gvInst (e : GvnExpr w) (t : Nat) : Bc.Instr w :=
  match e with
  | .imm v => .copy (.tmp t) (.imm v)
  | .mem v => .copy (.tmp t) (.mem v)
  | .add a b => .add (.tmp t) (.tmp a) (.tmp b)
  | .sub a b => .sub (.tmp t) (.tmp a) (.tmp b)
  | .mul a b => .mul (.tmp t) (.tmp a) (.tmp b)

theorem binopCfg_tmp (f : BitVec w → BitVec w → BitVec w) (c : Bc.Cfg w) (t a b : Nat) :
    C11.binopCfg f c (.tmp t) (.tmp a) (.tmp b)
      = { c with temps := tset c.temps t (f (tget c.temps a) (tget c.temps b)) } := by
  unfold C11.binopCfg
  by_cases h : t = a
  · subst h
    simp [sameDst, C11.wrCfg, C11.rdSt, C11.rdVal]
  · simp [sameDst, h, C11.wrCfg, C11.rdSt, C11.rdVal]

theorem step_gvInst {p : Bc.Program w} {c : Bc.Cfg w} {e : GvnExpr w} {t : Nat}
    (hi : p.insts[c.pc]? = some (gvInst e t)) :
    (BcM p).step c = .next { c with pc := c.pc + 1, temps := tset c.temps t (den c e) } := by
  apply BcM_step_of hi
  cases e with
  | imm v => simp [gvInst, C11.stepI, C11.isDst, C11.copyCfg, C11.wrCfg, C11.rdSt, C11.rdVal, den]
  | mem v => simp [gvInst, C11.stepI, C11.isDst, C11.copyCfg, C11.wrCfg, C11.rdSt, C11.rdVal, den]
  | add a b => simp [gvInst, C11.stepI, C11.arith, C11.isDst, binopCfg_tmp, den]
  | sub a b => simp [gvInst, C11.stepI, C11.arith, C11.isDst, binopCfg_tmp, den]
  | mul a b => simp [gvInst, C11.stepI, C11.arith, C11.isDst, binopCfg_tmp, den]

/-- Defining a fresh temporary keeps the table sound and makes the new entry true. -/
theorem sound_define {g : G w} (hw : WfV g) {c : Bc.Cfg w} (hs : Sound g.values c) {e : GvnExpr w}
    (he : opsLt g.n e) (pc : Nat) :
    Sound (alSet g.values e g.n) { c with pc := pc, temps := tset c.temps g.n (den c e) } := by
  intro e' t' h
  rw [alGet_alSet] at h
  have den_eq : ∀ e'' : GvnExpr w, opsLt g.n e'' →
      den { c with pc := pc, temps := tset c.temps g.n (den c e) } e'' = den c e'' := by
    intro e'' h''
    cases e'' with
    | imm v => rfl
    | mem v => rfl
    | add a b =>
      simp only [opsLt] at h''
      simp only [den, C11.tget_tset, Nat.ne_of_lt h''.1, Nat.ne_of_lt h''.2, if_false]
    | sub a b =>
      simp only [opsLt] at h''
      simp only [den, C11.tget_tset, Nat.ne_of_lt h''.1, Nat.ne_of_lt h''.2, if_false]
    | mul a b =>
      simp only [opsLt] at h''
      simp only [den, C11.tget_tset, Nat.ne_of_lt h''.1, Nat.ne_of_lt h''.2, if_false]
  by_cases hee : e' = e
  · subst hee
    simp only [if_true, Option.some.injEq] at h
    subst h
    rw [den_eq _ he]
    simp [C11.tget_tset]
  · simp only [hee, if_false] at h
    obtain ⟨hlt, hops⟩ := hw.lt e' t' h
    rw [den_eq _ hops]
    simp only [C11.tget_tset, Nat.ne_of_lt hlt, if_false]
    exact hs e' t' h

/-! ### `get_value` on the core state -/

theorem getValue_core {e : GvnExpr w} {s s' : St w} {t : Nat} (h : getValue e s = .ok (t, s')) :
    (alGet s.values e = some t ∧ s' = s) ∨
    (alGet s.values e = none ∧ t = s.ranges.size ∧
      core s' = ⟨s.insts.push (gvInst e t), alSet s.values e t, s.exprs.push e, s.ranges.size + 1⟩) := by
  unfold getValue at h
  simp only [get_bind] at h
  cases hv : alGet s.values e with
  | some v =>
    simp only [hv, pure_ok] at h
    left; exact ⟨by rw [h.1], h.2⟩
  | none =>
    right
    simp only [hv, set_bind] at h
    refine ⟨rfl, ?_⟩
    cases e with
    | imm v =>
      simp only [modify_bind, pure_ok] at h
      obtain ⟨rfl, rfl⟩ := h
      exact ⟨rfl, by simp [core, gvInst]⟩
    | mem v =>
      simp only [modify_bind, pure_ok] at h
      obtain ⟨rfl, rfl⟩ := h
      exact ⟨rfl, by simp [core, gvInst]⟩
    | add a b =>
      simp only [bind_ok, modify_ok, pure_ok] at h
      obtain ⟨_, s1, h1, _, s2, h2, _, s3, rfl, rfl, rfl⟩ := h
      have c1 := (read_core h1).1
      have c2 := (read_core h2).1
      refine ⟨rfl, ?_⟩
      have := c2.trans c1
      simp only [core, G.mk.injEq] at this ⊢
      obtain ⟨i1, i2, i3, i4⟩ := this
      simp [i1, i2, i3, i4, gvInst]
    | sub a b =>
      simp only [bind_ok, modify_ok, pure_ok] at h
      obtain ⟨_, s1, h1, _, s2, h2, _, s3, rfl, rfl, rfl⟩ := h
      have c1 := (read_core h1).1
      have c2 := (read_core h2).1
      refine ⟨rfl, ?_⟩
      have := c2.trans c1
      simp only [core, G.mk.injEq] at this ⊢
      obtain ⟨i1, i2, i3, i4⟩ := this
      simp [i1, i2, i3, i4, gvInst]
    | mul a b =>
      simp only [bind_ok, modify_ok, pure_ok] at h
      obtain ⟨_, s1, h1, _, s2, h2, _, s3, rfl, rfl, rfl⟩ := h
      have c1 := (read_core h1).1
      have c2 := (read_core h2).1
      refine ⟨rfl, ?_⟩
      have := c2.trans c1
      simp only [core, G.mk.injEq] at this ⊢
      obtain ⟨i1, i2, i3, i4⟩ := this
      simp [i1, i2, i3, i4, gvInst]

/-! ### straight-line extension -/

/-- `a` is a prefix of `a'`. -/
def Pre {α : Type} (a a' : Array α) : Prop := a.size ≤ a'.size ∧ ∀ i, i < a.size → a'[i]? = a[i]?

theorem Pre.refl {α : Type} (a : Array α) : Pre a a := ⟨Nat.le_refl _, fun _ _ => rfl⟩
theorem Pre.trans {α : Type} {a b c : Array α} (h1 : Pre a b) (h2 : Pre b c) : Pre a c :=
  ⟨Nat.le_trans h1.1 h2.1, fun i hi => (h2.2 i (Nat.lt_of_lt_of_le hi h1.1)).trans (h1.2 i hi)⟩
theorem Pre.push {α : Type} (a : Array α) (x : α) : Pre a (a.push x) :=
  ⟨by simp, fun i hi => by simp [Array.getElem?_push, Nat.ne_of_lt hi]⟩

theorem lt_of_get {α : Type} {a : Array α} {i : Nat} {x : α} (h : a[i]? = some x) : i < a.size := by
  cases Nat.lt_or_ge i a.size with
  | inl h' => exact h'
  | inr h' => rw [Array.getElem?_eq_none h'] at h; cases h

/-- The final program `P` contains the code emitted between `g` and `g'` as it is in `g'`. -/
def Agree (P : Array (Bc.Instr w)) (g g' : G w) : Prop :=
  ∀ i, g.insts.size ≤ i → i < g'.insts.size → P[i]? = g'.insts[i]?

/-- `e` was numbered between `g` and `g'`. -/
def NewE (g g' : G w) (e : GvnExpr w) : Prop := ∃ i, g.exprs.size ≤ i ∧ g'.exprs[i]? = some e

theorem _root_.Hpbf.Sim.Steps.cast {M : Mach} {n m : Nat} {a b : M.C} (h : Steps M n a b) (e : n = m) : Steps M m a b :=
  e ▸ h

structure SL (g g' : G w) : Prop where
  n_le : g.n ≤ g'.n
  ext : Pre g.insts g'.insts
  eext : Pre g.exprs g'.exprs
  fresh : ∀ e, NewE g g' e → alGet g.values e = none
  wf : WfV g → WfV g'
  vals : ∀ e t, alGet g.values e = some t → alGet g'.values e = some t
  newvals : ∀ e t, alGet g'.values e = some t → alGet g.values e = some t ∨ NewE g g' e
  sem : ∀ (p : Bc.Program w) (c : Bc.Cfg w), Agree p.insts g g' → c.pc = g.insts.size → WfV g →
    Sound g.values c →
    ∃ c', Steps (BcM p) (g'.insts.size - g.insts.size) c c' ∧ c'.pc = g'.insts.size ∧ c'.st = c.st ∧
      Sound g'.values c'

theorem SL.refl (g : G w) : SL g g where
  n_le := Nat.le_refl _
  ext := Pre.refl _
  eext := Pre.refl _
  fresh := by
    rintro e ⟨i, hi, he⟩
    have : i < g.exprs.size := lt_of_get he
    omega
  wf := id
  vals := fun _ _ h => h
  newvals := fun _ _ h => Or.inl h
  sem := by
    intro p c _ hpc _ hs
    exact ⟨c, by rw [Nat.sub_self]; exact Steps.refl (M := BcM p) c, hpc, rfl, hs⟩

theorem NewE.mono_right {g g1 g2 : G w} (h : Pre g1.exprs g2.exprs) {e : GvnExpr w} (he : NewE g g1 e) :
    NewE g g2 e := by
  obtain ⟨i, hi, hg⟩ := he
  have hlt : i < g1.exprs.size := lt_of_get hg
  exact ⟨i, hi, (h.2 i hlt).trans hg⟩

theorem NewE.split {g g1 g2 : G w} (h : Pre g1.exprs g2.exprs) {e : GvnExpr w} (he : NewE g g2 e) :
    NewE g g1 e ∨ NewE g1 g2 e := by
  obtain ⟨i, hi, hg⟩ := he
  by_cases hlt : i < g1.exprs.size
  · left; exact ⟨i, hi, (h.2 i hlt).symm.trans hg⟩
  · right; exact ⟨i, by omega, hg⟩

theorem NewE.mono_left {g g1 g2 : G w} (h : g.exprs.size ≤ g1.exprs.size) {e : GvnExpr w}
    (he : NewE g1 g2 e) : NewE g g2 e := by
  obtain ⟨i, hi, hg⟩ := he
  exact ⟨i, by omega, hg⟩

theorem SL.trans {g g1 g2 : G w} (h1 : SL g g1) (h2 : SL g1 g2) : SL g g2 where
  n_le := Nat.le_trans h1.n_le h2.n_le
  ext := h1.ext.trans h2.ext
  eext := h1.eext.trans h2.eext
  fresh := by
    intro e he
    rcases NewE.split h2.eext he with h | h
    · exact h1.fresh e h
    · have := h2.fresh e h
      cases hv : alGet g.values e with
      | none => rfl
      | some t => rw [h1.vals e t hv] at this; cases this
  wf := fun h => h2.wf (h1.wf h)
  vals := fun e t h => h2.vals e t (h1.vals e t h)
  newvals := by
    intro e t h
    rcases h2.newvals e t h with h | h
    · rcases h1.newvals e t h with h | h
      · exact Or.inl h
      · exact Or.inr (NewE.mono_right h2.eext h)
    · exact Or.inr (NewE.mono_left h1.eext.1 h)
  sem := by
    intro p c hag hpc hw hs
    have ag1 : Agree p.insts g g1 := by
      intro i hi hlt
      rw [hag i hi (Nat.lt_of_lt_of_le hlt h2.ext.1)]
      exact h2.ext.2 i hlt
    have ag2 : Agree p.insts g1 g2 := fun i hi hlt => hag i (Nat.le_trans h1.ext.1 hi) hlt
    obtain ⟨c1, st1, pc1, e1, s1⟩ := h1.sem p c ag1 hpc hw hs
    obtain ⟨c2, st2, pc2, e2, s2⟩ := h2.sem p c1 ag2 pc1 (h1.wf hw) s1
    refine ⟨c2, (st1.trans st2).cast ?_, pc2, e2.trans e1, s2⟩
    have := h1.ext.1
    have := h2.ext.1
    omega

/-- The step taken by `get_value` when the expression is not in the table. -/
theorem SL_define {g : G w} {e : GvnExpr w} (hv : alGet g.values e = none) (he : opsLt g.n e) :
    SL g ⟨g.insts.push (gvInst e g.n), alSet g.values e g.n, g.exprs.push e, g.n + 1⟩ where
  n_le := Nat.le_succ _
  ext := Pre.push _ _
  eext := Pre.push _ _
  fresh := by
    rintro e' ⟨i, hi, hg⟩
    simp only [Array.getElem?_push] at hg
    split at hg
    · cases hg; exact hv
    · rw [Array.getElem?_eq_none (by omega)] at hg; cases hg
  wf := by
    intro hw
    refine ⟨(keys_alSet_nodup _ _ _ hw.nodup).1, ?_⟩
    intro e' t' h
    simp only [alGet_alSet] at h
    by_cases hee : e' = e
    · subst hee
      simp only [if_true, Option.some.injEq] at h
      subst h
      exact ⟨Nat.lt_succ_self _, opsLt_mono (Nat.le_succ _) he⟩
    · simp only [hee, if_false] at h
      obtain ⟨h1, h2⟩ := hw.lt e' t' h
      exact ⟨Nat.lt_succ_of_lt h1, opsLt_mono (Nat.le_succ _) h2⟩
  vals := by
    intro e' t' h
    simp only [alGet_alSet]
    by_cases hee : e' = e
    · subst hee; rw [hv] at h; cases h
    · simp only [hee, if_false]; exact h
  newvals := by
    intro e' t' h
    simp only [alGet_alSet] at h
    by_cases hee : e' = e
    · subst hee
      right
      exact ⟨g.exprs.size, Nat.le_refl _, by simp⟩
    · simp only [hee, if_false] at h
      exact Or.inl h
  sem := by
    intro p c hag hpc hw hs
    have hi : p.insts[c.pc]? = some (gvInst e g.n) := by
      rw [hpc, hag _ (Nat.le_refl _) (by simp)]
      simp
    refine ⟨_, (Steps.one (step_gvInst hi)).cast (by simp), by simp [hpc], rfl, ?_⟩
    exact sound_define hw hs he _

theorem getValue_SL {e : GvnExpr w} {s s' : St w} {t : Nat} (h : getValue e s = .ok (t, s'))
    (hw : WfV (core s)) (he : opsLt (core s).n e) :
    SL (core s) (core s') ∧ t < (core s').n ∧ alGet (core s').values e = some t := by
  rcases getValue_core h with ⟨hv, rfl⟩ | ⟨hv, rfl, hc⟩
  · exact ⟨SL.refl _, (hw.lt e t hv).1, hv⟩
  · rw [hc]
    refine ⟨SL_define (g := core s) hv he, Nat.lt_succ_self _, ?_⟩
    simp [alGet_alSet]

/-- The temporary `r` holds `F state` whenever the table is sound. -/
def Val (g : G w) (r : Nat) (F : State w → BitVec w) : Prop :=
  ∀ c : Bc.Cfg w, Sound g.values c → tget c.temps r = F c.st

theorem Val.mono {g g' : G w} (h : SL g g') {r : Nat} {F : State w → BitVec w} (hv : Val g r F) :
    Val g' r F :=
  fun c hs => hv c (fun e t he => hs e t (h.vals e t he))

theorem Val.of_get {g : G w} {e : GvnExpr w} {r : Nat} (h : alGet g.values e = some r)
    {F : State w → BitVec w} (hF : ∀ c : Bc.Cfg w, Sound g.values c → den c e = F c.st) : Val g r F :=
  fun c hs => (hs e r h).trans (hF c hs)

end C02Emit
end Hpbf
