/-
C02, part 4: the three late passes of `bc::CodeGen::translate` composed
(`parameter_reordering`; if `fuse`: `record_branch_targets`, `zeroing_move_detection`; `strip_noops`).
-/
import Hpbf.Proofs.C02Zmd
import Hpbf.Proofs.C02Dispatch

namespace Hpbf
namespace C02

open Bc BcWf BcGen C11

variable {w : Nat}

/-- The tail of `translateE` after `allocate_temps` (see `translateE_eq_latePasses`). -/
def latePasses (fuse : Bool) (s : St w) : Except String (St w) := do
  let s := parameterReordering s
  let s ← if fuse then (do let s ← recordBranchTargets s; zeroingMoveDetection s) else pure s
  stripNoops s

/-- `translateE` is: the early passes, then `latePasses`, then packaging. -/
theorem translateE_eq_latePasses (prog : Ir.Block w) (numRegs : Nat) (fuse : Bool) :
    translateE prog numRegs fuse =
      (do
        let analysis := analyze prog
        let (_, s) ← (emitInsts fuse 0 prog.insts analysis.subAnal).run ({} : St w)
        let s ← deadStoreElim s
        let s ← allocateTemps numRegs s
        let s ← latePasses fuse s
        pure { temps := countTemps s.insts, minAcc := analysis.minAcc, maxAcc := analysis.maxAcc,
               live := s.live, insts := s.insts }) := by
  unfold translateE latePasses
  cases fuse <;> simp only [bind_assoc, pure_bind, if_true, Bool.false_eq_true, if_false]

theorem branchOff?_reorderInst (ins : Instr w) : branchOff? (reorderInst ins) = branchOff? ins := by
  cases ins with
  | add d a b =>
    cases a <;> cases b <;> simp only [reorderInst, branchOff?]
  | mul d a b =>
    cases a <;> cases b <;> simp only [reorderInst, branchOff?]
  | sub d a b =>
    cases a <;> cases b <;> simp only [reorderInst, branchOff?]
  | _ => rfl

theorem parameterReordering_targetsOk (s : St w) (hT : TargetsOk s.insts) :
    TargetsOk (parameterReordering s).insts := by
  intro i ins off hi hoff
  simp only [parameterReordering, Array.getElem?_map, Option.map_eq_some_iff] at hi
  obtain ⟨a, ha, rfl⟩ := hi
  rw [branchOff?_reorderInst] at hoff
  have := hT i a off ha hoff
  simpa [parameterReordering] using this

/-- What the generator guarantees after `allocate_temps` and what the late passes need. -/
structure LatePre (s : St w) : Prop where
  live : s.live.size = s.insts.size
  targets : TargetsOk s.insts
  noZero : ∀ ins ∈ s.insts, NoMemZero ins

/-- Required theorem 4.  For every generator state whose `live` array matches the instructions, whose
branches land in `[0, n]` and that contains no `memZero` operand, the late passes succeed (no modelled panic)
for both values of `fuse`; the result has no `noop`, a matching `live` array, and the same behaviour:
`BehEqIO` in general, the strong `BehEq` without fusion. -/
theorem late_passes_preserve (s : St w) (h : LatePre s) (fuse : Bool) :
    ∃ s', latePasses fuse s = .ok s' ∧ s'.live.size = s'.insts.size ∧ (∀ x ∈ s'.insts, isNoop x = false) ∧
      (∀ (t : Nat) (mn mx : Int), BehEqIO (progOf s t mn mx) (progOf s' t mn mx)) ∧
      (fuse = false → ∀ (t : Nat) (mn mx : Int), BehEq (progOf s t mn mx) (progOf s' t mn mx)) := by
  have hR := parameterReordering_preserves s h.noZero
  have hT1 := parameterReordering_targetsOk s h.targets
  have hZ1 := parameterReordering_noMemZero s h.noZero
  have hL1 : (parameterReordering s).live.size = (parameterReordering s).insts.size := by
    rw [parameterReordering_live, parameterReordering_size]; exact h.live
  cases fuse with
  | false =>
    obtain ⟨s', e1, e2, e3, _, e5⟩ := stripNoops_preserves (parameterReordering s) hL1 hT1
    refine ⟨s', ?_, e3, e2.noNoop, fun t mn mx => ((hR t mn mx).trans (e5 t mn mx)).io,
      fun _ t mn mx => (hR t mn mx).trans (e5 t mn mx)⟩
    simp only [latePasses, Bool.false_eq_true, if_false, pure_bind]
    exact e1
  | true =>
    obtain ⟨tg, r1, r2⟩ := recordBranchTargets_spec (parameterReordering s) hT1
    obtain ⟨s3, z1, z2, _, z4, z5, z6⟩ := zeroingMoveDetection_preserves_of_pre
      { parameterReordering s with isTarget := tg } ⟨r2, hZ1⟩
    have hL3 : s3.live.size = s3.insts.size := by rw [z2, z4]; exact hL1
    obtain ⟨s', e1, e2, e3, _, e5⟩ := stripNoops_preserves s3 hL3 z5
    refine ⟨s', ?_, e3, e2.noNoop, fun t mn mx => ?_, fun hf => by cases hf⟩
    · simp only [latePasses, if_true, r1, bind, Except.bind, z1]
      exact e1
    · exact ((hR t mn mx).io.trans (z6 t mn mx)).trans (e5 t mn mx).io

/-- Both dispatch profiles (debug: trampolined, release: tail-called) of the interpreter on the two programs:
combining `late_passes_preserve` with `runDebug_eq_run`. -/
theorem late_passes_preserve_debug (s : St w) (h : LatePre s) (fuse : Bool) :
    ∃ s', latePasses fuse s = .ok s' ∧
      ∀ (t : Nat) (mn mx : Int) (limited : Bool) (b fuel : Nat) (env : Env),
        ∃ fuel', ObsEqIO (runDebug (progOf s t mn mx) limited b fuel env)
          (runDebug (progOf s' t mn mx) limited b fuel' env) := by
  obtain ⟨s', h1, _, _, h4, _⟩ := late_passes_preserve s h fuse
  refine ⟨s', h1, fun t mn mx limited b fuel env => ?_⟩
  obtain ⟨fuel', hf⟩ := (h4 t mn mx).1 limited b fuel env
  exact ⟨fuel', by rw [runDebug_eq_run, runDebug_eq_run]; exact hf⟩

/-! ### non-vacuity -/

/-- A small generator state with a constant to fold, a `sub` by an immediate, operands to swap, `noop`s, a loop
and a fusable zeroing copy. -/
def exLate : St 8 :=
  { insts := #[.add (.mem 0) (.imm 2#8) (.imm 3#8), .noop, .brz 0 6, .add (.mem 1) (.tmp 0) (.mem 1),
               .sub (.mem 0) (.mem 0) (.imm 1#8), .noop, .brnz 0 (-3), .noop,
               .copy (.mem 2) (.mem 1), .copy (.mem 1) (.imm 0#8), .out 2],
    live := #[0, 0, 0, 0, 0, 0, 0, 0, 0, 0, 0] }

example : (latePasses true exLate).toOption.map (fun s => (s.insts, s.live.size)) =
    some (#[.copy (.mem 0) (.imm 5#8), .brz 0 4, .add (.mem 1) (.mem 1) (.tmp 0),
            .add (.mem 0) (.mem 0) (.imm 255#8), .brnz 0 (-2), .copy (.mem 2) (.memZero 1), .out 2], 7) := by
  decide +kernel

example : (latePasses false exLate).toOption.map (fun s => s.insts) =
    some #[.copy (.mem 0) (.imm 5#8), .brz 0 4, .add (.mem 1) (.mem 1) (.tmp 0),
           .add (.mem 0) (.mem 0) (.imm 255#8), .brnz 0 (-2), .copy (.mem 2) (.mem 1),
           .copy (.mem 1) (.imm 0#8), .out 2] := by
  decide +kernel

theorem exLate_pre : LatePre exLate := by
  refine ⟨by decide, ?_, by decide +kernel⟩
  apply targetsOk_of_succs
  intro i ins hi
  have hlt : i < 11 := C07_lt hi
  have : ∀ i : Fin 11, ∀ ins, exLate.insts[i.val]? = some ins → (succs 11 i.val ins).isSome = true := by
    decide +kernel
  exact this ⟨i, hlt⟩ ins hi

end C02
end Hpbf
