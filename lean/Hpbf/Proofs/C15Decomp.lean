/-
C15, part 4: the structural decompositions recompose to the original value.
`constant`, `identity` (in `C15Subst`), `constIncOf`, `prodOf` hold for all part lists.
`incOf`, `prodIncOf`, `constantPart` need `WeakCanon`: a constant part only at index 0 and at most one
part equal to `[v]` for each `v` (counterexamples without it are at the end).
-/
import Hpbf.Proofs.C15Subst

namespace Hpbf
namespace Expr
variable {w : Nat}

/-! ### Unconditional decompositions -/

theorem eval_constIncOf (e : Expr w) (v : Int) (c : BitVec w) (f : Int → BitVec w)
    (h : constIncOf e v = some c) : evaluate e f = c + f v := by
  unfold constIncOf at h
  split at h
  · rename_i p
    split at h
    · rename_i hc
      simp only [Bool.and_eq_true, decide_eq_true_eq, beq_iff_eq] at hc
      simp only [Option.some.injEq] at h
      subst h
      rw [evaluate_singleton, hc.1, hc.2]; simp
    · cases h
  · rename_i p0 p1
    split at h
    · rename_i hc
      simp only [Bool.and_eq_true, decide_eq_true_eq, beq_iff_eq, List.isEmpty_iff] at hc
      simp only [Option.some.injEq] at h
      subst h
      rw [evaluate_cons', evaluate_singleton, hc.1.1, hc.1.2, hc.2]; simp
    · cases h
  · cases h

theorem mono_filter_ne (f : Int → BitVec w) (v : Int) (vs : List Int)
    (h : (vs.filter (· == v)).length = 1) :
    mono f vs = f v * mono f (vs.filter (· != v)) := by
  induction vs with
  | nil => simp at h
  | cons x vs ih =>
    by_cases hx : x = v
    · subst hx
      simp only [List.filter_cons, beq_self_eq_true, if_true, List.length_cons] at h
      have hnil : vs.filter (· == x) = [] := List.eq_nil_of_length_eq_zero (by omega)
      have hall : ∀ y ∈ vs, (y != x) = true := by
        intro y hy
        have := List.filter_eq_nil_iff.1 hnil y hy
        simpa using this
      have : vs.filter (· != x) = vs := List.filter_eq_self.2 hall
      simp [this]
    · have hb : (x == v) = false := by simpa using hx
      simp only [List.filter_cons, hb] at h
      have := ih (by simpa using h)
      simp only [List.filter_cons, bne, hb, Bool.not_false, if_true, mono_cons, this]
      simp only [bne] at this ⊢
      grind

theorem eval_prodOf (e r : Expr w) (v : Int) (f : Int → BitVec w) (h : prodOf e v = some r) :
    evaluate e f = f v * evaluate r f := by
  unfold prodOf at h
  split at h
  · rename_i hall
    simp only [Option.some.injEq] at h
    subst h
    rw [evaluate_perm f (stableSort_perm _ _)]
    induction e with
    | nil => simp
    | cons p e ih =>
      simp only [List.all_cons, Bool.and_eq_true, beq_iff_eq] at hall
      simp only [List.map_cons, evaluate_cons', ih hall.2, mono_filter_ne f v p.vars hall.1]
      grind
  · cases h

/-! ### The weak invariant -/

/-- What `incOf`, `prodIncOf` and `constantPart` need: a constant part occurs only at index 0, and no
two parts are the same single variable. -/
def WeakCanon (e : Expr w) : Prop :=
  e.Pairwise (fun p q => q.vars ≠ [] ∧ (q.vars.length = 1 → p.vars ≠ q.vars))

instance (e : Expr w) : Decidable (WeakCanon e) := by unfold WeakCanon; infer_instance

theorem evaluate_filter_partition (f : Int → BitVec w) (P : Part w → Bool) (e : Expr w) :
    evaluate e f = evaluate (e.filter P) f + evaluate (e.filter (fun p => !P p)) f := by
  induction e with
  | nil => simp
  | cons p e ih =>
    cases hp : P p
    · simp only [List.filter_cons, hp, Bool.not_false, if_true, evaluate_cons, ih]
      simp; grind
    · simp only [List.filter_cons, hp, Bool.not_true, if_true, evaluate_cons, ih]
      simp; grind

theorem WeakCanon.filter_single {e : Expr w} (h : WeakCanon e) (v : Int) :
    (e.filter (fun p => p.vars == [v])).length ≤ 1 := by
  induction e with
  | nil => simp
  | cons p e ih =>
    unfold WeakCanon at h
    rw [List.pairwise_cons] at h
    by_cases hp : p.vars = [v]
    · have : e.filter (fun p => p.vars == [v]) = [] := by
        rw [List.filter_eq_nil_iff]
        intro q hq hqv
        simp only [beq_iff_eq] at hqv
        exact (h.1 q hq).2 (by rw [hqv]; rfl) (hp.trans hqv.symm)
      simp [hp, this]
    · have hb : (p.vars == [v]) = false := by simpa using hp
      simp only [List.filter_cons, hb]
      exact ih h.2

theorem foldl_lastCoef_none (v : Int) (e : Expr w) (m0 : BitVec w)
    (h : e.filter (fun p => p.vars == [v]) = []) :
    e.foldl (fun m p => if p.vars == [v] then p.coef else m) m0 = m0 := by
  induction e generalizing m0 with
  | nil => rfl
  | cons p e ih =>
    have hp : (p.vars == [v]) = false := by
      have := List.filter_eq_nil_iff.1 h p (List.mem_cons_self)
      simpa using this
    have he : e.filter (fun p => p.vars == [v]) = [] := by
      simpa [List.filter_cons, hp] using h
    simp only [List.foldl_cons, hp]
    exact ih m0 he

/-- With at most one part `[v]`, that part is `m * x_v` where `m` is what `prodIncOf` returns. -/
theorem evaluate_filter_single (f : Int → BitVec w) (v : Int) (e : Expr w)
    (h : (e.filter (fun p => p.vars == [v])).length ≤ 1) :
    evaluate (e.filter (fun p => p.vars == [v])) f
      = e.foldl (fun m p => if p.vars == [v] then p.coef else m) 0#w * f v := by
  suffices hs : ∀ m0 : BitVec w, e.foldl (fun m p => if p.vars == [v] then p.coef else m) m0 * f v
      = if e.filter (fun p => p.vars == [v]) = [] then m0 * f v
        else evaluate (e.filter (fun p => p.vars == [v])) f by
    have := hs 0#w
    split at this
    · rename_i hn; rw [hn, this]; simp
    · exact this.symm
  induction e with
  | nil => intro m0; simp
  | cons p e ih =>
    intro m0
    by_cases hp : p.vars = [v]
    · have hb : (p.vars == [v]) = true := by simpa using hp
      simp only [List.filter_cons, hb, if_true, List.length_cons] at h
      have hnil : e.filter (fun p => p.vars == [v]) = [] := List.eq_nil_of_length_eq_zero (by omega)
      simp only [List.foldl_cons, hb, if_true, List.filter_cons, hnil]
      rw [foldl_lastCoef_none v e _ hnil, evaluate_singleton, hp]
      simp
    · have hb : (p.vars == [v]) = false := by simpa using hp
      simp only [List.filter_cons, hb] at h
      simp only [List.foldl_cons, hb, List.filter_cons]
      exact ih (by simpa using h) m0

/-! ### `incOf`, `prodIncOf`, `constantPart` -/

/-- The remainder returned by `incOf`/`prodIncOf` does not mention `v` (no invariant needed). -/
theorem not_mem_variables_filter (e : Expr w) (v : Int)
    (hall : e.all (fun p => !p.vars.contains v || p.vars.length == 1) = true) :
    v ∉ variables (e.filter (fun p => !(p.vars == [v]))) := by
  intro hv
  simp only [variables, List.mem_flatMap, List.mem_filter] at hv
  obtain ⟨p, ⟨hp, hne⟩, hvp⟩ := hv
  have := List.all_eq_true.1 hall p hp
  simp only [Bool.or_eq_true, Bool.not_eq_true', List.contains_eq_mem, decide_eq_false_iff_not,
    beq_iff_eq] at this
  rcases this with h1 | h1
  · exact h1 hvp
  · obtain ⟨x, hx⟩ := List.length_eq_one_iff.1 h1
    rw [hx] at hvp hne
    simp only [List.mem_singleton] at hvp
    subst hvp
    simp at hne

theorem eval_prodIncOf (e r : Expr w) (v : Int) (m : BitVec w) (f : Int → BitVec w)
    (hc : WeakCanon e) (h : prodIncOf e v = some (r, m)) :
    evaluate e f = m * f v + evaluate r f := by
  unfold prodIncOf at h
  split at h
  · simp only [Option.some.injEq, Prod.mk.injEq] at h
    obtain ⟨rfl, rfl⟩ := h
    rw [evaluate_filter_partition f (fun p => p.vars == [v]) e,
      evaluate_filter_single f v e (hc.filter_single v)]
  · cases h

theorem prodIncOf_not_mem (e r : Expr w) (v : Int) (m : BitVec w)
    (h : prodIncOf e v = some (r, m)) : v ∉ variables r := by
  unfold prodIncOf at h
  split at h
  · rename_i hall
    simp only [Option.some.injEq, Prod.mk.injEq] at h
    obtain ⟨rfl, rfl⟩ := h
    exact not_mem_variables_filter e v hall
  · cases h

theorem eval_incOf (e r : Expr w) (v : Int) (f : Int → BitVec w)
    (hc : WeakCanon e) (h : incOf e v = some r) :
    evaluate e f = f v + evaluate r f := by
  unfold incOf at h
  split at h
  · rename_i hcond
    simp only [Bool.and_eq_true] at hcond
    obtain ⟨hany, hall⟩ := hcond
    simp only [Option.some.injEq] at h
    subst h
    rw [evaluate_filter_partition f (fun p => p.vars == [v]) e]
    congr 1
    obtain ⟨p, hp, hpc⟩ := List.any_eq_true.1 hany
    simp only [Bool.and_eq_true, decide_eq_true_eq] at hpc
    have hmem : p ∈ e.filter (fun p => p.vars == [v]) := List.mem_filter.2 ⟨hp, hpc.2⟩
    have hlen := hc.filter_single v
    have : e.filter (fun p => p.vars == [v]) = [p] := by
      generalize e.filter (fun p => p.vars == [v]) = l at hmem hlen
      match l, hmem, hlen with
      | [], hmem, _ => simp at hmem
      | [q], hmem, _ =>
        simp only [List.mem_singleton] at hmem
        rw [hmem]
      | _ :: _ :: _, _, hlen => simp at hlen
    rw [this, evaluate_singleton, hpc.1, beq_iff_eq.1 hpc.2]; simp
  · cases h

theorem incOf_not_mem (e r : Expr w) (v : Int) (h : incOf e v = some r) : v ∉ variables r := by
  unfold incOf at h
  split at h
  · rename_i hcond
    simp only [Bool.and_eq_true] at hcond
    simp only [Option.some.injEq] at h
    subst h
    exact not_mem_variables_filter e v hcond.2
  · cases h

theorem mono_zero_of_ne_nil (vs : List Int) (h : vs ≠ []) : mono (fun _ => (0#w : BitVec w)) vs = 0#w := by
  cases vs with
  | nil => exact absurd rfl h
  | cons v vs => simp

theorem evaluate_zero_of_no_const (e : Expr w) (h : ∀ p ∈ e, p.vars ≠ []) :
    evaluate e (fun _ => 0#w) = 0#w := by
  induction e with
  | nil => rfl
  | cons p e ih =>
    rw [evaluate_cons', mono_zero_of_ne_nil _ (h p List.mem_cons_self),
      ih (fun q hq => h q (List.mem_cons_of_mem _ hq))]
    simp

theorem eval_constantPart (e : Expr w) (hc : WeakCanon e) :
    constantPart e = evaluate e (fun _ => 0#w) := by
  unfold constantPart
  cases e with
  | nil => rfl
  | cons p e =>
    unfold WeakCanon at hc
    rw [List.pairwise_cons] at hc
    simp only
    rw [evaluate_cons', evaluate_zero_of_no_const e (fun q hq => (hc.1 q hq).1)]
    split
    · rename_i hv
      rw [List.isEmpty_iff.1 hv]; simp
    · rename_i hv
      rw [mono_zero_of_ne_nil _ (by simpa using hv)]; simp

/-! ### The invariant is needed (w = 8) -/

/-- Two parts `[5]`: `incOf` keeps only one of them. -/
example : let e : Expr 8 := [⟨1#8, [5]⟩, ⟨1#8, []⟩, ⟨1#8, [5]⟩]
    ¬ WeakCanon e ∧ incOf e 5 = some [⟨1#8, []⟩] ∧
      evaluate e (fun _ => 1#8) ≠ 1#8 + evaluate [⟨1#8, []⟩] (fun _ => 1#8) := by decide

/-- A constant part that is not first: `constantPart` misses it. -/
example : let e : Expr 8 := [⟨1#8, [5]⟩, ⟨1#8, []⟩]
    ¬ WeakCanon e ∧ constantPart e ≠ evaluate e (fun _ => 0#8) := by decide

end Expr
end Hpbf
