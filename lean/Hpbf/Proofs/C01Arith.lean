/-
Arithmetic behind folding `[-]`, `[+]`, `[---]`, …: an odd step is a unit modulo `2^w`, so repeatedly
adding it reaches zero from every start value.
-/
import Hpbf.Cell

namespace Hpbf
namespace C01

theorem isOdd_toNat {w : Nat} (hw : 0 < w) (k : BitVec w) (hk : Cell.isOdd k = true) :
    k.toNat % 2 = 1 := by
  unfold Cell.isOdd at hk
  have h := eq_of_beq hk
  have h2 := congrArg BitVec.toNat h
  have one_lt : 1 < 2 ^ w := Nat.one_lt_two_pow (by omega)
  simp only [BitVec.toNat_and, BitVec.toNat_ofNat, Nat.mod_eq_of_lt one_lt, Nat.and_one_is_mod] at h2
  exact h2

/-- For odd `k`, some multiple of `k` is congruent to `-c` modulo `2^w`. -/
theorem exists_mul_add_dvd (k : Nat) (hk : k % 2 = 1) (c : Nat) :
    ∀ w : Nat, ∃ n, 2 ^ w ∣ n * k + c := by
  intro w
  induction w with
  | zero => exact ⟨0, by simp⟩
  | succ w ih =>
    obtain ⟨n, q, hq⟩ := ih
    rcases Nat.mod_two_eq_zero_or_one q with h | h
    · refine ⟨n, q / 2, ?_⟩
      have : q = 2 * (q / 2) := by omega
      rw [hq, Nat.pow_succ, Nat.mul_assoc]; congr 1
    · refine ⟨n + 2 ^ w, (q + k) / 2, ?_⟩
      have : q + k = 2 * ((q + k) / 2) := by omega
      rw [Nat.add_mul, Nat.add_right_comm, hq, ← Nat.mul_add, Nat.pow_succ, Nat.mul_assoc]; congr 1

/-- The loop `while x ≠ 0 { x += k }` with odd `k` reaches `x = 0` after finitely many rounds. -/
theorem odd_step_reaches_zero {w : Nat} (hw : 0 < w) (k x : BitVec w) (hk : Cell.isOdd k = true) :
    ∃ n, x + BitVec.ofNat w n * k = 0#w := by
  obtain ⟨n, q, hq⟩ := exists_mul_add_dvd k.toNat (isOdd_toNat hw k hk) x.toNat w
  refine ⟨n, ?_⟩
  apply BitVec.eq_of_toNat_eq
  simp only [BitVec.toNat_add, BitVec.toNat_mul, BitVec.toNat_ofNat, Nat.add_mod_mod,
    Nat.mod_mul_mod, Nat.zero_mod]
  rw [Nat.add_comm, hq]; simp

end C01
end Hpbf
