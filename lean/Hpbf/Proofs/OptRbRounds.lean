/-
Rebuild-round proofs, stage 4 (composition): `Program::optimize` at levels 2 and 3 is the first round followed by
one resp. two times (dead store elimination; a round that uses the analysis of the previous round).  This file
unfolds that loop and reduces the correctness of `optimize` at every level to the correctness of the two kinds of
steps, for an arbitrary invariant `P` of (program, analysis) pairs that the steps maintain.
-/
import Hpbf.Proofs.OptRbTop1
import Hpbf.Proofs.OptRbDseFacts
import Hpbf.Props.C01Dse

namespace Hpbf
namespace OptProof
open Opt OptSem Ir

variable {w : Nat}

theorem BehEq.refl (b : Block w) (env : Env) : BehEq b b env :=
  ⟨fun f c h => ⟨f, c, h, rfl, rfl⟩, fun f c h => ⟨f, c, h, rfl, rfl⟩, fun f c h => ⟨f, c, h, rfl, rfl⟩,
    fun f c h => ⟨f, c, h, rfl, rfl⟩, fun f => ⟨f, rfl⟩, fun f => ⟨f, rfl⟩⟩

theorem BehEq.trans {a b c : Block w} {env : Env} (h1 : BehEq a b env) (h2 : BehEq b c env) : BehEq a c env := by
  obtain ⟨a1, a2, a3, a4, a5, a6⟩ := h1
  obtain ⟨b1, b2, b3, b4, b5, b6⟩ := h2
  refine ⟨?_, ?_, ?_, ?_, ?_, ?_⟩
  · intro f x hx
    obtain ⟨f', y, hy, t1, e1⟩ := a1 f x hx
    obtain ⟨f'', z, hz, t2, e2⟩ := b1 f' y hy
    exact ⟨f'', z, hz, t2.trans t1, e2.trans e1⟩
  · intro f x hx
    obtain ⟨f', y, hy, t1, e1⟩ := a2 f x hx
    obtain ⟨f'', z, hz, t2, e2⟩ := b2 f' y hy
    exact ⟨f'', z, hz, t2.trans t1, e2.trans e1⟩
  · intro f z hz
    obtain ⟨f', y, hy, t2, e2⟩ := b3 f z hz
    obtain ⟨f'', x, hx, t1, e1⟩ := a3 f' y hy
    exact ⟨f'', x, hx, t2.trans t1, e2.trans e1⟩
  · intro f z hz
    obtain ⟨f', y, hy, t2, e2⟩ := b4 f z hz
    obtain ⟨f'', x, hx, t1, e1⟩ := a4 f' y hy
    exact ⟨f'', x, hx, t2.trans t1, e2.trans e1⟩
  · intro f''
    obtain ⟨f', h'⟩ := b5 f''
    obtain ⟨f, h⟩ := a5 f'
    exact ⟨f, h.trans h'⟩
  · intro f
    obtain ⟨f', h⟩ := a6 f
    obtain ⟨f'', h'⟩ := b6 f'
    exact ⟨f'', h'.trans h⟩

/-- One iteration of the loop of `optimize`. -/
theorem optimizeRounds_succ_ok {n : Nat} {prog b' : Block w} {anal : OptAnalysis w} {os os' : Orders} :
    (optimizeRounds (n + 1) prog anal).run os = .ok (b', os') ↔
      ∃ prog1 prog2 anal2 os2, deadStoreElimination prog anal = .ok prog1 ∧
        (optimizeOnce prog1 anal).run os = .ok ((prog2, anal2), os2) ∧
        (optimizeRounds n prog2 anal2).run os2 = .ok (b', os') := by
  rw [optimizeRounds, run_bind_ok]
  constructor
  · rintro ⟨prog1, os1, h1, h2⟩
    obtain ⟨hd, ho⟩ := run_monadLift_ok.1 h1
    simp only at hd ho
    subst ho
    rw [run_bind_ok] at h2
    obtain ⟨⟨prog2, anal2⟩, os2, h3, h4⟩ := h2
    exact ⟨prog1, prog2, anal2, os2, hd, h3, h4⟩
  · rintro ⟨prog1, prog2, anal2, os2, hd, h3, h4⟩
    refine ⟨prog1, os, run_monadLift_ok.2 ⟨hd, rfl⟩, ?_⟩
    rw [run_bind_ok]
    exact ⟨(prog2, anal2), os2, h3, h4⟩

theorem optimizeRounds_zero_ok {prog b' : Block w} {anal : OptAnalysis w} {os os' : Orders} :
    (optimizeRounds 0 prog anal).run os = .ok (b', os') ↔ b' = prog ∧ os' = os := by
  rw [optimizeRounds, run_pure]
  constructor
  · intro h; cases h; exact ⟨rfl, rfl⟩
  · rintro ⟨rfl, rfl⟩; rfl

/-- The rounds after the first one, for an invariant `P` of (program, analysis) pairs after a round and `P1` after
dead store elimination. -/
theorem optimizeRounds_preserves {P P1 : Block w → OptAnalysis w → Prop} {env : Env}
    (hDse : ∀ prog anal prog1, P prog anal → deadStoreElimination prog anal = .ok prog1 →
      BehEq prog prog1 env ∧ P1 prog1 anal)
    (hRound : ∀ prog1 anal prog2 anal2 os os2, P1 prog1 anal →
      (optimizeOnce prog1 anal).run os = .ok ((prog2, anal2), os2) → BehEq prog1 prog2 env ∧ P prog2 anal2)
    (n : Nat) : ∀ (prog b' : Block w) (anal : OptAnalysis w) (os os' : Orders), P prog anal →
      (optimizeRounds n prog anal).run os = .ok (b', os') → BehEq prog b' env ∧ ∃ anal', P b' anal' := by
  induction n with
  | zero =>
    intro prog b' anal os os' hP h
    obtain ⟨rfl, _⟩ := optimizeRounds_zero_ok.1 h
    exact ⟨BehEq.refl _ _, anal, hP⟩
  | succ n ih =>
    intro prog b' anal os os' hP h
    obtain ⟨prog1, prog2, anal2, os2, hd, h3, h4⟩ := optimizeRounds_succ_ok.1 h
    obtain ⟨e1, hP1⟩ := hDse prog anal prog1 hP hd
    obtain ⟨e2, hP2⟩ := hRound prog1 anal prog2 anal2 os os2 hP1 h3
    obtain ⟨e3, r⟩ := ih prog2 b' anal2 os2 os' hP2 h4
    exact ⟨(e1.trans e2).trans e3, r⟩

/-- `Program::optimize` at every level ≥ 1, from the first round (stage 3) and the two kinds of later steps. -/
theorem optimize_preserves_of_steps (hw : 0 < w) {P P1 : Block w → OptAnalysis w → Prop} {env : Env}
    (hFirst : ∀ (b b1 : Block w) anal1 os os1, CanonL b.insts →
      (optimizeOnce b (topAnalysis [] [])).run os = .ok ((b1, anal1), os1) → P b1 anal1)
    (hDse : ∀ prog anal prog1, P prog anal → deadStoreElimination prog anal = .ok prog1 →
      BehEq prog prog1 env ∧ P1 prog1 anal)
    (hRound : ∀ prog1 anal prog2 anal2 os os2, P1 prog1 anal →
      (optimizeOnce prog1 anal).run os = .ok ((prog2, anal2), os2) → BehEq prog1 prog2 env ∧ P prog2 anal2)
    {b b' : Block w} (hcl : CanonL b.insts) {level : Nat} {orders : Orders}
    (h : Opt.optimize b level orders = .ok b') : BehEq b b' env := by
  rw [optimize_ok_iff] at h
  cases level with
  | zero =>
    rw [optimizeM_zero, run_pure] at h
    cases h
    exact BehEq.refl _ _
  | succ n =>
    rw [optimizeM_succ, run_bind_ok] at h
    obtain ⟨⟨prog, anal⟩, os1, h1, h2⟩ := h
    have e1 := optimizeOnce_preserves_l1 hw hcl h1 env
    obtain ⟨e2, _⟩ := optimizeRounds_preserves hDse hRound _ prog b' anal os1 [] (hFirst b prog anal _ _ hcl h1) h2
    exact e1.trans e2

/-! ### dead store elimination after a round -/

/-- The pass never fails (the Rust never panics) on the output of a round with the analysis of that round. -/
theorem dse_total_after_round {b : Block w} {prevAnal : OptAnalysis w} {os os' : Orders} {b1 : Block w}
    {anal1 : OptAnalysis w} (hr : (optimizeOnce b prevAnal).run os = .ok ((b1, anal1), os'))
    (hcl : CanonL b.insts) : ∃ b2, deadStoreElimination b1 anal1 = .ok b2 := by
  obtain ⟨b2, h2⟩ := C01Dse.eliminate_total (optimizeOnce_shapeOk hr hcl)
  exact ⟨b2, by unfold deadStoreElimination; rw [h2]; rfl⟩

theorem deadStoreElimination_ok {b b2 : Block w} {anal : OptAnalysis w}
    (h : deadStoreElimination b anal = .ok b2) : OptDse.eliminate b anal.toDAnal = some b2 := by
  unfold deadStoreElimination at h
  cases he : OptDse.eliminate b anal.toDAnal with
  | none => rw [he] at h; cases h
  | some x => rw [he] at h; cases h; rfl

/-- The hypothesis of the DSE theorem for the output of the FIRST round, reduced to its `reads` clause. -/
theorem analSound_after_round1 (hw : 0 < w) {b : Block w} (hcl : CanonL b.insts) {os os' : Orders}
    {b1 : Block w} {anal1 : OptAnalysis w}
    (hr : (optimizeOnce b (topAnalysis [] [])).run os = .ok ((b1, anal1), os')) (env : Env)
    (hreads : C01Dse.ReadsFact false 0 b1 anal1.toDAnal env) : C01Dse.AnalSound b1 anal1.toDAnal env :=
  ⟨optimizeOnce_shiftFact hr hcl,
   optimizeOnce_atLeastFact hr hcl (optimizeOnce_onceOk_l1 hw hcl hr env),
   optimizeOnce_atMostFact hr hcl env, hreads⟩

/-- Dead store elimination preserves the observable behaviour in the sense of `BehEq`. -/
theorem behEq_of_eliminate {b b2 : Block w} {anal : OptDse.DAnal} {env : Env}
    (hE : OptDse.eliminate b anal = some b2) (hnd : C01Dse.NoDupTargets b) (hS : C01Dse.AnalSound b anal env) :
    BehEq b b2 env := by
  obtain ⟨h1, h2, h3, h4, h5, h6⟩ := C01Dse.eliminate_preserves hE hnd hS
  refine ⟨?_, ?_, ?_, ?_, h5, h6⟩
  · intro f c hc
    obtain ⟨f', c', hc', t, e, _⟩ := h1 f c hc
    exact ⟨f', c', hc', t, e⟩
  · intro f c hc
    obtain ⟨f', c', hc', t, e, _⟩ := h2 f c hc
    exact ⟨f', c', hc', t, e⟩
  · intro f c hc
    obtain ⟨f', c', hc', t, e, _⟩ := h3 f c hc
    exact ⟨f', c', hc', t, e⟩
  · intro f c hc
    obtain ⟨f', c', hc', t, e, _⟩ := h4 f c hc
    exact ⟨f', c', hc', t, e⟩

/-- First round, then dead store elimination: same observable behaviour, given the `reads` clause. -/
theorem round1_dse_preserves (hw : 0 < w) {b : Block w} (hcl : CanonL b.insts) {os os' : Orders}
    {b1 b2 : Block w} {anal1 : OptAnalysis w}
    (hr : (optimizeOnce b (topAnalysis [] [])).run os = .ok ((b1, anal1), os'))
    (hd : deadStoreElimination b1 anal1 = .ok b2) (env : Env)
    (hreads : C01Dse.ReadsFact false 0 b1 anal1.toDAnal env) : BehEq b b2 env :=
  (optimizeOnce_preserves_l1 hw hcl hr env).trans
    (behEq_of_eliminate (deadStoreElimination_ok hd) (optimizeOnce_noDupTargets hr hcl)
      (analSound_after_round1 hw hcl hr env hreads))

end OptProof
end Hpbf
