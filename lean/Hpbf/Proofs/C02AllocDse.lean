/-
C02 (`allocate_temps`), part 14: `AllocPre` is stable under the changes `dead_store_elim` makes – straight-line
instructions replaced by `noop`, use counts decremented (`DseLike`) – and `deadStoreElim` only makes such changes
(`deadStoreElim_dseLike`).
-/
import Hpbf.Proofs.C02AllocCheck
set_option linter.unusedSimpArgs false

namespace Hpbf
namespace C02
namespace Alloc

open Bc BcWf BcGen C11

variable {w : Nat}

/-- Two range entries that differ at most in the use count. -/
def SameRange (r r' : RangeInfo) : Prop :=
  r'.created = r.created ∧ r'.firstUse = r.firstUse ∧ r'.lastUse = r.lastUse

/-- `s'` is `s` with some straight-line instructions blanked and some use counts changed. -/
structure DseLike (s s' : St w) : Prop where
  live : s'.live = s.live
  writes : s'.writes = s.writes
  insts : ∀ j : Nat, s'.insts[j]? = s.insts[j]? ∨
    (s'.insts[j]? = some Instr.noop ∧ ∃ x, s.insts[j]? = some x ∧ plain x = true)
  ranges : ∀ t : Nat, (s'.ranges[t]? = none ∧ s.ranges[t]? = none) ∨
    ∃ r r', s.ranges[t]? = some r ∧ s'.ranges[t]? = some r' ∧ SameRange r r'

theorem DseLike.refl (s : St w) : DseLike s s :=
  ⟨rfl, rfl, fun _ => Or.inl rfl, fun t => by
    cases h : s.ranges[t]? with
    | none => exact Or.inl ⟨rfl, rfl⟩
    | some r => exact Or.inr ⟨r, r, rfl, rfl, rfl, rfl, rfl⟩⟩

theorem DseLike.trans {s1 s2 s3 : St w} (h : DseLike s1 s2) (g : DseLike s2 s3) : DseLike s1 s3 := by
  refine ⟨g.live.trans h.live, g.writes.trans h.writes, ?_, ?_⟩
  · intro j
    rcases g.insts j with e | ⟨e, x, hx, hp⟩
    · rcases h.insts j with e' | ⟨e', y, hy, hq⟩
      · exact Or.inl (e.trans e')
      · exact Or.inr ⟨e.trans e', y, hy, hq⟩
    · rcases h.insts j with e' | ⟨e', y, hy, hq⟩
      · exact Or.inr ⟨e, x, by rw [← e']; exact hx, hp⟩
      · exact Or.inr ⟨e, y, hy, hq⟩
  · intro t
    rcases g.ranges t with ⟨e1, e2⟩ | ⟨r, r', e1, e2, e3⟩
    · rcases h.ranges t with ⟨f1, f2⟩ | ⟨q, q', f1, f2, _⟩
      · exact Or.inl ⟨e1, f2⟩
      · rw [f2] at e2; cases e2
    · rcases h.ranges t with ⟨f1, f2⟩ | ⟨q, q', f1, f2, f3⟩
      · rw [f1] at e1; cases e1
      · rw [f2] at e1; cases e1
        exact Or.inr ⟨q, r', f1, e2, e3.1.trans f3.1, e3.2.1.trans f3.2.1, e3.2.2.trans f3.2.2⟩

theorem DseLike.inRange {s s' : St w} (h : DseLike s s') {t k : Nat} : InRange s' t k ↔ InRange s t k := by
  constructor
  · rintro ⟨r', L, g1, g2, g3, g4⟩
    rcases h.ranges t with ⟨e1, _⟩ | ⟨r, q, e1, e2, e3⟩
    · rw [e1] at g1; cases g1
    · rw [e2] at g1; cases g1
      exact ⟨r, L, e1, by rw [← e3.2.2]; exact g2, by rw [← e3.1]; exact g3, g4⟩
  · rintro ⟨r, L, g1, g2, g3, g4⟩
    rcases h.ranges t with ⟨_, e1⟩ | ⟨q, r', e1, e2, e3⟩
    · rw [e1] at g1; cases g1
    · rw [e1] at g1; cases g1
      exact ⟨r', L, e2, by rw [e3.2.2]; exact g2, by rw [e3.1]; exact g3, g4⟩

/-- An instruction of `s'` that is not a `noop` is the instruction of `s`. -/
theorem DseLike.inst_of {s s' : St w} (h : DseLike s s') {j : Nat} {x : Instr w} (hx : s'.insts[j]? = some x)
    (hn : x ≠ .noop) : s.insts[j]? = some x := by
  rcases h.insts j with e | ⟨e, _⟩
  · rw [← e]; exact hx
  · rw [hx] at e; exact absurd (Option.some.inj e) hn

theorem mkArith_ne_noop (op : BcGen.Op) (d a b : Loc w) : mkArith op d a b ≠ .noop := by
  cases op <;> simp [mkArith]

/-- **`AllocPre` survives `dead_store_elim`-like changes.** -/
theorem allocPre_of_dseLike {s s' : St w} (hp : AllocPre s) (h : DseLike s s') : AllocPre s' := by
  have hbr : ∀ {j : Nat} {x : Instr w} {off : Int}, s'.insts[j]? = some x → branchOff? x = some off →
      s.insts[j]? = some x := by
    intro j x off hx ho
    exact h.inst_of hx (by intro e; subst e; cases ho)
  refine ⟨by rw [h.live]; exact hp.live0, ?_, ?_, ?_, ?_, ?_, ?_, ?_, ?_⟩
  · intro j ins hj
    rcases h.insts j with e | ⟨e, _⟩
    · exact hp.noZero j ins (by rw [← e]; exact hj)
    · rw [hj] at e; cases e; rfl
  · intro j ins t hj ht
    have hs := h.inst_of hj (by intro e; subst e; cases ht)
    obtain ⟨r, g1, g2⟩ := hp.defs j ins t hs ht
    rcases h.ranges t with ⟨_, e1⟩ | ⟨q, r', e1, e2, e3⟩
    · rw [e1] at g1; cases g1
    · rw [e1] at g1; cases g1
      exact ⟨r', e2, by rw [e3.1]; exact g2⟩
  · intro j ins t hj ht
    have hs := h.inst_of hj (by intro e; subst e; cases ht)
    exact h.inRange.2 (hp.uses j ins t hs ht)
  · intro j ins off k' hj ho hk t ht
    exact h.inRange.2 (hp.flow j ins off k' (hbr hj ho) ho hk t (h.inRange.1 ht))
  · intro t j ins ht hj
    rcases h.insts j with e | ⟨e, _⟩
    · exact hp.ptr t j ins (h.inRange.1 ht) (by rw [← e]; exact hj)
    · rw [hj] at e; cases e; rfl
  · intro j ins m hj hm
    have hs := h.inst_of hj (by intro e; subst e; cases hm)
    rw [h.writes]
    exact hp.writes j ins m hs hm
  · intro i op t s0 s1 r' f hi hr hf
    have hs := h.inst_of hi (mkArith_ne_noop _ _ _ _)
    rcases h.ranges t with ⟨e1, _⟩ | ⟨r, q, e1, e2, e3⟩
    · rw [e1] at hr; cases hr
    · rw [e2] at hr; cases hr
      exact hp.firstLt i op t s0 s1 r f hs e1 (by rw [← e3.2.1]; exact hf)
  · intro i op t s0 s1 f m src hc
    obtain ⟨c1, ⟨r', L, c2, c3, c4⟩, c5⟩ := hc
    have hs1 := h.inst_of c1 (mkArith_ne_noop _ _ _ _)
    have hs5 := h.inst_of c5 (by intro e; cases e)
    have hc' : Cand s i op t s0 s1 f m src := by
      rcases h.ranges t with ⟨e1, _⟩ | ⟨r, q, e1, e2, e3⟩
      · rw [e1] at c2; cases c2
      · rw [e2] at c2; cases c2
        exact ⟨hs1, ⟨r, L, e1, by rw [← e3.2.1]; exact c3, by rw [← e3.2.2]; exact c4⟩, hs5⟩
    obtain ⟨g1, g2, g3⟩ := hp.fuse _ _ _ _ _ _ _ _ hc'
    refine ⟨g1, ?_, ?_⟩
    · intro j x hij hjf hx
      rcases h.insts j with e | ⟨e, _⟩
      · exact g2 j x hij hjf (by rw [← e]; exact hx)
      · rw [hx] at e; cases e; exact ⟨rfl, by simp [BcWf.uses]⟩
    · intro j x off hx ho
      exact g3 j x off (hbr hx ho) ho

/-! ### `deadStoreElim` -/

theorem decUse_sameRange {rs rs' : Array RangeInfo} {l : Loc w} (h : decUse rs l = .ok rs') (t : Nat) :
    (rs'[t]? = none ∧ rs[t]? = none) ∨ ∃ r r', rs[t]? = some r ∧ rs'[t]? = some r' ∧ SameRange r r' := by
  have hrefl : (rs[t]? = none ∧ rs[t]? = none) ∨ ∃ r r', rs[t]? = some r ∧ rs[t]? = some r' ∧ SameRange r r' := by
    cases hr : rs[t]? with
    | none => exact Or.inl ⟨rfl, rfl⟩
    | some r => exact Or.inr ⟨r, r, rfl, rfl, rfl, rfl, rfl⟩
  cases l with
  | tmp u =>
    simp only [decUse] at h
    cases hu : rs[u]? with
    | none => simp [hu] at h
    | some ru =>
      simp only [hu] at h
      split at h
      · cases h
      · cases h
        by_cases e : u = t
        · subst e
          have hlt : u < rs.size := lt_of_getElem? hu
          refine Or.inr ⟨ru, { ru with numUses := ru.numUses - 1 }, hu, ?_, rfl, rfl, rfl⟩
          rw [Array.getElem?_setIfInBounds]; simp [hlt]
        · rw [Array.getElem?_setIfInBounds]
          simp only [e, false_and, if_false]
          exact hrefl
  | mem m => simp only [decUse, Except.ok.injEq] at h; subst h; exact hrefl
  | memZero m => simp only [decUse, Except.ok.injEq] at h; subst h; exact hrefl
  | imm c => simp only [decUse, Except.ok.injEq] at h; subst h; exact hrefl

theorem foldlM_decUse_sameRange : ∀ (srcs : List (Loc w)) {rs rs' : Array RangeInfo},
    srcs.foldlM decUse rs = .ok rs' → ∀ t : Nat,
    (rs'[t]? = none ∧ rs[t]? = none) ∨ ∃ r r', rs[t]? = some r ∧ rs'[t]? = some r' ∧ SameRange r r'
  | [], rs, rs', h, t => by
    simp only [List.foldlM, pure, Except.pure, Except.ok.injEq] at h
    subst h
    cases hr : rs[t]? with
    | none => exact Or.inl ⟨rfl, rfl⟩
    | some r => exact Or.inr ⟨r, r, rfl, rfl, rfl, rfl, rfl⟩
  | l :: ls, rs, rs', h, t => by
    simp only [List.foldlM, bind, Except.bind] at h
    cases h1 : decUse rs l with
    | error e => rw [h1] at h; cases h
    | ok rs1 =>
      rw [h1] at h
      have a := decUse_sameRange h1 t
      have b := foldlM_decUse_sameRange ls h t
      rcases b with ⟨e1, e2⟩ | ⟨r, r', e1, e2, e3⟩
      · rcases a with ⟨f1, f2⟩ | ⟨q, q', f1, f2, _⟩
        · exact Or.inl ⟨e1, f2⟩
        · rw [f2] at e2; cases e2
      · rcases a with ⟨f1, f2⟩ | ⟨q, q', f1, f2, f3⟩
        · rw [f1] at e1; cases e1
        · rw [f2] at e1; cases e1
          exact Or.inr ⟨q, r', f1, e2, e3.1.trans f3.1, e3.2.1.trans f3.2.1, e3.2.2.trans f3.2.2⟩

theorem dseStep_dseLike {i : Nat} {s s' : St w} {dead dead' : List Int}
    (h : dseStep i s dead = .ok (s', dead')) : DseLike s s' := by
  unfold dseStep at h
  cases hi : s.insts[i]? with
  | none => simp [hi] at h
  | some inst =>
    simp only [hi] at h
    -- the two possible results
    have hkill : ∀ (srcs : List (Loc w)), plain inst = true →
        (do
          let rs ← srcs.foldlM decUse s.ranges
          pure ({ s with ranges := rs, insts := s.insts.setIfInBounds i .noop }, dead) :
            Except String (St w × List Int)) = .ok (s', dead') → DseLike s s' := by
      intro srcs hpl hk
      simp only [bind, Except.bind] at hk
      cases hf : srcs.foldlM decUse s.ranges with
      | error e => rw [hf] at hk; cases hk
      | ok rs =>
        rw [hf] at hk
        simp only [pure, Except.pure, Except.ok.injEq, Prod.mk.injEq] at hk
        obtain ⟨rfl, _⟩ := hk
        refine ⟨rfl, rfl, ?_, foldlM_decUse_sameRange srcs hf⟩
        intro j
        simp only [Array.getElem?_setIfInBounds]
        by_cases e : i = j
        · subst e
          have hlt : i < s.insts.size := lt_of_getElem? hi
          simp only [hlt, and_self, if_true]
          exact Or.inr ⟨trivial, inst, hi, hpl⟩
        · simp [e]
    have hsame : ∀ d, (pure (s, d) : Except String (St w × List Int)) = .ok (s', dead') → DseLike s s' := by
      intro d hk
      simp only [pure, Except.pure, Except.ok.injEq, Prod.mk.injEq] at hk
      rw [← hk.1]; exact DseLike.refl s
    have harith : ∀ (d a b : Loc w), plain inst = true →
        (match (d : Loc w) with
          | .mem mem => if dead.contains mem then
              (do
                let rs ← [a, b].foldlM decUse s.ranges
                pure ({ s with ranges := rs, insts := s.insts.setIfInBounds i .noop }, dead))
              else pure (s, dseReads (setInsert dead mem) inst)
          | .tmp tmp =>
            match s.ranges[tmp]? with
            | none => .error "dead_store_elim:ranges-index"
            | some r =>
              if r.numUses = 0 then
                (do
                  let rs ← [a, b].foldlM decUse s.ranges
                  pure ({ s with ranges := rs, insts := s.insts.setIfInBounds i .noop }, dead))
              else pure (s, dseReads dead inst)
          | _ => pure (s, dseReads dead inst) : Except String (St w × List Int)) = .ok (s', dead') →
        DseLike s s' := by
      intro d a b hpl hk
      cases d with
      | mem m =>
        simp only at hk
        split at hk
        · exact hkill _ hpl hk
        · exact hsame _ hk
      | tmp t =>
        simp only at hk
        cases hr : s.ranges[t]? with
        | none => simp [hr] at hk
        | some r =>
          simp only [hr] at hk
          split at hk
          · exact hkill _ hpl hk
          · exact hsame _ hk
      | memZero m => exact hsame _ hk
      | imm c => exact hsame _ hk
    cases inst with
    | copy d src =>
      cases d with
      | mem m =>
        simp only at h
        split at h
        · exact hkill _ rfl h
        · exact hsame _ h
      | tmp t => simp only [arith?] at h; exact hsame _ h
      | memZero m => simp only [arith?] at h; exact hsame _ h
      | imm c => simp only [arith?] at h; exact hsame _ h
    | add d a b =>
      simp only [arith?] at h
      refine harith d a b rfl ?_
      cases d <;> exact h
    | sub d a b =>
      simp only [arith?] at h
      refine harith d a b rfl ?_
      cases d <;> exact h
    | mul d a b =>
      simp only [arith?] at h
      refine harith d a b rfl ?_
      cases d <;> exact h
    | noop => simp only [arith?] at h; exact hsame _ h
    | scan c sh => simp only [arith?] at h; exact hsame _ h
    | mov sh => simp only [arith?] at h; exact hsame _ h
    | inp d => simp only [arith?] at h; exact hsame _ h
    | out d => simp only [arith?] at h; exact hsame _ h
    | brz c off => simp only [arith?] at h; exact hsame _ h
    | brnz c off => simp only [arith?] at h; exact hsame _ h

theorem dseLoop_dseLike : ∀ (n : Nat) {s s' : St w} {dead : List Int}, dseLoop n s dead = .ok s' → DseLike s s'
  | 0, s, s', dead, h => by
    simp only [dseLoop, Except.ok.injEq] at h
    subst h; exact DseLike.refl s
  | n + 1, s, s', dead, h => by
    simp only [dseLoop] at h
    cases hs : dseStep n s dead with
    | error e => rw [hs] at h; cases h
    | ok p =>
      obtain ⟨s1, d1⟩ := p
      rw [hs] at h
      exact (dseStep_dseLike hs).trans (dseLoop_dseLike n h)

theorem deadStoreElim_dseLike {s s' : St w} (h : deadStoreElim s = .ok s') : DseLike s s' :=
  dseLoop_dseLike _ h

/-- `AllocPre` before `dead_store_elim` gives `AllocPre` after it. -/
theorem allocPre_of_deadStoreElim {s s' : St w} (hp : AllocPre s) (h : deadStoreElim s = .ok s') : AllocPre s' :=
  allocPre_of_dseLike hp (deadStoreElim_dseLike h)

end Alloc
end C02
end Hpbf
