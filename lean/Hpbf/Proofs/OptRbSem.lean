/-
Rebuild-round proofs, part 1: a big-step ("natural") semantics of IR instruction lists with PARTIAL
observations, so that all reasoning about the optimizer is by induction on finite derivations (no
coinduction, no fuel bookkeeping), and the vocabulary for behavioural equivalence.

`Exec is σ o`: running the instruction list `is` from state `σ` (unlimited mode) can be observed as `o`:
* `.fin σ'`  – ran to the end of the list, final state `σ'`;
* `.stop σ'` – stopped at a failing I/O operation, state `σ'`;
* `.part t`  – the run was cut off at some instruction boundary when its trace was `t` (always possible
               at the start; a diverging run has only such observations).
The `once` flag of loops is ignored (as `Ir.step` does).

Adequacy with respect to `Ir.run` is in `OptRbAdeq.lean`.
-/
import Hpbf.Proofs.OptRbMap

namespace Hpbf
namespace OptProof
open Opt OptSem Ir

variable {w : Nat}

/-- Observation of a run of an instruction list. -/
inductive Out (w : Nat) where
  | fin (σ : State w)
  | stop (σ : State w)
  | part (t : List Ev)

def Out.trace : Out w → List Ev
  | .fin σ => σ.trace
  | .stop σ => σ.trace
  | .part t => t

def Out.isFin : Out w → Bool
  | .fin _ => true
  | _ => false

/-- Big-step semantics with partial observations. -/
inductive Exec : List (Instr w) → State w → Out w → Prop
  | cut (is : List (Instr w)) (σ : State w) : Exec is σ (.part σ.trace)
  | nil (σ : State w) : Exec [] σ (.fin σ)
  | outOk {src : Int} {rest : List (Instr w)} {σ σ1 : State w} {o : Out w} :
      σ.output src = (true, σ1) → Exec rest σ1 o → Exec (.output src :: rest) σ o
  | outFail {src : Int} {rest : List (Instr w)} {σ σ1 : State w} :
      σ.output src = (false, σ1) → Exec (.output src :: rest) σ (.stop σ1)
  | inOk {dst : Int} {rest : List (Instr w)} {σ σ1 : State w} {o : Out w} :
      σ.input dst = (true, σ1) → Exec rest σ1 o → Exec (.input dst :: rest) σ o
  | inFail {dst : Int} {rest : List (Instr w)} {σ σ1 : State w} :
      σ.input dst = (false, σ1) → Exec (.input dst :: rest) σ (.stop σ1)
  | calc {calcs : List (Int × Expr w)} {rest : List (Instr w)} {σ : State w} {o : Out w} :
      Exec rest (doCalc σ calcs) o → Exec (.calc calcs :: rest) σ o
  | loopSkip {cond shift : Int} {body : List (Instr w)} {once : Bool} {rest : List (Instr w)}
      {σ : State w} {o : Out w} :
      σ.rd cond = 0#w → Exec rest σ o → Exec (.loop cond shift body once :: rest) σ o
  | loopIter {cond shift : Int} {body : List (Instr w)} {once : Bool} {rest : List (Instr w)}
      {σ σ1 : State w} {o : Out w} :
      σ.rd cond ≠ 0#w → Exec body σ (.fin σ1) →
      Exec (.loop cond shift body once :: rest) (σ1.mov shift) o →
      Exec (.loop cond shift body once :: rest) σ o
  | loopIn {cond shift : Int} {body : List (Instr w)} {once : Bool} {rest : List (Instr w)}
      {σ : State w} {o : Out w} :
      σ.rd cond ≠ 0#w → Exec body σ o → o.isFin = false →
      Exec (.loop cond shift body once :: rest) σ o
  | ifSkip {cond shift : Int} {body : List (Instr w)} {rest : List (Instr w)} {σ : State w} {o : Out w} :
      σ.rd cond = 0#w → Exec rest σ o → Exec (.ifnz cond shift body :: rest) σ o
  | ifIter {cond shift : Int} {body : List (Instr w)} {rest : List (Instr w)} {σ σ1 : State w} {o : Out w} :
      σ.rd cond ≠ 0#w → Exec body σ (.fin σ1) → Exec rest (σ1.mov shift) o →
      Exec (.ifnz cond shift body :: rest) σ o
  | ifIn {cond shift : Int} {body : List (Instr w)} {rest : List (Instr w)} {σ : State w} {o : Out w} :
      σ.rd cond ≠ 0#w → Exec body σ o → o.isFin = false →
      Exec (.ifnz cond shift body :: rest) σ o

/-- Execution reaches a loop marked `once` whose condition cell is zero (the situation excluded by
`C02.OnceOk`). -/
inductive Bad : List (Instr w) → State w → Prop
  | here {cond shift : Int} {body rest : List (Instr w)} {σ : State w} :
      σ.rd cond = 0#w → Bad (.loop cond shift body true :: rest) σ
  | outOk {src : Int} {rest : List (Instr w)} {σ σ1 : State w} :
      σ.output src = (true, σ1) → Bad rest σ1 → Bad (.output src :: rest) σ
  | inOk {dst : Int} {rest : List (Instr w)} {σ σ1 : State w} :
      σ.input dst = (true, σ1) → Bad rest σ1 → Bad (.input dst :: rest) σ
  | calc {calcs : List (Int × Expr w)} {rest : List (Instr w)} {σ : State w} :
      Bad rest (doCalc σ calcs) → Bad (.calc calcs :: rest) σ
  | loopSkip {cond shift : Int} {body : List (Instr w)} {once : Bool} {rest : List (Instr w)} {σ : State w} :
      σ.rd cond = 0#w → Bad rest σ → Bad (.loop cond shift body once :: rest) σ
  | loopIter {cond shift : Int} {body : List (Instr w)} {once : Bool} {rest : List (Instr w)}
      {σ σ1 : State w} :
      σ.rd cond ≠ 0#w → Exec body σ (.fin σ1) →
      Bad (.loop cond shift body false :: rest) (σ1.mov shift) →
      Bad (.loop cond shift body once :: rest) σ
  | loopIn {cond shift : Int} {body : List (Instr w)} {once : Bool} {rest : List (Instr w)} {σ : State w} :
      σ.rd cond ≠ 0#w → Bad body σ → Bad (.loop cond shift body once :: rest) σ
  | ifSkip {cond shift : Int} {body : List (Instr w)} {rest : List (Instr w)} {σ : State w} :
      σ.rd cond = 0#w → Bad rest σ → Bad (.ifnz cond shift body :: rest) σ
  | ifIter {cond shift : Int} {body : List (Instr w)} {rest : List (Instr w)} {σ σ1 : State w} :
      σ.rd cond ≠ 0#w → Exec body σ (.fin σ1) → Bad rest (σ1.mov shift) →
      Bad (.ifnz cond shift body :: rest) σ
  | ifIn {cond shift : Int} {body : List (Instr w)} {rest : List (Instr w)} {σ : State w} :
      σ.rd cond ≠ 0#w → Bad body σ → Bad (.ifnz cond shift body :: rest) σ

/-- `src` run from `σS` and `tgt` run from `σE` have the same observable behaviour; runs that reach the end
do so in states related by `Q`. -/
structure Sim (Q : State w → State w → Prop) (src tgt : List (Instr w)) (σS σE : State w) : Prop where
  finL : ∀ σS', Exec src σS (.fin σS') → ∃ σE', Exec tgt σE (.fin σE') ∧ Q σS' σE'
  stopL : ∀ σS', Exec src σS (.stop σS') →
    ∃ σE', Exec tgt σE (.stop σE') ∧ σE'.trace = σS'.trace ∧ σE'.env = σS'.env
  partL : ∀ t, Exec src σS (.part t) → Exec tgt σE (.part t)
  finR : ∀ σE', Exec tgt σE (.fin σE') → ∃ σS', Exec src σS (.fin σS') ∧ Q σS' σE'
  stopR : ∀ σE', Exec tgt σE (.stop σE') →
    ∃ σS', Exec src σS (.stop σS') ∧ σE'.trace = σS'.trace ∧ σE'.env = σS'.env
  partR : ∀ t, Exec tgt σE (.part t) → Exec src σS (.part t)

end OptProof
end Hpbf
