/-
C03 (control flow), stage 2: `mov` WITH bounds check (`safe`): the probe (`lea; sub; sar; cmp; jb rel8`) and the
body that calls `hpbf_context_extend` and reloads the tape pointer.
-/
import Hpbf.Proofs.C03FlowIO
namespace Hpbf
namespace C03
open Asm JitGen X86Sem X86Prog
variable {w : Nat}


/-- `lea rax, [rbp + d]`. -/
theorem step_leaRax {cfg : Cfg} {code : List X86} {d : Int} {rest : List X86} {s : PState w}
    (hat : At cfg code s.pc (.lea scr0 (.mem (some memr) none 1 d) :: rest))
    (hfit : (X86.lea scr0 (.mem (some memr) none 1 d)).fits = true) :
    step cfg s = .next { s with regs := s.regs.set .rax (s.regs.get .rbp + immVal d),
                                pc := s.pc + (X86.lea scr0 (.mem (some memr) none 1 d)).size } := by
  rw [step_at hat]
  step_open hfit
  have hfit' : (X86.lea .rax (.mem (some .rbp) none 1 d)).fits = true := hfit
  simp only [scr0, memr, reduceCtorEq, if_false, stepPlain, exec, hfit', if_true, execCore, leaAddr, true_or,
    Option.bind_eq_bind, Option.bind_some, writeReg, or_self, placeOf, rmOf, Option.bind_none, sizedWrite_b64]
  rfl

/-- `sub rax, [rbx+0]`. -/
theorem step_subBuf {cfg : Cfg} {code : List X86} {rest : List X86} {s : PState w}
    (hat : At cfg code s.pc (sub64 scr0 (.mem (some cxt) none 1 0) :: rest))
    (hrbx : s.regs.rbx = cfg.cxtAddr) :
    ∃ z c, step cfg s = .next { s with regs := s.regs.set .rax (s.regs.get .rax - s.buf), zf := z, cf := c,
                                       pc := s.pc + (sub64 scr0 (.mem (some cxt) none 1 0)).size } := by
  rw [step_at hat]
  step_open (show (sub64 scr0 (.mem (some cxt) none 1 0)).fits = true by decide)
  have : s.regs.get .rbx = cfg.cxtAddr := hrbx
  simp only [sub64, scr0, cxt, cxtDisp, Option.isSome_some, and_self, if_true, stepSubCxt, reduceCtorEq,
    or_self, if_false, src64, this, cxtField, alu, trunc64]
  exact ⟨_, _, rfl⟩

/-- `sar rax, k`. -/
theorem step_sarRax {cfg : Cfg} {code : List X86} {k : Nat} (hk : k < 64) {rest : List X86} {s : PState w}
    (hat : At cfg code s.pc (.sarRmImm8 (.reg scr0) k :: rest)) :
    ∃ z c, step cfg s = .next { s with regs := s.regs.set .rax ((s.regs.get .rax).sshiftRight k), zf := z,
                                       cf := c, pc := s.pc + (X86.sarRmImm8 (.reg scr0) k).size } := by
  rw [step_at hat]
  step_open (show (X86.sarRmImm8 (.reg scr0) k).fits = true by simp [X86.fits, RegMem.fits]; omega)
  simp only [scr0, stepSar, reduceCtorEq, false_or, show ¬ 64 ≤ k from by omega, if_false, PState.adv,
    PState.setReg]
  exact ⟨_, _, rfl⟩

/-- `cmp rax, [rbx+8]`: CF iff `rax < size` (unsigned). -/
theorem step_cmpSize {cfg : Cfg} {code : List X86} {rest : List X86} {s : PState w}
    (hat : At cfg code s.pc (.cmpRRm scr0 (.mem (some cxt) none 1 8) :: rest))
    (hrbx : s.regs.rbx = cfg.cxtAddr) :
    ∃ z, step cfg s = .next { s with zf := z, cf := some (decide ((s.regs.get .rax).toNat < s.size.toNat)),
                                     pc := s.pc + (X86.cmpRRm scr0 (.mem (some cxt) none 1 8)).size } := by
  rw [step_at hat]
  step_open (show (X86.cmpRRm scr0 (.mem (some cxt) none 1 8)).fits = true by decide)
  have : s.regs.get .rbx = cfg.cxtAddr := hrbx
  simp only [scr0, cxt, stepCmpRRm, src64, this, if_true, cxtField, cmpFlags, alu, trunc64, PState.adv]
  exact ⟨_, rfl⟩

/-- `jb rel8`. -/
theorem step_jb8 {cfg : Cfg} {code : List X86} {d : Int} {rest : List X86} {s : PState w}
    (hat : At cfg code s.pc (.jccRel8 .below d :: rest)) (hfit : (X86.jccRel8 .below d).fits = true)
    {b : Bool} (hb : s.cf = some b) {t : Nat} (ht : (s.pc : Int) + 2 + d = t) :
    step cfg s = .next { s with pc := if b then t else s.pc + 2 } := by
  rw [step_at hat]
  step_open hfit
  simp only [stepJcc]
  have hj : jumpTo s (.jccRel8 .below d) d = .next { s with pc := t } := jumpTo_eq (by simpa using ht)
  cases b <;> simp [X86Prog.cond, hb, hj, PState.adv]

/-- `mov [rbx+16], rax`. -/
theorem step_storeOff {cfg : Cfg} {code : List X86} {rest : List X86} {s : PState w}
    (hat : At cfg code s.pc (st64 (.mem (some cxt) none 1 16) scr0 :: rest))
    (hrbx : s.regs.rbx = cfg.cxtAddr) :
    step cfg s = .next ({ s with off := s.regs.get .rax }.adv (st64 (.mem (some cxt) none 1 16) scr0)) := by
  rw [step_at hat]
  have hfit : (st64 (.mem (some cxt) none 1 16) scr0).fits = true := by decide
  step_open hfit
  have : s.regs.get .rbx = cfg.cxtAddr := hrbx
  simp [st64, cxt, cxtDisp, stepStoreCxt, this, scr0]

/-- `mov rbp, [rbx+0]`. -/
theorem step_loadRbpBuf {cfg : Cfg} {code : List X86} {rest : List X86} {s s' : PState w}
    (hat : At cfg code s.pc (mov64 memr (.mem (some cxt) none 1 0) :: rest))
    (hrbx : s.regs.rbx = cfg.cxtAddr) (hl : loadRbp s s.buf = some s') :
    step cfg s = .next (s'.adv (mov64 memr (.mem (some cxt) none 1 0))) := by
  rw [step_at hat]
  step_open (show (mov64 memr (.mem (some cxt) none 1 0)).fits = true by decide)
  have : s.regs.get .rbx = cfg.cxtAddr := hrbx
  simp only [mov64, memr, cxt, and_self, if_true, stepLoadRbp, src64, this, cxtField, hl]

/-- `lea rbp, [rbp + rax*scale + d]`. -/
theorem step_leaRbp {cfg : Cfg} {code : List X86} {scale : Nat} {d : Int} {rest : List X86} {s s' : PState w}
    (hat : At cfg code s.pc (.lea memr (.mem (some memr) (some scr0) scale d) :: rest))
    (hfit : (X86.lea memr (.mem (some memr) (some scr0) scale d)).fits = true)
    (hsc : scale = 1 ∨ scale = 2 ∨ scale = 4 ∨ scale = 8)
    (hm : moveRbp s ((s.regs.get .rax).toInt * scale + d) = some s') :
    step cfg s = .next (s'.adv (.lea memr (.mem (some memr) (some scr0) scale d))) := by
  rw [step_at hat]
  step_open hfit
  simp only [memr, scr0, if_true, stepLeaRbp, hsc, reduceCtorEq, ne_eq, not_false_eq_true, and_self, hm]


theorem toInt_ofInt_small {q : Int} (h : -(2 ^ 63) ≤ q ∧ q < 2 ^ 63) : (BitVec.ofInt 64 q).toInt = q := by
  rw [BitVec.toInt_ofInt]
  exact Int.bmod_eq_of_le (by omega) (by omega)

theorem toNat_ofInt_small {q : Int} (h : -(2 ^ 63) ≤ q ∧ q < 2 ^ 63) :
    ((BitVec.ofInt 64 q).toNat : Int) = if 0 ≤ q then q else q + 2 ^ 64 := by
  rw [BitVec.toNat_ofInt]
  split <;> omega

/-- Arithmetic shift undoes the multiplication by the cell size. -/
theorem sar_mul {k : Nat} (hk : k ≤ 3) {q : Int} (h : -(2 ^ 59) ≤ q ∧ q < 2 ^ 59) :
    (BitVec.ofInt 64 ((2 ^ k : Nat) * q)).sshiftRight k = BitVec.ofInt 64 q := by
  apply BitVec.eq_of_toInt_eq
  have hk' : k = 0 ∨ k = 1 ∨ k = 2 ∨ k = 3 := by omega
  rw [BitVec.toInt_sshiftRight, Int.shiftRight_eq_div_pow, toInt_ofInt_small (q := q) (by omega)]
  rcases hk' with rfl | rfl | rfl | rfl
  · rw [toInt_ofInt_small (by simp only [Nat.pow_zero]; omega)]; simp
  · rw [toInt_ofInt_small (by simp only [Nat.pow_one]; omega)]; simp only [Nat.pow_one]; omega
  · rw [toInt_ofInt_small (by simp only [show (2:Nat)^2 = 4 from rfl]; omega)]
    simp only [show (2:Nat)^2 = 4 from rfl]; omega
  · rw [toInt_ofInt_small (by simp only [show (2:Nat)^3 = 8 from rfl]; omega)]
    simp only [show (2:Nat)^3 = 8 from rfl]; omega

/-- The unsigned comparison of the probe index with the size is the bounds test. -/
theorem probe_test {q : Int} (h : -(2 ^ 62) ≤ q ∧ q < 2 ^ 62) {n : Nat} (hn : n < 2 ^ 62) :
    decide ((BitVec.ofInt 64 q).toNat < n) = (decide (0 ≤ q) && decide (q < n)) := by
  have := toNat_ofInt_small (q := q) (by omega)
  by_cases h0 : 0 ≤ q
  · simp only [h0, if_true] at this
    simp only [h0, decide_true, Bool.true_and]
    congr 1
    apply propext
    omega
  · simp only [h0, if_false] at this
    simp only [h0, decide_false, Bool.false_and, decide_eq_false_iff_not]
    omega

/-- `make_accessible(0, 1)` with `offset` = index `q` of a cell outside `[0, size)`: the allocation grows,
by `ab` cells below. -/
theorem growth_probe {q : Int} (h : -(2 ^ 60) ≤ q ∧ q < 2 ^ 60) {n : Nat} (hn : n < 2 ^ 60)
    (hout : ¬ (0 ≤ q ∧ q < n)) :
    let g := ({ buf := #[], size := n, offset := (BitVec.ofInt 64 q).toNat } : Mem 8).growth 0 1
    ¬ (g.1 = 0 ∧ g.2.1 = 0) ∧ g.2.2.2 < 2 ^ 62 ∧ g.2.2.1 < 2 ^ 62 ∧
      (0 ≤ q + g.2.2.2 ∧ q + g.2.2.2 < g.2.2.1) := by
  have hoff := toNat_ofInt_small (q := q) (by omega)
  have hlt := (BitVec.ofInt 64 q).isLt
  have a1 : asI64 (BitVec.ofInt 64 q).toNat = q := by
    unfold asI64 two63 two64
    split <;> split at hoff <;> omega
  have a2 : asI64 n = n := by unfold asI64 two63; rw [if_pos (by omega)]
  have hs : asI64 (wrapU64 (q + 0)) = q := by
    unfold asI64 wrapU64 two63 two64
    split <;> omega
  have he : asI64 (wrapU64 (q + 1)) = q + 1 := by
    unfold asI64 wrapU64 two63 two64
    split <;> omega
  intro g
  have hg : g = ({ buf := #[], size := n, offset := (BitVec.ofInt 64 q).toNat } : Mem 8).growth 0 1 := rfl
  unfold Mem.growth at hg
  simp only [a1, a2, hs, he] at hg
  by_cases hneg : q < 0
  · have hna : ¬ (q + 1 > (n : Int)) := by omega
    simp only [hneg, if_true, hna, if_false] at hg
    have e1 : q.natAbs ≠ 0 := by omega
    simp only [e1, if_false, if_true, Nat.add_zero] at hg
    rw [hg]
    simp only
    refine ⟨by omega, ?_, ?_, ?_, ?_⟩ <;> omega
  · have hge : (n : Int) ≤ q := by omega
    have hna : q + 1 > (n : Int) := by omega
    have hw : wrapU64 (q + 1 - (n : Int)) = (q + 1 - n).toNat := by unfold wrapU64 two64; omega
    simp only [hneg, if_false, hna, if_true, hw] at hg
    rw [hg]
    simp only
    refine ⟨by omega, ?_, ?_, ?_, ?_⟩ <;> omega

/-- `s'` is `s` after the tape pointer moved by `sh` cells; `rax`, `rcx`, flags, `pc`, `oob`, `off` are free. -/
structure Moved (s s' : PState w) (sh : Int) : Prop where
  regs : ∀ r, r ≠ .rax → r ≠ .rcx → r ≠ .rbp → s'.regs.get r = s.regs.get r
  rbp : s'.regs.get .rbp = s.regs.get .rbp + BitVec.ofInt 64 (cellBytes w * sh)
  lptr : s'.lptr = s.lptr + sh
  tape : s'.tape = s.tape
  stk : s'.stk = s.stk
  tapeOk : s'.tapeOk = s.tapeOk
  buf : s'.buf = s.buf
  size : s'.size = s.size
  base : s'.base = s.base
  budget : s'.budget = s.budget
  env : s'.env = s.env
  trace : s'.trace = s.trace

theorem Moved.sameTmp {s s1 s2 : PState w} {sh : Int} (h : Moved s s1 sh) (h2 : SameTmp s1 s2)
    (hb : s2.budget = s1.budget) : Moved s s2 sh :=
  ⟨fun r h1 h2' h3 => (h2.regs r h1 h2').trans (h.regs r h1 h2' h3),
   (h2.regs .rbp (by decide) (by decide)).trans h.rbp, h2.lptr.trans h.lptr, h2.tape.trans h.tape,
   h2.stk.trans h.stk, h2.tapeOk.trans h.tapeOk, h2.buf.trans h.buf, h2.size.trans h.size,
   h2.base.trans h.base, hb.trans h.budget, h2.env.trans h.env, h2.trace.trans h.trace⟩

/-- After the move the tape is seen shifted: agreement with the moved bytecode state. -/
theorem Moved.relOn {s s' : PState w} {sh : Int} (h : Moved s s' sh) {S : Nat → Prop} {c : Bc.Cfg w}
    (hr : RelOn S c (view s)) : RelOn S { c with st := c.st.mov sh } (view s') := by
  refine ⟨fun t r htr hS => ?_, fun t ht => ?_, fun o => ?_⟩
  · obtain ⟨hlt, rfl⟩ := tmpReg_eq_some.1 htr
    have hne := treg_ne hlt
    have := hr.1 t _ htr hS
    simp only [view] at this ⊢
    rw [h.regs _ hne.1 hne.2.1 hne.2.2.2.2]; exact this
  · have := hr.2.1 t ht
    simp only [view] at this ⊢
    rw [h.stk]; exact this
  · have := hr.2.2 (sh + o)
    simp only [view, State.rd, State.mov] at this ⊢
    rw [h.tape, h.lptr, Int.add_assoc, this, Int.add_assoc]

theorem Moved.phys {s s' : PState w} {sh : Int} (h : Moved s s' sh) (hp : Phys s) : Phys s' := by
  unfold Phys at *
  have e : s'.regs.rbp = s'.regs.get .rbp := rfl
  have e' : s.regs.get .rbp = s.regs.rbp := rfl
  rw [e, h.rbp, e', hp, h.buf, h.lptr, h.base, BitVec.add_assoc, ← BitVec.ofInt_add]
  congr 2
  rw [Int.mul_sub, Int.mul_sub, Int.mul_add]; omega


/-- The probe of the bounds-checked `mov`. -/
def probeCode (sz : Size) (sh pr : Int) : List X86 :=
  [addImm64 (.reg memr) ((sz.bytes : Int) * sh),
   .lea scr0 (.mem (some memr) none 1 ((sz.bytes : Int) * pr)),
   sub64 scr0 (.mem (some cxt) none 1 0)] ++
  (if sz != .b8 then [.sarRmImm8 (.reg scr0) (Nat.log2 sz.bytes)] else []) ++
  [.cmpRRm scr0 (.mem (some cxt) none 1 8)]

theorem bytes_pow (sz : Size) : sz.bytes = 2 ^ Nat.log2 sz.bytes ∧ Nat.log2 sz.bytes ≤ 3 ∧
    ((sz != .b8) = false → Nat.log2 sz.bytes = 0) := by
  cases sz <;> refine ⟨by decide, by decide, by decide⟩

theorem mov_probe {cfg : Cfg} {code : List X86} {sz : Size} (hsz : sz.bits = w) {sh pr : Int}
    (hsh : -2147483648 ≤ sh ∧ sh < 2147483648) (hpr : -2147483648 ≤ pr ∧ pr < 2147483648)
    {rest : List X86} {s : PState w} (hat : At cfg code s.pc (probeCode sz sh pr ++ rest))
    (hf1 : (addImm64 (.reg memr) ((sz.bytes : Int) * sh)).fits = true)
    (hf2 : (X86.lea scr0 (.mem (some memr) none 1 ((sz.bytes : Int) * pr))).fits = true)
    (hrbx : s.regs.rbx = cfg.cxtAddr) (hphys : Phys s)
    (hb1 : s.size.toNat < 2 ^ 40) (hb2 : -(2 ^ 40) < s.lptr - s.base ∧ s.lptr - s.base < 2 ^ 40) :
    ∃ n s5, steps cfg n s = some s5 ∧ Moved s s5 sh ∧ s5.off = s.off ∧
      s5.regs.get .rax = BitVec.ofInt 64 (s.lptr + sh - s.base + pr) ∧
      s5.cf = some (decide (0 ≤ s.lptr + sh - s.base + pr) && decide (s.lptr + sh - s.base + pr < s.size.toNat)) ∧
      s5.pc = s.pc + sizeAll (probeCode sz sh pr) := by
  obtain ⟨hb, hb0⟩ := bytes_eq hsz
  obtain ⟨hpow, hk3, hk0⟩ := bytes_pow sz
  obtain ⟨q, hq⟩ : ∃ q, q = s.lptr + sh - s.base + pr := ⟨_, rfl⟩
  rw [← hq]
  unfold probeCode at hat ⊢
  simp only [List.append_assoc, List.cons_append, List.nil_append] at hat
  -- add rbp
  obtain ⟨z1, c1, h1⟩ := step_addRbp hsz hat hf1
  obtain ⟨s1, hs1, e1⟩ : ∃ x : PState w, step cfg s = .next x ∧ x = _ := ⟨_, h1, rfl⟩
  have hat1 := hat.tail
  rw [show s.pc + (addImm64 (.reg memr) ((sz.bytes : Int) * sh)).size = s1.pc by rw [e1]] at hat1
  -- lea rax
  have h2 := step_leaRax hat1 hf2
  obtain ⟨s2, hs2, e2⟩ : ∃ x : PState w, step cfg s1 = .next x ∧ x = _ := ⟨_, h2, rfl⟩
  have hat2 := hat1.tail
  rw [show s1.pc + (X86.lea scr0 (.mem (some memr) none 1 ((sz.bytes : Int) * pr))).size = s2.pc by rw [e2]] at hat2
  -- sub rax, buf
  have hrbx2 : s2.regs.rbx = cfg.cxtAddr := by
    show s2.regs.get .rbx = _
    rw [e2, e1]; simp; exact hrbx
  obtain ⟨z3, c3, h3⟩ := step_subBuf hat2 hrbx2
  obtain ⟨s3, hs3, e3⟩ : ∃ x : PState w, step cfg s2 = .next x ∧ x = _ := ⟨_, h3, rfl⟩
  have hat3 := hat2.tail
  rw [show s2.pc + (sub64 scr0 (.mem (some cxt) none 1 0)).size = s3.pc by rw [e3]] at hat3
  have hm3 : Moved s s3 sh := by
    rw [e3, e2, e1]
    refine ⟨fun r h1 _ h3 => by simp [h1, h3], ?_, rfl, rfl, rfl, rfl, rfl, rfl, rfl, rfl, rfl, rfl⟩
    simp [hb]
  have hoff3 : s3.off = s.off := by rw [e3, e2, e1]
  have hrax3 : s3.regs.get .rax = BitVec.ofInt 64 ((sz.bytes : Int) * q) := by
    rw [e3, e2, e1]
    simp only [regfile_set_get, if_true, reduceCtorEq, if_false, immVal]
    have hp := hphys
    unfold Phys at hp
    have e' : s.regs.get .rbp = s.regs.rbp := rfl
    rw [e', hp]
    have : s.buf + BitVec.ofInt 64 (cellBytes w * (s.lptr - s.base)) + BitVec.ofInt 64 (↑sz.bytes * sh) +
        BitVec.ofInt 64 (↑sz.bytes * pr) - s.buf =
        BitVec.ofInt 64 (cellBytes w * (s.lptr - s.base)) + BitVec.ofInt 64 (↑sz.bytes * sh) +
        BitVec.ofInt 64 (↑sz.bytes * pr) := by bv_omega
    rw [this, hb, ← BitVec.ofInt_add, ← BitVec.ofInt_add, hq]
    congr 1
    rw [Int.mul_sub, Int.mul_add, Int.mul_sub, Int.mul_add]; omega
  have hqb : -(2 ^ 41) < q ∧ q < 2 ^ 41 := by rw [hq]; omega
  -- optional sar
  have hsar : ∃ n4 s4, steps cfg n4 s3 = some s4 ∧ Moved s s4 sh ∧ s4.off = s.off ∧
      s4.regs.get .rax = BitVec.ofInt 64 q ∧ s4.regs.rbx = cfg.cxtAddr ∧
      At cfg code s4.pc (.cmpRRm scr0 (.mem (some cxt) none 1 8) :: rest) ∧
      s4.pc = s3.pc + sizeAll (if sz != .b8 then [X86.sarRmImm8 (.reg scr0) (Nat.log2 sz.bytes)] else []) := by
    have hrbx3 : s3.regs.rbx = cfg.cxtAddr := by
      show s3.regs.get .rbx = _
      rw [hm3.regs .rbx (by decide) (by decide) (by decide)]; exact hrbx
    by_cases h8 : (sz != .b8) = true
    · simp only [h8, if_true, List.cons_append, List.nil_append] at hat3 ⊢
      obtain ⟨z4, c4, h4⟩ := step_sarRax (by omega) hat3
      obtain ⟨s4, hs4, e4⟩ : ∃ x : PState w, step cfg s3 = .next x ∧ x = _ := ⟨_, h4, rfl⟩
      refine ⟨1, s4, steps_one hs4, ?_, by rw [e4]; exact hoff3, ?_, ?_, ?_, ?_⟩
      · refine hm3.sameTmp ?_ (by rw [e4])
        rw [e4]; exact ⟨fun r h1 _ => by simp [h1], rfl, rfl, rfl, rfl, rfl, rfl, rfl, rfl, rfl⟩
      · rw [e4]; simp only [regfile_set_get, if_true]
        rw [hrax3]
        have : ((sz.bytes : Nat) : Int) = ((2 ^ Nat.log2 sz.bytes : Nat) : Int) := by rw [← hpow]
        rw [this]
        exact sar_mul hk3 (by omega)
      · show s4.regs.get .rbx = _
        rw [e4]; simp only [regfile_set_get, reduceCtorEq, if_false]; exact hrbx3
      · rw [e4]; exact hat3.tail
      · rw [e4]; simp
    · have h8' : (sz != .b8) = false := by simpa using h8
      simp only [h8', Bool.false_eq_true, if_false, List.nil_append] at hat3 ⊢
      refine ⟨0, s3, rfl, hm3, hoff3, ?_, hrbx3, hat3, by simp⟩
      rw [hrax3]
      have : sz.bytes = 1 := by rw [hpow, hk0 h8']
      rw [this]; simp
  obtain ⟨n4, s4, hst4, hm4, hoff4, hrax4, hrbx4, hat4, hpc4⟩ := hsar
  -- cmp rax, size
  obtain ⟨z5, h5⟩ := step_cmpSize hat4 hrbx4
  obtain ⟨s5, hs5, e5⟩ : ∃ x : PState w, step cfg s4 = .next x ∧ x = _ := ⟨_, h5, rfl⟩
  refine ⟨1 + 1 + 1 + n4 + 1, s5, ?_, ?_, by rw [e5]; exact hoff4, by rw [e5]; exact hrax4, ?_, ?_⟩
  · exact steps_trans (steps_trans (steps_trans (steps_trans (steps_one hs1) (steps_one hs2)) (steps_one hs3)) hst4)
      (steps_one hs5)
  · refine hm4.sameTmp ?_ (by rw [e5])
    rw [e5]; exact ⟨fun r _ _ => rfl, rfl, rfl, rfl, rfl, rfl, rfl, rfl, rfl, rfl⟩
  · rw [e5]
    simp only
    rw [hrax4, hm4.size, probe_test (by omega) (by omega)]
  · rw [e5]
    simp only [hpc4, e3, e2, e1, sizeAll_append, sizeAll_cons, sizeAll_nil]
    omega

theorem step_call_extend {cfg : Cfg} {code : List X86} {rest : List X86} {s : PState w}
    (hat : At cfg code s.pc (.callInd (.reg scr0) :: rest)) (hrax : s.regs.rax = cfg.aE)
    (hEI : cfg.aE ≠ cfg.aI) (hEO : cfg.aE ≠ cfg.aO)
    (hal : s.regs.rsp.toNat % 16 = 0) (hrdi : s.regs.rdi = cfg.cxtAddr) :
    step cfg s = .next { (extend cfg s s.regs.rsi.toInt s.regs.rdx.toInt) with
      regs := clobber cfg s.regs (cfg.junk .rax), zf := none, cf := none,
      pc := s.pc + (X86.callInd (.reg scr0)).size } := by
  rw [step_at hat]
  step_open (show (X86.callInd (.reg scr0)).fits = true from rfl)
  have : s.regs.get scr0 = cfg.aE := hrax
  simp only [this, call, hal, ne_eq, not_true_eq_false, if_false, hrdi, if_true, hEI, hEO]

/-- `extend(0, 1)` at a probe index outside the allocation. -/
theorem extend_probe (cfg : Cfg) {s : PState w} {q : Int} (hoff : s.off = BitVec.ofInt 64 q)
    (hq : -(2 ^ 60) ≤ q ∧ q < 2 ^ 60) (hn : s.size.toNat < 2 ^ 60) (hout : ¬ (0 ≤ q ∧ q < s.size.toNat)) :
    ∃ ab ns : Nat, extend cfg s 0 1 =
        { s with buf := cfg.newBuf s.buf, size := BitVec.ofNat 64 ns,
                 off := BitVec.ofNat 64 (s.off.toNat + ab), base := s.base - (ab : Int), tapeOk := false } ∧
      (BitVec.ofNat 64 (s.off.toNat + ab)).toInt = q + ab ∧ 0 ≤ q + ab ∧ q + (ab : Int) < ns ∧ ns < 2 ^ 62 := by
  have hg := growth_probe hq hn hout
  simp only at hg
  obtain ⟨h1, h2, h3, h4, h5⟩ := hg
  refine ⟨_, _, ?_, ?_, h4, h5, h3⟩
  · unfold extend
    simp only [hoff]
    rw [if_neg h1]
  · have ht := toNat_ofInt_small (q := q) (by omega)
    rw [hoff]
    rw [BitVec.toInt_ofNat']
    generalize hab : (({ buf := #[], size := s.size.toNat, offset := (BitVec.ofInt 64 q).toNat } : Mem 8).growth 0 1).2.2.2 = ab at *
    have : (((BitVec.ofInt 64 q).toNat + ab : Nat) : Int) = (BitVec.ofInt 64 q).toNat + ab := by push_cast; rfl
    rw [this, ht]
    split
    · exact Int.bmod_eq_of_le (by omega) (by omega)
    · rw [show q + 2 ^ 64 + (ab : Int) = (q + ab) + 2 ^ 64 by omega]
      rw [show ((2 : Int) ^ 64) = ((2 ^ 64 : Nat) : Int) by norm_cast, Int.add_bmod_right]
      exact Int.bmod_eq_of_le (by omega) (by omega)


/-- The body of the bounds-checked `mov`, with the displacements as integers. -/
def bodyCode (sz : Size) (aE : BitVec 64) (pr : Int) (pre post : List X86) : List X86 :=
  [st64 (.mem (some cxt) none 1 16) scr0] ++ pre ++
    [st64 (.reg .rdi) cxt, .movRImm64 .rsi 0, .movRImm64 .rdx 1,
     .movRImm64 scr0 (BitVec.ofNat 64 aE.toNat).toInt, .callInd (.reg scr0)] ++ post ++
    [mov64 memr (.mem (some cxt) none 1 0), mov64 scr0 (.mem (some cxt) none 1 16),
     .lea memr (.mem (some memr) (some scr0) sz.bytes ((sz.bytes : Int) * (-pr)))]

/-- The body: store the probe index, save registers, `hpbf_context_extend(cxt, 0, 1)`, restore, reload the
tape pointer from the (new) buffer and the (shifted) index. -/
theorem mov_body {cfg : Cfg} {code : List X86} {sz : Size} (hsz : sz.bits = w) {pr : Int}
    {live : Nat} {rs : List Reg} {pre post : List X86}
    (hrs : savedRegs live = some rs) (hpre : preCall live = some pre) (hpost : postCall live = some post)
    {rest : List X86} {s : PState w} (hat : At cfg code s.pc (bodyCode sz cfg.aE pr pre post ++ rest))
    (hfa : (X86.movRImm64 scr0 (BitVec.ofNat 64 cfg.aE.toNat).toInt).fits = true)
    (hfl : (X86.lea memr (.mem (some memr) (some scr0) sz.bytes ((sz.bytes : Int) * (-pr)))).fits = true)
    (hEI : cfg.aE ≠ cfg.aI) (hEO : cfg.aE ≠ cfg.aO)
    (hrbx : s.regs.rbx = cfg.cxtAddr) (hal : s.regs.rsp.toNat % 16 = 0)
    {q : Int} (hrax : s.regs.get .rax = BitVec.ofInt 64 q) (hq : -(2 ^ 60) ≤ q ∧ q < 2 ^ 60)
    (hn : s.size.toNat < 2 ^ 60) (hout : ¬ (0 ≤ q ∧ q < s.size.toNat)) :
    ∃ n s', steps cfg n s = some s' ∧ s'.stk = s.stk ∧
      (∀ r ∈ rs, s'.regs.get r = s.regs.get r) ∧
      (∀ r, r = .rbx ∨ r = .rsp ∨ r = .r12 ∨ r = .r13 ∨ r = .r14 ∨ r = .r15 → s'.regs.get r = s.regs.get r) ∧
      s'.tape = s.tape ∧ s'.lptr = s.base + q - pr ∧ s'.tapeOk = true ∧ Phys s' ∧
      s'.env = s.env ∧ s'.trace = s.trace ∧ s'.budget = s.budget ∧
      s'.pc = s.pc + sizeAll (bodyCode sz cfg.aE pr pre post) := by
  obtain ⟨hb, hb0⟩ := bytes_eq hsz
  have hbc0 : cellBytes w ≠ 0 := by rw [← hb]; exact_mod_cast hb0
  unfold bodyCode at hat ⊢
  simp only [List.append_assoc, List.cons_append, List.nil_append] at hat
  -- mov [rbx+16], rax
  have h1 := step_storeOff hat hrbx
  obtain ⟨s1, hs1, e1⟩ : ∃ x : PState w, step cfg s = .next x ∧ x = _ := ⟨_, h1, rfl⟩
  have hat1 := hat.tail
  rw [show s.pc + (st64 (.mem (some cxt) none 1 16) scr0).size = s1.pc by rw [e1]; rfl] at hat1
  have hoff1 : s1.off = BitVec.ofInt 64 q := by rw [e1]; exact hrax
  have hk01 : StackKeep s { s1 with off := s.off } := by
    rw [e1]; exact ⟨rfl, rfl, rfl, rfl, rfl, rfl, rfl, rfl, rfl, rfl⟩
  -- push the live caller-saved registers
  obtain ⟨pad, s2, hst2, hpad, hstk2, hregs2, hrsp2, hpc2, hk2⟩ := pre_call hrs hpre hat1
  have hat2 := hat1.drop
  rw [← hpc2] at hat2
  -- mov rdi, rbx
  have h3 := step_movRegReg hat2 (by decide)
  obtain ⟨s3, hs3, e3⟩ : ∃ x : PState w, step cfg s2 = .next x ∧ x = _ := ⟨_, h3, rfl⟩
  have hat3 := hat2.tail
  rw [show s2.pc + (st64 (.reg .rdi) cxt).size = s3.pc by rw [e3]] at hat3
  -- mov rsi, 0
  have h4 := step_movImm hat3 (by decide) (by decide)
  obtain ⟨s4, hs4, e4⟩ : ∃ x : PState w, step cfg s3 = .next x ∧ x = _ := ⟨_, h4, rfl⟩
  have hat4 := hat3.tail
  rw [show s3.pc + (X86.movRImm64 .rsi 0).size = s4.pc by rw [e4]] at hat4
  -- mov rdx, 1
  have h5 := step_movImm hat4 (by decide) (by decide)
  obtain ⟨s5, hs5, e5⟩ : ∃ x : PState w, step cfg s4 = .next x ∧ x = _ := ⟨_, h5, rfl⟩
  have hat5 := hat4.tail
  rw [show s4.pc + (X86.movRImm64 .rdx 1).size = s5.pc by rw [e5]] at hat5
  -- mov rax, addr
  have h6 := step_movImm hat5 (by decide) hfa
  obtain ⟨s6, hs6, e6⟩ : ∃ x : PState w, step cfg s5 = .next x ∧ x = _ := ⟨_, h6, rfl⟩
  have hat6 := hat5.tail
  rw [show s5.pc + (X86.movRImm64 scr0 (BitVec.ofNat 64 cfg.aE.toNat).toInt).size = s6.pc by rw [e6]] at hat6
  -- facts about s6
  have hr6 : ∀ r, r ≠ .rax → r ≠ .rdi → r ≠ .rsi → r ≠ .rdx → r ≠ .rsp → s6.regs.get r = s.regs.get r := by
    intro r a1 a2 a3 a4 a5
    rw [e6, e5, e4, e3]
    simp only [scr0, regfile_set_get, a1, a2, a3, a4, if_false]
    rw [hregs2 r a5, e1]; rfl
  have hrax6 : s6.regs.rax = cfg.aE := by
    show s6.regs.get .rax = _
    rw [e6]; simp only [scr0, regfile_set_get, if_true]; exact immVal_addr _
  have hrdi6 : s6.regs.rdi = cfg.cxtAddr := by
    show s6.regs.get .rdi = _
    rw [e6, e5, e4, e3]; simp only [scr0, cxt, regfile_set_get, reduceCtorEq, if_false, if_true]
    rw [hregs2 _ (by decide), e1]; exact hrbx
  have hrsi6 : s6.regs.rsi.toInt = 0 := by
    have : s6.regs.rsi = s6.regs.get .rsi := rfl
    rw [this, e6, e5, e4]; simp only [scr0, regfile_set_get, reduceCtorEq, if_false, if_true]; decide
  have hrdx6 : s6.regs.rdx.toInt = 1 := by
    have : s6.regs.rdx = s6.regs.get .rdx := rfl
    rw [this, e6, e5]; simp only [scr0, regfile_set_get, reduceCtorEq, if_false, if_true]; decide
  have hrsp6 : s6.regs.get .rsp = s.regs.get .rsp - BitVec.ofNat 64 (8 * padLen rs) := by
    rw [e6, e5, e4, e3]; simp only [scr0, regfile_set_get, reduceCtorEq, if_false]
    rw [hrsp2, e1]; rfl
  have hal6 : s6.regs.rsp.toNat % 16 = 0 := by
    have : s6.regs.rsp = s6.regs.get .rsp := rfl
    rw [this, hrsp6]; exact align_sub hal (padLen_even rs)
  have hstk6 : s6.stk = pad ++ (rs.map s.regs.get).reverse ++ s.stk := by
    rw [e6, e5, e4, e3]; show s2.stk = _
    rw [hstk2, e1]; rfl
  have hk6 : StackKeep s1 s6 := by
    refine hk2.trans ?_; rw [e6, e5, e4, e3]; exact ⟨rfl, rfl, rfl, rfl, rfl, rfl, rfl, rfl, rfl, rfl⟩
  -- call
  have h7 := step_call_extend hat6 hrax6 hEI hEO hal6 hrdi6
  rw [hrsi6, hrdx6] at h7
  have hsz6 : s6.size = s.size := by rw [hk6.size, e1]; rfl
  obtain ⟨ab, ns, hext, hoffInt, h0ab, hltns, hns⟩ := extend_probe cfg (s := s6) (by rw [hk6.off]; exact hoff1) hq
    (by rw [hsz6]; exact hn) (by rw [hsz6]; exact hout)
  rw [hext] at h7
  obtain ⟨s7, hs7, e7⟩ : ∃ x : PState w, step cfg s6 = .next x ∧ x = _ := ⟨_, h7, rfl⟩
  have hat7 := hat6.tail
  rw [show s6.pc + (X86.callInd (.reg scr0)).size = s7.pc by rw [e7]] at hat7
  -- pop
  obtain ⟨s8, hst8, hstk8, hin8, hout8, hrsp8, hpc8, hk8⟩ := post_call hrs hpost hat7 s.regs.get hpad
    (stk0 := s.stk) (by rw [e7]; exact hstk6)
  have hat8 := hat7.drop
  rw [← hpc8] at hat8
  have hcs_notin : ∀ r, r = .rbx ∨ r = .rsp ∨ r = .rbp ∨ r = .r12 ∨ r = .r13 ∨ r = .r14 ∨ r = .r15 → r ∉ rs := by
    intro r hr h
    obtain ⟨t, h4, h11, _, ht⟩ := (savedRegs_mem hrs _).1 h
    obtain ⟨_, e⟩ := tmpReg_eq_some.1 ht
    subst e
    have : t = 4 ∨ t = 5 ∨ t = 6 ∨ t = 7 ∨ t = 8 ∨ t = 9 ∨ t = 10 := by omega
    rcases this with rfl | rfl | rfl | rfl | rfl | rfl | rfl <;> simp [treg, tmpReg] at hr
  have hcallee8 : ∀ r, r = .rbx ∨ r = .rsp ∨ r = .r12 ∨ r = .r13 ∨ r = .r14 ∨ r = .r15 →
      s8.regs.get r = s.regs.get r := by
    intro r hr
    have hr' : r = .rbx ∨ r = .rsp ∨ r = .rbp ∨ r = .r12 ∨ r = .r13 ∨ r = .r14 ∨ r = .r15 := by
      rcases hr with h | h | h | h | h | h <;> simp [h]
    by_cases hsp : r = .rsp
    · subst hsp
      rw [hrsp8, e7]
      show (clobber cfg s6.regs _).get .rsp + _ = _
      rw [clobber_get]
      simp only [reduceCtorEq, if_false, true_or, or_true, if_true]
      rw [hrsp6, sub_add_ofNat]
    · rw [hout8 _ (hcs_notin r hr') hsp, e7]
      show (clobber cfg s6.regs _).get r = _
      rw [clobber_get]
      have hne : r ≠ .rax := by rintro rfl; simp at hr
      rw [if_neg hne, if_pos hr']
      exact hr6 r hne (by rintro rfl; simp at hr) (by rintro rfl; simp at hr) (by rintro rfl; simp at hr) hsp
  have hrbx8 : s8.regs.rbx = cfg.cxtAddr := (hcallee8 .rbx (by simp)).trans hrbx
  -- the context after the call
  have hbuf8 : s8.buf = cfg.newBuf s6.buf := by rw [hk8.buf, e7]
  have hoff8 : s8.off = BitVec.ofNat 64 (s6.off.toNat + ab) := by rw [hk8.off, e7]
  have hbase8 : s8.base = s6.base - (ab : Int) := by rw [hk8.base, e7]
  -- mov rbp, [rbx+0]
  have hl : loadRbp s8 s8.buf = some { s8 with regs := s8.regs.set .rbp s8.buf, lptr := s8.base, tapeOk := true } := by
    unfold loadRbp
    have : s8.buf - s8.buf = 0 := by bv_omega
    simp only [this, show (0 : BitVec 64).toInt = 0 from rfl, hbc0, ne_eq, not_false_eq_true, Int.zero_emod,
      and_self, if_true, Int.zero_ediv, Int.add_zero]
  have h9 := step_loadRbpBuf hat8 hrbx8 hl
  obtain ⟨s9, hs9, e9⟩ : ∃ x : PState w, step cfg s8 = .next x ∧ x = _ := ⟨_, h9, rfl⟩
  have hat9 := hat8.tail
  rw [show s8.pc + (mov64 memr (.mem (some cxt) none 1 0)).size = s9.pc by rw [e9]; rfl] at hat9
  -- mov rax, [rbx+16]
  have hrbx9 : s9.regs.rbx = cfg.cxtAddr := by
    show s9.regs.get .rbx = _
    rw [e9]; simp only [PState.adv, regfile_set_get, reduceCtorEq, if_false]; exact hrbx8
  have h10 := step_loadCxt (v := s9.off) hat9 (by decide) hrbx9 (by simp [cxtField]) (by omega)
  obtain ⟨s10, hs10, e10⟩ : ∃ x : PState w, step cfg s9 = .next x ∧ x = _ := ⟨_, h10, rfl⟩
  have hat10 := hat9.tail
  rw [show s9.pc + (mov64 scr0 (.mem (some cxt) none 1 16)).size = s10.pc by rw [e10]; rfl] at hat10
  -- lea rbp, [rbp + rax*bytes + bytes*(-pr)]
  have hrax10 : (s10.regs.get .rax).toInt = q + ab := by
    rw [e10]; simp only [PState.adv, PState.setReg, scr0, regfile_set_get, if_true]
    rw [e9]; simp only [PState.adv]; rw [hoff8]; exact hoffInt
  have hdelta : (s10.regs.get .rax).toInt * (sz.bytes : Nat) + (sz.bytes : Int) * (-pr) =
      cellBytes w * (q + ab - pr) := by
    rw [hrax10, hb, Int.mul_comm (q + ↑ab), ← Int.mul_add]
    congr 1
  have hm : moveRbp s10 ((s10.regs.get .rax).toInt * (sz.bytes : Nat) + (sz.bytes : Int) * (-pr)) =
      some { s10 with regs := s10.regs.set .rbp (s10.regs.get .rbp + BitVec.ofInt 64 (cellBytes w * (q + ab - pr))),
                      lptr := s10.lptr + (q + ab - pr) } := by
    unfold moveRbp
    rw [hdelta]
    simp only [hbc0, ne_eq, not_false_eq_true, Int.mul_emod_right, and_self, if_true,
      Int.mul_ediv_cancel_left _ hbc0]
  have hsc : sz.bytes = 1 ∨ sz.bytes = 2 ∨ sz.bytes = 4 ∨ sz.bytes = 8 := by cases sz <;> simp [Size.bytes]
  have h11 := step_leaRbp hat10 hfl hsc hm
  obtain ⟨s11, hs11, e11⟩ : ∃ x : PState w, step cfg s10 = .next x ∧ x = _ := ⟨_, h11, rfl⟩
  -- collect
  have hk11 : ∀ r, r ≠ .rax → r ≠ .rbp → s11.regs.get r = s8.regs.get r := by
    intro r a1 a2
    rw [e11, e10, e9]; simp [PState.adv, PState.setReg, scr0, a1, a2]
  refine ⟨1 + pre.length + (1 + 1 + 1 + 1 + 1) + post.length + (1 + 1 + 1), s11, ?_, ?_, ?_, ?_, ?_, ?_, ?_, ?_,
    ?_, ?_, ?_, ?_⟩
  · exact steps_trans (steps_trans (steps_trans (steps_trans (steps_one hs1) hst2)
      (steps_trans (steps_trans (steps_trans (steps_trans (steps_one hs3) (steps_one hs4)) (steps_one hs5))
        (steps_one hs6)) (steps_one hs7))) hst8)
      (steps_trans (steps_trans (steps_one hs9) (steps_one hs10)) (steps_one hs11))
  · rw [e11, e10, e9]; exact hstk8
  · intro r hr
    have hne := savedRegs_ne hrs r hr
    have hnrax : r ≠ .rax := by
      rintro rfl
      obtain ⟨t, _, h11', _, ht⟩ := (savedRegs_mem hrs _).1 hr
      obtain ⟨_, e⟩ := tmpReg_eq_some.1 ht
      exact (treg_ne h11').1 e.symm
    rw [hk11 r hnrax hne.2]; exact hin8 r hr
  · intro r hr
    rw [hk11 r (by rintro rfl; simp at hr) (by rintro rfl; simp at hr)]; exact hcallee8 r hr
  · rw [e11, e10, e9]; simp only [PState.adv, PState.setReg]; rw [hk8.tape, e7]; show s6.tape = _
    rw [hk6.tape, e1]; rfl
  · rw [e11, e10, e9]; simp only [PState.adv, PState.setReg]
    rw [hbase8, hk6.base, e1]; simp only [PState.adv]; omega
  · rw [e11, e10, e9]; rfl
  · unfold Phys
    have r1 : s11.regs.rbp = s8.buf + BitVec.ofInt 64 (cellBytes w * (q + ab - pr)) := by
      show s11.regs.get .rbp = _
      rw [e11, e10, e9]; simp [PState.adv, PState.setReg, scr0]
    have r2 : s11.buf = s8.buf := by rw [e11, e10, e9]; rfl
    have r3 : s11.lptr - s11.base = q + ab - pr := by
      rw [e11, e10, e9]; simp only [PState.adv, PState.setReg]; omega
    rw [r1, r2, r3]
  · rw [e11, e10, e9]; simp only [PState.adv, PState.setReg]; rw [hk8.env, e7]; show s6.env = _
    rw [hk6.env, e1]; rfl
  · rw [e11, e10, e9]; simp only [PState.adv, PState.setReg]; rw [hk8.trace, e7]; show s6.trace = _
    rw [hk6.trace, e1]; rfl
  · rw [e11, e10, e9]; simp only [PState.adv, PState.setReg]; rw [hk8.budget, e7]; show s6.budget = _
    rw [hk6.budget, e1]; rfl
  · rw [e11, e10, e9]
    simp only [PState.adv, PState.setReg, hpc8, e7, e6, e5, e4, e3, hpc2, e1, sizeAll_append, sizeAll_cons,
      sizeAll_nil]
    omega

/-- The items of a bounds-checked `mov`. -/
theorem emit_mov_safe {sz : Size} {limited safe : Bool} (hsafe : safe = true) {minAcc maxAcc : Int}
    {aE : BitVec 64} {aI aO i live : Nat} {shift : Int} {its : List Item}
    (h : emitInstr (w := w) sz limited safe minAcc maxAcc aE.toNat aI aO i live (.mov shift) = some its)
    (hsh : -2147483648 ≤ shift ∧ shift < 2147483648)
    (hwin : -2147483648 < minAcc ∧ minAcc < 2147483648 ∧ -2147483648 < maxAcc ∧ maxAcc < 2147483648) :
    ∃ rs pre post pr, pr = (if shift < 0 then minAcc else maxAcc) ∧
      savedRegs live = some rs ∧ preCall live = some pre ∧ postCall live = some post ∧
      its = plains (probeCode sz shift pr) ++ [.skip8 .below (bodyCode sz aE pr pre post)] ∧
      (addImm64 (.reg memr) ((sz.bytes : Int) * shift)).fits = true ∧
      (X86.lea scr0 (.mem (some memr) none 1 ((sz.bytes : Int) * pr))).fits = true ∧
      (X86.movRImm64 scr0 (BitVec.ofNat 64 aE.toNat).toInt).fits = true ∧
      (X86.lea memr (.mem (some memr) (some scr0) sz.bytes ((sz.bytes : Int) * (-pr)))).fits = true := by
  subst hsafe
  obtain ⟨hraw, hfit⟩ := emitInstr_raw h
  simp only [emitInstrRaw, if_true] at hraw
  cases hpre : preCall live with
  | none => simp [hpre] at hraw
  | some pre =>
    cases hpost : postCall live with
    | none => simp [hpre, hpost] at hraw
    | some post =>
      simp only [hpre, hpost, Option.bind_eq_bind, Option.bind_some, Option.some.injEq] at hraw
      obtain ⟨rs, hrs⟩ := preCall_saved hpre
      obtain ⟨pr, hpr⟩ : ∃ pr, pr = (if shift < 0 then minAcc else maxAcc) := ⟨_, rfl⟩
      have hprr : -2147483648 < pr ∧ pr < 2147483648 := by rw [hpr]; split <;> omega
      rw [← hpr] at hraw
      rw [i32_eq hsh.1 hsh.2, i32_eq (show -2147483648 ≤ pr by omega) hprr.2,
        i32_eq (show -2147483648 ≤ -pr by omega) (show -pr < 2147483648 by omega)] at hraw
      have hits : its = plains (probeCode sz shift pr) ++ [.skip8 .below (bodyCode sz aE pr pre post)] := by
        rw [← hraw]; simp [probeCode, bodyCode]
      subst hits
      refine ⟨rs, pre, post, pr, hpr, hrs, rfl, rfl, rfl, ?_, ?_, ?_, ?_⟩
      · exact mem_all_fits hfit (by simp [plains, probeCode])
      · exact mem_all_fits hfit (by simp [plains, probeCode])
      · have := List.all_eq_true.1 hfit (.skip8 .below (bodyCode sz aE pr pre post)) (by simp)
        simp only [Item.fits] at this
        exact List.all_eq_true.1 this _ (by simp [bodyCode])
      · have := List.all_eq_true.1 hfit (.skip8 .below (bodyCode sz aE pr pre post)) (by simp)
        simp only [Item.fits] at this
        exact List.all_eq_true.1 this _ (by simp [bodyCode])


/-- "The tape allocation is far from filling the address space": what the bounds-checked `mov` needs so that
its 64-bit index arithmetic does not wrap. -/
def Bnd (s : PState w) : Prop :=
  s.size.toNat < 2 ^ 40 ∧ -(2 ^ 40) < s.lptr - s.base ∧ s.lptr - s.base < 2 ^ 40

/-- `mov` with bounds check. -/
theorem flow_mov_checked (K : Ctx w) (hsafe : K.safe = true) {fr : Frame} {c : Bc.Cfg w} {s : PState w}
    {shift : Int} (hi : K.p.insts[c.pc]? = some (.mov shift))
    (hsh : -2147483648 ≤ shift ∧ shift < 2147483648)
    (hwin : -2147483648 < K.p.minAcc ∧ K.p.minAcc < 2147483648 ∧ -2147483648 < K.p.maxAcc ∧
      K.p.maxAcc < 2147483648)
    (hbnd : Bnd s) (hinv : Inv K fr c s) (hrel : Rel c (view s))
    {c' : Bc.Cfg w} (hstep : Bc.step K.p K.limited c = .next c') :
    ∃ lv n s', K.p.live[c.pc]? = some lv ∧ steps K.cfg n s = some s' ∧ Inv K fr c' s' ∧
      RelOn (fun t => lv.testBit t = true) c' (view s') := by
  obtain ⟨lv, its, xs, hI⟩ := K.instrAt hi
  obtain ⟨rs, pre, post, pr, hpr, hrs, hpre, hpost, hits, hf1, hf2, hfa, hfl⟩ :=
    emit_mov_safe hsafe hI.emit hsh hwin
  have hprr : -2147483648 < pr ∧ pr < 2147483648 := by rw [hpr]; split <;> omega
  have hszb := K.hszb
  obtain ⟨hb1, hb2, hb3⟩ := hbnd
  -- layout
  have hres := hI.res
  have hnx := hI.next
  rw [hits] at hres hnx
  obtain ⟨ys, hxs, hres2⟩ := resolveItems_plains hres
  obtain ⟨y1, y2, hj, hres3, ey⟩ := resolveItems_cons _ _ _ hres2
  have e4 := resolveItems_nil' hres3
  subst e4
  simp only [JitGen.resolve, Option.some.injEq] at hj
  subst hj ey
  have hbody := skip8_body_le hI.emit (pr := .below) (body := bodyCode K.C.sz K.cfg.aE pr pre post)
    (by rw [hits]; simp)
  rw [hbody.2] at hxs
  simp only [itemsSize_append, itemsSize_plains, itemsSize_cons, itemsSize_nil, Item.size] at hnx
  obtain ⟨B, hB⟩ : ∃ B, B = bodyCode K.C.sz K.cfg.aE pr pre post := ⟨_, rfl⟩
  rw [← hB] at hxs hnx hbody
  have hat : At K.cfg K.code s.pc (probeCode K.C.sz shift pr ++ (.jccRel8 .below (sizeAll B : Nat) :: (B ++ []))) := by
    have := hI.at_
    rw [hxs, ← hinv.pc] at this
    simpa using this
  -- the probe
  obtain ⟨n5, s5, hst5, hm5, hoff5, hrax5, hcf5, hpc5⟩ := mov_probe hszb hsh ⟨by omega, hprr.2⟩ hat hf1 hf2
    hinv.rbx hinv.phys hb1 ⟨hb2, hb3⟩
  obtain ⟨q, hq⟩ : ∃ q, q = s.lptr + shift - s.base + pr := ⟨_, rfl⟩
  rw [← hq] at hrax5 hcf5
  have hat5 : At K.cfg K.code s5.pc (.jccRel8 .below (sizeAll B : Nat) :: (B ++ [])) := by
    rw [hpc5]; exact hat.drop
  have hfj : (X86.jccRel8 .below (sizeAll B : Nat)).fits = true := by
    simp only [X86.fits, fitsS_8]; have := hbody.1; omega
  have h6 := step_jb8 (t := s5.pc + 2 + sizeAll B) hat5 hfj hcf5 (by push_cast; omega)
  obtain ⟨s6, hs6, e6⟩ : ∃ x : PState w, step K.cfg s5 = .next x ∧ x = _ := ⟨_, h6, rfl⟩
  have hm6 : Moved s s6 shift := by
    refine hm5.sameTmp ?_ (by rw [e6])
    rw [e6]; exact ⟨fun _ _ _ => rfl, rfl, rfl, rfl, rfl, rfl, rfl, rfl, rfl, rfl⟩
  have hst6 : steps K.cfg (n5 + 1) s = some s6 := steps_trans hst5 (steps_one hs6)
  simp only [Bc.step, hi, Bc.StepRes.next.injEq] at hstep
  subst hstep
  have hrelL : RelOn (fun t => lv.testBit t = true) c (view s) :=
    relOn_mono ((rel_iff_relOn ..).1 hrel) (fun _ _ => trivial)
  have hnxt : K.loc (c.pc + 1) = s.pc + sizeAll (probeCode K.C.sz shift pr) + 2 + sizeAll B := by
    rw [hnx, hinv.pc]; omega
  by_cases hin : 0 ≤ q ∧ q < s.size.toNat
  · -- the probe cell is inside the allocation: the body is skipped
    have hb' : (decide (0 ≤ q) && decide (q < (s.size.toNat : Int))) = true := by simp [hin.1, hin.2]
    have hpc6 : s6.pc = K.loc (c.pc + 1) := by rw [e6, hb', hnxt, hpc5]; rfl
    refine ⟨lv, n5 + 1, s6, hI.live, hst6, ?_, hm6.relOn hrelL⟩
    exact ⟨hpc6, (hm6.regs .rbx (by decide) (by decide) (by decide)).trans hinv.rbx,
      hm6.env.trans hinv.env, hm6.trace.trans hinv.trace, by rw [hm6.budget]; exact hinv.budget,
      hm6.tapeOk.trans hinv.tapeOk, (hm6.regs .rsp (by decide) (by decide) (by decide)).trans hinv.rsp,
      hinv.align, by rw [hm6.stk]; exact hinv.len, by rw [hm6.stk]; exact hinv.saved, hm6.phys hinv.phys⟩
  · -- outside: extend
    have hb' : (decide (0 ≤ q) && decide (q < (s.size.toNat : Int))) = false := by
      simp only [Bool.and_eq_false_iff, decide_eq_false_iff_not]
      by_cases h0 : 0 ≤ q
      · exact Or.inr (fun h => hin ⟨h0, h⟩)
      · exact Or.inl h0
    have hpc6 : s6.pc = s5.pc + 2 := by rw [e6, hb']; rfl
    have hat6 : At K.cfg K.code s6.pc (bodyCode K.C.sz K.cfg.aE pr pre post ++ []) := by
      rw [hpc6, ← hB]
      have := hat5.tail
      rwa [show (X86.jccRel8 .below (sizeAll B : Nat)).size = 2 from size_jccRel8 _ _] at this
    have hrax6 : s6.regs.get .rax = BitVec.ofInt 64 q := by rw [e6]; exact hrax5
    have hrbx6 : s6.regs.rbx = K.cfg.cxtAddr :=
      (hm6.regs .rbx (by decide) (by decide) (by decide)).trans hinv.rbx
    have hrsp6 : s6.regs.rsp = fr.rsp := (hm6.regs .rsp (by decide) (by decide) (by decide)).trans hinv.rsp
    obtain ⟨n7, s7, hst7, hstk7, hsv7, hcs7, htape7, hlptr7, htok7, hphys7, henv7, htr7, hbud7, hpc7⟩ :=
      mov_body hszb hrs hpre hpost hat6 hfa hfl K.hEI K.hEO hrbx6 (by rw [hrsp6]; exact hinv.align) hrax6
        (by rw [hq]; omega) (by rw [hm6.size]; omega) (by rw [hm6.size]; exact hin)
    have hl7 : s7.lptr = s.lptr + shift := by rw [hlptr7, hm6.base, hq]; omega
    refine ⟨lv, n5 + 1 + n7, s7, hI.live, steps_trans hst6 hst7, ?_, ?_⟩
    · refine ⟨?_, ?_, ?_, ?_, ?_, htok7, ?_, hinv.align, ?_, ?_, hphys7⟩
      · show s7.pc = K.loc (c.pc + 1)
        rw [hpc7, hpc6, hpc5, hnxt, hB]
      · exact (hcs7 .rbx (by simp)).trans hrbx6
      · rw [henv7, hm6.env]; exact hinv.env
      · rw [htr7, hm6.trace]; exact hinv.trace
      · show s7.budget.toNat = c.budget
        rw [hbud7, hm6.budget]; exact hinv.budget
      · exact (hcs7 .rsp (by simp)).trans hrsp6
      · rw [hstk7, hm6.stk]; exact hinv.len
      · rw [hstk7, hm6.stk]; exact hinv.saved
    · refine ⟨fun t r htr hl => ?_, fun t ht => ?_, fun o => ?_⟩
      · obtain ⟨hlt, rfl⟩ := tmpReg_eq_some.1 htr
        have hne := treg_ne hlt
        have := hrel.1 t _ htr
        simp only [view] at this ⊢
        have e : s7.regs.get (treg t) = s.regs.get (treg t) := by
          by_cases h4 : 4 ≤ t
          · rw [hsv7 _ ((savedRegs_mem hrs _).2 ⟨t, h4, hlt, hl, htr⟩)]
            exact hm6.regs _ hne.1 hne.2.1 hne.2.2.2.2
          · have h03 : t = 0 ∨ t = 1 ∨ t = 2 ∨ t = 3 := by omega
            rw [hcs7 _ (by rcases h03 with rfl | rfl | rfl | rfl <;> simp [treg, tmpReg])]
            exact hm6.regs _ hne.1 hne.2.1 hne.2.2.2.2
        rw [e]; exact this
      · have := hrel.2.1 t ht
        simp only [view] at this ⊢
        rw [hstk7, hm6.stk]; exact this
      · have := hrel.2.2 (shift + o)
        simp only [view, State.rd, State.mov] at this ⊢
        rw [htape7, hm6.tape, hl7, Int.add_assoc, this, Int.add_assoc]

end C03
end Hpbf
