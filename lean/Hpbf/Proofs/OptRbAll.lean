/-
Rebuild-round proofs: the bundle `StepAll` (simulation + footprint + frame + bad-mirroring + monotonicity of one
rebuild step), its composition, soundness of `compare`, and how a parent obtains the facts about a child block
(`ChildPre`) from the `StepAll` of the child's body.
-/
import Hpbf.Proofs.OptRbFinish
import Hpbf.Proofs.OptRbFoot8
import Hpbf.Proofs.OptRbKnown2

namespace Hpbf
namespace OptProof
open Opt OptSem Ir

variable {w : Nat}

/-- Valid states stay valid along a step. -/
theorem StepNG.valid {G G2 : State w → Prop} {sh sh' : Int} {ps : List (Rebuild w)} {s s' : Rebuild w}
    {src new : List (Instr w)}
    (h : StepNG G sh sh' ps s s' src new)
    (hg : ∀ M0 σE σS σS', RelAt sh s ps M0 σE σS → G σS → Exec src σS (.fin σS') → G2 σS')
    {σ σ' : State w} (hv : ValidG G sh s ps σ) (he : Exec new σ (.fin σ')) :
    ValidG G2 sh' s' ps σ' := by
  obtain ⟨M0, σS, hrel, hG⟩ := hv
  obtain ⟨σS', hex, M0', hr', _⟩ := (h.2 M0 σ σS hrel hG).1.finR σ' he
  exact ⟨M0', σS', hr', hg M0 σ σS σS' hrel hG hex⟩

/-- Everything the proof knows about one rebuild step (for the source states satisfying the guard `G`). -/
structure StepAll (G : State w → Prop) (sh sh' : Int) (ps : List (Rebuild w)) (s s' : Rebuild w)
    (src new : List (Instr w)) : Prop where
  insts : s'.insts = s.insts ++ new
  wf : Wf s'
  step : StepNG G sh sh' ps s s' src new
  foot : FootStepV (ValidG G sh s ps) s s' new
  bad : FootBadV (ValidG G sh s ps) s s' new
  frame : FootFrameV (ValidG G sh s ps) s s' new
  mono : ReadsMono s s'
  keys : KeysMono' s s'

theorem StepAll.trans {G G2 : State w → Prop} {sh1 sh2 sh3 : Int} {ps : List (Rebuild w)} {a b c : Rebuild w}
    {l1 l2 n1 n2 : List (Instr w)} (h1 : StepAll G sh1 sh2 ps a b l1 n1) (h2 : StepAll G2 sh2 sh3 ps b c l2 n2)
    (hg : ∀ M0 σE σS σS', RelAt sh1 a ps M0 σE σS → G σS → Exec l1 σS (.fin σS') → G2 σS') :
    StepAll G sh1 sh3 ps a c (l1 ++ l2) (n1 ++ n2) := by
  have hv : ∀ σ σ', ValidG G sh1 a ps σ → Exec n1 σ (.fin σ') → ValidG G2 sh2 b ps σ' :=
    fun σ σ' hv he => h1.step.valid hg hv he
  exact ⟨by rw [h2.insts, h1.insts, List.append_assoc], h2.wf, h1.step.trans_g h2.step hg,
    h1.foot.trans h2.foot hv h2.mono, FootBadV.trans h1.bad h1.foot h2.bad hv h2.mono,
    h1.frame.trans h1.foot h2.frame hv h2.mono h2.keys, h1.mono.trans h2.mono,
    fun hs v hv' => h2.keys hs v (h1.keys (h2.mono.2 hs) v hv')⟩

theorem StepAll.refl (G : State w → Prop) (sh : Int) (ps : List (Rebuild w)) {s : Rebuild w} (hwf : Wf s) :
    StepAll G sh sh ps s s [] [] := by
  refine ⟨by simp, hwf, ⟨fun h => h, ?_⟩, (FootStep.refl s).toV _, FootBadV.refl _ s, ?_, ReadsMono.refl s,
    fun _ _ h => h⟩
  · intro M0 σE σS h _
    refine ⟨Sim.nil ⟨M0, h, fun _ => ⟨rfl, rfl⟩⟩ h.tr.symm, fun hb => by cases hb⟩
  · intro _ K _ σ1 σ2 _ _ b hex
    cases hex
    exact ⟨rfl, fun _ _ _ => rfl⟩

/-! ### `compare` is sound -/

theorem compare_eq (s : Rebuild w) (ps : List (Rebuild w)) (a b : Expr w) :
    Opt.compare s ps a b =
      (if a == b then pure true
       else do
         let a' ← evalPending s ps 0 a
         let b' ← evalPending s ps 0 b
         if a' == b' then pure true
         else
           match evalWritten s ps a', evalWritten s ps b' with
           | some a'', some b'' => compareParent s ps a'' b''
           | _, _ => pure false) := by
  cases ps <;> (unfold Opt.compare compareParent; rfl)

theorem compare_sound {s : Rebuild w} {ps : List (Rebuild w)} {M0 E S : Mem w} (h : MInv s ps M0 E S)
    (hc : CanonSt s) {a b : Expr w} (ha : Expr.Canon a) (hb : Expr.Canon b)
    (hcmp : Opt.compare s ps a b = .ok true) : ev a S = ev b S := by
  rw [compare_eq] at hcmp
  split at hcmp
  · rename_i hab
    have : a = b := by simpa using hab
    rw [this]
  · cases ha' : evalPending s ps 0 a with
    | error e => rw [ha'] at hcmp; cases hcmp
    | ok a' =>
      cases hb' : evalPending s ps 0 b with
      | error e => rw [ha', hb'] at hcmp; cases hcmp
      | ok b' =>
        rw [ha', hb'] at hcmp
        have ea : ev a' E = ev a S := by
          rw [evalPending_sound h ha']; show Expr.evaluate a _ = Expr.evaluate a S
          congr 1; funext x; simp
        have eb : ev b' E = ev b S := by
          rw [evalPending_sound h hb']; show Expr.evaluate b _ = Expr.evaluate b S
          congr 1; funext x; simp
        have hca' := evalPending_canon hc ps ha' ha
        have hcb' := evalPending_canon hc ps hb' hb
        simp only [bind, Except.bind] at hcmp
        split at hcmp
        · rename_i hab
          have : a' = b' := by simpa using hab
          rw [← ea, ← eb, this]
        · split at hcmp
          · rename_i a'' b'' ha'' hb''
            have e1 := evalWritten_sound h ha''
            have e2 := evalWritten_sound h hb''
            have := h.pk.cmp a'' b'' (evalWritten_canon hc ps ha'' hca')
              (evalWritten_canon hc ps hb'' hcb') hcmp
            rw [← ea, ← eb, ← e1, ← e2, this]
          · simp [pure, Except.pure] at hcmp

/-! ### the entry relation of a nested block at level 1 -/

/-- Level-1 shape of the analysis of a state: none (nested), or an at-most-once analysis without sub-analyses
(top level). -/
def AnalL1 (s : Rebuild w) : Prop :=
  s.anal = none ∨ ∃ a, s.anal = some a ∧ a.subBlocks = [] ∧ a.loopAnal.atMostOnce = true

theorem AnalL1.shiftFree {s : Rebuild w} (h : AnalL1 s) : ShiftFree s := by
  rcases h with h | ⟨a, h1, _, h3⟩
  · exact Or.inl h
  · exact Or.inr ⟨a, h1, h3⟩

theorem popSubAnal_l1 {s : Rebuild w} (h : AnalL1 s) : popSubAnal s = (s, none) := by
  unfold popSubAnal
  rcases h with h | ⟨a, h1, h2, _⟩
  · rw [h]
  · rw [h1]; simp only; rw [h2]; rfl

/-- The fresh state of a nested block without previous analysis. -/
def freshChild (sh : Int) (cond : Int) : Rebuild w :=
  reverseSubBlocks (Rebuild.new sh (some cond) .parent none)

theorem freshChild_fields (sh cond : Int) :
    (freshChild sh cond : Rebuild w).pending = [] ∧ (freshChild sh cond : Rebuild w).written = [] ∧
    (freshChild sh cond : Rebuild w).reads = [] ∧ (freshChild sh cond : Rebuild w).insts = [] ∧
    (freshChild sh cond : Rebuild w).anal = none ∧ (freshChild sh cond : Rebuild w).shift = sh ∧
    (freshChild sh cond : Rebuild w).cond = some cond ∧ (freshChild sh cond : Rebuild w).subShift = false ∧
    (freshChild sh cond : Rebuild w).noReturn = false ∧ (freshChild sh cond : Rebuild w).parent = .parent :=
  ⟨rfl, rfl, rfl, rfl, rfl, rfl, rfl, rfl, rfl, rfl⟩

theorem ev_varfree (e : Expr w) (h : Expr.variables e = []) (m m' : Mem w) : ev e m = ev e m' :=
  ev_congr e m m' (fun v hv => by rw [h] at hv; cases hv)

/-- A state without analysis whose parent may be asked knows nothing through the parent except what holds in
every memory (comparisons of variable-free expressions), and its condition cell. -/
theorem pk_noanal {c : Rebuild w} {s : Rebuild w} {ps : List (Rebuild w)} (hanal : c.anal = none)
    (hcs : CanonSt s) {M0p Ep Sp : Mem w} (hp : MInv s ps M0p Ep Sp) (M0 : Mem w)
    (hcond : c.subShift = false → ∀ v, c.cond = some v → M0 v ≠ 0#w) : PK c (s :: ps) M0 := by
  have hca : ∀ v, canAskParentFor c v = false := by
    intro v; unfold canAskParentFor; rw [hanal]; simp
  refine ⟨?_, ?_, ?_⟩
  · intro v cst h
    unfold getParentConstant at h
    rw [hca] at h; simp at h
  · intro v h
    unfold nonZeroParent at h
    rw [hca] at h
    simp only [Bool.false_eq_true, if_false, Bool.and_eq_true, Bool.not_eq_true', beq_iff_eq] at h
    split at h
    · rename_i hh
      exact hcond hh.1 v hh.2
    · cases h
  · intro a b ha hb h
    unfold compareParent at h
    split at h
    · rename_i hab
      have : a = b := by simpa using hab
      rw [this]
    · split at h
      · rename_i hall
        -- all variables may be asked for: there are none
        have hva : Expr.variables a = [] := by
          cases hv : Expr.variables a with
          | nil => rfl
          | cons x xs =>
            simp only [List.all_eq_true, List.mem_append] at hall
            have := hall x (Or.inl (by rw [hv]; simp))
            rw [hca] at this; cases this
        have hvb : Expr.variables b = [] := by
          cases hv : Expr.variables b with
          | nil => rfl
          | cons x xs =>
            simp only [List.all_eq_true, List.mem_append] at hall
            have := hall x (Or.inr (by rw [hv]; simp))
            rw [hca] at this; cases this
        -- the parent decides
        cases hpar : c.parent with
        | zero =>
          rw [hpar] at h
          simp only [pure, Except.pure, Except.ok.injEq, beq_iff_eq] at h
          rw [ev_varfree a hva M0 (fun _ => 0#w), ev_varfree b hvb M0 (fun _ => 0#w)]
          show Expr.evaluate a _ = Expr.evaluate b _
          rw [← Expr.eval_constantPart a ha.weak, ← Expr.eval_constantPart b hb.weak, h]
        | unknown => rw [hpar] at h; simp [pure, Except.pure] at h
        | parent =>
          rw [hpar] at h
          simp only at h
          have := compare_sound hp hcs ha hb h
          rw [ev_varfree a hva M0 Sp, ev_varfree b hvb M0 Sp]; exact this
      · simp [pure, Except.pure] at h

theorem sameMem_cond {shP cS : Int} {σS σE : State w} (h : SameMem shP σS σE) :
    σS.rd cS = memE σE (cS + shP) := by
  have := congrFun h.2.2.2 (cS + shP)
  show σS.tape.get (σS.ptr + cS) = _
  rw [h.2.2.1, ← this]
  show σS.tape.get (σE.ptr + shP + cS) = σS.tape.get (σE.ptr + (cS + shP))
  congr 1; omega

/-- Level 1: how a parent establishes the entry relation of a nested block. -/
theorem entry_l1 {s : Rebuild w} {ps : List (Rebuild w)} (hcs : CanonSt s)
    (hp : ∃ M0p Ep Sp, MInv s ps M0p Ep Sp) (shP cS : Int) :
    ∀ σE σS : State w, SameMem shP σS σE → σS.rd cS ≠ 0#w →
      ∃ M0, RelAt shP (freshChild s.shift (cS + shP)) (s :: ps) M0 σE σS := by
  intro σE σS hm hne
  obtain ⟨M0p, Ep, Sp, hpm⟩ := hp
  refine ⟨memE σE, hm.1, hm.2.1, hm.2.2.1, rfl, ?_, fun v => rfl, ?_⟩
  · show memS σE σS = Mem.par [] (memE σE)
    rw [par_nil]; exact hm.2.2.2
  · refine pk_noanal rfl hcs hpm (memE σE) ?_
    intro _ v hv
    have : v = cS + shP := by
      have : (freshChild s.shift (cS + shP) : Rebuild w).cond = some (cS + shP) := rfl
      rw [this] at hv; cases hv; rfl
    rw [this, ← sameMem_cond hm]; exact hne

/-! ### forgetting the parent -/

theorem PK.forget {sub : Rebuild w} {pc : List (Rebuild w)} {M0 : Mem w} (h : PK sub pc M0) :
    PK (forgetParent sub) [] M0 := by
  have hca : ∀ v, canAskParentFor (forgetParent sub) v = canAskParentFor sub v := fun v => rfl
  refine ⟨?_, ?_, ?_⟩
  · intro v c hc
    unfold getParentConstant at hc
    split at hc
    · simp [forgetParent] at hc
    · cases hc
  · intro v hv
    apply h.nz v
    unfold nonZeroParent at hv ⊢
    split at hv
    · rename_i hh
      exact if_pos hh
    · split at hv
      · simp [forgetParent] at hv
      · cases hv
  · intro a b _ _ hc
    unfold compareParent at hc
    split at hc
    · rename_i hab
      have : a = b := by simpa using hab
      rw [this]
    · split at hc
      · simp [forgetParent, pure, Except.pure] at hc
      · simp [pure, Except.pure] at hc

theorem RelAt.forget {sh : Int} {sub : Rebuild w} {pc : List (Rebuild w)} {M0 : Mem w} {σE σS : State w}
    (h : RelAt sh sub pc M0 σE σS) : RelAt sh (forgetParent sub) [] M0 σE σS :=
  ⟨h.tr, h.env, h.ptr, h.nr, ⟨h.inv.pend, h.inv.writ, h.inv.pk.forget⟩⟩

/-- The footprint notions only look at `subShift`, `reads` and `written` of the end state. -/
theorem FootStepV.congr_right {V : State w → Prop} {s s1 s2 : Rebuild w} {new : List (Instr w)}
    (h : FootStepV V s s1 new) (h1 : s2.subShift = s1.subShift) (h2 : s2.reads = s1.reads)
    (h3 : s2.written = s1.written) : FootStepV V s s2 new := by
  intro hs K hK σ1 σ2 hv hag
  have := h (h1 ▸ hs) K (fun v hv' => by rw [← h2]; exact hK v hv') σ1 σ2 hv hag
  refine this.mono ?_
  intro a b hab
  refine hab.mono ?_
  rintro v ⟨hk, hd⟩
  refine ⟨hk, fun hd' => hd ?_⟩
  obtain ⟨k, e1, e2⟩ := hd'
  exact ⟨k, by rw [← h3]; exact e1, e2⟩

theorem FootBadV.congr_right {V : State w → Prop} {s s1 s2 : Rebuild w} {new : List (Instr w)}
    (h : FootBadV V s s1 new) (h1 : s2.subShift = s1.subShift) (h2 : s2.reads = s1.reads) :
    FootBadV V s s2 new := by
  intro hs K hK σ1 σ2 hv hag hb
  exact h (h1 ▸ hs) K (fun v hv' => by rw [← h2]; exact hK v hv') σ1 σ2 hv hag hb

theorem FootFrameV.congr_right {V : State w → Prop} {s s1 s2 : Rebuild w} {new : List (Instr w)}
    (h : FootFrameV V s s1 new) (h1 : s2.subShift = s1.subShift) (h2 : s2.reads = s1.reads)
    (h3 : s2.written = s1.written) : FootFrameV V s s2 new := by
  intro hs K hK σ1 σ2 hv hag b hex
  obtain ⟨p, m⟩ := h (h1 ▸ hs) K (fun v hv' => by rw [← h2]; exact hK v hv') σ1 σ2 hv hag b hex
  exact ⟨p, fun v hv1 hv2 => m v (by rw [← h3]; exact hv1) (by rw [← h2]; exact hv2)⟩

/-- The facts a parent needs about a non-moving child, from the `StepAll` of the child's body. -/
theorem childPre_of_stepAll {Gc : State w → Prop} {shP shC cS : Int} {s : Rebuild w} {ps : List (Rebuild w)}
    {sub0 sub : Rebuild w}
    {bodyS new : List (Instr w)} (hb : StepAll Gc shP shC (s :: ps) sub0 sub bodyS new)
    (h0 : sub0.insts = []) (hw0 : sub0.written = []) (hns : sub.subShift = false)
    (hentry : ∀ σE σS : State w, SameMem shP σS σE → σS.rd cS ≠ 0#w → Gc σS →
      ∃ M0, RelAt shP sub0 (s :: ps) M0 σE σS) :
    ChildPre Gc shP shC (s :: ps) sub0 (forgetParent sub) cS bodyS := by
  have hnew : (forgetParent sub).insts = new := by
    show sub.insts = new
    rw [hb.insts, h0]; rfl
  refine ⟨?_, ?_, ?_, ?_, hns, hw0, hentry, ⟨hb.wf.pend, hb.wf.writ, hb.wf.rev, hb.wf.revOk⟩⟩
  · intro M0 σE σS hrel hg
    rw [hnew]
    obtain ⟨hs, hbad⟩ := hb.step.2 M0 σE σS hrel hg
    refine ⟨hs.mono ?_, hbad⟩
    rintro a b ⟨M0', hr', hk'⟩
    exact ⟨M0', hr'.forget, hk'⟩
  · rw [hnew]; exact hb.foot.congr_right rfl rfl rfl
  · rw [hnew]; exact hb.bad.congr_right rfl rfl
  · rw [hnew]; exact hb.frame.congr_right rfl rfl rfl

end OptProof
end Hpbf
