/-
Rebuild-round proofs: AGREEMENT of two big-step runs of the same code from states that differ only on addresses
that the run does not expose (`Exposes`, `Thru`: `OptRbRd1.lean`).

`AgreeAbs Kd σ1 σ2`: same pointer, environment, trace, and the same tape outside the set `Kd` of absolute addresses.
If no address of `Kd` is exposed by the run of `l` from `σ1`, the runs of `l` from `σ1` and `σ2` mirror each other
(`sim_of_unexposed`), and at the end the tapes agree outside the addresses of `Kd` that were not touched at all
(a touched unexposed address is written before it is read).
-/
import Hpbf.Proofs.OptRbRd1
import Hpbf.Proofs.OptRbExt

namespace Hpbf
namespace OptProof
open Opt OptSem Ir

variable {w : Nat}

/-- Same pointer, environment and trace; same tape outside `Kd`. -/
def AgreeAbs (Kd : Int → Prop) (σ1 σ2 : State w) : Prop :=
  σ1.ptr = σ2.ptr ∧ σ1.env = σ2.env ∧ σ1.trace = σ2.trace ∧ ∀ a, ¬ Kd a → σ1.tape.get a = σ2.tape.get a

theorem AgreeAbs.mono {Kd Kd' : Int → Prop} {σ1 σ2 : State w} (h : AgreeAbs Kd σ1 σ2)
    (hk : ∀ a, Kd a → Kd' a) : AgreeAbs Kd' σ1 σ2 :=
  ⟨h.1, h.2.1, h.2.2.1, fun a ha => h.2.2.2 a (fun hk' => ha (hk a hk'))⟩

theorem AgreeAbs.symm {Kd : Int → Prop} {σ1 σ2 : State w} (h : AgreeAbs Kd σ1 σ2) : AgreeAbs Kd σ2 σ1 :=
  ⟨h.1.symm, h.2.1.symm, h.2.2.1.symm, fun a ha => (h.2.2.2 a ha).symm⟩

theorem AgreeAbs.of_stEq {Kd : Int → Prop} {σ1 σ2 : State w} (h : StEq σ1 σ2) : AgreeAbs Kd σ1 σ2 :=
  ⟨h.1, h.2.1, h.2.2.1, fun a _ => h.2.2.2 a⟩

theorem AgreeAbs.stEq {σ1 σ2 : State w} (h : AgreeAbs (fun _ => False) σ1 σ2) : StEq σ1 σ2 :=
  ⟨h.1, h.2.1, h.2.2.1, fun a => h.2.2.2 a (fun hf => hf)⟩

theorem AgreeAbs.mov {Kd : Int → Prop} {σ1 σ2 : State w} (h : AgreeAbs Kd σ1 σ2) (d : Int) :
    AgreeAbs Kd (σ1.mov d) (σ2.mov d) :=
  ⟨by show σ1.ptr + d = σ2.ptr + d; rw [h.1], h.2.1, h.2.2.1, h.2.2.2⟩

theorem AgreeAbs.rd {Kd : Int → Prop} {σ1 σ2 : State w} (h : AgreeAbs Kd σ1 σ2) {v : Int}
    (hv : ¬ Kd (σ1.ptr + v)) : σ1.rd v = σ2.rd v := by
  show σ1.tape.get (σ1.ptr + v) = σ2.tape.get (σ2.ptr + v)
  rw [← h.1]; exact h.2.2.2 _ hv

theorem AgreeAbs.wr {Kd : Int → Prop} {σ1 σ2 : State w} (h : AgreeAbs Kd σ1 σ2) (v : Int) (x : BitVec w) :
    AgreeAbs (fun a => Kd a ∧ a ≠ σ1.ptr + v) (σ1.wr v x) (σ2.wr v x) := by
  refine ⟨h.1, h.2.1, h.2.2.1, fun a ha => ?_⟩
  show (σ1.tape.set (σ1.ptr + v) x).get a = (σ2.tape.set (σ2.ptr + v) x).get a
  rw [Tape.get_set, Tape.get_set, ← h.1]
  by_cases e : a = σ1.ptr + v
  · simp [e]
  · simp only [e, if_false]
    exact h.2.2.2 a (fun hk => ha ⟨hk, e⟩)

theorem AgreeAbs.wrAll {Kd : Int → Prop} {σ1 σ2 : State w} (h : AgreeAbs Kd σ1 σ2)
    (vals : List (Int × BitVec w)) :
    AgreeAbs (fun a => Kd a ∧ ∀ vv ∈ vals, σ1.ptr + vv.1 ≠ a) (C01Dse.wrAll σ1 vals) (C01Dse.wrAll σ2 vals) := by
  induction vals generalizing Kd σ1 σ2 with
  | nil => exact h.mono (fun a ha => ⟨ha, fun _ hv => by cases hv⟩)
  | cons vv vals ih =>
    refine (ih (h.wr vv.1 vv.2)).mono (fun a ha => ?_)
    obtain ⟨⟨hk, hne⟩, hr⟩ := ha
    refine ⟨hk, fun vv' hvv' => ?_⟩
    rcases List.mem_cons.1 hvv' with e | e
    · subst e; exact fun e' => hne e'.symm
    · exact hr vv' e

theorem AgreeAbs.doCalc {Kd : Int → Prop} {σ1 σ2 : State w} (h : AgreeAbs Kd σ1 σ2) (g : List (Int × Expr w))
    (hr : ∀ ve ∈ g, ∀ v ∈ Expr.variables ve.2, ¬ Kd (σ1.ptr + v)) :
    AgreeAbs (fun a => Kd a ∧ ∀ ve ∈ g, σ1.ptr + ve.1 ≠ a) (Ir.doCalc σ1 g) (Ir.doCalc σ2 g) := by
  rw [C01Dse.doCalc_eq, C01Dse.doCalc_eq]
  have hvals : g.map (fun ve => (ve.1, Expr.evaluate ve.2 (fun off => σ1.rd off))) =
      g.map (fun ve => (ve.1, Expr.evaluate ve.2 (fun off => σ2.rd off))) := by
    apply List.map_congr_left
    intro ve hve
    rw [C01Dse.evaluate_congr (fun off => σ1.rd off) (fun off => σ2.rd off) ve.2
      (fun v hv => h.rd (hr ve hve v hv))]
  rw [← hvals]
  refine (h.wrAll _).mono (fun a ha => ⟨ha.1, fun ve hve => ?_⟩)
  exact ha.2 (ve.1, Expr.evaluate ve.2 (fun off => σ1.rd off)) (List.mem_map.2 ⟨ve, hve, rfl⟩)

theorem AgreeAbs.output {Kd : Int → Prop} {σ1 σ2 : State w} (h : AgreeAbs Kd σ1 σ2) {src : Int}
    (hp : ¬ Kd (σ1.ptr + src)) :
    (σ1.output src).1 = (σ2.output src).1 ∧ AgreeAbs Kd (σ1.output src).2 (σ2.output src).2 := by
  have hrd := h.rd hp
  obtain ⟨hpt, he, ht, hg⟩ := h
  unfold State.output
  rw [hrd, he]
  by_cases hs : σ2.env.sink = true
  · simp only [hs, if_true]
    rcases hw : σ2.env.writeByte with ⟨ok, e⟩
    cases ok
    · exact ⟨rfl, hpt, rfl, by simp [ht], hg⟩
    · exact ⟨rfl, hpt, rfl, by simp [ht], hg⟩
  · simp only [hs]
    exact ⟨rfl, hpt, he, ht, hg⟩

theorem AgreeAbs.output_fwd {Kd : Int → Prop} {σ1 σ2 σ1' : State w} (h : AgreeAbs Kd σ1 σ2) {src : Int}
    (hp : ¬ Kd (σ1.ptr + src)) {b : Bool} (ho : σ1.output src = (b, σ1')) :
    ∃ σ2', σ2.output src = (b, σ2') ∧ AgreeAbs Kd σ1' σ2' := by
  obtain ⟨h1, h2⟩ := h.output hp
  rw [ho] at h1 h2
  cases hx : σ2.output src with
  | mk b' s' =>
    rw [hx] at h1 h2
    cases (h1 : b = b')
    exact ⟨s', rfl, h2⟩

theorem AgreeAbs.output_bwd {Kd : Int → Prop} {σ1 σ2 σ2' : State w} (h : AgreeAbs Kd σ1 σ2) {src : Int}
    (hp : ¬ Kd (σ1.ptr + src)) {b : Bool} (ho : σ2.output src = (b, σ2')) :
    ∃ σ1', σ1.output src = (b, σ1') ∧ AgreeAbs Kd σ1' σ2' := by
  obtain ⟨h1, h2⟩ := h.output hp
  rw [ho] at h1 h2
  cases hx : σ1.output src with
  | mk b' s' =>
    rw [hx] at h1 h2
    cases (h1 : b' = b)
    exact ⟨s', rfl, h2⟩

theorem AgreeAbs.input {Kd : Int → Prop} {σ1 σ2 : State w} (h : AgreeAbs Kd σ1 σ2) (dst : Int) :
    (σ1.input dst).1 = (σ2.input dst).1 ∧
      AgreeAbs (fun a => Kd a ∧ ((σ1.input dst).1 = true → a ≠ σ1.ptr + dst))
        (σ1.input dst).2 (σ2.input dst).2 := by
  unfold State.input
  rw [h.2.1]
  cases hr : σ2.env.readByte with
  | got b e =>
    obtain ⟨hp, _, _, hg⟩ := h.wr dst (Cell.fromU8 (BitVec.ofNat 8 b.toNat))
    exact ⟨rfl, hp, rfl, by simp [h.2.2.1], fun a ha => hg a (fun hk => ha ⟨hk.1, fun _ => hk.2⟩)⟩
  | failed e =>
    exact ⟨rfl, h.1, rfl, by simp [h.2.2.1], fun a ha => h.2.2.2 a (fun hk => ha ⟨hk, fun hf => by cases hf⟩)⟩
  | absent =>
    exact ⟨rfl, h.1, h.2.1, h.2.2.1, fun a ha => h.2.2.2 a (fun hk => ha ⟨hk, fun hf => by cases hf⟩)⟩

theorem AgreeAbs.input_fwd {Kd : Int → Prop} {σ1 σ2 σ1' : State w} (h : AgreeAbs Kd σ1 σ2) {dst : Int}
    {b : Bool} (ho : σ1.input dst = (b, σ1')) :
    ∃ σ2', σ2.input dst = (b, σ2') ∧ AgreeAbs (fun a => Kd a ∧ (b = true → a ≠ σ1.ptr + dst)) σ1' σ2' := by
  obtain ⟨h1, h2⟩ := h.input dst
  rw [ho] at h1 h2
  cases hx : σ2.input dst with
  | mk b' s' =>
    rw [hx] at h1 h2
    cases (h1 : b = b')
    exact ⟨s', rfl, h2⟩

theorem AgreeAbs.input_bwd {Kd : Int → Prop} {σ1 σ2 σ2' : State w} (h : AgreeAbs Kd σ1 σ2) {dst : Int}
    {b : Bool} (ho : σ2.input dst = (b, σ2')) :
    ∃ σ1', σ1.input dst = (b, σ1') ∧ AgreeAbs (fun a => Kd a ∧ (b = true → a ≠ σ1.ptr + dst)) σ1' σ2' := by
  obtain ⟨h1, h2⟩ := h.input dst
  rw [ho] at h1 h2
  cases hx : σ1.input dst with
  | mk b' s' =>
    rw [hx] at h1 h2
    cases (h1 : b' = b)
    exact ⟨s', rfl, h2⟩

/-! ### `Match` -/

theorem Match.mono {Q Q' : State w → State w → Prop} {o o' : Out w} (h : Match Q o o')
    (hq : ∀ x y, Q x y → Q' x y) : Match Q' o o' := by
  cases o with
  | fin x => obtain ⟨y, e, hxy⟩ := h; exact ⟨y, e, hq _ _ hxy⟩
  | stop x => exact h
  | part t => exact h

theorem Match.nonfin {Q Q' : State w → State w → Prop} {o o' : Out w} (h : Match Q o o')
    (hnf : o.isFin = false) : Match Q' o o' ∧ o'.isFin = false := by
  cases o with
  | fin x => cases hnf
  | stop x => obtain ⟨y, rfl, hxy⟩ := h; exact ⟨⟨y, rfl, hxy⟩, rfl⟩
  | part t => cases (h : o' = .part t); exact ⟨rfl, rfl⟩

/-- The relation at the end of mirrored runs: the tapes agree outside the addresses of `Kd` that the run from `σ1`
did not touch. -/
def EndRel (Kd : Int → Prop) (l : List (Instr w)) (σ1 : State w) (x y : State w) : Prop :=
  AgreeAbs (fun a => Kd a ∧ Thru a l σ1 x) x y

theorem EndRel.of {Kd Kd' : Int → Prop} {l l' : List (Instr w)} {σ1 σ1' x y : State w}
    (h : EndRel Kd' l' σ1' x y) (hk : ∀ a, Kd' a → Thru a l' σ1' x → Kd a ∧ Thru a l σ1 x) :
    EndRel Kd l σ1 x y :=
  AgreeAbs.mono h (fun a ha => hk a ha.1 ha.2)

/-! ### forward: a run from `σ1` is mirrored from `σ2` -/

theorem agree_fwd {l : List (Instr w)} {σ1 : State w} {o : Out w} (h : Exec l σ1 o) :
    ∀ (Kd : Int → Prop) (σ2 : State w), AgreeAbs Kd σ1 σ2 → (∀ a, Kd a → ¬ Exposes a l σ1) →
      ∃ o', Exec l σ2 o' ∧ Match (EndRel Kd l σ1) o o' := by
  induction h with
  | cut l σ1 =>
    intro Kd σ2 hag _
    refine ⟨.part σ2.trace, .cut _ _, ?_⟩
    show Out.part σ2.trace = Out.part σ1.trace
    rw [hag.2.2.1]
  | nil σ1 =>
    intro Kd σ2 hag _
    exact ⟨.fin σ2, .nil _, σ2, rfl, hag.mono (fun a ha => ⟨ha, .nil _⟩)⟩
  | @outOk src rest σ1 σ1' o ho _ ih =>
    intro Kd σ2 hag hne
    have hp : ¬ Kd (σ1.ptr + src) := fun hk => hne _ hk (.outHere rfl)
    obtain ⟨σ2', ho2, hag'⟩ := hag.output_fwd hp ho
    obtain ⟨o', hex, hm⟩ := ih Kd σ2' hag' (fun a hk he => hne a hk (.outNext ho he))
    refine ⟨o', .outOk ho2 hex, hm.mono (fun x y hxy => hxy.of (fun a hk ht => ⟨hk, ?_⟩))⟩
    exact .outOk ho (fun e => hp (e ▸ hk)) ht
  | @outFail src rest σ1 σ1' ho =>
    intro Kd σ2 hag hne
    have hp : ¬ Kd (σ1.ptr + src) := fun hk => hne _ hk (.outHere rfl)
    obtain ⟨σ2', ho2, hag'⟩ := hag.output_fwd hp ho
    exact ⟨.stop σ2', .outFail ho2, σ2', rfl, hag'.2.2.1.symm, hag'.2.1.symm⟩
  | @inOk dst rest σ1 σ1' o ho _ ih =>
    intro Kd σ2 hag hne
    obtain ⟨σ2', ho2, hag'⟩ := hag.input_fwd ho
    obtain ⟨o', hex, hm⟩ := ih _ σ2' hag' (fun a hk he => hne a hk.1 (.inNext ho (fun e => hk.2 rfl e.symm) he))
    refine ⟨o', .inOk ho2 hex, hm.mono (fun x y hxy => hxy.of (fun a hk ht => ⟨hk.1, ?_⟩))⟩
    exact .inOk ho (fun e => hk.2 rfl e.symm) ht
  | @inFail dst rest σ1 σ1' ho =>
    intro Kd σ2 hag hne
    obtain ⟨σ2', ho2, hag'⟩ := hag.input_fwd ho
    exact ⟨.stop σ2', .inFail ho2, σ2', rfl, hag'.2.2.1.symm, hag'.2.1.symm⟩
  | @«calc» g rest σ1 o _ ih =>
    intro Kd σ2 hag hne
    have hr : ∀ ve ∈ g, ∀ v ∈ Expr.variables ve.2, ¬ Kd (σ1.ptr + v) :=
      fun ve hve v hv hk => hne _ hk (.calcHere ⟨ve, hve, v, hv, rfl⟩)
    have hag' := hag.doCalc g hr
    obtain ⟨o', hex, hm⟩ := ih _ _ hag' (fun a hk he => hne a hk.1 (.calcNext hk.2 he))
    refine ⟨o', .calc hex, hm.mono (fun x y hxy => hxy.of (fun a hk ht => ⟨hk.1, ?_⟩))⟩
    exact .calc hk.2 (fun ve hve v hv e => hr ve hve v hv (e ▸ hk.1)) ht
  | @loopSkip c sh body once rest σ1 o hz _ ih =>
    intro Kd σ2 hag hne
    have hp : ¬ Kd (σ1.ptr + c) := fun hk => hne _ hk (.loopHere rfl)
    have hz2 : σ2.rd c = 0#w := by rw [← hag.rd hp]; exact hz
    obtain ⟨o', hex, hm⟩ := ih Kd σ2 hag (fun a hk he => hne a hk (.loopSkip hz he))
    refine ⟨o', .loopSkip hz2 hex, hm.mono (fun x y hxy => hxy.of (fun a hk ht => ⟨hk, ?_⟩))⟩
    exact .loopSkip hz (fun e => hp (e ▸ hk)) ht
  | @loopIter c sh body once rest σ1 σm o hnz _ _ ihb ihl =>
    intro Kd σ2 hag hne
    have hp : ¬ Kd (σ1.ptr + c) := fun hk => hne _ hk (.loopHere rfl)
    have hnz2 : σ2.rd c ≠ 0#w := by rw [← hag.rd hp]; exact hnz
    obtain ⟨ob, hexb, σm2, rfl, hagm⟩ := ihb Kd σ2 hag (fun a hk he => hne a hk (.loopIn hnz he))
    obtain ⟨o', hex, hm⟩ := ihl _ (σm2.mov sh) (AgreeAbs.mov hagm sh)
      (fun a hk he => hne a hk.1 (.loopIter hnz hk.2 he))
    refine ⟨o', .loopIter hnz2 hexb hex, hm.mono (fun x y hxy => hxy.of (fun a hk ht => ⟨hk.1, ?_⟩))⟩
    exact .loopIter hnz (fun e => hp (e ▸ hk.1)) hk.2 ht
  | @loopIn c sh body once rest σ1 o hnz _ hnf ihb =>
    intro Kd σ2 hag hne
    have hp : ¬ Kd (σ1.ptr + c) := fun hk => hne _ hk (.loopHere rfl)
    have hnz2 : σ2.rd c ≠ 0#w := by rw [← hag.rd hp]; exact hnz
    obtain ⟨o', hexb, hm⟩ := ihb Kd σ2 hag (fun a hk he => hne a hk (.loopIn hnz he))
    obtain ⟨hm', hnf'⟩ := hm.nonfin (Q' := EndRel Kd (.loop c sh body once :: rest) σ1) hnf
    exact ⟨o', .loopIn hnz2 hexb hnf', hm'⟩
  | @ifSkip c sh body rest σ1 o hz _ ih =>
    intro Kd σ2 hag hne
    have hp : ¬ Kd (σ1.ptr + c) := fun hk => hne _ hk (.ifHere rfl)
    have hz2 : σ2.rd c = 0#w := by rw [← hag.rd hp]; exact hz
    obtain ⟨o', hex, hm⟩ := ih Kd σ2 hag (fun a hk he => hne a hk (.ifSkip hz he))
    refine ⟨o', .ifSkip hz2 hex, hm.mono (fun x y hxy => hxy.of (fun a hk ht => ⟨hk, ?_⟩))⟩
    exact .ifSkip hz (fun e => hp (e ▸ hk)) ht
  | @ifIter c sh body rest σ1 σm o hnz _ _ ihb ihr =>
    intro Kd σ2 hag hne
    have hp : ¬ Kd (σ1.ptr + c) := fun hk => hne _ hk (.ifHere rfl)
    have hnz2 : σ2.rd c ≠ 0#w := by rw [← hag.rd hp]; exact hnz
    obtain ⟨ob, hexb, σm2, rfl, hagm⟩ := ihb Kd σ2 hag (fun a hk he => hne a hk (.ifIn hnz he))
    obtain ⟨o', hex, hm⟩ := ihr _ (σm2.mov sh) (AgreeAbs.mov hagm sh)
      (fun a hk he => hne a hk.1 (.ifIter hnz hk.2 he))
    refine ⟨o', .ifIter hnz2 hexb hex, hm.mono (fun x y hxy => hxy.of (fun a hk ht => ⟨hk.1, ?_⟩))⟩
    exact .ifIter hnz (fun e => hp (e ▸ hk.1)) hk.2 ht
  | @ifIn c sh body rest σ1 o hnz _ hnf ihb =>
    intro Kd σ2 hag hne
    have hp : ¬ Kd (σ1.ptr + c) := fun hk => hne _ hk (.ifHere rfl)
    have hnz2 : σ2.rd c ≠ 0#w := by rw [← hag.rd hp]; exact hnz
    obtain ⟨o', hexb, hm⟩ := ihb Kd σ2 hag (fun a hk he => hne a hk (.ifIn hnz he))
    obtain ⟨hm', hnf'⟩ := hm.nonfin (Q' := EndRel Kd (.ifnz c sh body :: rest) σ1) hnf
    exact ⟨o', .ifIn hnz2 hexb hnf', hm'⟩

/-! ### backward: a run from `σ2` is mirrored from `σ1` (the hypothesis is still about `σ1`) -/

theorem agree_bwd {l : List (Instr w)} {σ2 : State w} {o' : Out w} (h : Exec l σ2 o') :
    ∀ (Kd : Int → Prop) (σ1 : State w), AgreeAbs Kd σ1 σ2 → (∀ a, Kd a → ¬ Exposes a l σ1) →
      ∃ o, Exec l σ1 o ∧ Match (fun y x => EndRel Kd l σ1 x y) o' o := by
  induction h with
  | cut l σ2 =>
    intro Kd σ1 hag _
    refine ⟨.part σ1.trace, .cut _ _, ?_⟩
    show Out.part σ1.trace = Out.part σ2.trace
    rw [hag.2.2.1]
  | nil σ2 =>
    intro Kd σ1 hag _
    exact ⟨.fin σ1, .nil _, σ1, rfl, hag.mono (fun a ha => ⟨ha, .nil _⟩)⟩
  | @outOk src rest σ2 σ2' o' ho2 _ ih =>
    intro Kd σ1 hag hne
    have hp : ¬ Kd (σ1.ptr + src) := fun hk => hne _ hk (.outHere rfl)
    obtain ⟨σ1', ho, hag'⟩ := hag.output_bwd hp ho2
    obtain ⟨o, hex, hm⟩ := ih Kd σ1' hag' (fun a hk he => hne a hk (.outNext ho he))
    refine ⟨o, .outOk ho hex, hm.mono (fun y x hxy => EndRel.of hxy (fun a hk ht => ⟨hk, ?_⟩))⟩
    exact .outOk ho (fun e => hp (e ▸ hk)) ht
  | @outFail src rest σ2 σ2' ho2 =>
    intro Kd σ1 hag hne
    have hp : ¬ Kd (σ1.ptr + src) := fun hk => hne _ hk (.outHere rfl)
    obtain ⟨σ1', ho, hag'⟩ := hag.output_bwd hp ho2
    exact ⟨.stop σ1', .outFail ho, σ1', rfl, hag'.2.2.1, hag'.2.1⟩
  | @inOk dst rest σ2 σ2' o' ho2 _ ih =>
    intro Kd σ1 hag hne
    obtain ⟨σ1', ho, hag'⟩ := hag.input_bwd ho2
    obtain ⟨o, hex, hm⟩ := ih _ σ1' hag' (fun a hk he => hne a hk.1 (.inNext ho (fun e => hk.2 rfl e.symm) he))
    refine ⟨o, .inOk ho hex, hm.mono (fun y x hxy => EndRel.of hxy (fun a hk ht => ⟨hk.1, ?_⟩))⟩
    exact .inOk ho (fun e => hk.2 rfl e.symm) ht
  | @inFail dst rest σ2 σ2' ho2 =>
    intro Kd σ1 hag hne
    obtain ⟨σ1', ho, hag'⟩ := hag.input_bwd ho2
    exact ⟨.stop σ1', .inFail ho, σ1', rfl, hag'.2.2.1, hag'.2.1⟩
  | @«calc» g rest σ2 o' _ ih =>
    intro Kd σ1 hag hne
    have hr : ∀ ve ∈ g, ∀ v ∈ Expr.variables ve.2, ¬ Kd (σ1.ptr + v) :=
      fun ve hve v hv hk => hne _ hk (.calcHere ⟨ve, hve, v, hv, rfl⟩)
    have hag' := hag.doCalc g hr
    obtain ⟨o, hex, hm⟩ := ih _ _ hag' (fun a hk he => hne a hk.1 (.calcNext hk.2 he))
    refine ⟨o, .calc hex, hm.mono (fun y x hxy => EndRel.of hxy (fun a hk ht => ⟨hk.1, ?_⟩))⟩
    exact .calc hk.2 (fun ve hve v hv e => hr ve hve v hv (e ▸ hk.1)) ht
  | @loopSkip c sh body once rest σ2 o' hz2 _ ih =>
    intro Kd σ1 hag hne
    have hp : ¬ Kd (σ1.ptr + c) := fun hk => hne _ hk (.loopHere rfl)
    have hz : σ1.rd c = 0#w := by rw [hag.rd hp]; exact hz2
    obtain ⟨o, hex, hm⟩ := ih Kd σ1 hag (fun a hk he => hne a hk (.loopSkip hz he))
    refine ⟨o, .loopSkip hz hex, hm.mono (fun y x hxy => EndRel.of hxy (fun a hk ht => ⟨hk, ?_⟩))⟩
    exact .loopSkip hz (fun e => hp (e ▸ hk)) ht
  | @loopIter c sh body once rest σ2 σm2 o' hnz2 _ _ ihb ihl =>
    intro Kd σ1 hag hne
    have hp : ¬ Kd (σ1.ptr + c) := fun hk => hne _ hk (.loopHere rfl)
    have hnz : σ1.rd c ≠ 0#w := by rw [hag.rd hp]; exact hnz2
    obtain ⟨ob, hexb, σm, rfl, hagm⟩ := ihb Kd σ1 hag (fun a hk he => hne a hk (.loopIn hnz he))
    obtain ⟨o, hex, hm⟩ := ihl _ (σm.mov sh) (AgreeAbs.mov hagm sh)
      (fun a hk he => hne a hk.1 (.loopIter hnz hk.2 he))
    refine ⟨o, .loopIter hnz hexb hex, hm.mono (fun y x hxy => EndRel.of hxy (fun a hk ht => ⟨hk.1, ?_⟩))⟩
    exact .loopIter hnz (fun e => hp (e ▸ hk.1)) hk.2 ht
  | @loopIn c sh body once rest σ2 o' hnz2 _ hnf ihb =>
    intro Kd σ1 hag hne
    have hp : ¬ Kd (σ1.ptr + c) := fun hk => hne _ hk (.loopHere rfl)
    have hnz : σ1.rd c ≠ 0#w := by rw [hag.rd hp]; exact hnz2
    obtain ⟨o, hexb, hm⟩ := ihb Kd σ1 hag (fun a hk he => hne a hk (.loopIn hnz he))
    obtain ⟨hm', hnf'⟩ :=
      hm.nonfin (Q' := fun y x => EndRel Kd (.loop c sh body once :: rest) σ1 x y) hnf
    exact ⟨o, .loopIn hnz hexb hnf', hm'⟩
  | @ifSkip c sh body rest σ2 o' hz2 _ ih =>
    intro Kd σ1 hag hne
    have hp : ¬ Kd (σ1.ptr + c) := fun hk => hne _ hk (.ifHere rfl)
    have hz : σ1.rd c = 0#w := by rw [hag.rd hp]; exact hz2
    obtain ⟨o, hex, hm⟩ := ih Kd σ1 hag (fun a hk he => hne a hk (.ifSkip hz he))
    refine ⟨o, .ifSkip hz hex, hm.mono (fun y x hxy => EndRel.of hxy (fun a hk ht => ⟨hk, ?_⟩))⟩
    exact .ifSkip hz (fun e => hp (e ▸ hk)) ht
  | @ifIter c sh body rest σ2 σm2 o' hnz2 _ _ ihb ihr =>
    intro Kd σ1 hag hne
    have hp : ¬ Kd (σ1.ptr + c) := fun hk => hne _ hk (.ifHere rfl)
    have hnz : σ1.rd c ≠ 0#w := by rw [hag.rd hp]; exact hnz2
    obtain ⟨ob, hexb, σm, rfl, hagm⟩ := ihb Kd σ1 hag (fun a hk he => hne a hk (.ifIn hnz he))
    obtain ⟨o, hex, hm⟩ := ihr _ (σm.mov sh) (AgreeAbs.mov hagm sh)
      (fun a hk he => hne a hk.1 (.ifIter hnz hk.2 he))
    refine ⟨o, .ifIter hnz hexb hex, hm.mono (fun y x hxy => EndRel.of hxy (fun a hk ht => ⟨hk.1, ?_⟩))⟩
    exact .ifIter hnz (fun e => hp (e ▸ hk.1)) hk.2 ht
  | @ifIn c sh body rest σ2 o' hnz2 _ hnf ihb =>
    intro Kd σ1 hag hne
    have hp : ¬ Kd (σ1.ptr + c) := fun hk => hne _ hk (.ifHere rfl)
    have hnz : σ1.rd c ≠ 0#w := by rw [hag.rd hp]; exact hnz2
    obtain ⟨o, hexb, hm⟩ := ihb Kd σ1 hag (fun a hk he => hne a hk (.ifIn hnz he))
    obtain ⟨hm', hnf'⟩ :=
      hm.nonfin (Q' := fun y x => EndRel Kd (.ifnz c sh body :: rest) σ1 x y) hnf
    exact ⟨o, .ifIn hnz hexb hnf', hm'⟩

/-! ### the simulation -/

/-- **Runs from states that differ only on unexposed addresses mirror each other.** -/
theorem sim_of_unexposed (l : List (Instr w)) (σ1 σ2 : State w) (Kd : Int → Prop) (hag : AgreeAbs Kd σ1 σ2)
    (hne : ∀ a, Kd a → ¬ Exposes a l σ1) :
    Sim (fun x y => AgreeAbs (fun a => Kd a ∧ Thru a l σ1 x) x y) l l σ1 σ2 :=
  Sim.of_fwd (fun _ ho => agree_fwd ho Kd σ2 hag hne) (fun _ ho => agree_bwd ho Kd σ1 hag hne)

/-! ### `Bad` -/

/-- (`exposes_once_irrel` of `OptRbRdAdeq.lean`, repeated here to keep the imports small) -/
theorem exposes_flag_irrel {a : Int} {c sh : Int} {body rest : List (Instr w)} {o o' : Bool} {σ : State w}
    (h : Exposes a (.loop c sh body o :: rest) σ) : Exposes a (.loop c sh body o' :: rest) σ := by
  generalize hl : Instr.loop c sh body o :: rest = l at h
  induction h with
  | loopHere hp => cases hl; exact .loopHere hp
  | loopSkip hz hr => cases hl; exact .loopSkip hz hr
  | loopIn hnz hb => cases hl; exact .loopIn hnz hb
  | loopIter hnz hb _ ih => cases hl; exact .loopIter hnz hb (ih rfl)
  | _ => cases hl

theorem bad_of_unexposed {l : List (Instr w)} {σ2 : State w} (h : Bad l σ2) :
    ∀ (Kd : Int → Prop) (σ1 : State w), AgreeAbs Kd σ1 σ2 → (∀ a, Kd a → ¬ Exposes a l σ1) → Bad l σ1 := by
  induction h with
  | @here c sh body rest σ2 hz2 =>
    intro Kd σ1 hag hne
    have hp : ¬ Kd (σ1.ptr + c) := fun hk => hne _ hk (.loopHere rfl)
    exact .here (by rw [hag.rd hp]; exact hz2)
  | @outOk src rest σ2 σ2' ho2 _ ih =>
    intro Kd σ1 hag hne
    have hp : ¬ Kd (σ1.ptr + src) := fun hk => hne _ hk (.outHere rfl)
    obtain ⟨σ1', ho, hag'⟩ := hag.output_bwd hp ho2
    exact .outOk ho (ih Kd σ1' hag' (fun a hk he => hne a hk (.outNext ho he)))
  | @inOk dst rest σ2 σ2' ho2 _ ih =>
    intro Kd σ1 hag hne
    obtain ⟨σ1', ho, hag'⟩ := hag.input_bwd ho2
    exact .inOk ho (ih _ σ1' hag' (fun a hk he => hne a hk.1 (.inNext ho (fun e => hk.2 rfl e.symm) he)))
  | @«calc» g rest σ2 _ ih =>
    intro Kd σ1 hag hne
    have hr : ∀ ve ∈ g, ∀ v ∈ Expr.variables ve.2, ¬ Kd (σ1.ptr + v) :=
      fun ve hve v hv hk => hne _ hk (.calcHere ⟨ve, hve, v, hv, rfl⟩)
    exact .calc (ih _ _ (hag.doCalc g hr) (fun a hk he => hne a hk.1 (.calcNext hk.2 he)))
  | @loopSkip c sh body once rest σ2 hz2 _ ih =>
    intro Kd σ1 hag hne
    have hp : ¬ Kd (σ1.ptr + c) := fun hk => hne _ hk (.loopHere rfl)
    have hz : σ1.rd c = 0#w := by rw [hag.rd hp]; exact hz2
    exact .loopSkip hz (ih Kd σ1 hag (fun a hk he => hne a hk (.loopSkip hz he)))
  | @loopIter c sh body once rest σ2 σm2 hnz2 hb2 _ ihl =>
    intro Kd σ1 hag hne
    have hp : ¬ Kd (σ1.ptr + c) := fun hk => hne _ hk (.loopHere rfl)
    have hnz : σ1.rd c ≠ 0#w := by rw [hag.rd hp]; exact hnz2
    obtain ⟨ob, hexb, σm, rfl, hagm⟩ := agree_bwd hb2 Kd σ1 hag (fun a hk he => hne a hk (.loopIn hnz he))
    refine .loopIter hnz hexb (ihl _ (σm.mov sh) (AgreeAbs.mov hagm sh) (fun a hk he => ?_))
    exact hne a hk.1 (.loopIter hnz hk.2 (exposes_flag_irrel he))
  | @loopIn c sh body once rest σ2 hnz2 _ ihb =>
    intro Kd σ1 hag hne
    have hp : ¬ Kd (σ1.ptr + c) := fun hk => hne _ hk (.loopHere rfl)
    have hnz : σ1.rd c ≠ 0#w := by rw [hag.rd hp]; exact hnz2
    exact .loopIn hnz (ihb Kd σ1 hag (fun a hk he => hne a hk (.loopIn hnz he)))
  | @ifSkip c sh body rest σ2 hz2 _ ih =>
    intro Kd σ1 hag hne
    have hp : ¬ Kd (σ1.ptr + c) := fun hk => hne _ hk (.ifHere rfl)
    have hz : σ1.rd c = 0#w := by rw [hag.rd hp]; exact hz2
    exact .ifSkip hz (ih Kd σ1 hag (fun a hk he => hne a hk (.ifSkip hz he)))
  | @ifIter c sh body rest σ2 σm2 hnz2 hb2 _ ihr =>
    intro Kd σ1 hag hne
    have hp : ¬ Kd (σ1.ptr + c) := fun hk => hne _ hk (.ifHere rfl)
    have hnz : σ1.rd c ≠ 0#w := by rw [hag.rd hp]; exact hnz2
    obtain ⟨ob, hexb, σm, rfl, hagm⟩ := agree_bwd hb2 Kd σ1 hag (fun a hk he => hne a hk (.ifIn hnz he))
    exact .ifIter hnz hexb (ihr _ (σm.mov sh) (AgreeAbs.mov hagm sh)
      (fun a hk he => hne a hk.1 (.ifIter hnz hk.2 he)))
  | @ifIn c sh body rest σ2 hnz2 _ ihb =>
    intro Kd σ1 hag hne
    have hp : ¬ Kd (σ1.ptr + c) := fun hk => hne _ hk (.ifHere rfl)
    have hnz : σ1.rd c ≠ 0#w := by rw [hag.rd hp]; exact hnz2
    exact .ifIn hnz (ihb Kd σ1 hag (fun a hk he => hne a hk (.ifIn hnz he)))

/-- the converse of `bad_of_unexposed` -/
theorem bad_of_unexposed' {l : List (Instr w)} {σ1 : State w} (h : Bad l σ1) :
    ∀ (Kd : Int → Prop) (σ2 : State w), AgreeAbs Kd σ1 σ2 → (∀ a, Kd a → ¬ Exposes a l σ1) → Bad l σ2 := by
  induction h with
  | @here c sh body rest σ1 hz =>
    intro Kd σ2 hag hne
    have hp : ¬ Kd (σ1.ptr + c) := fun hk => hne _ hk (.loopHere rfl)
    exact .here (by rw [← hag.rd hp]; exact hz)
  | @outOk src rest σ1 σ1' ho _ ih =>
    intro Kd σ2 hag hne
    have hp : ¬ Kd (σ1.ptr + src) := fun hk => hne _ hk (.outHere rfl)
    obtain ⟨σ2', ho2, hag'⟩ := hag.output_fwd hp ho
    exact .outOk ho2 (ih Kd σ2' hag' (fun a hk he => hne a hk (.outNext ho he)))
  | @inOk dst rest σ1 σ1' ho _ ih =>
    intro Kd σ2 hag hne
    obtain ⟨σ2', ho2, hag'⟩ := hag.input_fwd ho
    exact .inOk ho2 (ih _ σ2' hag' (fun a hk he => hne a hk.1 (.inNext ho (fun e => hk.2 rfl e.symm) he)))
  | @«calc» g rest σ1 _ ih =>
    intro Kd σ2 hag hne
    have hr : ∀ ve ∈ g, ∀ v ∈ Expr.variables ve.2, ¬ Kd (σ1.ptr + v) :=
      fun ve hve v hv hk => hne _ hk (.calcHere ⟨ve, hve, v, hv, rfl⟩)
    exact .calc (ih _ _ (hag.doCalc g hr) (fun a hk he => hne a hk.1 (.calcNext hk.2 he)))
  | @loopSkip c sh body once rest σ1 hz _ ih =>
    intro Kd σ2 hag hne
    have hp : ¬ Kd (σ1.ptr + c) := fun hk => hne _ hk (.loopHere rfl)
    have hz2 : σ2.rd c = 0#w := by rw [← hag.rd hp]; exact hz
    exact .loopSkip hz2 (ih Kd σ2 hag (fun a hk he => hne a hk (.loopSkip hz he)))
  | @loopIter c sh body once rest σ1 σm hnz hb _ ihl =>
    intro Kd σ2 hag hne
    have hp : ¬ Kd (σ1.ptr + c) := fun hk => hne _ hk (.loopHere rfl)
    have hnz2 : σ2.rd c ≠ 0#w := by rw [← hag.rd hp]; exact hnz
    obtain ⟨ob, hexb, σm2, rfl, hagm⟩ := agree_fwd hb Kd σ2 hag (fun a hk he => hne a hk (.loopIn hnz he))
    refine .loopIter hnz2 hexb (ihl _ (σm2.mov sh) (AgreeAbs.mov hagm sh) (fun a hk he => ?_))
    exact hne a hk.1 (.loopIter hnz hk.2 (exposes_flag_irrel he))
  | @loopIn c sh body once rest σ1 hnz _ ihb =>
    intro Kd σ2 hag hne
    have hp : ¬ Kd (σ1.ptr + c) := fun hk => hne _ hk (.loopHere rfl)
    have hnz2 : σ2.rd c ≠ 0#w := by rw [← hag.rd hp]; exact hnz
    exact .loopIn hnz2 (ihb Kd σ2 hag (fun a hk he => hne a hk (.loopIn hnz he)))
  | @ifSkip c sh body rest σ1 hz _ ih =>
    intro Kd σ2 hag hne
    have hp : ¬ Kd (σ1.ptr + c) := fun hk => hne _ hk (.ifHere rfl)
    have hz2 : σ2.rd c = 0#w := by rw [← hag.rd hp]; exact hz
    exact .ifSkip hz2 (ih Kd σ2 hag (fun a hk he => hne a hk (.ifSkip hz he)))
  | @ifIter c sh body rest σ1 σm hnz hb _ ihr =>
    intro Kd σ2 hag hne
    have hp : ¬ Kd (σ1.ptr + c) := fun hk => hne _ hk (.ifHere rfl)
    have hnz2 : σ2.rd c ≠ 0#w := by rw [← hag.rd hp]; exact hnz
    obtain ⟨ob, hexb, σm2, rfl, hagm⟩ := agree_fwd hb Kd σ2 hag (fun a hk he => hne a hk (.ifIn hnz he))
    exact .ifIter hnz2 hexb (ihr _ (σm2.mov sh) (AgreeAbs.mov hagm sh)
      (fun a hk he => hne a hk.1 (.ifIter hnz hk.2 he)))
  | @ifIn c sh body rest σ1 hnz _ ihb =>
    intro Kd σ2 hag hne
    have hp : ¬ Kd (σ1.ptr + c) := fun hk => hne _ hk (.ifHere rfl)
    have hnz2 : σ2.rd c ≠ 0#w := by rw [← hag.rd hp]; exact hnz
    exact .ifIn hnz2 (ihb Kd σ2 hag (fun a hk he => hne a hk (.ifIn hnz he)))

/-! ### `Thru` and `Exposes` of ANY address are mirrored too -/

theorem thru_fwd {b : Int} {l : List (Instr w)} {σ1 x : State w} (h : Thru b l σ1 x) :
    ∀ (Kd : Int → Prop) (σ2 : State w), AgreeAbs Kd σ1 σ2 → (∀ a, Kd a → ¬ Exposes a l σ1) →
      ∃ y, Thru b l σ2 y ∧ EndRel Kd l σ1 x y := by
  induction h with
  | nil σ1 =>
    intro Kd σ2 hag _
    exact ⟨σ2, .nil _, hag.mono (fun a ha => ⟨ha, .nil _⟩)⟩
  | @outOk src rest σ1 σ1' x ho hb _ ih =>
    intro Kd σ2 hag hne
    have hp : ¬ Kd (σ1.ptr + src) := fun hk => hne _ hk (.outHere rfl)
    obtain ⟨σ2', ho2, hag'⟩ := hag.output_fwd hp ho
    obtain ⟨y, hy, hxy⟩ := ih Kd σ2' hag' (fun a hk he => hne a hk (.outNext ho he))
    refine ⟨y, .outOk ho2 (hag.1 ▸ hb) hy, hxy.of (fun a hk ht => ⟨hk, ?_⟩)⟩
    exact .outOk ho (fun e => hp (e ▸ hk)) ht
  | @inOk dst rest σ1 σ1' x ho hb _ ih =>
    intro Kd σ2 hag hne
    obtain ⟨σ2', ho2, hag'⟩ := hag.input_fwd ho
    obtain ⟨y, hy, hxy⟩ := ih _ σ2' hag'
      (fun a hk he => hne a hk.1 (.inNext ho (fun e => hk.2 rfl e.symm) he))
    refine ⟨y, .inOk ho2 (hag.1 ▸ hb) hy, hxy.of (fun a hk ht => ⟨hk.1, ?_⟩)⟩
    exact .inOk ho (fun e => hk.2 rfl e.symm) ht
  | @«calc» g rest σ1 x hw hrb _ ih =>
    intro Kd σ2 hag hne
    have hr : ∀ ve ∈ g, ∀ v ∈ Expr.variables ve.2, ¬ Kd (σ1.ptr + v) :=
      fun ve hve v hv hk => hne _ hk (.calcHere ⟨ve, hve, v, hv, rfl⟩)
    obtain ⟨y, hy, hxy⟩ := ih _ _ (hag.doCalc g hr) (fun a hk he => hne a hk.1 (.calcNext hk.2 he))
    refine ⟨y, .calc (hag.1 ▸ hw) (hag.1 ▸ hrb) hy, hxy.of (fun a hk ht => ⟨hk.1, ?_⟩)⟩
    exact .calc hk.2 (fun ve hve v hv e => hr ve hve v hv (e ▸ hk.1)) ht
  | @loopSkip c sh body once rest σ1 x hz hb _ ih =>
    intro Kd σ2 hag hne
    have hp : ¬ Kd (σ1.ptr + c) := fun hk => hne _ hk (.loopHere rfl)
    have hz2 : σ2.rd c = 0#w := by rw [← hag.rd hp]; exact hz
    obtain ⟨y, hy, hxy⟩ := ih Kd σ2 hag (fun a hk he => hne a hk (.loopSkip hz he))
    refine ⟨y, .loopSkip hz2 (hag.1 ▸ hb) hy, hxy.of (fun a hk ht => ⟨hk, ?_⟩)⟩
    exact .loopSkip hz (fun e => hp (e ▸ hk)) ht
  | @loopIter c sh body once rest σ1 σm x hnz hb _ _ ihb ihl =>
    intro Kd σ2 hag hne
    have hp : ¬ Kd (σ1.ptr + c) := fun hk => hne _ hk (.loopHere rfl)
    have hnz2 : σ2.rd c ≠ 0#w := by rw [← hag.rd hp]; exact hnz
    obtain ⟨ym, hym, hagm⟩ := ihb Kd σ2 hag (fun a hk he => hne a hk (.loopIn hnz he))
    obtain ⟨y, hy, hxy⟩ := ihl _ (ym.mov sh) (AgreeAbs.mov hagm sh)
      (fun a hk he => hne a hk.1 (.loopIter hnz hk.2 he))
    refine ⟨y, .loopIter hnz2 (hag.1 ▸ hb) hym hy, hxy.of (fun a hk ht => ⟨hk.1, ?_⟩)⟩
    exact .loopIter hnz (fun e => hp (e ▸ hk.1)) hk.2 ht
  | @ifSkip c sh body rest σ1 x hz hb _ ih =>
    intro Kd σ2 hag hne
    have hp : ¬ Kd (σ1.ptr + c) := fun hk => hne _ hk (.ifHere rfl)
    have hz2 : σ2.rd c = 0#w := by rw [← hag.rd hp]; exact hz
    obtain ⟨y, hy, hxy⟩ := ih Kd σ2 hag (fun a hk he => hne a hk (.ifSkip hz he))
    refine ⟨y, .ifSkip hz2 (hag.1 ▸ hb) hy, hxy.of (fun a hk ht => ⟨hk, ?_⟩)⟩
    exact .ifSkip hz (fun e => hp (e ▸ hk)) ht
  | @ifIter c sh body rest σ1 σm x hnz hb _ _ ihb ihr =>
    intro Kd σ2 hag hne
    have hp : ¬ Kd (σ1.ptr + c) := fun hk => hne _ hk (.ifHere rfl)
    have hnz2 : σ2.rd c ≠ 0#w := by rw [← hag.rd hp]; exact hnz
    obtain ⟨ym, hym, hagm⟩ := ihb Kd σ2 hag (fun a hk he => hne a hk (.ifIn hnz he))
    obtain ⟨y, hy, hxy⟩ := ihr _ (ym.mov sh) (AgreeAbs.mov hagm sh)
      (fun a hk he => hne a hk.1 (.ifIter hnz hk.2 he))
    refine ⟨y, .ifIter hnz2 (hag.1 ▸ hb) hym hy, hxy.of (fun a hk ht => ⟨hk.1, ?_⟩)⟩
    exact .ifIter hnz (fun e => hp (e ▸ hk.1)) hk.2 ht

theorem thru_bwd {b : Int} {l : List (Instr w)} {σ2 y : State w} (h : Thru b l σ2 y) :
    ∀ (Kd : Int → Prop) (σ1 : State w), AgreeAbs Kd σ1 σ2 → (∀ a, Kd a → ¬ Exposes a l σ1) →
      ∃ x, Thru b l σ1 x ∧ EndRel Kd l σ1 x y := by
  induction h with
  | nil σ2 =>
    intro Kd σ1 hag _
    exact ⟨σ1, .nil _, hag.mono (fun a ha => ⟨ha, .nil _⟩)⟩
  | @outOk src rest σ2 σ2' y ho2 hb _ ih =>
    intro Kd σ1 hag hne
    have hp : ¬ Kd (σ1.ptr + src) := fun hk => hne _ hk (.outHere rfl)
    obtain ⟨σ1', ho, hag'⟩ := hag.output_bwd hp ho2
    obtain ⟨x, hx, hxy⟩ := ih Kd σ1' hag' (fun a hk he => hne a hk (.outNext ho he))
    refine ⟨x, .outOk ho (hag.1 ▸ hb) hx, hxy.of (fun a hk ht => ⟨hk, ?_⟩)⟩
    exact .outOk ho (fun e => hp (e ▸ hk)) ht
  | @inOk dst rest σ2 σ2' y ho2 hb _ ih =>
    intro Kd σ1 hag hne
    obtain ⟨σ1', ho, hag'⟩ := hag.input_bwd ho2
    obtain ⟨x, hx, hxy⟩ := ih _ σ1' hag'
      (fun a hk he => hne a hk.1 (.inNext ho (fun e => hk.2 rfl e.symm) he))
    refine ⟨x, .inOk ho (hag.1 ▸ hb) hx, hxy.of (fun a hk ht => ⟨hk.1, ?_⟩)⟩
    exact .inOk ho (fun e => hk.2 rfl e.symm) ht
  | @«calc» g rest σ2 y hw hrb _ ih =>
    intro Kd σ1 hag hne
    have hr : ∀ ve ∈ g, ∀ v ∈ Expr.variables ve.2, ¬ Kd (σ1.ptr + v) :=
      fun ve hve v hv hk => hne _ hk (.calcHere ⟨ve, hve, v, hv, rfl⟩)
    obtain ⟨x, hx, hxy⟩ := ih _ _ (hag.doCalc g hr) (fun a hk he => hne a hk.1 (.calcNext hk.2 he))
    refine ⟨x, .calc (hag.1 ▸ hw) (hag.1 ▸ hrb) hx, hxy.of (fun a hk ht => ⟨hk.1, ?_⟩)⟩
    exact .calc hk.2 (fun ve hve v hv e => hr ve hve v hv (e ▸ hk.1)) ht
  | @loopSkip c sh body once rest σ2 y hz2 hb _ ih =>
    intro Kd σ1 hag hne
    have hp : ¬ Kd (σ1.ptr + c) := fun hk => hne _ hk (.loopHere rfl)
    have hz : σ1.rd c = 0#w := by rw [hag.rd hp]; exact hz2
    obtain ⟨x, hx, hxy⟩ := ih Kd σ1 hag (fun a hk he => hne a hk (.loopSkip hz he))
    refine ⟨x, .loopSkip hz (hag.1 ▸ hb) hx, hxy.of (fun a hk ht => ⟨hk, ?_⟩)⟩
    exact .loopSkip hz (fun e => hp (e ▸ hk)) ht
  | @loopIter c sh body once rest σ2 σm2 y hnz2 hb _ _ ihb ihl =>
    intro Kd σ1 hag hne
    have hp : ¬ Kd (σ1.ptr + c) := fun hk => hne _ hk (.loopHere rfl)
    have hnz : σ1.rd c ≠ 0#w := by rw [hag.rd hp]; exact hnz2
    obtain ⟨xm, hxm, hagm⟩ := ihb Kd σ1 hag (fun a hk he => hne a hk (.loopIn hnz he))
    obtain ⟨x, hx, hxy⟩ := ihl _ (xm.mov sh) (AgreeAbs.mov hagm sh)
      (fun a hk he => hne a hk.1 (.loopIter hnz hk.2 he))
    refine ⟨x, .loopIter hnz (hag.1 ▸ hb) hxm hx, hxy.of (fun a hk ht => ⟨hk.1, ?_⟩)⟩
    exact .loopIter hnz (fun e => hp (e ▸ hk.1)) hk.2 ht
  | @ifSkip c sh body rest σ2 y hz2 hb _ ih =>
    intro Kd σ1 hag hne
    have hp : ¬ Kd (σ1.ptr + c) := fun hk => hne _ hk (.ifHere rfl)
    have hz : σ1.rd c = 0#w := by rw [hag.rd hp]; exact hz2
    obtain ⟨x, hx, hxy⟩ := ih Kd σ1 hag (fun a hk he => hne a hk (.ifSkip hz he))
    refine ⟨x, .ifSkip hz (hag.1 ▸ hb) hx, hxy.of (fun a hk ht => ⟨hk, ?_⟩)⟩
    exact .ifSkip hz (fun e => hp (e ▸ hk)) ht
  | @ifIter c sh body rest σ2 σm2 y hnz2 hb _ _ ihb ihr =>
    intro Kd σ1 hag hne
    have hp : ¬ Kd (σ1.ptr + c) := fun hk => hne _ hk (.ifHere rfl)
    have hnz : σ1.rd c ≠ 0#w := by rw [hag.rd hp]; exact hnz2
    obtain ⟨xm, hxm, hagm⟩ := ihb Kd σ1 hag (fun a hk he => hne a hk (.ifIn hnz he))
    obtain ⟨x, hx, hxy⟩ := ihr _ (xm.mov sh) (AgreeAbs.mov hagm sh)
      (fun a hk he => hne a hk.1 (.ifIter hnz hk.2 he))
    refine ⟨x, .ifIter hnz (hag.1 ▸ hb) hxm hx, hxy.of (fun a hk ht => ⟨hk.1, ?_⟩)⟩
    exact .ifIter hnz (fun e => hp (e ▸ hk.1)) hk.2 ht

/-- An exposure (of ANY address) in the run from `σ2` is an exposure in the run from `σ1`. -/
theorem exposes_bwd {b : Int} {l : List (Instr w)} {σ2 : State w} (h : Exposes b l σ2) :
    ∀ (Kd : Int → Prop) (σ1 : State w), AgreeAbs Kd σ1 σ2 → (∀ a, Kd a → ¬ Exposes a l σ1) →
      Exposes b l σ1 := by
  induction h with
  | @outHere src rest σ2 hp2 =>
    intro Kd σ1 hag _
    exact .outHere (by rw [hag.1]; exact hp2)
  | @outNext src rest σ2 σ2' ho2 _ ih =>
    intro Kd σ1 hag hne
    have hp : ¬ Kd (σ1.ptr + src) := fun hk => hne _ hk (.outHere rfl)
    obtain ⟨σ1', ho, hag'⟩ := hag.output_bwd hp ho2
    exact .outNext ho (ih Kd σ1' hag' (fun a hk he => hne a hk (.outNext ho he)))
  | @inNext dst rest σ2 σ2' ho2 hb _ ih =>
    intro Kd σ1 hag hne
    obtain ⟨σ1', ho, hag'⟩ := hag.input_bwd ho2
    exact .inNext ho (hag.1 ▸ hb) (ih _ σ1' hag'
      (fun a hk he => hne a hk.1 (.inNext ho (fun e => hk.2 rfl e.symm) he)))
  | @calcHere g rest σ2 hr2 =>
    intro Kd σ1 hag _
    exact .calcHere (by rw [hag.1]; exact hr2)
  | @calcNext g rest σ2 hw _ ih =>
    intro Kd σ1 hag hne
    have hr : ∀ ve ∈ g, ∀ v ∈ Expr.variables ve.2, ¬ Kd (σ1.ptr + v) :=
      fun ve hve v hv hk => hne _ hk (.calcHere ⟨ve, hve, v, hv, rfl⟩)
    exact .calcNext (hag.1 ▸ hw) (ih _ _ (hag.doCalc g hr) (fun a hk he => hne a hk.1 (.calcNext hk.2 he)))
  | @loopHere c sh body once rest σ2 hp2 =>
    intro Kd σ1 hag _
    exact .loopHere (by rw [hag.1]; exact hp2)
  | @loopSkip c sh body once rest σ2 hz2 _ ih =>
    intro Kd σ1 hag hne
    have hp : ¬ Kd (σ1.ptr + c) := fun hk => hne _ hk (.loopHere rfl)
    have hz : σ1.rd c = 0#w := by rw [hag.rd hp]; exact hz2
    exact .loopSkip hz (ih Kd σ1 hag (fun a hk he => hne a hk (.loopSkip hz he)))
  | @loopIn c sh body once rest σ2 hnz2 _ ihb =>
    intro Kd σ1 hag hne
    have hp : ¬ Kd (σ1.ptr + c) := fun hk => hne _ hk (.loopHere rfl)
    have hnz : σ1.rd c ≠ 0#w := by rw [hag.rd hp]; exact hnz2
    exact .loopIn hnz (ihb Kd σ1 hag (fun a hk he => hne a hk (.loopIn hnz he)))
  | @loopIter c sh body once rest σ2 σm2 hnz2 ht2 _ ihl =>
    intro Kd σ1 hag hne
    have hp : ¬ Kd (σ1.ptr + c) := fun hk => hne _ hk (.loopHere rfl)
    have hnz : σ1.rd c ≠ 0#w := by rw [hag.rd hp]; exact hnz2
    obtain ⟨xm, hxm, hagm⟩ := thru_bwd ht2 Kd σ1 hag (fun a hk he => hne a hk (.loopIn hnz he))
    exact .loopIter hnz hxm (ihl _ (xm.mov sh) (AgreeAbs.mov hagm sh)
      (fun a hk he => hne a hk.1 (.loopIter hnz hk.2 he)))
  | @ifHere c sh body rest σ2 hp2 =>
    intro Kd σ1 hag _
    exact .ifHere (by rw [hag.1]; exact hp2)
  | @ifSkip c sh body rest σ2 hz2 _ ih =>
    intro Kd σ1 hag hne
    have hp : ¬ Kd (σ1.ptr + c) := fun hk => hne _ hk (.ifHere rfl)
    have hz : σ1.rd c = 0#w := by rw [hag.rd hp]; exact hz2
    exact .ifSkip hz (ih Kd σ1 hag (fun a hk he => hne a hk (.ifSkip hz he)))
  | @ifIn c sh body rest σ2 hnz2 _ ihb =>
    intro Kd σ1 hag hne
    have hp : ¬ Kd (σ1.ptr + c) := fun hk => hne _ hk (.ifHere rfl)
    have hnz : σ1.rd c ≠ 0#w := by rw [hag.rd hp]; exact hnz2
    exact .ifIn hnz (ihb Kd σ1 hag (fun a hk he => hne a hk (.ifIn hnz he)))
  | @ifIter c sh body rest σ2 σm2 hnz2 ht2 _ ihr =>
    intro Kd σ1 hag hne
    have hp : ¬ Kd (σ1.ptr + c) := fun hk => hne _ hk (.ifHere rfl)
    have hnz : σ1.rd c ≠ 0#w := by rw [hag.rd hp]; exact hnz2
    obtain ⟨xm, hxm, hagm⟩ := thru_bwd ht2 Kd σ1 hag (fun a hk he => hne a hk (.ifIn hnz he))
    exact .ifIter hnz hxm (ihr _ (xm.mov sh) (AgreeAbs.mov hagm sh)
      (fun a hk he => hne a hk.1 (.ifIter hnz hk.2 he)))

/-- The hypothesis of `sim_of_unexposed` is symmetric: the run from `σ2` does not expose `Kd` either. -/
theorem not_exposes_right {l : List (Instr w)} {σ1 σ2 : State w} {Kd : Int → Prop}
    (hag : AgreeAbs Kd σ1 σ2) (hne : ∀ a, Kd a → ¬ Exposes a l σ1) : ∀ a, Kd a → ¬ Exposes a l σ2 :=
  fun a hk he => hne a hk (exposes_bwd he Kd σ1 hag hne)

/-- The mirrored end states are run through for the same addresses. -/
theorem thru_iff_of_unexposed {l : List (Instr w)} {σ1 σ2 x y : State w} {Kd : Int → Prop}
    (hag : AgreeAbs Kd σ1 σ2) (hne : ∀ a, Kd a → ¬ Exposes a l σ1)
    (hx : Exec l σ1 (.fin x)) (hy : Exec l σ2 (.fin y)) (b : Int) : Thru b l σ1 x ↔ Thru b l σ2 y := by
  constructor
  · intro h
    obtain ⟨y', hy', _⟩ := thru_fwd h Kd σ2 hag hne
    cases exec_fin_det (thru_exec hy') hy
    exact hy'
  · intro h
    obtain ⟨x', hx', _⟩ := thru_bwd h Kd σ1 hag hne
    cases exec_fin_det (thru_exec hx') hx
    exact hx'

/-- `sim_of_unexposed` with the `Thru` clause in the end relation. -/
theorem sim_of_unexposed_thru (l : List (Instr w)) (σ1 σ2 : State w) (Kd : Int → Prop)
    (hag : AgreeAbs Kd σ1 σ2) (hne : ∀ a, Kd a → ¬ Exposes a l σ1) :
    Sim (fun x y => AgreeAbs (fun a => Kd a ∧ Thru a l σ1 x) x y ∧
        ∀ a, Kd a → (Thru a l σ1 x ↔ Thru a l σ2 y)) l l σ1 σ2 := by
  have hs := sim_of_unexposed l σ1 σ2 Kd hag hne
  refine ⟨?_, hs.stopL, hs.partL, ?_, hs.stopR, hs.partR⟩
  · intro x hx
    obtain ⟨y, hy, hq⟩ := hs.finL x hx
    exact ⟨y, hy, hq, fun a _ => thru_iff_of_unexposed hag hne hx hy a⟩
  · intro y hy
    obtain ⟨x, hx, hq⟩ := hs.finR y hy
    exact ⟨x, hx, hq, fun a _ => thru_iff_of_unexposed hag hne hx hy a⟩

/-! ### axioms -/

#print axioms agree_fwd
#print axioms agree_bwd
#print axioms sim_of_unexposed
#print axioms bad_of_unexposed
#print axioms bad_of_unexposed'
#print axioms thru_iff_of_unexposed
#print axioms exposes_bwd
#print axioms not_exposes_right
#print axioms sim_of_unexposed_thru

end OptProof
end Hpbf
