/-
Rebuild-round proofs: the recorded analysis tree matches the emitted nested blocks, part 2: the pass through the
rebuild round (`NStep`: steps that emit no nested block; `PStep`: steps that append matching code and nodes),
`optimizeOnce_shape`, and the static conditions of dead store elimination for the result.
-/
import Hpbf.Proofs.OptRbShape

namespace Hpbf
namespace OptProof
open Opt OptSem Ir

variable {w : Nat}

/-! ### the invariant and the two step relations -/

/-- The recorded nodes fit the emitted code; while `subShift = false` no recorded node has `hasShift`. -/
structure ShapeSt (s : Rebuild w) : Prop where
  shape : ShapeL s.insts s.subAnal
  noShift : s.subShift = false → ∀ a ∈ s.subAnal, a.hasShift = false

/-- A step that emits no nested block: `shift` and `subAnal` unchanged, `subShift` not reset. -/
structure NStep (s s' : Rebuild w) : Prop where
  wf : Wf s'
  shift : s'.shift = s.shift
  subAnal : s'.subAnal = s.subAnal
  sub : s'.subShift = false → s.subShift = false
  insts : ∃ new, s'.insts = s.insts ++ new ∧ ∀ i ∈ new, C01Dse.isBlock i = false

/-- A step that appends code together with fitting nodes. -/
structure PStep (s s' : Rebuild w) : Prop where
  sub : s'.subShift = false → s.subShift = false
  ext : ∃ newI newA, s'.insts = s.insts ++ newI ∧ s'.subAnal = s.subAnal ++ newA ∧ ShapeL newI newA ∧
    (s'.subShift = false → ∀ a ∈ newA, a.hasShift = false)

theorem NStep.refl {s : Rebuild w} (h : Wf s) : NStep s s :=
  ⟨h, rfl, rfl, fun h => h, [], by simp, fun _ h => by cases h⟩

theorem NStep.trans {a b c : Rebuild w} (h1 : NStep a b) (h2 : NStep b c) : NStep a c := by
  obtain ⟨n1, e1, g1⟩ := h1.insts
  obtain ⟨n2, e2, g2⟩ := h2.insts
  refine ⟨h2.wf, h2.shift.trans h1.shift, h2.subAnal.trans h1.subAnal, fun h => h1.sub (h2.sub h),
    n1 ++ n2, by rw [e2, e1, List.append_assoc], ?_⟩
  intro i hi
  rcases List.mem_append.1 hi with h | h
  · exact g1 i h
  · exact g2 i h

theorem PStep.refl (s : Rebuild w) : PStep s s :=
  ⟨fun h => h, [], [], by simp, by simp, shapeL_nil, fun _ _ h => by cases h⟩

theorem PStep.trans {a b c : Rebuild w} (h1 : PStep a b) (h2 : PStep b c) : PStep a c := by
  obtain ⟨i1, a1, e1, f1, g1, n1⟩ := h1.ext
  obtain ⟨i2, a2, e2, f2, g2, n2⟩ := h2.ext
  refine ⟨fun h => h1.sub (h2.sub h), i1 ++ i2, a1 ++ a2, by rw [e2, e1, List.append_assoc],
    by rw [f2, f1, List.append_assoc], shapeL_append g1 g2, ?_⟩
  intro hc x hx
  rcases List.mem_append.1 hx with h | h
  · exact n1 (h2.sub hc) x h
  · exact n2 hc x h

theorem NStep.pstep {s s' : Rebuild w} (h : NStep s s') : PStep s s' := by
  obtain ⟨n, e, g⟩ := h.insts
  exact ⟨h.sub, n, [], e, by rw [h.subAnal]; simp, shapeL_nonblocks g, fun _ _ hx => by cases hx⟩

theorem PStep.shapeSt {s s' : Rebuild w} (h : PStep s s') (hs : ShapeSt s) : ShapeSt s' := by
  obtain ⟨i1, a1, e1, f1, g1, n1⟩ := h.ext
  refine ⟨by rw [e1, f1]; exact shapeL_append hs.shape g1, ?_⟩
  intro hc x hx
  rw [f1] at hx
  rcases List.mem_append.1 hx with hx | hx
  · exact hs.noShift (h.sub hc) x hx
  · exact n1 hc x hx

theorem NStep.shapeSt {s s' : Rebuild w} (h : NStep s s') (hs : ShapeSt s) : ShapeSt s' :=
  h.pstep.shapeSt hs

theorem PStep.of_same {s s' : Rebuild w} (hi : s'.insts = s.insts) (ha : s'.subAnal = s.subAnal)
    (hsub : s'.subShift = s.subShift) : PStep s s' :=
  ⟨fun h => by rw [← hsub]; exact h, [], [], by rw [hi]; simp, by rw [ha]; simp, shapeL_nil,
   fun _ _ h => by cases h⟩

theorem ShapeSt.of_same {s s' : Rebuild w} (h : ShapeSt s) (hi : s'.insts = s.insts)
    (ha : s'.subAnal = s.subAnal) (hsub : s'.subShift = s.subShift) : ShapeSt s' :=
  (PStep.of_same hi ha hsub).shapeSt h

theorem shapeSt_new (shift : Int) (cond : Option Int) (par : OptParent) (anal : Option (OptAnalysis w)) :
    ShapeSt (Rebuild.new shift cond par anal) :=
  ⟨shapeL_nil, fun _ _ h => by cases h⟩

/-- Followed by a change of fields other than `shift`, `subAnal`, `subShift`, `insts`. -/
theorem NStep.of_same {s s1 s2 : Rebuild w} (h : NStep s s1) (hwf : Wf s2) (hsh : s2.shift = s1.shift)
    (ha : s2.subAnal = s1.subAnal) (hsub : s2.subShift = s1.subShift) (hi : s2.insts = s1.insts) :
    NStep s s2 :=
  h.trans ⟨hwf, hsh, ha, fun hh => by rw [← hsub]; exact hh, [], by rw [hi]; simp, fun _ hx => by cases hx⟩

/-- Followed by a change that appends the non-block instructions `l`. -/
theorem NStep.push {s s1 : Rebuild w} (h : NStep s s1) (l : List (Instr w))
    (hl : ∀ i ∈ l, C01Dse.isBlock i = false) :
    NStep s ({ s1 with insts := s1.insts ++ l } : Rebuild w) :=
  h.trans ⟨h.wf.pushInsts l, rfl, rfl, fun hh => hh, l, rfl, hl⟩

theorem NStep.read {s s1 : Rebuild w} (h : NStep s s1) (var : Int) : NStep s (Opt.read s1 var) := by
  have hs := read_same s1 var
  exact h.of_same (hs.wf h.wf) hs.2.2.1 hs.2.2.2.2.2.2.2.2.2.2 hs.2.2.2.2.1 hs.2.2.2.2.2.2.2.2.2.1

theorem NStep.uncertainShift {s s1 : Rebuild w} (h : NStep s s1) : NStep s (uncertainShift s1) :=
  h.trans ⟨uncertainShift_wf h.wf, rfl, rfl, fun hh => by simp [Opt.uncertainShift] at hh, [], by
    simp [Opt.uncertainShift], fun _ hx => by cases hx⟩

theorem NStep.removePending {s s1 : Rebuild w} (h : NStep s s1) (var : Int) :
    NStep s (removePending s1 var).1 := by
  have hs := removePending_same s1 var
  exact h.of_same (removePending_wf h.wf var) hs.2.2.1 hs.2.2.2.2.2.2.2.2.2 hs.2.2.2.2.1
    hs.2.2.2.2.2.2.2.2.1

theorem NStep.insertWritten {s s1 : Rebuild w} (h : NStep s s1) (var : Int) (val : OptWrite w) :
    NStep s (insertWritten s1 var val) := by
  have hs := insertWritten_same s1 var val
  exact h.of_same (insertWritten_wf h.wf var val) hs.2.2.1 hs.2.2.2.2.2.2.2.2.2.2 hs.2.2.2.2.1
    hs.2.2.2.2.2.2.2.2.2.1

theorem NStep.writtenCalcs {s s1 : Rebuild w} (h : NStep s s1) (ps : List (Rebuild w))
    (calcs : List (Int × Expr w)) : NStep s (writtenCalcs s1 ps calcs) := by
  have hs := (writtenCalcs_eq s1 ps calcs).1
  exact h.of_same (writtenCalcs_wf h.wf ps calcs) hs.2.2.1 hs.2.2.2.2.2.2.2.2.2.2 hs.2.2.2.2.1
    hs.2.2.2.2.2.2.2.2.2.1

theorem foldl_remove_nstep {α β : Type} (f : Rebuild w × β → α → Rebuild w × β)
    (hf : ∀ acc x, (f acc x).1 = acc.1 ∨ ∃ k, (f acc x).1 = (removePending acc.1 k).1)
    {s : Rebuild w} (l : List α) (acc : Rebuild w × β) (h : NStep s acc.1) : NStep s (l.foldl f acc).1 := by
  induction l generalizing acc with
  | nil => exact h
  | cons x l ih =>
    simp only [List.foldl_cons]
    apply ih
    rcases hf acc x with e | ⟨k, e⟩
    · rw [e]; exact h
    · rw [e]; exact h.removePending k

theorem EmitRes.nstep {ps : List (Rebuild w)} {s s' : Rebuild w} {comps : List (List (Int × Expr w))}
    (h : EmitRes ps s s' comps) : NStep s s' := by
  refine ⟨h.wf, h.hdr.2.2.1, h.subAnal, fun hh => by rw [← h.hdr.2.2.2.2]; exact hh,
    comps.map Instr.calc, h.insts, ?_⟩
  intro i hi
  obtain ⟨g, _, rfl⟩ := List.mem_map.1 hi
  rfl

theorem foldlM_nstep {γ : Type} (f : Rebuild w → γ → M (Rebuild w)) (l : List γ)
    (hstep : ∀ s x os s' os', x ∈ l → Wf s → (f s x).run os = .ok (s', os') → NStep s s')
    {s : Rebuild w} {os : Orders} {s' : Rebuild w} {os' : Orders} (hwf : Wf s)
    (hr : (l.foldlM f s).run os = .ok (s', os')) : NStep s s' := by
  induction l generalizing s os with
  | nil =>
    rw [List.foldlM_nil, run_pure] at hr
    cases hr; exact NStep.refl hwf
  | cons x l ih =>
    rw [List.foldlM_cons, run_bind_ok] at hr
    obtain ⟨s1, os1, h1, h2⟩ := hr
    have r1 := hstep s x os s1 os1 (by simp) hwf h1
    exact r1.trans (ih (fun s x os s' os' hx => hstep s x os s' os' (List.mem_cons_of_mem _ hx)) r1.wf h2)

/-! ### the emitting primitives -/

theorem emit_nstep {s : Rebuild w} (ps : List (Rebuild w)) (var : Int) {os os' : Orders} {s' : Rebuild w}
    (hr : (emit s ps var).run os = .ok (s', os')) (hwf : Wf s) : NStep s s' := by
  obtain ⟨comps, r, _⟩ := emit_res ps hwf var hr
  exact r.nstep

theorem emitAll_nstep (ps : List (Rebuild w)) (vars : List Int) {s : Rebuild w}
    {os os' : Orders} {s' : Rebuild w}
    (hr : (emitAll ps vars s).run os = .ok (s', os')) (hwf : Wf s) : NStep s s' := by
  obtain ⟨comps, r⟩ := emitAll_res ps vars hwf hr
  exact r.nstep

theorem emitReadAll_nstep (ps : List (Rebuild w)) (vars : List Int) {s : Rebuild w}
    {os os' : Orders} {s' : Rebuild w}
    (hr : (emitReadAll ps vars s).run os = .ok (s', os')) (hwf : Wf s) : NStep s s' := by
  unfold emitReadAll at hr
  refine foldlM_nstep _ vars ?_ hwf hr
  intro s var os s' os' _ hwf' h
  rw [run_bind_ok] at h
  obtain ⟨s1, os1, h1, h2⟩ := h
  rw [run_pure] at h2
  cases h2
  exact (emit_nstep ps var h1 hwf').read var

theorem clobber_nstep {s : Rebuild w} (ps : List (Rebuild w)) (var : Int) (maybe : Bool)
    {os os' : Orders} {s' : Rebuild w} (hr : (clobber s ps var maybe).run os = .ok (s', os'))
    (hwf : Wf s) : NStep s s' := by
  obtain ⟨comps, c1, c2, _, c4, _, c6, _⟩ := clobber_spec ps hwf var maybe hr
  refine ⟨c1, c4.2.2.1, c6, fun hh => by rw [← c4.2.2.2.2]; exact hh, comps.map Instr.calc, c2, ?_⟩
  intro i hi
  obtain ⟨g, _, rfl⟩ := List.mem_map.1 hi
  rfl

theorem clobberAll_nstep (ps : List (Rebuild w)) (vars : List (Int × Bool)) {s : Rebuild w}
    {os os' : Orders} {s' : Rebuild w}
    (hr : (clobberAll ps vars s).run os = .ok (s', os')) (hwf : Wf s) : NStep s s' := by
  unfold clobberAll at hr
  refine foldlM_nstep _ vars ?_ hwf hr
  intro s vm os s' os' _ hwf' h
  exact clobber_nstep ps vm.1 vm.2 h hwf'

theorem performAll_nstep {s : Rebuild w} {ps : List (Rebuild w)} {shift : Int}
    {calcs : List (Int × Expr w)} {os os' : Orders} {s' : Rebuild w}
    (hr : (performAll s ps shift calcs).run os = .ok (s', os')) (hwf : Wf s) : NStep s s' := by
  obtain ⟨comps, s1, res, hwf', hs, _⟩ := performAll_spec hwf hr
  exact res.nstep.of_same hwf' hs.2.2.1 hs.2.2.2.2.2.2.2.2.2 hs.2.2.2.2.1 hs.2.2.2.2.2.2.2.2.1

/-- The non-loop arms of `rebuildInstr`. -/
theorem rebuildInstr_nstep {ps : List (Rebuild w)} {s : Rebuild w} {i : Instr w} {os os' : Orders}
    {s' : Rebuild w} (hr : (rebuildInstr ps s i).run os = .ok (s', os')) (hwf : Wf s)
    (hb : C01Dse.isBlock i = false) : NStep s s' := by
  cases i with
  | output src =>
    rw [rebuildInstr] at hr
    split at hr
    · rename_i x hx
      rw [run_pure] at hr
      cases hr
      exact ((NStep.refl hwf).read x).push _ (by intro i hi; simp at hi; subst hi; rfl)
    · rw [run_bind_ok] at hr
      obtain ⟨s1, os1, h1, h2⟩ := hr
      rw [run_pure] at h2
      cases h2
      exact ((emit_nstep ps (src + s.shift) h1 hwf).read (src + s.shift)).push _
        (by intro i hi; simp at hi; subst hi; rfl)
  | input dst =>
    rw [rebuildInstr, run_bind_ok] at hr
    obtain ⟨s1, os1, h1, h2⟩ := hr
    rw [run_pure] at h2
    cases h2
    exact (clobber_nstep ps (dst + s.shift) false h1 hwf).push _
      (by intro i hi; simp at hi; subst hi; rfl)
  | «calc» calcs =>
    rw [rebuildInstr] at hr
    exact performAll_nstep hr hwf
  | loop c sh b o => simp [C01Dse.isBlock] at hb
  | ifnz c sh b => simp [C01Dse.isBlock] at hb

end OptProof
end Hpbf
