/-
C01, level 0, part 2: both interpreters as abstract machines (`Sim.Mach`), facts about the parser's
buffer of pending increments, and what executing flushed `add` instructions does to the state
relation between the canonical machine and the IR interpreter.
-/
import Hpbf.Proofs.C01Sim
import Hpbf.Proofs.C01Comp

namespace Hpbf
namespace C01
open Ir

variable {w : Nat}

/-! ### The two machines -/

def BfM (w : Nat) : Sim.Mach where
  C := Bf.Config w
  step := fun c =>
    match Bf.step c with
    | .next c' => .next c'
    | .halt s => .fin true s.trace
    | .stop s => .fin false s.trace
  tr := fun c => c.st.trace

def IrM (w : Nat) : Sim.Mach where
  C := Ir.Cfg w
  step := fun c =>
    match Ir.step false c with
    | .next c' => .next c'
    | .halt c' => .fin true c'.st.trace
    | .stop c' => .fin false c'.st.trace
    | .interrupted c' => .fin true c'.st.trace
  tr := fun c => c.st.trace

def obsBf : Bf.Outcome w → Sim.Out
  | .done s => .fin true s.trace
  | .stopped s => .fin false s.trace
  | .outOfFuel c => .fuel c.st.trace

def obsIr : Ir.Outcome w → Sim.Out
  | .done c => .fin true c.st.trace
  | .stopped c => .fin false c.st.trace
  | .interrupted c => .fin true c.st.trace
  | .outOfFuel c => .fuel c.st.trace

theorem run_BfM (f : Nat) : ∀ c : Bf.Config w, Sim.run (BfM w) f c = obsBf (Bf.runCfg f c) := by
  induction f with
  | zero => intro c; rfl
  | succ f ih =>
    intro c
    simp only [Sim.run, Bf.runCfg, BfM]
    cases h : Bf.step c with
    | next c' => simp only []; exact ih c'
    | halt s => rfl
    | stop s => rfl

theorem run_IrM (f : Nat) : ∀ c : Ir.Cfg w, Sim.run (IrM w) f c = obsIr (Ir.runCfg false f c) := by
  induction f with
  | zero => intro c; rfl
  | succ f ih =>
    intro c
    simp only [Sim.run, Ir.runCfg, IrM]
    cases h : Ir.step false c with
    | next c' => simp only []; exact ih c'
    | halt s => rfl
    | stop s => rfl
    | interrupted s => rfl

theorem step_not_interrupted (c c' : Ir.Cfg w) : Ir.step false c ≠ .interrupted c' := by
  unfold Ir.step
  split
  · split
    · simp
    · simp only [Bool.false_and, Bool.false_eq_true, if_false]
      split <;> simp
    · simp
  · split <;> simp
  · split <;> simp
  · simp
  · split <;> simp
  · split <;> simp

theorem runCfg_not_interrupted (f : Nat) : ∀ (c c' : Ir.Cfg w), Ir.runCfg false f c ≠ .interrupted c' := by
  induction f with
  | zero => intro c c'; simp [Ir.runCfg]
  | succ f ih =>
    intro c c'
    simp only [Ir.runCfg]
    cases h : Ir.step false c with
    | next c1 => exact ih c1 c'
    | halt s => simp
    | stop s => simp
    | interrupted s => exact absurd h (step_not_interrupted c s)

/-! ### Traces only grow -/

theorem input_trace (s : State w) (off : Int) : s.trace <:+ (s.input off).2.trace := by
  unfold State.input
  split
  · exact List.suffix_cons _ _
  · exact List.suffix_cons _ _
  · exact List.suffix_refl _

theorem output_trace (s : State w) (off : Int) : s.trace <:+ (s.output off).2.trace := by
  unfold State.output
  simp only
  split
  · split
    · exact List.suffix_cons _ _
    · exact List.suffix_cons _ _
  · exact List.suffix_refl _

theorem input_trace_len (s : State w) (off : Int) : (s.input off).2.trace.length ≤ s.trace.length + 1 := by
  unfold State.input
  split <;> simp

theorem output_trace_len (s : State w) (off : Int) : (s.output off).2.trace.length ≤ s.trace.length + 1 := by
  unfold State.output
  simp only
  split
  · split <;> simp
  · simp

theorem applyOp_trace (op : Op) (s : State w) : s.trace <:+ (Bf.applyOp op s).2.trace := by
  cases op <;> simp only [Bf.applyOp]
  · exact List.suffix_refl _
  · exact List.suffix_refl _
  · exact List.suffix_refl _
  · exact List.suffix_refl _
  · exact input_trace s 0
  · exact output_trace s 0

/-- Trace component of a raw step result of the canonical machine. -/
def bfResTrace : Bf.StepRes w → List Ev
  | .next c => c.st.trace
  | .halt s => s.trace
  | .stop s => s.trace

theorem bf_step_trace (c : Bf.Config w) : c.st.trace <:+ bfResTrace (Bf.step c) := by
  obtain ⟨cur, conts, st⟩ := c
  cases cur with
  | nil =>
    cases conts with
    | nil => exact List.suffix_refl _
    | cons k ks => exact List.suffix_refl _
  | cmd op rest =>
    have := applyOp_trace op st
    simp only [Bf.step]
    split
    · rename_i s' he
      rw [he] at this; exact this
    · rename_i s' he
      rw [he] at this; exact this
  | loop body rest =>
    simp only [Bf.step]
    split
    · exact List.suffix_refl _
    · exact List.suffix_refl _

theorem mono_BfM : Sim.Mono (BfM w) where
  next := by
    intro c c' h
    have := bf_step_trace c
    simp only [BfM] at h ⊢
    cases h' : Bf.step c with
    | next c1 => rw [h'] at h this; cases h; exact this
    | halt s => rw [h'] at h; simp at h
    | stop s => rw [h'] at h; simp at h
  fin := by
    intro c ok t h
    have := bf_step_trace c
    simp only [BfM] at h ⊢
    cases h' : Bf.step c with
    | next c1 => rw [h'] at h; simp at h
    | halt s => rw [h'] at h this; cases h; exact this
    | stop s => rw [h'] at h this; cases h; exact this

theorem wr_foldl_trace (l : List (Int × BitVec w)) : ∀ s : State w,
    (l.foldl (fun s vv => s.wr vv.1 vv.2) s).trace = s.trace ∧
    (l.foldl (fun s vv => s.wr vv.1 vv.2) s).env = s.env ∧
    (l.foldl (fun s vv => s.wr vv.1 vv.2) s).ptr = s.ptr := by
  induction l with
  | nil => intro s; exact ⟨rfl, rfl, rfl⟩
  | cons a l ih => intro s; simp only [List.foldl_cons]; rw [(ih _).1, (ih _).2.1, (ih _).2.2]; exact ⟨rfl, rfl, rfl⟩

theorem doCalc_trace (s : State w) (calcs : List (Int × Expr w)) : (doCalc s calcs).trace = s.trace := by
  unfold doCalc; exact (wr_foldl_trace _ s).1

def irResTrace : Ir.StepRes w → List Ev
  | .next c => c.st.trace
  | .halt c => c.st.trace
  | .stop c => c.st.trace
  | .interrupted c => c.st.trace

theorem ir_step_trace (c : Ir.Cfg w) : c.st.trace <:+ irResTrace (Ir.step false c) := by
  obtain ⟨cur, conts, bud, st⟩ := c
  cases cur with
  | nil =>
    cases conts with
    | nil => exact List.suffix_refl _
    | cons k ks =>
      cases k with
      | loopEnd cond shift body rest =>
        simp only [Ir.step, Bool.false_and, Bool.false_eq_true, if_false]
        split
        · exact List.suffix_refl _
        · exact List.suffix_refl _
      | ifEnd shift rest =>
        simp only [Ir.step, Bool.false_and, Bool.false_eq_true, if_false]
        exact List.suffix_refl _
  | cons i rest =>
    cases i with
    | output src =>
      have := output_trace st src
      simp only [Ir.step]
      split
      · rename_i s' he
        rw [he] at this; exact this
      · rename_i s' he
        rw [he] at this; exact this
    | input dst =>
      have := input_trace st dst
      simp only [Ir.step]
      split
      · rename_i s' he
        rw [he] at this; exact this
      · rename_i s' he
        rw [he] at this; exact this
    | «calc» calcs =>
      simp only [Ir.step, irResTrace, doCalc_trace]
      exact List.suffix_refl _
    | loop cond shift body once =>
      simp only [Ir.step]
      split
      · exact List.suffix_refl _
      · exact List.suffix_refl _
    | ifnz cond shift body =>
      simp only [Ir.step]
      split
      · exact List.suffix_refl _
      · exact List.suffix_refl _

theorem mono_IrM : Sim.Mono (IrM w) where
  next := by
    intro c c' h
    have := ir_step_trace c
    simp only [IrM] at h ⊢
    cases h' : Ir.step false c with
    | next c1 => rw [h'] at h this; cases h; exact this
    | halt s => rw [h'] at h; simp at h
    | stop s => rw [h'] at h; simp at h
    | interrupted s => rw [h'] at h; simp at h
  fin := by
    intro c ok t h
    have := ir_step_trace c
    simp only [IrM] at h ⊢
    cases h' : Ir.step false c with
    | next c1 => rw [h'] at h; simp at h
    | halt s => rw [h'] at h this; cases h; exact this
    | stop s => rw [h'] at h this; cases h; exact this
    | interrupted s => rw [h'] at h this; cases h; exact this

/-! ### Buffers -/

def keys (b : List (Int × BitVec w)) : List Int := b.map (·.1)

theorem bget_bset (b : List (Int × BitVec w)) (k a : Int) (v : BitVec w) :
    bget (bset b k v) a = if a = k then some v else bget b a := by
  induction b with
  | nil =>
    simp only [bset, bget]
    by_cases h : a = k
    · simp [h]
    · have : ¬ k = a := fun e => h e.symm
      simp [h, this]
  | cons kv rest ih =>
    obtain ⟨k', v'⟩ := kv
    simp only [bset]
    by_cases hk : k' = k
    · subst hk
      simp only [if_true, bget]
      by_cases h : a = k'
      · subst h; simp
      · have : ¬ k' = a := fun e => h e.symm
        simp [h, this]
    · simp only [hk, if_false, bget, ih]
      by_cases h : a = k
      · subst h; simp [hk]
      · simp [h]

theorem pend_bset (b : List (Int × BitVec w)) (k a : Int) (v : BitVec w) :
    pend (bset b k v) a = if a = k then v else pend b a := by
  unfold pend; rw [bget_bset]; by_cases h : a = k <;> simp [h]

@[simp] theorem pend_nil (a : Int) : pend ([] : List (Int × BitVec w)) a = 0#w := rfl

theorem mem_keys_bset (b : List (Int × BitVec w)) (k a : Int) (v : BitVec w) :
    a ∈ keys (bset b k v) ↔ a = k ∨ a ∈ keys b := by
  induction b with
  | nil => simp [bset, keys]
  | cons kv rest ih =>
    obtain ⟨k', v'⟩ := kv
    simp only [bset]
    by_cases hk : k' = k
    · subst hk; simp [keys]
    · simp only [hk, if_false]
      simp only [keys, List.map_cons, List.mem_cons] at ih ⊢
      rw [ih]
      constructor
      · rintro (h | h | h)
        · exact Or.inr (Or.inl h)
        · exact Or.inl h
        · exact Or.inr (Or.inr h)
      · rintro (h | h | h)
        · exact Or.inr (Or.inl h)
        · exact Or.inl h
        · exact Or.inr (Or.inr h)

theorem nodup_keys_bset (b : List (Int × BitVec w)) (k : Int) (v : BitVec w) (h : (keys b).Nodup) :
    (keys (bset b k v)).Nodup := by
  induction b with
  | nil => simp [bset, keys]
  | cons kv rest ih =>
    obtain ⟨k', v'⟩ := kv
    simp only [bset]
    by_cases hk : k' = k
    · subst hk; simpa [keys] using h
    · simp only [hk, if_false]
      simp only [keys, List.map_cons, List.nodup_cons] at h ⊢
      refine ⟨?_, ih h.2⟩
      intro hm
      have := (mem_keys_bset rest k k' v).mp hm
      rcases this with h1 | h1
      · exact hk h1
      · exact h.1 h1

theorem bget_eq_none_iff (b : List (Int × BitVec w)) (a : Int) : bget b a = none ↔ a ∉ keys b := by
  induction b with
  | nil => simp [bget, keys]
  | cons kv rest ih =>
    obtain ⟨k', v'⟩ := kv
    simp only [bget, keys, List.map_cons, List.mem_cons, not_or]
    by_cases hk : k' = a
    · subst hk; simp
    · have : ¬ a = k' := fun e => hk e.symm
      simp only [hk, if_false, this, not_false_eq_true, true_and]
      exact ih

theorem pend_of_not_mem {b : List (Int × BitVec w)} {a : Int} (h : a ∉ keys b) : pend b a = 0#w := by
  unfold pend; rw [(bget_eq_none_iff b a).mpr h]; rfl

theorem bget_eq_some_iff {b : List (Int × BitVec w)} (hn : (keys b).Nodup) (a : Int) (v : BitVec w) :
    bget b a = some v ↔ (a, v) ∈ b := by
  induction b with
  | nil => simp [bget]
  | cons kv rest ih =>
    obtain ⟨k', v'⟩ := kv
    simp only [keys, List.map_cons, List.nodup_cons] at hn
    simp only [bget, List.mem_cons, Prod.mk.injEq]
    by_cases hk : k' = a
    · subst hk
      simp only [if_true, Option.some.injEq, true_and]
      constructor
      · intro h; exact Or.inl h.symm
      · rintro (h | h)
        · exact h.symm
        · exact absurd (List.mem_map_of_mem (f := (·.1)) h) hn.1
    · have : ¬ a = k' := fun e => hk e.symm
      simp only [hk, if_false, this, false_and, false_or]
      exact ih hn.2

theorem pend_perm {b b' : List (Int × BitVec w)} (hp : b.Perm b') (hn : (keys b).Nodup) (a : Int) :
    pend b a = pend b' a := by
  have hn' : (keys b').Nodup := by
    unfold keys at hn ⊢; exact (hp.map _).nodup_iff.mp hn
  unfold pend
  cases h : bget b a with
  | some v =>
    have := (bget_eq_some_iff hn' a v).mpr (hp.mem_iff.mp ((bget_eq_some_iff hn a v).mp h))
    rw [this]
  | none =>
    have h1 := (bget_eq_none_iff b a).mp h
    have h2 : a ∉ keys b' := by
      unfold keys at h1 ⊢; exact fun hm => h1 ((hp.map _).mem_iff.mpr hm)
    rw [(bget_eq_none_iff b' a).mpr h2]

theorem insertSorted_perm {α : Type} (le : α → α → Bool) (x : α) (l : List α) :
    (Expr.insertSorted le x l).Perm (x :: l) := by
  induction l with
  | nil => exact List.Perm.refl _
  | cons y ys ih =>
    simp only [Expr.insertSorted]
    split
    · exact ((List.Perm.cons y ih).trans (List.Perm.swap x y ys))
    · exact List.Perm.refl _

theorem stableSort_perm {α : Type} (le : α → α → Bool) (l : List α) :
    (Expr.stableSort le l).Perm l := by
  unfold Expr.stableSort
  have : ∀ (l acc : List α), (l.foldl (fun acc x => Expr.insertSorted le x acc) acc).Perm (l ++ acc) := by
    intro l
    induction l with
    | nil => intro acc; exact List.Perm.refl _
    | cons x xs ih =>
      intro acc
      simp only [List.foldl_cons, List.cons_append]
      exact (ih _).trans ((List.Perm.append_left xs (insertSorted_perm le x acc)).trans List.perm_middle)
  simpa using this l []

theorem bsorted_perm (b : List (Int × BitVec w)) : (bsorted b).Perm b := stableSort_perm _ b

theorem pend_bsorted {b : List (Int × BitVec w)} (hn : (keys b).Nodup) (a : Int) :
    pend (bsorted b) a = pend b a :=
  (pend_perm (bsorted_perm b).symm hn a).symm

theorem nodup_keys_bsorted {b : List (Int × BitVec w)} (hn : (keys b).Nodup) : (keys (bsorted b)).Nodup :=
  by unfold keys at hn ⊢; exact ((bsorted_perm b).map _).nodup_iff.mpr hn

theorem mem_keys_bsorted (b : List (Int × BitVec w)) (a : Int) : a ∈ keys (bsorted b) ↔ a ∈ keys b :=
  by unfold keys; exact ((bsorted_perm b).map _).mem_iff

theorem keys_map_zero (b : List (Int × BitVec w)) : keys (b.map (fun kv => (kv.1, 0#w))) = keys b := by
  simp [keys, List.map_map, Function.comp_def]

theorem pend_map_zero (b : List (Int × BitVec w)) (a : Int) : pend (b.map (fun kv => (kv.1, 0#w))) a = 0#w := by
  induction b with
  | nil => rfl
  | cons kv rest ih =>
    unfold pend at ih ⊢
    simp only [List.map_cons, bget]
    split
    · rfl
    · exact ih

/-! ### `flushOneI` / `flushManyI` on buffers -/

theorem pend_flushOneI (b : List (Int × BitVec w)) (k a : Int) :
    pend (flushOneI b k).2 a = if a = k then 0#w else pend b a := by
  unfold flushOneI
  cases h : bget b k with
  | none => simp only; exact pend_bset b k a 0#w
  | some v =>
    simp only
    by_cases hv : v = 0#w
    · subst hv
      simp only [bne_self_eq_false, Bool.false_eq_true, if_false]
      by_cases ha : a = k
      · subst ha; simp [pend, h]
      · simp [ha]
    · have : (v != 0#w) = true := by simpa using hv
      simp only [this, if_true]
      exact pend_bset b k a 0#w

theorem mem_keys_flushOneI (b : List (Int × BitVec w)) (k a : Int) :
    a ∈ keys (flushOneI b k).2 ↔ a = k ∨ a ∈ keys b := by
  unfold flushOneI
  cases h : bget b k with
  | none => simp only; exact mem_keys_bset b k a 0#w
  | some v =>
    simp only
    by_cases hv : v = 0#w
    · subst hv
      simp only [bne_self_eq_false, Bool.false_eq_true, if_false]
      constructor
      · intro hm; exact Or.inr hm
      · rintro (rfl | hm)
        · apply Classical.byContradiction
          intro hn
          rw [(bget_eq_none_iff b a).mpr hn] at h; cases h
        · exact hm
    · have : (v != 0#w) = true := by simpa using hv
      simp only [this, if_true]
      exact mem_keys_bset b k a 0#w

theorem nodup_flushOneI (b : List (Int × BitVec w)) (k : Int) (hn : (keys b).Nodup) :
    (keys (flushOneI b k).2).Nodup := by
  unfold flushOneI
  cases h : bget b k with
  | none => simp only; exact nodup_keys_bset b k _ hn
  | some v =>
    simp only
    split
    · exact nodup_keys_bset b k _ hn
    · exact hn

theorem pend_flushManyI (ks : List Int) : ∀ (b : List (Int × BitVec w)) (a : Int),
    pend (flushManyI b ks).2 a = if a ∈ ks then 0#w else pend b a := by
  induction ks with
  | nil => intro b a; simp [flushManyI]
  | cons k ks ih =>
    intro b a
    simp only [flushManyI, ih, pend_flushOneI, List.mem_cons]
    by_cases h1 : a ∈ ks
    · simp [h1]
    · by_cases h2 : a = k
      · simp [h2]
      · simp [h1, h2]

theorem mem_keys_flushManyI (ks : List Int) : ∀ (b : List (Int × BitVec w)) (a : Int),
    a ∈ keys (flushManyI b ks).2 ↔ a ∈ ks ∨ a ∈ keys b := by
  induction ks with
  | nil => intro b a; simp [flushManyI]
  | cons k ks ih =>
    intro b a
    simp only [flushManyI, ih, mem_keys_flushOneI, List.mem_cons]
    constructor
    · rintro (h | h | h)
      · exact Or.inl (Or.inr h)
      · exact Or.inl (Or.inl h)
      · exact Or.inr h
    · rintro ((h | h) | h)
      · exact Or.inr (Or.inl h)
      · exact Or.inl h
      · exact Or.inr (Or.inr h)

theorem nodup_flushManyI (ks : List Int) : ∀ (b : List (Int × BitVec w)), (keys b).Nodup →
    (keys (flushManyI b ks).2).Nodup := by
  induction ks with
  | nil => intro b h; exact h
  | cons k ks ih => intro b h; exact ih _ (nodup_flushOneI b k h)

end C01
end Hpbf
