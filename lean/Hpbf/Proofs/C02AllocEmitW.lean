/-
C02 (`allocate_temps`), part 22: the invariant for forward edges and pointer moves (`VInv`) and its preservation by
reads, new values and appended instructions.
-/
import Hpbf.Proofs.C02AllocEmitV
set_option linter.unusedSimpArgs false

namespace Hpbf
namespace C02
namespace AEmit

open Bc BcWf BcGen C11 C02Emit

variable {w : Nat}

/-- An enclosing loop: start, length of `outer_accessed` on entry, `has_shift` of its analysis. -/
abbrev VFrame := Nat × Nat × Bool

def toFrames (fs : List VFrame) : List Frame := fs.map (fun f => (f.1, f.2.1))

/-- Start of the innermost enclosing loop whose analysis has `has_shift`: its table of values was cleared there. -/
def cpOf : List VFrame → Nat
  | [] => 0
  | (S, _, true) :: _ => S
  | (_, _, false) :: rest => cpOf rest

/-- Position `i` is not inside a block closed by a `brz`. -/
def NotInner (s : St w) (i : Nat) : Prop :=
  ∀ (b : Nat) (cnd off : Int), s.insts[b]? = some (.brz cnd off) → ¬ ((b : Int) ≤ i ∧ (i : Int) < b + off)

/-- Position `i` lies after every pointer move. -/
def AfterMoves (s : St w) (i : Nat) : Prop :=
  ∀ (p : Nat) (x : Instr w), s.insts[p]? = some x → ptrStable x = false → p < i

def VisAt (fs : List VFrame) (s : St w) (i : Nat) : Prop := cpOf fs ≤ i ∧ NotInner s i ∧ AfterMoves s i

/-- The value `t` may still be read. -/
def Vis (fs : List VFrame) (s : St w) (t : Nat) : Prop :=
  ∃ r : RangeInfo, s.ranges[t]? = some r ∧ VisAt fs s r.created

/-- Entries of `outer_accessed` below the entry length of a loop were created before the enclosing loop. -/
def OAB (s : St w) : List VFrame → Prop
  | f0 :: f1 :: rest =>
    (∀ (idx v : Nat), idx < f0.2.1 → s.outerAccessed[idx]? = some v →
      ∃ r : RangeInfo, s.ranges[v]? = some r ∧ r.created < f1.1) ∧ OAB s (f1 :: rest)
  | _ => True

structure VG (fs : List VFrame) (s : St w) : Prop where
  numLe : ∀ f ∈ fs, f.2.1 ≤ s.outerAccessed.size
  cple : cpOf fs ≤ s.insts.size
  ov : ∀ v ∈ s.outerAccessed.toList, Vis fs s v ∧ ∃ r : RangeInfo, s.ranges[v]? = some r ∧ r.created < s.currentStart
  em : (∀ f ∈ fs, f.2.2 = true) → s.outerAccessed = #[]
  fw : ∀ (b : Nat) (cnd off : Int), s.insts[b]? = some (.brz cnd off) → 0 < off ∧ (b : Int) + off ≤ s.insts.size ∧
    ∀ (t : Nat) (r : RangeInfo) (L : Nat), s.ranges[t]? = some r → r.lastUse = some L →
      (b : Int) ≤ r.created → (r.created : Int) < b + off → (L : Int) < b + off
  pt : ∀ (p : Nat) (x : Instr w), s.insts[p]? = some x → ptrStable x = false →
    ∀ (t : Nat) (r : RangeInfo) (L : Nat), s.ranges[t]? = some r → r.lastUse = some L → r.created < p → L < p
  oab : OAB s fs

/-! ### visibility -/

theorem visAt_congr {fs : List VFrame} {s s' : St w} {i : Nat} (h : VisAt fs s i)
    (hb : ∀ (b : Nat) (cnd off : Int), s'.insts[b]? = some (.brz cnd off) → s.insts[b]? = some (.brz cnd off))
    (hp : ∀ (p : Nat) (x : Instr w), s'.insts[p]? = some x → ptrStable x = false →
      ∃ y, s.insts[p]? = some y ∧ ptrStable y = false) : VisAt fs s' i := by
  refine ⟨h.1, fun b cnd off hx => h.2.1 b cnd off (hb b cnd off hx), ?_⟩
  intro p x hx hm
  obtain ⟨y, hy, hym⟩ := hp p x hx hm
  exact h.2.2 p y hy hym

/-- Appending an instruction that is neither a `brz` nor a pointer move. -/
theorem visAt_push {fs : List VFrame} {s s' : St w} {i : Nat} {x : Instr w} (h : VisAt fs s i)
    (e : s'.insts = s.insts.push x) (hx1 : ∀ cnd off, x ≠ .brz cnd off) (hx2 : ptrStable x = true) :
    VisAt fs s' i := by
  refine visAt_congr h ?_ ?_
  · intro b cnd off hb
    rw [e] at hb
    rcases getElem?_push_cases hb with ⟨_, g⟩ | ⟨_, g⟩
    · exact g
    · exact absurd g.symm (hx1 cnd off)
  · intro p y hy hm
    rw [e] at hy
    rcases getElem?_push_cases hy with ⟨_, g⟩ | ⟨_, g⟩
    · exact ⟨y, g, hm⟩
    · rw [g, hx2] at hm; cases hm

theorem vis_congr {fs : List VFrame} {s s' : St w} {t : Nat} (h : Vis fs s t)
    (hr : ∀ r : RangeInfo, s.ranges[t]? = some r → ∃ r' : RangeInfo, s'.ranges[t]? = some r' ∧ r'.created = r.created)
    (hv : ∀ i, VisAt fs s i → VisAt fs s' i) : Vis fs s' t := by
  obtain ⟨r, g1, g2⟩ := h
  obtain ⟨r', q1, q2⟩ := hr r g1
  exact ⟨r', q1, by rw [q2]; exact hv _ g2⟩

/-- The current position is visible. -/
theorem visAt_fresh {fs : List VFrame} {s : St w} (h : VG fs s) : VisAt fs s s.insts.size := by
  refine ⟨h.cple, ?_, ?_⟩
  · intro b cnd off hb hcon
    have := (h.fw b cnd off hb).2.1
    omega
  · intro p x hx _
    exact Alloc.lt_of_getElem? hx

theorem cpOf_head_true {S N : Nat} {rest : List VFrame} : cpOf ((S, N, true) :: rest) = S := rfl

theorem cpOf_all_true : ∀ {fs : List VFrame} {S N : Nat} {fl : Bool} {rest : List VFrame},
    fs = (S, N, fl) :: rest → (∀ f ∈ fs, f.2.2 = true) → cpOf fs = S := by
  intro fs S N fl rest e h
  subst e
  have : fl = true := h (S, N, fl) List.mem_cons_self
  subst this
  rfl

/-! ### a read or an extension of a visible value -/

theorem vg_ext {fs : List VFrame} {s s' : St w} {v inc : Nat} (h : VG fs s) (E : ExtSpec v inc s s')
    (hv : Vis fs s v) (hd : ∃ N fl rest, fs = (s.currentStart, N, fl) :: rest) : VG fs s' := by
  obtain ⟨⟨r, hr, hr'⟩, hother⟩ := ext_ranges E
  have hbC : (bump r s.insts.size inc).created = r.created := rfl
  obtain ⟨rv, hrv, hvis⟩ := hv
  rw [hr] at hrv; cases hrv
  have hva : ∀ i, VisAt fs s i → VisAt fs s' i := fun i hi =>
    visAt_congr hi (by rw [E.insts]; exact fun _ _ _ g => g) (by rw [E.insts]; exact fun p x g m => ⟨x, g, m⟩)
  have hcr : ∀ (t : Nat) (q : RangeInfo), s.ranges[t]? = some q →
      ∃ q' : RangeInfo, s'.ranges[t]? = some q' ∧ q'.created = q.created := by
    intro t q hq
    by_cases e : t = v
    · subst e; rw [hr] at hq; cases hq; exact ⟨_, hr', hbC⟩
    · exact ⟨q, by rw [hother t e]; exact hq, rfl⟩
  have hvis' : ∀ t, Vis fs s t → Vis fs s' t := fun t ht => vis_congr ht (hcr t) hva
  have hback : ∀ (t : Nat) (q' : RangeInfo), s'.ranges[t]? = some q' →
      (t = v ∧ q' = bump r s.insts.size inc) ∨ (t ≠ v ∧ s.ranges[t]? = some q') := by
    intro t q' hq'
    by_cases e : t = v
    · subst e; rw [hr'] at hq'; exact Or.inl ⟨rfl, (Option.some.inj hq').symm⟩
    · rw [hother t e] at hq'; exact Or.inr ⟨e, hq'⟩
  refine ⟨?_, by rw [E.insts]; exact h.cple, ?_, ?_, ?_, ?_, ?_⟩
  · intro f hf
    have := h.numLe f hf
    rcases E.outer with ⟨e, _⟩ | ⟨e, _⟩
    · rw [e]; exact this
    · rw [e]; simp; omega
  · intro u hu
    rw [E.currentStart]
    have : u ∈ s.outerAccessed.toList ∨ (u = v ∧ r.created < s.currentStart) := by
      rcases E.outer with ⟨e, _⟩ | ⟨e, r1, g1, g2, _⟩
      · rw [e] at hu; exact Or.inl hu
      · rw [e] at hu
        simp only [Array.toList_push, List.mem_append, List.mem_singleton] at hu
        rcases hu with hu | hu
        · exact Or.inl hu
        · rw [hr] at g1; cases g1
          exact Or.inr ⟨hu, g2⟩
    rcases this with g | ⟨rfl, g⟩
    · obtain ⟨q1, q, q2, q3⟩ := h.ov u g
      obtain ⟨q', p1, p2⟩ := hcr u q q2
      exact ⟨hvis' u q1, q', p1, by rw [p2]; exact q3⟩
    · exact ⟨hvis' u ⟨r, hr, hvis⟩, _, hr', by rw [hbC]; exact g⟩
  · intro hall
    have hemp := h.em hall
    rcases E.outer with ⟨e, _⟩ | ⟨e, r1, g1, g2, _⟩
    · rw [e]; exact hemp
    · exfalso
      rw [hr] at g1; cases g1
      obtain ⟨N, fl, rest, hfs⟩ := hd
      have := cpOf_all_true hfs hall
      have := hvis.1
      omega
  · intro b cnd off hb
    rw [E.insts] at hb
    obtain ⟨g1, g2, g3⟩ := h.fw b cnd off hb
    refine ⟨g1, by rw [E.insts]; exact g2, ?_⟩
    intro t q' L hq' hL h1 h2
    rcases hback t q' hq' with ⟨rfl, rfl⟩ | ⟨_, hq⟩
    · exact absurd ⟨h1, h2⟩ (hvis.2.1 b cnd off hb)
    · exact g3 t q' L hq hL h1 h2
  · intro p x hx hm t q' L hq' hL h1
    rw [E.insts] at hx
    rcases hback t q' hq' with ⟨rfl, rfl⟩ | ⟨_, hq⟩
    · have := hvis.2.2 p x hx hm
      rw [hbC] at h1
      omega
    · exact h.pt p x hx hm t q' L hq hL h1
  · -- the prefix below every entry length is unchanged
    have hoab : ∀ (l : List VFrame), (∀ f ∈ l, f.2.1 ≤ s.outerAccessed.size) → OAB s l → OAB s' l := by
      intro l
      induction l with
      | nil => intro _ _; trivial
      | cons f0 tl ih =>
        intro hn ho
        cases tl with
        | nil => trivial
        | cons f1 rest =>
          obtain ⟨o1, o2⟩ := ho
          refine ⟨?_, ih (fun f hf => hn f (List.mem_cons_of_mem _ hf)) o2⟩
          intro idx u hidx hu
          have hlt : idx < s.outerAccessed.size := Nat.lt_of_lt_of_le hidx (hn f0 List.mem_cons_self)
          have hu' : s.outerAccessed[idx]? = some u := by
            rcases E.outer with ⟨e, _⟩ | ⟨e, _⟩
            · rw [e] at hu; exact hu
            · rw [e, getElem?_push_lt' _ _ hlt] at hu; exact hu
          obtain ⟨q, p1, p2⟩ := o1 idx u hidx hu'
          obtain ⟨q', p3, p4⟩ := hcr u q p1
          exact ⟨q', p3, by rw [p4]; exact p2⟩
    exact hoab fs h.numLe h.oab

theorem vg_reads {fs : List VFrame} : ∀ (l : List Nat) {s s' : St w}, ReadsSpec l s s' → VG fs s →
    (∀ a ∈ l, Vis fs s a) → (∃ N fl rest, fs = (s.currentStart, N, fl) :: rest) →
    VG fs s' ∧ ∀ t, Vis fs s t → Vis fs s' t
  | [], s, s', h, hg, _, _ => by rw [h]; exact ⟨hg, fun t ht => ht⟩
  | a :: rest, s, s', ⟨s1, h1, h2⟩, hg, hv, hd => by
    have g1 := vg_ext hg h1 (hv a List.mem_cons_self) hd
    have hmono : ∀ t, Vis fs s t → Vis fs s1 t := by
      intro t ht
      obtain ⟨⟨r, hr, hr'⟩, hother⟩ := ext_ranges h1
      refine vis_congr ht ?_ (fun i hi => visAt_congr hi (by rw [h1.insts]; exact fun _ _ _ g => g)
        (by rw [h1.insts]; exact fun p x g m => ⟨x, g, m⟩))
      intro q hq
      by_cases e : t = a
      · subst e; rw [hr] at hq; cases hq; exact ⟨_, hr', rfl⟩
      · exact ⟨q, by rw [hother t e]; exact hq, rfl⟩
    obtain ⟨g2, m2⟩ := vg_reads rest h2 g1 (fun b hb => hmono b (hv b (List.mem_cons_of_mem _ hb)))
      (by rw [h1.currentStart]; exact hd)
    exact ⟨g2, fun t ht => m2 t (hmono t ht)⟩

/-! ### new range entries and appended instructions -/

/-- Changes that keep `outerAccessed`, `currentStart`, the range entries that have a last use, the `brz`
instructions and the pointer moves. -/
theorem vg_frame {fs : List VFrame} {s s' : St w} (h : VG fs s)
    (e1 : s'.outerAccessed = s.outerAccessed) (e2 : s'.currentStart = s.currentStart)
    (e3 : s.insts.size ≤ s'.insts.size)
    (hb : ∀ (b : Nat) (cnd off : Int), s'.insts[b]? = some (.brz cnd off) → s.insts[b]? = some (.brz cnd off))
    (hp : ∀ (p : Nat) (x : Instr w), s'.insts[p]? = some x → ptrStable x = false →
      ∃ y, s.insts[p]? = some y ∧ ptrStable y = false)
    (hr : ∀ (t : Nat) (r : RangeInfo), s.ranges[t]? = some r → s'.ranges[t]? = some r)
    (hl : ∀ (t : Nat) (r : RangeInfo) (L : Nat), s'.ranges[t]? = some r → r.lastUse = some L →
      s.ranges[t]? = some r) : VG fs s' := by
  have hva : ∀ i, VisAt fs s i → VisAt fs s' i := fun i hi => visAt_congr hi hb hp
  have hvis : ∀ t, Vis fs s t → Vis fs s' t := fun t ht =>
    vis_congr ht (fun r g => ⟨r, hr t r g, rfl⟩) hva
  refine ⟨by rw [e1]; exact h.numLe, Nat.le_trans h.cple e3, ?_, by rw [e1]; exact h.em, ?_, ?_, ?_⟩
  · intro v hv
    rw [e1] at hv
    obtain ⟨g1, r, g2, g3⟩ := h.ov v hv
    exact ⟨hvis v g1, r, hr v r g2, by rw [e2]; exact g3⟩
  · intro b cnd off hx
    obtain ⟨g1, g2, g3⟩ := h.fw b cnd off (hb b cnd off hx)
    refine ⟨g1, by omega, ?_⟩
    intro t r L hr' hL
    exact g3 t r L (hl t r L hr' hL) hL
  · intro p x hx hm t r L hr' hL
    obtain ⟨y, hy, hym⟩ := hp p x hx hm
    exact h.pt p y hy hym t r L (hl t r L hr' hL) hL
  · have hoab : ∀ (l : List VFrame), OAB s l → OAB s' l := by
      intro l
      induction l with
      | nil => intro _; trivial
      | cons f0 tl ih =>
        intro ho
        cases tl with
        | nil => trivial
        | cons f1 rest =>
          obtain ⟨o1, o2⟩ := ho
          refine ⟨?_, ih o2⟩
          intro idx u hidx hu
          rw [e1] at hu
          obtain ⟨q, p1, p2⟩ := o1 idx u hidx hu
          exact ⟨q, hr u q p1, p2⟩
    exact hoab fs h.oab

/-- The table of values only holds visible values. -/
def TV (fs : List VFrame) (s : St w) : Prop := ∀ e t, alGet s.values e = some t → Vis fs s t

/-- The invariant during a `calc`. -/
structure VK (fs : List VFrame) (ps : Nat) (s : St w) : Prop where
  finv : FInv (toFrames fs) ps s
  vg : VG fs s
  tv : TV fs s

theorem vk_hd {fs : List VFrame} {ps : Nat} {s : St w} (h : VK fs ps s) :
    ∃ N fl rest, fs = (s.currentStart, N, fl) :: rest := by
  obtain ⟨N, rest, hc⟩ := h.finv.hd
  rw [h.finv.cs]
  cases fs with
  | nil => simp [toFrames] at hc
  | cons f tl =>
    obtain ⟨S, N', fl⟩ := f
    simp only [toFrames, List.map_cons, List.cons.injEq, Prod.mk.injEq] at hc
    obtain ⟨⟨rfl, rfl⟩, _⟩ := hc
    exact ⟨_, fl, tl, rfl⟩

theorem vis_lt {fs : List VFrame} {s : St w} {t : Nat} (h : Vis fs s t) : t < s.ranges.size := by
  obtain ⟨r, hr, _⟩ := h
  exact Alloc.lt_of_getElem? hr

theorem instOf_ne_brz (e : GvnExpr w) (v : Nat) (cnd off : Int) : instOf e v ≠ .brz cnd off := by
  cases e <;> simp [instOf]
theorem ptrStable_instOf (e : GvnExpr w) (v : Nat) : ptrStable (instOf e v) = true := by
  cases e <;> rfl

/-- The states of `getValue` (new entry; instruction appended) and `memWrite`. -/
def gvS0 (s : St w) (e : GvnExpr w) : St w :=
  { s with ranges := s.ranges.push { created := s.insts.size, firstUse := none, lastUse := none, numUses := 0 }, exprs := s.exprs.push e }
def gvS1 (s2 : St w) (e : GvnExpr w) (v : Nat) : St w :=
  { s2 with insts := s2.insts.push (instOf e v), values := alSet s2.values e v }
def mwS1 (s1 : St w) (var : Int) (x : Nat) : St w :=
  { s1 with writes := addWrite s1.writes var s1.insts.size, values := alSet s1.values (.mem var) x, insts := s1.insts.push (.copy (.mem var) (.tmp x)) }

theorem vk_getValue {fs : List VFrame} {ps : Nat} {e : GvnExpr w} {s s' : St w} {v : Nat} (h : VK fs ps s)
    (hops : ∀ a ∈ opsOf e, Vis fs s a) (hg : getValue e s = .ok (v, s')) :
    VK fs ps s' ∧ Vis fs s' v ∧ ∀ a, Vis fs s a → Vis fs s' a := by
  obtain ⟨hf', _⟩ := finv_getValue h.finv (fun a ha => vis_lt (hops a ha)) hg
  rcases getValue_spec hg with ⟨hv, rfl⟩ | ⟨rfl, N⟩
  · exact ⟨h, h.tv e v hv, fun a ha => ha⟩
  · obtain ⟨s2, h2, rfl⟩ := N.reads
    have hd := vk_hd h
    -- the new entry
    have hpushr : ∀ (t : Nat) (r : RangeInfo) (x : RangeInfo), s.ranges[t]? = some r → (s.ranges.push x)[t]? = some r :=
      fun t r x hr => by rw [getElem?_push_lt' _ _ (Alloc.lt_of_getElem? hr)]; exact hr
    have hg0 : VG fs (gvS0 s e) := by
      refine vg_frame h.vg rfl rfl (Nat.le_refl _) (fun _ _ _ g => g) (fun p x g m => ⟨x, g, m⟩)
        (fun t r hr => hpushr t r _ hr) ?_
      intro t r L hr hL
      change (s.ranges.push _)[t]? = some r at hr
      rcases getElem?_push_cases hr with ⟨_, g⟩ | ⟨_, g⟩
      · exact g
      · rw [g] at hL; cases hL
    have hmono0 : ∀ t, Vis fs s t → Vis fs (gvS0 s e) t :=
      fun t ht => vis_congr ht (fun r g => ⟨r, hpushr t r _ g, rfl⟩) (fun i hi => hi)
    obtain ⟨g2, m2⟩ := vg_reads (s := gvS0 s e) _ h2 hg0 (fun a ha => hmono0 a (hops a ha)) hd
    have F := readsFacts _ h2
    -- the instruction
    have hpushV : ∀ i, VisAt fs s2 i → VisAt fs (gvS1 s2 e s.ranges.size) i :=
      fun i hi => visAt_push hi rfl (instOf_ne_brz _ _) (ptrStable_instOf _ _)
    have hg' : VG fs (gvS1 s2 e s.ranges.size) := by
      refine vg_frame g2 rfl rfl (by simp [gvS1]) ?_ ?_ (fun _ _ g => g) (fun _ _ _ g _ => g)
      · intro b cnd off hb
        rcases getElem?_push_cases hb with ⟨_, g⟩ | ⟨_, g⟩
        · exact g
        · exact absurd g.symm (instOf_ne_brz _ _ _ _)
      · intro p x hx hm
        rcases getElem?_push_cases hx with ⟨_, g⟩ | ⟨_, g⟩
        · exact ⟨x, g, hm⟩
        · rw [g, ptrStable_instOf] at hm; cases hm
    have hmono : ∀ a, Vis fs s a → Vis fs (gvS1 s2 e s.ranges.size) a :=
      fun a ha => vis_congr (m2 a (hmono0 a ha)) (fun r g => ⟨r, g, rfl⟩) hpushV
    -- the new value is visible
    have hnew : Vis fs (gvS1 s2 e s.ranges.size) s.ranges.size := by
      have hno : s.ranges.size ∉ opsOf e := fun hm => Nat.lt_irrefl _ (vis_lt (hops _ hm))
      have hr2 : s2.ranges[s.ranges.size]? =
          some { created := s.insts.size, firstUse := none, lastUse := none, numUses := 0 } := by
        rw [F.miss _ hno]; simp
      refine ⟨_, hr2, ?_⟩
      have hfresh := visAt_fresh h.vg
      have h1 : VisAt fs s2 s.insts.size :=
        visAt_congr hfresh (by rw [F.insts]; exact fun _ _ _ g => g) (by rw [F.insts]; exact fun p x g m => ⟨x, g, m⟩)
      exact hpushV _ h1
    refine ⟨⟨hf', hg', ?_⟩, hnew, hmono⟩
    intro e' t ht
    change alGet (alSet s2.values e s.ranges.size) e' = some t at ht
    rw [F.values] at ht
    change alGet (alSet s.values e s.ranges.size) e' = some t at ht
    rw [C02Emit.alGet_alSet] at ht
    split at ht
    · cases ht; exact hnew
    · exact hmono t (h.tv e' t ht)

theorem vk_memWrite {fs : List VFrame} {ps : Nat} {var : Int} {x : Nat} {s s' : St w} {u : Unit}
    (h : VK fs ps s) (hx : Vis fs s x) (hm : memWrite var x s = .ok (u, s')) :
    VK fs ps s' ∧ ∀ a, Vis fs s a → Vis fs s' a := by
  have hf' := finv_memWrite h.finv (vis_lt hx) hm
  obtain ⟨s1, h1, rfl⟩ := memWrite_spec hm
  have hd := vk_hd h
  have g1 := vg_ext h.vg h1 hx hd
  have F : ReadsFacts [x] s s1 := readsFacts [x] ⟨s1, h1, rfl⟩
  have hm1 : ∀ t, Vis fs s t → Vis fs s1 t := by
    intro t ht
    obtain ⟨⟨r, hr, hr'⟩, hother⟩ := ext_ranges h1
    refine vis_congr ht ?_ (fun i hi => visAt_congr hi (by rw [h1.insts]; exact fun _ _ _ g => g)
      (by rw [h1.insts]; exact fun p y g m => ⟨y, g, m⟩))
    intro q hq
    by_cases e : t = x
    · subst e; rw [hr] at hq; cases hq; exact ⟨_, hr', rfl⟩
    · exact ⟨q, by rw [hother t e]; exact hq, rfl⟩
  have hpushV : ∀ i, VisAt fs s1 i → VisAt fs (mwS1 s1 var x) i :=
    fun i hi => visAt_push hi rfl (by intro cnd off; simp) rfl
  have hg' : VG fs (mwS1 s1 var x) := by
    refine vg_frame g1 rfl rfl (by simp [mwS1]) ?_ ?_ (fun _ _ g => g) (fun _ _ _ g _ => g)
    · intro b cnd off hb
      rcases getElem?_push_cases hb with ⟨_, g⟩ | ⟨_, g⟩
      · exact g
      · cases g
    · intro p y hy hm'
      rcases getElem?_push_cases hy with ⟨_, g⟩ | ⟨_, g⟩
      · exact ⟨y, g, hm'⟩
      · rw [g] at hm'; cases hm'
  have hmono : ∀ a, Vis fs s a → Vis fs (mwS1 s1 var x) a :=
    fun a ha => vis_congr (hm1 a ha) (fun r g => ⟨r, g, rfl⟩) hpushV
  refine ⟨⟨hf', hg', ?_⟩, hmono⟩
  intro e' t ht
  change alGet (alSet s1.values (.mem var) x) e' = some t at ht
  rw [F.values, C02Emit.alGet_alSet] at ht
  split at ht
  · cases ht; exact hmono x hx
  · exact hmono t (h.tv e' t ht)

theorem vk_calc {fs : List VFrame} {ps : Nat} {calcs : List (Int × Expr w)} {s s1 s' : St w}
    {vals : List (Int × Nat)} {u : Unit} (h : VK fs ps s) (hc : calcValues calcs s = .ok (vals, s1))
    (hm : memWrites vals s1 = .ok (u, s')) : VK fs ps s' := by
  obtain ⟨k1, v1, _⟩ := calcValues_vis (K := VK fs ps) (V := Vis fs)
    (fun e a v a' hk ho hh => vk_getValue hk ho hh) calcs hc h
  exact (memWrites_vis (K := VK fs ps) (V := Vis fs) (fun var x a a' u hk hx hh => vk_memWrite hk hx hh)
    vals hm k1 v1).1

end AEmit
end C02
end Hpbf
