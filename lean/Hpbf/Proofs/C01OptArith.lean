/-
C01 (OptArith section) — meaning of the optimiser arithmetic modelled in `Hpbf/OptArith.lean`
(`src/opt.rs`: trip counts of counting loops in `analyze_loop`, closed forms of `loop_motion`).
Definitions of the reference semantics (`iter`, `geo`, `tri`) and helper lemmas; the property
theorems are in `Hpbf/Props/C01Opt.lean`.

Outline.
* `iter inc k m = m + k * inc`; `tripCount` is `wrappingDiv m (-inc)`, whose contract
  (`C14.div_some_iff`: the SMALLEST root of `x * (-inc) = m`) is exactly "first `k` with
  `iter inc k m = 0`".  With an odd step `-inc` is invertible, the root is unique and equals
  `inv * x`.
* `geo mul (a + b) = geo mul a * mul ^ b + geo mul b`; the fold of `geomStep` over the bits
  `w-1 … 0` of `n` keeps `(geo mul p, mul ^ p)` with `p = n.toNat / 2 ^ j` (`j` bits left).
* `tri I D N = N * I + (N * (N - 1) / 2) * D`; the three halving alternatives of `triStep` are the
  three ways of dividing `N * (N - 1) * D` by two: halve `D`, halve `N`, halve `N - 1`.
-/
import Hpbf.OptArith
import Hpbf.Props.C14
import Hpbf.Props.C15
import Mathlib.Data.BitVec
import Mathlib.Tactic.Ring

namespace Hpbf.C01Opt
open Hpbf

variable {w : Nat}

/-- Counter value after `k` rounds of a loop body that adds `inc` to the counter cell
(`k`-fold application of `(· + inc)` to the initial value `m`). -/
def iter (inc : BitVec w) (k : Nat) (m : BitVec w) : BitVec w := (· + inc)^[k] m

/-- `1 + mul + … + mul^(k-1)`. -/
def geo (mul : BitVec w) : Nat → BitVec w
  | 0 => 0#w
  | k + 1 => geo mul k * mul + 1#w

/-- Total added to an accumulator by `k` rounds when the addend starts at `I` and grows by `D`
each round: `I + (I + D) + … + (I + (k-1) * D)`. -/
def tri (I D : BitVec w) : Nat → BitVec w
  | 0 => 0#w
  | k + 1 => tri I D k + (I + BitVec.ofNat w k * D)

namespace Lemmas

theorem ofNat_eq_cast (k : Nat) : BitVec.ofNat w k = (k : BitVec w) := rfl

/-- Commutative-ring normalisation on `BitVec w` (Mathlib instance), after turning the literals
`k#w` / `BitVec.ofNat w k` into casts. -/
macro "bvring" : tactic =>
  `(tactic| ((try simp only [ofNat_eq_cast]); (try push_cast); ring))

/-! ### `iter` -/

@[simp] theorem iter_zero (inc m : BitVec w) : iter inc 0 m = m := rfl

theorem iter_succ (inc m : BitVec w) (k : Nat) : iter inc (k + 1) m = iter inc k m + inc := by
  unfold iter
  rw [Function.iterate_succ_apply']

theorem iter_eq (inc m : BitVec w) (k : Nat) : iter inc k m = m + BitVec.ofNat w k * inc := by
  induction k with
  | zero => rw [iter_zero]; bvring
  | succ k ih => rw [iter_succ, ih]; bvring

/-- `iter` only depends on `k` modulo `2 ^ w`. -/
theorem iter_mod (inc m : BitVec w) (k : Nat) : iter inc (k % 2 ^ w) m = iter inc k m := by
  rw [iter_eq, iter_eq]
  congr 2
  apply BitVec.eq_of_toNat_eq
  simp

/-! ### trip counts -/

theorem root_of_iter_zero (inc m : BitVec w) (k : Nat) (h0 : iter inc k m = 0#w) :
    BitVec.ofNat w k * (-inc) = m := by
  rw [iter_eq] at h0
  calc BitVec.ofNat w k * (-inc) = m + -(m + BitVec.ofNat w k * inc) := by bvring
    _ = m := by rw [h0]; bvring

theorem iter_zero_of_root (inc m y : BitVec w) (h : y * (-inc) = m) :
    iter inc y.toNat m = 0#w := by
  rw [iter_eq, BitVec.ofNat_toNat, BitVec.setWidth_eq, ← h]; bvring

theorem tripCount_some (hw : 0 < w) (m inc n : BitVec w)
    (h : OptArith.tripCount m inc = some n) :
    iter inc n.toNat m = 0#w ∧ ∀ k : Nat, k < n.toNat → iter inc k m ≠ 0#w := by
  unfold OptArith.tripCount at h
  obtain ⟨h1, h2⟩ := (C14.div_some_iff hw m (-inc) n).1 h
  refine ⟨iter_zero_of_root inc m n h1, fun k hk h0 => ?_⟩
  have hle := h2 _ (root_of_iter_zero inc m k h0)
  rw [BitVec.le_def, BitVec.toNat_ofNat] at hle
  have := Nat.mod_le k (2 ^ w)
  omega

theorem tripCount_none (hw : 0 < w) (m inc : BitVec w)
    (h : OptArith.tripCount m inc = none) (k : Nat) : iter inc k m ≠ 0#w := by
  unfold OptArith.tripCount at h
  intro h0
  exact (C14.div_none_iff hw m (-inc)).1 h ⟨_, root_of_iter_zero inc m k h0⟩

/-- Converse of `tripCount_some`: a first zero at `k < 2 ^ w` is what `tripCount` returns. -/
theorem tripCount_of_first (hw : 0 < w) (m inc : BitVec w) (k : Nat)
    (h0 : iter inc k m = 0#w) (hmin : ∀ j : Nat, j < k → iter inc j m ≠ 0#w) :
    OptArith.tripCount m inc = some (BitVec.ofNat w k) ∧ k < 2 ^ w := by
  have hk : k < 2 ^ w := by
    by_contra hge
    have hlt : k % 2 ^ w < k := by
      have := Nat.mod_lt k (Nat.two_pow_pos w)
      omega
    exact hmin _ hlt (by rw [iter_mod]; exact h0)
  refine ⟨?_, hk⟩
  unfold OptArith.tripCount
  refine (C14.div_some_iff hw m (-inc) _).2 ⟨root_of_iter_zero inc m k h0, fun y hy => ?_⟩
  rw [BitVec.le_def, BitVec.toNat_ofNat, Nat.mod_eq_of_lt hk]
  by_contra hlt
  exact hmin _ (by omega) (iter_zero_of_root inc m y hy)

/-! ### odd steps -/

theorem isOdd_width_zero (x : BitVec 0) : Cell.isOdd x = true := by
  rw [BitVec.eq_nil x]; decide

/-- Negation keeps the low bit. -/
theorem isOdd_neg (x : BitVec w) : Cell.isOdd (-x) = Cell.isOdd x := by
  rcases Nat.eq_zero_or_pos w with rfl | hw
  · rw [isOdd_width_zero, isOdd_width_zero]
  · rw [Bool.eq_iff_iff, C14.isOdd_iff hw, C14.isOdd_iff hw, BitVec.toNat_neg]
    have hx := x.isLt
    have hp : 2 ^ w = 2 * 2 ^ (w - 1) := by
      rw [← Nat.pow_succ']; congr 1; omega
    generalize 2 ^ (w - 1) = Q at hp
    generalize 2 ^ w = P at hp hx ⊢
    generalize x.toNat = a at hx ⊢
    by_cases h0 : a = 0
    · subst h0; rw [Nat.sub_zero, Nat.mod_self]
    · rw [Nat.mod_eq_of_lt (a := P - a) (b := P) (by omega)]
      omega

theorem tripInv_none_iff (inc : BitVec w) :
    OptArith.tripInv inc = none ↔ Cell.isOdd inc = false := by
  unfold OptArith.tripInv Cell.wrappingInv
  rw [isOdd_neg]
  cases Cell.isOdd inc <;> simp

theorem tripInv_isSome (inc : BitVec w) : (OptArith.tripInv inc).isSome = Cell.isOdd inc := by
  unfold OptArith.tripInv Cell.wrappingInv
  rw [isOdd_neg]
  cases Cell.isOdd inc <;> simp

/-- The defining equation of the factor: `inv * (-inc) = 1`. -/
theorem tripInv_mul (hw : 0 < w) (inc inv : BitVec w) (h : OptArith.tripInv inc = some inv) :
    inv * (-inc) = 1#w := by
  unfold OptArith.tripInv at h
  rw [← C14.inv_mul hw _ _ h]; bvring

theorem tripInv_some_odd (inc inv : BitVec w) (h : OptArith.tripInv inc = some inv) :
    Cell.isOdd inv = true := by
  rcases Nat.eq_zero_or_pos w with rfl | hw
  · exact isOdd_width_zero inv
  · have h1 := tripInv_mul hw inc inv h
    rw [← C14.inv_isSome_iff hw inv]
    cases hi : Cell.wrappingInv inv with
    | some y => rfl
    | none => exact absurd ⟨_, h1⟩ ((C14.inv_none_iff hw inv).1 hi)

/-- With an odd step the equation `y * (-inc) = x` has the single root `inv * x`, which is
therefore what the constant-operand analysis (`tripCount`) computes. -/
theorem tripInv_tripCount (hw : 0 < w) (inc inv : BitVec w)
    (h : OptArith.tripInv inc = some inv) (x : BitVec w) :
    OptArith.tripCount x inc = some (inv * x) := by
  have h1 := tripInv_mul hw inc inv h
  unfold OptArith.tripCount
  refine (C14.div_some_iff hw x (-inc) _).2 ⟨?_, fun y hy => ?_⟩
  · calc inv * x * (-inc) = x * (inv * (-inc)) := by bvring
      _ = x := by rw [h1]; bvring
  · have : y = inv * x := by
      calc y = y * (inv * (-inc)) := by rw [h1]; bvring
        _ = inv * (y * (-inc)) := by bvring
        _ = inv * x := by rw [hy]
    rw [this]
    exact BitVec.le_refl _

theorem tripInv_some (hw : 0 < w) (inc inv : BitVec w) (h : OptArith.tripInv inc = some inv)
    (x : BitVec w) :
    iter inc (inv * x).toNat x = 0#w ∧ ∀ k : Nat, k < (inv * x).toNat → iter inc k x ≠ 0#w :=
  tripCount_some hw x inc (inv * x) (tripInv_tripCount hw inc inv h x)

/-- With an odd step the loop always terminates. -/
theorem tripCount_isSome_of_odd (hw : 0 < w) (m inc : BitVec w) (h : Cell.isOdd inc = true) :
    (OptArith.tripCount m inc).isSome = true := by
  have := tripInv_isSome inc
  rw [h] at this
  obtain ⟨inv, hinv⟩ := Option.isSome_iff_exists.1 this
  rw [tripInv_tripCount hw inc inv hinv m]; rfl

end Lemmas
end Hpbf.C01Opt
