/-
Loop optimisations of `Hpbf/Opt.lean`, part C: `loopMotion`, one variable.

* `MotionCase` / `loopMotion_cases`: the six outcomes of `loopMotion`, with the conditions that select them.
* `TriOk`: what the closed forms need from `OptArith.triStep` for the trip count at hand; it holds for the
  two shapes of trip-count expressions `analyzeLoop` produces (`triOk_val`, `triOk_invvar`).
* `triFold_spec`: the loop over the linear parts.
-/
import Hpbf.Proofs.OptLoopSem

namespace Hpbf.OptLoop
open Hpbf Opt OptSem Expr

variable {w : Nat}

/-! ### the outcomes of `loopMotion` -/

/-- The body of the loop over the linear parts in `loop_motion`. -/
def triFoldStep (expr : Expr w) (ba : Expr w × Expr w) (il : Expr w × Expr w) : Expr w × Expr w :=
  let r := OptArith.triStep expr il.1 il.2 ba.1
  if r.1 == 0 then (ba.1, Expr.add ba.2 il.1) else (r.2, ba.2)

/-- The six outcomes of `loopMotion s ps var p complete reads C lin otherPending L`. -/
inductive MotionCase (s : Rebuild w) (ps : List (Rebuild w)) (var : Int) (p : Expr w) (complete : Bool)
    (reads C : List Int) (lin : List (Int × Expr w)) (otherPending : List Int) (L : OptLoop w) :
    Option (Expr w) × Option (Expr w) × Option (Expr w) → Prop
  /-- a constant that the emitted instructions do not write: the operation is dropped -/
  | gone : C.contains var = true → complete = true →
      MotionCase s ps var p complete reads C lin otherPending L (none, none, none)
  /-- not read in the loop (or the loop runs at most once) and computed from constants and cells without
  pending operation: performed once after the loop -/
  | after (p' : Expr w) : reduceConst s ps p C = .ok p' →
      (reads.contains var = false ∨ L.atMostOnce = true) →
      (∀ x ∈ Expr.variables p', otherPending.contains x = false ∨ C.contains x = true) →
      MotionCase s ps var p complete reads C lin otherPending L (none, none, some p')
  /-- `var += inc`: constant part times the trip count and triangular sums before the loop -/
  | tri (p' expr inc cst other : Expr w) (linears : List (Expr w × Expr w)) :
      reads.contains var = false → complete = true → C.contains var = false →
      reduceConst s ps p C = .ok p' → L.expr = some expr →
      Expr.prodIncOf p' var = some (inc, 1#w) →
      splitAlong inc C lin = .ok (cst, other, linears) →
      MotionCase s ps var p complete reads C lin otherPending L
        (some (Expr.add (Expr.var var) (linears.foldl (triFoldStep expr) (Expr.mul expr cst, other)).1),
         some (Expr.add (Expr.var var) (linears.foldl (triFoldStep expr) (Expr.mul expr cst, other)).2),
         none)
  /-- `var *= mul` with a constant trip count -/
  | geo0 (p' expr inc : Expr w) (mul c : BitVec w) :
      reads.contains var = false → complete = true → C.contains var = false →
      reduceConst s ps p C = .ok p' → L.expr = some expr →
      Expr.prodIncOf p' var = some (inc, mul) → mul ≠ 1#w → Expr.constant expr = some c → inc = [] →
      MotionCase s ps var p complete reads C lin otherPending L
        (some (Expr.mul (Expr.val (Cell.wrappingPow mul c)) (Expr.var var)), none, none)
  /-- `var = var * mul + inc` with a constant trip count and `inc` over constants -/
  | geo (p' expr inc : Expr w) (mul c : BitVec w) :
      reads.contains var = false → complete = true → C.contains var = false →
      reduceConst s ps p C = .ok p' → L.expr = some expr →
      Expr.prodIncOf p' var = some (inc, mul) → mul ≠ 1#w → Expr.constant expr = some c →
      (∀ x ∈ Expr.variables inc, C.contains x = true) →
      MotionCase s ps var p complete reads C lin otherPending L
        (some (Expr.add (Expr.mul (Expr.val (Cell.wrappingPow mul c)) (Expr.var var))
          (Expr.mul (Expr.val (OptArith.geomSum mul c)) inc)), none, none)
  /-- everything stays in the loop -/
  | stay (p' : Expr w) : reduceConst s ps p C = .ok p' →
      MotionCase s ps var p complete reads C lin otherPending L (none, some p', none)

theorem loopMotion_cases (s : Rebuild w) (ps : List (Rebuild w)) (var : Int) (p : Expr w)
    (complete : Bool) (reads C : List Int) (lin : List (Int × Expr w)) (otherPending : List Int)
    (L : OptLoop w) (r : Option (Expr w) × Option (Expr w) × Option (Expr w))
    (h : loopMotion s ps var p complete reads C lin otherPending L = .ok r) :
    MotionCase s ps var p complete reads C lin otherPending L r := by
  unfold loopMotion at h
  split at h
  · rename_i h1
    simp only [Bool.and_eq_true] at h1
    cases h
    exact .gone h1.1 h1.2
  · rename_i hng
    obtain ⟨p', hp', h⟩ := except_bind_ok h
    simp only at h
    split at h
    · rename_i h2
      simp only [Bool.and_eq_true, Bool.or_eq_true, Bool.not_eq_true', List.all_eq_true] at h2
      cases h
      exact .after p' hp' h2.1 h2.2
    · have hstay : ∀ r', (pure (none, some p', none) : Except String _) = .ok r' →
          MotionCase s ps var p complete reads C lin otherPending L r' := by
        intro r' hr'; cases hr'; exact .stay p' hp'
      split at h
      · rename_i h3
        simp only [Bool.and_eq_true, Bool.not_eq_true'] at h3
        have hcv : C.contains var = false := by
          cases hc : C.contains var with
          | false => rfl
          | true => exact absurd (by rw [hc, h3.2]; rfl) hng
        split at h
        · exact hstay r h
        · rename_i expr hexpr
          split at h
          · exact hstay r h
          · rename_i inc mul hpi
            split at h
            · rename_i hm1
              have hm1' : mul = 1#w := by simpa using hm1
              subst hm1'
              obtain ⟨x, hx, h⟩ := except_bind_ok h
              obtain ⟨cst, other, linears⟩ := x
              simp only at h
              cases h
              exact .tri p' expr inc cst other linears h3.1 h3.2 hcv hp' hexpr hpi hx
            · rename_i hm1
              have hm1' : mul ≠ 1#w := by simpa using hm1
              split at h
              · exact hstay r h
              · rename_i c hc
                split at h
                · rename_i hz
                  cases h
                  have hz' : inc = [] := by simpa [Expr.isZero] using hz
                  exact .geo0 p' expr inc mul c h3.1 h3.2 hcv hp' hexpr hpi hm1' hc hz'
                · split at h
                  · rename_i hall
                    cases h
                    exact .geo p' expr inc mul c h3.1 h3.2 hcv hp' hexpr hpi hm1' hc
                      (fun x hx => List.all_eq_true.1 hall x hx)
                  · exact hstay r h
      · exact hstay r h

/-! ### `TriOk` -/

/-- The trip-count expression `expr` and the number of rounds `n` fit `OptArith.triStep`: whenever a linear
part is moved, the new `before` expression adds the triangular sum over `n` rounds (values in `m0`). -/
def TriOk (expr : Expr w) (n : Nat) (m0 : Mem w) : Prop :=
  ∀ initial increment before r b, OptArith.triStep expr initial increment before = (b, r) → b ≠ 0 →
    ev r m0 = ev before m0 + C01Opt.tri (ev initial m0) (ev increment m0) n

/-- Constant trip count. -/
theorem triOk_val (c : BitVec w) (m0 : Mem w) : TriOk (Expr.val c) c.toNat m0 :=
  fun initial increment before r b h hb =>
    C01Opt.triStep_val_sound c initial increment before r b h hb m0

/-- Trip count `inv * x_v` with `inv` odd. -/
theorem triOk_invvar (hw : 0 < w) (inv : BitVec w) (v : Int) (ho : Cell.isOdd inv = true) (m0 : Mem w)
    (n : Nat) (hn : ev (Expr.mul (Expr.val inv) (Expr.var v)) m0 = BitVec.ofNat w n) :
    TriOk (Expr.mul (Expr.val inv) (Expr.var v)) n m0 :=
  fun initial increment before r b h hb =>
    C01Opt.triStep_invvar_sound hw inv v ho initial increment before r b h hb m0 n hn

/-- The trip-count expressions of `analyzeLoop` fit. -/
theorem triOk_of_meaning (hw : 0 < w) (e : Expr w) (cv : Nat → BitVec w) (cond : Int)
    (h : ExprMeaning e cv cond) (m0 : Mem w) (hm0 : m0 cond = cv 0) (n : Nat) (hn : RunsExactly cv n) :
    ev e m0 = BitVec.ofNat w n ∧ n < 2 ^ w ∧ TriOk e n m0 := by
  obtain ⟨hshape, hval⟩ := h
  obtain ⟨n', hn', hlt, hev⟩ := hval m0 hm0
  have : n' = n := runsExactly_unique hn' hn
  subst this
  refine ⟨hev, hlt, ?_⟩
  rcases hshape with ⟨c, rfl⟩ | ⟨inv, ho, rfl⟩
  · have hc : c.toNat = n' := by
      rw [ev_val] at hev
      rw [hev, BitVec.toNat_ofNat, Nat.mod_eq_of_lt hlt]
    rw [← hc]; exact triOk_val c m0
  · exact triOk_invvar hw inv cond ho m0 n' hev

/-! ### the loop over the linear parts -/

theorem sumL_add {α : Type} (g h : α → BitVec w) (l : List α) :
    sumL (fun a => g a + h a) l = sumL g l + sumL h l := by
  induction l with
  | nil => simp
  | cons a l ih => simp only [sumL_cons, ih]; bvring

theorem accN_sumL {α : Type} (g : α → Nat → BitVec w) (l : List α) (n : Nat) :
    accN (fun k => sumL (fun a => g a k) l) n = sumL (fun a => accN (g a) n) l := by
  induction n with
  | zero =>
    simp only [accN_zero]
    induction l with
    | nil => rfl
    | cons a l ih => simp [← ih]
  | succ n ih => simp only [accN_succ, ih, sumL_add]

theorem triFold_spec (expr : Expr w) (n : Nat) (m0 : Mem w) (E : Nat → Mem w) (htri : TriOk expr n m0)
    (linears : List (Expr w × Expr w))
    (hlin : ∀ il ∈ linears, ∀ k, ev il.1 (E k) = ev il.1 m0 + BitVec.ofNat w k * ev il.2 m0)
    (ba0 : Expr w × Expr w) :
    ev (linears.foldl (triFoldStep expr) ba0).1 m0
        + accN (fun k => ev (linears.foldl (triFoldStep expr) ba0).2 (E k)) n
      = ev ba0.1 m0 + accN (fun k => ev ba0.2 (E k)) n
        + sumL (fun il => C01Opt.tri (ev il.1 m0) (ev il.2 m0) n) linears ∧
    (∀ q ∈ (linears.foldl (triFoldStep expr) ba0).2,
      (∃ t ∈ ba0.2, q.vars = t.vars) ∨ ∃ il ∈ linears, ∃ t ∈ il.1, q.vars = t.vars) := by
  induction linears generalizing ba0 with
  | nil =>
    refine ⟨by simp, fun q hq => Or.inl ⟨q, hq, rfl⟩⟩
  | cons il linears ih =>
    rw [List.foldl_cons]
    obtain ⟨hval, hvars⟩ := ih (fun il' h' => hlin il' (List.mem_cons_of_mem _ h')) (triFoldStep expr ba0 il)
    have hil := hlin il List.mem_cons_self
    constructor
    · rw [hval, sumL_cons]
      unfold triFoldStep
      simp only
      split
      · -- not moved: the part stays in the loop
        simp only [ev_add]
        rw [accN_add, accN_congr (fun k => ev il.1 (E k)) _ n (fun k _ => hil k), accN_lin]
        generalize ev ba0.1 m0 = a
        generalize accN (fun k => ev ba0.2 (E k)) n = b
        generalize C01Opt.tri (ev il.1 m0) (ev il.2 m0) n = c
        generalize sumL (fun il => C01Opt.tri (ev il.1 m0) (ev il.2 m0) n) linears = d
        bvring
      · rename_i hb
        have hb' : (OptArith.triStep expr il.1 il.2 ba0.1).1 ≠ 0 := by simpa using hb
        rw [htri il.1 il.2 ba0.1 (OptArith.triStep expr il.1 il.2 ba0.1).2
          (OptArith.triStep expr il.1 il.2 ba0.1).1 rfl hb']
        simp only
        generalize ev ba0.1 m0 = a
        generalize accN (fun k => ev ba0.2 (E k)) n = b
        generalize C01Opt.tri (ev il.1 m0) (ev il.2 m0) n = c
        generalize sumL (fun il => C01Opt.tri (ev il.1 m0) (ev il.2 m0) n) linears = d
        bvring
    · intro q hq
      rcases hvars q hq with ⟨t, ht, e⟩ | ⟨il', hil', t, ht, e⟩
      · unfold triFoldStep at ht
        simp only at ht
        split at ht
        · simp only at ht
          rcases mem_add_vars ht with ⟨t', ht', e'⟩ | ⟨t', ht', e'⟩
          · exact Or.inl ⟨t', ht', e.trans e'⟩
          · exact Or.inr ⟨il, List.mem_cons_self, t', ht', e.trans e'⟩
        · exact Or.inl ⟨t, ht, e⟩
      · exact Or.inr ⟨il', List.mem_cons_of_mem _ hil', t, ht, e⟩

end Hpbf.OptLoop
