/-
C03 (control flow): the fast instruction decoder of `X86Prog` (`fetchFast` over the table `fetchTable code`)
is the same function as the specification decoder `fetchList code`.  Every instruction has positive size,
so table entries never overwrite each other, and `fetchList` is `none` strictly inside an instruction and
at/after the end of the code.
-/
import Hpbf.Proofs.C03FlowBase
namespace Hpbf
namespace C03
open Asm JitGen X86Sem X86Prog

/-- Invariant of the table-filling loop. -/
theorem fetchTable_loop (xs : List X86) : ∀ (tab : Array (Option X86)) (pos : Nat),
    pos + sizeAll xs ≤ tab.size →
    (∀ pc, pos ≤ pc → (tab[pc]?).join = none) →
    ∀ pc, ((xs.foldl (fun (acc : Array (Option X86) × Nat) x =>
        (acc.1.setIfInBounds acc.2 (some x), acc.2 + x.size)) (tab, pos)).1[pc]?).join
      = if pc < pos then (tab[pc]?).join else fetchList xs (pc - pos) := by
  induction xs with
  | nil =>
    intro tab pos _ hnone pc
    simp only [List.foldl_nil, fetchList]
    split
    · rfl
    · exact hnone pc (by omega)
  | cons x xs ih =>
    intro tab pos hsz hnone pc
    have hx := size_pos x
    rw [sizeAll_cons] at hsz
    simp only [List.foldl_cons]
    rw [ih (tab.setIfInBounds pos (some x)) (pos + x.size)
      (by rw [Array.size_setIfInBounds]; omega)
      (by
        intro q hq
        rw [Array.getElem?_setIfInBounds_ne (by omega)]
        exact hnone q (by omega))]
    by_cases h1 : pc < pos
    · rw [if_pos (by omega), if_pos h1, Array.getElem?_setIfInBounds_ne (by omega)]
    · rw [if_neg h1]
      by_cases h2 : pc = pos
      · subst h2
        rw [if_pos (by omega), Array.getElem?_setIfInBounds_self_of_lt (by omega)]
        simp [fetchList]
      · by_cases h3 : pc < pos + x.size
        · rw [if_pos h3, Array.getElem?_setIfInBounds_ne (by omega), hnone pc (by omega)]
          simp only [fetchList]
          rw [if_neg (by omega), if_pos (by omega)]
        · rw [if_neg h3]
          simp only [fetchList]
          rw [if_neg (by omega), if_neg (by omega)]
          congr 1
          omega

theorem fetchFast_eq (code : List Asm.X86) :
    X86Prog.fetchFast (X86Prog.fetchTable code) = X86Prog.fetchList code := by
  funext pc
  unfold fetchFast fetchTable
  rw [fetchTable_loop code _ 0 (by simp) (by intro q _; rw [Array.getElem?_replicate]; split <;> rfl)]
  simp

end C03
end Hpbf

#print axioms Hpbf.C03.fetchFast_eq
