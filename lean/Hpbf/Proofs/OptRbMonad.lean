/-
Rebuild-round proofs: reasoning about the oracle monad `M = StateT Orders (Except String)` of `Hpbf/Opt.lean`.
-/
import Hpbf.Proofs.OptRbInv

namespace Hpbf
namespace OptProof
open Opt

variable {α β : Type}

theorem run_pure (a : α) (os : Orders) : (pure a : M α).run os = .ok (a, os) := rfl

theorem run_bind (x : M α) (f : α → M β) (os : Orders) :
    (x >>= f).run os = (match x.run os with
      | .ok (a, os1) => (f a).run os1
      | .error e => .error e) := by
  show (x >>= f) os = _
  simp only [bind, StateT.bind, Except.bind, StateT.run]
  cases x os with
  | error e => rfl
  | ok v => obtain ⟨a, os1⟩ := v; rfl

theorem run_bind_ok {x : M α} {f : α → M β} {os : Orders} {r : β × Orders} :
    (x >>= f).run os = .ok r ↔ ∃ a os1, x.run os = .ok (a, os1) ∧ (f a).run os1 = .ok r := by
  rw [run_bind]
  cases hx : x.run os with
  | error e => simp
  | ok v =>
    obtain ⟨a, os1⟩ := v
    simp only [Except.ok.injEq, Prod.mk.injEq]
    constructor
    · intro h; exact ⟨a, os1, ⟨rfl, rfl⟩, h⟩
    · rintro ⟨a', os', ⟨rfl, rfl⟩, h⟩; exact h

/-- Lifting of an `Except` computation. -/
theorem run_lift (e : Except String α) (os : Orders) :
    ((liftM e : M α)).run os = (match e with | .ok a => .ok (a, os) | .error m => .error m) := by
  cases e <;> rfl

theorem run_monadLift (e : Except String α) (os : Orders) :
    ((monadLift e : M α)).run os = (match e with | .ok a => .ok (a, os) | .error m => .error m) := by
  cases e <;> rfl

theorem run_monadLift_ok {e : Except String α} {os : Orders} {r : α × Orders} :
    ((monadLift e : M α)).run os = .ok r ↔ e = .ok r.1 ∧ r.2 = os := by
  rw [run_monadLift]
  cases e with
  | error m => simp
  | ok a =>
    obtain ⟨r1, r2⟩ := r
    simp only [Except.ok.injEq, Prod.mk.injEq]
    constructor
    · rintro ⟨rfl, rfl⟩; exact ⟨rfl, rfl⟩
    · rintro ⟨h1, h2⟩; exact ⟨h1, h2.symm⟩

theorem run_throw (m : String) (os : Orders) : ((throw m : M α)).run os = .error m := rfl

/-- Invariant rule for `foldlM` in `M`. -/
theorem foldlM_inv {γ : Type} (Inv : β → Orders → Prop) (f : β → γ → M β) (l : List γ)
    (hstep : ∀ b x os b' os', x ∈ l → Inv b os → (f b x).run os = .ok (b', os') → Inv b' os')
    {b : β} {os : Orders} {b' : β} {os' : Orders}
    (h0 : Inv b os) (hr : (l.foldlM f b).run os = .ok (b', os')) : Inv b' os' := by
  induction l generalizing b os with
  | nil =>
    rw [List.foldlM_nil, run_pure] at hr
    cases hr; exact h0
  | cons x l ih =>
    rw [List.foldlM_cons, run_bind_ok] at hr
    obtain ⟨b1, os1, h1, h2⟩ := hr
    exact ih (fun b x os b' os' hx => hstep b x os b' os' (List.mem_cons_of_mem _ hx))
      (hstep b x os b1 os1 (by simp) h0 h1) h2

end OptProof
end Hpbf
